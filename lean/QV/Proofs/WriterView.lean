/-
  QV.Proofs.WriterView — "view lemmas" about the writer model (`QV.Model.Writer`): what each
  operation the request handler uses does to the header octets, the counts, the `edns` field, the
  size limits and the octets of the question, stated as equations between states, and what
  `finish` makes of such a state (counts written, OPT record appended).

  Independent of the writer's own invariant/refinement proofs (C12/C13); only the small frame
  facts the server theorems C03/C07/C08/C09 need.
-/
import QV.Proofs.WriterV0

namespace QV.Writer
open QV

/-! ### `writeAt` -/

theorem writeAt_getElem? (data : List UInt8) : ∀ (a : Bytes) (pos i : Nat),
    (writeAt a pos data)[i]? =
      if pos ≤ i ∧ i < pos + data.length ∧ i < a.size then data[i - pos]? else a[i]? := by
  induction data with
  | nil =>
    intro a pos i
    rw [if_neg (by simp only [List.length_nil]; omega)]
    rfl
  | cons b bs ih =>
    intro a pos i
    simp only [writeAt]
    rw [ih, Array.size_setIfInBounds]
    by_cases h1 : pos = i
    · subst h1
      by_cases hs : pos < a.size
      · rw [if_neg (by omega), if_pos (by simp only [List.length_cons]; omega)]
        simp [hs]
      · rw [if_neg (by omega), if_neg (by omega)]
        simp [hs]
    · by_cases h2 : pos + 1 ≤ i ∧ i < pos + 1 + bs.length ∧ i < a.size
      · rw [if_pos h2, if_pos (by simp only [List.length_cons]; omega)]
        have : i - pos = (i - (pos + 1)) + 1 := by omega
        rw [this, List.getElem?_cons_succ]
      · rw [if_neg h2, if_neg (by simp only [List.length_cons]; omega)]
        simp [Array.getElem?_setIfInBounds, h1]

/-! ### the monad, pointwise -/

theorem bind_apply {α β} (x : M α) (f : α → M β) (s : State) :
    (x >>= f) s = match x s with
      | (.ok a, s') => f a s'
      | (.err e, s') => (.err e, s')
      | (.panic, s') => (.panic, s') := rfl

theorem bind_ok {α β} {x : M α} {f : α → M β} {s s' : State} {a : α} (h : x s = (.ok a, s')) :
    (x >>= f) s = f a s' := by rw [bind_apply, h]

theorem pure_apply {α} (a : α) (s : State) : (pure a : M α) s = (.ok a, s) := rfl
theorem get_apply (s : State) : M.get s = (.ok s, s) := rfl
theorem modify_apply (f : State → State) (s : State) : M.modify f s = (.ok (), f s) := rfl

/-! ### pushing octets -/

theorem write_ok (pos : Nat) (data : List UInt8) (s : State) (h : pos + data.length ≤ s.octets.size) :
    write pos data s = (.ok (), { s with octets := writeAt s.octets pos data }) := by
  simp [write, h]

theorem tryPush_ok (data : List UInt8) (s : State) (h1 : s.cursor + data.length ≤ s.available)
    (h2 : s.cursor + data.length ≤ s.octets.size) :
    tryPush data s =
      (.ok (), { s with octets := writeAt s.octets s.cursor data, cursor := s.cursor + data.length }) := by
  unfold tryPush
  have a : ¬ s.available < s.cursor := by omega
  have b : s.available - s.cursor ≥ data.length := by omega
  simp only [a, b, h2, if_false, if_true]

theorem u16be_length (v : Nat) : (u16be v).length = 2 := rfl
theorem u32be_length (v : Nat) : (u32be v).length = 4 := rfl

/-! ### header operations as state transformers -/

/-- `octets[i] = f(octets[i])` -/
def stHdr (i : Nat) (f : UInt8 → UInt8) (s : State) : State :=
  { s with octets := s.octets.setIfInBounds i (f (s.octets.getD i 0)) }

theorem setHdr_eq (i : Nat) (f : UInt8 → UInt8) (s : State) (h : i < s.octets.size) :
    setHdr i f s = (.ok (), stHdr i f s) := by
  unfold setHdr stHdr
  simp only [h, dite_true]
  congr 2
  simp [Array.setIfInBounds, h, Array.getD]

theorem setId_eq (id : Nat) (s : State) (h : 2 ≤ s.octets.size) :
    setId id s = (.ok (), { s with octets := writeAt s.octets 0 (u16be id) }) := by
  unfold setId
  rw [write_ok _ _ _ (by simp [Gen.ID_START, u16be_length]; omega)]
  rfl

/-- `set_rcode` -/
def stRcode (rc : Nat) (s : State) : State :=
  let s1 := stHdr 3 (fun b => (b &&& ~~~ (15 : UInt8)) ||| UInt8.ofNat rc) s
  match s1.edns with
  | some e => { s1 with edns := some { e with upper := 0 } }
  | none => s1

theorem setRcode_eq (rc : Nat) (s : State) (h : 3 < s.octets.size) :
    setRcode rc s = (.ok (), stRcode rc s) := by
  unfold setRcode
  rw [bind_ok (setHdr_eq _ _ s (by simpa [Gen.RCODE_BYTE] using h))]
  rw [modify_apply]
  rfl

/-- `set_extended_rcode` on an EDNS response -/
def stXRcode (raw : Nat) (e : Edns) (s : State) : State :=
  { stHdr 3 (fun b => (b &&& ~~~ (15 : UInt8)) ||| (UInt8.ofNat (raw % 256) &&& 15)) s with
    edns := some { e with upper := (raw / 16) % 256 } }

theorem setExtendedRcode_eq (raw : Nat) (e : Edns) (s : State) (he : s.edns = some e) (hr : raw ≤ 4095)
    (h : 3 < s.octets.size) : setExtendedRcode raw s = (.ok (), stXRcode raw e s) := by
  rw [setExtendedRcode_v0]
  unfold V0.setExtendedRcode
  rw [he]
  simp only [show ¬ raw > 4095 by omega, if_false]
  rw [setHdr_eq _ _ s (by simpa [Gen.RCODE_BYTE] using h)]
  rfl

/-- `set_edns` -/
def stEdns (payload : Nat) (s : State) : State :=
  { s with arcount := s.arcount + 1, available := s.available - Gen.OPT_RECORD_SIZE, edns := some ⟨payload, 0⟩ }

theorem setEdns_eq (payload : Nat) (s : State) (h1 : s.edns = none) (h2 : s.cursor + 11 ≤ s.available)
    (h3 : s.arcount + 1 ≤ 65535) : setEdns payload s = (.ok (), stEdns payload s) := by
  unfold setEdns stEdns
  have c : Gen.OPT_RECORD_SIZE = 11 := rfl
  simp only [h1, Option.isSome_none, Bool.false_eq_true, if_false, c,
    show ¬ s.cursor + 11 > s.available by omega, show ¬ s.arcount + 1 > 65535 by omega]

/-- `set_limit` upwards -/
def stLimit (nl : Nat) (s : State) : State :=
  { s with limit := nl, available := s.available + (nl - s.limit) }

theorem setLimit_up (nl : Nat) (s : State) (h1 : s.limit ≤ nl) (h2 : nl ≤ s.octets.size) :
    setLimit nl s = (.ok (), stLimit nl s) := by
  unfold setLimit stLimit
  have e : min nl s.octets.size = nl := Nat.min_eq_left h2
  simp only [show nl ≥ s.limit from h1, if_true, e, show ¬ nl < s.limit by omega, if_false]

/-! ### `add_question` on a writer that holds nothing but the header -/

theorem root_wire : WName.root.wire = [0] := rfl

theorem writeUncompressedName_ok (n : WName) (s : State) (h1 : s.cursor + n.wire.length ≤ s.available)
    (h2 : s.cursor + n.wire.length ≤ s.octets.size) :
    ∃ p gl, writeUncompressedName n s =
      (.ok p, { s with octets := writeAt s.octets s.cursor n.wire, cursor := s.cursor + n.wire.length,
                       gLabels := gl }) := by
  rw [writeUncompressedName_v0]
  unfold V0.writeUncompressedName
  rw [tryPush_ok _ _ h1 h2]
  simp only [ghostLabels, modify_apply]
  exact ⟨_, _, rfl⟩

/-- the first question: written uncompressed at the cursor, `QDCOUNT = 1`, RRs start after it;
    the limits, the counts of the RR sections, `edns`, `tsig` are untouched -/
theorem addQuestion_first (qn : WName) (qt qc : Nat) (s : State)
    (hsect : s.sect = .question) (hqd : s.qdcount = 0)
    (hq : s.qname = none) (ho : s.mostRecentOwner = none) (hr : s.mostRecentNameInRdata = none)
    (h1 : s.cursor + qn.wire.length + 4 ≤ s.available) (h2 : s.available ≤ s.octets.size) :
    ∃ s', addQuestion qn qt qc s = (.ok (), s') ∧
      s'.octets = writeAt (writeAt (writeAt s.octets s.cursor qn.wire) (s.cursor + qn.wire.length) (u16be qt))
                    (s.cursor + qn.wire.length + 2) (u16be qc) ∧
      s'.cursor = s.cursor + qn.wire.length + 4 ∧ s'.rrStart = s.cursor + qn.wire.length + 4 ∧
      s'.qdcount = 1 ∧ s'.ancount = s.ancount ∧ s'.nscount = s.nscount ∧ s'.arcount = s.arcount ∧
      s'.limit = s.limit ∧ s'.available = s.available ∧ s'.edns = s.edns ∧ s'.tsig = s.tsig ∧
      s'.sect = .question := by
  -- the name is written uncompressed: there is no prior name to point to
  have hname : ∀ s0 : State, s0.qname = none → s0.mostRecentOwner = none → s0.mostRecentNameInRdata = none →
      writeUnhintedName qn s0 = writeUncompressedName qn s0 := by
    intro s0 a b c
    rw [writeUnhintedName_v0]
    unfold V0.writeUnhintedName
    split
    · rw [writeCompressedUnhintedName_v0]
      unfold V0.writeCompressedUnhintedName compressDecision
      simp [a, b, c]
    · rfl
  let sA : State := { s with gCtx := .qname }
  obtain ⟨p, gl, hw⟩ := writeUncompressedName_ok qn sA (by show s.cursor + _ ≤ s.available; omega)
    (by show s.cursor + _ ≤ s.octets.size; omega)
  let sB : State := { sA with octets := writeAt sA.octets sA.cursor qn.wire,
                              cursor := sA.cursor + qn.wire.length, gLabels := gl }
  let sC : State := { sB with gCtx := .none, qname := p }
  let sD : State := { sC with octets := writeAt sC.octets sC.cursor (u16be qt), cursor := sC.cursor + 2 }
  let sE : State := { sD with octets := writeAt sD.octets sD.cursor (u16be qc), cursor := sD.cursor + 2 }
  have hC1 : tryPushU16 qt sC = (.ok (), sD) := by
    unfold tryPushU16
    rw [tryPush_ok _ _ (by show s.cursor + qn.wire.length + 2 ≤ s.available; omega)
      (by rw [writeAt_size]; show s.cursor + qn.wire.length + 2 ≤ s.octets.size; omega)]
    rfl
  have hD1 : tryPushU16 qc sD = (.ok (), sE) := by
    unfold tryPushU16
    rw [tryPush_ok _ _ (by show s.cursor + qn.wire.length + 2 + 2 ≤ s.available; omega)
      (by rw [writeAt_size, writeAt_size]; show s.cursor + qn.wire.length + 2 + 2 ≤ s.octets.size; omega)]
    rfl
  refine ⟨{ sE with qdcount := 1, rrStart := sE.cursor }, ?_, ?_, ?_, ?_, ?_, ?_, ?_, ?_, ?_, ?_,
          ?_, ?_, ?_⟩
  rotate_left
  · simp only [sE, sD, sC, sB, sA]
  · simp only [sE, sD, sC, sB, sA]
  · simp only [sE, sD, sC, sB, sA]
  · simp only [sE, sD, sC, sB, sA]
  · simp only [sE, sD, sC, sB, sA]
  · simp only [sE, sD, sC, sB, sA]
  · simp only [sE, sD, sC, sB, sA]
  · simp only [sE, sD, sC, sB, sA]
  · simp only [sE, sD, sC, sB, sA]
  · simp only [sE, sD, sC, sB, sA]
  · simp only [sE, sD, sC, sB, sA]
  · simp only [sE, sD, sC, sB, sA]; exact hsect
  · rw [addQuestion_v0]
    unfold V0.addQuestion
    simp only [hsect, ne_eq, not_true_eq_false, if_false, hqd, show ¬ (0 + 1 > 65535) by omega]
    have step : (do
        setCtx .qname
        let p ← writeUnhintedName qn
        setCtx .none
        let st ← M.get
        if st.qdcount = 0 then M.modify fun s => { s with qname := p }
        tryPushU16 qt
        tryPushU16 qc : M Unit) s = (.ok (), sE) := by
      rw [bind_ok (show setCtx .qname s = (.ok (), sA) from rfl)]
      rw [bind_ok (show writeUnhintedName qn sA = (.ok p, sB) by rw [hname sA hq ho hr]; exact hw)]
      rw [bind_ok (show setCtx .none sB = (.ok (), { sB with gCtx := .none }) from rfl)]
      rw [bind_ok (get_apply _)]
      rw [if_pos (show sB.qdcount = 0 from hqd)]
      rw [bind_ok (show (M.modify fun s => { s with qname := p }) { sB with gCtx := NameCtx.none }
        = (.ok (), sC) from rfl)]
      show (tryPushU16 qt >>= fun _ => tryPushU16 qc) sC = (.ok (), sE)
      rw [bind_ok hC1]
      exact hD1
    unfold withRollback
    rw [step]
    simp only [sE, sD, sC, sB, sA, hqd]

/-! ### `finish` on a response without TSIG -/

/-- the four counts written into the header -/
def withCounts (s : State) : Bytes :=
  writeAt (writeAt (writeAt (writeAt s.octets 4 (u16be s.qdcount)) 6 (u16be s.ancount)) 8 (u16be s.nscount)) 10
    (u16be s.arcount)

/-- the OPT record `finish` appends: root owner, TYPE 41, CLASS = payload size, TTL = extended
    RCODE bits / version 0 / flags 0, empty RDATA -/
def optRecord (e : Edns) : List UInt8 :=
  [0] ++ u16be 41 ++ u16be e.payload ++ u32be ((e.upper * 16777216) % 4294967296) ++ u16be 0

theorem T_OPT_eq : T_OPT = 41 := by decide

theorem componentTypes_opt41 (cls : Nat) : componentTypes cls 41 = some [] :=
  componentTypes_unknown cls 41 (by decide)

theorem writeAt_append (d1 d2 : List UInt8) : ∀ (a : Bytes) (pos : Nat),
    writeAt (writeAt a pos d1) (pos + d1.length) d2 = writeAt a pos (d1 ++ d2) := by
  induction d1 with
  | nil => intro a pos; rfl
  | cons b bs ih =>
    intro a pos
    simp only [writeAt, List.cons_append, List.length_cons]
    rw [← ih]
    congr 1
    omega

theorem writeAt_append' (d1 d2 : List UInt8) (a : Bytes) (pos pos2 : Nat) (h : pos2 = pos + d1.length) :
    writeAt (writeAt a pos d1) pos2 d2 = writeAt a pos (d1 ++ d2) := by
  subst h; exact writeAt_append d1 d2 a pos

/-- `add_rr` for the root owner and empty RDATA of a type without name components (OPT): the
    eleven octets are appended at the cursor -/
theorem addRr_root_empty (ty cls ttl : Nat) (s0 : State) (hty : componentTypes cls ty = some [])
    (h1 : s0.cursor + 11 ≤ s0.available) (h2 : s0.cursor + 11 ≤ s0.octets.size) :
    ∃ s', addRr .none WName.root ty cls ttl [] s0 = (.ok (), s') ∧
      s'.octets = writeAt s0.octets s0.cursor ([0] ++ u16be ty ++ u16be cls ++ u32be ttl ++ u16be 0) ∧
      s'.cursor = s0.cursor + 11 := by
  let sA : State := { s0 with gCtx := .owner }
  obtain ⟨p, gl, hw⟩ := writeUncompressedName_ok WName.root sA
    (by rw [root_wire]; show s0.cursor + 1 ≤ s0.available; omega)
    (by rw [root_wire]; show s0.cursor + 1 ≤ s0.octets.size; omega)
  simp only [root_wire, List.length_singleton] at hw
  let sB : State := { sA with octets := writeAt sA.octets sA.cursor [0], cursor := sA.cursor + 1, gLabels := gl }
  have hB : writeHintedName .none WName.root sA = (.ok p, sB) := by
    rw [writeHintedName_v0]
    unfold V0.writeHintedName
    rw [if_pos (Or.inr (by rw [root_wire]; decide))]
    exact hw
  let sC : State := { sB with gCtx := .none, mostRecentOwner := p }
  have zC : sC.octets.size = s0.octets.size := by simp only [sC, sB, sA, writeAt_size]
  have cC : sC.cursor = s0.cursor + 1 := rfl
  have aC : sC.available = s0.available := rfl
  let sD : State := { sC with octets := writeAt sC.octets sC.cursor (u16be ty), cursor := sC.cursor + 2 }
  have zD : sD.octets.size = s0.octets.size := by simp only [sD, writeAt_size, zC]
  have cD : sD.cursor = s0.cursor + 1 + 2 := rfl
  have aD : sD.available = s0.available := rfl
  let sE : State := { sD with octets := writeAt sD.octets sD.cursor (u16be cls), cursor := sD.cursor + 2 }
  have zE : sE.octets.size = s0.octets.size := by simp only [sE, writeAt_size, zD]
  have cE : sE.cursor = s0.cursor + 1 + 2 + 2 := rfl
  have aE : sE.available = s0.available := rfl
  let sF : State := { sE with octets := writeAt sE.octets sE.cursor (u32be ttl), cursor := sE.cursor + 4 }
  have zF : sF.octets.size = s0.octets.size := by simp only [sF, writeAt_size, zE]
  have cF : sF.cursor = s0.cursor + 1 + 2 + 2 + 4 := rfl
  have aF : sF.available = s0.available := rfl
  let sG : State := { sF with cursor := sF.cursor + 2 }
  have zG : sG.octets.size = s0.octets.size := by simp only [sG]; exact zF
  have cG : sG.cursor = sF.cursor + 2 := rfl
  let sH : State := { sG with octets := writeAt sG.octets sF.cursor (u16be 0) }
  have hD : tryPushU16 ty sC = (.ok (), sD) := by
    unfold tryPushU16
    rw [tryPush_ok _ _ (by rw [cC, aC, u16be_length]; omega) (by rw [cC, zC, u16be_length]; omega)]
    simp only [sD, u16be_length]
  have hE : tryPushU16 cls sD = (.ok (), sE) := by
    unfold tryPushU16
    rw [tryPush_ok _ _ (by rw [cD, aD, u16be_length]; omega) (by rw [cD, zD, u16be_length]; omega)]
    simp only [sE, u16be_length]
  have hF : tryPushU32 ttl sE = (.ok (), sF) := by
    unfold tryPushU32
    rw [tryPush_ok _ _ (by rw [cE, aE, u32be_length]; omega) (by rw [cE, zE, u32be_length]; omega)]
    simp only [sF, u32be_length]
  have e0 : (sG.cursor - sF.cursor - 2) % 65536 = 0 := by rw [cG]; omega
  have hH : write sF.cursor (u16be ((sG.cursor - sF.cursor - 2) % 65536)) sG = (.ok (), sH) := by
    rw [e0, write_ok _ _ _ (by rw [cF, zG, u16be_length]; omega)]
  refine ⟨sH, ?_, ?_, ?_⟩
  · have hty0 : V0.componentTypes cls ty = [] := by simp [V0.componentTypes, hty]
    rw [addRr_v0]
    unfold V0.addRr
    rw [bind_ok (show setCtx .owner s0 = (.ok (), sA) from rfl)]
    rw [bind_ok hB]
    rw [bind_ok (show setCtx .none sB = (.ok (), { sB with gCtx := .none }) from rfl)]
    rw [bind_ok (show (M.modify fun s => { s with mostRecentOwner := p }) { sB with gCtx := NameCtx.none }
      = (.ok (), sC) from rfl)]
    rw [bind_ok hD, bind_ok hE, bind_ok hF, bind_ok (get_apply _)]
    rw [if_neg (show ¬ sF.available < sF.cursor by rw [aF, cF]; omega)]
    rw [if_neg (show ¬ sF.available - sF.cursor < 2 by rw [aF, cF]; omega)]
    rw [bind_ok (show (M.modify fun s => { s with cursor := s.cursor + 2 }) sF = (.ok (), sG) from rfl)]
    rw [hty0]
    rw [bind_ok (show writeComponents [] [] sG = (.ok (), sG) from rfl)]
    rw [bind_ok (get_apply _)]
    rw [if_neg (show ¬ sG.cursor < sF.cursor + 2 by rw [cG]; omega)]
    exact hH
  · simp only [sH, sG, sF, sE, sD, sC, sB, sA]
    rw [writeAt_append' _ _ _ _ _ (by rw [u32be_length])]
    rw [writeAt_append' _ _ _ _ _ (by rw [u16be_length])]
    rw [writeAt_append' _ _ _ _ _ (by rw [u16be_length])]
    rw [writeAt_append' _ _ _ _ _ (by rfl)]
    simp only [List.append_assoc]
  · have e1 : sH.cursor = sF.cursor + 2 := by simp only [sH, sG]
    rw [e1, cF]

/-- the four `write`s of the counts, in continuation form -/
theorem writeCounts_k {β} (s : State) (k : M β) (hsz : 12 ≤ s.octets.size) :
    (do write 4 (u16be s.qdcount); write 6 (u16be s.ancount); write 8 (u16be s.nscount)
        write 10 (u16be s.arcount); k) s = k { s with octets := withCounts s } := by
  rw [bind_ok (write_ok 4 _ s (by simp [u16be_length]; omega))]
  rw [bind_ok (write_ok 6 _ _ (by simp [u16be_length, writeAt_size]; omega))]
  rw [bind_ok (write_ok 8 _ _ (by simp [u16be_length, writeAt_size]; omega))]
  rw [bind_ok (write_ok 10 _ _ (by simp [u16be_length, writeAt_size]; omega))]
  unfold withCounts
  simp only

theorem finish_plain (s : State) (macFn : Tsig → List UInt8 → List UInt8) (ht : s.tsig = none)
    (he : s.edns = none) (hsz : 12 ≤ s.octets.size) :
    finish s macFn = .ok ((withCounts s).extract 0 s.cursor, none) := by
  unfold finish
  rw [finishWithMac_v0]
  unfold V0.finishWithMac
  have c : Gen.QDCOUNT_START = 4 ∧ Gen.ANCOUNT_START = 6 ∧ Gen.NSCOUNT_START = 8 ∧ Gen.ARCOUNT_START = 10 :=
    ⟨rfl, rfl, rfl, rfl⟩
  obtain ⟨c1, c2, c3, c4⟩ := c
  rw [bind_ok (get_apply _)]
  simp only [he, ht]
  rw [c1, c2, c3, c4]
  rw [writeCounts_k s _ hsz]
  rw [bind_ok (get_apply _), pure_apply]

/-- the EDNS part of `finish`, in continuation form: the reserved octets are released and the OPT
    record is appended at the cursor -/
theorem finishEdns_k (s4 : State) (e : Edns) (h1 : s4.cursor ≤ s4.available)
    (h2 : s4.available + 11 ≤ s4.octets.size) :
    ∃ s1, (∀ {β} (k : M β), (do
        M.modify fun s => { s with available := s.available + Gen.OPT_RECORD_SIZE }
        unwrap (addRr .none WName.root T_OPT e.payload ((e.upper * 16777216) % 4294967296) [])
        k) s4 = k s1) ∧
      s1.octets = writeAt s4.octets s4.cursor (optRecord e) ∧ s1.cursor = s4.cursor + 11 := by
  have hty : componentTypes e.payload T_OPT = some [] := by rw [T_OPT_eq]; exact componentTypes_opt41 _
  obtain ⟨s1, hadd, hoct, hcur1⟩ := addRr_root_empty T_OPT e.payload ((e.upper * 16777216) % 4294967296)
    { s4 with available := s4.available + Gen.OPT_RECORD_SIZE } hty
    (by show s4.cursor + 11 ≤ s4.available + 11; omega) (by show s4.cursor + 11 ≤ s4.octets.size; omega)
  refine ⟨s1, ?_, ?_, hcur1⟩
  · intro β k
    rw [bind_ok (modify_apply _ _)]
    have hun : unwrap (addRr .none WName.root T_OPT e.payload ((e.upper * 16777216) % 4294967296) [])
        { s4 with available := s4.available + Gen.OPT_RECORD_SIZE } = (.ok (), s1) := by
      unfold unwrap; rw [hadd]
    rw [bind_ok hun]
  · rw [hoct, T_OPT_eq]; rfl

theorem finish_edns (s : State) (macFn : Tsig → List UInt8 → List UInt8) (e : Edns) (ht : s.tsig = none)
    (he : s.edns = some e) (hsz : 12 ≤ s.octets.size) (hcur : s.cursor ≤ s.available)
    (hav : s.available + 11 ≤ s.octets.size) :
    finish s macFn = .ok ((writeAt (withCounts s) s.cursor (optRecord e)).extract 0 (s.cursor + 11), none) := by
  unfold finish
  rw [finishWithMac_v0]
  unfold V0.finishWithMac
  have c : Gen.QDCOUNT_START = 4 ∧ Gen.ANCOUNT_START = 6 ∧ Gen.NSCOUNT_START = 8 ∧ Gen.ARCOUNT_START = 10 :=
    ⟨rfl, rfl, rfl, rfl⟩
  obtain ⟨c1, c2, c3, c4⟩ := c
  rw [bind_ok (get_apply _)]
  simp only [he, ht]
  rw [c1, c2, c3, c4]
  rw [writeCounts_k s _ hsz]
  have hz : ({ s with octets := withCounts s } : State).octets.size = s.octets.size := by
    simp only [withCounts, writeAt_size]
  obtain ⟨s1, hk, ho, hc⟩ := finishEdns_k { s with octets := withCounts s } e hcur
    (by rw [hz]; exact hav)
  rw [hk]
  rw [bind_ok (get_apply _), pure_apply]
  simp only [ho, hc]

end QV.Writer
