/-
  QV.Proofs.ServerAnswerEntry — the writer state `handle_message_with_context` hands to
  `handle_query` satisfies `QueryReady` (the entry condition of C05).

  The scan's refinement theorem (`QV.ServerScan.scanAndDispatch_answer`, lean/QV/Proofs/ScanRefine.lean)
  shows that when the request reaches a loaded zone without a TSIG record, `handle_query` is run on
  the explicit state `arSt (qSt (hdrSt (w0 bufLen (lim0 tr)) id opcode rd) (some q)) tr payload e l`:
  `Writer::new`, the four header setters, `add_question`, and — if the scan met an OPT record —
  `set_edns`, and over UDP `set_limit l` with `512 ≤ l ≤ max 512 payload`. Here: that state is
  `QueryReady`, call by call (`preQuestion_new`, `preQuestion_call`, `queryReady_addQuestion`,
  `queryReady_call`).
-/
import QV.Proofs.ServerAnswerCap
import QV.Proofs.ServerMsg
import QV.Proofs.ServerSigned

namespace QV.ServerAnswer
open QV QV.Writer QV.Server QV.ServerScan

/-- the header-only writer of `handle_message`: `Writer::new` + `set_id`, `set_qr`, `set_opcode`, `set_rd` -/
theorem preQuestion_hdrSt (bufLen : Nat) (tr : Transport) (payload id opcode : Nat) (rd : Bool)
    (hbuf : minBuf tr payload ≤ bufLen) (hpay : 512 ≤ payload) :
    PreQuestion (hdrSt (w0 bufLen (lim0 tr)) id opcode rd) := by
  have h12 : 12 ≤ min (lim0 tr) bufLen := by
    cases tr <;> simp only [lim0, minBuf] at hbuf ⊢ <;> omega
  have h0 : PreQuestion (w0 bufLen (lim0 tr)) :=
    preQuestion_new (Array.replicate bufLen 0) (lim0 tr) (by cases tr <;> simp [lim0]) _ (new_eq bufLen (lim0 tr) h12)
  have hsz0 : (w0 bufLen (lim0 tr)).octets.size = bufLen := w0_size _ _
  have hB : 12 ≤ bufLen := by omega
  generalize w0 bufLen (lim0 tr) = W at h0 hsz0 ⊢
  -- set_id
  have h1 : PreQuestion ({ W with octets := writeAt W.octets 0 (u16be id) }) := by
    have := preQuestion_call (.setId id) _ h0 trivial trivial
    have e : (ServerSafety.Call.setId id).run W = setId id W := rfl
    rw [e, setId_eq id _ (by rw [hsz0]; omega)] at this
    exact this
  generalize hW1 : ({ W with octets := writeAt W.octets 0 (u16be id) } : State) = W1 at h1
  have hsz1 : W1.octets.size = bufLen := by
    rw [← hW1]; simp only [writeAt_size]; exact hsz0
  -- set_qr(true)
  have h2 := preQuestion_call (.setBit Gen.QR_BYTE Gen.QR_MASK true) _ h1 (show Gen.QR_BYTE < Gen.HEADER_SIZE by decide) trivial
  have e2 : (ServerSafety.Call.setBit Gen.QR_BYTE Gen.QR_MASK true).run W1 = setBit Gen.QR_BYTE Gen.QR_MASK true W1 := rfl
  rw [e2, setBit_eq _ _ _ _ (by rw [hsz1]; show 2 < bufLen; omega)] at h2
  simp only [] at h2
  generalize hW2 : stHdr Gen.QR_BYTE (bitF Gen.QR_MASK true) W1 = W2 at h2
  have hsz2 : W2.octets.size = bufLen := by rw [← hW2, stHdr_size, hsz1]
  -- set_opcode
  have h3 := preQuestion_call (.setOpcode opcode) _ h2 trivial trivial
  have e3 : (ServerSafety.Call.setOpcode opcode).run W2 = setOpcode opcode W2 := rfl
  rw [e3, setOpcode_eq _ _ (by rw [hsz2]; omega)] at h3
  simp only [] at h3
  generalize hW3 : stHdr 2 (opF opcode) W2 = W3 at h3
  have hsz3 : W3.octets.size = bufLen := by rw [← hW3, stHdr_size, hsz2]
  have hd : hdrSt W id opcode rd = if opcode = 0 then stHdr 2 (bitF Gen.RD_MASK rd) W3 else W3 := by
    unfold hdrSt
    simp only []
    rw [← hW3, ← hW2, ← hW1]
    rfl
  rw [hd]
  by_cases hop : opcode = 0
  · rw [if_pos hop]
    -- set_rd
    have h4 := preQuestion_call (.setBit Gen.RD_BYTE Gen.RD_MASK rd) _ h3 (show Gen.RD_BYTE < Gen.HEADER_SIZE by decide) trivial
    have e4 : (ServerSafety.Call.setBit Gen.RD_BYTE Gen.RD_MASK rd).run W3 = setBit Gen.RD_BYTE Gen.RD_MASK rd W3 := rfl
    rw [e4, setBit_eq _ _ _ _ (by rw [hsz3]; show 2 < bufLen; omega)] at h4
    exact h4
  · rw [if_neg hop]
    exact h3

/-- **the state `handle_query` is entered in (no TSIG) is `QueryReady`** -/
theorem queryReady_scan_state (bufLen : Nat) (tr : Transport) (payload id opcode : Nat) (rd : Bool)
    (hbuf : minBuf tr payload ≤ bufLen) (hpay : 512 ≤ payload) (hpay16 : payload ≤ 65535)
    (q : Spec.DQuestion) (qn : WName) (hp : WName.parse q.qname = some (qn, [])) (hw : qn.wire = q.qname)
    (hl : q.qname.length ≤ 255) (hqwf : qn.WF) (e : Bool) (l : Nat) (hl1 : 512 ≤ l) (hl2 : l ≤ max 512 payload) :
    QueryReady (arSt (qSt (hdrSt (w0 bufLen (lim0 tr)) id opcode rd) (some q)) tr payload e l) qn := by
  have hH := hdrSt_ok bufLen tr payload id opcode rd hbuf hpay
  have hpre := preQuestion_hdrSt bufLen tr payload id opcode rd hbuf hpay
  obtain ⟨hadd, hbase, _⟩ := qSt_some _ tr payload hH q qn hp hw hl
  have hq1 : QueryReady (qSt (hdrSt (w0 bufLen (lim0 tr)) id opcode rd) (some q)) qn :=
    queryReady_addQuestion qn q.qtype q.qclass hqwf _ _ hpre hadd
  generalize qSt (hdrSt (w0 bufLen (lim0 tr)) id opcode rd) (some q) = s1 at hbase hq1
  unfold arSt
  cases e with
  | false => exact hq1
  | true =>
    simp only [if_true]
    -- set_edns
    have hE := queryReady_call (.setEdns payload) s1 qn hq1 trivial trivial
    have eE : (ServerSafety.Call.setEdns payload).run s1 = setEdns payload s1 := rfl
    rw [eE, setEdns_eq payload s1 hbase.edns hbase.room hbase.ar] at hE
    simp only [] at hE
    cases tr with
    | tcp => exact hE
    | udp =>
      simp only []
      -- set_limit(clamp(opt.class, 512, payload))
      have hL := queryReady_call (.setLimit l) _ qn hE (show l ≤ 65535 by omega) (show l ≤ 65535 by omega)
      have eL : (ServerSafety.Call.setLimit l).run (stEdns payload s1) = setLimit l (stEdns payload s1) := rfl
      have hlim : (stEdns payload s1).limit = 512 := by
        show s1.limit = 512; rw [hbase.lim]; rfl
      have hsz : l ≤ (stEdns payload s1).octets.size := by
        show l ≤ s1.octets.size
        have := hbase.buf rfl
        omega
      rw [eL, setLimit_up l _ (by rw [hlim]; exact hl1) hsz] at hL
      exact hL

/-! ### authenticated (TSIG-signed) requests

  `QV.ServerScan.tsigProcess_some_state` (lean/QV/Proofs/ServerSigned.lean): when the TSIG step
  authenticates the request, the writer it leaves is
  `withTsig (stRcode 0 S0) (.response alg requestMac key) (prepOf keyName tsig now 0)` with
  `TsigFits`, where `S0` is the state of the scan so far (`preTsigState` = the `arSt …` state
  above): `set_rcode(NOERROR)` followed by a successful `set_tsig`. -/

open QV.ServerTsig in
/-- `set_rcode(0)` + a fitting `set_tsig` keep `QueryReady` -/
theorem queryReady_withTsig (s : State) (qn : WName) (h : QueryReady s qn) (mode : TsigMode) (rr : TsigRr)
    (hfit : TsigFits (stRcode 0 s) mode rr)
    (hpre : rr.keyName.WF ∧ (tsigAlgName mode).WF ∧ rr.timeSigned.length = 6 ∧ rr.serverTime.length = 6) :
    QueryReady (withTsig (stRcode 0 s) mode rr) qn := by
  have h3 : 3 < s.octets.size := by
    have hi := h.safe.inv
    have := hi.hdr; have := hi.cur_av; have := hi.av_lim; have := hi.lim_size
    omega
  have h1 := queryReady_call (.setRcode 0) s qn h trivial trivial
  have e1 : (ServerSafety.Call.setRcode 0).run s = setRcode 0 s := rfl
  rw [e1, setRcode_eq 0 s h3] at h1
  simp only [] at h1
  have h2 := queryReady_call (.setTsig mode rr) _ qn h1 hpre trivial
  have e2 : (ServerSafety.Call.setTsig mode rr).run (stRcode 0 s) = setTsig mode rr (stRcode 0 s) := rfl
  rw [e2, setTsig_fits mode rr _ hfit] at h2
  exact h2

open QV.ServerTsig in
/-- **the state `handle_query` is entered in for an authenticated request is `QueryReady`** -/
theorem queryReady_signed_state (bufLen : Nat) (tr : Transport) (payload id opcode : Nat) (rd : Bool)
    (hbuf : minBuf tr payload ≤ bufLen) (hpay : 512 ≤ payload) (hpay16 : payload ≤ 65535)
    (q : Spec.DQuestion) (qn : WName) (hp : WName.parse q.qname = some (qn, [])) (hw : qn.wire = q.qname)
    (hl : q.qname.length ≤ 255) (hqwf : qn.WF) (e : Bool) (l : Nat) (hl1 : 512 ≤ l) (hl2 : l ≤ max 512 payload)
    (alg : Hmac.Alg) (mac secret : List UInt8) (t : Tsig.ReadTsigRr) (kn : WName) (nowT : Tsig.TimeSigned)
    (hkn : WName.parse t.keyName = some (kn, []))
    (hfit : TsigFits (stRcode 0 (arSt (qSt (hdrSt (w0 bufLen (lim0 tr)) id opcode rd) (some q)) tr payload e l))
      (.response (toWriterAlg alg) mac secret) (prepOf kn t nowT 0)) :
    QueryReady (withTsig (stRcode 0 (arSt (qSt (hdrSt (w0 bufLen (lim0 tr)) id opcode rd) (some q)) tr payload e l))
      (.response (toWriterAlg alg) mac secret) (prepOf kn t nowT 0)) qn := by
  refine queryReady_withTsig _ qn
    (queryReady_scan_state bufLen tr payload id opcode rd hbuf hpay hpay16 q qn hp hw hl hqwf e l hl1 hl2) _ _ hfit ?_
  refine ⟨Writer.parse_wf hkn, ServerSafety.algName_WF _, ?_, ?_⟩
  · show (if (0 : Nat) = 18 then (Tsig.ReadTsigRr.timeSigned t).asSlice else nowT.asSlice).length = 6
    simp
  · rfl

end QV.ServerAnswer
