/-
  QV.Proofs.Tsig — helper lemmas for C11 (model `QV.Model.Tsig` ↔ spec `QV.Spec.Tsig`).
-/
import QV.Model.Tsig
import QV.Spec.Tsig
import QV.Proofs.Wire

namespace QV.Tsig
open QV

/-! ### integers on the wire -/

theorem ofNat_inj256 (a b : Nat) (ha : a < 256) (hb : b < 256) (h : UInt8.ofNat a = UInt8.ofNat b) : a = b := by
  have := congrArg UInt8.toNat h
  simp at this
  omega

theorem u16be_inj (a b : Nat) (ha : a < 65536) (hb : b < 65536) (h : u16be a = u16be b) : a = b := by
  unfold u16be at h
  simp only [List.cons.injEq, and_true] at h
  have h1 := ofNat_inj256 _ _ (Nat.mod_lt _ (by decide)) (Nat.mod_lt _ (by decide)) h.1
  have h2 := ofNat_inj256 _ _ (Nat.mod_lt _ (by decide)) (Nat.mod_lt _ (by decide)) h.2
  omega

theorem u16be_length (n : Nat) : (u16be n).length = 2 := by simp [u16be]

theorem toBe16_inj (x y : UInt16) (h : toBe16 x = toBe16 y) : x = y :=
  UInt16.toNat_inj.mp (u16be_inj _ _ x.toNat_lt y.toNat_lt h)

@[simp] theorem toBe16_length (x : UInt16) : (toBe16 x).length = 2 := by simp [toBe16, u16be]

theorem u16be_mod_eq_spec (n : Nat) : u16be (n % 65536) = Spec.Tsig.u16 n := by
  unfold u16be Spec.Tsig.u16
  have h1 : n % 65536 / 256 % 256 = n / 256 % 256 := by omega
  have h2 : n % 65536 % 256 = n % 256 := by omega
  rw [h1, h2]

theorem toBe16_eq_spec (x : UInt16) : toBe16 x = Spec.Tsig.u16 x.toNat := rfl

@[simp] theorem asSlice_length (t : TimeSigned) : t.asSlice.length = 6 := rfl

theorem asSlice_inj (s t : TimeSigned) (h : s.asSlice = t.asSlice) : s = t := by
  cases s; cases t; simp [TimeSigned.asSlice] at h; simp [h]

theorem toUnix_lt (t : TimeSigned) : t.toUnix < 2^48 := by
  unfold TimeSigned.toUnix
  have h0 := t.b0.toNat_lt; have h1 := t.b1.toNat_lt; have h2 := t.b2.toNat_lt
  have h3 := t.b3.toNat_lt; have h4 := t.b4.toNat_lt; have h5 := t.b5.toNat_lt
  omega

theorem asSlice_eq_spec (t : TimeSigned) : t.asSlice = Spec.Tsig.u48 t.toUnix := by
  unfold TimeSigned.asSlice Spec.Tsig.u48 TimeSigned.toUnix
  have h0 := t.b0.toNat_lt; have h1 := t.b1.toNat_lt; have h2 := t.b2.toNat_lt
  have h3 := t.b3.toNat_lt; have h4 := t.b4.toNat_lt; have h5 := t.b5.toNat_lt
  have e0 : (t.b0.toNat * 2^40 + t.b1.toNat * 2^32 + t.b2.toNat * 2^24 + t.b3.toNat * 2^16 + t.b4.toNat * 2^8 + t.b5.toNat) / 2^40 % 256 = t.b0.toNat := by omega
  have e1 : (t.b0.toNat * 2^40 + t.b1.toNat * 2^32 + t.b2.toNat * 2^24 + t.b3.toNat * 2^16 + t.b4.toNat * 2^8 + t.b5.toNat) / 2^32 % 256 = t.b1.toNat := by omega
  have e2 : (t.b0.toNat * 2^40 + t.b1.toNat * 2^32 + t.b2.toNat * 2^24 + t.b3.toNat * 2^16 + t.b4.toNat * 2^8 + t.b5.toNat) / 2^24 % 256 = t.b2.toNat := by omega
  have e3 : (t.b0.toNat * 2^40 + t.b1.toNat * 2^32 + t.b2.toNat * 2^24 + t.b3.toNat * 2^16 + t.b4.toNat * 2^8 + t.b5.toNat) / 2^16 % 256 = t.b3.toNat := by omega
  have e4 : (t.b0.toNat * 2^40 + t.b1.toNat * 2^32 + t.b2.toNat * 2^24 + t.b3.toNat * 2^16 + t.b4.toNat * 2^8 + t.b5.toNat) / 2^8 % 256 = t.b4.toNat := by omega
  have e5 : (t.b0.toNat * 2^40 + t.b1.toNat * 2^32 + t.b2.toNat * 2^24 + t.b3.toNat * 2^16 + t.b4.toNat * 2^8 + t.b5.toNat) % 256 = t.b5.toNat := by omega
  rw [e0, e1, e2, e3, e4, e5]
  simp

/-- `rd16` reads the field the spec calls `field16` -/
theorem rd16_toNat (l : Octets) (i : Nat) : (rd16 l i).toNat = Spec.Tsig.field16 l i := by
  unfold rd16 Spec.Tsig.field16
  generalize l.getD i 0 = a
  generalize l.getD (i + 1) 0 = b
  have h1 := a.toNat_lt
  have h2 := b.toNat_lt
  simp; omega

theorem rd16_eq_zero_iff (l : Octets) (i : Nat) : rd16 l i = 0 ↔ Spec.Tsig.field16 l i = 0 := by
  rw [← rd16_toNat]
  constructor
  · intro h; rw [h]; rfl
  · intro h; exact UInt16.toNat_inj.mp (by simpa using h)

theorem rd16_sub_one (l : Octets) (i : Nat) (h : rd16 l i ≠ 0) :
    (rd16 l i - 1).toNat = Spec.Tsig.field16 l i - 1 := by
  have hne : Spec.Tsig.field16 l i ≠ 0 := fun e => h ((rd16_eq_zero_iff l i).mpr e)
  rw [← rd16_toNat] at hne ⊢
  have : (1 : UInt16) ≤ rd16 l i := by
    rw [UInt16.le_iff_toNat_le]; simp; omega
  rw [UInt16.toNat_sub_of_le _ _ this]; rfl

/-- a 16-bit field written at the end of `a` is read back -/
theorem rd16_append_toBe16 (a b : Octets) (x : UInt16) : rd16 (a ++ (toBe16 x ++ b)) a.length = x := by
  unfold rd16 toBe16 u16be
  apply UInt16.toNat_inj.mp
  have hx := x.toNat_lt
  simp [List.getD_eq_getElem?_getD]
  omega

theorem ofList_asSlice (t : TimeSigned) (rest : Octets) :
    TimeSigned.ofList ((t.asSlice ++ rest).take 6) = t := by
  cases t; simp [TimeSigned.ofList, TimeSigned.asSlice]

/-! ### names -/

/-- uncompressed wire form of a name: labels `len ‖ content` (`len ≠ 0`), then the root label.
    (The length limits of RFC 1035 play no role in the framing arguments.) -/
inductive WireName : Octets → Prop
  | root : WireName [0]
  | label (len : UInt8) (content rest : Octets) : len ≠ 0 → content.length = len.toNat →
      WireName rest → WireName (len :: (content ++ rest))

/-- wire names are self-delimiting: a name is never a proper prefix of another one -/
theorem WireName.prefix_free {a b x y : Octets} (ha : WireName a) (hb : WireName b)
    (h : a ++ x = b ++ y) : a = b ∧ x = y := by
  induction ha generalizing b with
  | root =>
    cases hb with
    | root => simpa using h
    | label len c r hl hc hr => simp at h; exact absurd h.1.symm hl
  | label len c r hl hc hr ih =>
    cases hb with
    | root => simp at h; exact absurd h.1 hl
    | label len' c' r' hl' hc' hr' =>
      simp only [List.cons_append, List.cons.injEq, List.append_assoc] at h
      obtain ⟨h1, h2⟩ := h
      subst h1
      obtain ⟨e1, e2⟩ := List.append_inj h2 (by omega)
      subst e1
      obtain ⟨e3, e4⟩ := ih hr' e2
      subst e3
      exact ⟨rfl, e4⟩

/-- wire form of the name with labels `ls` -/
def wireOf (ls : List Octets) : Octets := ls.flatMap (fun l => UInt8.ofNat l.length :: l) ++ [0]

theorem wireName_wireOf (ls : List Octets) (h : ∀ l ∈ ls, 1 ≤ l.length ∧ l.length ≤ 63) :
    WireName (wireOf ls) := by
  induction ls with
  | nil => exact WireName.root
  | cons l ls ih =>
    have hl := h l (by simp)
    have : wireOf (l :: ls) = UInt8.ofNat l.length :: (l ++ wireOf ls) := by simp [wireOf]
    rw [this]
    refine WireName.label _ _ _ ?_ ?_ (ih (fun l' hl' => h l' (by simp [hl'])))
    · intro e
      have := congrArg UInt8.toNat e
      simp at this; omega
    · simp; omega

theorem lowerU8_eq_spec : ∀ b : UInt8, lowerU8 b = Spec.Tsig.lower b := by
  apply Wire.forall_uint8; unfold lowerU8 Spec.Tsig.lower; decide +kernel

theorem lowerU8_small (n : Nat) (h : n ≤ 63) : lowerU8 (UInt8.ofNat n) = UInt8.ofNat n := by
  unfold lowerU8
  have : (UInt8.ofNat n).toNat = n := by simp; omega
  rw [this]; simp; omega

theorem map_lowerU8_eq_spec (l : Octets) : l.map lowerU8 = l.map Spec.Tsig.lower :=
  List.map_congr_left (fun b _ => lowerU8_eq_spec b)

/-- `Box<LowercaseName>::from(name)`: lower-casing the wire form of a name gives the canonical
    wire format of RFC 4034 §6.2 -/
theorem lowerName_wireOf (ls : List Octets) (h : ∀ l ∈ ls, l.length ≤ 63) :
    lowerName (wireOf ls) = Spec.Tsig.canonName ls := by
  induction ls with
  | nil => simp [wireOf, lowerName, Spec.Tsig.canonName, lowerU8]
  | cons l ls ih =>
    have hl := h l (by simp)
    have ih' := ih (fun l' hl' => h l' (by simp [hl']))
    simp only [wireOf, lowerName, Spec.Tsig.canonName, List.flatMap_cons, List.map_append, List.map_cons,
      List.append_assoc, List.cons_append] at ih' ⊢
    rw [lowerU8_small _ hl, ih', map_lowerU8_eq_spec]

/-- the canonical form of a name is again a wire name -/
theorem wireName_canonName (ls : List Octets) (h : ∀ l ∈ ls, 1 ≤ l.length ∧ l.length ≤ 63) :
    WireName (Spec.Tsig.canonName ls) := by
  have : Spec.Tsig.canonName ls = wireOf (ls.map (·.map Spec.Tsig.lower)) := by
    simp [Spec.Tsig.canonName, wireOf, List.flatMap_map]
  rw [this]
  apply wireName_wireOf
  intro l hl
  obtain ⟨l0, h0, rfl⟩ := List.mem_map.mp hl
  simpa using h l0 h0

/-! ### the digest input: model = spec -/

/-- the model's variables carry what the RFC's TSIG variables describe -/
structure Abstracts (v : Variables) (sv : Spec.Tsig.Vars) : Prop where
  keyName : v.keyName = Spec.Tsig.canonName sv.keyName
  algorithm : v.algorithm = Spec.Tsig.canonName sv.algName
  cls : sv.cls = 255
  ttl : sv.ttl = 0
  timeSigned : v.timeSigned.toUnix = sv.timeSigned
  fudge : v.fudge.toNat = sv.fudge
  error : v.error.toNat = sv.error
  other : v.other = sv.other

theorem addModifiedMessage_eq {ε} (msg : Octets) (id : UInt16) :
    addModifiedMessage (ε := ε) msg id =
      if 12 ≤ msg.length ∧ 1 ≤ Spec.Tsig.field16 msg 10 then .ok (Spec.Tsig.digestMessage msg id.toNat)
      else .panic := by
  unfold addModifiedMessage
  simp only [Gen.ARCOUNT_START, Gen.ARCOUNT_END, Gen.ID_END]
  by_cases h12 : 12 ≤ msg.length
  · by_cases h0 : rd16 msg 10 = 0
    · have := (rd16_eq_zero_iff msg 10).mp h0
      simp [h0, this]
    · have hne : Spec.Tsig.field16 msg 10 ≠ 0 := fun e => h0 ((rd16_eq_zero_iff msg 10).mpr e)
      have h1 : ¬ msg.length < 10 := by omega
      have h2 : ¬ msg.length < 12 := by omega
      have h3 : 1 ≤ Spec.Tsig.field16 msg 10 := by omega
      simp only [h1, h2, h0, h12, h3, if_false, and_self, if_true]
      unfold Spec.Tsig.digestMessage
      rw [toBe16_eq_spec, toBe16_eq_spec, rd16_sub_one msg 10 h0]
  · have : ¬ (12 ≤ msg.length ∧ 1 ≤ Spec.Tsig.field16 msg 10) := fun h => h12 h.1
    simp only [this, if_false]
    by_cases h10 : msg.length < 10
    · simp [h10]
    · have : msg.length < 12 := by omega
      simp [h10, this]

theorem classTtl_eq : Gen.TSIG_CLASS_TTL = Spec.Tsig.u16 255 ++ Spec.Tsig.u32 0 := by decide

theorem addTsigTimers_eq (v : Variables) (sv : Spec.Tsig.Vars) (h : Abstracts v sv) :
    addTsigTimers v = Spec.Tsig.tsigTimers sv := by
  unfold addTsigTimers Spec.Tsig.tsigTimers
  rw [asSlice_eq_spec, toBe16_eq_spec, h.timeSigned, h.fudge]

theorem addTsigVariables_eq (v : Variables) (sv : Spec.Tsig.Vars) (h : Abstracts v sv) :
    addTsigVariables v = Spec.Tsig.tsigVariables sv := by
  unfold addTsigVariables Spec.Tsig.tsigVariables addTsigTimers
  rw [asSlice_eq_spec, toBe16_eq_spec, toBe16_eq_spec, u16be_mod_eq_spec, classTtl_eq,
    h.timeSigned, h.fudge, h.error, h.other, h.keyName, h.algorithm, h.cls, h.ttl]
  simp only [List.append_assoc]

theorem addPriorMac_eq (mac : Octets) : addPriorMac mac = Spec.Tsig.macWithSize mac := by
  unfold addPriorMac Spec.Tsig.macWithSize; rw [u16be_mod_eq_spec]

theorem requestInput_eq {ε} (msg : Octets) (id : UInt16) (v : Variables) (sv : Spec.Tsig.Vars)
    (h : Abstracts v sv) :
    requestInput (ε := ε) msg id v =
      if 12 ≤ msg.length ∧ 1 ≤ Spec.Tsig.field16 msg 10
      then .ok (Spec.Tsig.digestInput .request msg id.toNat sv []) else .panic := by
  unfold requestInput
  rw [addModifiedMessage_eq]
  split <;> simp [Spec.Tsig.digestInput, addTsigVariables_eq v sv h]

theorem responseInput_eq {ε} (msg pm : Octets) (id : UInt16) (v : Variables) (sv : Spec.Tsig.Vars)
    (h : Abstracts v sv) :
    responseInput (ε := ε) msg pm id v =
      if 12 ≤ msg.length ∧ 1 ≤ Spec.Tsig.field16 msg 10
      then .ok (Spec.Tsig.digestInput .response msg id.toNat sv pm) else .panic := by
  unfold responseInput
  rw [addModifiedMessage_eq]
  split <;> simp [Spec.Tsig.digestInput, addTsigVariables_eq v sv h, addPriorMac_eq]

theorem subsequentInput_eq {ε} (msg pm : Octets) (id : UInt16) (v : Variables) (sv : Spec.Tsig.Vars)
    (h : Abstracts v sv) :
    subsequentInput (ε := ε) msg pm id v =
      if 12 ≤ msg.length ∧ 1 ≤ Spec.Tsig.field16 msg 10
      then .ok (Spec.Tsig.digestInput .subsequent msg id.toNat sv pm) else .panic := by
  unfold subsequentInput
  rw [addModifiedMessage_eq]
  split <;> simp [Spec.Tsig.digestInput, addTsigTimers_eq v sv h, addPriorMac_eq]


/-! ### verification -/

theorem outputSize_cases (alg : Algorithm) : alg.outputSize = 20 ∨ alg.outputSize = 32 := by
  cases alg <;> simp [Hmac.Alg.outputSize]

theorem checkMacSize_eq (alg : Algorithm) (n : Nat) :
    checkMacSize alg n = if Spec.Tsig.MacSizeAllowed alg.outputSize n then .ok () else .err .FormErr := by
  unfold checkMacSize Spec.Tsig.MacSizeAllowed
  simp only [Gen.TSIG_MIN_MAC_SIZE]
  by_cases h : n ≤ alg.outputSize ∧ 10 ≤ n ∧ alg.outputSize ≤ 2 * n
  · have : ¬ (n > alg.outputSize ∨ n < max 10 ((alg.outputSize + 1) / 2)) := by omega
    simp [h, this]
  · have : n > alg.outputSize ∨ n < max 10 ((alg.outputSize + 1) / 2) := by omega
    simp [h, this]

theorem checkTime_eq (ts : TimeSigned) (fudge : UInt16) (now : TimeSigned) :
    checkTime ts fudge now =
      if Spec.Tsig.TimeOk now.toUnix ts.toUnix fudge.toNat then .ok () else .err .BadTime := by
  unfold checkTime Spec.Tsig.TimeOk
  have h1 := toUnix_lt ts
  have h2 := fudge.toNat_lt
  by_cases h : now.toUnix ≤ ts.toUnix + fudge.toNat ∧ ts.toUnix ≤ now.toUnix + fudge.toNat
  · have : now.toUnix ≥ ts.toUnix - fudge.toNat ∧ now.toUnix ≤ min (ts.toUnix + fudge.toNat) (2^64 - 1) := by omega
    simp only [h, this]
  · have : ¬ (now.toUnix ≥ ts.toUnix - fudge.toNat ∧ now.toUnix ≤ min (ts.toUnix + fudge.toNat) (2^64 - 1)) := by omega
    simp only [h, this]

/-- the verdict of RFC 8945 §5.2 as an outcome of the code -/
def verdictOut : Spec.Tsig.Verdict → Out VerificationError Unit
  | .ok => .ok ()
  | .formErr => .err .FormErr
  | .badSig => .err .BadSig
  | .badTime => .err .BadTime

theorem verificationCore_def (hm : Algorithm → Octets → Octets → Octets) (r : ReadTsigRr)
    (input : Out VerificationError Octets) (alg : Algorithm) (key : Octets) (now : TimeSigned) :
    verificationCore hm r input alg key now =
      if r.algorithm ≠ alg.name then .panic
      else Out.bind (checkMacSize alg r.macSize) (fun _ => Out.bind input (fun data =>
        if verifyTruncatedLeft alg (hm alg key data) r.mac then checkTime r.timeSigned r.fudge now
        else .err .BadSig)) := rfl

theorem verifyTruncatedLeft_eq (alg : Algorithm) (tag mac : Octets)
    (h : Spec.Tsig.MacSizeAllowed alg.outputSize mac.length) :
    verifyTruncatedLeft alg tag mac = decide (tag.take mac.length = mac) := by
  unfold Spec.Tsig.MacSizeAllowed at h
  have e0 : mac ≠ [] := by intro e; rw [e] at h; simp at h
  have e2 : ¬ alg.outputSize < mac.length := by omega
  simp [verifyTruncatedLeft, e0, e2]
  by_cases hh : List.take (List.length mac) tag = mac <;> simp [hh]

theorem verificationCore_ok_input (hm : Algorithm → Octets → Octets → Octets) (r : ReadTsigRr) (d : Octets)
    (alg : Algorithm) (key : Octets) (now : TimeSigned)
    (halg : r.algorithm = alg.name) (hv : r.mac.length = r.macSize) :
    verificationCore hm r (.ok d) alg key now =
      verdictOut (Spec.Tsig.verdict alg.outputSize (hm alg key d) r.mac now.toUnix
        r.timeSigned.toUnix r.fudge.toNat) := by
  rw [verificationCore_def, if_neg (fun h => h halg), checkMacSize_eq]
  unfold Spec.Tsig.verdict
  rw [hv]
  by_cases hs : Spec.Tsig.MacSizeAllowed alg.outputSize r.macSize
  · have hvt := verifyTruncatedLeft_eq alg (hm alg key d) r.mac (hv ▸ hs)
    rw [hv] at hvt
    by_cases hm' : List.take r.macSize (hm alg key d) = r.mac
    · by_cases ht : Spec.Tsig.TimeOk now.toUnix r.timeSigned.toUnix r.fudge.toNat
      · simp [Out.bind, hs, hvt, hm', ht, checkTime_eq, verdictOut]
      · simp [Out.bind, hs, hvt, hm', ht, checkTime_eq, verdictOut]
    · simp [Out.bind, hs, hvt, hm', verdictOut]
  · simp [Out.bind, hs, verdictOut]

theorem verificationCore_panic_input (hm : Algorithm → Octets → Octets → Octets) (r : ReadTsigRr)
    (alg : Algorithm) (key : Octets) (now : TimeSigned) (halg : r.algorithm = alg.name) :
    verificationCore hm r .panic alg key now =
      if Spec.Tsig.MacSizeAllowed alg.outputSize r.macSize then .panic else .err .FormErr := by
  rw [verificationCore_def, if_neg (fun h => h halg), checkMacSize_eq]
  split <;> rfl

theorem verificationCore_alg_mismatch (hm : Algorithm → Octets → Octets → Octets) (r : ReadTsigRr)
    (input : Out VerificationError Octets) (alg : Algorithm) (key : Octets) (now : TimeSigned)
    (halg : r.algorithm ≠ alg.name) : verificationCore hm r input alg key now = .panic := by
  rw [verificationCore_def, if_pos halg]


/-! ### reading back what was serialised -/

theorem drop_prefix (a b : Octets) (n : Nat) (h : a.length = n) : (a ++ b).drop n = b := by
  subst h; simp

theorem rd16_at (a b : Octets) (x : UInt16) (n : Nat) (h : a.length = n) :
    rd16 (a ++ (toBe16 x ++ b)) n = x := by subst h; exact rd16_append_toBe16 a b x

/-- the record a reader holds after `ReadTsigRr::try_from` on RDATA serialised from these fields -/
def readOf (keyName algorithm : Octets) (ts : TimeSigned) (fudge : UInt16) (mac : Octets)
    (originalId error : UInt16) (other : Octets) : ReadTsigRr :=
  ⟨keyName, algorithm, mac.length, serializeTsig algorithm ts fudge mac originalId error other⟩

section accessors
variable (kn alg : Octets) (ts : TimeSigned) (f : UInt16) (mac : Octets) (id err : UInt16) (other : Octets)

theorem readOf_timeSigned : (readOf kn alg ts f mac id err other).timeSigned = ts := by
  unfold ReadTsigRr.timeSigned ReadTsigRr.algoLen readOf
  simp only [serializeTsig, List.append_assoc]
  rw [drop_prefix alg _ _ rfl, ofList_asSlice]

theorem readOf_fudge : (readOf kn alg ts f mac id err other).fudge = f := by
  unfold ReadTsigRr.fudge ReadTsigRr.algoLen readOf
  have : serializeTsig alg ts f mac id err other =
      (alg ++ ts.asSlice) ++ (toBe16 f ++ (u16be (mac.length % 65536) ++ mac ++ toBe16 id ++ toBe16 err
        ++ u16be (other.length % 65536) ++ other)) := by simp [serializeTsig, List.append_assoc]
  rw [this]
  exact rd16_at _ _ _ _ (by simp)

theorem readOf_mac : (readOf kn alg ts f mac id err other).mac = mac := by
  unfold ReadTsigRr.mac ReadTsigRr.algoLen readOf
  have : serializeTsig alg ts f mac id err other =
      (alg ++ ts.asSlice ++ toBe16 f ++ u16be (mac.length % 65536)) ++ (mac ++ (toBe16 id ++ toBe16 err
        ++ u16be (other.length % 65536) ++ other)) := by simp [serializeTsig, List.append_assoc]
  rw [this]
  rw [drop_prefix _ _ _ (by simp [u16be_length] <;> omega)]
  simp

theorem readOf_originalId : (readOf kn alg ts f mac id err other).originalId = id := by
  unfold ReadTsigRr.originalId ReadTsigRr.algoLen readOf
  have : serializeTsig alg ts f mac id err other =
      (alg ++ ts.asSlice ++ toBe16 f ++ u16be (mac.length % 65536) ++ mac) ++ (toBe16 id ++ (toBe16 err
        ++ u16be (other.length % 65536) ++ other)) := by simp [serializeTsig, List.append_assoc]
  rw [this]
  exact rd16_at _ _ _ _ (by simp [u16be_length] <;> omega)

theorem readOf_error : (readOf kn alg ts f mac id err other).error = err := by
  unfold ReadTsigRr.error ReadTsigRr.algoLen readOf
  have : serializeTsig alg ts f mac id err other =
      (alg ++ ts.asSlice ++ toBe16 f ++ u16be (mac.length % 65536) ++ mac ++ toBe16 id) ++ (toBe16 err
        ++ (u16be (other.length % 65536) ++ other)) := by simp [serializeTsig, List.append_assoc]
  rw [this]
  exact rd16_at _ _ _ _ (by simp [u16be_length] <;> omega)

theorem readOf_other : (readOf kn alg ts f mac id err other).other = other := by
  unfold ReadTsigRr.other ReadTsigRr.algoLen readOf
  have : serializeTsig alg ts f mac id err other =
      (alg ++ ts.asSlice ++ toBe16 f ++ u16be (mac.length % 65536) ++ mac ++ toBe16 id ++ toBe16 err
        ++ u16be (other.length % 65536)) ++ other := by simp [serializeTsig, List.append_assoc]
  rw [this]
  exact drop_prefix _ _ _ (by simp [u16be_length] <;> omega)

theorem readOf_vars : (readOf kn alg ts f mac id err other).vars = ⟨kn, alg, ts, f, err, other⟩ := by
  unfold ReadTsigRr.vars
  rw [readOf_timeSigned, readOf_fudge, readOf_error, readOf_other]
  rfl

end accessors

/-! ### the MAC input is uniquely readable -/

theorem exists_header (m : Octets) (h : 12 ≤ m.length) :
    ∃ a0 a1 a2 a3 a4 a5 a6 a7 a8 a9 a10 a11 body,
      m = a0 :: a1 :: a2 :: a3 :: a4 :: a5 :: a6 :: a7 :: a8 :: a9 :: a10 :: a11 :: body := by
  rcases m with _ | ⟨a0, _ | ⟨a1, _ | ⟨a2, _ | ⟨a3, _ | ⟨a4, _ | ⟨a5, _ | ⟨a6, _ | ⟨a7, _ | ⟨a8, _ | ⟨a9,
    _ | ⟨a10, _ | ⟨a11, body⟩⟩⟩⟩⟩⟩⟩⟩⟩⟩⟩⟩
  all_goals first
    | (simp at h; done)
    | exact ⟨_, _, _, _, _, _, _, _, _, _, _, _, _, rfl⟩

theorem rd16_inj_bytes (a b c d : UInt8)
    (h : UInt16.ofNat (a.toNat * 256 + b.toNat) = UInt16.ofNat (c.toNat * 256 + d.toNat)) : a = c ∧ b = d := by
  have := congrArg UInt16.toNat h
  have ha := a.toNat_lt; have hb := b.toNat_lt; have hc := c.toNat_lt; have hd := d.toNat_lt
  simp at this
  constructor <;> apply UInt8.toNat_inj.mp <;> omega

theorem sub_one_inj (x y : UInt16) (h : x - 1 = y - 1) : x = y := by
  have := congrArg (· + 1) h
  simpa using this

/-- what `add_modified_message` produces, on a message split into header octets and body -/
theorem addModifiedMessage_cons {ε} (a0 a1 a2 a3 a4 a5 a6 a7 a8 a9 a10 a11 : UInt8) (body : Octets) (id : UInt16) :
    addModifiedMessage (ε := ε) (a0 :: a1 :: a2 :: a3 :: a4 :: a5 :: a6 :: a7 :: a8 :: a9 :: a10 :: a11 :: body) id =
      if rd16 (a0 :: a1 :: a2 :: a3 :: a4 :: a5 :: a6 :: a7 :: a8 :: a9 :: a10 :: a11 :: body) 10 = 0 then .panic
      else .ok (toBe16 id ++ ([a2, a3, a4, a5, a6, a7, a8, a9]
                ++ (toBe16 (rd16 (a0 :: a1 :: a2 :: a3 :: a4 :: a5 :: a6 :: a7 :: a8 :: a9 :: a10 :: a11 :: body) 10 - 1) ++ body))) := by
  unfold addModifiedMessage
  simp only [Gen.ARCOUNT_START, Gen.ARCOUNT_END, Gen.ID_END]
  have h1 : ¬ (a0 :: a1 :: a2 :: a3 :: a4 :: a5 :: a6 :: a7 :: a8 :: a9 :: a10 :: a11 :: body).length < 10 := by
    simp only [List.length_cons]; omega
  have h2 : ¬ (a0 :: a1 :: a2 :: a3 :: a4 :: a5 :: a6 :: a7 :: a8 :: a9 :: a10 :: a11 :: body).length < 12 := by
    simp only [List.length_cons]; omega
  simp only [h1, h2, if_false, List.drop_succ_cons, List.drop_zero, List.take_succ_cons, List.take_zero,
    List.append_assoc, Nat.reduceSub]

theorem rd16_cons10 (a0 a1 a2 a3 a4 a5 a6 a7 a8 a9 a10 a11 : UInt8) (body : Octets) :
    rd16 (a0 :: a1 :: a2 :: a3 :: a4 :: a5 :: a6 :: a7 :: a8 :: a9 :: a10 :: a11 :: body) 10
      = UInt16.ofNat (a10.toNat * 256 + a11.toNat) := by
  simp [rd16]

theorem addModifiedMessage_ok_len {ε} (m : Octets) (id : UInt16) (d : Octets)
    (h : addModifiedMessage (ε := ε) m id = .ok d) : 12 ≤ m.length ∧ rd16 m 10 ≠ 0 := by
  unfold addModifiedMessage at h
  simp only [Gen.ARCOUNT_START, Gen.ARCOUNT_END] at h
  by_cases h1 : m.length < 10
  · simp [h1] at h
  · by_cases h2 : m.length < 12
    · simp [h1, h2] at h
    · by_cases h3 : rd16 m 10 = 0
      · simp [h1, h2, h3] at h
      · exact ⟨by omega, h3⟩

/-- The message part of the MAC input determines the original ID and the ten header octets after
    the ID; the rest of the input is the message body followed by what was appended. -/
theorem addModifiedMessage_split {ε} (m m' : Octets) (id id' : UInt16) (d d' x x' : Octets)
    (h : addModifiedMessage (ε := ε) m id = .ok d) (h' : addModifiedMessage (ε := ε) m' id' = .ok d')
    (he : d ++ x = d' ++ x') :
    id = id' ∧ (m.drop 2).take 10 = (m'.drop 2).take 10 ∧ m.drop 12 ++ x = m'.drop 12 ++ x' := by
  obtain ⟨hlen, hz⟩ := addModifiedMessage_ok_len m id d h
  obtain ⟨hlen', hz'⟩ := addModifiedMessage_ok_len m' id' d' h'
  obtain ⟨a0, a1, a2, a3, a4, a5, a6, a7, a8, a9, a10, a11, body, rfl⟩ := exists_header m hlen
  obtain ⟨b0, b1, b2, b3, b4, b5, b6, b7, b8, b9, b10, b11, body', rfl⟩ := exists_header m' hlen'
  rw [addModifiedMessage_cons, if_neg hz] at h
  rw [addModifiedMessage_cons, if_neg hz'] at h'
  cases h; cases h'
  simp only [List.append_assoc] at he
  obtain ⟨e1, he⟩ := List.append_inj he (by simp)
  have hid := toBe16_inj _ _ e1
  simp only [List.cons_append, List.nil_append, List.cons.injEq] at he
  obtain ⟨c2, c3, c4, c5, c6, c7, c8, c9, he⟩ := he
  obtain ⟨e2, hrest⟩ := List.append_inj he (by simp)
  have hx := sub_one_inj _ _ (toBe16_inj _ _ e2)
  rw [rd16_cons10, rd16_cons10] at hx
  obtain ⟨c10, c11⟩ := rd16_inj_bytes _ _ _ _ hx
  subst c2 c3 c4 c5 c6 c7 c8 c9 c10 c11
  exact ⟨hid, by simp, by simpa using hrest⟩

theorem drop2_of_parts (m m' : Octets) (h1 : (m.drop 2).take 10 = (m'.drop 2).take 10)
    (h2 : m.drop 12 = m'.drop 12) : m.drop 2 = m'.drop 2 := by
  have e : ∀ l : Octets, l.drop 2 = (l.drop 2).take 10 ++ l.drop 12 := by
    intro l
    have := (List.take_append_drop 10 (l.drop 2)).symm
    rwa [List.drop_drop] at this
  rw [e m, e m', h1, h2]

/-- … hence, for messages of equal length, every octet of the message except its two ID octets,
    and whatever follows the message in the input. -/
theorem addModifiedMessage_inj {ε} (m m' : Octets) (id id' : UInt16) (d d' x x' : Octets)
    (h : addModifiedMessage (ε := ε) m id = .ok d) (h' : addModifiedMessage (ε := ε) m' id' = .ok d')
    (hl : m.length = m'.length) (he : d ++ x = d' ++ x') :
    id = id' ∧ m.drop 2 = m'.drop 2 ∧ x = x' := by
  obtain ⟨hid, hh, hb⟩ := addModifiedMessage_split m m' id id' d d' x x' h h' he
  obtain ⟨e3, e4⟩ := List.append_inj hb (by simp [hl])
  exact ⟨hid, drop2_of_parts m m' hh e3, e4⟩

/-- neither message body is a proper prefix of the other (true of well-framed DNS messages that
    agree on their section counts: the counts determine where the message ends) -/
def BodiesPrefixFree (m m' : Octets) : Prop :=
  ∀ z, (m.drop 12 ++ z = m'.drop 12 ∨ m'.drop 12 ++ z = m.drop 12) → z = []

theorem addModifiedMessage_inj_pf {ε} (m m' : Octets) (id id' : UInt16) (d d' x x' : Octets)
    (h : addModifiedMessage (ε := ε) m id = .ok d) (h' : addModifiedMessage (ε := ε) m' id' = .ok d')
    (hpf : BodiesPrefixFree m m') (he : d ++ x = d' ++ x') :
    id = id' ∧ m.drop 2 = m'.drop 2 ∧ x = x' := by
  obtain ⟨hid, hh, hb⟩ := addModifiedMessage_split m m' id id' d d' x x' h h' he
  rcases List.append_eq_append_iff.mp hb with ⟨a, e1, e2⟩ | ⟨c, e1, e2⟩
  · have := hpf a (Or.inl e1.symm); subst this
    simp at e1 e2
    exact ⟨hid, drop2_of_parts m m' hh e1.symm, e2⟩
  · have := hpf c (Or.inr e1.symm); subst this
    simp at e1 e2
    exact ⟨hid, drop2_of_parts m m' hh e1, e2.symm⟩

/-- the TSIG variables are uniquely readable: names are self-delimiting, the fields between them and
    the last field have fixed widths -/
theorem addTsigVariables_inj (v v' : Variables) (hk : WireName v.keyName) (hk' : WireName v'.keyName)
    (ha : WireName v.algorithm) (ha' : WireName v'.algorithm)
    (h : addTsigVariables v = addTsigVariables v') : v = v' := by
  unfold addTsigVariables addTsigTimers at h
  simp only [List.append_assoc] at h
  obtain ⟨e1, h⟩ := WireName.prefix_free hk hk' h
  obtain ⟨_, h⟩ := List.append_inj h rfl
  obtain ⟨e2, h⟩ := WireName.prefix_free ha ha' h
  obtain ⟨e3, h⟩ := List.append_inj h (by simp)
  obtain ⟨e4, h⟩ := List.append_inj h (by simp)
  obtain ⟨e5, h⟩ := List.append_inj h (by simp)
  obtain ⟨_, e6⟩ := List.append_inj h (by simp [u16be_length])
  cases v; cases v'
  simp only [Variables.mk.injEq]
  exact ⟨e1, e2, asSlice_inj _ _ e3, toBe16_inj _ _ e4, toBe16_inj _ _ e5, e6⟩

theorem addTsigTimers_inj (v v' : Variables) (x x' : Octets)
    (h : addTsigTimers v ++ x = addTsigTimers v' ++ x') :
    v.timeSigned = v'.timeSigned ∧ v.fudge = v'.fudge ∧ x = x' := by
  unfold addTsigTimers at h
  simp only [List.append_assoc] at h
  obtain ⟨e3, h⟩ := List.append_inj h (by simp)
  obtain ⟨e4, h⟩ := List.append_inj h (by simp)
  exact ⟨asSlice_inj _ _ e3, toBe16_inj _ _ e4, h⟩

/-- a MAC with its 16-bit size in front is uniquely readable as long as the size fits the field -/
theorem addPriorMac_inj (p p' x x' : Octets) (hp : p.length ≤ 65535) (hp' : p'.length ≤ 65535)
    (h : addPriorMac p ++ x = addPriorMac p' ++ x') : p = p' ∧ x = x' := by
  unfold addPriorMac at h
  simp only [List.append_assoc] at h
  obtain ⟨e1, h⟩ := List.append_inj h (by simp [u16be_length])
  have := u16be_inj _ _ (Nat.mod_lt _ (by decide)) (Nat.mod_lt _ (by decide)) e1
  exact List.append_inj h (by omega)


/-! ### `ReadTsigRr::try_from` on serialised RDATA -/

theorem parse_sha1 (rest : Octets) :
    Wire.parseUncompressed (hmacSha1Name ++ rest).toArray false = .ok ⟨hmacSha1Name, 2, 11⟩ := by
  unfold Wire.parseUncompressed
  have h : Wire.uncompAux (hmacSha1Name ++ rest).toArray true 0 0 = .ok (11, 2) := by
    rw [Wire.uncompAux]
    simp [hmacSha1Name, Gen.MAX_LABEL_LEN, Gen.MAX_N_LABELS, Gen.MAX_WIRE_LEN]
    rw [Wire.uncompAux]
    simp [Gen.MAX_LABEL_LEN, Gen.MAX_N_LABELS, Gen.MAX_WIRE_LEN]
  rw [h]
  simp [hmacSha1Name]

theorem parse_sha256 (rest : Octets) :
    Wire.parseUncompressed (hmacSha256Name ++ rest).toArray false = .ok ⟨hmacSha256Name, 2, 13⟩ := by
  unfold Wire.parseUncompressed
  have h : Wire.uncompAux (hmacSha256Name ++ rest).toArray true 0 0 = .ok (13, 2) := by
    rw [Wire.uncompAux]
    simp [hmacSha256Name, Gen.MAX_LABEL_LEN, Gen.MAX_N_LABELS, Gen.MAX_WIRE_LEN]
    rw [Wire.uncompAux]
    simp [Gen.MAX_LABEL_LEN, Gen.MAX_N_LABELS, Gen.MAX_WIRE_LEN]
  rw [h]
  simp [hmacSha256Name]

theorem parse_algName (alg : Algorithm) (rest : Octets) :
    Wire.parseUncompressed (alg.name ++ rest).toArray false = .ok ⟨alg.name, 2, alg.name.length⟩ := by
  cases alg
  · exact parse_sha1 rest
  · exact parse_sha256 rest

theorem lowerName_algName (alg : Algorithm) : lowerName alg.name = alg.name := by
  cases alg <;> decide

theorem u16be_eq_toBe16 (n : Nat) (h : n < 65536) : u16be (n % 65536) = toBe16 (UInt16.ofNat n) := by
  unfold toBe16
  have : (UInt16.ofNat n).toNat = n := by simp; omega
  rw [this, Nat.mod_eq_of_lt h]

/-- `ReadTsigRr::try_from` on a TSIG RR (type TSIG, class ANY, TTL 0) whose RDATA was serialised by
    `serialize_tsig` with one of the supported algorithm names: the reader holds exactly the
    serialised fields, the owner in lower case -/
theorem tryFrom_serialized (owner : Octets) (alg : Algorithm) (ts : TimeSigned) (f : UInt16) (mac : Octets)
    (id err : UInt16) (other : Octets) (hmac : mac.length < 65536) :
    ReadTsigRr.tryFrom owner Gen.TYPE_TSIG Gen.QCLASS_ANY 0 (serializeTsig alg.name ts f mac id err other)
      = .ok (readOf (lowerName owner) alg.name ts f mac id err other) := by
  unfold ReadTsigRr.tryFrom
  have hs : serializeTsig alg.name ts f mac id err other =
      alg.name ++ (ts.asSlice ++ toBe16 f ++ u16be (mac.length % 65536) ++ mac ++ toBe16 id ++ toBe16 err
        ++ u16be (other.length % 65536) ++ other) := by simp [serializeTsig, List.append_assoc]
  simp only [ne_eq, not_true_eq_false, if_false, or_self]
  rw [hs, parse_algName]
  simp only
  have hlen : ¬ (alg.name ++ (ts.asSlice ++ toBe16 f ++ u16be (mac.length % 65536) ++ mac ++ toBe16 id ++ toBe16 err
        ++ u16be (other.length % 65536) ++ other)).length < alg.name.length + 10 := by
    simp [u16be_length]; omega
  rw [if_neg hlen, ← hs, lowerName_algName]
  have hm : rd16 (serializeTsig alg.name ts f mac id err other) (alg.name.length + 8) = UInt16.ofNat mac.length := by
    have : serializeTsig alg.name ts f mac id err other =
        (alg.name ++ ts.asSlice ++ toBe16 f) ++ (toBe16 (UInt16.ofNat mac.length) ++ (mac ++ toBe16 id ++ toBe16 err
          ++ u16be (other.length % 65536) ++ other)) := by
      simp [serializeTsig, List.append_assoc, u16be_eq_toBe16 _ hmac]
    rw [this]
    exact rd16_at _ _ _ _ (by simp)
  rw [hm]
  have : (UInt16.ofNat mac.length).toNat = mac.length := by simp; omega
  rw [this]
  rfl


/-! ### the three modes at once -/

abbrev Mode := Spec.Tsig.Mode

/-- `sign_*` / `verify_*` assert that the prior MAC fits its size field — except `verify_subsequent` -/
def inputMode {ε} : Mode → Octets → Octets → UInt16 → Variables → Out ε Octets
  | .request, m, _, id, v => requestInput m id v
  | .response, m, pm, id, v => responseInput m pm id v
  | .subsequent, m, pm, id, v => subsequentInput m pm id v

def signMode {ε} (hm : Algorithm → Octets → Octets → Octets) : Mode → PreparedTsigRr → Octets → Octets →
    Algorithm → Octets → Out ε (Octets × Octets)
  | .request, p, m, _, alg, key => signRequest hm p m alg key
  | .response, p, m, pm, alg, key => signResponse hm p m pm alg key
  | .subsequent, p, m, pm, alg, key => signSubsequent hm p m pm alg key

def verifyMode (hm : Algorithm → Octets → Octets → Octets) : Mode → ReadTsigRr → Octets → Octets →
    Algorithm → Octets → TimeSigned → Out VerificationError Unit
  | .request, r, m, _, alg, key, now => verifyRequest hm r m alg key now
  | .response, r, m, pm, alg, key, now => verifyResponse hm r m pm alg key now
  | .subsequent, r, m, pm, alg, key, now => verifySubsequent hm r m pm alg key now

/-- the message satisfies the documented precondition of `sign_*` / `verify_*` -/
def MsgOk (m : Octets) : Prop := 12 ≤ m.length ∧ 1 ≤ Spec.Tsig.field16 m 10

instance (m : Octets) : Decidable (MsgOk m) := by unfold MsgOk; infer_instance

theorem inputMode_eq {ε} (mode : Mode) (m pm : Octets) (id : UInt16) (v : Variables) (sv : Spec.Tsig.Vars)
    (h : Abstracts v sv) :
    inputMode (ε := ε) mode m pm id v =
      if MsgOk m then .ok (Spec.Tsig.digestInput mode m id.toNat sv pm) else .panic := by
  cases mode
  · simp only [inputMode, MsgOk]; rw [requestInput_eq m id v sv h]; rfl
  · simp only [inputMode, MsgOk]; exact responseInput_eq m pm id v sv h
  · simp only [inputMode, MsgOk]; exact subsequentInput_eq m pm id v sv h

/-- the signer asserts on the prior MAC in response and subsequent mode -/
def signAsserts : Mode → Octets → Prop
  | .request, _ => True
  | _, pm => pm.length ≤ 65535

instance (mode : Mode) (pm : Octets) : Decidable (signAsserts mode pm) := by
  cases mode <;> unfold signAsserts <;> infer_instance

/-- the verifier asserts on the prior MAC in response mode only -/
def verifyAsserts : Mode → Octets → Prop
  | .response, pm => pm.length ≤ 65535
  | _, _ => True

instance (mode : Mode) (pm : Octets) : Decidable (verifyAsserts mode pm) := by
  cases mode <;> unfold verifyAsserts <;> infer_instance

theorem signMode_def {ε} (hm : Algorithm → Octets → Octets → Octets) (mode : Mode) (p : PreparedTsigRr)
    (m pm : Octets) (alg : Algorithm) (key : Octets) :
    signMode (ε := ε) hm mode p m pm alg key =
      if ¬ signAsserts mode pm then .panic
      else Out.bind (inputMode mode m pm p.originalId (p.vars alg.name)) (fun data =>
        Out.bind (p.serializeRdata alg.name (hm alg key data)) (fun rdata => .ok (rdata, hm alg key data))) := by
  cases mode
  · simp only [signMode, signAsserts, not_true_eq_false, if_false]; rfl
  · simp only [signMode, signAsserts, signResponse, Nat.not_le]
    split <;> rfl
  · simp only [signMode, signAsserts, signSubsequent, Nat.not_le]
    split <;> rfl

theorem verifyMode_def (hm : Algorithm → Octets → Octets → Octets) (mode : Mode) (r : ReadTsigRr)
    (m pm : Octets) (alg : Algorithm) (key : Octets) (now : TimeSigned) :
    verifyMode hm mode r m pm alg key now =
      if ¬ verifyAsserts mode pm then .panic
      else verificationCore hm r (inputMode mode m pm r.originalId r.vars) alg key now := by
  cases mode
  · simp only [verifyMode, verifyAsserts, not_true_eq_false, if_false]; rfl
  · simp only [verifyMode, verifyAsserts, verifyResponse, Nat.not_le]
    split <;> rfl
  · simp only [verifyMode, verifyAsserts, not_true_eq_false, if_false]; rfl

theorem other_length_le (p : PreparedTsigRr) : p.other.length ≤ 6 := by
  unfold PreparedTsigRr.other; split <;> simp

theorem algName_length_le (alg : Algorithm) : alg.name.length ≤ 13 := by cases alg <;> decide

/-- what `sign_*` returns, in the terms of the RFC -/
theorem signMode_eq {ε} (hm : Algorithm → Octets → Octets → Octets) (mode : Mode) (p : PreparedTsigRr)
    (m pm : Octets) (alg : Algorithm) (key : Octets) (sv : Spec.Tsig.Vars)
    (h : Abstracts (p.vars alg.name) sv)
    (hlen : (hm alg key (Spec.Tsig.digestInput mode m p.originalId.toNat sv pm)).length ≤ 65000) :
    signMode (ε := ε) hm mode p m pm alg key =
      if signAsserts mode pm ∧ MsgOk m then
        .ok (Spec.Tsig.rdata sv (hm alg key (Spec.Tsig.digestInput mode m p.originalId.toNat sv pm)) p.originalId.toNat,
             hm alg key (Spec.Tsig.digestInput mode m p.originalId.toNat sv pm))
      else .panic := by
  rw [signMode_def, inputMode_eq mode m pm p.originalId _ sv h]
  by_cases ha : signAsserts mode pm
  · by_cases hmsg : MsgOk m
    · simp only [ha, hmsg, not_true_eq_false, if_false, if_true, and_self, Out.bind]
      have ho := other_length_le p
      have hn := algName_length_le alg
      unfold PreparedTsigRr.serializeRdata newTsig
      rw [if_pos (by omega)]
      simp only
      congr 2
      unfold serializeTsig Spec.Tsig.rdata
      have h1 := h.algorithm; have h2 := h.timeSigned; have h3 := h.fudge; have h4 := h.error; have h5 := h.other
      simp only [PreparedTsigRr.vars] at h1 h2 h3 h4 h5
      rw [asSlice_eq_spec, toBe16_eq_spec, toBe16_eq_spec, toBe16_eq_spec, u16be_mod_eq_spec, u16be_mod_eq_spec,
        h1, h2, h3, h4, h5]
    · simp [ha, hmsg, Out.bind]
  · simp [ha]


/-- the whole of `verify_*` as a decision: asserts, then RFC 8945 §5.2 (size, MAC, time), with the
    panic of `add_modified_message` between the size check and the MAC check -/
theorem verifyMode_eq (hm : Algorithm → Octets → Octets → Octets) (mode : Mode) (r : ReadTsigRr)
    (m pm : Octets) (alg : Algorithm) (key : Octets) (now : TimeSigned) (sv : Spec.Tsig.Vars)
    (hv : r.mac.length = r.macSize) (h : Abstracts r.vars sv) :
    verifyMode hm mode r m pm alg key now =
      if ¬ verifyAsserts mode pm ∨ r.algorithm ≠ alg.name then .panic
      else if ¬ Spec.Tsig.MacSizeAllowed alg.outputSize r.macSize then .err .FormErr
      else if ¬ MsgOk m then .panic
      else verdictOut (Spec.Tsig.verdict alg.outputSize
        (hm alg key (Spec.Tsig.digestInput mode m r.originalId.toNat sv pm)) r.mac now.toUnix
        sv.timeSigned sv.fudge) := by
  rw [verifyMode_def, inputMode_eq mode m pm r.originalId _ sv h]
  by_cases ha : verifyAsserts mode pm
  · by_cases halg : r.algorithm = alg.name
    · have e0 : ¬ (¬ verifyAsserts mode pm ∨ r.algorithm ≠ alg.name) := by
        intro h; rcases h with h | h; exact h ha; exact h halg
      rw [if_neg (fun h => h ha), if_neg e0]
      by_cases hmsg : MsgOk m
      · rw [if_pos hmsg, verificationCore_ok_input hm r _ alg key now halg hv]
        have ht : r.timeSigned.toUnix = sv.timeSigned := h.timeSigned
        have hf : r.fudge.toNat = sv.fudge := h.fudge
        rw [ht, hf]
        by_cases hs : Spec.Tsig.MacSizeAllowed alg.outputSize r.macSize
        · rw [if_neg (fun h => h hs), if_neg (fun h => h hmsg)]
        · rw [if_pos hs]
          unfold Spec.Tsig.verdict
          rw [hv, if_pos hs]; rfl
      · rw [if_neg hmsg, verificationCore_panic_input hm r alg key now halg]
        by_cases hs : Spec.Tsig.MacSizeAllowed alg.outputSize r.macSize
        · rw [if_pos hs, if_neg (fun h => h hs), if_pos hmsg]
        · rw [if_neg hs, if_pos hs]
    · rw [if_neg (fun h => h ha), if_pos (Or.inr halg), verificationCore_alg_mismatch _ _ _ _ _ _ halg]
  · rw [if_pos ha, if_pos (Or.inl ha)]

theorem mac_length_of_valid (r : ReadTsigRr) (h : r.algoLen + r.macSize + 16 ≤ r.rdata.length) :
    r.mac.length = r.macSize := by
  unfold ReadTsigRr.mac; simp; omega

theorem macSizeAllowed_full (alg : Algorithm) : Spec.Tsig.MacSizeAllowed alg.outputSize alg.outputSize := by
  unfold Spec.Tsig.MacSizeAllowed
  rcases outputSize_cases alg with h | h <;> omega


/-- the ID octets of the message do not enter the MAC input -/
theorem addModifiedMessage_congr {ε} (m m' : Octets) (id : UInt16) (h : m'.drop 2 = m.drop 2) :
    addModifiedMessage (ε := ε) m' id = addModifiedMessage m id := by
  have hl : m'.length - 2 = m.length - 2 := by
    have := congrArg List.length h; simpa using this
  by_cases h12 : 12 ≤ m.length
  · have h12' : 12 ≤ m'.length := by omega
    obtain ⟨a0, a1, a2, a3, a4, a5, a6, a7, a8, a9, a10, a11, body, rfl⟩ := exists_header m h12
    obtain ⟨b0, b1, b2, b3, b4, b5, b6, b7, b8, b9, b10, b11, body', rfl⟩ := exists_header m' h12'
    simp only [List.drop_succ_cons, List.drop_zero, List.cons.injEq] at h
    obtain ⟨c2, c3, c4, c5, c6, c7, c8, c9, c10, c11, cb⟩ := h
    subst c2 c3 c4 c5 c6 c7 c8 c9 c10 c11 cb
    rw [addModifiedMessage_cons, addModifiedMessage_cons, rd16_cons10, rd16_cons10]
  · have h12' : ¬ 12 ≤ m'.length := by omega
    rw [addModifiedMessage_eq, addModifiedMessage_eq]
    simp [h12, h12']

theorem inputMode_congr {ε} (mode : Mode) (m m' pm : Octets) (id : UInt16) (v : Variables)
    (h : m'.drop 2 = m.drop 2) : inputMode (ε := ε) mode m' pm id v = inputMode mode m pm id v := by
  cases mode <;>
    simp only [inputMode, requestInput, responseInput, subsequentInput, addModifiedMessage_congr m m' id h]

theorem inputMode_ne_err {ε} (mode : Mode) (m pm : Octets) (id : UInt16) (v : Variables) (e : ε) :
    inputMode mode m pm id v ≠ .err e := by
  cases mode <;> simp only [inputMode, requestInput, responseInput, subsequentInput] <;>
    (rw [addModifiedMessage_eq]; split <;> intro h <;> cases h)

/-- what a successful `sign_*` did -/
theorem signMode_ok {ε} (hm : Algorithm → Octets → Octets → Octets) (mode : Mode) (p : PreparedTsigRr)
    (m pm : Octets) (alg : Algorithm) (key : Octets) (rdata mac : Octets)
    (h : signMode (ε := ε) hm mode p m pm alg key = .ok (rdata, mac)) :
    signAsserts mode pm ∧ ∃ d, inputMode (ε := ε) mode m pm p.originalId (p.vars alg.name) = .ok d ∧
      mac = hm alg key d ∧
      rdata = serializeTsig alg.name p.timeSigned p.fudge mac p.originalId p.error p.other := by
  rw [signMode_def] at h
  by_cases ha : signAsserts mode pm
  · rw [if_neg (fun h => h ha)] at h
    refine ⟨ha, ?_⟩
    cases hi : inputMode (ε := ε) mode m pm p.originalId (p.vars alg.name) with
    | panic => rw [hi] at h; cases h
    | err e => rw [hi] at h; cases h
    | ok d =>
      rw [hi] at h
      by_cases hl : alg.name.length + 16 + (hm alg key d).length + p.other.length ≤ 65535
      · simp only [Out.bind, PreparedTsigRr.serializeRdata, newTsig, if_pos hl] at h
        cases h; exact ⟨d, rfl, rfl, rfl⟩
      · simp only [Out.bind, PreparedTsigRr.serializeRdata, newTsig, if_neg hl] at h
        cases h
  · rw [if_pos ha] at h; cases h

/-- what a successful `verify_*` established -/
theorem verifyMode_ok (hm : Algorithm → Octets → Octets → Octets) (mode : Mode) (r : ReadTsigRr)
    (m pm : Octets) (alg : Algorithm) (key : Octets) (now : TimeSigned) (hv : r.mac.length = r.macSize)
    (h : verifyMode hm mode r m pm alg key now = .ok ()) :
    verifyAsserts mode pm ∧ r.algorithm = alg.name ∧ Spec.Tsig.MacSizeAllowed alg.outputSize r.macSize ∧
      ∃ d, inputMode (ε := VerificationError) mode m pm r.originalId r.vars = .ok d ∧
        (hm alg key d).take r.macSize = r.mac ∧
        Spec.Tsig.TimeOk now.toUnix r.timeSigned.toUnix r.fudge.toNat := by
  rw [verifyMode_def] at h
  by_cases ha : verifyAsserts mode pm
  · rw [if_neg (fun h => h ha)] at h
    by_cases halg : r.algorithm = alg.name
    · refine ⟨ha, halg, ?_⟩
      cases hi : inputMode (ε := VerificationError) mode m pm r.originalId r.vars with
      | panic =>
        rw [hi, verificationCore_panic_input hm r alg key now halg] at h
        split at h <;> cases h
      | err e => exact absurd hi (inputMode_ne_err mode m pm r.originalId r.vars e)
      | ok d =>
        rw [hi, verificationCore_ok_input hm r d alg key now halg hv] at h
        unfold Spec.Tsig.verdict at h
        rw [hv] at h
        by_cases hs : Spec.Tsig.MacSizeAllowed alg.outputSize r.macSize
        · rw [if_neg (fun h => h hs)] at h
          by_cases hm' : List.take r.macSize (hm alg key d) = r.mac
          · rw [if_neg (fun h => h hm')] at h
            by_cases ht : Spec.Tsig.TimeOk now.toUnix r.timeSigned.toUnix r.fudge.toNat
            · exact ⟨hs, d, rfl, hm', ht⟩
            · rw [if_pos ht] at h; cases h
          · rw [if_pos hm'] at h; cases h
        · rw [if_pos hs] at h; cases h
    · rw [verificationCore_alg_mismatch _ _ _ _ _ _ halg] at h; cases h
  · rw [if_pos ha] at h; cases h


theorem bind_ok_inv {ε α β} (x : Out ε α) (f : α → Out ε β) (b : β) (h : x >>= f = .ok b) :
    ∃ a, x = .ok a ∧ f a = .ok b := by
  cases x with
  | ok a => exact ⟨a, rfl, h⟩
  | err e => cases h
  | panic => cases h

/-- framing hypothesis under which the end of the message inside the MAC input is determined -/
def Framed (m m' : Octets) : Prop := m.length = m'.length ∨ BodiesPrefixFree m m'

theorem addModifiedMessage_inj_framed {ε} (m m' : Octets) (id id' : UInt16) (d d' x x' : Octets)
    (h : addModifiedMessage (ε := ε) m id = .ok d) (h' : addModifiedMessage (ε := ε) m' id' = .ok d')
    (hf : Framed m m') (he : d ++ x = d' ++ x') :
    id = id' ∧ m.drop 2 = m'.drop 2 ∧ x = x' := by
  rcases hf with hl | hp
  · exact addModifiedMessage_inj m m' id id' d d' x x' h h' hl he
  · exact addModifiedMessage_inj_pf m m' id id' d d' x x' h h' hp he

/-- **The MAC input is uniquely readable** in each mode: two (message, original ID, prior MAC,
    variables) tuples with the same MAC input agree on every covered item — provided the end of the
    message is determined (`Framed`), prior MACs fit their size field and names are names. -/
theorem inputMode_inj {ε} (mode : Mode) (m m' pm pm' : Octets) (id id' : UInt16) (v v' : Variables) (D : Octets)
    (h : inputMode (ε := ε) mode m pm id v = .ok D) (h' : inputMode (ε := ε) mode m' pm' id' v' = .ok D)
    (hf : Framed m m')
    (hpm : mode ≠ .request → pm.length ≤ 65535 ∧ pm'.length ≤ 65535)
    (hn : mode ≠ .subsequent →
      WireName v.keyName ∧ WireName v'.keyName ∧ WireName v.algorithm ∧ WireName v'.algorithm) :
    id = id' ∧ m.drop 2 = m'.drop 2 ∧ (mode ≠ .request → pm = pm') ∧ (mode ≠ .subsequent → v = v') ∧
      v.timeSigned = v'.timeSigned ∧ v.fudge = v'.fudge := by
  cases mode
  · -- request
    simp only [inputMode, requestInput] at h h'
    obtain ⟨d, hd, e⟩ := bind_ok_inv _ _ _ h
    obtain ⟨d', hd', e'⟩ := bind_ok_inv _ _ _ h'
    have heq := (Out.ok.inj e').trans (Out.ok.inj e).symm
    obtain ⟨hn1, hn2, hn3, hn4⟩ := hn (by decide)
    obtain ⟨e1, e2, e3⟩ := addModifiedMessage_inj_framed m m' id id' d d' _ _ hd hd' hf heq.symm
    have := addTsigVariables_inj v v' hn1 hn2 hn3 hn4 e3
    subst this
    exact ⟨e1, e2, fun h => absurd rfl h, fun _ => rfl, rfl, rfl⟩
  · -- response
    simp only [inputMode, responseInput] at h h'
    obtain ⟨d, hd, e⟩ := bind_ok_inv _ _ _ h
    obtain ⟨d', hd', e'⟩ := bind_ok_inv _ _ _ h'
    have heq := (Out.ok.inj e').trans (Out.ok.inj e).symm
    obtain ⟨hp1, hp2⟩ := hpm (by decide)
    obtain ⟨hn1, hn2, hn3, hn4⟩ := hn (by decide)
    simp only [List.append_assoc] at heq
    obtain ⟨ep, heq⟩ := addPriorMac_inj pm' pm _ _ hp2 hp1 heq
    obtain ⟨e1, e2, e3⟩ := addModifiedMessage_inj_framed m m' id id' d d' _ _ hd hd' hf heq.symm
    have := addTsigVariables_inj v v' hn1 hn2 hn3 hn4 e3
    subst this
    exact ⟨e1, e2, fun _ => ep.symm, fun _ => rfl, rfl, rfl⟩
  · -- subsequent
    simp only [inputMode, subsequentInput] at h h'
    obtain ⟨d, hd, e⟩ := bind_ok_inv _ _ _ h
    obtain ⟨d', hd', e'⟩ := bind_ok_inv _ _ _ h'
    have heq := (Out.ok.inj e').trans (Out.ok.inj e).symm
    obtain ⟨hp1, hp2⟩ := hpm (by decide)
    simp only [List.append_assoc] at heq
    obtain ⟨ep, heq⟩ := addPriorMac_inj pm' pm _ _ hp2 hp1 heq
    obtain ⟨e1, e2, e3⟩ := addModifiedMessage_inj_framed m m' id id' d d' _ _ hd hd' hf heq.symm
    have e3' : addTsigTimers v ++ [] = addTsigTimers v' ++ [] := by simpa using e3
    obtain ⟨t1, t2, _⟩ := addTsigTimers_inj v v' [] [] e3'
    exact ⟨e1, e2, fun _ => ep.symm, fun h => absurd rfl h, t1, t2⟩


end QV.Tsig
