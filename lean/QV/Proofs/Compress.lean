/-
  QV.Proofs.Compress — the buffer-level facts behind name compression (C13, and the writer side
  of C01/C02): what it means that a compressed name *is stored* at a position of the buffer
  (`NameAt`), that the helper loops of `write_compressed_unhinted_name` read such names without
  panicking, and what the column scan returns.
-/
import QV.Model.Compress
import QV.Proofs.Wire

namespace QV.Writer
open QV QV.Wire

/-! ### following pointers: `Hop` -/

/-- `Hop oct cur q p`: the octet at `q` is the real (non-pointer) label octet `p = q`, or a
    compression pointer (two octets, strictly backwards) to the real label octet at `p`; every
    octet read lies below `cur`. (The writer never stores a pointer to a pointer.) -/
inductive Hop (oct : Bytes) (cur : Nat) : Nat → Nat → Prop
  | here {q : Nat} {b : UInt8} (hq : q < cur) (hb : oct[q]? = some b) (hnp : isPtr b = false) :
      Hop oct cur q q
  | jump {q : Nat} {b1 b2 b3 : UInt8} (hq : q + 1 < cur) (h1 : oct[q]? = some b1)
      (h2 : oct[q+1]? = some b2) (hp : isPtr b1 = true) (hlt : ptrOf b1 b2 < q)
      (h3 : oct[ptrOf b1 b2]? = some b3) (hnp : isPtr b3 = false) : Hop oct cur q (ptrOf b1 b2)

theorem getElem?_some_lt {oct : Bytes} {q : Nat} {b : UInt8} (h : oct[q]? = some b) : q < oct.size := by
  by_cases hq : q < oct.size
  · exact hq
  · simp [Array.getElem?_eq_none (Nat.le_of_not_lt hq)] at h

theorem getElem_of_getElem? {oct : Bytes} {q : Nat} {b : UInt8} (h : oct[q]? = some b)
    (hq : q < oct.size) : oct[q] = b := by
  rw [Array.getElem?_eq_getElem hq] at h
  exact Option.some.inj h

theorem move_here {oct : Bytes} {q : Nat} {b : UInt8} (hb : oct[q]? = some b) (hnp : isPtr b = false) :
    moveToNextRealLabel oct q = .ok q := by
  rw [moveToNextRealLabel]
  have hs := getElem?_some_lt hb
  rw [dif_pos hs, getElem_of_getElem? hb hs, hnp]
  simp

/-- the model's `move_to_next_real_label` follows a `Hop` without panicking -/
theorem hop_move {oct : Bytes} {cur q p : Nat} (h : Hop oct cur q p) :
    moveToNextRealLabel oct q = .ok p := by
  cases h with
  | here hq hb hnp => exact move_here hb hnp
  | jump hq h1 h2 hp hlt h3 hnp =>
    rw [moveToNextRealLabel]
    have hs1 := getElem?_some_lt h1
    have hs2 := getElem?_some_lt h2
    rw [dif_pos hs1, getElem_of_getElem? h1 hs1, hp]
    simp only [if_true]
    rw [dif_pos hs2, getElem_of_getElem? h2 hs2, if_pos hlt]
    exact move_here h3 hnp

theorem hop_le {oct : Bytes} {cur q p : Nat} (h : Hop oct cur q p) :
    p ≤ q ∧ p < cur ∧ ∃ b, oct[p]? = some b ∧ isPtr b = false := by
  cases h with
  | here hq hb hnp => exact ⟨Nat.le_refl _, hq, _, hb, hnp⟩
  | jump hq h1 h2 hp hlt h3 hnp => exact ⟨by omega, by omega, _, h3, hnp⟩

theorem hop_start_lt {oct : Bytes} {cur q p : Nat} (h : Hop oct cur q p) : q < cur := by
  cases h with
  | here hq _ _ => exact hq
  | jump hq _ _ _ _ _ _ => omega

theorem hop_start_size {oct : Bytes} {cur q p : Nat} (h : Hop oct cur q p) : q < oct.size := by
  cases h with
  | here _ hb _ => exact getElem?_some_lt hb
  | jump _ hb _ _ _ _ _ => exact getElem?_some_lt hb

/-- a `Hop` only depends on the octets in `[lo, cur)`, provided its end point is not below `lo` -/
theorem hop_frame {oct oct' : Bytes} {cur cur' q p lo : Nat} (h : Hop oct cur q p)
    (hpre : ∀ i, lo ≤ i → i < cur → oct'[i]? = oct[i]?) (hc : cur ≤ cur') (hlo : lo ≤ p) :
    Hop oct' cur' q p := by
  cases h with
  | here hq hb hnp => exact .here (by omega) (by rw [hpre _ hlo hq]; exact hb) hnp
  | jump hq h1 h2 hp hlt h3 hnp =>
    exact .jump (by omega) (by rw [hpre _ (by omega) (by omega)]; exact h1)
      (by rw [hpre _ (by omega) hq]; exact h2) hp hlt (by rw [hpre _ hlo (by omega)]; exact h3) hnp

/-! ### names stored in the buffer: `NameAt` -/

/-- `NameAt G oct cur p ls`: at position `p` (a recorded label start, `G p`) the buffer holds —
    entirely below `cur` — a possibly compressed name whose non-root labels are `ls` (octets as
    stored), read the way the writer reads prior names: a label, then `Hop` to the next real
    label, … until the root label. -/
inductive NameAt (G : Nat → Prop) (oct : Bytes) (cur : Nat) : Nat → List Label → Prop
  | root {p : Nat} (hg : G p) (hp : p < cur) (h0 : oct[p]? = some 0) : NameAt G oct cur p []
  | label {p p' : Nat} {l : Label} {ls : List Label} (hg : G p) (h1 : 1 ≤ l.length)
      (h63 : l.length ≤ 63) (hb : oct[p]? = some (UInt8.ofNat l.length))
      (hd : (oct.extract (p + 1) (p + 1 + l.length)).toList = l)
      (hop : Hop oct cur (p + 1 + l.length) p') (rest : NameAt G oct cur p' ls) :
      NameAt G oct cur p (l :: ls)

theorem nameAt_start {G : Nat → Prop} {oct : Bytes} {cur p : Nat} {ls : List Label}
    (h : NameAt G oct cur p ls) : G p ∧ p < cur ∧ ∃ b, oct[p]? = some b ∧ isPtr b = false := by
  cases h with
  | root hg hp h0 => exact ⟨hg, hp, 0, h0, by decide⟩
  | label hg h1 h63 hb hd hop rest =>
    refine ⟨hg, by have := hop_start_lt hop; omega, _, hb, ?_⟩
    apply not_isPtr_of_le63
    rw [UInt8.toNat_ofNat']
    omega

theorem extract_congr {a b : Bytes} {i j : Nat} (h : ∀ k, k < j → b[k]? = a[k]?)
    (ha : j ≤ a.size) (hb : j ≤ b.size) : b.extract i j = a.extract i j := by
  apply Array.ext_getElem?
  intro k
  simp only [Array.getElem?_extract]
  by_cases hk : k < min j a.size - i
  · have hk' : k < min j b.size - i := by omega
    rw [if_pos hk, if_pos hk']
    exact h _ (by omega)
  · have hk' : ¬ k < min j b.size - i := by omega
    rw [if_neg hk, if_neg hk']

/-- `NameAt` only depends on the octets in `[lo, cur)` when every recorded label start is at or
    above `lo`, and is monotone in the set of recorded label starts -/
theorem nameAt_frame {G G' : Nat → Prop} {oct oct' : Bytes} {cur cur' p lo : Nat} {ls : List Label}
    (h : NameAt G oct cur p ls) (hG : ∀ x, G x → G' x) (hlo : ∀ x, G x → lo ≤ x)
    (hpre : ∀ i, lo ≤ i → i < cur → oct'[i]? = oct[i]?) (hc : cur ≤ cur') : NameAt G' oct' cur' p ls := by
  induction h with
  | root hg hp h0 => exact .root (hG _ hg) (by omega) (by rw [hpre _ (hlo _ hg) hp]; exact h0)
  | @label p p' l ls hg h1 h63 hb hd hop rest ih =>
    have hlt := hop_start_lt hop
    have hsz := hop_start_size hop
    have hp'lo : lo ≤ p' := by
      cases rest with
      | root hg' _ _ => exact hlo _ hg'
      | label hg' _ _ _ _ _ _ => exact hlo _ hg'
    have hop' := hop_frame hop hpre hc hp'lo
    have hsz' := hop_start_size hop'
    have hpl := hlo _ hg
    refine .label (hG _ hg) h1 h63 (by rw [hpre _ hpl (by omega)]; exact hb) ?_ hop' ih
    have : oct'.extract (p + 1) (p + 1 + l.length) = oct.extract (p + 1) (p + 1 + l.length) := by
      apply Array.ext_getElem?
      intro k
      simp only [Array.getElem?_extract]
      by_cases hk : k < min (p + 1 + l.length) oct.size - (p + 1)
      · have hk' : k < min (p + 1 + l.length) oct'.size - (p + 1) := by omega
        rw [if_pos hk, if_pos hk']
        exact hpre _ (by omega) (by omega)
      · have hk' : ¬ k < min (p + 1 + l.length) oct'.size - (p + 1) := by omega
        rw [if_neg hk, if_neg hk']
    rw [this]
    exact hd

/-- all positions of a stored name are recorded label starts below `cur` -/
theorem nameAt_restrict {G : Nat → Prop} {oct : Bytes} {cur p : Nat} {ls : List Label}
    (h : NameAt G oct cur p ls) : NameAt (fun x => G x ∧ x < cur) oct cur p ls := by
  induction h with
  | root hg hp h0 => exact .root ⟨hg, hp⟩ hp h0
  | label hg h1 h63 hb hd hop rest ih =>
    exact .label ⟨hg, by have := hop_start_lt hop; omega⟩ h1 h63 hb hd hop ih

/-! ### `skipLabels` (the loop of `build_prior_ctx`) -/

theorem skipLabels_nameAt {G : Nat → Prop} {oct : Bytes} {cur p : Nat} {ls : List Label}
    (h : NameAt G oct cur p ls) (k : Nat) (hk : k ≤ ls.length) :
    ∃ p', skipLabels oct k p = .ok p' ∧ NameAt G oct cur p' (ls.drop k) := by
  induction k generalizing p ls with
  | zero => exact ⟨p, rfl, by simpa using h⟩
  | succ k ih =>
    cases h with
    | root hg hp h0 => simp at hk
    | @label p p' l ls hg h1 h63 hb hd hop rest =>
      have hs := getElem?_some_lt hb
      simp only [skipLabels, dif_pos hs]
      rw [getElem_of_getElem? hb hs]
      have hl : (UInt8.ofNat l.length).toNat = l.length := by rw [UInt8.toNat_ofNat']; omega
      rw [hl, show p + l.length + 1 = p + 1 + l.length by omega, hop_move hop]
      simp only [List.drop_succ_cons]
      exact ih rest (by simpa using hk)

end QV.Writer

namespace QV.Writer
open QV QV.Wire

/-! ### the column scan -/

/-- the label comparison of the scan: octet-exact in `CasePreserving` mode, ASCII-case-insensitive
    otherwise -/
def labelMatch (mode : CMode) (a b : Label) : Bool :=
  if mode = .casePreserving then decide (a = b) else WName.labelEqIgnoreCase a b

/-- two label lists of the same length match label by label -/
def labelsMatch (mode : CMode) : List Label → List Label → Bool
  | [], [] => true
  | a :: as, b :: bs => labelMatch mode a b && labelsMatch mode as bs
  | _, _ => false

theorem labelsMatch_length {mode : CMode} {a b : List Label} (h : labelsMatch mode a b = true) :
    a.length = b.length := by
  induction a generalizing b with
  | nil => cases b with
    | nil => rfl
    | cons _ _ => simp [labelsMatch] at h
  | cons x xs ih => cases b with
    | nil => simp [labelsMatch] at h
    | cons y ys =>
      simp only [labelsMatch, Bool.and_eq_true] at h
      simp [ih h.2]

theorem labelsMatch_snoc {mode : CMode} {a b : List Label} {x y : Label}
    (h : labelsMatch mode a b = true) (hxy : labelMatch mode x y = true) :
    labelsMatch mode (a ++ [x]) (b ++ [y]) = true := by
  induction a generalizing b with
  | nil => cases b with
    | nil => simp [labelsMatch, hxy]
    | cons _ _ => simp [labelsMatch] at h
  | cons p ps ih => cases b with
    | nil => simp [labelsMatch] at h
    | cons q qs =>
      simp only [labelsMatch, Bool.and_eq_true, List.cons_append] at h ⊢
      exact ⟨h.1, ih h.2⟩

/-- what is known about a live match of a prior context when the scan is about to look at
    column `c`: it started at column `ms.startColumn` at a real label, and the labels of the
    prior name from there on (`pre`, then the not yet compared rest `ls`) match the compressee's
    labels of columns `ms.startColumn .. c-1` -/
def MatchOK (G : Nat → Prop) (oct : Bytes) (cur : Nat) (mode : CMode) (labels : List Label)
    (c : Nat) (sc : Nat) (ls : List Label) (ms : MatchStart) : Prop :=
  sc ≤ ms.startColumn ∧ ms.startColumn < c ∧ 0 < ms.priorPointer ∧ ms.priorPointer ≤ Gen.POINTER_MAX ∧
  ∃ pre, NameAt G oct cur ms.priorPointer (pre ++ ls) ∧ pre.length = c - ms.startColumn ∧
    labelsMatch mode ((labels.drop ms.startColumn).take (c - ms.startColumn)) pre = true

/-- the state of one prior context before column `c` (`m` = number of non-root labels of the
    compressee): its pointer is at a real label from which exactly the labels that line up with
    columns `max c startColumn .. m-1` remain -/
def CtxOK (G : Nat → Prop) (oct : Bytes) (cur : Nat) (mode : CMode) (labels : List Label)
    (c : Nat) (pc : PriorCtx) : Prop :=
  ∃ ls, NameAt G oct cur pc.pointer ls ∧ ls.length + max c pc.startColumn = labels.length ∧
    ∀ ms, pc.matchStart = some ms → MatchOK G oct cur mode labels c pc.startColumn ls ms

def OptOK (G : Nat → Prop) (oct : Bytes) (cur : Nat) (mode : CMode) (labels : List Label)
    (c : Nat) (o : Option PriorCtx) : Prop :=
  ∀ pc, o = some pc → CtxOK G oct cur mode labels c pc

theorem hintPointerNew_some {p q : Nat} (h : hintPointerNew p = some q) :
    q = p ∧ 0 < p ∧ p ≤ Gen.POINTER_MAX := by
  unfold hintPointerNew at h
  split at h
  · cases h; rename_i hc; exact ⟨rfl, by omega, hc.1⟩
  · cases h

/-- one context, one column -/
theorem stepCtx_ok {G : Nat → Prop} {oct : Bytes} {cur : Nat} {mode : CMode} {labels : List Label}
    {c : Nat} {pc : PriorCtx} {lab : Label} (h : CtxOK G oct cur mode labels c pc)
    (hc : c < labels.length) (hlab : labels[c]? = some lab) :
    ∃ pc', stepCtx oct mode c lab (some pc) = .ok (some pc') ∧ CtxOK G oct cur mode labels (c + 1) pc' := by
  obtain ⟨ls, hn, hlen, hms⟩ := h
  unfold stepCtx
  dsimp only
  by_cases hsc : c < pc.startColumn
  · rw [if_pos hsc]
    refine ⟨pc, rfl, ls, hn, by omega, ?_⟩
    intro ms hm
    have := hms ms hm
    exact absurd this.2.1 (by have := this.1; omega)
  · rw [if_neg hsc]
    have hmax : max c pc.startColumn = c := by omega
    rw [hmax] at hlen
    cases hn with
    | root hg hp h0 => simp at hlen; omega
    | @label p p' l0 ls0 hg h1 h63 hb hd hop rest =>
      have hs := getElem?_some_lt hb
      have hl : (UInt8.ofNat l0.length).toNat = l0.length := by rw [UInt8.toNat_ofNat']; omega
      have hq := hop_start_lt hop
      have hs2 : pc.pointer + 1 + l0.length < oct.size := hop_start_size hop
      rw [dif_pos hs]
      simp only [getElem_of_getElem? hb hs, hl]
      rw [if_neg (by omega), hd, hop_move hop]
      refine ⟨_, rfl, ls0, rest, by simp at hlen ⊢; omega, ?_⟩
      intro ms hm
      simp only at hm
      -- which match is alive after this column
      cases hhp : hintPointerNew pc.pointer with
      | none => rw [hhp] at hm; cases hm
      | some pp =>
        rw [hhp] at hm
        simp only at hm
        obtain ⟨rfl, hpos, hmax'⟩ := hintPointerNew_some hhp
        have heqdef : (if mode = CMode.casePreserving then decide (lab = l0)
              else WName.labelEqIgnoreCase lab l0) = labelMatch mode lab l0 := rfl
        rw [heqdef] at hm
        cases heq : labelMatch mode lab l0 with
        | false => rw [heq] at hm; simp at hm
        | true =>
          rw [heq] at hm
          simp only [if_true] at hm
          cases hold : pc.matchStart with
          | none =>
            rw [hold] at hm
            cases hm
            refine ⟨by show pc.startColumn ≤ c; omega, by show c < c + 1; omega, hpos, hmax', [l0], ?_,
              by show 1 = c + 1 - c; omega, ?_⟩
            · exact .label hg h1 h63 hb hd hop rest
            · show labelsMatch mode ((labels.drop c).take (c + 1 - c)) [l0] = true
              have hcl : labels[c] = lab := by
                rw [List.getElem?_eq_getElem hc] at hlab
                exact Option.some.inj hlab
              rw [show c + 1 - c = 1 by omega, List.drop_eq_getElem_cons hc, hcl]
              simp [labelsMatch, heq]
          | some m0 =>
            rw [hold] at hm
            cases hm
            obtain ⟨g1, g2, g3, g4, pre, g5, g6, g7⟩ := hms ms hold
            refine ⟨g1, by omega, g3, g4, pre ++ [l0], by simpa using g5, by simp; omega, ?_⟩
            have hsplit : (labels.drop ms.startColumn).take (c + 1 - ms.startColumn) =
                (labels.drop ms.startColumn).take (c - ms.startColumn) ++ [lab] := by
              have hc' : c - ms.startColumn < (labels.drop ms.startColumn).length := by
                simp; omega
              rw [show c + 1 - ms.startColumn = (c - ms.startColumn) + 1 by omega]
              rw [List.take_add_one]
              congr 1
              rw [List.getElem?_drop, show ms.startColumn + (c - ms.startColumn) = c by omega, hlab]
              rfl
            rw [hsplit]
            exact labelsMatch_snoc g7 heq

theorem stepCtx_opt {G : Nat → Prop} {oct : Bytes} {cur : Nat} {mode : CMode} {labels : List Label}
    {c : Nat} {o : Option PriorCtx} {lab : Label} (h : OptOK G oct cur mode labels c o)
    (hc : c < labels.length) (hlab : labels[c]? = some lab) :
    ∃ o', stepCtx oct mode c lab o = .ok o' ∧ OptOK G oct cur mode labels (c + 1) o' := by
  cases o with
  | none => exact ⟨none, rfl, fun pc h => by cases h⟩
  | some pc =>
    obtain ⟨pc', h1, h2⟩ := stepCtx_ok (h pc rfl) hc hlab
    exact ⟨some pc', h1, fun q hq => by cases hq; exact h2⟩

theorem dedup_ok {G : Nat → Prop} {oct : Bytes} {cur : Nat} {mode : CMode} {labels : List Label}
    {c : Nat} {c0 c1 : Option PriorCtx} (h0 : OptOK G oct cur mode labels c c0)
    (h1 : OptOK G oct cur mode labels c c1) :
    OptOK G oct cur mode labels c (dedup c0 c1).1 ∧ OptOK G oct cur mode labels c (dedup c0 c1).2 := by
  have hn : OptOK G oct cur mode labels c none := fun pc h => by cases h
  unfold dedup
  repeat' split
  all_goals first
    | exact ⟨h0, h1⟩
    | exact ⟨h0, hn⟩
    | exact ⟨hn, h1⟩

/-- the whole scan from column `c` on -/
theorem scan_ok {G : Nat → Prop} {oct : Bytes} {cur : Nat} {mode : CMode} {labels : List Label}
    (rest : List Label) (c : Nat) (hrest : rest = labels.drop c) (hc : c ≤ labels.length)
    (c0 c1 : Option PriorCtx) (h0 : OptOK G oct cur mode labels c c0)
    (h1 : OptOK G oct cur mode labels c c1) :
    ∃ r0 r1, scan oct mode c rest c0 c1 = .ok (r0, r1) ∧
      OptOK G oct cur mode labels labels.length r0 ∧ OptOK G oct cur mode labels labels.length r1 := by
  induction rest generalizing c c0 c1 with
  | nil =>
    have : c = labels.length := by
      have := congrArg List.length hrest
      simp at this; omega
    subst this
    exact ⟨c0, c1, rfl, h0, h1⟩
  | cons lab rest ih =>
    have hlt : c < labels.length := by
      have := congrArg List.length hrest
      simp at this; omega
    have hlab : labels[c]? = some lab := by
      have : (labels.drop c)[0]? = some lab := by rw [← hrest]; rfl
      simpa using this
    obtain ⟨d0, d1⟩ := dedup_ok h0 h1
    obtain ⟨o0, e0, k0⟩ := stepCtx_opt d0 hlt hlab
    obtain ⟨o1, e1, k1⟩ := stepCtx_opt d1 hlt hlab
    simp only [scan, e0, e1]
    exact ih (c + 1) (by rw [← List.drop_drop, ← hrest]; rfl) hlt o0 o1 k0 k1

/-- a stored `PriorName` is valid: it points at a recorded real label from which a name with
    exactly `len - 1` non-root labels is stored -/
def PriorOK (G : Nat → Prop) (oct : Bytes) (cur : Nat) (p : Prior) : Prop :=
  ∃ ls, NameAt G oct cur p.ptr ls ∧ ls.length + 1 = p.len

theorem buildPriorCtx_ok {G : Nat → Prop} {oct : Bytes} {cur : Nat} {mode : CMode}
    {labels : List Label} {p : Prior} (h : PriorOK G oct cur p) :
    ∃ pc, buildPriorCtx oct (labels.length + 1) p = .ok pc ∧ CtxOK G oct cur mode labels 0 pc := by
  obtain ⟨pls, hn, hlen⟩ := h
  unfold buildPriorCtx
  obtain ⟨p', hs, hn'⟩ := skipLabels_nameAt hn (p.len - (labels.length + 1)) (by omega)
  rw [hs]
  refine ⟨_, rfl, _, hn', ?_, fun ms h => by cases h⟩
  simp
  omega

theorem buildPriorCtxOpt_ok {G : Nat → Prop} {oct : Bytes} {cur : Nat} {mode : CMode}
    {labels : List Label} {o : Option Prior} (h : ∀ p, o = some p → PriorOK G oct cur p) :
    ∃ r, buildPriorCtxOpt oct (labels.length + 1) o = .ok r ∧ OptOK G oct cur mode labels 0 r := by
  cases o with
  | none => exact ⟨none, rfl, fun pc h => by cases h⟩
  | some p =>
    obtain ⟨pc, h1, h2⟩ := buildPriorCtx_ok (mode := mode) (labels := labels) (h p rfl)
    simp only [buildPriorCtxOpt, h1]
    exact ⟨some pc, rfl, fun q hq => by cases hq; exact h2⟩

/-- **The scan is correct.** With valid prior names the decision is computed without a panic;
    if it says "write the first `k` labels and then a pointer to `pp`", then `k` is a proper
    prefix, `pp` is a recorded real label start in pointer range, and the name stored at `pp`
    has exactly the remaining labels, matching label by label (octet-exact in `CasePreserving`
    mode, ignoring ASCII case otherwise). -/
theorem compressDecision_ok {G : Nat → Prop} {oct : Bytes} {cur : Nat} {mode : CMode}
    {a b : Option Prior} {n : WName} (ha : ∀ p, a = some p → PriorOK G oct cur p)
    (hb : ∀ p, b = some p → PriorOK G oct cur p) :
    ∃ r, compressDecision oct mode a b n = .ok r ∧
      ∀ m, r = some m → m.startColumn < n.labels.length ∧ 0 < m.priorPointer ∧
        m.priorPointer ≤ Gen.POINTER_MAX ∧
        ∃ ls, NameAt G oct cur m.priorPointer ls ∧
          labelsMatch mode (n.labels.drop m.startColumn) ls = true := by
  unfold compressDecision
  split
  · exact ⟨none, rfl, fun m h => by cases h⟩
  · obtain ⟨r0, e0, k0⟩ := buildPriorCtxOpt_ok (mode := mode) (labels := n.labels) ha
    obtain ⟨r1, e1, k1⟩ := buildPriorCtxOpt_ok (mode := mode) (labels := n.labels) hb
    have hl : n.len = n.labels.length + 1 := rfl
    rw [hl, e0, e1]
    obtain ⟨s0, s1, es, q0, q1⟩ := scan_ok (labels := n.labels) n.labels 0 (by simp) (by omega) r0 r1 k0 k1
    simp only [es]
    refine ⟨_, rfl, ?_⟩
    -- whichever context the longest match comes from, it satisfies `MatchOK` at the last column
    have fin : ∀ (o : Option PriorCtx), OptOK G oct cur mode n.labels n.labels.length o →
        ∀ ms, o.bind (·.matchStart) = some ms →
        ms.startColumn < n.labels.length ∧ 0 < ms.priorPointer ∧ ms.priorPointer ≤ Gen.POINTER_MAX ∧
        ∃ ls, NameAt G oct cur ms.priorPointer ls ∧
          labelsMatch mode (n.labels.drop ms.startColumn) ls = true := by
      intro o ho ms hms
      cases o with
      | none => cases hms
      | some pc =>
        simp only [Option.bind_some] at hms
        obtain ⟨ls, hn, hlen, hm⟩ := ho pc rfl
        obtain ⟨g1, g2, g3, g4, pre, g5, g6, g7⟩ := hm ms hms
        have hls : ls = [] := by
          have : ls.length = 0 := by omega
          exact List.eq_nil_of_length_eq_zero this
        subst hls
        refine ⟨g2, g3, g4, pre, by simpa using g5, ?_⟩
        rw [List.take_of_length_le (by simp)] at g7
        exact g7
    intro m hm
    unfold longestMatch at hm
    split at hm
    · rename_i x y hx hy
      split at hm
      · cases hm; exact fin s1 q1 _ hy
      · cases hm; exact fin s0 q0 _ hx
    · rename_i x hx hy; cases hm; exact fin s0 q0 _ hx
    · rename_i y hx hy; cases hm; exact fin s1 q1 _ hy
    · cases hm

end QV.Writer

namespace QV.Writer
open QV QV.Wire

/-! ### `NameAt` is functional; a frame lemma that tolerates a two-octet hole -/

theorem hop_unique {oct : Bytes} {cur cur' q p p' : Nat} (h : Hop oct cur q p) (h' : Hop oct cur' q p') :
    p = p' := by
  have a := hop_move h
  have b := hop_move h'
  rw [a] at b
  exact Out.ok.inj b

theorem ofNat_len_inj {a b : Nat} (ha : a ≤ 63) (hb : b ≤ 63) (h : UInt8.ofNat a = UInt8.ofNat b) : a = b := by
  have := congrArg UInt8.toNat h
  rw [UInt8.toNat_ofNat', UInt8.toNat_ofNat'] at this
  omega

theorem nameAt_unique {G G' : Nat → Prop} {oct : Bytes} {cur cur' p : Nat} {ls ls' : List Label}
    (h : NameAt G oct cur p ls) (h' : NameAt G' oct cur' p ls') : ls = ls' := by
  induction h generalizing ls' with
  | root hg hp h0 =>
    cases h' with
    | root _ _ _ => rfl
    | label _ h1 h63 hb _ _ _ =>
      rw [h0] at hb
      have := ofNat_len_inj (a := 0) (by omega) h63 (Option.some.inj hb)
      omega
  | @label p p1 l ls hg h1 h63 hb hd hop rest ih =>
    cases h' with
    | root _ _ h0 =>
      rw [h0] at hb
      have := ofNat_len_inj (b := 0) h63 (by omega) (Option.some.inj hb).symm
      omega
    | @label _ p2 l' ls2 _ h1' h63' hb' hd' hop' rest' =>
      rw [hb] at hb'
      have hl : l.length = l'.length := ofNat_len_inj h63 h63' (Option.some.inj hb')
      have : l = l' := by rw [← hd, ← hd', hl]
      subst this
      have := hop_unique hop hop'
      subst this
      rw [ih rest']

/-- Octets may change in the hole `[a, a+2)` (the RDLENGTH field written back at the end of a
    record) without disturbing any stored name, provided no recorded label start lies in the
    hole and everything recorded below `a` is stored entirely below `a`. -/
theorem nameAt_frame_gap {G : Nat → Prop} {oct oct' : Bytes} {cur a p : Nat} {ls : List Label}
    (h : NameAt G oct cur p ls)
    (hbelow : ∀ g, G g → g < a → ∃ ls', NameAt G oct a g ls')
    (hG : ∀ g, G g → g < a ∨ a + 2 ≤ g)
    (hagree : ∀ i, i < cur → (i < a ∨ a + 2 ≤ i) → oct'[i]? = oct[i]?) (hac : a ≤ cur) :
    NameAt G oct' cur p ls := by
  induction h with
  | root hg hp h0 =>
    exact .root hg hp (by rw [hagree _ hp (hG _ hg)]; exact h0)
  | @label p p1 l ls hg h1 h63 hb hd hop rest ih =>
    rcases hG p hg with hlt | hge
    · -- an old name: it lies entirely below the hole
      obtain ⟨ls', hn⟩ := hbelow p hg hlt
      have heq := nameAt_unique hn (NameAt.label hg h1 h63 hb hd hop rest)
      subst heq
      exact nameAt_frame (lo := 0) hn (fun _ hx => hx) (fun _ _ => Nat.zero_le _)
        (fun i _ hi => hagree i (by omega) (Or.inl hi)) hac
    · have hq := hop_start_lt hop
      have hqs := hop_start_size hop
      have hp1 : G p1 := (nameAt_start rest).1
      have hop' : Hop oct' cur (p + 1 + l.length) p1 := by
        cases hop with
        | here hq' hb' hnp => exact .here hq' (by rw [hagree _ hq' (Or.inr (by omega))]; exact hb') hnp
        | jump hq' hb1 hb2 hp hlt h3 hnp =>
          exact .jump hq' (by rw [hagree _ (by omega) (Or.inr (by omega))]; exact hb1)
            (by rw [hagree _ hq' (Or.inr (by omega))]; exact hb2) hp hlt
            (by rw [hagree _ (by omega) (hG _ hp1)]; exact h3) hnp
      have hqs' := hop_start_size hop'
      refine .label hg h1 h63 (by rw [hagree _ (by omega) (Or.inr hge)]; exact hb) ?_ hop' ih
      have : oct'.extract (p + 1) (p + 1 + l.length) = oct.extract (p + 1) (p + 1 + l.length) := by
        apply Array.ext_getElem?
        intro k
        simp only [Array.getElem?_extract]
        by_cases hk : k < min (p + 1 + l.length) oct.size - (p + 1)
        · have hk' : k < min (p + 1 + l.length) oct'.size - (p + 1) := by omega
          rw [if_pos hk, if_pos hk']
          exact hagree _ (by omega) (Or.inr (by omega))
        · have hk' : ¬ k < min (p + 1 + l.length) oct'.size - (p + 1) := by omega
          rw [if_neg hk, if_neg hk']
      rw [this]
      exact hd

end QV.Writer

namespace QV.Writer
open QV QV.Wire

/-! ### unconditionally: a match always replaces at least one label -/

/-- every live match of a context started at an earlier column -/
def ColsLt (c : Nat) (o : Option PriorCtx) : Prop :=
  ∀ pc, o = some pc → ∀ ms, pc.matchStart = some ms → ms.startColumn < c

theorem stepCtx_cols {oct : Bytes} {mode : CMode} {c : Nat} {lab : Label} {o o' : Option PriorCtx}
    (h : ColsLt c o) (hs : stepCtx oct mode c lab o = .ok o') : ColsLt (c + 1) o' := by
  cases o with
  | none => simp [stepCtx] at hs; subst hs; intro pc h; cases h
  | some pc =>
    unfold stepCtx at hs
    dsimp only at hs
    by_cases h1 : c < pc.startColumn
    · rw [if_pos h1] at hs
      cases hs
      intro q hq ms hm; cases hq
      exact Nat.lt_succ_of_lt (h pc rfl ms hm)
    · rw [if_neg h1] at hs
      by_cases h2 : pc.pointer < oct.size
      · rw [dif_pos h2] at hs
        by_cases h3 : pc.pointer + 1 + oct[pc.pointer].toNat > oct.size
        · rw [if_pos h3] at hs; cases hs
        · rw [if_neg h3] at hs
          cases hm : moveToNextRealLabel oct (pc.pointer + 1 + oct[pc.pointer].toNat) with
          | ok p' =>
            rw [hm] at hs
            simp only [Out.ok.injEq] at hs
            subst hs
            intro q hq ms hms
            cases hq
            simp only at hms
            cases hh : hintPointerNew pc.pointer with
            | none => rw [hh] at hms; cases hms
            | some pp =>
              rw [hh] at hms
              simp only at hms
              generalize (if mode = CMode.casePreserving then
                  decide (lab = (oct.extract (pc.pointer + 1) (pc.pointer + 1 + oct[pc.pointer].toNat)).toList)
                else WName.labelEqIgnoreCase lab
                  (oct.extract (pc.pointer + 1) (pc.pointer + 1 + oct[pc.pointer].toNat)).toList) = eqb at hms
              cases eqb with
              | false => simp at hms
              | true =>
                simp only [if_true] at hms
                cases hold : pc.matchStart with
                | none => rw [hold] at hms; cases hms; exact Nat.lt_succ_self _
                | some m0 =>
                  rw [hold] at hms; cases hms
                  exact Nat.lt_succ_of_lt (h pc rfl _ hold)
          | err e => rw [hm] at hs; cases hs
          | panic => rw [hm] at hs; cases hs
      · rw [dif_neg h2] at hs; cases hs

theorem dedup_cols {c : Nat} {c0 c1 : Option PriorCtx} (h0 : ColsLt c c0) (h1 : ColsLt c c1) :
    ColsLt c (dedup c0 c1).1 ∧ ColsLt c (dedup c0 c1).2 := by
  have hn : ColsLt c none := fun pc h => by cases h
  unfold dedup
  repeat' split
  all_goals first
    | exact ⟨h0, h1⟩
    | exact ⟨h0, hn⟩
    | exact ⟨hn, h1⟩

theorem scan_cols {oct : Bytes} {mode : CMode} (rest : List Label) (c : Nat) (c0 c1 r0 r1 : Option PriorCtx)
    (h0 : ColsLt c c0) (h1 : ColsLt c c1) (hs : scan oct mode c rest c0 c1 = .ok (r0, r1)) :
    ColsLt (c + rest.length) r0 ∧ ColsLt (c + rest.length) r1 := by
  induction rest generalizing c c0 c1 with
  | nil => simp only [scan, Out.ok.injEq, Prod.mk.injEq] at hs; obtain ⟨rfl, rfl⟩ := hs; exact ⟨h0, h1⟩
  | cons lab rest ih =>
    simp only [scan] at hs
    obtain ⟨d0, d1⟩ := dedup_cols h0 h1
    cases e0 : stepCtx oct mode c lab (dedup c0 c1).1 with
    | ok o0 =>
      rw [e0] at hs
      cases e1 : stepCtx oct mode c lab (dedup c0 c1).2 with
      | ok o1 =>
        rw [e1] at hs
        have := ih (c + 1) o0 o1 (stepCtx_cols d0 e0) (stepCtx_cols d1 e1) hs
        simpa [Nat.add_assoc, Nat.add_comm 1] using this
      | err e => rw [e1] at hs; cases hs
      | panic => rw [e1] at hs; cases hs
    | err e => rw [e0] at hs; cases hs
    | panic => rw [e0] at hs; cases hs

theorem buildPriorCtxOpt_cols {oct : Bytes} {clen : Nat} {o : Option Prior} {r : Option PriorCtx}
    (h : buildPriorCtxOpt oct clen o = .ok r) : ColsLt 0 r := by
  intro pc hpc ms hms
  cases o with
  | none => simp [buildPriorCtxOpt] at h; subst h; cases hpc
  | some p =>
    simp only [buildPriorCtxOpt] at h
    cases hb : buildPriorCtx oct clen p with
    | ok c =>
      rw [hb] at h
      simp only [Out.ok.injEq] at h
      subst h
      cases hpc
      unfold buildPriorCtx at hb
      split at hb
      · cases hb; cases hms
      · cases hb
      · cases hb
    | err e => rw [hb] at h; cases h
    | panic => rw [hb] at h; cases h

/-- **for any buffer and any anchors, valid or not**: if the scan decides to compress, the
    pointer replaces at least one label (so the compressed form is shorter than the name) -/
theorem compressDecision_col {oct : Bytes} {mode : CMode} {a b : Option Prior} {n : WName}
    {m : MatchStart} (h : compressDecision oct mode a b n = .ok (some m)) :
    m.startColumn < n.labels.length := by
  unfold compressDecision at h
  split at h
  · cases h
  · cases e0 : buildPriorCtxOpt oct n.len a with
    | ok r0 =>
      rw [e0] at h
      cases e1 : buildPriorCtxOpt oct n.len b with
      | ok r1 =>
        rw [e1] at h
        simp only [] at h
        cases es : scan oct mode 0 n.labels r0 r1 with
        | ok pr =>
          obtain ⟨s0, s1⟩ := pr
          rw [es] at h
          simp only [Out.ok.injEq] at h
          obtain ⟨q0, q1⟩ := scan_cols n.labels 0 r0 r1 s0 s1 (buildPriorCtxOpt_cols e0)
            (buildPriorCtxOpt_cols e1) es
          simp only [Nat.zero_add] at q0 q1
          unfold longestMatch at h
          split at h
          · rename_i x y hx hy
            have hx' : ∃ pc, s0 = some pc ∧ pc.matchStart = some x := by
              cases s0 with
              | none => cases hx
              | some pc => exact ⟨pc, rfl, hx⟩
            have hy' : ∃ pc, s1 = some pc ∧ pc.matchStart = some y := by
              cases s1 with
              | none => cases hy
              | some pc => exact ⟨pc, rfl, hy⟩
            obtain ⟨p0, hp0, hm0⟩ := hx'
            obtain ⟨p1, hp1, hm1⟩ := hy'
            split at h
            · cases h; exact q1 p1 hp1 _ hm1
            · cases h; exact q0 p0 hp0 _ hm0
          · rename_i x hx hy
            cases h
            cases s0 with
            | none => cases hx
            | some pc => exact q0 pc rfl _ hx
          · rename_i y hx hy
            cases h
            cases s1 with
            | none => cases hy
            | some pc => exact q1 pc rfl _ hy
          · cases h
        | err e => rw [es] at h; cases h
        | panic => rw [es] at h; cases h
      | err e => rw [e1] at h; cases h
      | panic => rw [e1] at h; cases h
    | err e => rw [e0] at h; cases h
    | panic => rw [e0] at h; cases h

end QV.Writer
