/-
  QV.Proofs.ServerRrlSafe — `Server::handle_message` with response rate limiting enabled
  (model: QV.Model.ServerRrl) never panics, and what it returns relates to the RRL-less handler:

  * `handleMessage_eq_toContext`: the RRL-less `handleMessage` is `handleToContext` followed by
    `finishResponse` (so the new model and the old one share everything up to RRL);
  * `handleToContext_cases`: `handleToContext` never panics and hands RRL a writer state that
    satisfies the writer invariant (the ingredients of `C01_holds`);
  * `handleMessageRrl_no_panic`: + `process_response` never panics (C26) + the two writer calls of
    the Slip path meet the writer's contract + `finish` from an invariant state;
  * the outcomes: not subject to RRL ⇒ exactly the RRL-less response, table untouched; otherwise no
    response (Drop), the RRL-less response (Send), or (Slip) `finish` of the writer after
    `clear_rrs(); set_tc(true)`: no answer/authority records, ARCOUNT = [OPT] + [TSIG], cursor back
    at the end of the question.
-/
import QV.Model.ServerRrl
import QV.Proofs.ServerSafety
import QV.Proofs.Rrl

namespace QV.ServerSafety
open QV QV.Writer QV.Server QV.Reader

/-! ### the RRL-less handler factors through `handleToContext` -/

set_option hygiene false in
/-- the case analysis shared by the two transports in `handleMessage_eq_toContext` -/
macro "same_prefix" : tactic => `(tactic|
  (cases Reader.tryFrom req with
   | panic => rfl
   | err e => rfl
   | ok r0 =>
     dsimp only
     cases Reader.qr r0 with
     | panic => rfl
     | err e => rfl
     | ok qr =>
       cases Reader.msgId r0 with
       | panic => rfl
       | err e => rfl
       | ok id =>
         cases Reader.opcode r0 with
         | panic => rfl
         | err e => rfl
         | ok opcode =>
           cases Reader.rd r0 with
           | panic => rfl
           | err e => rfl
           | ok rd =>
             dsimp only
             cases qr with
             | true => rfl
             | false =>
               simp only [Bool.false_eq_true, if_false]
               cases Writer.new (Array.replicate bufLen 0) _ with
               | panic => rfl
               | err e => rfl
               | ok w0 =>
                 dsimp only
                 generalize (setId id >>= _) w0 = res
                 obtain ⟨o, w1⟩ := res
                 cases o with
                 | ok b => cases b <;> rfl
                 | err e => rfl
                 | panic => rfl))

theorem handleMessage_eq_toContext (cfg : Cfg) (tr : Transport) (now bufLen : Nat) (req : Bytes) :
    handleMessage cfg tr now bufLen req =
      (match handleToContext cfg tr now bufLen req with
       | .ok h => finishResponse h
       | .err _ => .panic
       | .panic => .panic) := by
  unfold handleMessage handleToContext
  cases tr with
  | tcp =>
    dsimp only
    by_cases hb : bufLen < 65535
    · simp only [hb, if_true]
    · simp only [hb, if_false]; same_prefix
  | udp =>
    dsimp only
    by_cases hb : bufLen < cfg.payload
    · simp only [hb, if_true]
    · simp only [hb, if_false]; same_prefix

/-! ### up to RRL: never a panic, and an invariant writer state -/

theorem handleToContext_cases (W : WriterSafe) (cfg : Cfg) (hcfg : CfgWF cfg) (tr : Transport)
    (now bufLen : Nat) (req : Bytes) (henv : EnvOK cfg tr now bufLen req) :
    handleToContext cfg tr now bufLen req = .ok .noContext ∨
    ∃ send w1 r0, W.I w1 ∧ Reader.Inv r0 ∧ handleToContext cfg tr now bufLen req = .ok (.ctx send w1 r0) := by
  have hbuf := henv.buf
  have hpay := hcfg.payload
  have key := fun r0 hr0 id opc rdv w0 hI0 hs hq =>
    prog_safe W cfg hcfg tr now henv.now r0 hr0 id opc rdv w0 hI0 hs hq
  have hreq := henv.req
  have hn : ∃ w0, Writer.new (Array.replicate bufLen 0)
      (match (generalizing := false) tr with | .tcp => 65535 | .udp => 512) = .ok w0 ∧
      w0.sect = .question ∧ w0.qdcount = 0 := by
    cases tr <;> exact new_ok bufLen _ (by simp only at hbuf; omega) (by simp)
  clear henv
  unfold handleToContext
  cases tr <;> dsimp only at hbuf hn ⊢ <;>
  ( split
    · omega
    · cases htf : Reader.tryFrom req with
      | panic => exact absurd htf (C15.C15_tryFrom_total req)
      | err e => exact Or.inl rfl
      | ok r0 =>
        have hinv := C15.C15_tryFrom_inv req r0 htf
        have hr0 : RInv r0 := by
          unfold Reader.tryFrom at htf
          split at htf
          · cases htf; exact ⟨hinv, by show 12 ≤ Gen.HEADER_SIZE; decide, hreq⟩
          · cases htf
        obtain ⟨_, eid, _⟩ := C15.C15_header_fields r0 hinv
        obtain ⟨opc, hopc⟩ := opcode_ok r0 hinv
        have c : Gen.QR_BYTE = 2 ∧ Gen.RD_BYTE = 2 ∧ Gen.HEADER_SIZE = 12 := by decide
        have h12 : 12 ≤ r0.octets.size := by have := hinv.1; rw [c.2.2] at this; exact this
        obtain ⟨qrv, eqr⟩ : ∃ v, Reader.qr r0 = .ok v :=
          ⟨_, C15.flag_ok r0 Gen.QR_BYTE Gen.QR_MASK (by rw [c.1]; omega)⟩
        obtain ⟨rdv, erd⟩ : ∃ v, Reader.rd r0 = .ok v :=
          ⟨_, C15.flag_ok r0 Gen.RD_BYTE Gen.RD_MASK (by rw [c.2.1]; omega)⟩
        simp only [eqr, eid, hopc, erd]
        cases qrv with
        | true => exact Or.inl rfl
        | false =>
          simp only [Bool.false_eq_true, if_false]
          obtain ⟨w0, hnew, hsect, hqd⟩ := hn
          rw [hnew]
          simp only
          obtain ⟨⟨hp1, hp2⟩, hne⟩ := key r0 hr0 (be16 r0.octets 0) opc rdv w0 (W.new_I _ _ _ (by decide) hnew) hsect hqd
          have hne' := hne.h w0
          split
          · rename_i send w1 heq
            have e : prog cfg _ now r0 (be16 r0.octets 0) opc rdv w0 = (.ok send, w1) := heq
            rw [e] at hp2
            exact Or.inr ⟨send, w1, r0, hp2, hinv, rfl⟩
          · rename_i hn1
            generalize hres : prog cfg _ now r0 (be16 r0.octets 0) opc rdv w0 = res at hp1 hp2 hne'
            obtain ⟨o, w1⟩ := res
            cases o with
            | panic => exact absurd rfl hp1
            | err e => exact absurd rfl (hne' e)
            | ok b => exact absurd hres (hn1 b w1) )

/-! ### the Slip path on the writer -/

/-- `response.clear_rrs(); response.set_tc(true)` from an invariant state: succeeds, the invariant
    holds again, and the records are gone -/
theorem slip_ok (W : WriterSafe) (w1 : State) (hi : W.I w1) :
    ∃ w2, applyRrlAction (some .Slip) w1 = (.ok (), w2) ∧ W.I w2 ∧
      w2.ancount = 0 ∧ w2.nscount = 0 ∧
      w2.arcount = (if w1.edns.isSome then 1 else 0) + (if w1.tsig.isSome then 1 else 0) ∧
      w2.cursor = w1.rrStart ∧ w2.qdcount = w1.qdcount ∧ w2.edns = w1.edns ∧ w2.tsig = w1.tsig := by
  have hc : W.I (clearRrs w1).2 := W.clearRrs_I w1 hi
  obtain ⟨h1, h2, _⟩ := W.call (.setBit Gen.TC_BYTE Gen.TC_MASK true) (clearRrs w1).2 hc
    (show Gen.TC_BYTE < Gen.HEADER_SIZE by decide)
  have e : (Call.setBit Gen.TC_BYTE Gen.TC_MASK true).run = setTc true := rfl
  rw [e] at h1 h2
  have hne := (noErr_setTc true).h (clearRrs w1).2
  have happ : applyRrlAction (some .Slip) w1 = setTc true (clearRrs w1).2 := rfl
  rw [happ]
  -- `set_tc` touches the header octet only
  have hfr : ∀ s : State, (setTc true s).2.ancount = s.ancount ∧ (setTc true s).2.nscount = s.nscount ∧
      (setTc true s).2.arcount = s.arcount ∧ (setTc true s).2.cursor = s.cursor ∧
      (setTc true s).2.qdcount = s.qdcount ∧ (setTc true s).2.edns = s.edns ∧ (setTc true s).2.tsig = s.tsig := by
    intro s
    unfold setTc setBit setHdr
    split <;> exact ⟨rfl, rfl, rfl, rfl, rfl, rfl, rfl⟩
  obtain ⟨f1, f2, f3, f4, f5, f6, f7⟩ := hfr (clearRrs w1).2
  generalize hres : setTc true (clearRrs w1).2 = res at h1 h2 hne f1 f2 f3 f4 f5 f6 f7
  obtain ⟨o, w2⟩ := res
  cases o with
  | panic => exact absurd rfl h1
  | err e => exact absurd rfl (hne e)
  | ok u =>
    exact ⟨w2, rfl, h2, by rw [f1]; rfl, by rw [f2]; rfl, by rw [f3]; rfl, by rw [f4]; rfl,
      by rw [f5]; rfl, by rw [f6]; rfl, by rw [f7]; rfl⟩

theorem finishResponse_ok (W : WriterSafe) (send : Bool) (w : State) (r0 : Reader) (hi : W.I w) :
    ∃ resp, finishResponse (.ctx send w r0) = .ok resp ∧ (send = false → resp = none) := by
  cases send with
  | false => exact ⟨none, rfl, fun _ => rfl⟩
  | true =>
    obtain ⟨b, mac, hf⟩ := finish_ok W w macFn hi (macLenOK_server hmacLenOK)
    exact ⟨some b, by simp only [finishResponse, hf], fun h => by cases h⟩

/-! ### the composed handler -/

/-- **`handle_message` with RRL enabled never panics** (for any proof `W` of the writer interface) -/
theorem handleMessageRrl_no_panic (W : WriterSafe) (cfg : Cfg) (hcfg : CfgWF cfg) (tr : Transport)
    (now bufLen : Nat) (req : Bytes) (henv : EnvOK cfg tr now bufLen req) (rs : Rrl.RandomState)
    (rrl : Rrl.Rrl) (hv : rrl.params.Valid) (src : Rrl.IpAddr) (tnow : Nat) (rnd : Bool) :
    ∃ resp rrl', handleMessageRrl cfg tr now bufLen req rs rrl src tnow rnd = .ok (resp, rrl') := by
  unfold handleMessageRrl
  rcases handleToContext_cases W cfg hcfg tr now bufLen req henv with h | ⟨send, w1, r0, hi, _, h⟩
  · rw [h]; exact ⟨none, rrl, rfl⟩
  · rw [h]
    dsimp only
    have hnp := Rrl.processResponse_no_panic rs rrl hv tnow rnd (rrlContext cfg tr src send w1 r0)
    cases hp : Rrl.processResponse rs rrl tnow rnd (rrlContext cfg tr src send w1 r0) with
    | panic => exact absurd hp hnp
    | err e => exact nomatch e
    | ok v =>
      obtain ⟨rrl', c'⟩ := v
      dsimp only
      cases ha : c'.rrl_action with
      | none =>
        obtain ⟨resp, hf, _⟩ := finishResponse_ok W c'.send_response w1 r0 hi
        simp only [applyRrlAction, pure, hf]
        exact ⟨resp, rrl', rfl⟩
      | some a =>
        cases a with
        | Slip =>
          obtain ⟨w2, hs, hi2, _⟩ := slip_ok W w1 hi
          rw [hs]
          obtain ⟨resp, hf, _⟩ := finishResponse_ok W c'.send_response w2 r0 hi2
          simp only [hf]
          exact ⟨resp, rrl', rfl⟩
        | Send =>
          obtain ⟨resp, hf, _⟩ := finishResponse_ok W c'.send_response w1 r0 hi
          simp only [applyRrlAction, pure, hf]
          exact ⟨resp, rrl', rfl⟩
        | Drop =>
          obtain ⟨resp, hf, _⟩ := finishResponse_ok W c'.send_response w1 r0 hi
          simp only [applyRrlAction, pure, hf]
          exact ⟨resp, rrl', rfl⟩

/-- the four outcomes of the composed handler, relative to the RRL-less one -/
inductive RrlOutcome (cfg : Cfg) (tr : Transport) (now bufLen : Nat) (req : Bytes)
    (rrl : Rrl.Rrl) (resp : Option Bytes) (rrl' : Rrl.Rrl) : Prop where
  /-- not subject to RRL (no response anyway, TCP, opcode ≠ QUERY): the RRL-less response, the
      table untouched -/
  | exempt (h : handleMessage cfg tr now bufLen req = .ok resp) (ht : rrl' = rrl)
  /-- admitted: the RRL-less response -/
  | send (h : handleMessage cfg tr now bufLen req = .ok resp)
  /-- limited, dropped: no response -/
  | drop (h : resp = none)
  /-- limited, slipped: the response is `finish` of the handler's writer after
      `clear_rrs(); set_tc(true)` — question kept, no answer/authority records, ARCOUNT counts only
      the OPT / TSIG pseudo-records that `finish` appends -/
  | slip (w1 w2 : State) (r0 : Reader) (b : Bytes) (mac : Option (List UInt8))
      (h1 : handleToContext cfg tr now bufLen req = .ok (.ctx true w1 r0))
      (h2 : applyRrlAction (some .Slip) w1 = (.ok (), w2))
      (h3 : w2.ancount = 0 ∧ w2.nscount = 0 ∧
        w2.arcount = (if w1.edns.isSome then 1 else 0) + (if w1.tsig.isSome then 1 else 0) ∧
        w2.cursor = w1.rrStart ∧ w2.qdcount = w1.qdcount)
      (h4 : Writer.finish w2 macFn = .ok (b, mac)) (h5 : resp = some b)

theorem handleMessageRrl_outcome (W : WriterSafe) (cfg : Cfg) (hcfg : CfgWF cfg) (tr : Transport)
    (now bufLen : Nat) (req : Bytes) (henv : EnvOK cfg tr now bufLen req) (rs : Rrl.RandomState)
    (rrl : Rrl.Rrl) (src : Rrl.IpAddr) (tnow : Nat) (rnd : Bool)
    (resp : Option Bytes) (rrl' : Rrl.Rrl)
    (h : handleMessageRrl cfg tr now bufLen req rs rrl src tnow rnd = .ok (resp, rrl')) :
    RrlOutcome cfg tr now bufLen req rrl resp rrl' := by
  have heq := handleMessage_eq_toContext cfg tr now bufLen req
  unfold handleMessageRrl at h
  rcases handleToContext_cases W cfg hcfg tr now bufLen req henv with hc | ⟨send, w1, r0, hi, _, hc⟩
  · rw [hc] at h heq
    simp only [Out.ok.injEq, Prod.mk.injEq] at h
    obtain ⟨rfl, rfl⟩ := h
    exact .exempt heq rfl
  · rw [hc] at h heq
    dsimp only at h heq
    cases hp : Rrl.processResponse rs rrl tnow rnd (rrlContext cfg tr src send w1 r0) with
    | panic => rw [hp] at h; cases h
    | err e => exact nomatch e
    | ok v =>
      obtain ⟨R', c'⟩ := v
      rw [hp] at h
      dsimp only at h
      have hsend0 : (rrlContext cfg tr src send w1 r0).send_response = send := rfl
      have hact0 : (rrlContext cfg tr src send w1 r0).rrl_action = none := rfl
      rcases Rrl.processResponse_shape rs rrl tnow rnd _ R' c' hp with ⟨_, hR, hcc⟩ | ⟨hsub, a, hcc, _, _⟩
      · -- not subject to RRL
        subst hcc
        rw [hact0, hsend0] at h
        simp only [applyRrlAction, pure] at h
        cases hf : finishResponse (.ctx send w1 r0) with
        | ok r =>
          rw [hf] at h heq
          simp only [Out.ok.injEq, Prod.mk.injEq] at h
          obtain ⟨rfl, rfl⟩ := h
          exact .exempt heq hR
        | err e => rw [hf] at h; cases h
        | panic => rw [hf] at h; cases h
      · -- subject to RRL: then `send_response` was set
        have hs : send = true := by
          unfold Rrl.subjectToRrl at hsub
          rw [hsend0] at hsub
          simp only [Bool.and_eq_true] at hsub
          exact hsub.1.1
        subst hs
        subst hcc
        cases a with
        | Send =>
          simp only [Rrl.applyAction, applyRrlAction, pure, hsend0] at h
          cases hf : finishResponse (.ctx true w1 r0) with
          | ok r =>
            rw [hf] at h heq
            simp only [Out.ok.injEq, Prod.mk.injEq] at h
            obtain ⟨rfl, rfl⟩ := h
            exact .send heq
          | err e => rw [hf] at h; cases h
          | panic => rw [hf] at h; cases h
        | Drop =>
          simp only [Rrl.applyAction, applyRrlAction, pure, finishResponse, Out.ok.injEq, Prod.mk.injEq] at h
          exact .drop h.1.symm
        | Slip =>
          obtain ⟨w2, hs2, hi2, g1, g2, g3, g4, g5, _, _⟩ := slip_ok W w1 hi
          simp only [Rrl.applyAction, hsend0] at h
          rw [hs2] at h
          dsimp only at h
          obtain ⟨b, mac, hf⟩ := finish_ok W w2 macFn hi2 (macLenOK_server hmacLenOK)
          simp only [finishResponse, hf, Out.ok.injEq, Prod.mk.injEq] at h
          exact .slip w1 w2 r0 b mac hc hs2 ⟨g1, g2, g3, g4, g5⟩ hf h.1.symm

/-- over TCP nothing is subject to RRL -/
theorem handleMessageRrl_tcp (W : WriterSafe) (cfg : Cfg) (hcfg : CfgWF cfg) (now bufLen : Nat) (req : Bytes)
    (henv : EnvOK cfg .tcp now bufLen req) (rs : Rrl.RandomState) (rrl : Rrl.Rrl) (hv : rrl.params.Valid)
    (src : Rrl.IpAddr) (tnow : Nat) (rnd : Bool) :
    ∃ resp, handleMessage cfg .tcp now bufLen req = .ok resp ∧
      handleMessageRrl cfg .tcp now bufLen req rs rrl src tnow rnd = .ok (resp, rrl) := by
  obtain ⟨resp, rrl', h⟩ := handleMessageRrl_no_panic W cfg hcfg .tcp now bufLen req henv rs rrl hv src tnow rnd
  have heq := handleMessage_eq_toContext cfg .tcp now bufLen req
  have h0 := h
  unfold handleMessageRrl at h
  rcases handleToContext_cases W cfg hcfg .tcp now bufLen req henv with hc | ⟨send, w1, r0, hi, _, hc⟩
  · rw [hc] at h heq
    simp only [Out.ok.injEq, Prod.mk.injEq] at h
    obtain ⟨rfl, rfl⟩ := h
    exact ⟨none, heq, h0⟩
  · rw [hc] at h heq
    dsimp only at h heq
    have hns : Rrl.subjectToRrl (rrlContext cfg .tcp src send w1 r0) = false := by
      unfold Rrl.subjectToRrl rrlContext
      simp [rrlTransport, Gen.RRL_LIMITED_TRANSPORT_IS_UDP]
    have hp : Rrl.processResponse rs rrl tnow rnd (rrlContext cfg .tcp src send w1 r0) =
        .ok (rrl, rrlContext cfg .tcp src send w1 r0) := by
      unfold Rrl.processResponse
      simp [hns]
    rw [hp] at h
    have hact0 : (rrlContext cfg .tcp src send w1 r0).rrl_action = none := rfl
    have hsend0 : (rrlContext cfg .tcp src send w1 r0).send_response = send := rfl
    simp only [hact0, hsend0, applyRrlAction, pure] at h
    cases hf : finishResponse (.ctx send w1 r0) with
    | ok r =>
      rw [hf] at h heq
      simp only [Out.ok.injEq, Prod.mk.injEq] at h
      obtain ⟨rfl, rfl⟩ := h
      exact ⟨r, heq, h0⟩
    | err e => rw [hf] at h; cases h
    | panic => rw [hf] at h; cases h

/-- `process_response` never touches the parameters of the table -/
theorem processResponse_params (rs : Rrl.RandomState) (R : Rrl.Rrl) (now : Nat) (rnd : Bool) (c : Rrl.Context)
    (R' : Rrl.Rrl) (c' : Rrl.Context) (h : Rrl.processResponse rs R now rnd c = .ok (R', c')) :
    R'.params = R.params := by
  unfold Rrl.processResponse at h
  split at h
  · simp only [Out.ok.injEq, Prod.mk.injEq] at h; rw [← h.1]
  · split at h
    · cases h
    · exact nomatch (by assumption : Empty)
    · split at h
      · cases h
      · dsimp only at h
        split at h
        · cases h
        · exact nomatch (by assumption : Empty)
        · simp only [Out.ok.injEq, Prod.mk.injEq] at h; rw [← h.1]; rfl

theorem handleMessageRrl_params (cfg : Cfg) (tr : Transport) (now bufLen : Nat) (req : Bytes)
    (rs : Rrl.RandomState) (rrl : Rrl.Rrl) (src : Rrl.IpAddr) (tnow : Nat) (rnd : Bool)
    (resp : Option Bytes) (rrl' : Rrl.Rrl)
    (h : handleMessageRrl cfg tr now bufLen req rs rrl src tnow rnd = .ok (resp, rrl')) :
    rrl'.params = rrl.params := by
  unfold handleMessageRrl at h
  cases hc : handleToContext cfg tr now bufLen req with
  | panic => rw [hc] at h; cases h
  | err e => rw [hc] at h; cases h
  | ok hd =>
    rw [hc] at h
    cases hd with
    | noContext => simp only [Out.ok.injEq, Prod.mk.injEq] at h; rw [← h.2]
    | ctx send w1 r0 =>
      dsimp only at h
      cases hp : Rrl.processResponse rs rrl tnow rnd (rrlContext cfg tr src send w1 r0) with
      | panic => rw [hp] at h; cases h
      | err e => exact nomatch e
      | ok v =>
        obtain ⟨R', c'⟩ := v
        rw [hp] at h
        dsimp only at h
        have hpar := processResponse_params rs rrl tnow rnd _ R' c' hp
        split at h
        · split at h
          · simp only [Out.ok.injEq, Prod.mk.injEq] at h; rw [← h.2]; exact hpar
          · cases h
        · cases h

/-- **a whole sequence of messages** against one rate-limited server: no panic, one result per
    message -/
theorem serveAll_no_panic (W : WriterSafe) (cfg : Cfg) (hcfg : CfgWF cfg) (rs : Rrl.RandomState)
    (arrivals : List Arrival) (henv : ∀ a ∈ arrivals, EnvOK cfg a.tr a.now a.bufLen a.req) :
    ∀ (rrl : Rrl.Rrl), rrl.params.Valid →
      ∃ resps rrl', serveAll cfg rs rrl arrivals = .ok (resps, rrl') ∧ resps.length = arrivals.length ∧
        rrl'.params = rrl.params := by
  induction arrivals with
  | nil => intro rrl _; exact ⟨[], rrl, rfl, rfl, rfl⟩
  | cons a rest ih =>
    intro rrl hv
    obtain ⟨resp, rrl1, h1⟩ := handleMessageRrl_no_panic W cfg hcfg a.tr a.now a.bufLen a.req
      (henv a (List.mem_cons_self ..)) rs rrl hv a.src a.tnow a.rnd
    have hp1 := handleMessageRrl_params cfg a.tr a.now a.bufLen a.req rs rrl a.src a.tnow a.rnd resp rrl1 h1
    obtain ⟨resps, rrl2, h2, hl, hp2⟩ := ih (fun b hb => henv b (List.mem_cons_of_mem _ hb)) rrl1 (hp1 ▸ hv)
    refine ⟨resp :: resps, rrl2, ?_, by simp [hl], hp2.trans hp1⟩
    simp only [serveAll, h1, h2]

end QV.ServerSafety
