/-
  QV.Proofs.CompressC — `NameAtC`: a stored name read with the RFC 1035 §4.1.4 discipline made
  explicit. `NameAt` (QV.Proofs.Compress) follows pointers the way the writer's scan does ("target
  < position of the pointer"); `NameAtC G oct cur cs p ls` additionally records the start `cs` of
  the contiguous chunk `p` lies in and demands of every pointer "target < start of the chunk that
  contains the pointer" — what the independent decoder (`QV.Spec.Decodes`) demands. The writer
  only ever emits pointers to positions below the start of the name it is writing, so every
  recorded label start begins such a name (`WInv.clabs`).
-/
import QV.Proofs.Compress

namespace QV.Writer
open QV QV.Wire

inductive NameAtC (G : Nat → Prop) (oct : Bytes) (cur : Nat) : Nat → Nat → List Label → Prop
  | root {cs p : Nat} (hcs : cs ≤ p) (hg : G p) (hp : p < cur) (h0 : oct[p]? = some 0) :
      NameAtC G oct cur cs p []
  | label {cs cs' p p' : Nat} {l : Label} {ls : List Label} (hcs : cs ≤ p) (hg : G p) (h1 : 1 ≤ l.length)
      (h63 : l.length ≤ 63) (hb : oct[p]? = some (UInt8.ofNat l.length))
      (hd : (oct.extract (p + 1) (p + 1 + l.length)).toList = l)
      (hop : Hop oct cur (p + 1 + l.length) p')
      (hch : (p' = p + 1 + l.length ∧ cs' = cs) ∨ (p' < cs ∧ cs' = p'))
      (rest : NameAtC G oct cur cs' p' ls) :
      NameAtC G oct cur cs p (l :: ls)

theorem nameAtC_cs {G : Nat → Prop} {oct : Bytes} {cur cs p : Nat} {ls : List Label}
    (h : NameAtC G oct cur cs p ls) : cs ≤ p := by
  cases h with
  | root hcs _ _ _ => exact hcs
  | label hcs _ _ _ _ _ _ _ _ => exact hcs

/-- forgetting the chunk discipline -/
theorem nameAtC_forget {G : Nat → Prop} {oct : Bytes} {cur cs p : Nat} {ls : List Label}
    (h : NameAtC G oct cur cs p ls) : NameAt G oct cur p ls := by
  induction h with
  | root _ hg hp h0 => exact .root hg hp h0
  | label _ hg h1 h63 hb hd hop _ _ ih => exact .label hg h1 h63 hb hd hop ih

/-- the chunk start may be moved up to the position itself -/
theorem nameAtC_mono {G : Nat → Prop} {oct : Bytes} {cur cs cs2 p : Nat} {ls : List Label}
    (h : NameAtC G oct cur cs p ls) (h1 : cs ≤ cs2) (h2 : cs2 ≤ p) : NameAtC G oct cur cs2 p ls := by
  induction h generalizing cs2 with
  | root _ hg hp h0 => exact .root h2 hg hp h0
  | @label cs cs' p p' l ls hcs hg hl1 h63 hb hd hop hch rest ih =>
    rcases hch with ⟨e1, e2⟩ | ⟨e1, e2⟩
    · subst e2
      exact .label (cs' := cs2) h2 hg hl1 h63 hb hd hop (Or.inl ⟨e1, rfl⟩) (ih h1 (by omega))
    · exact .label h2 hg hl1 h63 hb hd hop (Or.inr ⟨by omega, e2⟩) rest

theorem nameAtC_frame {G G' : Nat → Prop} {oct oct' : Bytes} {cur cur' cs p lo : Nat} {ls : List Label}
    (h : NameAtC G oct cur cs p ls) (hG : ∀ x, G x → G' x) (hlo : ∀ x, G x → lo ≤ x)
    (hpre : ∀ i, lo ≤ i → i < cur → oct'[i]? = oct[i]?) (hc : cur ≤ cur') :
    NameAtC G' oct' cur' cs p ls := by
  induction h with
  | root hcs hg hp h0 => exact .root hcs (hG _ hg) (by omega) (by rw [hpre _ (hlo _ hg) hp]; exact h0)
  | @label cs cs' p p' l ls hcs hg h1 h63 hb hd hop hch rest ih =>
    have hlt := hop_start_lt hop
    have hsz := hop_start_size hop
    have hp'lo : lo ≤ p' := hlo _ (nameAt_start (nameAtC_forget rest)).1
    have hop' := hop_frame hop hpre hc hp'lo
    have hsz' := hop_start_size hop'
    have hpl := hlo _ hg
    refine .label hcs (hG _ hg) h1 h63 (by rw [hpre _ hpl (by omega)]; exact hb) ?_ hop' hch ih
    have : oct'.extract (p + 1) (p + 1 + l.length) = oct.extract (p + 1) (p + 1 + l.length) := by
      apply Array.ext_getElem?
      intro k
      simp only [Array.getElem?_extract]
      by_cases hk : k < min (p + 1 + l.length) oct.size - (p + 1)
      · have hk' : k < min (p + 1 + l.length) oct'.size - (p + 1) := by omega
        rw [if_pos hk, if_pos hk']
        exact hpre _ (by omega) (by omega)
      · have hk' : ¬ k < min (p + 1 + l.length) oct'.size - (p + 1) := by omega
        rw [if_neg hk, if_neg hk']
    rw [this]
    exact hd

/-- a chunk-disciplined reading and a plain reading of the same position read the same labels -/
theorem nameAtC_unique {G G' : Nat → Prop} {oct : Bytes} {cur cur' cs p : Nat} {ls ls' : List Label}
    (h : NameAtC G oct cur cs p ls) (h' : NameAt G' oct cur' p ls') : ls = ls' :=
  nameAt_unique (nameAtC_forget h) h'

/-- from a plain reading inside `[0, a)` of a position whose chunk-disciplined reading is known
    (in a larger window), the chunk-disciplined reading fits the smaller window too -/
theorem nameAtC_shrink {G G' : Nat → Prop} {oct : Bytes} {cur a cs p : Nat} {ls ls' : List Label}
    (h : NameAtC G oct cur cs p ls) (h' : NameAt G' oct a p ls') : NameAtC G' oct a cs p ls := by
  induction h generalizing ls' with
  | root hcs hg hp h0 =>
    have := nameAt_start h'
    exact .root hcs this.1 this.2.1 h0
  | @label cs cs' p p1 l ls hcs hg h1 h63 hb hd hop hch rest ih =>
    cases h' with
    | root _ _ h0 =>
      rw [h0] at hb
      have := ofNat_len_inj (b := 0) h63 (by omega) (Option.some.inj hb).symm
      omega
    | @label _ p2 l' ls2 hg' h1' h63' hb' hd' hop' rest' =>
      rw [hb] at hb'
      have hl : l.length = l'.length := ofNat_len_inj h63 h63' (Option.some.inj hb')
      have : l = l' := by rw [← hd, ← hd', hl]
      subst this
      have := hop_unique hop hop'
      subst this
      exact .label hcs hg' h1 h63 hb hd hop' hch (ih rest')

/-- the analogue of `nameAt_frame_gap` -/
theorem nameAtC_frame_gap {G : Nat → Prop} {oct oct' : Bytes} {cur a cs p : Nat} {ls : List Label}
    (h : NameAtC G oct cur cs p ls)
    (hbelow : ∀ g, G g → g < a → ∃ ls', NameAt G oct a g ls')
    (hG : ∀ g, G g → g < a ∨ a + 2 ≤ g)
    (hagree : ∀ i, i < cur → (i < a ∨ a + 2 ≤ i) → oct'[i]? = oct[i]?) (hac : a ≤ cur) :
    NameAtC G oct' cur cs p ls := by
  induction h with
  | root hcs hg hp h0 =>
    exact .root hcs hg hp (by rw [hagree _ hp (hG _ hg)]; exact h0)
  | @label cs cs' p p1 l ls hcs hg h1 h63 hb hd hop hch rest ih =>
    rcases hG p hg with hlt | hge
    · obtain ⟨ls', hn⟩ := hbelow p hg hlt
      have hc : NameAtC G oct cur cs p (l :: ls) := .label hcs hg h1 h63 hb hd hop hch rest
      have hs := nameAtC_shrink hc hn
      exact nameAtC_frame (lo := 0) hs (fun _ hx => hx) (fun _ _ => Nat.zero_le _)
        (fun i _ hi => hagree i (by omega) (Or.inl hi)) hac
    · have hq := hop_start_lt hop
      have hqs := hop_start_size hop
      have hp1 : G p1 := (nameAt_start (nameAtC_forget rest)).1
      have hop' : Hop oct' cur (p + 1 + l.length) p1 := by
        cases hop with
        | here hq' hb' hnp => exact .here hq' (by rw [hagree _ hq' (Or.inr (by omega))]; exact hb') hnp
        | jump hq' hb1 hb2 hp hlt h3 hnp =>
          exact .jump hq' (by rw [hagree _ (by omega) (Or.inr (by omega))]; exact hb1)
            (by rw [hagree _ hq' (Or.inr (by omega))]; exact hb2) hp hlt
            (by rw [hagree _ (by omega) (hG _ hp1)]; exact h3) hnp
      have hqs' := hop_start_size hop'
      refine .label hcs hg h1 h63 (by rw [hagree _ (by omega) (Or.inr hge)]; exact hb) ?_ hop' hch ih
      have : oct'.extract (p + 1) (p + 1 + l.length) = oct.extract (p + 1) (p + 1 + l.length) := by
        apply Array.ext_getElem?
        intro k
        simp only [Array.getElem?_extract]
        by_cases hk : k < min (p + 1 + l.length) oct.size - (p + 1)
        · have hk' : k < min (p + 1 + l.length) oct'.size - (p + 1) := by omega
          rw [if_pos hk, if_pos hk']
          exact hagree _ (by omega) (Or.inr (by omega))
        · have hk' : ¬ k < min (p + 1 + l.length) oct'.size - (p + 1) := by omega
          rw [if_neg hk, if_neg hk']
      rw [this]
      exact hd

end QV.Writer
