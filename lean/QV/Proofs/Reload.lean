/-
  QV.Proofs.Reload — helper lemmas relating `QV.Model.Reload` (load_impl on the catalog tree) to
  `QV.Spec.Reload` (the per-zone rule). The property's theorems are in `QV.Properties.C31`.
-/
import QV.Model.ReloadView
import QV.Proofs.Catalog

namespace QV.Reload
open QV QV.Catalog QV.Spec.Catalog QV.Spec.Reload

set_option linter.unusedVariables false

/-! ### the entry a configured zone gets -/

/-- the entry `load_impl` inserts for `zc` -/
def entryFor (fs : FS) (loadedZone : Option CEntry) (zc : ZoneConfig) : CEntry :=
  match checkMtime fs zc loadedZone with
  | .skip entry => entry
  | .load mtime =>
    match fs.load zc with
    | .ok d => ⟨zc.name, zc.cls, .Loaded, d, ⟨zc.path, mtime⟩⟩
    | .fail => makeErrorCatalogEntry zc loadedZone

theorem loadOne_eq (fs : FS) (loaded : Option Catalog) (catalog : Catalog) (zc : ZoneConfig) :
    loadOne fs loaded catalog zc =
      (insert catalog (entryFor fs (loaded.bind (fun c => get c zc.name zc.cls)) zc)).1 := by
  simp only [loadOne, entryFor]
  cases checkMtime fs zc (loaded.bind (fun c => get c zc.name zc.cls)) with
  | skip e => rfl
  | load m => cases fs.load zc <;> rfl

/-- the entry is filed under the configuration's key, provided the previous entry was -/
theorem keyOf_entryFor (fs : FS) (lz : Option CEntry) (zc : ZoneConfig)
    (h : ∀ e, lz = some e → keyOf e = cfgKey zc) : keyOf (entryFor fs lz zc) = cfgKey zc := by
  rcases hs : fs.stat zc.path with t | _ | _ <;> rcases hl : fs.load zc with d | _ <;>
    cases lz with
  | none => simp [entryFor, checkMtime, hs, hl, makeErrorCatalogEntry, keyOf, cfgKey]
  | some e =>
    have he := h e rfl
    first
    | (simp [entryFor, checkMtime, hs, hl, makeErrorCatalogEntry, keyOf, cfgKey]; done)
    | (simp only [entryFor, checkMtime, hs, hl, makeErrorCatalogEntry]; exact he)
    | (by_cases hk : e.kind = .Loaded
       · cases hm : e.md.mtime with
         | none =>
           simp [entryFor, checkMtime, hs, hl, makeErrorCatalogEntry, keyOf, cfgKey, hk, hm]
           try (simpa [keyOf, cfgKey] using he)
         | some lm =>
           by_cases hc : e.md.path = zc.path ∧ t ≤ lm
           · simp only [entryFor, checkMtime, hs, hl, hk, hm, hc, if_true, beq_self_eq_true,
               decide_true, Bool.and_self, hc.1, decide_eq_true hc.2]
             exact he
           · have hc' : (e.md.path == zc.path && decide (t ≤ lm)) = false := by
               simpa using hc
             simp only [entryFor, checkMtime, hs, hl, hk, hm, if_true, hc', Bool.false_eq_true,
               if_false, makeErrorCatalogEntry]
             first | rfl | exact he
       · simp only [entryFor, checkMtime, hs, hl, hk, if_false, makeErrorCatalogEntry]
         first | rfl | exact he)

/-- **the per-zone rule, on entries**: what the inserted entry means is what the specification
    prescribes from the zone's own previous state and its own file -/
theorem stateOf_entryFor (fs : FS) (lz : Option CEntry) (zc : ZoneConfig) :
    stateOf (entryFor fs lz zc) = specZone (lz.map stateOf) (viewOfCfg fs zc) := by
  rcases hs : fs.stat zc.path with t | _ | _ <;> rcases hl : fs.load zc with d | _ <;>
    cases lz with
  | none =>
    simp [entryFor, checkMtime, specZone, viewOfCfg, unchanged, hs, hl, statOf, loadOf,
      makeErrorCatalogEntry, stateOf, keep, Stat.time]
  | some e =>
    by_cases hk : e.kind = .Loaded
    · cases hm : e.md.mtime with
      | none =>
        simp [entryFor, checkMtime, specZone, viewOfCfg, unchanged, hs, hl, statOf, loadOf,
          makeErrorCatalogEntry, stateOf, keep, Stat.time, hk, hm]
      | some lm =>
        first
        | (simp [entryFor, checkMtime, specZone, viewOfCfg, unchanged, hs, hl, statOf, loadOf,
            makeErrorCatalogEntry, stateOf, keep, Stat.time, hk, hm]; done)
        | (by_cases hc : e.md.path = zc.path ∧ t ≤ lm
           · simp [entryFor, checkMtime, specZone, viewOfCfg, unchanged, hs, hl, statOf, loadOf,
               makeErrorCatalogEntry, stateOf, keep, Stat.time, hk, hm, hc]
           · simp [entryFor, checkMtime, specZone, viewOfCfg, unchanged, hs, hl, statOf, loadOf,
               makeErrorCatalogEntry, stateOf, keep, Stat.time, hk, hm, hc])
    · simp [entryFor, checkMtime, specZone, viewOfCfg, unchanged, hs, hl, statOf, loadOf,
        makeErrorCatalogEntry, stateOf, keep, Stat.time, hk]

/-! ### the loop of `load_impl` -/

theorem foldl_insert_inv (g : ZoneConfig → CEntry) (zones : List ZoneConfig) (c0 : Catalog)
    (h : c0.Inv) : (zones.foldl (fun c zc => (insert c (g zc)).1) c0).Inv := by
  induction zones generalizing c0 with
  | nil => exact h
  | cons zc r ih => exact ih _ (inv_insert c0 (g zc) h)

theorem foldl_insert_find (g : ZoneConfig → CEntry) (hg : ∀ zc, keyOf (g zc) = cfgKey zc)
    (zones : List ZoneConfig) (c0 : Catalog) (k : Key) :
    absFind (zones.foldl (fun c zc => (insert c (g zc)).1) c0) k =
      match lastCfg k zones with
      | some zc => some (g zc)
      | none => absFind c0 k := by
  induction zones generalizing c0 with
  | nil => rfl
  | cons zc r ih =>
    simp only [List.foldl_cons, ih, lastCfg]
    cases lastCfg k r with
    | some x => rfl
    | none =>
      simp only [absFind_insert, hg]
      by_cases hk : cfgKey zc = k
      · simp [hk]
      · have : ¬ k = cfgKey zc := fun e => hk e.symm
        simp [hk, this]

/-- the previous entry of a zone, as `load_impl` fetches it (exact `get`) -/
def prevEntry (loaded : Option Catalog) (k : Key) : Option CEntry :=
  loaded.bind (fun c => absFind c k)

theorem get_eq_prevEntry (loaded : Option Catalog) (hl : ∀ c, loaded = some c → c.Inv)
    (zc : ZoneConfig) :
    loaded.bind (fun c => get c zc.name zc.cls) = prevEntry loaded (cfgKey zc) := by
  cases loaded with
  | none => rfl
  | some c => simp only [Option.bind_some, prevEntry]; exact get_eq_absFind c (hl c rfl).2 _ _

theorem loadImpl_eq (fs : FS) (zones : List ZoneConfig) (loaded : Option Catalog)
    (hl : ∀ c, loaded = some c → c.Inv) :
    loadImpl fs zones loaded =
      zones.foldl (fun c zc => (insert c (entryFor fs (prevEntry loaded (cfgKey zc)) zc)).1)
        Cat.empty := by
  unfold loadImpl
  congr 1
  funext c zc
  rw [loadOne_eq, get_eq_prevEntry loaded hl]

theorem keyOf_entryFor_prev (fs : FS) (loaded : Option Catalog)
    (hl : ∀ c, loaded = some c → c.Inv) (zc : ZoneConfig) :
    keyOf (entryFor fs (prevEntry loaded (cfgKey zc)) zc) = cfgKey zc := by
  apply keyOf_entryFor
  intro e he
  cases loaded with
  | none => simp [prevEntry] at he
  | some c => exact (hl c rfl).2 _ _ (by simpa [prevEntry] using he)

theorem loadImpl_inv (fs : FS) (zones : List ZoneConfig) (loaded : Option Catalog)
    (hl : ∀ c, loaded = some c → c.Inv) : (loadImpl fs zones loaded).Inv := by
  rw [loadImpl_eq fs zones loaded hl]
  exact foldl_insert_inv _ zones _ inv_empty

/-- **one reload, key by key** -/
theorem loadImpl_find (fs : FS) (zones : List ZoneConfig) (loaded : Option Catalog)
    (hl : ∀ c, loaded = some c → c.Inv) (k : Key) :
    (absFind (loadImpl fs zones loaded) k).map stateOf =
      match lastCfg k zones with
      | some zc => some (specZone ((prevEntry loaded k).map stateOf) (viewOfCfg fs zc))
      | none => none := by
  rw [loadImpl_eq fs zones loaded hl,
    foldl_insert_find _ (keyOf_entryFor_prev fs loaded hl) zones Cat.empty k]
  have hkey : ∀ zc, lastCfg k zones = some zc → cfgKey zc = k := by
    intro zc
    induction zones with
    | nil => simp [lastCfg]
    | cons z r ih =>
      simp only [lastCfg]
      cases hr : lastCfg k r with
      | some x => intro h; cases h; exact ih hr
      | none =>
        by_cases hz : cfgKey z = k
        · simp only [hz, if_true]; intro h; cases h; exact hz
        · simp [hz]
  cases hlc : lastCfg k zones with
  | none => simp [absFind, Cat.empty, aget]
  | some zc =>
    have := hkey zc hlc
    simp only [Option.map_some, stateOf_entryFor, this]

/-! ### the daemon's history -/

/-- what the served catalog means for key `k` -/
def servedAt (st : Option Catalog) (k : Key) : Option SZone :=
  (prevEntry st k).map stateOf

theorem daemonStep_inv (st : Option Catalog) (step : Step) (h : ∀ c, st = some c → c.Inv) :
    ∀ c, daemonStep st step = some c → c.Inv := by
  intro c hc
  cases step with
  | configError => exact h c hc
  | reload zones fs =>
    cases st with
    | none =>
      simp only [daemonStep, load, Option.some.injEq] at hc
      subst hc; exact loadImpl_inv fs zones none (by simp)
    | some c0 =>
      simp only [daemonStep, reload, Option.some.injEq] at hc
      subst hc; exact loadImpl_inv fs zones (some c0) h

theorem daemonStep_served (st : Option Catalog) (step : Step) (h : ∀ c, st = some c → c.Inv)
    (k : Key) :
    servedAt (daemonStep st step) k = Spec.Reload.specStep (servedAt st k) (viewOf k step) := by
  cases step with
  | configError => rfl
  | reload zones fs =>
    have key : ∀ loaded : Option Catalog, (∀ c, loaded = some c → c.Inv) →
        servedAt (some (loadImpl fs zones loaded)) k =
          Spec.Reload.specStep (servedAt loaded k) (viewOf k (.reload zones fs)) := by
      intro loaded hl
      simp only [servedAt, prevEntry, Option.bind_some, loadImpl_find fs zones loaded hl k, viewOf]
      cases lastCfg k zones <;> rfl
    cases st with
    | none => exact key none (by simp)
    | some c0 => exact key (some c0) h

theorem daemonRun_foldl (steps : List Step) (st : Option Catalog) (f : Key → Option SZone)
    (h : ∀ c, st = some c → c.Inv) (hf : ∀ k, servedAt st k = f k) :
    (∀ c, steps.foldl daemonStep st = some c → c.Inv) ∧
      ∀ k, servedAt (steps.foldl daemonStep st) k =
        (steps.map (viewOf k)).foldl Spec.Reload.specStep (f k) := by
  induction steps generalizing st f with
  | nil => exact ⟨h, hf⟩
  | cons s r ih =>
    simp only [List.foldl_cons, List.map_cons]
    exact ih (daemonStep st s) (fun k => Spec.Reload.specStep (f k) (viewOf k s)) (daemonStep_inv st s h)
      (fun k => by rw [daemonStep_served st s h k, hf k])

/-! ### the signal loop with explicit plumbing -/

theorem loopStep_good (alt : Catalog) (s : Option Catalog) (step : Step) :
    loopStep .good alt ⟨s, s⟩ step = ⟨daemonStep s step, daemonStep s step⟩ := by
  cases step with
  | configError => rfl
  | reload zones fs => cases s <;> rfl

/-- a loop that installs and threads every catalog it builds is the idealised daemon -/
theorem loopRun_good (alt : Catalog) (steps : List Step) :
    loopRun .good alt steps = ⟨daemonRun steps, daemonRun steps⟩ := by
  unfold loopRun daemonRun
  generalize (none : Option Catalog) = s
  induction steps generalizing s with
  | nil => rfl
  | cons st r ih => simp only [List.foldl_cons, loopStep_good, ih]

/-- longest-suffix search commutes with reading entries as zone states -/
theorem lsuf_map {α β : Type} (g : α → β) (f : Key → Option α) (cls : Nat) (n : SName) :
    (lsuf f cls n).map g = lsuf (fun k => (f k).map g) cls n := by
  induction n with
  | nil => rfl
  | cons l r ih =>
    simp only [lsuf, ← ih]
    cases f (cls, l :: r) <;> simp

end QV.Reload
