/-
  QV.Proofs.WriterDecodeCongr — the independent message decoder reads the questions and records
  of a layout chain from the octets below the cursor only: on two writer states where everything
  written so far is still there (`Pres`), it decodes the chain identically.

  `name_det`: a name item; `expandRdata_det`: the RDATA of a record of a 16-bit type;
  `decodeRrs_det`: the records of a chain.
-/
import QV.Proofs.WriterExtents

namespace QV.Writer
open QV QV.Wire QV.Spec QV.ServerSafety

variable {sA sB : State}

theorem msg_agree (hA : WInv sA) (hB : WInv sB) (h : Pres sA sB) (i : Nat) (h12 : 12 ≤ i) (hi : i < sA.cursor) :
    (sB.octets.extract 0 sB.cursor)[i]? = (sA.octets.extract 0 sA.cursor)[i]? := by
  have hcA : sA.cursor ≤ sA.octets.size := Nat.le_trans hA.cur_av hA.av_size
  have hcB : sB.cursor ≤ sB.octets.size := Nat.le_trans hB.cur_av hB.av_size
  rw [extract_prefix_get _ _ hcB i (by have := h.cur; omega), extract_prefix_get _ _ hcA i hi]
  exact h.pre i h12 hi

/-- **a name item is decoded identically** -/
theorem name_det (hA : WInv sA) (hB : WInv sB) (h : Pres sA sB) {a k : Nat} (hit : Item sA a k) :
    specDecodeName (sB.octets.extract 0 sB.cursor) a = specDecodeName (sA.octets.extract 0 sA.cursor) a := by
  have hcA : sA.cursor ≤ sA.octets.size := Nat.le_trans hA.cur_av hA.av_size
  have hcB : sB.cursor ≤ sB.octets.size := Nat.le_trans hB.cur_av hB.av_size
  obtain ⟨⟨q, hop, hq⟩, hck, hk⟩ := hit
  obtain ⟨ls, hn, hb⟩ := hA.clabs q hq
  have hq12 := hA.g12 q hq
  have hqa := (hop_le hop).1
  have hch : (q = a ∧ q = a) ∨ (q < a ∧ q = q) := by
    cases hop with
    | here _ _ _ => exact Or.inl ⟨rfl, rfl⟩
    | jump _ _ _ _ hlt _ _ => exact Or.inr ⟨hlt, rfl⟩
  have hrA : ReadsAt sA a ls := ⟨q, q, hop, hch, hn, hb⟩
  have hrB : ReadsAt sB a ls := by
    refine ⟨q, q, hop_frame (lo := 12) hop (fun i h1 h2 => h.pre i h1 h2) h.cur hq12, hch, ?_, hb⟩
    exact nameAtC_frame (lo := 12) hn (fun x hx => h.gl x hx) (fun x hx => hA.g12 x hx)
      (fun i h1 h2 => h.pre i h1 h2) h.cur
  obtain ⟨kA, hdA⟩ := readsAt_specDecodeName hrA hcA
  obtain ⟨kB, hdB⟩ := readsAt_specDecodeName hrB hcB
  have hckA : ChunkAt (sA.octets.extract 0 sA.cursor) a k :=
    chunkAt_frame hck (fun i _ h2 => extract_prefix_get _ _ hcA _ (by omega))
  have hckB : ChunkAt (sB.octets.extract 0 sB.cursor) a k :=
    chunkAt_frame hck (fun i h1 h2 => by
      rw [extract_prefix_get _ _ hcB _ (by have := h.cur; omega)]
      exact h.pre i (by omega) (by omega))
  have e1 := specDecodeName_chunk hckA hdA
  have e2 := specDecodeName_chunk hckB hdB
  rw [hdA, hdB, e1, e2]

theorem rdName_det (hA : WInv sA) (hB : WInv sB) (h : Pres sA sB) {a k e : Nat} (hit : Item sA a k) :
    rdName (sB.octets.extract 0 sB.cursor) a e = rdName (sA.octets.extract 0 sA.cursor) a e := by
  unfold rdName
  rw [name_det hA hB h hit]

theorem extract_range_eq {x y : Bytes} {i j : Nat} (h : ∀ k, i ≤ k → k < j → y[k]? = x[k]?)
    (hx : j ≤ x.size) (hy : j ≤ y.size) : y.extract i j = x.extract i j := by
  apply Array.ext_getElem?
  intro k
  simp only [Array.getElem?_extract]
  by_cases hk : k < min j x.size - i
  · have hk' : k < min j y.size - i := by omega
    rw [if_pos hk, if_pos hk']
    exact h _ (by omega) (by omega)
  · have hk' : ¬ k < min j y.size - i := by omega
    rw [if_neg hk, if_neg hk']

theorem extract_det (hA : WInv sA) (hB : WInv sB) (h : Pres sA sB) (i j : Nat) (h12 : 12 ≤ i) (hj : j ≤ sA.cursor) :
    ((sB.octets.extract 0 sB.cursor).extract i j).toList = ((sA.octets.extract 0 sA.cursor).extract i j).toList := by
  have hcA : sA.cursor ≤ sA.octets.size := Nat.le_trans hA.cur_av hA.av_size
  have hcB : sB.cursor ≤ sB.octets.size := Nat.le_trans hB.cur_av hB.av_size
  have := h.cur
  rw [extract_range_eq (x := sA.octets.extract 0 sA.cursor) (y := sB.octets.extract 0 sB.cursor)
    (fun k h1 h2 => msg_agree hA hB h k (by omega) (by omega))
    (by rw [extract_size _ _ hcA]; exact hj) (by rw [extract_size _ _ hcB]; omega)]

/-- the name the decoder reads at an item occupies the item's `k` octets -/
theorem rdName_k (hA : WInv sA) {a k e k' : Nat} {w : List UInt8} (hit : Item sA a k)
    (hr : rdName (sA.octets.extract 0 sA.cursor) a e = some (w, k')) : k' = k := by
  have hcA : sA.cursor ≤ sA.octets.size := Nat.le_trans hA.cur_av hA.av_size
  unfold rdName at hr
  cases hd : specDecodeName (sA.octets.extract 0 sA.cursor) a with
  | none => rw [hd] at hr; cases hr
  | some r =>
    obtain ⟨w', n, k2⟩ := r
    rw [hd] at hr
    simp only at hr
    split at hr
    · simp only [Option.some.injEq, Prod.mk.injEq] at hr
      have hck : ChunkAt (sA.octets.extract 0 sA.cursor) a k :=
        chunkAt_frame hit.2.1 (fun i _ h2 => extract_prefix_get _ _ hcA _ (by have := hit.2.2; omega))
      have := specDecodeName_chunk hck hd
      omega
    · cases hr

/-- **the RDATA of a record (16-bit type) is expanded identically** -/
theorem expandRdata_det (hA : WInv sA) (hB : WInv sB) (h : Pres sA sB) (m : CMode) (cls ty : Nat)
    (ts : List CompType) (rd : List UInt8) (p len : Nat) (ps : List Nat) (h12 : 12 ≤ p)
    (hct : componentTypes cls ty = some ts) (hrd : RdAt sA m ts rd p (p + len) ps) (hstop : p + len ≤ sA.cursor) :
    expandRdata (sB.octets.extract 0 sB.cursor) ty p len = expandRdata (sA.octets.extract 0 sA.cursor) ty p len := by
  rw [componentTypes_layout] at hct
  simp only [Option.some.injEq] at hct
  subst hct
  have hex : ∀ i, 12 ≤ i → ((sB.octets.extract 0 sB.cursor).extract i (p + len)).toList =
      ((sA.octets.extract 0 sA.cursor).extract i (p + len)).toList := fun i hi => extract_det hA hB h i _ hi hstop
  unfold expandRdata Message.layoutOf at *
  by_cases h1 : ty = 2 ∨ ty = 3 ∨ ty = 4 ∨ ty = 5 ∨ ty = 7 ∨ ty = 8 ∨ ty = 9 ∨ ty = 12
  · simp only [h1, if_true, List.map_cons, List.map_nil, layToComp, RdAt] at hrd ⊢
    obtain ⟨n, rest, k, _, hit, _, _, _, _⟩ := hrd
    rw [rdName_det hA hB h hit]
  · simp only [h1, if_false] at hrd ⊢
    by_cases h6 : ty = 6
    · subst h6
      simp only [true_or, if_true, List.map_cons, List.map_nil, layToComp, RdAt] at hrd ⊢
      obtain ⟨a, r1, k1, _, hit1, _, _, _, b, r2, k2, _, hit2, _, _, _, _⟩ := hrd
      rw [rdName_det hA hB h hit1]
      cases hr1 : rdName (sA.octets.extract 0 sA.cursor) p (p + len) with
      | none => rfl
      | some x =>
        obtain ⟨wa, k1'⟩ := x
        have := rdName_k hA hit1 hr1
        subst this
        simp only []
        rw [rdName_det hA hB h hit2]
        cases hr2 : rdName (sA.octets.extract 0 sA.cursor) (p + k1') (p + len) with
        | none => rfl
        | some y =>
          obtain ⟨wb, k2'⟩ := y
          simp only []
          rw [hex _ (by omega)]
    · by_cases h14 : ty = 14
      · subst h14
        simp only [Nat.reduceEqDiff, or_true, if_true, if_false, List.map_cons, List.map_nil, layToComp, RdAt] at hrd ⊢
        obtain ⟨a, r1, k1, _, hit1, _, _, _, b, r2, k2, _, hit2, _, _, _, _⟩ := hrd
        rw [rdName_det hA hB h hit1]
        cases hr1 : rdName (sA.octets.extract 0 sA.cursor) p (p + len) with
        | none => rfl
        | some x =>
          obtain ⟨wa, k1'⟩ := x
          have := rdName_k hA hit1 hr1
          subst this
          simp only []
          rw [rdName_det hA hB h hit2]
      · by_cases h15 : ty = 15
        · subst h15
          simp only [Nat.reduceEqDiff, or_self, if_true, if_false, List.map_cons, List.map_nil, layToComp, RdAt] at hrd ⊢
          obtain ⟨_, _, a, r1, k1, _, hit1, _, _, _, _⟩ := hrd
          rw [rdName_det hA hB h hit1, extract_det hA hB h p (p + 2) h12 (by
            have := hit1.2.2; omega)]
        · simp only [h6, h14, h15, if_false]
          rw [hex p h12]

theorem field16_det (hA : WInv sA) (hB : WInv sB) (h : Pres sA sB) (i : Nat) (h12 : 12 ≤ i) (hi : i + 1 < sA.cursor) :
    specField16 (sB.octets.extract 0 sB.cursor) i = specField16 (sA.octets.extract 0 sA.cursor) i := by
  unfold specField16
  rw [msg_agree hA hB h i h12 (by omega), msg_agree hA hB h (i + 1) (by omega) hi]

/-- **the records of a chain are decoded identically** (16-bit types) -/
theorem decodeRrs_det (hA : WInv sA) (hB : WInv sB) (h : Pres sA sB) :
    ∀ (rs : List RItC) (p e : Nat), RChainC sA rs p e → e ≤ sA.cursor → 12 ≤ p →
      (∀ it ∈ rs, it.r.ty < 65536) → ∀ n, n ≤ rs.length →
      decodeRrs (sB.octets.extract 0 sB.cursor) n p = decodeRrs (sA.octets.extract 0 sA.cursor) n p := by
  have hcA : sA.cursor ≤ sA.octets.size := Nat.le_trans hA.cur_av hA.av_size
  have hcB : sB.cursor ≤ sB.octets.size := Nat.le_trans hB.cur_av hB.av_size
  have hszA := extract_size sA.octets sA.cursor hcA
  have hszB := extract_size sB.octets sB.cursor hcB
  intro rs
  induction rs with
  | nil =>
    intro p e _ _ _ _ n hn
    have : n = 0 := by simpa using hn
    subst this
    rfl
  | cons x r ih =>
    intro p e hch he h12 hty n hn
    cases n with
    | zero => rfl
    | succ n =>
      obtain ⟨h1, ⟨hit, hnm, hby, hb, ts, hct, hrd⟩, h4⟩ := hch
      subst h1
      have hle := rchainC_le h4
      have hcur := h.cur
      have hl2 : ∀ y, (u16be y).length = 2 := fun _ => rfl
      obtain ⟨b12, b3⟩ := bytesAt_append hby
      obtain ⟨b1, b2⟩ := bytesAt_append b12
      have et : be16 (sA.octets.extract 0 sA.cursor) (x.a + x.k) = x.r.ty % 65536 :=
        be16_of_bytesAt_mod (bytesAt_extract_prefix hcA b1 (by rw [hl2]; omega))
      have e8 : be16 (sA.octets.extract 0 sA.cursor) (x.a + x.k + 8) = x.rdlen := by
        rw [be16_extract _ _ _ hcA (by omega)]; exact hb
      have hxt := hty x List.mem_cons_self
      simp only [decodeRrs]
      rw [name_det hA hB h hit]
      obtain ⟨w, nn, hd⟩ := item_decodes hA hit
      rw [hd]
      simp only []
      rw [field16_det hA hB h _ (by omega) (by omega), field16_det hA hB h _ (by omega) (by omega),
        field16_det hA hB h _ (by omega) (by omega)]
      have h32 : specField32 (sB.octets.extract 0 sB.cursor) (x.a + x.k + 4) =
          specField32 (sA.octets.extract 0 sA.cursor) (x.a + x.k + 4) := by
        unfold specField32
        rw [field16_det hA hB h _ (by omega) (by omega), field16_det hA hB h _ (by omega) (by omega)]
      rw [h32]
      rw [specField16_some (m := sA.octets.extract 0 sA.cursor) (by rw [hszA]; omega),
        specField16_some (m := sA.octets.extract 0 sA.cursor) (i := x.a + x.k + 2) (by rw [hszA]; omega),
        specField16_some (m := sA.octets.extract 0 sA.cursor) (i := x.a + x.k + 8) (by rw [hszA]; omega)]
      cases h32v : specField32 (sA.octets.extract 0 sA.cursor) (x.a + x.k + 4) with
      | none => rfl
      | some raw =>
        simp only [e8, et, Nat.mod_eq_of_lt hxt]
        rw [if_pos (by rw [hszB]; omega), if_pos (by rw [hszA]; omega)]
        rw [expandRdata_det hA hB h x.m x.r.cls x.r.ty ts x.r.rdata _ _ x.ps (by omega) hct hrd (by omega),
          extract_det hA hB h _ _ (by omega) (by omega),
          ih _ _ h4 he (by omega) (fun it hx => hty it (List.mem_cons_of_mem _ hx)) n (by simpa using hn)]

/-! ### `finish` keeps what was written -/

theorem finishWithMac_pres (macFn : Tsig → List UInt8 → List UInt8) (s : State) (hI : I s) (len : Nat)
    (mac : Option (List UInt8)) (sF : State) (hw : finishWithMac macFn s = (.ok (len, mac), sF)) : Pres s sF := by
  unfold finishWithMac at hw
  simp only [M.bind_apply, M.gets_apply] at hw
  obtain ⟨o, hceq, hIA, hosz⟩ := finishCounts_spec s.qdcount s.ancount s.nscount s.arcount s hI
  obtain ⟨kpre, _⟩ := finishCounts_bytes _ _ _ _ s _ hceq
  rw [hceq] at hw
  simp only [] at hw
  have hpA : Pres s { s with octets := o } :=
    ⟨fun i hi _ => kpre i (Or.inr hi), Nat.le_refl _, fun _ hg => hg⟩
  generalize ({ s with octets := o } : State) = sA at hw hpA
  cases ho : finishOpt s.edns sA with
  | mk r2 s1 =>
    rw [ho] at hw
    cases r2 with
    | err e => cases hw
    | panic => cases hw
    | ok u2 =>
      simp only [] at hw
      have hT := finishTsig_inv hw
      have hO := finishOpt_inv ho
      have hp1 : Pres sA s1 := by
        rcases hO with ⟨_, e⟩ | ⟨e, _, hadd⟩
        · rw [e]; exact Pres.refl _
        · have := frame_addRr .none WName.root T_OPT e.payload ((e.upper * 16777216) % 4294967296) []
            { sA with available := sA.available + Gen.OPT_RECORD_SIZE }
          rw [hadd] at this
          exact Pres.trans (pres_fields (s := sA) (s' := { sA with available := sA.available + Gen.OPT_RECORD_SIZE })
            rfl rfl rfl) (pres_of_ext this)
      have hp2 : Pres s1 sF := by
        rcases hT with ⟨_, e, _⟩ | ⟨ts, rdata, _, _, hadd, _⟩
        · rw [e]; exact Pres.refl _
        · have := frame_addRr .none ts.rr.keyName T_TSIG QC_ANY (ttlFrom 0) rdata
            { s1 with tsig := none, available := s1.available + ts.reservedLen }
          rw [hadd] at this
          exact Pres.trans (pres_fields (s := s1)
            (s' := { s1 with tsig := none, available := s1.available + ts.reservedLen }) rfl rfl rfl) (pres_of_ext this)
      exact Pres.trans hpA (Pres.trans hp1 hp2)

end QV.Writer
