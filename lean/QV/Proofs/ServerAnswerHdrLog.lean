/-
  QV.Proofs.ServerAnswerHdrLog — which header operations the answering logic (`answer` / `answer_any`)
  logs, for every zone, query and writer behaviour: `set_aa`, and `set_rcode(NXDOMAIN)`; never
  `set_tc`, never `clear_rrs`, no other RCODE.  (The same pass as Proofs/ServerAnswerTypes.lean with
  another predicate.)  With the epilogue of `handle_non_axfr_query` (`handle_log_np`) this gives the
  header of every response of the answering phase: RCODE 0, 2 or 3; TC only over UDP and only
  together with empty sections.
-/
import QV.Proofs.ServerAnswerTypes
import QV.Proofs.ServerAnswerCap

namespace QV.ServerAnswer
open QV QV.Writer QV.Server QV.Zone

/-- what the answering logic logs: no `set_tc`, no `clear_rrs`, and `set_rcode` only with NXDOMAIN -/
def InnerEv (e : Ev) : Prop := (∀ b, e ≠ .tc b) ∧ e ≠ .clear ∧ ∀ r, e = .rcode r → r = 3

theorem innerEv_add (a : AddEv) : InnerEv (.add a) := ⟨by simp, by simp, by simp⟩

theorem LogsH.setAa (b : Bool) : Logs (PM.setAa b) InnerEv (fun _ => True) :=
  Logs.hdrOp _ _ _ ⟨by simp, by simp, by simp⟩ ⟨by simp, by simp, by simp⟩

theorem LogsH.setRcode (v : Nat) (hv : v = 3 := by decide) : Logs (PM.setRcode v) InnerEv (fun _ => True) :=
  Logs.hdrOp _ _ _ ⟨by simp, by simp, fun r h => by cases h; exact hv⟩ ⟨by simp, by simp, by simp⟩

theorem LogsH.addRrs (opt : Bool) (sec : RrSection) (hint : Hint) (owner : WName) (ty cls ttl : Nat)
    (rds : List (List UInt8)) (_h : sec = .additional → ty = Gen.T_A ∨ ty = Gen.T_AAAA) :
    Logs (PM.addRrs opt sec hint owner ty cls ttl rds) InnerEv (fun _ => True) :=
  Logs.addRrs opt sec hint owner ty cls ttl rds InnerEv (fun r => innerEv_add _)

theorem LogsH.addRr1 (sec : RrSection) (hint : Hint) (owner : WName) (ty cls ttl : Nat) (rd : List UInt8)
    (_h : sec ≠ .additional) : Logs (PM.addRr1 sec hint owner ty cls ttl rd) InnerEv (fun _ => True) := by
  unfold PM.addRr1
  exact Logs.bind (Logs.addCall _ _ InnerEv (fun r => innerEv_add _))
    (fun _ _ => Logs.weaken (Logs.pure () _) (fun _ h => h) (fun _ _ => True.intro))

theorem logsH_pure {α} (a : α) : Logs (Pure.pure a : PM α) InnerEv (fun _ => True) :=
  Logs.weaken (Logs.pure a _) (fun _ h => h) (fun _ _ => True.intro)

theorem LogsH.readName (rd : List UInt8) (start : Nat) : Logs (readNameFromRdata rd start) InnerEv (fun _ => True) :=
  Logs.readName rd start InnerEv

theorem LogsH.aaaaPart (z : Zone.Zone) (hint : Hint) (owner : WName) (opt : Bool) (aaaa : Option Rrset) :
    Logs (Server.addAaaa z hint owner opt aaaa) InnerEv (fun _ => True) := by
  unfold Server.addAaaa
  split
  · cases aaaa with
    | none => exact logsH_pure ()
    | some r =>
      exact Logs.bind (LogsH.addRrs opt .additional hint owner _ _ _ _ (fun _ => Or.inr rfl)) (fun _ _ => logsH_pure ())
  · exact logsH_pure ()

theorem LogsH.addrs (z : Zone.Zone) (hint : Hint) (owner : WName) (sbc opt : Bool) :
    Logs (addAdditionalAddresses z hint owner sbc opt) InnerEv (fun _ => True) := by
  unfold addAdditionalAddresses
  split
  · next a aaaa sos _ =>
    cases a with
    | none => exact LogsH.aaaaPart z hint owner opt aaaa
    | some r =>
      refine Logs.bind (LogsH.addRrs opt .additional hint owner _ _ _ _ (fun _ => Or.inl rfl)) (fun o _ => ?_)
      cases o with
      | none => exact logsH_pure ()
      | some x => exact LogsH.aaaaPart z _ owner opt aaaa
  · exact logsH_pure ()
  · exact logsH_pure ()
  · exact Logs.panic _ _

theorem LogsH.additionalLoop (z : Zone.Zone) (start : Nat) (hv : Option HV) (rds : List (List UInt8)) (idx : Nat) :
    Logs (Server.additionalLoop z start hv rds idx) InnerEv (fun _ => True) := by
  induction rds generalizing idx with
  | nil => unfold Server.additionalLoop; exact logsH_pure ()
  | cons rd rest ih =>
    unfold Server.additionalLoop
    exact Logs.bind (LogsH.readName rd start) (fun n _ =>
      Logs.bind (LogsH.addrs z _ n false true) (fun _ _ => ih (idx + 1)))

theorem LogsH.additionalProcessing (z : Zone.Zone) (t : Nat) (s : Rrset) (hv : Option HV) :
    Logs (doAdditionalSectionProcessing z t s hv) InnerEv (fun _ => True) := by
  unfold doAdditionalSectionProcessing
  split
  · exact logsH_pure ()
  · split
    · exact LogsH.additionalLoop z 0 hv s.rdatas 0
    · split
      · exact LogsH.additionalLoop z 2 hv s.rdatas 0
      · split
        · exact LogsH.additionalLoop z 6 hv s.rdatas 0
        · exact logsH_pure ()

theorem LogsH.readSoaMinimum (rd : List UInt8) : Logs (Server.readSoaMinimum rd) InnerEv (fun _ => True) := by
  unfold Server.readSoaMinimum
  have hf : ∀ {α}, Logs (PM.fail .servFail : PM α) InnerEv (fun _ => True) := fun {α} => Logs.fail _ _ _
  split
  · split
    · split
      · exact hf
      · dsimp only
        split
        · exact logsH_pure _
        · exact hf
    · exact hf
  · exact hf

theorem LogsH.negativeSoa (z : Zone.Zone) : Logs (addNegativeCachingSoa z) InnerEv (fun _ => True) := by
  unfold addNegativeCachingSoa
  split
  · exact Logs.fail _ _ _
  · split
    · exact Logs.fail _ _ _
    · exact Logs.bind (LogsH.readSoaMinimum _) (fun m _ => LogsH.addRr1 .authority _ _ _ _ _ _ (by simp))

theorem LogsH.classifyNs (child : WName) (rds : List (List UInt8)) (idx : Nat) :
    Logs (Server.classifyNs child rds idx) InnerEv (fun _ => True) :=
  Logs.weaken (Logs.classifyNs child rds idx InnerEv) (fun _ h => h) (fun _ _ => True.intro)

theorem LogsH.glueLoop (z : Zone.Zone) (hv : HV) (opt : Bool) (l : List (Nat × WName)) :
    Logs (Server.glueLoop z hv opt l) InnerEv (fun _ => True) := by
  induction l with
  | nil => unfold Server.glueLoop; exact logsH_pure ()
  | cons p rest ih =>
    unfold Server.glueLoop
    exact Logs.bind (LogsH.addrs z _ p.2 true opt) (fun _ _ => ih)

theorem LogsH.referral (z : Zone.Zone) (child : NameL.Name) (ns : Rrset) :
    Logs (doReferral z child ns) InnerEv (fun _ => True) := by
  unfold doReferral
  refine Logs.bind (LogsH.addRrs false .authority .none _ _ _ _ _ (by simp)) (fun hv _ =>
    Logs.bind (LogsH.classifyNs _ ns.rdatas 0) (fun p _ => ?_))
  obtain ⟨g, a⟩ := p
  simp only []
  exact Logs.bind (LogsH.glueLoop z _ false g) (fun _ _ => LogsH.glueLoop z _ true a)

theorem LogsH.followCname (z : Zone.Zone) (qname : WName) (qtype : Nat) :
    ∀ (fuel : Nat) (cn : Rrset) (os : List WName),
      Logs (Server.followCname z qname qtype fuel cn os) InnerEv (fun _ => True) := by
  intro fuel
  induction fuel with
  | zero => intro cn os; unfold Server.followCname; exact Logs.fail _ _ _
  | succ f ih =>
    intro cn os
    rw [Server.followCname]
    split
    · exact Logs.fail _ _ _
    · split
      · split
        · exact Logs.fail _ _ _
        · refine Logs.bind (LogsH.addRr1 .answer _ _ _ _ _ _ (by simp)) (fun _ _ => ?_)
          split
          · exact Logs.bind (LogsH.addRrs false .answer _ _ _ _ _ _ (by simp))
              (fun hv _ => LogsH.additionalProcessing z qtype _ hv)
          · split
            · exact ih _ _
            · exact Logs.fail _ _ _
          · exact LogsH.referral z _ _
          · exact LogsH.negativeSoa z
          · exact Logs.bind (LogsH.setRcode _) (fun _ _ => LogsH.negativeSoa z)
          · exact logsH_pure ()
          · exact logsH_pure ()
          · exact Logs.panic _ _
      · exact Logs.fail _ _ _

theorem LogsH.answer (z : Zone.Zone) (qname : WName) (qtype : Nat) :
    Logs (Server.answer z qname qtype) InnerEv (fun _ => True) := by
  unfold Server.answer
  split
  · exact Logs.bind (LogsH.setAa true) (fun _ _ => Logs.bind (LogsH.addRrs false .answer _ _ _ _ _ _ (by simp))
      (fun hv _ => LogsH.additionalProcessing z qtype _ hv))
  · unfold Server.doCname
    exact Logs.bind (LogsH.setAa true) (fun _ _ => LogsH.followCname z qname qtype _ _ _)
  · exact LogsH.referral z _ _
  · exact Logs.bind (LogsH.setAa true) (fun _ _ => LogsH.negativeSoa z)
  · exact Logs.bind (LogsH.setRcode _) (fun _ _ => Logs.bind (LogsH.setAa true) (fun _ _ => LogsH.negativeSoa z))
  · exact Logs.panic _ _
  · exact Logs.panic _ _
  · exact Logs.panic _ _

theorem LogsH.answerAnyLoop (z : Zone.Zone) (qname : WName) (rrsets : List Rrset) (n : Nat) :
    Logs (Server.answerAnyLoop z qname rrsets n) InnerEv (fun _ => True) := by
  induction rrsets generalizing n with
  | nil => unfold Server.answerAnyLoop; exact logsH_pure _
  | cons r rest ih =>
    unfold Server.answerAnyLoop
    exact Logs.bind (LogsH.addRrs false .answer _ _ _ _ _ _ (by simp)) (fun _ _ => ih (n + 1))

theorem LogsH.answerAny (z : Zone.Zone) (qname : WName) : Logs (Server.answerAny z qname) InnerEv (fun _ => True) := by
  unfold Server.answerAny
  split
  · refine Logs.bind (LogsH.setAa true) (fun _ _ => Logs.bind (LogsH.answerAnyLoop z qname _ 0) (fun n _ => ?_))
    split
    · exact LogsH.negativeSoa z
    · exact logsH_pure ()
  · exact LogsH.referral z _ _
  · exact Logs.bind (LogsH.setRcode _) (fun _ _ => Logs.bind (LogsH.setAa true) (fun _ _ => LogsH.negativeSoa z))
  · exact Logs.panic _ _
  · exact Logs.panic _ _
  · exact Logs.panic _ _

theorem LogsH.inner (z : Zone.Zone) (qname : WName) (qtype : Nat) :
    Logs (inner z qname qtype) InnerEv (fun _ => True) := by
  unfold ServerAnswer.inner
  split
  · exact LogsH.answerAny z qname
  · exact LogsH.answer z qname qtype


theorem foldl_innerEv : ∀ (l : List Ev) (v : View), (∀ e ∈ l, InnerEv e) →
    (l.foldl View.step v).tc = v.tc ∧ ((l.foldl View.step v).rcode = v.rcode ∨ (l.foldl View.step v).rcode = 3) := by
  intro l
  induction l with
  | nil => intro v _; exact ⟨rfl, Or.inl rfl⟩
  | cons e rest ih =>
    intro v h
    obtain ⟨h1, h2, h3⟩ := h e List.mem_cons_self
    obtain ⟨i1, i2⟩ := ih (v.step e) (fun x hx => h x (List.mem_cons_of_mem _ hx))
    rw [List.foldl_cons]
    have hstep : (v.step e).tc = v.tc ∧ ((v.step e).rcode = v.rcode ∨ (v.step e).rcode = 3) := by
      cases e with
      | add a =>
        simp only [View.step]
        split
        · cases a.sec <;> exact ⟨rfl, Or.inl rfl⟩
        · exact ⟨rfl, Or.inl rfl⟩
      | aa b => exact ⟨rfl, Or.inl rfl⟩
      | rcode r => exact ⟨rfl, Or.inr (h3 r rfl)⟩
      | tc b => exact absurd rfl (h1 b)
      | clear => exact absurd rfl h2
      | bad => exact ⟨rfl, Or.inl rfl⟩
    refine ⟨by rw [i1, hstep.1], ?_⟩
    rcases i2 with i2 | i2
    · rcases hstep.2 with h' | h'
      · exact Or.inl (by rw [i2, h'])
      · exact Or.inr (by rw [i2, h'])
    · exact Or.inr i2

/-- **the header of every response of the answering phase**, on the view of the log: RCODE 0, 2
    (SERVFAIL) or 3 (NXDOMAIN); TC only over UDP, and then all three sections are empty — for every
    zone, query and writer behaviour -/
theorem view_handle_flags (z : Zone.Zone) (qname : WName) (qtype : Nat) (tr : Transport) (w : State)
    (hnp : (handleNonAxfrQueryL z qname qtype tr ⟨w, []⟩).1 ≠ .panic) :
    ((view (handleNonAxfrQueryL z qname qtype tr ⟨w, []⟩).2.log).rcode = 0 ∨
      (view (handleNonAxfrQueryL z qname qtype tr ⟨w, []⟩).2.log).rcode = 2 ∨
      (view (handleNonAxfrQueryL z qname qtype tr ⟨w, []⟩).2.log).rcode = 3) ∧
    ((view (handleNonAxfrQueryL z qname qtype tr ⟨w, []⟩).2.log).tc = true →
      tr = .udp ∧ (view (handleNonAxfrQueryL z qname qtype tr ⟨w, []⟩).2.log).answer = [] ∧
      (view (handleNonAxfrQueryL z qname qtype tr ⟨w, []⟩).2.log).authority = [] ∧
      (view (handleNonAxfrQueryL z qname qtype tr ⟨w, []⟩).2.log).additional = []) := by
  obtain ⟨hlog, _⟩ := handle_log_np z qname qtype tr ⟨w, []⟩ hnp
  obtain ⟨evs, hl, hP, _⟩ := LogsH.inner z qname qtype ⟨w, []⟩
  simp only [List.nil_append] at hl
  rw [hlog, hl]
  unfold view
  rw [List.foldl_append]
  obtain ⟨f1, f2⟩ := foldl_innerEv evs {} hP
  have f2' : (evs.foldl View.step {}).rcode = 0 ∨ (evs.foldl View.step {}).rcode = 3 := f2
  have f1' : (evs.foldl View.step {}).tc = false := f1
  generalize evs.foldl View.step {} = v0 at f1' f2'
  rcases hr : (inner z qname qtype ⟨w, []⟩).1 with u | x | _
  · simp only [tailEvs, List.foldl_nil]
    exact ⟨by rcases f2' with h | h <;> simp [h], fun h => by rw [f1'] at h; cases h⟩
  · cases x with
    | servFail =>
      simp only [tailEvs, List.foldl_cons, List.foldl_nil, View.step]
      exact ⟨Or.inr (Or.inl rfl), fun h => by rw [f1'] at h; cases h⟩
    | truncation =>
      simp only [tailEvs]
      split
      · simp only [List.foldl_cons, List.foldl_nil, View.step]
        exact ⟨Or.inr (Or.inl rfl), fun h => by rw [f1'] at h; cases h⟩
      · rename_i htr
        simp only [List.foldl_cons, List.foldl_nil, View.step]
        refine ⟨by rcases f2' with h | h <;> simp [h], fun _ => ⟨?_, trivial, trivial, trivial⟩⟩
        cases tr
        · rfl
        · exact absurd rfl htr
  · simp only [tailEvs, List.foldl_nil]
    exact ⟨by rcases f2' with h | h <;> simp [h], fun h => by rw [f1'] at h; cases h⟩

end QV.ServerAnswer
