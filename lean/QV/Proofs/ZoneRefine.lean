/-
  QV.Proofs.ZoneRefine — the refinement relation `Rel` between the tree (`QV.Model.Zone`) and the
  flat record list (`QV.Spec.Zone`), its preservation by `add`, and what it gives for lookups.
-/
import QV.Proofs.Zone
import QV.Proofs.ZoneSpec

namespace QV.Zone
open QV QV.NameL QV.Spec.Zone

/-! ### bridging the two vocabularies -/

theorem lookupRrset_eq_findType (l : List Rrset) (t : Nat) : lookupRrset l t = findType l t := by
  induction l with
  | nil => rfl
  | cons a rest ih =>
    simp only [lookupRrset, findType, List.find?_cons]
    by_cases h : a.rtype = t
    · simp [h]
    · have hb : (a.rtype == t) = false := by simp [h]
      simp only [h, if_false]; rw [ih]; simp [findType, hb]

theorem filterMap_sorted (f : Nat → Option Rrset) (ts : List Nat) (hs : SortedN ts)
    (hf : ∀ t ∈ ts, ∃ x, f t = some x ∧ x.rtype = t) :
    SortedT (ts.filterMap f) ∧ (∀ x ∈ ts.filterMap f, x.rtype ∈ ts) ∧
      ∀ t, lookupRrset (ts.filterMap f) t = if t ∈ ts then f t else none := by
  induction ts with
  | nil => simp [SortedT, lookupRrset]
  | cons a rest ih =>
    obtain ⟨x, hx, hxt⟩ := hf a (by simp)
    obtain ⟨ih1, ih2, ih3⟩ := ih hs.2 (fun t ht => hf t (by simp [ht]))
    simp only [List.filterMap_cons, hx]
    refine ⟨⟨?_, ih1⟩, ?_, ?_⟩
    · intro s' hs'
      have := hs.1 _ (ih2 s' hs')
      omega
    · intro y hy
      simp at hy
      rcases hy with hy | hy
      · subst hy; simp [hxt]
      · have := ih2 y (by simpa using hy); simp [this]
    · intro t
      simp only [lookupRrset]
      by_cases h : x.rtype = t
      · subst h; simp [hxt, hx]
      · have hne : ¬ t = a := fun e => h (by rw [hxt, e])
        simp only [h, if_false, ih3, List.mem_cons, hne, false_or]

theorem rrsetsAt_sorted (s : SZone) (n : Name) : SortedT (rrsetsAt s n) :=
  (filterMap_sorted (rrset s n) (typesAt s n) (sorted_typesAt s n) (by
    intro t ht
    have ho := (mem_typesAt s n t).mp ht
    cases h : rrset s n t with
    | none => exact absurd ho ((rrset_eq_none s n t).mp h)
    | some x => exact ⟨x, rfl, rrset_rtype h⟩)).1

theorem lookup_rrsetsAt (s : SZone) (n : Name) (t : Nat) : lookupRrset (rrsetsAt s n) t = rrset s n t := by
  have := (filterMap_sorted (rrset s n) (typesAt s n) (sorted_typesAt s n) (by
    intro t ht
    have ho := (mem_typesAt s n t).mp ht
    cases h : rrset s n t with
    | none => exact absurd ho ((rrset_eq_none s n t).mp h)
    | some x => exact ⟨x, rfl, rrset_rtype h⟩)).2.2 t
  unfold rrsetsAt
  rw [this]
  split
  · rfl
  · rename_i h
    rw [mem_typesAt] at h
    exact ((rrset_eq_none s n t).mpr h).symm

/-! ### names and paths -/

theorem zip_append_self {α : Type} (xs t : List α) (p : α × α) (hp : p ∈ (xs ++ t).zip xs) : p.1 = p.2 := by
  induction xs with
  | nil => simp at hp
  | cons x xs ih =>
    simp [List.zip_cons_cons] at hp
    rcases hp with hp | hp
    · subst hp; rfl
    · exact ih hp

theorem eqOrSubdomainOf_iff (n a : Name) : eqOrSubdomainOf n a = true ↔ a <:+ n := by
  unfold eqOrSubdomainOf
  rw [← List.reverse_prefix]
  simp only [Bool.and_eq_true, decide_eq_true_eq, List.all_eq_true, beq_iff_eq]
  constructor
  · rintro ⟨hl, hall⟩
    generalize hr : n.reverse = nr at *
    generalize har : a.reverse = ar at *
    have hl' : ar.length ≤ nr.length := by rw [← hr, ← har]; simpa using hl
    clear hl hr har
    induction ar generalizing nr with
    | nil => exact List.nil_prefix
    | cons x xs ih =>
      cases nr with
      | nil => simp at hl'
      | cons y ys =>
        have h0 := hall (y, x) (by simp)
        simp at h0; subst h0
        rw [List.cons_prefix_cons]
        refine ⟨rfl, ih ys (fun p hp => hall p (by simp [List.zip_cons_cons, hp])) (by simpa using hl')⟩
  · intro hp
    obtain ⟨t, ht⟩ := hp
    refine ⟨?_, ?_⟩
    · have := congrArg List.length ht; simp at this; omega
    · rw [← ht]
      intro p hp
      exact zip_append_self _ _ p hp

/-- the name of the node at path `p` below the apex -/
def nameAt (apex : Name) (p : List Label) : Name := p.reverse ++ apex

theorem relPath_nameAt (apex : Name) (p : List Label) : relPath apex.length (nameAt apex p) = p := by
  simp [relPath, nameAt]

theorem nameAt_relPath (apex n : Name) (h : apex <:+ n) : nameAt apex (relPath apex.length n) = n := by
  obtain ⟨t, rfl⟩ := h
  simp [relPath, nameAt]

theorem nameAt_suffix (apex : Name) (p q : List Label) : nameAt apex p <:+ nameAt apex q ↔ p <+: q := by
  unfold nameAt
  rw [← List.reverse_prefix]
  simp only [List.reverse_append, List.reverse_reverse]
  rw [List.prefix_append_right_inj]

theorem nameAt_inj (apex : Name) (p q : List Label) : nameAt apex p = nameAt apex q ↔ p = q := by
  unfold nameAt
  simp

theorem apex_suffix_nameAt (apex : Name) (p : List Label) : apex <:+ nameAt apex p :=
  List.suffix_append _ _

theorem nameAt_cons (apex : Name) (l : Label) (p : List Label) :
    nameAt apex (p ++ [l]) = l :: nameAt apex p := by
  simp [nameAt]

/-! ### the refinement relation -/

/-- the tree `z` represents the flat zone `s`: a node exists exactly at the existing names, its
    RRset list is strictly sorted by type and holds, for each type, the RRset of the flat list -/
structure Rel (z : Zone) (s : SZone) : Prop where
  apex : z.apex = s.apex
  cls : z.cls = s.cls
  glue : z.glue = s.glue
  inZone : ∀ r ∈ s.recs, s.apex <:+ r.owner
  clsOk : ∀ r ∈ s.recs, r.cls = s.cls
  ttl : TtlUniform s
  ex : ∀ p, (rrs z.root p).isSome = nameExists s (nameAt s.apex p)
  sorted : ∀ p l, rrs z.root p = some l → SortedT l
  look : ∀ p l t, rrs z.root p = some l → lookupRrset l t = rrset s (nameAt s.apex p) t

theorem Rel.init (apex : Name) (cls : Nat) (glue : GluePolicy) :
    Rel (Zone.new apex cls glue) ⟨apex, cls, glue, []⟩ := by
  refine ⟨rfl, rfl, rfl, by simp, by simp, by simp [TtlUniform], ?_, ?_, ?_⟩
  · intro p
    simp only [Zone.new, rrs_empty, nameExists, List.any_nil, Bool.or_false]
    by_cases hp : p = []
    · subst hp; simp [nameAt]
    · have : nameAt apex p ≠ apex := by
        intro e; apply hp
        have := (nameAt_inj apex p []).mp (by simpa [nameAt] using e)
        exact this
      simp [hp, this]
  · intro p l hl
    simp only [Zone.new, rrs_empty] at hl
    split at hl
    · cases hl; trivial
    · cases hl
  · intro p l t hl
    simp only [Zone.new, rrs_empty] at hl
    split at hl
    · cases hl; simp [lookupRrset, rrset]
    · cases hl

theorem Rel.look' {z s} (h : Rel z s) (p : List Label) (t : Nat) :
    lookupRrset ((rrs z.root p).getD []) t = rrset s (nameAt s.apex p) t := by
  cases hr : rrs z.root p with
  | some l => simpa using h.look p l t hr
  | none =>
    have he := h.ex p
    rw [hr] at he
    simp only [Option.isSome_none, Option.getD_none, lookupRrset] at he ⊢
    symm
    rw [rrset_eq_none]
    intro ho
    have := (nameExists_iff s _).mpr ho.exists
    rw [this] at he; cases he

theorem Rel.sorted' {z s} (h : Rel z s) (p : List Label) : SortedT ((rrs z.root p).getD []) := by
  cases hr : rrs z.root p with
  | some l => simpa using h.sorted p l hr
  | none => simp [SortedT]

/-- the RRset list of a node is exactly the specification's list for its name -/
theorem Rel.rrs_eq {z s} (h : Rel z s) (p : List Label) :
    rrs z.root p = if nameExists s (nameAt s.apex p) then some (rrsetsAt s (nameAt s.apex p)) else none := by
  have he := h.ex p
  cases hr : rrs z.root p with
  | none => rw [hr] at he; simp at he; simp [he]
  | some l =>
    rw [hr] at he; simp at he
    simp only [← he, if_true, Option.some.injEq]
    apply sortedT_ext _ _ (h.sorted p l hr) (rrsetsAt_sorted s _)
    intro t
    rw [h.look p l t hr, lookup_rrsetsAt]

/-- the common part of the two "a record is appended to the flat list" cases -/
theorem Rel.add_new {z s} (h : Rel z s) (eqv : Eqv) (r : Rec) (q : List Label)
    (hname : nameAt s.apex q = r.owner) (l' : List Rrset) (hl'sorted : SortedT l')
    (hrrs : ∀ p, rrs (addAt eqv s.cls r.rtype r.ttl r.rdata z.root q).1 p =
      if p = q then some l' else if p <+: q then some ((rrs z.root p).getD []) else rrs z.root p)
    (hlook : ∀ t, lookupRrset l' t = rrset { s with recs := s.recs ++ [r] } r.owner t)
    (httl : ∀ r' ∈ s.recs, r'.owner = r.owner → r'.rtype = r.rtype → r'.ttl = r.ttl)
    (hz : s.apex <:+ r.owner) (hc : r.cls = s.cls) :
    Rel { z with root := (addAt eqv s.cls r.rtype r.ttl r.rdata z.root q).1 } { s with recs := s.recs ++ [r] } := by
  have hex' : ∀ n, nameExists { s with recs := s.recs ++ [r] } n = (nameExists s n || n.isSuffixOf r.owner) := by
    intro n; simp [nameExists, List.any_append, Bool.or_assoc]
  have hother : ∀ p t, p ≠ q → rrset { s with recs := s.recs ++ [r] } (nameAt s.apex p) t = rrset s (nameAt s.apex p) t := by
    intro p t hp
    rw [rrset_append]
    have : ¬ (r.owner = nameAt s.apex p ∧ r.rtype = t) := by
      intro hh; apply hp
      rw [← hname] at hh
      exact ((nameAt_inj _ _ _).mp hh.1).symm
    simp [this]
  refine ⟨h.apex, h.cls, h.glue, ?_, ?_, ?_, ?_, ?_, ?_⟩
  · intro r' hr'
    simp only [List.mem_append, List.mem_singleton] at hr'
    rcases hr' with hr' | hr'
    · exact h.inZone r' hr'
    · subst hr'; exact hz
  · intro r' hr'
    simp only [List.mem_append, List.mem_singleton] at hr'
    rcases hr' with hr' | hr'
    · exact h.clsOk r' hr'
    · subst hr'; exact hc
  · intro r1 h1 r2 h2 ho ht
    simp only [List.mem_append, List.mem_singleton] at h1 h2
    rcases h1 with h1 | h1 <;> rcases h2 with h2 | h2
    · exact h.ttl r1 h1 r2 h2 ho ht
    · subst h2; exact httl r1 h1 ho ht
    · subst h1; exact (httl r2 h2 ho.symm ht.symm).symm
    · subst h1; subst h2; rfl
  · intro p
    show (rrs (addAt eqv s.cls r.rtype r.ttl r.rdata z.root q).1 p).isSome = _
    rw [hrrs, hex']
    by_cases hp1 : p = q
    · subst hp1; simp [hname]
    · have hsuf : (nameAt s.apex p).isSuffixOf r.owner = decide (p <+: q) := by
        rw [← hname]
        by_cases hp2 : p <+: q
        · simp [hp2, List.isSuffixOf_iff_suffix.mpr ((nameAt_suffix s.apex p q).mpr hp2)]
        · simp only [hp2, decide_false]
          cases hb : (nameAt s.apex p).isSuffixOf (nameAt s.apex q) with
          | false => rfl
          | true => exact absurd ((nameAt_suffix s.apex p q).mp (List.isSuffixOf_iff_suffix.mp hb)) hp2
      rw [hsuf]
      by_cases hp2 : p <+: q
      · simp [hp1, hp2]
      · simp only [hp1, hp2, if_false, decide_false, Bool.or_false]; exact h.ex p
  · intro p l hl
    change rrs (addAt eqv s.cls r.rtype r.ttl r.rdata z.root q).1 p = some l at hl
    rw [hrrs] at hl
    by_cases hp1 : p = q
    · simp [hp1] at hl; subst hl; exact hl'sorted
    · by_cases hp2 : p <+: q
      · simp [hp1, hp2] at hl; subst hl; exact h.sorted' p
      · simp only [hp1, hp2, if_false] at hl; exact h.sorted p l hl
  · intro p l t hl
    change rrs (addAt eqv s.cls r.rtype r.ttl r.rdata z.root q).1 p = some l at hl
    rw [hrrs] at hl
    show lookupRrset l t = rrset { s with recs := s.recs ++ [r] } (nameAt s.apex p) t
    by_cases hp1 : p = q
    · simp [hp1] at hl; subst hl; subst hp1
      rw [hlook, hname]
    · rw [hother p t hp1]
      by_cases hp2 : p <+: q
      · simp [hp1, hp2] at hl; subst hl; exact h.look' p t
      · simp only [hp1, hp2, if_false] at hl; exact h.look p l t hl

/-- `add` on the tree and on the flat list keep the relation, and report the same error -/
theorem Rel.add {z s} (h : Rel z s) (eqv : Eqv) (r : Rec) :
    Rel (addM eqv z r).1 (specAddM eqv s r) ∧
      (addM eqv z r).2 = (match specAdd eqv s r with | .ok _ => none | .error e => some e) := by
  obtain ⟨za, zc, zg, zr⟩ := z
  have ha := h.apex; have hcl := h.cls; have hg := h.glue
  simp only at ha hcl hg
  subst ha hcl hg
  unfold addM specAddM specAdd
  simp only
  by_cases hz' : ¬ s.apex <:+ r.owner
  · have hz := hz'
    have e1 : eqOrSubdomainOf r.owner s.apex = false := by
      cases he : eqOrSubdomainOf r.owner s.apex with
      | false => rfl
      | true => exact absurd ((eqOrSubdomainOf_iff _ _).mp he) hz
    have e2 : s.apex.isSuffixOf r.owner = false := by
      cases he : s.apex.isSuffixOf r.owner with
      | false => rfl
      | true => exact absurd (List.isSuffixOf_iff_suffix.mp he) hz
    simp only [e1, e2, Bool.not_false, if_true]
    exact ⟨h, trivial⟩
  have hz : s.apex <:+ r.owner := Classical.not_not.mp hz'
  have e1 : eqOrSubdomainOf r.owner s.apex = true := (eqOrSubdomainOf_iff _ _).mpr hz
  have e2 : s.apex.isSuffixOf r.owner = true := List.isSuffixOf_iff_suffix.mpr hz
  simp only [e1, e2, Bool.not_true, Bool.false_eq_true, if_false]
  by_cases hc' : ¬ r.cls = s.cls
  · simp only [ne_eq, hc', not_false_eq_true, if_true]
    exact ⟨h, trivial⟩
  have hc : r.cls = s.cls := Classical.not_not.mp hc'
  simp only [ne_eq, hc, not_true_eq_false, if_false]
  -- the walk
  generalize hq : relPath s.apex.length r.owner = q
  have hname : nameAt s.apex q = r.owner := by rw [← hq]; exact nameAt_relPath _ _ hz
  have hsnd := addAt_snd eqv s.cls r.rtype r.ttl r.rdata zr q
  have hlk : lookupRrset ((rrs zr q).getD []) r.rtype = rrset s r.owner r.rtype := by
    rw [h.look' q r.rtype, hname]
  have hsort := h.sorted' q
  -- TTL test
  by_cases httl : ∃ x, rrset s r.owner r.rtype = some x ∧ x.ttl ≠ r.ttl
  · have hany := (ttlAny_iff s h.ttl r.owner r.rtype r.ttl).mpr httl
    simp only [hany, if_true]
    have herr : addErrOf eqv s.cls r.rtype r.ttl r.rdata ((rrs zr q).getD []) = some .TtlMismatch := by
      unfold addErrOf
      have := (rrsetsAdd_error eqv s.cls r.rtype r.ttl r.rdata _ hsort .TtlMismatch).mpr ⟨rfl, by rw [hlk]; exact httl⟩
      rw [this]
    rw [herr] at hsnd
    have heq := addAt_err_eq eqv s.cls r.rtype r.ttl r.rdata zr q _ hsnd
    refine ⟨?_, hsnd⟩
    rw [heq]
    exact h
  have hany : s.recs.any (fun r' => r'.owner == r.owner && r'.rtype == r.rtype && r'.ttl != r.ttl) = false := by
    cases ha : s.recs.any (fun r' => r'.owner == r.owner && r'.rtype == r.rtype && r'.ttl != r.ttl) with
    | false => rfl
    | true => exact absurd ((ttlAny_iff s h.ttl r.owner r.rtype r.ttl).mp ha) httl
  simp only [hany, Bool.false_eq_true, if_false]
  -- the add succeeds on the tree
  obtain ⟨l', hl'⟩ : ∃ l', rrsetsAdd eqv s.cls r.rtype r.ttl r.rdata ((rrs zr q).getD []) = .ok l' := by
    cases hr : rrsetsAdd eqv s.cls r.rtype r.ttl r.rdata ((rrs zr q).getD []) with
    | ok l' => exact ⟨l', rfl⟩
    | error e =>
      have := (rrsetsAdd_error eqv s.cls r.rtype r.ttl r.rdata _ hsort e).mp hr
      rw [hlk] at this
      exact absurd this.2 httl
  have hnoerr : (addAt eqv s.cls r.rtype r.ttl r.rdata zr q).2 = none := by
    rw [hsnd]; unfold addErrOf; rw [hl']
  have hadded : addedList eqv s.cls r.rtype r.ttl r.rdata ((rrs zr q).getD []) = l' := by
    unfold addedList; rw [hl']
  have hl'sorted := rrsetsAdd_sorted eqv s.cls r.rtype r.ttl r.rdata _ l' hsort hl'
  have hl'look := rrsetsAdd_lookup eqv s.cls r.rtype r.ttl r.rdata _ l' hsort hl'
  rw [hlk] at hl'look
  have hrrs := rrs_addAt eqv s.cls r.rtype r.ttl r.rdata zr q
  rw [hadded] at hrrs
  have hdup := dupAny_eq s r.owner r.rtype (fun rd' => eqv s.cls r.rtype r.rdata rd')
  rw [hdup]
  -- existence of prefixes of the owner
  have hexq : ∀ s' : SZone, s'.apex = s.apex → NameExists s' r.owner → ∀ p, p <+: q → nameExists s' (nameAt s.apex p) = true := by
    intro s' ha hex p hp
    rw [nameExists_iff]
    refine hex.up ?_ (by rw [ha]; exact apex_suffix_nameAt _ _)
    rw [← hname]; exact (nameAt_suffix _ _ _).mpr hp
  cases hx : rrset s r.owner r.rtype with
  | some x =>
    simp only [hx] at hl'look ⊢
    have hxt := rrset_rtype hx
    by_cases hd : x.rdatas.any (fun rd' => eqv s.cls r.rtype r.rdata rd') = true
    · -- duplicate RDATA: nothing changes
      simp only [hd, if_true]
      refine ⟨?_, hnoerr⟩
      have hsame : addedRrset eqv s.cls r.rtype r.ttl r.rdata (some x) = x := by
        simp only [addedRrset, rdataInsert, hd, if_true]
      have hexo : NameExists s r.owner := (rrset_some_owns hx).exists
      refine ⟨h.apex, h.cls, h.glue, h.inZone, h.clsOk, h.ttl, ?_, ?_, ?_⟩
      · intro p
        simp only [hrrs]
        by_cases hp1 : p = q
        · subst hp1; simp [hname, (nameExists_iff s _).mpr hexo]
        · by_cases hp2 : p <+: q
          · simp [hp1, hp2, hexq s rfl hexo p hp2]
          · simp only [hp1, hp2, if_false]; exact h.ex p
      · intro p l hl
        simp only [hrrs] at hl
        by_cases hp1 : p = q
        · simp [hp1] at hl; subst hl; exact hl'sorted
        · by_cases hp2 : p <+: q
          · simp [hp1, hp2] at hl; subst hl; exact h.sorted' p
          · simp only [hp1, hp2, if_false] at hl; exact h.sorted p l hl
      · intro p l t hl
        simp only [hrrs] at hl
        by_cases hp1 : p = q
        · simp [hp1] at hl; subst hl; subst hp1
          rw [hl'look, hname, hsame]
          by_cases ht : t = r.rtype
          · subst ht; simp [hx]
          · simp only [ht, if_false]; rw [h.look' p t, hname]
        · by_cases hp2 : p <+: q
          · simp [hp1, hp2] at hl; subst hl; exact h.look' p t
          · simp only [hp1, hp2, if_false] at hl; exact h.look p l t hl
    · -- new RDATA in an existing RRset
      have hd' : x.rdatas.any (fun rd' => eqv s.cls r.rtype r.rdata rd') = false := by simpa using hd
      simp only [hd', Bool.false_eq_true, if_false]
      refine ⟨?_, hnoerr⟩
      exact Rel.add_new h eqv r q hname l' hl'sorted hrrs (by
        intro t
        rw [hl'look, rrset_append]
        by_cases ht : t = r.rtype
        · subst ht
          simp only [and_self, if_true, hx, addedRrset, rdataInsert, hd', Bool.false_eq_true, if_false, hxt]
        · have hne : ¬ (r.rtype = t) := fun hh => ht hh.symm
          simp only [ht, if_false]
          rw [h.look' q t, hname]; simp [hne])
        (by
          intro r' hr' ho ht
          obtain ⟨r0, hr0, ho0, ht0, httl0⟩ := rrset_ttl hx
          have hx_ttl : x.ttl = r.ttl := Classical.not_not.mp (fun hne => httl ⟨x, hx, hne⟩)
          rw [← hx_ttl, ← httl0]
          exact h.ttl r' hr' r0 hr0 (by rw [ho, ho0]) (by rw [ht, ht0]))
        hz hc
  | none =>
    simp only [hx] at hl'look ⊢
    simp only [Bool.false_eq_true, if_false]
    refine ⟨?_, hnoerr⟩
    exact Rel.add_new h eqv r q hname l' hl'sorted hrrs (by
      intro t
      rw [hl'look, rrset_append]
      by_cases ht : t = r.rtype
      · subst ht
        simp [hx, addedRrset]
      · have hne : ¬ (r.rtype = t) := fun hh => ht hh.symm
        simp only [ht, if_false]
        rw [h.look' q t, hname]; simp [hne])
      (by
        intro r' hr' ho ht
        exact absurd ⟨r', hr', ho, ht⟩ ((rrset_eq_none s _ _).mp hx))
      hz hc

end QV.Zone
