/-
  QV.Proofs.Name — lemmas for C16 (name text form, equality, ordering).

  Everything is proved over `toWire n` for a label list `n` (the spec's representation), by
  induction on labels / octets / tokens:
  * wire-form walking (`labelsOf`, `labelOffset`) on `toWire n`;
  * the builder as an abstract pair (finished labels, label under construction): `stateOf`,
    invariant `InvDC`, one lemma per operation, `runToks_iff`;
  * the text loop = spec tokenizer ∘ builder (`fromStrLoop_iff`), acceptance `fromStr_iff`,
    no panic;
  * the declarative grammar `Denotes` ⇔ the executable `parseText`;
  * `Display` prints a text that denotes the name ⇒ the round trip `fromStr_textOf`.
-/
import QV.Model.Name
import QV.Spec.NameText
import QV.Proofs.Codes
namespace QV.Name
open QV QV.Spec.NameText
open QV.Codes (Text eqIgnoreAsciiCase isDigit forall_uint8 eqIgnoreAsciiCase_iff)

theorem consts : Gen.MAX_LABEL_LEN = 63 ∧ Gen.MAX_WIRE_LEN = 255 ∧ Gen.MAX_N_LABELS = 128 := by decide

/-- the wire form without its terminator -/
def body (n : DName) : List UInt8 := n.flatMap (fun l => UInt8.ofNat l.length :: l)

def LabelsOK (n : DName) : Prop := ∀ l ∈ n, 1 ≤ l.length ∧ l.length ≤ 63

theorem toWire_eq (n : DName) : toWire n = body n ++ [0] := rfl

@[simp] theorem body_nil : body [] = [] := rfl
@[simp] theorem body_cons (l : Label) (n : DName) : body (l :: n) = UInt8.ofNat l.length :: l ++ body n := by
  simp [body]
@[simp] theorem body_append (a b : DName) : body (a ++ b) = body a ++ body b := by
  simp [body]

theorem toWire_cons (l : Label) (n : DName) : toWire (l :: n) = UInt8.ofNat l.length :: l ++ toWire n := by
  simp [toWire_eq]

theorem body_length (n : DName) : (body n).length = (n.map (fun l => l.length + 1)).sum := by
  induction n with
  | nil => rfl
  | cons l n ih => simp [ih]; omega

theorem toWire_length (n : DName) : (toWire n).length = wireLength n := by
  simp [toWire_eq, body_length, wireLength]

theorem ofNat_len_toNat {l : Label} (h : l.length ≤ 63) : (UInt8.ofNat l.length).toNat = l.length := by
  simp [UInt8.toNat_ofNat']; omega

theorem ofNat_len_ne_zero {l : Label} (h1 : 1 ≤ l.length) (h : l.length ≤ 63) : UInt8.ofNat l.length ≠ 0 := by
  intro e
  have := congrArg UInt8.toNat e
  rw [ofNat_len_toNat h] at this
  have h0 : (0 : UInt8).toNat = 0 := rfl
  omega

theorem LabelsOK.tail {l : Label} {n : DName} (h : LabelsOK (l :: n)) : LabelsOK n :=
  fun x hx => h x (List.mem_cons_of_mem _ hx)

theorem labelsOf_toWire (n : DName) (h : LabelsOK n) : labelsOf (toWire n) = n ++ [[]] := by
  induction n with
  | nil => simp [toWire, labelsOf]
  | cons l n ih =>
    have hl := h l (by simp)
    rw [toWire_cons, List.cons_append, labelsOf]
    simp only [ofNat_len_ne_zero hl.1 hl.2, ↓reduceIte, ofNat_len_toNat hl.2]
    simp [ih h.tail]

theorem nLabels_toWire (n : DName) (h : LabelsOK n) : nLabels (toWire n) = n.length + 1 := by
  simp [nLabels, labelsOf_toWire n h]

theorem labelOffset_toWire (n : DName) (h : LabelsOK n) (k : Nat) (hk : k ≤ n.length) :
    labelOffset (toWire n) k = (body (n.take k)).length := by
  induction k generalizing n with
  | zero => cases n <;> simp [labelOffset]
  | succ k ih =>
    cases n with
    | nil => simp at hk
    | cons l n =>
      have hl := h l (by simp)
      rw [toWire_cons, List.cons_append, labelOffset]
      simp only [ofNat_len_toNat hl.2]
      simp at hk
      simp [ih n h.tail hk]; omega

theorem drop_labelOffset_toWire (n : DName) (h : LabelsOK n) (k : Nat) (hk : k ≤ n.length) :
    (toWire n).drop (labelOffset (toWire n) k) = toWire (n.drop k) := by
  rw [labelOffset_toWire n h k hk]
  conv => lhs; arg 2; rw [← List.take_append_drop k n]
  rw [toWire_eq, body_append, List.append_assoc, List.drop_left, toWire_eq]

theorem take_labelOffset_toWire (n : DName) (h : LabelsOK n) (k : Nat) (hk : k ≤ n.length) :
    (toWire n).take (labelOffset (toWire n) k) = body (n.take k) := by
  rw [labelOffset_toWire n h k hk]
  conv => lhs; arg 2; rw [← List.take_append_drop k n]
  rw [toWire_eq, body_append, List.append_assoc, List.take_left]



/-! ### the builder, abstractly: finished labels + the label under construction -/

/-- the label-offset table for the labels of `n` and one more label after them -/
def offsetsList (n : DName) : List Nat := (List.range (n.length + 1)).map (fun i => (body (n.take i)).length)

def stateOf (done : DName) (cur : Label) : Builder :=
  ⟨body done ++ 0 :: cur, offsetsList done, (body done).length, cur.length⟩

structure InvDC (done : DName) (cur : Label) : Prop where
  ok : LabelsOK done
  cl : cur.length ≤ 63
  sz : (body done).length + 1 + cur.length ≤ 255

theorem new_eq : Builder.new = stateOf [] [] := by
  simp [Builder.new, stateOf, offsetsList]

theorem offsetsList_snoc (done : DName) (cur : Label) :
    offsetsList (done ++ [cur]) = offsetsList done ++ [(body done).length + 1 + cur.length] := by
  unfold offsetsList
  simp only [List.length_append, List.length_cons, List.length_nil]
  rw [List.range_succ, List.map_append]
  congr 1
  · apply List.map_congr_left
    intro i hi
    simp at hi
    rw [List.take_append_of_le_length (by omega)]
  · have : (done ++ [cur]).take (done.length + 1) = done ++ [cur] := List.take_of_length_le (by simp)
    simp [this]; omega

theorem two_mul_length_le_body (n : DName) (h : LabelsOK n) : 2 * n.length ≤ (body n).length := by
  induction n with
  | nil => simp
  | cons l n ih =>
    have := h l (by simp)
    have := ih h.tail
    simp; omega

theorem labelOffsets_toWire (n : DName) (h : LabelsOK n) : labelOffsets (toWire n) = offsetsList n := by
  unfold labelOffsets offsetsList
  rw [nLabels_toWire n h]
  apply List.map_congr_left
  intro i hi
  simp at hi
  exact labelOffset_toWire n h i (by omega)

theorem tryPush_stateOf (done : DName) (cur : Label) (o : UInt8) :
    (stateOf done cur).tryPush o =
      if cur.length ≥ 63 then (stateOf done cur, .err .LabelTooLong)
      else if (body done).length + 1 + cur.length < 255 then (stateOf done (cur ++ [o]), .ok ())
      else (stateOf done cur, .err .NameTooLong) := by
  obtain ⟨c1, c2, _⟩ := consts
  unfold Builder.tryPush
  simp only [stateOf, c1, c2, List.length_append, List.length_cons]
  split
  · rfl
  · split
    · rw [if_pos (by omega)]; simp
    · rw [if_neg (by omega)]

theorem tryPushSlice_stateOf (done : DName) (cur : Label) (os : List UInt8) :
    (stateOf done cur).tryPushSlice os =
      if cur.length + os.length > 63 then (stateOf done cur, .err .LabelTooLong)
      else if (body done).length + 1 + cur.length + os.length ≤ 255 then (stateOf done (cur ++ os), .ok ())
      else (stateOf done cur, .err .NameTooLong) := by
  obtain ⟨c1, c2, _⟩ := consts
  unfold Builder.tryPushSlice
  simp only [stateOf, c1, c2, List.length_append, List.length_cons]
  split
  · rfl
  · split
    · rw [if_pos (by omega)]; simp
    · rw [if_neg (by omega)]

theorem nextLabel_stateOf (done : DName) (cur : Label) (h : InvDC done cur) :
    (stateOf done cur).nextLabel =
      if cur = [] then (stateOf done cur, .err .NullNonTerminal)
      else if (body done).length + 1 + cur.length ≥ 255 then (stateOf done cur, .err .NameTooLong)
      else (stateOf (done ++ [cur]) [], .ok ()) := by
  obtain ⟨c1, c2, c3⟩ := consts
  have hq : (stateOf done cur).isFullyQualified = decide (cur = []) := by
    cases cur <;> simp [Builder.isFullyQualified, stateOf]
  have hlen : (stateOf done cur).wire.length = (body done).length + 1 + cur.length := by
    simp [stateOf]; omega
  unfold Builder.nextLabel
  rw [hq, hlen, c2, c3]
  by_cases hc : cur = []
  · simp [hc]
  · have hpos : 0 < cur.length := List.length_pos_iff.mpr hc
    simp only [hc, decide_false, Bool.false_eq_true, ↓reduceIte]
    by_cases hsz : (body done).length + 1 + cur.length ≥ 255
    · simp only [hsz, ↓reduceIte]
    · simp only [hsz, ↓reduceIte]
      have hset : (body done ++ 0 :: cur).set (body done).length (UInt8.ofNat cur.length)
          = body done ++ UInt8.ofNat cur.length :: cur := by
        rw [List.set_append_right _ _ (by omega)]; simp
      have hup : (stateOf done cur).updateLabelLen = some (body done ++ UInt8.ofNat cur.length :: cur) := by
        unfold Builder.updateLabelLen
        have : (stateOf done cur).labelStart < (stateOf done cur).wire.length := by
          rw [hlen]; simp [stateOf]; omega
        rw [if_pos this]
        simp only [stateOf]
        rw [hset]
      rw [hup]
      simp only
      have hoff : (stateOf done cur).offsets.length = done.length + 1 := by simp [stateOf, offsetsList]
      have h2 := two_mul_length_le_body done h.ok
      rw [if_neg (by rw [hoff]; omega)]
      simp [stateOf, offsetsList_snoc, List.append_assoc]
      omega

theorem finish_stateOf (done : DName) (cur : Label) :
    (stateOf done cur).finish =
      if cur = [] then .ok ⟨toWire done, offsetsList done⟩ else .err .NonNullTerminal := by
  unfold Builder.finish Builder.isFullyQualified
  by_cases hc : cur = []
  · subst hc; simp [stateOf, toWire_eq]
  · have hpos : 0 < cur.length := List.length_pos_iff.mpr hc
    have : (cur.length == 0) = false := by simp; omega
    simp [stateOf, this, hc]



/-! ### running a token sequence through the builder -/

def runToks (b : Builder) : List Tok → Out NameErr Built
  | [] => b.finish
  | .oct v :: ts =>
    match b.tryPush v with
    | (b', .ok ()) => runToks b' ts
    | (_, .err e) => .err e
    | (_, .panic) => .panic
  | .dot :: ts =>
    match b.nextLabel with
    | (b', .ok ()) => runToks b' ts
    | (_, .err e) => .err e
    | (_, .panic) => .panic

theorem groupLabels_head {toks : List Tok} {c : Label} {n : DName} (h : groupLabels toks c = some n)
    (hc : c ≠ []) : ∃ l rest, n = l :: rest ∧ c.length ≤ l.length := by
  induction toks generalizing c n with
  | nil => simp [groupLabels, hc] at h
  | cons t ts ih =>
    cases t with
    | dot =>
      simp only [groupLabels, List.isEmpty_iff, hc, ↓reduceIte, Option.map_eq_some_iff] at h
      obtain ⟨n', _, rfl⟩ := h
      exact ⟨c, n', rfl, Nat.le_refl _⟩
    | oct v =>
      simp only [groupLabels] at h
      obtain ⟨l, rest, rfl, hl⟩ := ih h (by simp)
      exact ⟨l, rest, rfl, by simp at hl; omega⟩

theorem wireLength_append (a b : DName) : wireLength (a ++ b) = (body a).length + wireLength b := by
  simp [wireLength, body_length]; omega

theorem wireLength_cons (l : Label) (n : DName) : wireLength (l :: n) = l.length + 1 + wireLength n := by
  simp [wireLength]; omega

theorem wireLength_pos (n : DName) : 1 ≤ wireLength n := by simp [wireLength]

theorem validName_iff (n : DName) : ValidName n ↔ LabelsOK n ∧ wireLength n ≤ 255 := Iff.rfl

theorem LabelsOK_append {a b : DName} : LabelsOK (a ++ b) ↔ LabelsOK a ∧ LabelsOK b := by
  unfold LabelsOK
  constructor
  · intro h
    exact ⟨fun l hl => h l (List.mem_append_left _ hl), fun l hl => h l (List.mem_append_right _ hl)⟩
  · intro ⟨h1, h2⟩ l hl
    rcases List.mem_append.mp hl with h | h
    · exact h1 l h
    · exact h2 l h

theorem runToks_iff (toks : List Tok) (done : DName) (cur : Label) (hinv : InvDC done cur) (r : Built) :
    runToks (stateOf done cur) toks = .ok r ↔
      ∃ n, groupLabels toks cur = some n ∧ ValidName (done ++ n) ∧
        r = ⟨toWire (done ++ n), offsetsList (done ++ n)⟩ := by
  induction toks generalizing done cur with
  | nil =>
    simp only [runToks, finish_stateOf, groupLabels, List.isEmpty_iff]
    by_cases hc : cur = []
    · subst hc
      simp only [↓reduceIte, Out.ok.injEq]
      constructor
      · intro e; subst e
        refine ⟨[], rfl, ?_, by simp⟩
        simp only [List.append_nil]
        exact ⟨hinv.ok, by have := hinv.sz; simp [wireLength, ← body_length] at *; omega⟩
      · intro ⟨n, hn, _, hr⟩
        simp at hn; subst hn; simp at hr; exact hr.symm
    · simp [hc]
  | cons t ts ih =>
    cases t with
    | oct v =>
      simp only [runToks, tryPush_stateOf, groupLabels]
      by_cases h63 : cur.length ≥ 63
      · simp only [h63, ↓reduceIte]
        constructor
        · intro h; cases h
        · intro ⟨n, hn, hv, _⟩
          obtain ⟨l, rest, rfl, hl⟩ := groupLabels_head hn (by simp)
          have := (LabelsOK_append.mp hv.1).2 l (by simp)
          simp at hl; omega
      · simp only [h63, ↓reduceIte]
        by_cases hsz : (body done).length + 1 + cur.length < 255
        · simp only [hsz, ↓reduceIte]
          exact ih done (cur ++ [v]) ⟨hinv.ok, by simp; omega, by simp; omega⟩
        · simp only [hsz, ↓reduceIte]
          constructor
          · intro h; cases h
          · intro ⟨n, hn, hv, _⟩
            obtain ⟨l, rest, rfl, hl⟩ := groupLabels_head hn (by simp)
            have := hv.2
            rw [wireLength_append, wireLength_cons] at this
            have := wireLength_pos rest
            simp at hl; omega
    | dot =>
      simp only [runToks, nextLabel_stateOf done cur hinv, groupLabels, List.isEmpty_iff]
      by_cases hc : cur = []
      · simp [hc]
      · have hpos : 0 < cur.length := List.length_pos_iff.mpr hc
        simp only [hc, ↓reduceIte]
        by_cases hsz : (body done).length + 1 + cur.length ≥ 255
        · simp only [hsz, ↓reduceIte]
          constructor
          · intro h; cases h
          · intro ⟨n, hn, hv, _⟩
            simp only [Option.map_eq_some_iff] at hn
            obtain ⟨n', _, rfl⟩ := hn
            have := hv.2
            rw [wireLength_append, wireLength_cons] at this
            have := wireLength_pos n'
            omega
        · simp only [hsz, ↓reduceIte]
          have hinv' : InvDC (done ++ [cur]) [] := by
            refine ⟨LabelsOK_append.mpr ⟨hinv.ok, ?_⟩, by simp, by simp; omega⟩
            intro l hl; simp at hl; subst hl; exact ⟨hpos, hinv.cl⟩
          rw [ih (done ++ [cur]) [] hinv']
          constructor
          · intro ⟨n, hn, hv, hr⟩
            exact ⟨cur :: n, by simp [hn], by simpa using hv, by simpa using hr⟩
          · intro ⟨n, hn, hv, hr⟩
            simp only [Option.map_eq_some_iff] at hn
            obtain ⟨n', hn', rfl⟩ := hn
            exact ⟨n', hn', by simpa using hv, by simpa using hr⟩



/-! ### the text loop = tokenizer ∘ builder -/

theorem isDigit_iff (c : UInt8) : isDigit c = true ↔ IsDigit c := by
  simp [isDigit, IsDigit]

theorem tokenize_bs (rest : List UInt8) :
    tokenize (92 :: rest) =
      match parseEscape rest with
      | .ok (v, k) => (tokenize (rest.drop k)).map (Tok.oct v :: ·)
      | _ => none := by
  rw [tokenize.eq_def]
  simp only [↓reduceIte]
  cases rest with
  | nil => simp [parseEscape]
  | cons a t1 =>
    simp only [parseEscape]
    by_cases ha : IsDigit a
    · have ha' : isDigit a = true := (isDigit_iff a).mpr ha
      simp only [ha, ha', ↓reduceIte]
      match t1 with
      | [] => simp
      | [_] => simp
      | b :: d :: t2 =>
        simp only
        by_cases hb : IsDigit b
        · by_cases hd : IsDigit d
          · have hb' := (isDigit_iff b).mpr hb
            have hd' := (isDigit_iff d).mpr hd
            simp only [hb, hd, hb', hd', true_and, Bool.not_true, Bool.or_self, Bool.false_eq_true, ↓reduceIte]
            by_cases hv : dddValue a b d ≤ 255
            · have : ¬ (100 * (a.toNat - 48) + 10 * (b.toNat - 48) + (d.toNat - 48) > 255) := by
                unfold dddValue at hv; omega
              simp [this, dddValue]
            · have : (100 * (a.toNat - 48) + 10 * (b.toNat - 48) + (d.toNat - 48) > 255) := by
                unfold dddValue at hv; omega
              simp [hv, this]
          · have hd' : isDigit d = false := by
              cases h : isDigit d with
              | false => rfl
              | true => exact absurd ((isDigit_iff d).mp h) hd
            simp [hd, hd']
        · have hb' : isDigit b = false := by
            cases h : isDigit b with
            | false => rfl
            | true => exact absurd ((isDigit_iff b).mp h) hb
          simp [hb, hb']
    · have ha' : isDigit a = false := by
        cases h : isDigit a with
        | false => rfl
        | true => exact absurd ((isDigit_iff a).mp h) ha
      simp [ha, ha']

theorem parseEscape_ne_panic (rest : List UInt8) : parseEscape rest ≠ .panic := by
  unfold parseEscape
  split <;> (try split) <;> (try split) <;> (try split) <;> (try split) <;> (try simp)
  all_goals (split <;> simp)

theorem tokenize_dot (t : List UInt8) : tokenize (46 :: t) = (tokenize t).map (Tok.dot :: ·) := by
  rw [tokenize.eq_def]; simp

theorem tokenize_plain (a : UInt8) (t : List UInt8) (h1 : a ≠ 92) (h2 : a ≠ 46) :
    tokenize (a :: t) = if a.toNat < 128 then (tokenize t).map (Tok.oct a :: ·) else none := by
  rw [tokenize.eq_def]; simp [h1, h2]

theorem fromStrLoop_iff (b : Builder) (s : Text) (r : Built) :
    fromStrLoop b s = .ok r ↔ ∃ toks, tokenize s = some toks ∧ runToks b toks = .ok r := by
  fun_induction fromStrLoop b s
  case case1 b => simp [tokenize, runToks]
  case case2 b rest value consumed hpe b' hpush ih =>
    rw [tokenize_bs, hpe]
    simp only [ih, Option.map_eq_some_iff]
    constructor
    · intro ⟨toks, ht, hr⟩
      exact ⟨_, ⟨toks, ht, rfl⟩, by simp [runToks, hpush, hr]⟩
    · intro ⟨toks, ⟨ts, ht, e⟩, hr⟩
      subst e
      simp only [runToks, hpush] at hr
      exact ⟨ts, ht, hr⟩
  case case3 b rest value consumed hpe fst e hpush =>
    rw [tokenize_bs, hpe]
    simp only [Option.map_eq_some_iff, reduceCtorEq, false_iff, not_exists, not_and]
    intro toks ⟨ts, ht, e⟩ hr
    subst e
    simp [runToks, hpush] at hr
  case case4 b rest value consumed hpe fst hpush =>
    rw [tokenize_bs, hpe]
    simp only [Option.map_eq_some_iff, reduceCtorEq, false_iff, not_exists, not_and]
    intro toks ⟨ts, ht, e⟩ hr
    subst e
    simp [runToks, hpush] at hr
  case case5 b rest e hpe => rw [tokenize_bs, hpe]; simp
  case case6 b rest hpe => rw [tokenize_bs, hpe]; simp
  case case7 b rest b' hnl _ ih =>
    rw [tokenize_dot]
    simp only [ih, Option.map_eq_some_iff]
    constructor
    · intro ⟨toks, ht, hr⟩
      exact ⟨_, ⟨toks, ht, rfl⟩, by simp [runToks, hnl, hr]⟩
    · intro ⟨toks, ⟨ts, ht, e⟩, hr⟩
      subst e
      simp only [runToks, hnl] at hr
      exact ⟨ts, ht, hr⟩
  case case8 b rest fst e hnl _ =>
    rw [tokenize_dot]
    simp only [Option.map_eq_some_iff, reduceCtorEq, false_iff, not_exists, not_and]
    intro toks ⟨ts, ht, e⟩ hr
    subst e
    simp [runToks, hnl] at hr
  case case9 b rest fst hnl _ =>
    rw [tokenize_dot]
    simp only [Option.map_eq_some_iff, reduceCtorEq, false_iff, not_exists, not_and]
    intro toks ⟨ts, ht, e⟩ hr
    subst e
    simp [runToks, hnl] at hr
  case case10 b a rest h1 h2 h3 =>
    rw [tokenize_plain a rest h1 h2, if_neg (by omega)]; simp
  case case11 b a rest h1 h2 h3 b' hpush ih =>
    rw [tokenize_plain a rest h1 h2, if_pos (by omega)]
    simp only [ih, Option.map_eq_some_iff]
    constructor
    · intro ⟨toks, ht, hr⟩
      exact ⟨_, ⟨toks, ht, rfl⟩, by simp [runToks, hpush, hr]⟩
    · intro ⟨toks, ⟨ts, ht, e⟩, hr⟩
      subst e
      simp only [runToks, hpush] at hr
      exact ⟨ts, ht, hr⟩
  case case12 b a rest h1 h2 h3 fst e hpush =>
    rw [tokenize_plain a rest h1 h2, if_pos (by omega)]
    simp only [Option.map_eq_some_iff, reduceCtorEq, false_iff, not_exists, not_and]
    intro toks ⟨ts, ht, e⟩ hr
    subst e
    simp [runToks, hpush] at hr
  case case13 b a rest h1 h2 h3 fst hpush =>
    rw [tokenize_plain a rest h1 h2, if_pos (by omega)]
    simp only [Option.map_eq_some_iff, reduceCtorEq, false_iff, not_exists, not_and]
    intro toks ⟨ts, ht, e⟩ hr
    subst e
    simp [runToks, hpush] at hr



/-! ### every builder step keeps the invariant or fails atomically; nothing panics -/

theorem tryPush_cases (done : DName) (cur : Label) (hinv : InvDC done cur) (o : UInt8) :
    ((stateOf done cur).tryPush o = (stateOf done (cur ++ [o]), .ok ()) ∧ InvDC done (cur ++ [o])) ∨
    (∃ e, (stateOf done cur).tryPush o = (stateOf done cur, .err e)) := by
  rw [tryPush_stateOf]
  by_cases h63 : cur.length ≥ 63
  · right; exact ⟨.LabelTooLong, by simp [h63]⟩
  · by_cases hsz : (body done).length + 1 + cur.length < 255
    · left; simp only [h63, hsz, ↓reduceIte, true_and]
      exact ⟨hinv.ok, by simp; omega, by simp; omega⟩
    · right; exact ⟨.NameTooLong, by simp [h63, hsz]⟩

theorem nextLabel_cases (done : DName) (cur : Label) (hinv : InvDC done cur) :
    ((stateOf done cur).nextLabel = (stateOf (done ++ [cur]) [], .ok ()) ∧ InvDC (done ++ [cur]) [] ∧ cur ≠ []) ∨
    (∃ e, (stateOf done cur).nextLabel = (stateOf done cur, .err e)) := by
  rw [nextLabel_stateOf done cur hinv]
  by_cases hc : cur = []
  · right; exact ⟨.NullNonTerminal, by simp [hc]⟩
  · have hpos : 0 < cur.length := List.length_pos_iff.mpr hc
    by_cases hsz : (body done).length + 1 + cur.length ≥ 255
    · right; exact ⟨.NameTooLong, by simp [hc, hsz]⟩
    · left; simp only [hc, hsz, ↓reduceIte, true_and]
      refine ⟨⟨LabelsOK_append.mpr ⟨hinv.ok, ?_⟩, by simp, by simp; omega⟩, hc⟩
      intro l hl; simp at hl; subst hl; exact ⟨hpos, hinv.cl⟩

theorem fromStrLoop_no_panic (b : Builder) (s : Text) (done : DName) (cur : Label) (hinv : InvDC done cur)
    (hb : b = stateOf done cur) : fromStrLoop b s ≠ .panic := by
  fun_induction fromStrLoop b s generalizing done cur
  case case1 b => subst hb; rw [finish_stateOf]; split <;> simp
  case case2 b rest value consumed hpe b' hpush ih =>
    subst hb
    rcases tryPush_cases done cur hinv value with ⟨h, hi⟩ | ⟨e, h⟩
    · rw [h] at hpush; cases hpush; exact ih done _ hi rfl
    · rw [h] at hpush; cases hpush
  case case3 => simp
  case case4 b rest value consumed hpe fst hpush =>
    subst hb
    rcases tryPush_cases done cur hinv value with ⟨h, hi⟩ | ⟨e, h⟩ <;> (rw [h] at hpush; cases hpush)
  case case5 => simp
  case case6 b rest hpe => exact absurd hpe (parseEscape_ne_panic rest)
  case case7 b rest b' hnl _ ih =>
    subst hb
    rcases nextLabel_cases done cur hinv with ⟨h, hi, _⟩ | ⟨e, h⟩
    · rw [h] at hnl; cases hnl; exact ih _ _ hi rfl
    · rw [h] at hnl; cases hnl
  case case8 => simp
  case case9 b rest fst hnl _ =>
    subst hb
    rcases nextLabel_cases done cur hinv with ⟨h, hi, _⟩ | ⟨e, h⟩ <;> (rw [h] at hnl; cases hnl)
  case case10 => simp
  case case11 b a rest h1 h2 h3 b' hpush ih =>
    subst hb
    rcases tryPush_cases done cur hinv a with ⟨h, hi⟩ | ⟨e, h⟩
    · rw [h] at hpush; cases hpush; exact ih done _ hi rfl
    · rw [h] at hpush; cases hpush
  case case12 => simp
  case case13 b a rest h1 h2 h3 fst hpush =>
    subst hb
    rcases tryPush_cases done cur hinv a with ⟨h, hi⟩ | ⟨e, h⟩ <;> (rw [h] at hpush; cases hpush)

theorem invDC_nil : InvDC [] [] := ⟨(by intro l hl; simp at hl), (by simp), (by simp)⟩

theorem fromStr_no_panic (s : Text) : fromStr s ≠ .panic := by
  unfold fromStr
  split
  · simp
  · split
    · simp
    · exact fromStrLoop_no_panic _ s [] [] invDC_nil new_eq

/-- **acceptance**: the text parser accepts exactly the texts that (per the spec's tokenizer and
    grouping) denote a valid name, and returns its wire form and offset table -/
theorem fromStr_iff (s : Text) (r : Built) :
    fromStr s = .ok r ↔ ∃ n, parseText s = some n ∧ ValidName n ∧ r = ⟨toWire n, offsetsList n⟩ := by
  unfold fromStr parseText
  by_cases h0 : s = []
  · subst h0; simp
  · have : s.isEmpty = false := by cases s <;> simp at h0 ⊢
    simp only [this, Bool.false_eq_true, ↓reduceIte]
    by_cases h1 : s = [46]
    · subst h1
      simp only [↓reduceIte, Out.ok.injEq, Option.some.injEq]
      constructor
      · intro e; subst e
        exact ⟨[], rfl, ⟨(by intro l hl; simp at hl), (by simp [wireLength])⟩, (by simp [toWire, offsetsList])⟩
      · intro ⟨n, hn, _, hr⟩; subst hn; simp [toWire, offsetsList] at hr; exact hr.symm
    · simp only [h1, ↓reduceIte]
      rw [new_eq, fromStrLoop_iff]
      constructor
      · intro ⟨toks, ht, hr⟩
        obtain ⟨n, hn, hv, hr⟩ := (runToks_iff toks [] [] invDC_nil r).mp hr
        exact ⟨n, by simp [ht, hn], by simpa using hv, by simpa using hr⟩
      · intro ⟨n, hn, hv, hr⟩
        simp only [Option.bind_eq_some_iff] at hn
        obtain ⟨toks, ht, hg⟩ := hn
        exact ⟨toks, ht, (runToks_iff toks [] [] invDC_nil r).mpr ⟨n, hg, by simpa using hv, by simpa using hr⟩⟩



/-! ### the declarative grammar `Denotes` = the executable `parseText` -/

def flatten (n : DName) : List Tok := n.flatMap (fun l => l.map Tok.oct ++ [Tok.dot])

theorem labelText_tokenize {t : List UInt8} {l : Label} (h : LabelText t l) (rest : List UInt8) :
    tokenize (t ++ rest) = (tokenize rest).map (l.map Tok.oct ++ ·) := by
  induction h with
  | nil => simp
  | plain hdot hbs hascii r ih =>
    rw [List.cons_append, tokenize_plain _ _ hbs hdot, if_pos hascii, ih]
    cases tokenize rest <;> simp
  | quoted hnd r ih =>
    rename_i c t l
    rw [List.cons_append, tokenize_bs]
    have hd : isDigit c = false := by
      cases h : isDigit c with
      | false => rfl
      | true => exact absurd ((isDigit_iff c).mp h) hnd
    simp only [List.cons_append, parseEscape, hd, Bool.false_eq_true, ↓reduceIte, List.drop_succ_cons, List.drop_zero]
    rw [ih]
    cases tokenize rest <;> simp
  | decimal ha hb hc hv r ih =>
    rename_i a b c t l
    rw [List.cons_append, tokenize_bs]
    have ha' := (isDigit_iff a).mpr ha
    have hb' := (isDigit_iff b).mpr hb
    have hc' := (isDigit_iff c).mpr hc
    have hv' : ¬ (100 * (a.toNat - 48) + 10 * (b.toNat - 48) + (c.toNat - 48) > 255) := by
      unfold dddValue at hv; omega
    simp only [List.cons_append, parseEscape, ha', hb', hc', ↓reduceIte, Bool.not_true, Bool.or_self,
      Bool.false_eq_true, hv', List.drop_succ_cons, List.drop_zero]
    rw [ih]
    cases tokenize rest <;> simp [dddValue]

theorem groupLabels_octs (l : Label) (ts : List Tok) (cur : Label) :
    groupLabels (l.map Tok.oct ++ ts) cur = groupLabels ts (cur ++ l) := by
  induction l generalizing cur with
  | nil => simp
  | cons v l ih => simp [groupLabels, ih]

theorem groupLabels_flatten (n : DName) (h : ∀ l ∈ n, l ≠ []) : groupLabels (flatten n) [] = some n := by
  induction n with
  | nil => simp [flatten, groupLabels]
  | cons l n ih =>
    have hl := h l (by simp)
    have : flatten (l :: n) = l.map Tok.oct ++ (Tok.dot :: flatten n) := by simp [flatten]
    rw [this, groupLabels_octs, List.nil_append, groupLabels]
    simp [hl, ih (fun x hx => h x (List.mem_cons_of_mem _ hx))]

theorem denotes_nonempty {s : List UInt8} {n : DName} (h : Denotes s n) : ∀ l ∈ n, l ≠ [] := by
  induction h with
  | root => intro l hl; simp at hl
  | last ht hne => intro l hl; simp at hl; subst hl; exact hne
  | cons ht hne r hn ih =>
    intro l hl; simp at hl
    rcases hl with hl | hl
    · subst hl; exact hne
    · exact ih l hl

theorem denotes_tokenize {s : List UInt8} {n : DName} (h : Denotes s n) (hn : n ≠ []) :
    tokenize s = some (flatten n) := by
  induction h with
  | root => exact absurd rfl hn
  | last ht hne =>
    rw [labelText_tokenize ht]
    simp [tokenize_dot, tokenize, flatten]
  | cons ht hne r hn' ih =>
    rw [labelText_tokenize ht, tokenize_dot, ih hn']
    simp [flatten]

theorem flatten_length_ge (n : DName) (hn : n ≠ []) (h : ∀ l ∈ n, l ≠ []) : 2 ≤ (flatten n).length := by
  cases n with
  | nil => exact absurd rfl hn
  | cons l n =>
    have := List.length_pos_iff.mpr (h l (by simp))
    simp [flatten]; omega

theorem denotes_parseText {s : List UInt8} {n : DName} (h : Denotes s n) : parseText s = some n := by
  by_cases hn : n = []
  · subst hn; cases h; simp [parseText]
  · have ht := denotes_tokenize h hn
    have hne := denotes_nonempty h
    have hlen := flatten_length_ge n hn hne
    unfold parseText
    have h0 : s ≠ [] := by
      intro e; subst e; rw [tokenize.eq_def] at ht; simp at ht; rw [ht] at hlen; simp at hlen
    have h1 : s ≠ [46] := by
      intro e; subst e; rw [tokenize_dot, tokenize.eq_def] at ht; simp at ht; rw [← ht] at hlen; simp at hlen
    have : s.isEmpty = false := by cases s <;> simp at h0 ⊢
    simp [this, h1, ht, groupLabels_flatten n hne]



theorem tokenize_eq_nil {s : List UInt8} (h : tokenize s = some []) : s = [] := by
  cases s with
  | nil => rfl
  | cons c t =>
    exfalso
    by_cases h1 : c = 92
    · subst h1; rw [tokenize_bs] at h
      split at h
      · simp at h
      · simp at h
    · by_cases h2 : c = 46
      · subst h2; rw [tokenize_dot] at h; simp at h
      · rw [tokenize_plain c t h1 h2] at h; split at h <;> simp at h

/-- first token a separator: the text starts with a dot -/
theorem tokenize_dot_inv {s : List UInt8} {rest : List Tok} (h : tokenize s = some (Tok.dot :: rest)) :
    ∃ s', s = 46 :: s' ∧ tokenize s' = some rest := by
  cases s with
  | nil => rw [tokenize.eq_def] at h; simp at h
  | cons c t =>
    by_cases h1 : c = 92
    · subst h1; rw [tokenize_bs] at h
      split at h
      · simp at h
      · simp at h
    · by_cases h2 : c = 46
      · subst h2; rw [tokenize_dot] at h
        simp only [Option.map_eq_some_iff, List.cons.injEq, true_and] at h
        obtain ⟨ts, ht, e⟩ := h
        exact ⟨t, rfl, by rw [ht, e]⟩
      · rw [tokenize_plain c t h1 h2] at h; split at h <;> simp at h

/-- first token an octet: the text starts with one character (plain, `\X` or `\DDD`) for it -/
theorem tokenize_oct_inv {s : List UInt8} {v : UInt8} {rest : List Tok}
    (h : tokenize s = some (Tok.oct v :: rest)) :
    ∃ chunk s', s = chunk ++ s' ∧ tokenize s' = some rest ∧
      ∀ t l, LabelText t l → LabelText (chunk ++ t) (v :: l) := by
  cases s with
  | nil => rw [tokenize.eq_def] at h; simp at h
  | cons c t =>
    by_cases h1 : c = 92
    · subst h1
      rw [tokenize_bs] at h
      cases t with
      | nil => simp [parseEscape] at h
      | cons a t1 =>
        by_cases ha : isDigit a = true
        · match t1, h with
          | [], h => simp [parseEscape, ha] at h
          | [_], h => simp [parseEscape, ha] at h
          | b :: d :: t2, h =>
            simp only [parseEscape, ha, ↓reduceIte] at h
            by_cases hbd : (!isDigit b || !isDigit d) = true
            · simp [hbd] at h
            · simp only [hbd, Bool.false_eq_true, ↓reduceIte] at h
              by_cases hv : 100 * (a.toNat - 48) + 10 * (b.toNat - 48) + (d.toNat - 48) > 255
              · simp [hv] at h
              · simp only [hv, ↓reduceIte, List.drop_succ_cons, List.drop_zero, Option.map_eq_some_iff,
                  List.cons.injEq, Tok.oct.injEq] at h
                obtain ⟨ts, ht, hv', e⟩ := h
                simp only [Bool.or_eq_true, Bool.not_eq_eq_eq_not, Bool.not_true, not_or,
                  Bool.not_eq_false] at hbd
                refine ⟨[92, a, b, d], t2, rfl, by rw [ht, e], ?_⟩
                intro t l hl
                have := LabelText.decimal ((isDigit_iff a).mp ha) ((isDigit_iff b).mp hbd.1)
                  ((isDigit_iff d).mp hbd.2) (by unfold dddValue; omega) hl
                unfold dddValue at this
                rw [hv'] at this
                exact this
        · simp only [parseEscape, ha, Bool.false_eq_true, ↓reduceIte, List.drop_succ_cons, List.drop_zero,
            Option.map_eq_some_iff, List.cons.injEq, Tok.oct.injEq] at h
          obtain ⟨ts, ht, hv', e⟩ := h
          subst hv'
          refine ⟨[92, a], t1, rfl, by rw [ht, e], ?_⟩
          intro t l hl
          exact LabelText.quoted (fun hd => ha ((isDigit_iff a).mpr hd)) hl
    · by_cases h2 : c = 46
      · subst h2; rw [tokenize_dot] at h; simp at h
      · rw [tokenize_plain c t h1 h2] at h
        split at h
        · rename_i hascii
          simp only [Option.map_eq_some_iff, List.cons.injEq, Tok.oct.injEq] at h
          obtain ⟨ts, ht, hv', e⟩ := h
          subst hv'
          refine ⟨[c], t, rfl, by rw [ht, e], ?_⟩
          intro t' l hl
          exact LabelText.plain h2 h1 hascii hl
        · simp at h

/-- a label's tokens followed by a separator: the text splits accordingly -/
theorem tokenize_label_inv (l : Label) {s : List UInt8} {rest : List Tok}
    (h : tokenize s = some (l.map Tok.oct ++ Tok.dot :: rest)) :
    ∃ t s', s = t ++ 46 :: s' ∧ LabelText t l ∧ tokenize s' = some rest := by
  induction l generalizing s with
  | nil =>
    obtain ⟨s', rfl, hs'⟩ := tokenize_dot_inv (by simpa using h)
    exact ⟨[], s', rfl, .nil, hs'⟩
  | cons v l ih =>
    obtain ⟨chunk, s1, rfl, hs1, hlt⟩ := tokenize_oct_inv (by simpa using h)
    obtain ⟨t, s', rfl, hl, hs'⟩ := ih hs1
    exact ⟨chunk ++ t, s', by simp, hlt t l hl, hs'⟩

theorem groupLabels_flatten_inv {toks : List Tok} {cur : Label} {n : DName}
    (h : groupLabels toks cur = some n) :
    cur.map Tok.oct ++ toks = flatten n ∧ (∀ l ∈ n, l ≠ []) ∧ (cur ≠ [] → n ≠ []) := by
  induction toks generalizing cur n with
  | nil =>
    by_cases hc : cur = []
    · subst hc; simp [groupLabels] at h; subst h; simp [flatten]
    · simp [groupLabels, hc] at h
  | cons t ts ih =>
    cases t with
    | dot =>
      by_cases hc : cur = []
      · simp [groupLabels, hc] at h
      · simp only [groupLabels, List.isEmpty_iff, hc, ↓reduceIte, Option.map_eq_some_iff] at h
        obtain ⟨n', hn', rfl⟩ := h
        obtain ⟨h1, h2, _⟩ := ih hn'
        simp only [List.map_nil, List.nil_append] at h1
        refine ⟨by simp [flatten, h1], ?_, by simp⟩
        intro l hl; simp at hl
        rcases hl with hl | hl
        · subst hl; exact hc
        · exact h2 l hl
    | oct v =>
      simp only [groupLabels] at h
      obtain ⟨h1, h2, h3⟩ := ih h
      exact ⟨by simpa using h1, h2, fun _ => h3 (by simp)⟩

theorem flatten_denotes (n : DName) (hn : n ≠ []) (hne : ∀ l ∈ n, l ≠ []) (s : List UInt8)
    (h : tokenize s = some (flatten n)) : Denotes s n := by
  induction n generalizing s with
  | nil => exact absurd rfl hn
  | cons l n ih =>
    have hfl : flatten (l :: n) = l.map Tok.oct ++ Tok.dot :: flatten n := by simp [flatten]
    rw [hfl] at h
    obtain ⟨t, s', rfl, hl, hs'⟩ := tokenize_label_inv l h
    have hlne := hne l (by simp)
    by_cases hn' : n = []
    · subst hn'
      have : s' = [] := tokenize_eq_nil (by simpa [flatten] using hs')
      subst this
      exact Denotes.last hl hlne
    · exact Denotes.cons hl hlne (ih hn' (fun x hx => hne x (List.mem_cons_of_mem _ hx)) s' hs') hn'

theorem parseText_denotes {s : List UInt8} {n : DName} (h : parseText s = some n) : Denotes s n := by
  unfold parseText at h
  by_cases h0 : s.isEmpty = true
  · simp [h0] at h
  · simp only [h0, Bool.false_eq_true, ↓reduceIte] at h
    by_cases h1 : s = [46]
    · subst h1; simp at h; subst h; exact Denotes.root
    · simp only [h1, ↓reduceIte, Option.bind_eq_some_iff] at h
      obtain ⟨toks, ht, hg⟩ := h
      obtain ⟨hfl, hne, _⟩ := groupLabels_flatten_inv hg
      simp only [List.map_nil, List.nil_append] at hfl
      subst hfl
      have hn : n ≠ [] := by
        intro e; subst e
        have := tokenize_eq_nil (by simpa [flatten] using ht)
        subst this; simp at h0
      exact flatten_denotes n hn hne s ht

/-- the grammar and the executable parser agree -/
theorem denotes_iff_parseText (s : List UInt8) (n : DName) : Denotes s n ↔ parseText s = some n :=
  ⟨denotes_parseText, parseText_denotes⟩



/-! ### Display produces a text that denotes the name -/

theorem ofNat_digit (x : Nat) (h : x < 10) : (UInt8.ofNat (48 + x)).toNat = 48 + x := by
  simp [UInt8.toNat_ofNat']; omega

theorem escapeOctet_labelText (b : UInt8) {t : List UInt8} {l : Label} (h : LabelText t l) :
    LabelText (escapeOctet b ++ t) (b :: l) := by
  unfold escapeOctet
  by_cases h1 : b = 46
  · subst h1; simp only [↓reduceIte]
    exact LabelText.quoted (by decide) h
  · by_cases h2 : b = 92
    · subst h2; simp only [h1, ↓reduceIte]
      exact LabelText.quoted (by decide) h
    · simp only [h1, h2, ↓reduceIte]
      by_cases hg : isGraphic b = true
      · simp only [hg, ↓reduceIte]
        refine LabelText.plain h1 h2 ?_ h
        simp [isGraphic] at hg; omega
      · simp only [hg, Bool.false_eq_true, ↓reduceIte, escDecimal]
        have hb := b.toNat_lt
        have d1 := ofNat_digit (b.toNat / 100) (by omega)
        have d2 := ofNat_digit (b.toNat / 10 % 10) (by omega)
        have d3 := ofNat_digit (b.toNat % 10) (by omega)
        have hv : dddValue (UInt8.ofNat (48 + b.toNat / 100)) (UInt8.ofNat (48 + b.toNat / 10 % 10))
            (UInt8.ofNat (48 + b.toNat % 10)) = b.toNat := by
          unfold dddValue; rw [d1, d2, d3]; omega
        have := LabelText.decimal (a := UInt8.ofNat (48 + b.toNat / 100))
          (b := UInt8.ofNat (48 + b.toNat / 10 % 10)) (c := UInt8.ofNat (48 + b.toNat % 10))
          (by unfold IsDigit; omega) (by unfold IsDigit; omega) (by unfold IsDigit; omega)
          (by rw [hv]; omega) h
        rw [hv] at this
        simpa using this

theorem displayLabel_labelText (l : Label) : LabelText (displayLabel l) l := by
  induction l with
  | nil => exact .nil
  | cons b l ih =>
    have : displayLabel (b :: l) = escapeOctet b ++ displayLabel l := by simp [displayLabel]
    rw [this]; exact escapeOctet_labelText b ih

/-- what `Display for Name` prints for the name with labels `n` -/
def textOf (n : DName) : Text :=
  if n = [] then [46] else n.flatMap (fun l => displayLabel l ++ [46])

theorem display_fold (a : Label) (rest : List Label) :
    displayLabel a ++ (rest ++ [[]]).flatMap (fun l => 46 :: displayLabel l) =
      (a :: rest).flatMap (fun l => displayLabel l ++ [46]) := by
  induction rest generalizing a with
  | nil => simp [displayLabel]
  | cons b rest ih =>
    have := ih b
    simp only [List.cons_append, List.flatMap_cons, List.append_assoc] at this ⊢
    rw [this]; simp

theorem displayName_toWire (n : DName) (h : LabelsOK n) : displayName (toWire n) = .ok (textOf n) := by
  unfold displayName textOf
  rw [nLabels_toWire n h, labelsOf_toWire n h]
  cases n with
  | nil => simp
  | cons l n =>
    have : ¬ ((l :: n).length + 1 ≤ 1) := by simp
    simp only [this, ↓reduceIte, List.cons_append, reduceCtorEq]
    rw [display_fold]

theorem textOf_denotes (n : DName) (h : LabelsOK n) : Denotes (textOf n) n := by
  induction n with
  | nil => exact Denotes.root
  | cons l n ih =>
    have hl : l ≠ [] := by
      have := (h l (by simp)).1
      intro e; subst e; simp at this
    by_cases hn : n = []
    · subst hn
      simp only [textOf, reduceCtorEq, ↓reduceIte, List.flatMap_cons, List.flatMap_nil, List.append_nil]
      exact Denotes.last (displayLabel_labelText l) hl
    · have := ih h.tail
      simp only [textOf, hn, ↓reduceIte] at this
      simp only [textOf, reduceCtorEq, ↓reduceIte, List.flatMap_cons, List.append_assoc, List.singleton_append]
      exact Denotes.cons (displayLabel_labelText l) hl this hn

/-- **headline**: rendering a valid name and parsing the text back yields the identical wire form
    (and offset table) -/
theorem fromStr_textOf (n : DName) (h : ValidName n) :
    fromStr (textOf n) = .ok ⟨toWire n, offsetsList n⟩ :=
  (fromStr_iff _ _).mpr ⟨n, denotes_parseText (textOf_denotes n h.1), h, rfl⟩

end QV.Name
