/-
  QV.Proofs.WriterThread — threading "the two writers agree below the cursor" through the writes
  of `add_rr` / `add_rrset`: the second writer is the first with other octets (`wo s o`), the
  octets agree below the cursor except inside a reserved two-octet hole (`Rl`), and every routine
  has the same outcome on both and leaves them related (`Cg`). The only read of octets is
  `compressDecision` (`QV.Proofs.WriterScratch`).
-/
import QV.Proofs.WriterScratch
import QV.Proofs.WriterRdPos

namespace QV.Writer
open QV QV.Wire QV.ServerSafety

/-- the writer `s` with other octets -/
def wo (s : State) (o : Bytes) : State := { s with octets := o }

/-- `i` is not one of the two reserved RDLENGTH octets at `x` -/
def Outside (a : Option Nat) (i : Nat) : Prop := ∀ x, a = some x → i < x ∨ x + 2 ≤ i

/-- the other octets agree with the writer's below the cursor, outside the hole -/
structure Rl (a : Option Nat) (s : State) (o : Bytes) : Prop where
  size : o.size = s.octets.size
  pre : ∀ i, i < s.cursor → Outside a i → o[i]? = s.octets[i]?

/-- `f` does the same on both writers (when the precondition `P` holds of the first) -/
def Cg {α} (a a' : Option Nat) (P : State → Prop) (f : M α) : Prop :=
  ∀ s o, P s → Rl a s o → ∃ o', f (wo s o) = ((f s).1, wo (f s).2 o') ∧ Rl a' (f s).2 o'

theorem cg_mono {α} {a a' : Option Nat} {P P' : State → Prop} {f : M α} (h : Cg a a' P f)
    (hp : ∀ s, P' s → P s) : Cg a a' P' f := fun s o hs hr => h s o (hp s hs) hr

theorem cg_bind {α β} {a : Option Nat} {P : State → Prop} {Q : α → State → Prop} {f : M α} {g : α → M β}
    (hf : Cg a a P f) (hpres : ∀ s x s1, P s → f s = (.ok x, s1) → Q x s1) (hg : ∀ x, Cg a a (Q x) (g x)) :
    Cg a a P (f >>= g) := by
  intro s o hs hr
  obtain ⟨o1, e1, r1⟩ := hf s o hs hr
  simp only [M.bind_apply, e1]
  cases hfs : f s with
  | mk r s1 =>
    rw [hfs] at r1
    cases r with
    | ok x =>
      simp only []
      exact hg x s1 o1 (hpres s x s1 hs hfs) r1
    | err e => exact ⟨o1, rfl, r1⟩
    | panic => exact ⟨o1, rfl, r1⟩

/-- `bind` when nothing is needed of the intermediate state -/
theorem cg_bind' {α β} {a : Option Nat} {P : State → Prop} {f : M α} {g : α → M β}
    (hf : Cg a a P f) (hg : ∀ x, Cg a a (fun _ => True) (g x)) : Cg a a P (f >>= g) :=
  cg_bind (Q := fun _ _ => True) hf (fun _ _ _ _ _ => trivial) hg

theorem cg_pure {α} (a : Option Nat) (P : State → Prop) (x : α) : Cg a a P (pure x : M α) :=
  fun s o _ hr => ⟨o, rfl, hr⟩

theorem cg_fail {α} (a : Option Nat) (P : State → Prop) (e : WriterErr) : Cg a a P (M.fail e : M α) :=
  fun s o _ hr => ⟨o, rfl, hr⟩

theorem cg_panic {α} (a : Option Nat) (P : State → Prop) : Cg a a P (M.panic : M α) :=
  fun s o _ hr => ⟨o, rfl, hr⟩

theorem cg_gets {α} (a : Option Nat) (P : State → Prop) (φ : State → α) (hφ : ∀ s o, φ (wo s o) = φ s) :
    Cg a a P (M.gets φ) := fun s o _ hr => ⟨o, by simp only [M.gets_apply, hφ], hr⟩

/-- a field update that neither reads nor moves the octets and the cursor -/
theorem cg_modify (a : Option Nat) (P : State → Prop) (u : State → State)
    (hu : ∀ s o, u (wo s o) = wo (u s) o) (hc : ∀ s, (u s).cursor = s.cursor) (ho : ∀ s, (u s).octets = s.octets) :
    Cg a a P (M.modify u) := by
  intro s o _ hr
  refine ⟨o, by simp only [M.modify_apply, hu], ?_⟩
  simp only [M.modify_apply]
  exact ⟨by rw [ho]; exact hr.size, fun i hi ho' => by rw [ho]; exact hr.pre i (by rw [← hc]; exact hi) ho'⟩

theorem cg_tryPush (a : Option Nat) (P : State → Prop) (d : List UInt8) : Cg a a P (tryPush d) := by
  intro s o _ hr
  unfold tryPush
  show ∃ o', (if (wo s o).available < (wo s o).cursor then _ else _) = _ ∧ _
  have e1 : (wo s o).available = s.available := rfl
  have e2 : (wo s o).cursor = s.cursor := rfl
  have e3 : (wo s o).octets.size = s.octets.size := hr.size
  simp only [e1, e2, e3]
  by_cases h1 : s.available < s.cursor
  · simp only [if_pos h1]; exact ⟨o, rfl, hr⟩
  · simp only [if_neg h1]
    by_cases h2 : s.available - s.cursor ≥ d.length
    · simp only [if_pos h2]
      by_cases h3 : s.cursor + d.length ≤ s.octets.size
      · simp only [if_pos h3]
        refine ⟨writeAt o s.cursor d, rfl, by simp [hr.size], fun i hi ho' => ?_⟩
        show (writeAt o s.cursor d)[i]? = (writeAt s.octets s.cursor d)[i]?
        by_cases hlt : i < s.cursor
        · rw [writeAt_get_lt _ _ _ _ hlt, writeAt_get_lt _ _ _ _ hlt]; exact hr.pre i hlt ho'
        · have hi' : i < s.cursor + d.length := hi
          have := writeAt_get_in o s.cursor d (i - s.cursor) (by omega) (by rw [hr.size]; exact h3)
          have := writeAt_get_in s.octets s.cursor d (i - s.cursor) (by omega) h3
          rw [show s.cursor + (i - s.cursor) = i by omega] at *
          simp_all
      · simp only [if_neg h3]; exact ⟨o, rfl, hr⟩
    · simp only [if_neg h2]; exact ⟨o, rfl, hr⟩

theorem cg_ite {α} {a : Option Nat} {P : State → Prop} {c : Prop} [Decidable c] {A B : M α}
    (hA : Cg a a P A) (hB : Cg a a P B) : Cg a a P (if c then A else B) := by
  by_cases h : c
  · rw [if_pos h]; exact hA
  · rw [if_neg h]; exact hB

theorem cg_true {α} {a : Option Nat} {P : State → Prop} {f : M α} (h : Cg a a (fun _ => True) f) : Cg a a P f :=
  cg_mono h (fun _ _ => trivial)

/-! ### the primitives of the name writers -/

theorem cg_setCtx (a : Option Nat) (P : State → Prop) (c : NameCtx) : Cg a a P (setCtx c) :=
  cg_modify a P _ (fun _ _ => rfl) (fun _ => rfl) (fun _ => rfl)

theorem cg_ghostLabels (a : Option Nat) (P : State → Prop) (pos : Nat) (ls : List Label) (r : Bool) :
    Cg a a P (ghostLabels pos ls r) :=
  cg_modify a P _ (fun _ _ => rfl) (fun _ => rfl) (fun _ => rfl)

theorem cg_hvPush (a : Option Nat) (P : State → Prop) (p : Option Nat) : Cg a a P (hvPush p) := by
  refine cg_modify a P _ (fun s o => ?_) (fun s => ?_) (fun s => ?_)
  · show (match (wo s o).hv with | some v => _ | none => _) = _
    have : (wo s o).hv = s.hv := rfl
    rw [this]
    cases s.hv with
    | none => rfl
    | some v => simp only []; split <;> rfl
  · cases h : s.hv with
    | none => simp only [h]
    | some v => simp only [h]; split <;> rfl
  · cases h : s.hv with
    | none => simp only [h]
    | some v => simp only [h]; split <;> rfl

theorem cg_pushPointer (a : Option Nat) (P : State → Prop) (p : Nat) : Cg a a P (pushPointer p) := by
  unfold pushPointer
  refine cg_bind' (cg_gets a P _ (fun _ _ => rfl)) (fun ev => ?_)
  refine cg_bind' (cg_tryPush a _ _) (fun _ => ?_)
  exact cg_modify a _ _ (fun _ _ => rfl) (fun _ => rfl) (fun _ => rfl)

theorem cg_writeUncompressedName (a : Option Nat) (P : State → Prop) (n : WName) :
    Cg a a P (writeUncompressedName n) := by
  unfold writeUncompressedName
  refine cg_bind' (cg_gets a P _ (fun _ _ => rfl)) (fun cur => ?_)
  refine cg_bind' (cg_tryPush a _ _) (fun _ => ?_)
  refine cg_bind' (cg_ghostLabels a _ _ _ _) (fun _ => ?_)
  exact cg_pure a _ _

/-- the compression scan takes the same decision on the other octets -/
def DecOK (a : Option Nat) (s : State) : Prop :=
  ∀ o n, Rl a s o →
    compressDecision o s.mode (s.mostRecentOwner.orElse fun _ => s.qname) s.mostRecentNameInRdata n =
      compressDecision s.octets s.mode (s.mostRecentOwner.orElse fun _ => s.qname) s.mostRecentNameInRdata n

theorem cg_writeCompressedUnhintedName (a : Option Nat) (n : WName) :
    Cg a a (DecOK a) (writeCompressedUnhintedName n) := by
  unfold writeCompressedUnhintedName
  have hdec : Cg a a (DecOK a) (M.gets fun s => compressDecision s.octets s.mode
      (s.mostRecentOwner.orElse fun _ => s.qname) s.mostRecentNameInRdata n) := by
    intro s o hs hr
    refine ⟨o, ?_, hr⟩
    simp only [M.gets_apply]
    have := hs o n hr
    show (Out.ok (compressDecision o s.mode (s.mostRecentOwner.orElse fun _ => s.qname)
      s.mostRecentNameInRdata n), wo s o) = _
    rw [this]
  refine cg_bind' hdec (fun d => ?_)
  refine cg_bind' (cg_gets a _ _ (fun _ _ => rfl)) (fun cur => ?_)
  cases d with
  | panic => exact cg_panic a _
  | err e => exact cg_panic a _
  | ok m =>
    cases m with
    | none => exact cg_writeUncompressedName a _ n
    | some m =>
      simp only []
      refine cg_ite ?_ ?_
      · exact cg_bind' (cg_pushPointer a _ _) (fun _ => cg_pure a _ _)
      · refine cg_bind' (cg_tryPush a _ _) (fun _ => ?_)
        refine cg_bind' (cg_ghostLabels a _ _ _ _) (fun _ => ?_)
        exact cg_bind' (cg_pushPointer a _ _) (fun _ => cg_pure a _ _)

theorem cg_writeUnhintedName (a : Option Nat) (n : WName) : Cg a a (DecOK a) (writeUnhintedName n) := by
  unfold writeUnhintedName
  refine cg_bind (Q := fun _ s => DecOK a s) (cg_gets a _ _ (fun _ _ => rfl)) ?_ (fun mode => ?_)
  · intro s x s1 hs h
    simp only [M.gets_apply, Prod.mk.injEq] at h
    rw [← h.2]; exact hs
  · exact cg_ite (cg_writeCompressedUnhintedName a n) (cg_writeUncompressedName a _ n)

theorem cg_pushHinted (a : Option Nat) (P : State → Prop) (q : Prior) : Cg a a P (pushHinted q) := by
  unfold pushHinted
  exact cg_bind' (cg_pushPointer a _ _) (fun _ => cg_pure a _ _)

theorem gets_pres {α} (φ : State → α) (P : State → Prop) : ∀ s x s1, P s → M.gets φ s = (.ok x, s1) → P s1 := by
  intro s x s1 hs h
  simp only [M.gets_apply, Prod.mk.injEq] at h
  rw [← h.2]; exact hs

theorem cg_writeHintedName (a : Option Nat) (hint : Hint) (n : WName) :
    Cg a a (DecOK a) (writeHintedName hint n) := by
  unfold writeHintedName
  refine cg_bind (Q := fun _ s => DecOK a s) (cg_gets a _ _ (fun _ _ => rfl)) (gets_pres _ _) (fun mode => ?_)
  refine cg_ite (cg_writeUncompressedName a _ n) (cg_ite (cg_writeCompressedUnhintedName a n) ?_)
  have hc := cg_writeCompressedUnhintedName a n
  cases hint with
  | qname =>
    refine cg_bind (Q := fun _ s => DecOK a s) (cg_gets a _ _ (fun _ _ => rfl)) (gets_pres _ _) (fun q => ?_)
    cases q with
    | none => exact hc
    | some q => exact cg_pushHinted a _ q
  | mostRecentOwner =>
    refine cg_bind (Q := fun _ s => DecOK a s) (cg_gets a _ _ (fun _ _ => rfl)) (gets_pres _ _) (fun q => ?_)
    cases q with
    | none => exact hc
    | some q => exact cg_pushHinted a _ q
  | mostRecentNameInRdata =>
    refine cg_bind (Q := fun _ s => DecOK a s) (cg_gets a _ _ (fun _ _ => rfl)) (gets_pres _ _) (fun q => ?_)
    cases q with
    | none => exact hc
    | some q => exact cg_pushHinted a _ q
  | explicit p =>
    refine cg_bind (Q := fun _ s => DecOK a s) (cg_gets a _ _ (fun _ _ => rfl)) (gets_pres _ _) (fun cur => ?_)
    exact cg_ite (cg_pushHinted a _ _) hc
  | none => exact hc

/-- a name block: context, the name, context off, the anchor, the hint vector -/
theorem cg_nameBlock (a : Option Nat) (c : NameCtx) (wr : M (Option Prior)) (hwr : Cg a a (DecOK a) wr)
    (upd : Option Prior → State → State) (hu : ∀ p s o, upd p (wo s o) = wo (upd p s) o)
    (hc : ∀ p s, (upd p s).cursor = s.cursor) (ho : ∀ p s, (upd p s).octets = s.octets)
    (tail : Option Prior → M Unit) (htail : ∀ p, Cg a a (fun _ => True) (tail p)) :
    Cg a a (DecOK a) (do setCtx c
                         let p ← wr
                         setCtx .none
                         M.modify (upd p)
                         tail p) := by
  refine cg_bind (Q := fun _ s => DecOK a s) (cg_setCtx a _ c) ?_ (fun _ => ?_)
  · intro s x s1 hs h
    simp only [setCtx, M.modify_apply, Prod.mk.injEq] at h
    rw [← h.2]
    exact fun o n hr => hs o n ⟨hr.size, hr.pre⟩
  · refine cg_bind' hwr (fun p => ?_)
    refine cg_bind' (cg_setCtx a _ _) (fun _ => ?_)
    refine cg_bind' (cg_modify a _ _ (hu p) (hc p) (ho p)) (fun _ => ?_)
    exact htail p

/-! ### the scan takes the same decision: from the invariant -/

theorem anchors_ok {s : State} (h : WInv s) :
    (∀ p, (s.mostRecentOwner.orElse fun _ => s.qname) = some p → PriorOK (GL s) s.octets s.cursor p) ∧
    (∀ p, s.mostRecentNameInRdata = some p → PriorOK (GL s) s.octets s.cursor p) := by
  refine ⟨fun p hp => ?_, fun p hp => (h.rd p hp).2.2⟩
  cases ho : s.mostRecentOwner with
  | some o => rw [ho] at hp; simp at hp; subst hp; exact (h.ow o ho).2.2
  | none => rw [ho] at hp; simp at hp; exact (h.qn p hp).2.2

theorem decOK_none {s : State} (h : WInv s) : DecOK none s := by
  intro o n hr
  obtain ⟨hA, hB⟩ := anchors_ok h
  exact compressDecision_congr hA hB (fun i hi => hr.pre i hi (fun x hx => by cases hx)) hr.size

/-- no recorded name overlaps the hole at `x`, and the names below it lie below it -/
def GapOK (x : Nat) (s : State) : Prop :=
  (∀ g ∈ s.gLabels, g < x ∨ x + 2 ≤ g) ∧ (∀ g ∈ s.gLabels, g < x → ∃ ls, NameAt (GL s) s.octets x g ls) ∧
  x + 2 ≤ s.cursor

theorem decOK_gap {s : State} {x : Nat} (h : WInv s) (hg : GapOK x s) : DecOK (some x) s := by
  intro o n hr
  obtain ⟨hA, hB⟩ := anchors_ok h
  exact compressDecision_congr_gap hA hB (fun g hgg hlt => hg.2.1 g hgg hlt) (fun g hgg => hg.1 g hgg)
    (fun i hi ho => hr.pre i hi (fun y hy => by cases hy; exact ho)) (by have := hg.2.2; omega) hr.size

theorem gapOK_ext {s s' : State} {x : Nat} (h : GapOK x s) (e : Ext s s') : GapOK x s' := by
  obtain ⟨h1, h2, h3⟩ := h
  have hcur := e.cur
  refine ⟨fun g hg => ?_, fun g hg hlt => ?_, by omega⟩
  · rcases e.gnew g hg with h | h
    · exact h1 g h
    · right; omega
  · rcases e.gnew g hg with h | h
    · obtain ⟨ls, hn⟩ := h2 g h hlt
      exact ⟨ls, nameAt_frame (lo := 0) hn (fun y hy => e.glab y hy) (fun _ _ => Nat.zero_le _)
        (fun i _ hi => e.pre i (by omega)) (Nat.le_refl _)⟩
    · omega

theorem gapOK_init {s : State} (h : WInv s) : GapOK s.cursor { s with cursor := s.cursor + 2 } := by
  refine ⟨fun g hg => ?_, fun g hg _ => ?_, Nat.le_refl _⟩
  · obtain ⟨ls, hl⟩ := h.labs g hg
    exact Or.inl (nameAt_start hl).2.1
  · obtain ⟨ls, hl⟩ := h.labs g hg
    exact ⟨ls, hl⟩

/-! ### the RDATA components -/

theorem cg_writeComponents {track : Prop} {s0 : State} (x : Nat) :
    ∀ (ts : List CompType) (rd : List UInt8) (names loc : List WName) (o : Option Prior) (on : Option WName),
      Cg (some x) (some x) (fun s => RecSt track s0 s names loc o on ∧ GapOK x s) (writeComponents ts rd) := by
  intro ts
  induction ts with
  | nil =>
    intro rd names loc o on
    unfold writeComponents
    split
    · exact cg_pure _ _ _
    · exact cg_tryPush _ _ _
  | cons c ts ih =>
    intro rd names loc o on
    cases c with
    | compressibleName =>
      unfold writeComponents
      cases hp : WName.parse rd with
      | none => exact cg_fail _ _ _
      | some pr =>
        obtain ⟨n, rest⟩ := pr
        simp only []
        rw [nameBlock_assoc]
        refine cg_bind (Q := fun _ s => RecSt track s0 s (names ++ [n]) (loc ++ [n]) o on ∧ GapOK x s) ?_ ?_
          (fun _ => ih rest _ _ _ _)
        · refine cg_mono (cg_nameBlock (some x) _ _ (cg_writeUnhintedName (some x) n)
            (fun p s => { s with mostRecentNameInRdata := p }) (fun _ _ _ => rfl) (fun _ _ => rfl) (fun _ _ => rfl)
            (fun p => hvPush (p.map (·.ptr))) (fun p => cg_hvPush _ _ _)) ?_
          exact fun s hs => decOK_gap hs.1.winv hs.2
        · intro s u s1 hs h1
          have r1 := ((sp_nameComp (track := track) (s0 := s0) (names := names) (loc := loc) (o := o) (on := on)
            (writeUnhintedName n) n _ (fun s hw => writeUnhintedName_spec n s hw (parse_wf hp))
            (frame_writeUnhintedName n) (keepsHv_writeUnhintedName n)) s hs.1).2 _ s1 h1
          obtain ⟨_, _, _, _, _, _, hext⟩ := nameBlock_inv _ (writeUnhintedName n) (frame_writeUnhintedName n) h1
          exact ⟨r1, gapOK_ext hs.2 hext⟩
    | uncompressibleName =>
      unfold writeComponents
      cases hp : WName.parse rd with
      | none => exact cg_fail _ _ _
      | some pr =>
        obtain ⟨n, rest⟩ := pr
        simp only []
        rw [nameBlock_assoc]
        refine cg_bind (Q := fun _ s => RecSt track s0 s (names ++ [n]) (loc ++ [n]) o on ∧ GapOK x s) ?_ ?_
          (fun _ => ih rest _ _ _ _)
        · refine cg_mono (cg_nameBlock (some x) _ _ (cg_writeUncompressedName (some x) _ n)
            (fun p s => { s with mostRecentNameInRdata := p }) (fun _ _ _ => rfl) (fun _ _ => rfl) (fun _ _ => rfl)
            (fun p => hvPush (p.map (·.ptr))) (fun p => cg_hvPush _ _ _)) ?_
          exact fun s hs => decOK_gap hs.1.winv hs.2
        · intro s u s1 hs h1
          have r1 := ((sp_nameComp (track := track) (s0 := s0) (names := names) (loc := loc) (o := o) (on := on)
            (writeUncompressedName n) n _ (fun s hw => writeUncompressedName_spec n s hw (parse_wf hp))
            (frame_writeUncompressedName n) (keepsHv_writeUncompressedName n)) s hs.1).2 _ s1 h1
          obtain ⟨_, _, _, _, _, _, hext⟩ := nameBlock_inv _ (writeUncompressedName n)
            (frame_writeUncompressedName n) h1
          exact ⟨r1, gapOK_ext hs.2 hext⟩
    | fixedLen k =>
      unfold writeComponents
      split
      · exact cg_fail _ _ _
      · refine cg_bind (Q := fun _ s => RecSt track s0 s names loc o on ∧ GapOK x s) (cg_tryPush _ _ _) ?_
          (fun _ => ih _ _ _ _ _)
        intro s u s1 hs h1
        have r1 := ((sp_tryPush_rec (track := track) (s0 := s0) (names := names) (loc := loc) (o := o) (on := on)
          (rd.take k)) s hs.1).2 _ s1 h1
        have hext : Ext s s1 := by
          have := frame_tryPush (rd.take k) s
          rw [h1] at this; exact this
        exact ⟨r1, gapOK_ext hs.2 hext⟩

/-! ### whole records: on failure the two writers agree below the cursor the call started at -/

def CgW {α} (P : State → Prop) (f : M α) : Prop :=
  ∀ s o, P s → Rl none s o → ∃ o', f (wo s o) = ((f s).1, wo (f s).2 o') ∧ o'.size = (f s).2.octets.size ∧
    (∀ i, i < s.cursor → o'[i]? = (f s).2.octets[i]?) ∧ (∀ x, (f s).1 = .ok x → Rl none (f s).2 o')

theorem outside_none (i : Nat) : Outside none i := fun _ h => by cases h

theorem cgw_of_cg {α} {P : State → Prop} {f : M α} (h : Cg none none P f) (hmono : ∀ s, s.cursor ≤ (f s).2.cursor) :
    CgW P f := by
  intro s o hs hr
  obtain ⟨o', e, r⟩ := h s o hs hr
  exact ⟨o', e, r.size, fun i hi => r.pre i (by have := hmono s; omega) (outside_none i), fun _ _ => r⟩

theorem cgw_bind {α β} {P : State → Prop} {Q : α → State → Prop} {f : M α} {g : α → M β}
    (hf : CgW P f) (hmono : ∀ s x s1, f s = (.ok x, s1) → s.cursor ≤ s1.cursor)
    (hpres : ∀ s x s1, P s → f s = (.ok x, s1) → Q x s1) (hg : ∀ x, CgW (Q x) (g x)) : CgW P (f >>= g) := by
  intro s o hs hr
  obtain ⟨o1, e1, z1, b1, r1⟩ := hf s o hs hr
  simp only [M.bind_apply, e1]
  cases hfs : f s with
  | mk r s1 =>
    rw [hfs] at r1 b1 z1
    cases r with
    | ok x =>
      simp only []
      obtain ⟨o2, e2, z2, b2, r2⟩ := hg x s1 o1 (hpres s x s1 hs hfs) (r1 x rfl)
      exact ⟨o2, e2, z2, fun i hi => b2 i (by have := hmono s x s1 hfs; omega), r2⟩
    | err e => exact ⟨o1, rfl, z1, b1, fun x hx => by cases hx⟩
    | panic => exact ⟨o1, rfl, z1, b1, fun x hx => by cases hx⟩

theorem rl_write_close {s : State} {o : Bytes} {x : Nat} (d : List UInt8) (hd : d.length = 2)
    (hr : Rl (some x) s o) (hx : x + 2 ≤ s.cursor) (hsz : s.cursor ≤ s.octets.size) :
    Rl none { s with octets := writeAt s.octets x d } (writeAt o x d) := by
  refine ⟨by simp [hr.size], fun i hi _ => ?_⟩
  show (writeAt o x d)[i]? = (writeAt s.octets x d)[i]?
  have hi' : i < s.cursor := hi
  by_cases h1 : i < x
  · rw [writeAt_get_lt _ _ _ _ h1, writeAt_get_lt _ _ _ _ h1]
    exact hr.pre i hi' (fun y hy => by cases hy; exact Or.inl h1)
  · by_cases h2 : x + 2 ≤ i
    · rw [writeAt_get_ge _ _ _ _ (by omega), writeAt_get_ge _ _ _ _ (by omega)]
      exact hr.pre i hi' (fun y hy => by cases hy; exact Or.inr h2)
    · have a1 := writeAt_get_in o x d (i - x) (by omega) (by rw [hr.size]; omega)
      have a2 := writeAt_get_in s.octets x d (i - x) (by omega) (by omega)
      rw [show x + (i - x) = i by omega] at a1 a2
      rw [a1, a2]

/-- RDLENGTH reserved, the RDATA, RDLENGTH written back -/
theorem cgw_rdataBlock {track : Prop} {s0 : State} {names : List WName} {po : Option Prior} {on : Option WName}
    (cls ty : Nat) (rd : List UInt8) :
    CgW (fun s => RecSt track s0 s names [] po on)
      (do let av ← M.gets (·.available)
          let rdlengthStart ← M.gets (·.cursor)
          if av < rdlengthStart then M.panic
          else if av - rdlengthStart < 2 then M.fail .Truncation
          else do
            M.modify fun s => { s with cursor := s.cursor + 2 }
            writeRdata cls ty rd
            let cur' ← M.gets (·.cursor)
            if cur' < rdlengthStart + 2 then M.panic
            else write rdlengthStart (u16be ((cur' - rdlengthStart - 2) % 65536))) := by
  intro s o h hr
  have hav := h.winv.cur_av; have hsz := h.winv.av_size
  have ea : (wo s o).available = s.available := rfl
  have ec : (wo s o).cursor = s.cursor := rfl
  simp only [M.bind_apply, M.gets_apply, ea, ec]
  have triv : ∃ o', ((.panic : Out WriterErr Unit), wo s o) = (.panic, wo s o') ∧ o'.size = s.octets.size ∧
      (∀ i, i < s.cursor → o'[i]? = s.octets[i]?) ∧ (∀ x, (.panic : Out WriterErr Unit) = .ok x → Rl none s o') :=
    ⟨o, rfl, hr.size, fun i hi => hr.pre i hi (outside_none i), fun x hx => by cases hx⟩
  split
  · exact ⟨o, rfl, hr.size, fun i hi => hr.pre i hi (outside_none i), fun x hx => by cases hx⟩
  · split
    · exact ⟨o, rfl, hr.size, fun i hi => hr.pre i hi (outside_none i), fun x hx => by cases hx⟩
    · rename_i hfit1 hfit
      simp only [M.bind_apply, M.modify_apply]
      have e1 : Ext s { s with cursor := s.cursor + 2 } := by
        constructor <;> simp
        omega
      have w1 : WInv { s with cursor := s.cursor + 2 } := by
        have w := winv_ext h.winv e1 rfl rfl rfl rfl
        exact ⟨w.c12, by show s.cursor + 2 ≤ s.available; omega, w.av_size, w.g12, w.labs, w.qn, w.ow, w.rd, w.clabs⟩
      have h1 : RecSt track s0 { s with cursor := s.cursor + 2 } names [] po on := recSt_step h e1 w1 rfl rfl rfl
      have hr5 : Rl (some s.cursor) { s with cursor := s.cursor + 2 } o := by
        refine ⟨hr.size, fun i hi ho => ?_⟩
        rcases ho s.cursor rfl with hlt | hge
        · exact hr.pre i hlt (outside_none i)
        · exfalso; have : i < s.cursor + 2 := hi; omega
      have hwo : ({ wo s o with cursor := (wo s o).cursor + 2 } : State) = wo { s with cursor := s.cursor + 2 } o := rfl
      rw [hwo]
      -- the RDATA
      have hC : ∃ o6, writeRdata cls ty rd (wo { s with cursor := s.cursor + 2 } o) =
          ((writeRdata cls ty rd { s with cursor := s.cursor + 2 }).1,
            wo (writeRdata cls ty rd { s with cursor := s.cursor + 2 }).2 o6) ∧
          Rl (some s.cursor) (writeRdata cls ty rd { s with cursor := s.cursor + 2 }).2 o6 := by
        unfold writeRdata
        cases hct : componentTypes cls ty with
        | none => exact ⟨o, rfl, hr5⟩
        | some ts =>
          exact cg_writeComponents (track := track) (s0 := s0) s.cursor ts rd names [] po on _ o
            ⟨h1, gapOK_init h.winv⟩ hr5
      obtain ⟨o6, e6, r6⟩ := hC
      rw [e6]
      have hfr : Ext { s with cursor := s.cursor + 2 } (writeRdata cls ty rd { s with cursor := s.cursor + 2 }).2 := by
        unfold writeRdata
        cases componentTypes cls ty with
        | none => exact Ext.refl _
        | some ts => exact frame_writeComponents ts rd _
      cases hw : writeRdata cls ty rd { s with cursor := s.cursor + 2 } with
      | mk r s6 =>
        rw [hw] at r6 hfr
        simp only [] at r6 hfr ⊢
        have hbelow : ∀ i, i < s.cursor → o6[i]? = s6.octets[i]? := fun i hi =>
          r6.pre i (by have := hfr.cur; have : s.cursor + 2 ≤ s6.cursor := this; omega)
            (fun y hy => by cases hy; exact Or.inl hi)
        cases r with
        | err e => exact ⟨o6, rfl, r6.size, hbelow, fun x hx => by cases hx⟩
        | panic => exact ⟨o6, rfl, r6.size, hbelow, fun x hx => by cases hx⟩
        | ok u =>
          have ec6 : (wo s6 o6).cursor = s6.cursor := rfl
          simp only [M.gets_apply, ec6]
          split
          · exact ⟨o6, rfl, r6.size, hbelow, fun x hx => by cases hx⟩
          · rename_i hcur
            unfold write
            have es6 : (wo s6 o6).octets.size = s6.octets.size := r6.size
            simp only [es6]
            split
            · have hcl := rl_write_close (u16be ((s6.cursor - s.cursor - 2) % 65536)) rfl r6 (by omega)
                (by
                  have h9 : s6.cursor ≤ s.available := hfr.avail (by show s.cursor + 2 ≤ s.available; omega)
                  have h8 : s6.octets.size = s.octets.size := hfr.size
                  omega)
              refine ⟨writeAt o6 s.cursor (u16be ((s6.cursor - s.cursor - 2) % 65536)), rfl, hcl.size, fun i hi => ?_,
                fun _ _ => hcl⟩
              exact hcl.pre i (by show i < s6.cursor; omega) (outside_none i)
            · exact ⟨o6, rfl, r6.size, hbelow, fun x hx => by cases hx⟩

/-! ### `add_rr` -/

theorem ownerBlock_frame (hint : Hint) (owner : WName) :
    Frame (do setCtx .owner
              let p ← writeHintedName hint owner
              setCtx .none
              M.modify fun s => { s with mostRecentOwner := p }) :=
  frame_bind (frame_setCtx _) fun _ => frame_bind (frame_writeHintedName hint owner) fun p =>
    frame_bind (frame_setCtx _) fun _ => frame_modify _ (fun s => by constructor <;> simp)

theorem cgw_addRr {track : Prop} {s0 : State} {names : List WName} (hint : Hint) (owner : WName)
    (ty cls ttl : Nat) (rd : List UInt8) (hwf : owner.WF) :
    CgW (fun s => ∃ loc o on, RecSt track s0 s names loc o on ∧ HintOK s hint owner)
      (addRr hint owner ty cls ttl rd) := by
  rw [addRr_eq]
  have mono : ∀ {α} {f : M α}, Frame f → ∀ s x s1, f s = (.ok x, s1) → s.cursor ≤ s1.cursor := by
    intro α f hf s x s1 h
    have := hf s
    rw [h] at this
    exact this.cur
  have hT : ∀ d : List UInt8, CgW (fun s => ∃ po, RecSt track s0 s names [] po (some owner)) (tryPush d) :=
    fun d => cgw_of_cg (cg_tryPush none _ d) (fun s => (frame_tryPush d s).cur)
  have hTp : ∀ (d : List UInt8) s (x : Unit) s1, (∃ po, RecSt track s0 s names [] po (some owner)) →
      tryPush d s = (.ok x, s1) → ∃ po, RecSt track s0 s1 names [] po (some owner) := by
    intro d s x s1 ⟨po, h⟩ h1
    exact ⟨po, ((sp_tryPush_rec (track := track) (s0 := s0) (names := names) (loc := []) (o := po)
      (on := some owner) d) s h).2 _ s1 h1⟩
  refine cgw_bind (Q := fun _ s => ∃ po, RecSt track s0 s names [] po (some owner)) ?_
    (mono (ownerBlock_frame hint owner)) ?_ (fun _ => ?_)
  · -- the owner block
    refine cgw_of_cg ?_ (fun s => (ownerBlock_frame hint owner s).cur)
    refine cg_bind (Q := fun _ s => DecOK none s) (cg_setCtx none _ _) ?_ (fun _ => ?_)
    · intro s x s1 ⟨loc, o, on, h, _⟩ h1
      simp only [setCtx, M.modify_apply, Prod.mk.injEq] at h1
      rw [← h1.2]
      have := decOK_none h.winv
      exact fun o n hr => this o n ⟨hr.size, hr.pre⟩
    · refine cg_bind' (cg_writeHintedName none hint owner) (fun p => ?_)
      refine cg_bind' (cg_setCtx none _ _) (fun _ => ?_)
      exact cg_modify none _ _ (fun _ _ => rfl) (fun _ => rfl) (fun _ => rfl)
  · intro s x s1 ⟨loc, o, on, h, hh⟩ h1
    exact ((sp_ownerBlock (track := track) (s0 := s0) (names := names) (loc := loc) (o := o) (on := on)
      hint owner hwf) s ⟨h, hh⟩).2 _ s1 h1
  · unfold tryPushU16 tryPushU32
    refine cgw_bind (hT _) (mono (frame_tryPush _)) (hTp _) (fun _ => ?_)
    refine cgw_bind (hT _) (mono (frame_tryPush _)) (hTp _) (fun _ => ?_)
    refine cgw_bind (hT _) (mono (frame_tryPush _)) (hTp _) (fun _ => ?_)
    intro s o ⟨po, h⟩ hr
    exact cgw_rdataBlock (track := track) (s0 := s0) (names := names) (po := po) (on := some owner) cls ty rd s o h hr

/-! ### `add_*_rr` -/

theorem cg_changeSection (P : State → Prop) (sec : RrSection) : Cg none none P (changeSection sec) := by
  intro s o _ hr
  have hsect : (wo s o).sect = s.sect := rfl
  unfold changeSection
  rw [hsect]
  cases sec <;> cases s.sect <;> first
    | exact ⟨o, rfl, hr⟩
    | exact ⟨o, rfl, ⟨hr.size, hr.pre⟩⟩

theorem cg_setCount (P : State → Prop) (sec : RrSection) (n : Nat) : Cg none none P (setCount sec n) := by
  unfold setCount
  refine cg_modify none P _ (fun s o => ?_) (fun s => ?_) (fun s => ?_) <;> cases sec <;> rfl

/-- what a rolled-back call leaves: the same outcome, and agreement below the cursor -/
theorem rollback_scratch {α} {f : M α} {s : State} {o : Bytes}
    (h : ∃ o', f (wo s o) = ((f s).1, wo (f s).2 o') ∧ o'.size = (f s).2.octets.size ∧
      (∀ i, i < s.cursor → o'[i]? = (f s).2.octets[i]?) ∧ (∀ x, (f s).1 = .ok x → Rl none (f s).2 o'))
    (hnp : (f s).1 ≠ .panic) :
    ∃ o', withRollback f (wo s o) = ((withRollback f s).1, wo (withRollback f s).2 o') ∧
      Rl none (withRollback f s).2 o' := by
  obtain ⟨o', e, z, b, r⟩ := h
  rw [withRollback_apply, withRollback_apply, e]
  cases hfs : f s with
  | mk res s' =>
    rw [hfs] at z b r hnp
    cases res with
    | ok x => exact ⟨o', rfl, r x rfl⟩
    | err er => exact ⟨o', rfl, ⟨z, fun i hi _ => b i hi⟩⟩
    | panic => exact absurd rfl hnp

theorem addRrOp_scratch (sec : RrSection) (hint : Hint) (owner : WName) (ty cls ttl : Nat) (rd : List UInt8)
    (s : State) (o : Bytes) (hw : WInv s) (hl : PtrLogOK s) (hwf : owner.WF) (hh : HintOK s hint owner)
    (hr : Rl none s o) :
    ∃ o', addRrOp sec hint owner ty cls ttl rd (wo s o) =
        ((addRrOp sec hint owner ty cls ttl rd s).1, wo (addRrOp sec hint owner ty cls ttl rd s).2 o') ∧
      Rl none (addRrOp sec hint owner ty cls ttl rd s).2 o' := by
  unfold addRrOp
  -- after the section change the record is written from a valid state
  have hafter : ∀ s1, changeSection sec s = (.ok (), s1) →
      ∃ loc po on, RecSt (s.hv = some []) s s1 [] loc po on ∧ HintOK s1 hint owner := by
    intro s1 h1
    obtain ⟨c1, c2, c3, c4, c5, c6, c7⟩ := changeSection_spec sec s
    have hfr1 := frame_changeSection sec s
    have hgp := changeSection_gPtrs sec s
    rw [h1] at hfr1 c2 c3 c4 c5 c6 c7 hgp
    simp only at hfr1 c2 c3 c4 c5 c6 c7 hgp
    have w1 : WInv s1 := winv_ext hw hfr1 c7 c3 c4 c5
    exact ⟨[], _, none, recSt_step (recSt_init hw hl) hfr1 w1 c2 c5 c4 c3 hgp, hintOK_ext hh hfr1 c3 c4 c5 c6⟩
  apply rollback_scratch
  · -- the two runs
    have hcs : CgW (fun s' => s' = s) (changeSection sec) :=
      cgw_of_cg (cg_changeSection _ sec) (fun s' => (frame_changeSection sec s').cur)
    have hcount : ∀ u : Unit, CgW (fun _ => True) (do
        let c ← M.gets (getCount sec)
        if c + 1 > 65535 then M.fail .CountOverflow else setCount sec (c + 1)) := by
      intro _
      refine cgw_of_cg (cg_bind' (cg_gets none _ _ (fun s o => by cases sec <;> rfl)) (fun c => ?_)) (fun s' => ?_)
      · exact cg_ite (cg_fail none _ _) (cg_setCount _ sec _)
      · simp only [M.bind_apply, M.gets_apply]
        split
        · exact Nat.le_refl _
        · cases sec <;> exact Nat.le_refl _
    have := cgw_bind (Q := fun _ s1 => ∃ loc po on, RecSt (s.hv = some []) s s1 [] loc po on ∧ HintOK s1 hint owner)
      hcs (fun s' x s1 h => by have := frame_changeSection sec s'; rw [h] at this; exact this.cur)
      (fun s' x s1 hs h => by subst hs; cases x; exact hafter s1 h)
      (fun _ => cgw_bind (Q := fun _ _ => True)
        (cgw_addRr (track := s.hv = some []) (s0 := s) (names := []) hint owner ty cls (ttlFrom ttl) rd hwf)
        (fun s' x s1 h => by have := frame_addRr hint owner ty cls (ttlFrom ttl) rd s'; rw [h] at this; exact this.cur)
        (fun _ _ _ _ _ => trivial) hcount)
    exact this s o rfl hr
  · -- no panic
    simp only [M.bind_apply]
    have c1 := (changeSection_spec sec s).1
    cases hcs : changeSection sec s with
    | mk r1 s1 =>
      rw [hcs] at c1
      cases r1 with
      | panic => exact absurd rfl c1
      | err e => simp
      | ok u =>
        simp only []
        obtain ⟨loc, po, on, hrec, hh1⟩ := hafter s1 (by cases u; exact hcs)
        have hnp := ((sp_addRr (track := s.hv = some []) (s0 := s) (names := []) hint owner ty cls (ttlFrom ttl) rd
          hwf) s1 ⟨loc, po, on, hrec, hh1⟩).1
        cases ha : addRr hint owner ty cls (ttlFrom ttl) rd s1 with
        | mk r2 s2 =>
          rw [ha] at hnp
          cases r2 with
          | panic => exact absurd rfl hnp
          | err e => simp
          | ok u2 =>
            simp only [M.gets_apply]
            split
            · simp [M.fail]
            · rw [setCount_apply]; simp

/-! ### `add_*_rrset` -/

theorem cgw_addRrset {track : Prop} {s0 : State} (owner : WName) (ty cls ttl : Nat) (hwf : owner.WF) :
    ∀ (rds : List (List UInt8)) (hint : Hint) (n : Nat) (names : List WName),
      CgW (fun s => ∃ loc o on, RecSt track s0 s names loc o on ∧ HintOK s hint owner)
        (addRrset hint owner ty cls ttl rds n) := by
  intro rds
  induction rds with
  | nil =>
    intro hint n names
    unfold addRrset
    exact cgw_of_cg (cg_pure none _ _) (fun s => Nat.le_refl _)
  | cons rd rds ih =>
    intro hint n names
    unfold addRrset
    refine cgw_bind (Q := fun _ s => ∃ loc o on, RecSt track s0 s (names ++ rdataNames cls ty rd) loc o on ∧
        HintOK s .mostRecentOwner owner) (cgw_addRr hint owner ty cls ttl rd hwf)
      (fun s x s1 h => by have := frame_addRr hint owner ty cls ttl rd s; rw [h] at this; exact this.cur) ?_
      (fun _ => ih .mostRecentOwner (n + 1) _)
    intro s x s1 hs h1
    obtain ⟨p, hrec⟩ := ((sp_addRr (track := track) (s0 := s0) (names := names) hint owner ty cls ttl rd hwf) s hs).2 x s1 h1
    exact ⟨_, p, _, hrec, recSt_ownerHint hrec⟩

theorem addRrsetOp_scratch (sec : RrSection) (hint : Hint) (owner : WName) (ty cls ttl : Nat)
    (rds : List (List UInt8)) (s : State) (o : Bytes) (hw : WInv s) (hl : PtrLogOK s) (hwf : owner.WF)
    (hh : HintOK s hint owner) (hr : Rl none s o) :
    ∃ o', addRrsetOp sec hint owner ty cls ttl rds (wo s o) =
        ((addRrsetOp sec hint owner ty cls ttl rds s).1, wo (addRrsetOp sec hint owner ty cls ttl rds s).2 o') ∧
      Rl none (addRrsetOp sec hint owner ty cls ttl rds s).2 o' := by
  unfold addRrsetOp
  have hafter : ∀ s1, changeSection sec s = (.ok (), s1) →
      ∃ loc po on, RecSt (s.hv = some []) s s1 [] loc po on ∧ HintOK s1 hint owner := by
    intro s1 h1
    obtain ⟨c1, c2, c3, c4, c5, c6, c7⟩ := changeSection_spec sec s
    have hfr1 := frame_changeSection sec s
    have hgp := changeSection_gPtrs sec s
    rw [h1] at hfr1 c2 c3 c4 c5 c6 c7 hgp
    simp only at hfr1 c2 c3 c4 c5 c6 c7 hgp
    have w1 : WInv s1 := winv_ext hw hfr1 c7 c3 c4 c5
    exact ⟨[], _, none, recSt_step (recSt_init hw hl) hfr1 w1 c2 c5 c4 c3 hgp, hintOK_ext hh hfr1 c3 c4 c5 c6⟩
  apply rollback_scratch
  · have hcs : CgW (fun s' => s' = s) (changeSection sec) :=
      cgw_of_cg (cg_changeSection _ sec) (fun s' => (frame_changeSection sec s').cur)
    have hcount : ∀ n : Nat, CgW (fun _ => True) (do
        let c ← M.gets (getCount sec)
        if n > 65535 then M.fail .CountOverflow
        else if c + n > 65535 then M.fail .CountOverflow
        else setCount sec (c + n)) := by
      intro n
      refine cgw_of_cg (cg_bind' (cg_gets none _ _ (fun s o => by cases sec <;> rfl)) (fun c => ?_)) (fun s' => ?_)
      · exact cg_ite (cg_fail none _ _) (cg_ite (cg_fail none _ _) (cg_setCount _ sec _))
      · simp only [M.bind_apply, M.gets_apply]
        split
        · exact Nat.le_refl _
        · split
          · exact Nat.le_refl _
          · cases sec <;> exact Nat.le_refl _
    have := cgw_bind (Q := fun _ s1 => ∃ loc po on, RecSt (s.hv = some []) s s1 [] loc po on ∧ HintOK s1 hint owner)
      hcs (fun s' x s1 h => by have := frame_changeSection sec s'; rw [h] at this; exact this.cur)
      (fun s' x s1 hs h => by subst hs; cases x; exact hafter s1 h)
      (fun _ => cgw_bind (Q := fun _ _ => True)
        (cgw_addRrset (track := s.hv = some []) (s0 := s) owner ty cls (ttlFrom ttl) hwf rds hint 0 [])
        (fun s' x s1 h => by
          have := frame_addRrset hint owner ty cls (ttlFrom ttl) rds 0 s'; rw [h] at this; exact this.cur)
        (fun _ _ _ _ _ => trivial) hcount)
    exact this s o rfl hr
  · simp only [M.bind_apply]
    have c1 := (changeSection_spec sec s).1
    cases hcs : changeSection sec s with
    | mk r1 s1 =>
      rw [hcs] at c1
      cases r1 with
      | panic => exact absurd rfl c1
      | err e => simp
      | ok u =>
        simp only []
        obtain ⟨loc, po, on, hrec, hh1⟩ := hafter s1 (by cases u; exact hcs)
        have hnp := ((sp_addRrset (track := s.hv = some []) (s0 := s) owner ty cls (ttlFrom ttl) hwf rds hint 0 []
          on) s1 ⟨loc, po, hrec, hh1⟩).1
        cases ha : addRrset hint owner ty cls (ttlFrom ttl) rds 0 s1 with
        | mk r2 s2 =>
          rw [ha] at hnp
          cases r2 with
          | panic => exact absurd rfl hnp
          | err e => simp
          | ok u2 =>
            simp only [M.gets_apply]
            split
            · simp [M.fail]
            · split
              · simp [M.fail]
              · rw [setCount_apply]; simp

end QV.Writer
