/-
  QV.Proofs.ServerResp — the octets of the response for the verdicts the scan decides alone:
  `finish` applied to the writer state the scan leaves (`finalOf`) yields exactly
  `Spec.Server.specErrorResponse`.
-/
import QV.Proofs.ServerMsg

namespace QV.ServerScan
open QV QV.Wire QV.Reader QV.Writer

/-! ### octets of the buffer, layer by layer -/

theorem getD_eq (a : Bytes) (i : Nat) : a.getD i 0 = (a[i]?).getD 0 := Array.getD_eq_getD_getElem?

theorem zeroHeader_replicate (n : Nat) : zeroHeader (Array.replicate n 0) = Array.replicate n (0 : UInt8) := by
  apply Array.ext_getElem?
  intro i
  unfold zeroHeader
  rw [writeAt_getElem?]
  split
  · rename_i h
    have h1 : i < n := by simpa using h.2.2
    simp only [Array.getElem?_replicate, h1, if_true]
    have : i - 0 < (List.replicate Gen.HEADER_SIZE (0 : UInt8)).length := by
      have := h.2.1; simpa using this
    rw [List.getElem?_eq_getElem this]
    simp
  · rfl

/-- the octet of the header that carries QR, opcode, RD after the header copy -/
def h2val (opcode : Nat) (rd : Bool) : UInt8 :=
  if opcode = 0 then bitF Gen.RD_MASK rd (opF opcode (bitF Gen.QR_MASK true 0))
  else opF opcode (bitF Gen.QR_MASK true 0)

theorem getD_set_self (a : Bytes) (i : Nat) (v : UInt8) (h : i < a.size) : (a.setIfInBounds i v).getD i 0 = v := by
  rw [getD_eq, Array.getElem?_setIfInBounds]; simp [h]

theorem hdrSt_octets (bufLen L id opcode : Nat) (rd : Bool) (h : 3 < bufLen) :
    (hdrSt (w0 bufLen L) id opcode rd).octets =
      (writeAt (Array.replicate bufLen 0) 0 (u16be id)).setIfInBounds 2 (h2val opcode rd) := by
  have hX : (writeAt (Array.replicate bufLen (0 : UInt8)) 0 (u16be id)).size = bufLen := by
    rw [writeAt_size]; simp
  have e0 : (writeAt (Array.replicate bufLen (0 : UInt8)) 0 (u16be id)).getD 2 0 = 0 := by
    rw [getD_eq, writeAt_getElem?, if_neg (by rw [u16be_length]; omega)]
    simp [Array.getElem?_replicate, show 2 < bufLen by omega]
  unfold hdrSt h2val stHdr w0
  simp only [zeroHeader_replicate]
  by_cases hop : opcode = 0
  · simp only [hop, if_true, e0]
    rw [getD_set_self _ _ _ (by rw [hX]; omega), Array.setIfInBounds_setIfInBounds]
    rw [getD_set_self _ _ _ (by rw [Array.size_setIfInBounds, hX]; omega), Array.setIfInBounds_setIfInBounds]
  · simp only [hop, if_false, e0]
    rw [getD_set_self _ _ _ (by rw [hX]; omega), Array.setIfInBounds_setIfInBounds]

/-- L1: the header-only writer, octet by octet -/
theorem hdrSt_get (bufLen L id opcode : Nat) (rd : Bool) (h : 3 < bufLen) (i : Nat) :
    (hdrSt (w0 bufLen L) id opcode rd).octets[i]? =
      if i = 0 then some (UInt8.ofNat (id / 256 % 256))
      else if i = 1 then some (UInt8.ofNat (id % 256))
      else if i = 2 then some (h2val opcode rd)
      else if i < bufLen then some 0 else none := by
  rw [hdrSt_octets _ _ _ _ _ h, Array.getElem?_setIfInBounds, writeAt_size, writeAt_getElem?]
  simp only [Array.size_replicate, Array.getElem?_replicate, u16be_length]
  by_cases h0 : i = 0
  · subst h0; simp [u16be]; omega
  · by_cases h1 : i = 1
    · subst h1; simp [u16be]; omega
    · by_cases h2 : i = 2
      · subst h2; simp; omega
      · have : ¬ (2 = i) := fun e => h2 e.symm
        simp only [this, if_false, h0, h1, h2]
        rw [if_neg (by omega)]


/-! ### the finished message as a list of octets -/

/-- what `finish` returns on a writer without TSIG whose `edns` field says `ol` is to be appended -/
def respArr (F : State) (ol : List UInt8) : Bytes :=
  (writeAt (withCounts F) F.cursor ol).extract 0 (F.cursor + ol.length)

theorem resp_toList (F : State) (ol Q : List UInt8) (o0 o1 o2 o3 : UInt8)
    (hc : F.cursor = 12 + Q.length) (hsz : F.cursor + ol.length ≤ F.octets.size)
    (h0 : F.octets[0]? = some o0) (h1 : F.octets[1]? = some o1) (h2 : F.octets[2]? = some o2)
    (h3 : F.octets[3]? = some o3) (hQ : ∀ j, j < Q.length → F.octets[12 + j]? = Q[j]?) :
    (respArr F ol).toList =
      [o0, o1, o2, o3] ++ (u16be F.qdcount ++ (u16be F.ancount ++ (u16be F.nscount ++ u16be F.arcount))) ++ Q ++ ol := by
  apply List.ext_getElem?
  intro i
  unfold respArr withCounts
  rw [Array.getElem?_toList, Array.getElem?_extract, writeAt_getElem?]
  simp only [writeAt_size, writeAt_getElem?, Nat.zero_add, Nat.sub_zero]
  have hmin : min (F.cursor + ol.length) F.octets.size = F.cursor + ol.length := Nat.min_eq_left hsz
  rw [hmin]
  clear hmin
  have l1 := u16be_length F.qdcount
  have l2 := u16be_length F.ancount
  have l3 := u16be_length F.nscount
  have l4 := u16be_length F.arcount
  have lA : ([o0, o1, o2, o3] : List UInt8).length = 4 := rfl
  have lB : (u16be F.qdcount ++ (u16be F.ancount ++ (u16be F.nscount ++ u16be F.arcount))).length = 8 := rfl
  have lAB : ([o0, o1, o2, o3] ++ (u16be F.qdcount ++ (u16be F.ancount ++ (u16be F.nscount ++ u16be F.arcount)))).length
      = 12 := rfl
  have lABQ : ([o0, o1, o2, o3] ++ (u16be F.qdcount ++ (u16be F.ancount ++ (u16be F.nscount ++ u16be F.arcount)))
      ++ Q).length = 12 + Q.length := by rw [List.length_append, lAB]
  by_cases r3 : i < F.cursor + ol.length
  · rw [if_pos r3]
    by_cases r2 : i < F.cursor
    · rw [if_neg (show ¬ (F.cursor ≤ i ∧ i < F.cursor + ol.length ∧ i < F.octets.size) by omega)]
      rw [List.getElem?_append_left (by rw [lABQ]; omega)]
      by_cases r1 : i < 12
      · rw [List.getElem?_append_left (by rw [lAB]; omega)]
        by_cases r0 : i < 4
        · rw [if_neg (show ¬ (10 ≤ i ∧ i < 10 + (u16be F.arcount).length ∧ i < F.octets.size) by omega)]
          rw [if_neg (show ¬ (8 ≤ i ∧ i < 8 + (u16be F.nscount).length ∧ i < F.octets.size) by omega)]
          rw [if_neg (show ¬ (6 ≤ i ∧ i < 6 + (u16be F.ancount).length ∧ i < F.octets.size) by omega)]
          rw [if_neg (show ¬ (4 ≤ i ∧ i < 4 + (u16be F.qdcount).length ∧ i < F.octets.size) by omega)]
          rw [List.getElem?_append_left (by rw [lA]; omega)]
          have : i = 0 ∨ i = 1 ∨ i = 2 ∨ i = 3 := by omega
          rcases this with rfl | rfl | rfl | rfl
          · exact h0
          · exact h1
          · exact h2
          · exact h3
        · rw [List.getElem?_append_right (by rw [lA]; omega), lA]
          by_cases a : i < 6
          · rw [if_neg (show ¬ (10 ≤ i ∧ i < 10 + (u16be F.arcount).length ∧ i < F.octets.size) by omega)]
            rw [if_neg (show ¬ (8 ≤ i ∧ i < 8 + (u16be F.nscount).length ∧ i < F.octets.size) by omega)]
            rw [if_neg (show ¬ (6 ≤ i ∧ i < 6 + (u16be F.ancount).length ∧ i < F.octets.size) by omega)]
            rw [if_pos (show (4 ≤ i ∧ i < 4 + (u16be F.qdcount).length ∧ i < F.octets.size) by omega)]
            rw [List.getElem?_append_left (by omega)]
          · rw [List.getElem?_append_right (by omega), l1]
            by_cases b : i < 8
            · rw [if_neg (show ¬ (10 ≤ i ∧ i < 10 + (u16be F.arcount).length ∧ i < F.octets.size) by omega)]
              rw [if_neg (show ¬ (8 ≤ i ∧ i < 8 + (u16be F.nscount).length ∧ i < F.octets.size) by omega)]
              rw [if_pos (show (6 ≤ i ∧ i < 6 + (u16be F.ancount).length ∧ i < F.octets.size) by omega)]
              rw [List.getElem?_append_left (by omega)]
              congr 1 <;> omega
            · rw [List.getElem?_append_right (by omega), l2]
              by_cases c : i < 10
              · rw [if_neg (show ¬ (10 ≤ i ∧ i < 10 + (u16be F.arcount).length ∧ i < F.octets.size) by omega)]
                rw [if_pos (show (8 ≤ i ∧ i < 8 + (u16be F.nscount).length ∧ i < F.octets.size) by omega)]
                rw [List.getElem?_append_left (by omega)]
                congr 1 <;> omega
              · rw [if_pos (show (10 ≤ i ∧ i < 10 + (u16be F.arcount).length ∧ i < F.octets.size) by omega)]
                rw [List.getElem?_append_right (by omega), l3]
                congr 1 <;> omega
      · rw [if_neg (show ¬ (10 ≤ i ∧ i < 10 + (u16be F.arcount).length ∧ i < F.octets.size) by omega)]
        rw [if_neg (show ¬ (8 ≤ i ∧ i < 8 + (u16be F.nscount).length ∧ i < F.octets.size) by omega)]
        rw [if_neg (show ¬ (6 ≤ i ∧ i < 6 + (u16be F.ancount).length ∧ i < F.octets.size) by omega)]
        rw [if_neg (show ¬ (4 ≤ i ∧ i < 4 + (u16be F.qdcount).length ∧ i < F.octets.size) by omega)]
        rw [List.getElem?_append_right (by rw [lAB]; omega), lAB]
        have hq := hQ (i - 12) (by omega)
        rw [show 12 + (i - 12) = i by omega] at hq
        exact hq
    · rw [if_pos (show (F.cursor ≤ i ∧ i < F.cursor + ol.length ∧ i < F.octets.size) by omega)]
      rw [List.getElem?_append_right (by rw [lABQ]; omega), lABQ]
      congr 1; omega
  · rw [if_neg r3]
    symm
    apply List.getElem?_eq_none
    rw [List.length_append, lABQ]
    omega


/-! ### properties of the spec's scan used below -/

theorem scanAr_props (msg : Bytes) (S : Nat) : ∀ (n total pos : Nat) (e : Bool) (lim : Nat),
    512 ≤ lim → lim ≤ max 512 S →
    ((Spec.Server.scanAr msg S n total pos e lim).1 = .badVers →
      (Spec.Server.scanAr msg S n total pos e lim).2.1 = true) ∧
    512 ≤ (Spec.Server.scanAr msg S n total pos e lim).2.2 ∧
    (Spec.Server.scanAr msg S n total pos e lim).2.2 ≤ max 512 S := by
  intro n
  induction n with
  | zero => intro total pos e lim h1 h2; simp [Spec.Server.scanAr, h1, h2]
  | succ n ih =>
    intro total pos e lim h1 h2
    simp only [Spec.Server.scanAr]
    repeat' split
    all_goals first
      | exact ih _ _ _ _ h1 h2
      | exact ih _ _ _ _ (by omega) (by omega)
      | (simp; omega)
      | (simp; exact ⟨h1, h2⟩)

theorem specTail_props (lookup : List UInt8 → Nat → Option Spec.Server.ZoneKind) (S : Nat) (msg : Bytes)
    (q : Option Spec.DQuestion) (p1 an ns ar op : Nat) :
    ((specTail lookup S msg q p1 an ns ar op).verdict = .badVers →
      (specTail lookup S msg q p1 an ns ar op).edns = true) ∧
    512 ≤ (specTail lookup S msg q p1 an ns ar op).limitUdp ∧
    (specTail lookup S msg q p1 an ns ar op).limitUdp ≤ max 512 S ∧
    (specTail lookup S msg q p1 an ns ar op).question = q := by
  unfold specTail
  cases hpl : Spec.Server.scanPlain msg (an + ns) p1 with
  | none => simp; omega
  | some p2 =>
    simp only
    have hp := scanAr_props msg S ar ar p2 false 512 (by omega) (by omega)
    generalize Spec.Server.scanAr msg S ar ar p2 false 512 = res at hp
    obtain ⟨en, e, l⟩ := res
    simp only at hp
    cases en with
    | formErr => simp; exact ⟨hp.2.1, hp.2.2⟩
    | badVers => simp; exact ⟨hp.1 rfl, hp.2.1, hp.2.2⟩
    | tsig => simp; exact ⟨hp.2.1, hp.2.2⟩
    | done p3 =>
      simp only
      repeat' split
      all_goals (simp; exact ⟨hp.2.1, hp.2.2⟩)

theorem specBody_props (lookup : List UInt8 → Nat → Option Spec.Server.ZoneKind) (S : Nat) (msg : Bytes) :
    ((specBody lookup S msg).verdict = .badVers → (specBody lookup S msg).edns = true) ∧
    512 ≤ (specBody lookup S msg).limitUdp ∧ (specBody lookup S msg).limitUdp ≤ max 512 S := by
  unfold specBody
  split
  · simp; omega
  · simp only
    split
    · simp; omega
    · rename_i q p1 _
      have := specTail_props lookup S msg q p1 (Spec.Server.hdr msg 6) (Spec.Server.hdr msg 8)
        (Spec.Server.hdr msg 10) ((msg.getD 2 0).toNat / 8 % 16)
      exact ⟨this.1, this.2.1, this.2.2.1⟩

/-! ### the writer state the verdict dictates, field by field -/

theorem arSt_fields (s1 : State) (tr : Server.Transport) (p : Nat) (e : Bool) (l : Nat) :
    (arSt s1 tr p e l).octets = s1.octets ∧ (arSt s1 tr p e l).cursor = s1.cursor ∧
    (arSt s1 tr p e l).tsig = s1.tsig ∧ (arSt s1 tr p e l).qdcount = s1.qdcount ∧
    (arSt s1 tr p e l).ancount = s1.ancount ∧ (arSt s1 tr p e l).nscount = s1.nscount ∧
    (arSt s1 tr p e l).arcount = s1.arcount + (if e then 1 else 0) ∧
    (arSt s1 tr p e l).edns = (if e then some ⟨p, 0⟩ else s1.edns) := by
  cases e <;> cases tr <;> simp [arSt, stEdns, stLimit]

theorem arSt_avail (s1 : State) (tr : Server.Transport) (p l : Nat) (hb : Base s1 tr p)
    (hl1 : 512 ≤ l) (hl2 : l ≤ max 512 p) :
    (arSt s1 tr p true l).cursor ≤ (arSt s1 tr p true l).available ∧
    (arSt s1 tr p true l).available + 11 ≤ (arSt s1 tr p true l).octets.size := by
  have h1 := hb.room
  have h2 := hb.avail
  have h3 := hb.lim
  have h4 := hb.sizeL
  cases tr with
  | udp =>
    obtain ⟨b1, b2⟩ := hb.buf rfl
    simp only [lim0] at h3
    simp only [arSt, stEdns, stLimit, if_true, Gen.OPT_RECORD_SIZE]
    omega
  | tcp =>
    simp only [lim0] at h3
    simp only [arSt, stEdns, if_true, Gen.OPT_RECORD_SIZE]
    omega

theorem final_rcode (s1 : State) (tr : Server.Transport) (payload : Nat) (e : Bool) (l rc : Nat) (hrc : rc < 16)
    (hb : Base s1 tr payload) (h30 : s1.octets.getD 3 0 = 0) (hl1 : 512 ≤ l) (hl2 : l ≤ max 512 payload) :
    (stRcode rc (arSt s1 tr payload e l)).tsig = none ∧
    (stRcode rc (arSt s1 tr payload e l)).edns = (if e then some ⟨payload, 0⟩ else none) ∧
    (stRcode rc (arSt s1 tr payload e l)).cursor = s1.cursor ∧
    (stRcode rc (arSt s1 tr payload e l)).octets = s1.octets.setIfInBounds 3 (UInt8.ofNat rc) ∧
    (stRcode rc (arSt s1 tr payload e l)).qdcount = s1.qdcount ∧
    (stRcode rc (arSt s1 tr payload e l)).ancount = s1.ancount ∧
    (stRcode rc (arSt s1 tr payload e l)).nscount = s1.nscount ∧
    (stRcode rc (arSt s1 tr payload e l)).arcount = s1.arcount + (if e then 1 else 0) ∧
    (e = true → (stRcode rc (arSt s1 tr payload e l)).cursor ≤ (stRcode rc (arSt s1 tr payload e l)).available ∧
      (stRcode rc (arSt s1 tr payload e l)).available + 11 ≤ (stRcode rc (arSt s1 tr payload e l)).octets.size) := by
  have hts := hb.tsig
  have hed := hb.edns
  have k1 : ∀ rc : Nat, rc < 16 → ((0 : UInt8) &&& ~~~15 ||| UInt8.ofNat rc) = UInt8.ofNat rc := by decide
  cases e with
  | false =>
    have hS : arSt s1 tr payload false l = s1 := rfl
    rw [hS]
    simp [stRcode, stHdr, hed, hts, h30, k1 rc hrc]
  | true =>
    obtain ⟨f1, f2, f3, f4, f5, f6, f7, f8⟩ := arSt_fields s1 tr payload true l
    obtain ⟨a1, a2⟩ := arSt_avail s1 tr payload l hb hl1 hl2
    simp only [if_true] at f7 f8
    have hoct : (stHdr 3 (fun b => b &&& ~~~15 ||| UInt8.ofNat rc) (arSt s1 tr payload true l)).edns =
        some ⟨payload, 0⟩ := f8
    simp only [stRcode, hoct]
    simp only [stHdr, f1, f2, f3, f4, f5, f6, f7, h30, k1 rc hrc, hts, Array.size_setIfInBounds, if_true, true_and]
    rw [f2] at a1
    rw [f1] at a2
    exact fun _ => ⟨a1, a2⟩

theorem final_xrcode (s1 : State) (tr : Server.Transport) (payload : Nat) (l : Nat)
    (hb : Base s1 tr payload) (h30 : s1.octets.getD 3 0 = 0) (hl1 : 512 ≤ l) (hl2 : l ≤ max 512 payload) :
    (stXRcode 16 ⟨payload, 0⟩ (arSt s1 tr payload true l)).tsig = none ∧
    (stXRcode 16 ⟨payload, 0⟩ (arSt s1 tr payload true l)).edns = some ⟨payload, 1⟩ ∧
    (stXRcode 16 ⟨payload, 0⟩ (arSt s1 tr payload true l)).cursor = s1.cursor ∧
    (stXRcode 16 ⟨payload, 0⟩ (arSt s1 tr payload true l)).octets = s1.octets.setIfInBounds 3 (UInt8.ofNat 0) ∧
    (stXRcode 16 ⟨payload, 0⟩ (arSt s1 tr payload true l)).qdcount = s1.qdcount ∧
    (stXRcode 16 ⟨payload, 0⟩ (arSt s1 tr payload true l)).ancount = s1.ancount ∧
    (stXRcode 16 ⟨payload, 0⟩ (arSt s1 tr payload true l)).nscount = s1.nscount ∧
    (stXRcode 16 ⟨payload, 0⟩ (arSt s1 tr payload true l)).arcount = s1.arcount + 1 ∧
    ((stXRcode 16 ⟨payload, 0⟩ (arSt s1 tr payload true l)).cursor ≤
        (stXRcode 16 ⟨payload, 0⟩ (arSt s1 tr payload true l)).available ∧
      (stXRcode 16 ⟨payload, 0⟩ (arSt s1 tr payload true l)).available + 11 ≤
        (stXRcode 16 ⟨payload, 0⟩ (arSt s1 tr payload true l)).octets.size) := by
  have hts := hb.tsig
  have k2 : ((0 : UInt8) &&& ~~~15 ||| (UInt8.ofNat (16 % 256) &&& 15)) = UInt8.ofNat 0 := by decide
  obtain ⟨f1, f2, f3, f4, f5, f6, f7, f8⟩ := arSt_fields s1 tr payload true l
  obtain ⟨a1, a2⟩ := arSt_avail s1 tr payload l hb hl1 hl2
  simp only [if_true] at f7
  simp only [stXRcode, stHdr, f1, f2, f3, f4, f5, f6, f7, h30, k2, hts, Array.size_setIfInBounds, true_and]
  rw [f2] at a1
  rw [f1] at a2
  exact ⟨a1, a2⟩

theorem finalOf_props (s1 : State) (tr : Server.Transport) (payload : Nat) (sc : Spec.Server.Scan)
    (hb : Base s1 tr payload) (h30 : s1.octets.getD 3 0 = 0)
    (hv : noDataV sc.verdict = true) (hbv : sc.verdict = .badVers → sc.edns = true)
    (hl1 : 512 ≤ sc.limitUdp) (hl2 : sc.limitUdp ≤ max 512 payload) :
    (finalOf s1 tr payload sc).tsig = none ∧
    (finalOf s1 tr payload sc).edns =
      (if sc.edns then some ⟨payload, (Spec.Server.verdictRcode sc.verdict).2⟩ else none) ∧
    (finalOf s1 tr payload sc).cursor = s1.cursor ∧
    (finalOf s1 tr payload sc).octets =
      s1.octets.setIfInBounds 3 (UInt8.ofNat (Spec.Server.verdictRcode sc.verdict).1) ∧
    (finalOf s1 tr payload sc).qdcount = s1.qdcount ∧ (finalOf s1 tr payload sc).ancount = s1.ancount ∧
    (finalOf s1 tr payload sc).nscount = s1.nscount ∧
    (finalOf s1 tr payload sc).arcount = s1.arcount + (if sc.edns then 1 else 0) ∧
    (sc.edns = true → (finalOf s1 tr payload sc).cursor ≤ (finalOf s1 tr payload sc).available ∧
      (finalOf s1 tr payload sc).available + 11 ≤ (finalOf s1 tr payload sc).octets.size) := by
  unfold finalOf
  cases hverd : sc.verdict with
  | answer => rw [hverd] at hv; cases hv
  | tsigReached => rw [hverd] at hv; cases hv
  | badVers =>
    have he := hbv hverd
    rw [he]
    simp only [Spec.Server.verdictRcode, if_true]
    obtain ⟨g1, g2, g3, g4, g5, g6, g7, g8, g9⟩ := final_xrcode s1 tr payload sc.limitUdp hb h30 hl1 hl2
    exact ⟨g1, g2, g3, g4, g5, g6, g7, g8, fun _ => g9⟩
  | formErr => simpa only [Spec.Server.verdictRcode] using final_rcode s1 tr payload sc.edns sc.limitUdp 1 (by omega) hb h30 hl1 hl2
  | notImp => simpa only [Spec.Server.verdictRcode] using final_rcode s1 tr payload sc.edns sc.limitUdp 4 (by omega) hb h30 hl1 hl2
  | refused => simpa only [Spec.Server.verdictRcode] using final_rcode s1 tr payload sc.edns sc.limitUdp 5 (by omega) hb h30 hl1 hl2
  | servFailZone => simpa only [Spec.Server.verdictRcode] using final_rcode s1 tr payload sc.edns sc.limitUdp 2 (by omega) hb h30 hl1 hl2


/-! ### the response octets for the verdicts the scan decides alone -/

theorem u16be_hdr (a b : UInt8) : u16be (a.toNat * 256 + b.toNat) = [a, b] := by
  have := a.toNat_lt
  have := b.toNat_lt
  have e1 : (a.toNat * 256 + b.toNat) / 256 % 256 = a.toNat := by omega
  have e2 : (a.toNat * 256 + b.toNat) % 256 = b.toNat := by omega
  simp [u16be, e1, e2]

theorem h2_spec : ∀ x : UInt8, h2val ((x.toNat &&& 120) >>> 3) ((x.toNat &&& 1) != 0) =
    128 ||| (x &&& 120) ||| (if x.toNat / 8 % 16 = 0 then x &&& 1 else 0) := by
  apply Wire.forall_uint8; decide +kernel

theorem specBody_question (lookup : List UInt8 → Nat → Option Spec.Server.ZoneKind) (S : Nat) (msg : Bytes)
    (q : Spec.DQuestion) (h : (specBody lookup S msg).question = some q) :
    ∃ nx, Spec.specQuestionAt msg 12 = some (q.qname, q.qtype, q.qclass, nx) := by
  unfold specBody at h
  split at h
  · cases h
  · simp only at h
    split at h
    · cases h
    · rename_i q' p1 hq'
      rw [(specTail_props lookup S msg q' p1 _ _ _ _).2.2.2] at h
      subst h
      split at hq'
      · cases hq'
      · split at hq'
        · rename_i w t c nx hsq
          simp only [Option.some.injEq, Prod.mk.injEq] at hq'
          obtain ⟨h1, h2⟩ := hq'
          cases h1
          exact ⟨nx, hsq⟩
        · cases hq'

/-- the question octets the response carries -/
def qOctets (q : Option Spec.DQuestion) : List UInt8 :=
  match q with
  | none => []
  | some q => q.qname ++ (u16be q.qtype ++ u16be q.qclass)

/-- the writer after the question, octet by octet -/
theorem s1_facts (bufLen : Nat) (tr : Server.Transport) (payload id opcode : Nat) (rd : Bool)
    (hbuf : minBuf tr payload ≤ bufLen) (hpay : 512 ≤ payload) (msg : Bytes)
    (q : Option Spec.DQuestion)
    (hq : ∀ x, q = some x → ∃ nx, Spec.specQuestionAt msg 12 = some (x.qname, x.qtype, x.qclass, nx)) :
    let s1 := qSt (hdrSt (w0 bufLen (lim0 tr)) id opcode rd) q
    Base s1 tr payload ∧ s1.cursor = 12 + (qOctets q).length ∧
    s1.octets[0]? = some (UInt8.ofNat (id / 256 % 256)) ∧ s1.octets[1]? = some (UInt8.ofNat (id % 256)) ∧
    s1.octets[2]? = some (h2val opcode rd) ∧ s1.octets.getD 3 0 = 0 ∧ 3 < s1.octets.size ∧
    (∀ j, j < (qOctets q).length → s1.octets[12 + j]? = (qOctets q)[j]?) ∧
    s1.qdcount = (if q.isSome then 1 else 0) ∧ s1.ancount = 0 ∧ s1.nscount = 0 ∧ s1.arcount = 0 ∧
    s1.rrStart = 12 + (qOctets q).length ∧ s1.octets.size = bufLen := by
  intro s1
  have hH := hdrSt_ok bufLen tr payload id opcode rd hbuf hpay
  have hB : 3 < bufLen := by cases tr <;> simp only [minBuf] at hbuf <;> omega
  have hszH : (hdrSt (w0 bufLen (lim0 tr)) id opcode rd).octets.size = bufLen := by rw [hdrSt_size, w0_size]
  have hg := hdrSt_get bufLen (lim0 tr) id opcode rd hB
  cases q with
  | none =>
    have hs1 : s1 = hdrSt (w0 bufLen (lim0 tr)) id opcode rd := rfl
    rw [hs1]
    refine ⟨base_of_hdr _ _ _ hH, hH.cursor, ?_, ?_, ?_, ?_, by rw [hszH]; exact hB, ?_, hH.qd, hH.an, hH.ns, hH.ar,
      hH.rrStart, hszH⟩
    · rw [hg]; simp
    · rw [hg]; simp
    · rw [hg]; simp
    · rw [getD_eq, hg]; simp [show 3 < bufLen from hB]
    · intro j hj; simp [qOctets] at hj
  | some x =>
    obtain ⟨nx, hsq⟩ := hq x rfl
    obtain ⟨p, hp, hpw, _, _, hwl⟩ := specQuestionAt_some msg 12 _ _ _ nx hsq
    obtain ⟨qn, hqn, hqw⟩ := wname_of_parse msg 12 p hp
    rw [hpw] at hqn hqw
    obtain ⟨_, hbase, hoct, hcur, hqd, han, hns, har, hrrs⟩ := qSt_some _ tr payload hH x qn hqn hqw hwl
    have hlen : (qOctets (some x)).length = x.qname.length + 4 := by
      simp [qOctets, u16be_length]
    have hmerge : s1.octets = writeAt (hdrSt (w0 bufLen (lim0 tr)) id opcode rd).octets 12 (qOctets (some x)) := by
      show (qSt _ (some x)).octets = _
      rw [hoct, writeAt_append' _ _ _ _ _ (by rw [u16be_length]), writeAt_append' _ _ _ _ _ rfl]
      rfl
    have hsz1 : s1.octets.size = bufLen := by rw [hmerge, writeAt_size, hszH]
    have h512 := hH.lim512
    have hsl := hH.size
    have hfit : 12 + (qOctets (some x)).length ≤ bufLen := by rw [hlen]; rw [hszH] at hsl; omega
    have hlow : ∀ i, i < 12 → s1.octets[i]? = (hdrSt (w0 bufLen (lim0 tr)) id opcode rd).octets[i]? := by
      intro i hi
      rw [hmerge, writeAt_getElem?, if_neg (by omega)]
    refine ⟨hbase, by rw [hlen]; exact hcur, ?_, ?_, ?_, ?_, by rw [hsz1]; exact hB, ?_, by rw [hqd]; rfl,
      by rw [han]; exact hH.an, by rw [hns]; exact hH.ns, har, by rw [hlen]; exact hrrs, hsz1⟩
    · rw [hlow 0 (by omega), hg]; simp
    · rw [hlow 1 (by omega), hg]; simp
    · rw [hlow 2 (by omega), hg]; simp
    · rw [getD_eq, hlow 3 (by omega), hg]; simp [show 3 < bufLen from hB]
    · intro j hj
      rw [hmerge, writeAt_getElem?, if_pos (by rw [hszH]; omega)]
      congr 1; omega

theorem optRecord_length (e : Edns) : (optRecord e).length = 11 := by
  simp [optRecord, u16be, u32be]

theorem optRecord_spec (payload up : Nat) (h : up = 0 ∨ up = 1) :
    optRecord ⟨payload, up⟩ = [0, 0, 41] ++ u16be payload ++ [UInt8.ofNat up, 0, 0, 0, 0, 0] := by
  rcases h with rfl | rfl <;> simp [optRecord, u16be, u32be]

/-- **the response for the verdicts the scan decides alone**: for every request that the spec's scan
    answers with FORMERR, BADVERS, NOTIMP, REFUSED or SERVFAIL-for-a-zone-not-loaded, over either
    transport and for every configuration, `handle_message` returns exactly the octets
    `specErrorResponse` prescribes -/
theorem handleMessage_noData (cfg : Server.Cfg) (tr : Server.Transport) (now bufLen : Nat) (req : Bytes)
    (hbuf : minBuf tr cfg.payload ≤ bufLen) (hpay : 512 ≤ cfg.payload)
    (h12 : 12 ≤ req.size) (hqr : (req.getD 2 0).toNat < 128) (hreq : req.size ≤ Rdata.USIZE_MAX)
    (htf : TsigFacts)
    (hr : (specBody (catKind cfg) cfg.payload req).respond = true)
    (hv : noDataV (specBody (catKind cfg) cfg.payload req).verdict = true) :
    ∃ b, Server.handleMessage cfg tr now bufLen req = .ok (some b) ∧
      b.toList = Spec.Server.specErrorResponse req cfg.payload (specBody (catKind cfg) cfg.payload req) := by
  generalize hsc : specBody (catKind cfg) cfg.payload req = sc at hr hv
  have hH := hdrSt_ok bufLen tr cfg.payload (Spec.Server.hdr req 0) (((req.getD 2 0).toNat &&& 120) >>> 3)
    (((req.getD 2 0).toNat &&& 1) != 0) hbuf hpay
  obtain ⟨_, hw⟩ := hwc_spec cfg tr now req h12 _ hH hreq htf
  rw [hsc] at hw
  have hw := hw hr hv
  rw [handleMessage_eq cfg tr now bufLen req hbuf hpay h12 hqr, hw]
  simp only
  obtain ⟨p1, p2, p3⟩ := specBody_props (catKind cfg) cfg.payload req
  rw [hsc] at p1 p2 p3
  obtain ⟨hbase, hcur, o0, o1, o2, h30, hs3, hQ, hqd, han, hns, har, _, _⟩ :=
    s1_facts bufLen tr cfg.payload (Spec.Server.hdr req 0) (((req.getD 2 0).toNat &&& 120) >>> 3)
      (((req.getD 2 0).toNat &&& 1) != 0) hbuf hpay req sc.question
      (fun x hx => specBody_question (catKind cfg) cfg.payload req x (by rw [hsc]; exact hx))
  generalize qSt (hdrSt (w0 bufLen (lim0 tr)) (Spec.Server.hdr req 0) (((req.getD 2 0).toNat &&& 120) >>> 3)
      (((req.getD 2 0).toNat &&& 1) != 0)) sc.question = s1 at *
  obtain ⟨g1, g2, g3, g4, g5, g6, g7, g8, g9⟩ := finalOf_props s1 tr cfg.payload sc hbase h30 hv p1 p2 p3
  generalize finalOf s1 tr cfg.payload sc = F at *
  -- the octets of the final buffer below the cursor
  have hF : ∀ i, i ≠ 3 → F.octets[i]? = s1.octets[i]? := by
    intro i hi
    rw [g4, Array.getElem?_setIfInBounds, if_neg (fun e => hi e.symm)]
  have hF3 : F.octets[3]? = some (UInt8.ofNat (Spec.Server.verdictRcode sc.verdict).1) := by
    rw [g4, Array.getElem?_setIfInBounds]; simp [hs3]
  have hFsz : F.octets.size = s1.octets.size := by rw [g4, Array.size_setIfInBounds]
  have hfit : 12 + (qOctets sc.question).length + 11 ≤ s1.octets.size := by
    have := hbase.room; have := hbase.avail; have := hbase.sizeL; omega
  -- finish
  have hfin : ∃ ol, Writer.finish F Server.macFn = .ok (respArr F ol, none) ∧ ol.length ≤ 11 ∧
      ol = (if sc.edns then optRecord ⟨cfg.payload, (Spec.Server.verdictRcode sc.verdict).2⟩ else []) := by
    cases he : sc.edns with
    | false =>
      rw [he] at g2
      refine ⟨[], ?_, by simp, by simp⟩
      rw [finish_plain F _ g1 g2 (by rw [hFsz]; omega)]
      simp only [respArr, writeAt, List.length_nil, Nat.add_zero]
    | true =>
      rw [he] at g2
      obtain ⟨a1, a2⟩ := g9 he
      refine ⟨optRecord ⟨cfg.payload, (Spec.Server.verdictRcode sc.verdict).2⟩, ?_, by simp [optRecord, u16be, u32be], by simp⟩
      rw [finish_edns F _ _ g1 g2 (by rw [hFsz]; omega) a1 a2]
      simp only [respArr, optRecord_length]
  obtain ⟨ol, hfin, holl, hol⟩ := hfin
  rw [hfin]
  refine ⟨_, rfl, ?_⟩
  rw [resp_toList F ol (qOctets sc.question) _ _ _ _ (by rw [g3, hcur]) (by rw [g3, hcur, hFsz]; omega)
    (by rw [hF 0 (by omega)]; exact o0) (by rw [hF 1 (by omega)]; exact o1) (by rw [hF 2 (by omega)]; exact o2) hF3
    (fun j hj => by rw [hF (12 + j) (by omega)]; exact hQ j hj)]
  -- the two lists agree
  rw [g5, g6, g7, g8, hqd, han, hns, har, hol]
  unfold Spec.Server.specErrorResponse
  have hid : u16be (Spec.Server.hdr req 0) = [req.getD 0 0, req.getD 1 0] := u16be_hdr _ _
  have e0 : UInt8.ofNat (Spec.Server.hdr req 0 / 256 % 256) = req.getD 0 0 := by
    have h := hid; unfold u16be at h; exact (List.cons.inj h).1
  have e1 : UInt8.ofNat (Spec.Server.hdr req 0 % 256) = req.getD 1 0 := by
    have h := hid; unfold u16be at h; exact (List.cons.inj (List.cons.inj h).2).1
  rw [e0, e1, h2_spec]
  have hup : (Spec.Server.verdictRcode sc.verdict).2 = 0 ∨ (Spec.Server.verdictRcode sc.verdict).2 = 1 := by
    cases sc.verdict <;> simp [Spec.Server.verdictRcode]
  cases hq : sc.question with
  | none =>
    cases he : sc.edns with
    | false => simp [qOctets, u16be]
    | true => simp [qOctets, u16be, optRecord_spec _ _ hup]
  | some x =>
    cases he : sc.edns with
    | false => simp [qOctets, u16be]
    | true => simp [qOctets, u16be, optRecord_spec _ _ hup]

end QV.ServerScan
