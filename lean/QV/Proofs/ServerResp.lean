/-
  QV.Proofs.ServerResp — the octets of the response for the verdicts the scan decides alone:
  `finish` applied to the writer state the scan leaves (`finalOf`) yields exactly
  `Spec.Server.specErrorResponse`.
-/
import QV.Proofs.ServerMsg

namespace QV.ServerScan
open QV QV.Wire QV.Reader QV.Writer

/-! ### octets of the buffer, layer by layer -/

theorem getD_eq (a : Bytes) (i : Nat) : a.getD i 0 = (a[i]?).getD 0 := Array.getD_eq_getD_getElem?

theorem zeroHeader_replicate (n : Nat) : zeroHeader (Array.replicate n 0) = Array.replicate n (0 : UInt8) := by
  apply Array.ext_getElem?
  intro i
  unfold zeroHeader
  rw [writeAt_getElem?]
  split
  · rename_i h
    have h1 : i < n := by simpa using h.2.2
    simp only [Array.getElem?_replicate, h1, if_true]
    have : i - 0 < (List.replicate Gen.HEADER_SIZE (0 : UInt8)).length := by
      have := h.2.1; simpa using this
    rw [List.getElem?_eq_getElem this]
    simp
  · rfl

/-- the octet of the header that carries QR, opcode, RD after the header copy -/
def h2val (opcode : Nat) (rd : Bool) : UInt8 :=
  if opcode = 0 then bitF Gen.RD_MASK rd (opF opcode (bitF Gen.QR_MASK true 0))
  else opF opcode (bitF Gen.QR_MASK true 0)

theorem getD_set_self (a : Bytes) (i : Nat) (v : UInt8) (h : i < a.size) : (a.setIfInBounds i v).getD i 0 = v := by
  rw [getD_eq, Array.getElem?_setIfInBounds]; simp [h]

theorem hdrSt_octets (bufLen L id opcode : Nat) (rd : Bool) (h : 3 < bufLen) :
    (hdrSt (w0 bufLen L) id opcode rd).octets =
      (writeAt (Array.replicate bufLen 0) 0 (u16be id)).setIfInBounds 2 (h2val opcode rd) := by
  have hX : (writeAt (Array.replicate bufLen (0 : UInt8)) 0 (u16be id)).size = bufLen := by
    rw [writeAt_size]; simp
  have e0 : (writeAt (Array.replicate bufLen (0 : UInt8)) 0 (u16be id)).getD 2 0 = 0 := by
    rw [getD_eq, writeAt_getElem?, if_neg (by rw [u16be_length]; omega)]
    simp [Array.getElem?_replicate, show 2 < bufLen by omega]
  unfold hdrSt h2val stHdr w0
  simp only [zeroHeader_replicate]
  by_cases hop : opcode = 0
  · simp only [hop, if_true, e0]
    rw [getD_set_self _ _ _ (by rw [hX]; omega), Array.setIfInBounds_setIfInBounds]
    rw [getD_set_self _ _ _ (by rw [Array.size_setIfInBounds, hX]; omega), Array.setIfInBounds_setIfInBounds]
  · simp only [hop, if_false, e0]
    rw [getD_set_self _ _ _ (by rw [hX]; omega), Array.setIfInBounds_setIfInBounds]

/-- L1: the header-only writer, octet by octet -/
theorem hdrSt_get (bufLen L id opcode : Nat) (rd : Bool) (h : 3 < bufLen) (i : Nat) :
    (hdrSt (w0 bufLen L) id opcode rd).octets[i]? =
      if i = 0 then some (UInt8.ofNat (id / 256 % 256))
      else if i = 1 then some (UInt8.ofNat (id % 256))
      else if i = 2 then some (h2val opcode rd)
      else if i < bufLen then some 0 else none := by
  rw [hdrSt_octets _ _ _ _ _ h, Array.getElem?_setIfInBounds, writeAt_size, writeAt_getElem?]
  simp only [Array.size_replicate, Array.getElem?_replicate, u16be_length]
  by_cases h0 : i = 0
  · subst h0; simp [u16be]; omega
  · by_cases h1 : i = 1
    · subst h1; simp [u16be]; omega
    · by_cases h2 : i = 2
      · subst h2; simp; omega
      · have : ¬ (2 = i) := fun e => h2 e.symm
        simp only [this, if_false, h0, h1, h2]
        rw [if_neg (by omega)]


/-! ### the finished message as a list of octets -/

/-- what `finish` returns on a writer without TSIG whose `edns` field says `ol` is to be appended -/
def respArr (F : State) (ol : List UInt8) : Bytes :=
  (writeAt (withCounts F) F.cursor ol).extract 0 (F.cursor + ol.length)

theorem resp_toList (F : State) (ol Q : List UInt8) (o0 o1 o2 o3 : UInt8)
    (hc : F.cursor = 12 + Q.length) (hsz : F.cursor + ol.length ≤ F.octets.size)
    (h0 : F.octets[0]? = some o0) (h1 : F.octets[1]? = some o1) (h2 : F.octets[2]? = some o2)
    (h3 : F.octets[3]? = some o3) (hQ : ∀ j, j < Q.length → F.octets[12 + j]? = Q[j]?) :
    (respArr F ol).toList =
      [o0, o1, o2, o3] ++ (u16be F.qdcount ++ (u16be F.ancount ++ (u16be F.nscount ++ u16be F.arcount))) ++ Q ++ ol := by
  apply List.ext_getElem?
  intro i
  unfold respArr withCounts
  rw [Array.getElem?_toList, Array.getElem?_extract, writeAt_getElem?]
  simp only [writeAt_size, writeAt_getElem?, Nat.zero_add, Nat.sub_zero]
  have hmin : min (F.cursor + ol.length) F.octets.size = F.cursor + ol.length := Nat.min_eq_left hsz
  rw [hmin]
  clear hmin
  have l1 := u16be_length F.qdcount
  have l2 := u16be_length F.ancount
  have l3 := u16be_length F.nscount
  have l4 := u16be_length F.arcount
  have lA : ([o0, o1, o2, o3] : List UInt8).length = 4 := rfl
  have lB : (u16be F.qdcount ++ (u16be F.ancount ++ (u16be F.nscount ++ u16be F.arcount))).length = 8 := rfl
  have lAB : ([o0, o1, o2, o3] ++ (u16be F.qdcount ++ (u16be F.ancount ++ (u16be F.nscount ++ u16be F.arcount)))).length
      = 12 := rfl
  have lABQ : ([o0, o1, o2, o3] ++ (u16be F.qdcount ++ (u16be F.ancount ++ (u16be F.nscount ++ u16be F.arcount)))
      ++ Q).length = 12 + Q.length := by rw [List.length_append, lAB]
  by_cases r3 : i < F.cursor + ol.length
  · rw [if_pos r3]
    by_cases r2 : i < F.cursor
    · rw [if_neg (show ¬ (F.cursor ≤ i ∧ i < F.cursor + ol.length ∧ i < F.octets.size) by omega)]
      rw [List.getElem?_append_left (by rw [lABQ]; omega)]
      by_cases r1 : i < 12
      · rw [List.getElem?_append_left (by rw [lAB]; omega)]
        by_cases r0 : i < 4
        · rw [if_neg (show ¬ (10 ≤ i ∧ i < 10 + (u16be F.arcount).length ∧ i < F.octets.size) by omega)]
          rw [if_neg (show ¬ (8 ≤ i ∧ i < 8 + (u16be F.nscount).length ∧ i < F.octets.size) by omega)]
          rw [if_neg (show ¬ (6 ≤ i ∧ i < 6 + (u16be F.ancount).length ∧ i < F.octets.size) by omega)]
          rw [if_neg (show ¬ (4 ≤ i ∧ i < 4 + (u16be F.qdcount).length ∧ i < F.octets.size) by omega)]
          rw [List.getElem?_append_left (by rw [lA]; omega)]
          have : i = 0 ∨ i = 1 ∨ i = 2 ∨ i = 3 := by omega
          rcases this with rfl | rfl | rfl | rfl
          · exact h0
          · exact h1
          · exact h2
          · exact h3
        · rw [List.getElem?_append_right (by rw [lA]; omega), lA]
          by_cases a : i < 6
          · rw [if_neg (show ¬ (10 ≤ i ∧ i < 10 + (u16be F.arcount).length ∧ i < F.octets.size) by omega)]
            rw [if_neg (show ¬ (8 ≤ i ∧ i < 8 + (u16be F.nscount).length ∧ i < F.octets.size) by omega)]
            rw [if_neg (show ¬ (6 ≤ i ∧ i < 6 + (u16be F.ancount).length ∧ i < F.octets.size) by omega)]
            rw [if_pos (show (4 ≤ i ∧ i < 4 + (u16be F.qdcount).length ∧ i < F.octets.size) by omega)]
            rw [List.getElem?_append_left (by omega)]
          · rw [List.getElem?_append_right (by omega), l1]
            by_cases b : i < 8
            · rw [if_neg (show ¬ (10 ≤ i ∧ i < 10 + (u16be F.arcount).length ∧ i < F.octets.size) by omega)]
              rw [if_neg (show ¬ (8 ≤ i ∧ i < 8 + (u16be F.nscount).length ∧ i < F.octets.size) by omega)]
              rw [if_pos (show (6 ≤ i ∧ i < 6 + (u16be F.ancount).length ∧ i < F.octets.size) by omega)]
              rw [List.getElem?_append_left (by omega)]
              congr 1 <;> omega
            · rw [List.getElem?_append_right (by omega), l2]
              by_cases c : i < 10
              · rw [if_neg (show ¬ (10 ≤ i ∧ i < 10 + (u16be F.arcount).length ∧ i < F.octets.size) by omega)]
                rw [if_pos (show (8 ≤ i ∧ i < 8 + (u16be F.nscount).length ∧ i < F.octets.size) by omega)]
                rw [List.getElem?_append_left (by omega)]
                congr 1 <;> omega
              · rw [if_pos (show (10 ≤ i ∧ i < 10 + (u16be F.arcount).length ∧ i < F.octets.size) by omega)]
                rw [List.getElem?_append_right (by omega), l3]
                congr 1 <;> omega
      · rw [if_neg (show ¬ (10 ≤ i ∧ i < 10 + (u16be F.arcount).length ∧ i < F.octets.size) by omega)]
        rw [if_neg (show ¬ (8 ≤ i ∧ i < 8 + (u16be F.nscount).length ∧ i < F.octets.size) by omega)]
        rw [if_neg (show ¬ (6 ≤ i ∧ i < 6 + (u16be F.ancount).length ∧ i < F.octets.size) by omega)]
        rw [if_neg (show ¬ (4 ≤ i ∧ i < 4 + (u16be F.qdcount).length ∧ i < F.octets.size) by omega)]
        rw [List.getElem?_append_right (by rw [lAB]; omega), lAB]
        have hq := hQ (i - 12) (by omega)
        rw [show 12 + (i - 12) = i by omega] at hq
        exact hq
    · rw [if_pos (show (F.cursor ≤ i ∧ i < F.cursor + ol.length ∧ i < F.octets.size) by omega)]
      rw [List.getElem?_append_right (by rw [lABQ]; omega), lABQ]
      congr 1; omega
  · rw [if_neg r3]
    symm
    apply List.getElem?_eq_none
    rw [List.length_append, lABQ]
    omega

end QV.ServerScan
