/-
  QV.Proofs.ZoneFile.Paren — after a line has been read successfully the reader is outside
  parentheses (C25): every successful `parse_line` ends with an end of line that was recognised
  outside parentheses.
-/
import QV.Model.ZoneFile.Parser

namespace QV.ZF
open QV

/-- a successful run ends outside parentheses -/
def EL {α} (f : P α) : Prop := ∀ st v st', f st = .ok (v, st') → st'.paren = false

/-- a successful run leaves the reader as it is -/
def SP {α} (g : P α) : Prop := ∀ st v st', g st = .ok (v, st') → st' = st

theorem EL_bind_right {α β} {f : P α} {g : α → P β} (hg : ∀ a, EL (g a)) : EL (P.bind f g) := by
  intro st v st' h
  simp only [P.bind] at h
  cases hf : f st with
  | ok r => obtain ⟨a, st1⟩ := r; rw [hf] at h; exact hg a st1 v st' h
  | err e => rw [hf] at h; cases h
  | panic => rw [hf] at h; cases h

theorem EL_bind_left {α β} {f : P α} {g : α → P β} (hf : EL f) (hg : ∀ a, SP (g a)) : EL (P.bind f g) := by
  intro st v st' h
  simp only [P.bind] at h
  cases hfx : f st with
  | ok r =>
    obtain ⟨a, st1⟩ := r
    rw [hfx] at h
    have := hg a st1 v st' h
    rw [this]
    exact hf st a st1 hfx
  | err e => rw [hfx] at h; cases h
  | panic => rw [hfx] at h; cases h

theorem EL_of_not_ok {α} {f : P α} (h : ∀ st r, f st ≠ .ok r) : EL f :=
  fun st v st' hrun => absurd hrun (h _ _)

theorem EL_fail {α} (k : Kind) : EL (P.fail k : P α) := EL_of_not_ok (by intro st r; simp [P.fail, fail])
theorem EL_failAt {α} (k : Kind) (l : Nat) : EL (P.failAt k l : P α) :=
  EL_of_not_ok (by intro st r; simp [P.failAt, fail])
theorem EL_panic {α} : EL (P.panic : P α) := EL_of_not_ok (by intro st r; simp [P.panic])

theorem SP_pure {α} (a : α) : SP (P.pure a) := by
  intro st v st' h
  simp only [P.pure, Out.ok.injEq, Prod.mk.injEq] at h
  exact h.2.symm

theorem SP_mkRdata (l : List UInt8) : SP (mkRdata l) := by
  intro st v st' h
  unfold mkRdata at h
  split at h
  · cases h
  · simp only [Out.ok.injEq, Prod.mk.injEq] at h; exact h.2.symm

theorem SP_of_not_ok {α} {f : P α} (h : ∀ st r, f st ≠ .ok r) : SP f :=
  fun st v st' hrun => absurd hrun (h _ _)

theorem fieldOrEol_eol_paren (thr : Bool) (x : List UInt8) (line : Nat) (p : Bool) (st' : St)
    (h : fieldOrEol thr x line p = .ok (.Eol, st')) : st'.paren = false := by
  fun_induction fieldOrEol thr x line p
  all_goals try simp_all [fail]
  all_goals try (obtain ⟨_, rfl⟩ := h; simp_all)

theorem EL_expectEol : EL expectEol := by
  intro st v st' h
  unfold expectEol skipToNextFieldOrThroughEol at h
  simp only [bind, P.bind] at h
  cases hf : fieldOrEol true st.inp st.line st.paren with
  | ok r =>
    obtain ⟨fe, st1⟩ := r
    rw [hf] at h
    cases fe with
    | Field => simp [P.fail, fail] at h
    | Eol =>
      simp [pure, P.pure] at h
      rw [← h]
      exact fieldOrEol_eol_paren _ _ _ _ _ hf
  | err e => rw [hf] at h; cases h
  | panic => rw [hf] at h; cases h

/-- `expect_eol`, then something that does not touch the reader -/
theorem EL_eol_then {β} {g : Unit → P β} (hg : ∀ a, SP (g a)) : EL (P.bind expectEol g) :=
  EL_bind_left EL_expectEol hg

/-- the common ending of the RDATA parsers -/
theorem EL_eol_mk {α} (f : P α) (g : α → List UInt8) : EL (P.bind f fun a => P.bind expectEol fun _ => mkRdata (g a)) :=
  EL_bind_right fun _ => EL_eol_then fun _ => SP_mkRdata _

theorem EL_nameRdataBody (ctx : Ctx) : EL (nameRdataBody ctx) := by
  unfold nameRdataBody
  exact EL_bind_right fun _ => EL_eol_then fun _ => SP_mkRdata _

theorem EL_inARdataBody : EL inARdataBody := by
  unfold inARdataBody
  exact EL_bind_right fun _ => EL_eol_then fun _ => SP_mkRdata _

theorem EL_inAaaaRdataBody : EL inAaaaRdataBody := by
  unfold inAaaaRdataBody
  exact EL_bind_right fun _ => EL_eol_then fun _ => SP_mkRdata _

theorem EL_chARdataBody (ctx : Ctx) : EL (chARdataBody ctx) := by
  unfold chARdataBody
  exact EL_bind_right fun _ => EL_bind_right fun _ => EL_bind_right fun _ => EL_eol_then fun _ => SP_mkRdata _

theorem EL_soaRdataBody (ctx : Ctx) : EL (soaRdataBody ctx) := by
  unfold soaRdataBody
  exact EL_bind_right fun _ => EL_bind_right fun _ => EL_bind_right fun _ => EL_bind_right fun _ =>
    EL_bind_right fun _ => EL_bind_right fun _ => EL_bind_right fun _ => EL_bind_right fun _ =>
    EL_bind_right fun _ => EL_bind_right fun _ => EL_bind_right fun _ => EL_bind_right fun _ =>
    EL_bind_right fun _ => EL_eol_then fun _ => SP_mkRdata _

theorem EL_hinfoRdataBody : EL hinfoRdataBody := by
  unfold hinfoRdataBody
  exact EL_bind_right fun _ => EL_bind_right fun _ => EL_bind_right fun _ => EL_eol_then fun _ => SP_mkRdata _

theorem EL_minfoRdataBody (ctx : Ctx) : EL (minfoRdataBody ctx) := by
  unfold minfoRdataBody
  exact EL_bind_right fun _ => EL_bind_right fun _ => EL_bind_right fun _ => EL_eol_then fun _ => SP_mkRdata _

theorem EL_mxRdataBody (ctx : Ctx) : EL (mxRdataBody ctx) := by
  unfold mxRdataBody
  exact EL_bind_right fun _ => EL_bind_right fun _ => EL_bind_right fun _ => EL_eol_then fun _ => SP_mkRdata _

theorem EL_inSrvRdataBody (ctx : Ctx) : EL (inSrvRdataBody ctx) := by
  unfold inSrvRdataBody
  exact EL_bind_right fun _ => EL_bind_right fun _ => EL_bind_right fun _ => EL_bind_right fun _ =>
    EL_bind_right fun _ => EL_bind_right fun _ => EL_bind_right fun _ => EL_eol_then fun _ => SP_mkRdata _

theorem wksLoop_paren (sl : Nat) (st : St) (ports : List Nat) (n : Nat) (v : List Nat) (st' : St)
    (h : wksLoop sl st ports n = .ok (v, st')) : st'.paren = false := by
  fun_induction wksLoop sl st ports n
  all_goals try simp_all [fail]
  case case1 st ports n st1 hf =>
    obtain ⟨_, rfl⟩ := h
    exact fieldOrEol_eol_paren _ _ _ _ _ hf

theorem txtLoop_paren (sl : Nat) (st : St) (acc : List UInt8) (v : List UInt8) (st' : St)
    (h : txtLoop sl st acc = .ok (v, st')) : st'.paren = false := by
  fun_induction txtLoop sl st acc
  all_goals try simp_all [fail]
  case case2 st acc cs st1 hs acc' st2 hk hf =>
    obtain ⟨_, rfl⟩ := h
    exact fieldOrEol_eol_paren _ _ _ _ _ hf

theorem EL_txtRdataBody : EL txtRdataBody := by
  unfold txtRdataBody
  refine EL_bind_right fun sl => EL_bind_left ?_ fun _ => SP_mkRdata _
  intro st v st' h
  exact txtLoop_paren sl st [] v st' h

theorem EL_inWksRdataBody : EL inWksRdataBody := by
  unfold inWksRdataBody
  refine EL_bind_right fun sl => EL_bind_right fun addr => EL_bind_right fun _ => ?_
  have hjp : ∀ proto : Nat, EL (P.bind (fun st => wksLoop sl st [] 0) fun ports => mkRdata (newInWks addr proto ports)) :=
    fun proto => EL_bind_left (fun st v st' h => wksLoop_paren sl st [] 0 v st' h) fun _ => SP_mkRdata _
  dsimp only
  refine EL_bind_right fun t => ?_
  cases t with
  | true => exact hjp _
  | false =>
    simp only [Bool.false_eq_true, ↓reduceIte]
    refine EL_bind_right fun t2 => ?_
    cases t2 with
    | true => exact hjp _
    | false =>
      simp only [Bool.false_eq_true, ↓reduceIte]
      exact EL_bind_right fun _ => hjp _

theorem EL_handlerBody (name : String) (ctx : Ctx) : EL (handlerBody name ctx) := by
  unfold handlerBody
  split
  · exact EL_nameRdataBody ctx
  · exact EL_inARdataBody
  · exact EL_chARdataBody ctx
  · exact EL_soaRdataBody ctx
  · exact EL_inWksRdataBody
  · exact EL_hinfoRdataBody
  · exact EL_minfoRdataBody ctx
  · exact EL_mxRdataBody ctx
  · exact EL_txtRdataBody
  · exact EL_inAaaaRdataBody
  · exact EL_inSrvRdataBody ctx
  · exact EL_panic

theorem EL_parseUnknownRdataImpl : EL parseUnknownRdataImpl := by
  unfold parseUnknownRdataImpl
  refine EL_bind_right fun _ => EL_bind_right fun len => ?_
  have hjp : ∀ res : Nat × List UInt8, EL (P.bind expectEol fun _ => P.pure res) :=
    fun res => EL_eol_then fun _ => SP_pure _
  dsimp only
  split
  · exact EL_bind_right fun _ => hjp _
  · exact EL_bind_right fun _ => EL_bind_right fun _ => EL_bind_right fun _ => EL_bind_right fun _ =>
      EL_bind_right fun _ => hjp _

theorem EL_parseUnknownRdata : EL parseUnknownRdata := by
  unfold parseUnknownRdata
  exact EL_bind_left EL_parseUnknownRdataImpl fun _ => SP_pure _

theorem EL_parseUnknownRdataWithValidation (v : String) : EL (parseUnknownRdataWithValidation v) := by
  unfold parseUnknownRdataWithValidation
  refine EL_bind_left EL_parseUnknownRdataImpl fun r => ?_
  obtain ⟨line, rd⟩ := r
  dsimp only
  split
  · split
    · exact SP_pure _
    · exact SP_of_not_ok (by intro st r; simp [P.failAt, fail])
    · exact SP_of_not_ok (by intro st r; simp [P.panic])
  · exact SP_of_not_ok (by intro st r; simp [P.panic])

theorem EL_runHandler (name : String) (ctx : Ctx) : EL (runHandler name ctx) := by
  unfold runHandler
  split
  · refine EL_bind_right fun t => ?_
    cases t with
    | true => exact EL_parseUnknownRdataWithValidation _
    | false => exact EL_handlerBody _ _
  · exact EL_panic

theorem EL_parseRdata (ctx : Ctx) (cls ty : Nat) : EL (parseRdata ctx cls ty) := by
  unfold parseRdata
  split
  · exact EL_runHandler _ _
  · refine EL_bind_right fun t => ?_
    cases t with
    | true => exact EL_parseUnknownRdata
    | false => exact EL_fail _

theorem EL_parseRecordRest (ctx : Ctx) (sl : Nat) (lw : Bool) : EL (parseRecordRest ctx sl lw) := by
  unfold parseRecordRest
  have hjp : ∀ owner : List UInt8, EL (P.bind (skipToNextField Kind.ExpectedTtlClassOrType) fun _ =>
      P.bind (parseTtlAndClass ctx) fun __x =>
        match __x with
        | (ttl, cls) => P.bind (skipToNextField Kind.ExpectedType) fun _ => P.bind parseTypeField fun ty =>
          P.bind (parseRdata ctx cls ty) fun rdata =>
            P.pure (some (Item.record sl { owner := owner, ttl := ttl, cls := cls, ty := ty, rdata := rdata }),
              ({ ctx with prevOwner := some owner, prevTtl := some ttl, prevClass := some cls } : Ctx))) := by
    intro owner
    refine EL_bind_right fun _ => EL_bind_right fun tc => ?_
    obtain ⟨ttl, cls⟩ := tc
    exact EL_bind_right fun _ => EL_bind_right fun ty => EL_bind_left (EL_parseRdata ctx cls ty) fun _ => SP_pure _
  dsimp only
  split
  · split
    · exact EL_bind_right fun _ => hjp _
    · exact EL_bind_right fun _ => hjp _
  · exact EL_bind_right fun _ => hjp _

theorem EL_parseRecordOrEmpty (ctx : Ctx) : EL (parseRecordOrEmpty ctx) := by
  unfold parseRecordOrEmpty
  refine EL_bind_right fun sl => EL_bind_right fun lw => ?_
  intro st v st' h
  simp only [bind, P.bind, skipToNextFieldOrThroughEol] at h
  cases hf : fieldOrEol true st.inp st.line st.paren with
  | ok r =>
    obtain ⟨fe, st1⟩ := r
    rw [hf] at h
    cases fe with
    | Eol =>
      simp [pure, P.pure] at h
      rw [← h.2]
      exact fieldOrEol_eol_paren _ _ _ _ _ hf
    | Field =>
      simp only [show (FieldOrEol.Field == FieldOrEol.Eol) = false from rfl, Bool.false_eq_true, ↓reduceIte] at h
      exact EL_parseRecordRest ctx sl lw st1 v st' h
  | err e => rw [hf] at h; cases h
  | panic => rw [hf] at h; cases h

theorem EL_parseOriginDirective (ctx : Ctx) : EL (parseOriginDirective ctx) := by
  unfold parseOriginDirective
  exact EL_bind_right fun _ => EL_bind_right fun _ => EL_eol_then fun _ => SP_pure _

theorem EL_parseTtlDirective (ctx : Ctx) : EL (parseTtlDirective ctx) := by
  unfold parseTtlDirective
  exact EL_bind_right fun _ => EL_bind_right fun _ => EL_eol_then fun _ => SP_pure _

theorem EL_parseIncludeDirective (ctx : Ctx) : EL (parseIncludeDirective ctx) := by
  unfold parseIncludeDirective
  refine EL_bind_right fun line => EL_bind_right fun _ => EL_bind_right fun path => ?_
  intro st v st' h
  simp only [bind, P.bind, skipToNextFieldOrThroughEol] at h
  cases hf : fieldOrEol true st.inp st.line st.paren with
  | ok r =>
    obtain ⟨fe, st1⟩ := r
    rw [hf] at h
    cases fe with
    | Eol =>
      simp [pure, P.pure] at h
      rw [← h.2]
      exact fieldOrEol_eol_paren _ _ _ _ _ hf
    | Field =>
      simp only [show (FieldOrEol.Field == FieldOrEol.Eol) = false from rfl, Bool.false_eq_true, ↓reduceIte] at h
      exact (EL_bind_right fun _ => EL_eol_then fun _ => SP_pure _) st1 v st' h
  | err e => rw [hf] at h; cases h
  | panic => rw [hf] at h; cases h

theorem EL_parseDirective (ctx : Ctx) : EL (parseDirective ctx) := by
  unfold parseDirective
  refine EL_bind_right fun t => ?_
  cases t with
  | true => exact EL_bind_left (EL_parseOriginDirective ctx) fun _ => SP_pure _
  | false =>
    simp only [Bool.false_eq_true, ↓reduceIte]
    refine EL_bind_right fun t2 => ?_
    cases t2 with
    | true => exact EL_bind_left (EL_parseTtlDirective ctx) fun _ => SP_pure _
    | false =>
      simp only [Bool.false_eq_true, ↓reduceIte]
      refine EL_bind_right fun t3 => ?_
      cases t3 with
      | true => exact EL_bind_left (EL_parseIncludeDirective ctx) fun _ => SP_pure _
      | false => exact EL_fail _

/-- after a line has been read, the reader is outside parentheses -/
theorem EL_parseLine (ctx : Ctx) : EL (parseLine ctx) := by
  intro st v st' h
  unfold parseLine at h
  split at h
  · split at h
    · exact EL_parseDirective ctx st v st' h
    · exact EL_parseRecordOrEmpty ctx st v st' h
  · exact EL_parseRecordOrEmpty ctx st v st' h

theorem untilData_paren (ctx : Ctx) (st : St) (r : Option Item × Ctx) (st' : St)
    (h : untilData ctx st = .ok (r, st')) (hp : st.paren = false) : st'.paren = false := by
  fun_induction untilData ctx st
  all_goals try simp_all [fail]
  case case2 ctx st c rest hinp item ctx' st1 hl =>
    obtain ⟨_, rfl⟩ := h
    exact EL_parseLine ctx st _ _ hl
  case case3 ctx st c rest hinp ctx' st1 hl hlt ih =>
    exact ih (EL_parseLine ctx st _ _ hl)

end QV.ZF
