/-
  QV.Proofs.ZoneFile.Name — escapes, the name builder, `parse_name`, character-strings.

  `NameWF w`: `w` is the wire form of an absolute domain name — labels of 1..63 octets, each
  preceded by its length, terminated by the root label, at most 255 octets in all.
-/
import QV.Proofs.ZoneFile.Lex

namespace QV.ZF
open QV

/-! ### well-formed names -/

/-- one label in wire form -/
def encLabel (l : List UInt8) : List UInt8 := UInt8.ofNat l.length :: l

/-- labels in wire form, without the root label -/
def flatLabels (ls : List (List UInt8)) : List UInt8 := ls.flatMap encLabel

def LabelsOK (ls : List (List UInt8)) : Prop := ∀ l ∈ ls, 0 < l.length ∧ l.length ≤ 63

/-- the wire form of an absolute name with the given non-root labels -/
def encodeName (ls : List (List UInt8)) : List UInt8 := flatLabels ls ++ [0]

def NameWF (w : List UInt8) : Prop := ∃ ls, LabelsOK ls ∧ w = encodeName ls ∧ w.length ≤ 255

theorem NameWF_root : NameWF [0] := ⟨[], by simp [LabelsOK], by simp [encodeName, flatLabels], by simp⟩

theorem flatLabels_append (a b : List (List UInt8)) : flatLabels (a ++ b) = flatLabels a ++ flatLabels b := by
  simp [flatLabels]

theorem flatLabels_length_ge {ls : List (List UInt8)} (h : LabelsOK ls) : 2 * ls.length ≤ (flatLabels ls).length := by
  induction ls with
  | nil => simp [flatLabels]
  | cons l ls ih =>
    have h1 := h l (by simp)
    have h2 : LabelsOK ls := fun x hx => h x (by simp [hx])
    have := ih h2
    simp [flatLabels, encLabel] at this ⊢
    omega

theorem ofNat_len_ne_zero {n : Nat} (h0 : 0 < n) (h63 : n ≤ 63) : (UInt8.ofNat n == 0) = false := by
  have : (UInt8.ofNat n).toNat = n := by simp [UInt8.toNat_ofNat']; omega
  cases hb : (UInt8.ofNat n == 0)
  · rfl
  · simp at hb; rw [hb] at this; simp at this; omega

theorem ofNat_len_toNat {n : Nat} (h63 : n ≤ 63) : (UInt8.ofNat n).toNat = n := by
  simp [UInt8.toNat_ofNat']; omega

theorem countLabels_encode {ls : List (List UInt8)} (h : LabelsOK ls) (fuel : Nat) (hf : ls.length < fuel) :
    countLabels fuel (encodeName ls) = ls.length + 1 := by
  induction ls generalizing fuel with
  | nil =>
    cases fuel with
    | zero => omega
    | succ f => simp [encodeName, flatLabels, countLabels]
  | cons l ls ih =>
    have h1 := h l (by simp)
    have h2 : LabelsOK ls := fun x hx => h x (by simp [hx])
    cases fuel with
    | zero => omega
    | succ f =>
      have e : encodeName (l :: ls) = UInt8.ofNat l.length :: (l ++ encodeName ls) := by
        simp [encodeName, flatLabels, encLabel]
      rw [e, countLabels]
      simp only [ofNat_len_ne_zero h1.1 h1.2, ofNat_len_toNat h1.2]
      have : (l ++ encodeName ls).drop l.length = encodeName ls := by simp
      rw [this, ih h2 f (by simp at hf; omega)]
      simp; omega

/-! ### escapes -/

theorem parseEscapeL_ne_panic (l : List UInt8) (line : Nat) : parseEscapeL l line ≠ .panic := by
  intro h
  unfold parseEscapeL at h
  split at h
  · simp [fail] at h
  · split at h
    · split at h
      · split at h
        · simp [fail] at h
        · dsimp only at h
          split at h <;> simp [fail] at h
      · simp [fail] at h
    · simp at h

theorem parseEscapeL_err {l : List UInt8} {line : Nat} {e : Err} (h : parseEscapeL l line = .err e) :
    e.kind ≠ .ModelStuck := by
  unfold parseEscapeL at h
  split at h
  · simp [fail] at h; subst h; simp
  · split at h
    · split at h
      · split at h
        · simp [fail] at h; subst h; simp
        · dsimp only at h
          split at h
          · simp [fail] at h; subst h; simp
          · simp at h
      · simp [fail] at h; subst h; simp
    · simp at h

/-! ### the name builder -/

def BInv (b : Builder) : Prop :=
  ∃ ls : List (List UInt8), LabelsOK ls ∧ b.done = flatLabels ls ∧ b.nl = ls.length + 1 ∧
    b.cur.length ≤ 63 ∧ b.wireLen ≤ 255

theorem BInv_new : BInv Builder.new :=
  ⟨[], by simp [LabelsOK], by simp [Builder.new, flatLabels], by simp [Builder.new], by simp [Builder.new],
    by simp [Builder.new, Builder.wireLen]⟩

theorem tryPush_ne_panic (b : Builder) (o : UInt8) : b.tryPush o ≠ .panic := by
  unfold Builder.tryPush; repeat' split
  all_goals simp

theorem tryPush_ok {b b' : Builder} (hb : BInv b) {o : UInt8} (h : b.tryPush o = .ok b') : BInv b' := by
  unfold Builder.tryPush at h
  split at h
  · cases h
  · split at h
    · cases h
    · cases h
      obtain ⟨ls, ok, de, ne, cl, wl⟩ := hb
      simp only [Gen.MAX_LABEL_LEN, Gen.MAX_WIRE_LEN] at *
      refine ⟨ls, ok, de, ne, ?_, ?_⟩
      · simp; omega
      · simp [Builder.wireLen] at *; omega

theorem cur_pos_of_not_empty {l : List UInt8} (h : ¬ l.isEmpty = true) : 0 < l.length := by
  cases l with
  | nil => simp at h
  | cons _ _ => simp

theorem nextLabel_ne_panic {b : Builder} (hb : BInv b) : b.nextLabel ≠ .panic := by
  obtain ⟨ls, ok, de, ne, cl, wl⟩ := hb
  unfold Builder.nextLabel
  split
  · simp
  · next hne =>
    split
    · simp
    · next hfull =>
      have hge := flatLabels_length_ge ok
      have hcur := cur_pos_of_not_empty hne
      split
      · next hnl =>
        simp only [Gen.MAX_WIRE_LEN, Gen.MAX_N_LABELS] at *
        simp [Builder.wireLen] at hfull wl
        rw [ne] at hnl; rw [de] at hfull; omega
      · simp

theorem nextLabel_ok {b b' : Builder} (hb : BInv b) (h : b.nextLabel = .ok b') : BInv b' := by
  obtain ⟨ls, ok, de, ne, cl, wl⟩ := hb
  unfold Builder.nextLabel at h
  split at h
  · cases h
  · next hne =>
    have hcur := cur_pos_of_not_empty hne
    split at h
    · cases h
    · next hfull =>
      split at h
      · cases h
      · cases h
        simp only [Gen.MAX_WIRE_LEN, Gen.MAX_N_LABELS] at *
        simp [Builder.wireLen] at hfull wl
        refine ⟨ls ++ [b.cur], ?_, ?_, ?_, by simp, ?_⟩
        · intro l hl
          simp at hl
          rcases hl with hl | hl
          · exact ok l hl
          · subst hl; exact ⟨hcur, cl⟩
        · simp [flatLabels_append, de, flatLabels, encLabel]
        · simp [ne]
        · simp [Builder.wireLen]; omega

theorem finish_ne_panic (b : Builder) : b.finish ≠ .panic := by
  unfold Builder.finish; split <;> simp

theorem finish_ok {b : Builder} (hb : BInv b) {w : List UInt8} (h : b.finish = .ok w) : NameWF w := by
  obtain ⟨ls, ok, de, ne, cl, wl⟩ := hb
  unfold Builder.finish at h
  split at h
  · cases h
  · next hc =>
    cases h
    refine ⟨ls, ok, by simp [encodeName, de], ?_⟩
    have : b.cur = [] := by
      cases hcur : b.cur with
      | nil => rfl
      | cons _ _ => simp [hcur] at hc
    simp [Builder.wireLen, this] at wl
    simp; omega

theorem finishWithSuffix_aux {b : Builder} (hb : BInv b) {o : List UInt8} (ho : NameWF o)
    (hne : ¬ b.cur.isEmpty = true) (hfit : ¬ b.wireLen + o.length > Gen.MAX_WIRE_LEN) :
    NameWF (b.done ++ UInt8.ofNat b.cur.length :: b.cur ++ o) ∧ b.nl + countLabels 256 o ≤ 128 := by
  obtain ⟨ls, ok, de, ne, cl, wl⟩ := hb
  obtain ⟨lo, oko, eo, lenO⟩ := ho
  simp only [Gen.MAX_WIRE_LEN] at hfit
  have hcur := cur_pos_of_not_empty hne
  have okAll : LabelsOK (ls ++ [b.cur] ++ lo) := by
    intro l hl
    simp at hl
    rcases hl with hl | hl | hl
    · exact ok l hl
    · subst hl; exact ⟨hcur, cl⟩
    · exact oko l hl
  have hwire : b.done ++ UInt8.ofNat b.cur.length :: b.cur ++ o = encodeName (ls ++ [b.cur] ++ lo) := by
    simp [encodeName, flatLabels_append, de, eo, flatLabels, encLabel]
  have hlen : (b.done ++ UInt8.ofNat b.cur.length :: b.cur ++ o).length ≤ 255 := by
    simp [Builder.wireLen] at hfit ⊢; omega
  refine ⟨⟨_, okAll, hwire, hlen⟩, ?_⟩
  -- label_offsets cannot overflow: every non-root label takes at least two octets
  have hge := flatLabels_length_ge okAll
  rw [hwire] at hlen
  simp [encodeName] at hlen
  have hc : countLabels 256 o = lo.length + 1 := by
    rw [eo]; apply countLabels_encode oko
    have := flatLabels_length_ge oko
    rw [eo] at lenO; simp [encodeName] at lenO; omega
  rw [hc, ne]
  simp at hge
  omega

theorem finishWithSuffix_ne_panic {b : Builder} (hb : BInv b) {o : List UInt8} (ho : NameWF o) :
    b.finishWithSuffix o ≠ .panic := by
  unfold Builder.finishWithSuffix
  split
  · simp
  · next hne =>
    split
    · simp
    · next hfit =>
      have := (finishWithSuffix_aux hb ho hne hfit).2
      split
      · next hnl => simp only [Gen.MAX_N_LABELS] at hnl; omega
      · simp

theorem finishWithSuffix_ok {b : Builder} (hb : BInv b) {o w : List UInt8} (ho : NameWF o)
    (h : b.finishWithSuffix o = .ok w) : NameWF w := by
  unfold Builder.finishWithSuffix at h
  split at h
  · cases h
  · next hne =>
    split at h
    · cases h
    · next hfit =>
      split at h
      · cases h
      · cases h; exact (finishWithSuffix_aux hb ho hne hfit).1

/-! ### parse_name -/

theorem labelErr_good {α} (e : NErr) (a b n : Nat) (Q : α → Prop) :
    Good (labelErr e a b : R α) n Q := by
  unfold labelErr; split <;> simp [Good, fail]

theorem nameLoop_good (origin : Option (List UInt8)) (horigin : ∀ o, origin = some o → NameWF o)
    (nameLine : Nat) (inp : List UInt8) (line labelLine : Nat) (paren : Bool) (b : Builder) (hb : BInv b) :
    Good (nameLoop origin nameLine inp line labelLine paren b) inp.length NameWF := by
  fun_induction nameLoop origin nameLine inp line labelLine paren b
  all_goals try (exact labelErr_good _ _ _ _ _)
  all_goals (simp only [Good, fail])
  all_goals try (simp; done)
  -- finishing steps
  all_goals try (exact ⟨finish_ok hb ‹_›, Nat.le_refl _⟩)
  all_goals try (exact finish_ne_panic _ ‹_›)
  all_goals try (exact ⟨finishWithSuffix_ok hb (horigin _ ‹_›) ‹_›, Nat.le_refl _⟩)
  all_goals try (exact finishWithSuffix_ne_panic hb (horigin _ ‹_›) ‹_›)
  all_goals try (exact tryPush_ne_panic _ _ ‹_›)
  all_goals try (exact nextLabel_ne_panic hb ‹_›)
  all_goals try (exact parseEscapeL_ne_panic _ _ ‹_›)
  all_goals try (exact parseEscapeL_err ‹_›)
  all_goals try (simp [atFieldEnd] at *; done)
  -- recursive steps
  · rename_i hesc b' hpush _ ih
    have := parseEscapeL_length hesc
    exact (ih (tryPush_ok hb hpush)).weaken (by simp; omega) (fun _ h => h)
  · rename_i b' hnext _ ih
    exact (ih (nextLabel_ok hb hnext)).weaken (by simp) (fun _ h => h)
  · rename_i b' hpush _ ih
    exact (ih (tryPush_ok hb hpush)).weaken (by simp) (fun _ h => h)

/-- `parse_name` returns a well-formed absolute name (given a well-formed origin) -/
theorem T_parseName (origin : Option (List UInt8)) (horigin : ∀ o, origin = some o → NameWF o) :
    T (parseName origin) NameWF := by
  intro st
  unfold parseName
  simp only
  split
  · next hat =>
    have hle := expectFieldImpl_le (· == ·) [64] st
    split
    · exact ⟨horigin _ rfl, hle⟩
    · simp [Good, fail]
  · split
    · have h1 := expectFieldImpl_le (· == ·) [64] st
      have h2 := expectFieldImpl_le (· == ·) [46] (expectField [64] st).2
      exact ⟨NameWF_root, Nat.le_trans h2 h1⟩
    · have h1 := expectFieldImpl_le (· == ·) [64] st
      have h2 := expectFieldImpl_le (· == ·) [46] (expectField [64] st).2
      exact (nameLoop_good origin horigin _ _ _ _ _ _ BInv_new).weaken (Nat.le_trans h2 h1) (fun _ h => h)

/-! ### character-strings and include paths -/

/-- outcome of the string loops: `(string, rest, line)` -/
def GoodL (r : Out Err (List UInt8 × List UInt8 × Nat)) (n max : Nat) : Prop :=
  match r with
  | .ok (s, inp', _) => s.length ≤ max ∧ inp'.length ≤ n
  | .err e => e.kind ≠ .ModelStuck
  | .panic => False

theorem GoodL.weaken {r : Out Err (List UInt8 × List UInt8 × Nat)} {n m max : Nat}
    (h : GoodL r n max) (hnm : n ≤ m) : GoodL r m max := by
  unfold GoodL at *
  split
  · exact ⟨h.1, by have := h.2; omega⟩
  · exact h
  · exact h

theorem quotedLoop_good (max : Nat) (tooLong eofKind : Kind) (h1 : tooLong ≠ .ModelStuck)
    (h2 : eofKind ≠ .ModelStuck) (startLine : Nat) (inp : List UInt8) (line : Nat) (acc : List UInt8)
    (n : Nat) (hacc : acc.length = n) (hn : n ≤ max) :
    GoodL (quotedLoop max tooLong eofKind startLine inp line acc n) inp.length max := by
  fun_induction quotedLoop max tooLong eofKind startLine inp line acc n
  all_goals (simp only [GoodL, fail])
  all_goals try (simp [h1, h2]; done)
  all_goals try (exact parseEscapeL_ne_panic _ _ ‹_›)
  all_goals try (exact parseEscapeL_err ‹_›)
  · rename_i hesc hlt ih
    have := parseEscapeL_length hesc
    exact (ih (by simp [hacc]) (by omega)).weaken (by simp; omega)
  · simp; omega
  · rename_i hlt ih
    exact (ih (by simp [hacc]) (by omega)).weaken (by simp)

theorem unquotedLoop_good (max : Nat) (tooLong : Kind) (h1 : tooLong ≠ .ModelStuck)
    (startLine : Nat) (inp : List UInt8) (line : Nat) (acc : List UInt8)
    (n : Nat) (hacc : acc.length = n) (hn : n ≤ max) :
    GoodL (unquotedLoop max tooLong startLine inp line acc n) inp.length max := by
  fun_induction unquotedLoop max tooLong startLine inp line acc n
  all_goals (simp only [GoodL, fail])
  all_goals try (simp [h1]; done)
  all_goals try (exact parseEscapeL_ne_panic _ _ ‹_›)
  all_goals try (exact parseEscapeL_err ‹_›)
  all_goals try (simp [atFieldEnd] at *; done)
  · simp; omega
  · rename_i ih
    have := parseEscapeL_length ‹_›
    exact (ih (by simp [hacc]) (by omega)).weaken (by simp; omega)
  · rename_i ih
    exact (ih (by simp [hacc]) (by omega)).weaken (by simp)

/-- an unquoted string that does not start at a field end consumes at least one octet -/
theorem unquotedLoop_strict {max : Nat} {tooLong : Kind} (h1 : tooLong ≠ .ModelStuck) {startLine : Nat}
    {inp : List UInt8} {line : Nat} {s inp' : List UInt8} {line' : Nat} (hfe : atFieldEnd inp = false)
    (h : unquotedLoop max tooLong startLine inp line [] 0 = .ok (s, inp', line')) :
    inp'.length < inp.length := by
  unfold unquotedLoop at h
  simp [hfe] at h
  split at h
  · cases h
  · next c rest =>
    have rec_le : ∀ (l : List UInt8) (ln : Nat) (a : List UInt8) (k : Nat), a.length = k → k ≤ max →
        unquotedLoop max tooLong startLine l ln a k = .ok (s, inp', line') → inp'.length ≤ l.length := by
      intro l ln a k ha hk hr
      have g := unquotedLoop_good max tooLong h1 startLine l ln a k ha hk
      rw [hr] at g; exact g.2
    split at h
    · split at h
      · next e rest' l' hesc =>
        have := parseEscapeL_length hesc
        split at h
        · simp [fail] at h
        · next hlt => have := rec_le _ _ _ _ (by simp) (by omega) h; simp; omega
      · cases h
      · cases h
    · split at h
      · simp [fail] at h
      · next hlt => have := rec_le _ _ _ _ (by simp) (by omega) h; simp; omega

theorem T_parseString (max : Nat) (tooLong eofKind : Kind) (h1 : tooLong ≠ .ModelStuck)
    (h2 : eofKind ≠ .ModelStuck) : T (parseString max tooLong eofKind) (fun s => s.length ≤ max) := by
  intro st
  unfold parseString
  split
  · next rest heq =>
    have g := quotedLoop_good max tooLong eofKind h1 h2 st.line rest st.line [] 0 rfl (Nat.zero_le _)
    unfold GoodL at g
    split <;> simp_all [Good]
    omega
  · have g := unquotedLoop_good max tooLong h1 st.line st.inp st.line [] 0 rfl (Nat.zero_le _)
    unfold GoodL at g
    split <;> simp_all [Good]

/-- a string that does not start at a field end consumes at least one octet -/
theorem parseString_strict {max : Nat} {tooLong eofKind : Kind} (h1 : tooLong ≠ .ModelStuck)
    (h2 : eofKind ≠ .ModelStuck) {st st' : St} {s : List UInt8} (hfe : atFieldEnd st.inp = false)
    (h : parseString max tooLong eofKind st = .ok (s, st')) : st'.inp.length < st.inp.length := by
  unfold parseString at h
  split at h
  · next rest heq =>
    have g := quotedLoop_good max tooLong eofKind h1 h2 st.line rest st.line [] 0 rfl (Nat.zero_le _)
    unfold GoodL at g
    split at h
    · next s' i' l' hq => rw [hq] at g; cases h; simp [heq]; have := g.2; omega
    · cases h
    · cases h
  · split at h
    · next s' i' l' hq => cases h; exact unquotedLoop_strict h1 hfe hq
    · cases h
    · cases h

theorem T_parseCharacterString : T parseCharacterString (fun s => s.length ≤ 255) :=
  T_parseString 255 _ _ (by decide) (by decide)

end QV.ZF
