/-
  QV.Proofs.ZoneFile.Gaps — the lexical layer on general gaps between fields (blanks,
  parentheses, line ends and comments inside parentheses) and on LF / CRLF line ends (C23).
-/
import QV.Proofs.ZoneFile.Fields

namespace QV.ZF
open QV QV.Spec.ZF

/-! ### line ends -/

theorem eolLen_eolText (crlf : Bool) (r : List UInt8) :
    eolLen (eolText crlf ++ r) = some (eolText crlf).length ∧
      (eolText crlf ++ r).drop (eolText crlf).length = r ∧ 0 < (eolText crlf).length := by
  cases crlf <;> simp [eolText, eolLen]

@[simp] theorem eolText_ne_nil (crlf : Bool) : (eolText crlf = []) = False := by
  cases crlf <;> simp [eolText]

theorem skipToEol_bodyG (body : List UInt8) (crlf : Bool) (r : List UInt8) (h : ∀ x ∈ body, x ≠ 10 ∧ x ≠ 13) :
    skipToEol (body ++ (eolText crlf ++ r)) = eolText crlf ++ r := by
  induction body with
  | nil => cases crlf <;> simp [skipToEol, eolLen, eolText]
  | cons x body ih =>
    have hx := h x (by simp)
    rw [List.cons_append, skipToEol]
    have : eolLen (x :: (body ++ (eolText crlf ++ r))) = none := by
      simp [eolLen, hx.1, hx.2]
    simp only [this, Option.isSome_none, Bool.false_eq_true, ↓reduceIte]
    exact ih (fun y hy => h y (by simp [hy]))

theorem takeEol_eolText (crlf : Bool) (r : List UInt8) (line : Nat) :
    takeEol (eolText crlf ++ r) line = (r, line + 1) := by
  cases crlf <;> simp [takeEol, eolText, eolLen]

/-! ### gaps -/

/-- comments inside a gap are comments -/
def GapWF (g : PGap) : Prop := ∀ c crlf, GapItem.newline c crlf ∈ g → commentOK c

/-- a non-empty, well-formed gap that leads from state `p` to state `p'` -/
structure GapOK (g : PGap) (p p' : Bool) : Prop where
  ne : g ≠ []
  wf : GapWF g
  run : gapRun p g = some p'

theorem GapWF.tail {x : GapItem} {g : PGap} (h : GapWF (x :: g)) : GapWF g :=
  fun c crlf hm => h c crlf (by simp [hm])

/-- one step of `field_or_eol_skipping` over the end of a line inside parentheses -/
theorem fieldOrEol_newline (thr : Bool) (c : List UInt8) (hc : commentOK c) (crlf : Bool) (rest : List UInt8)
    (line : Nat) :
    fieldOrEol thr (c ++ eolText crlf ++ rest) line true = fieldOrEol thr rest (line + 1) true := by
  obtain ⟨he, hd, hpos⟩ := eolLen_eolText crlf rest
  rcases hc with rfl | ⟨body, rfl, hb⟩
  · rw [List.nil_append]
    obtain ⟨x, t, hxt⟩ : ∃ x t, eolText crlf ++ rest = x :: t := by cases crlf <;> simp [eolText]
    have hws : isWs x = false := by
      cases crlf <;> simp [eolText] at hxt <;> (obtain ⟨rfl, _⟩ := hxt; decide)
    rw [fieldOrEol.eq_def, hxt]
    simp only [hws, Bool.false_eq_true, ↓reduceIte]
    rw [← hxt]
    split
    · next n hn =>
      rw [he] at hn
      cases hn
      rw [hd]
    · next hn => rw [he] at hn; cases hn
  · rw [List.cons_append, List.cons_append, fieldOrEol.eq_def]
    have : eolLen (59 :: (body ++ eolText crlf ++ rest)) = none := by simp [eolLen]
    simp only [show isWs 59 = false from by decide, Bool.false_eq_true, ↓reduceIte]
    split
    · next n hn => rw [this] at hn; cases hn
    · simp only [beq_self_eq_true, ↓reduceIte, List.append_assoc, skipToEol_bodyG body crlf rest hb,
        takeEol_eolText]

/-- **Gaps**: blanks, parentheses, and line ends with comments inside parentheses are skipped up
    to the next field; the line count and the parenthesis state follow -/
theorem fieldOrEol_gapG (thr : Bool) (g : PGap) (p p' : Bool) (hwf : GapWF g) (hrun : gapRun p g = some p')
    (X : List UInt8) (hX : Starts X) (line : Nat) :
    fieldOrEol thr (gapText g ++ X) line p = .ok (.Field, ⟨X, line + gapLines g, p'⟩) := by
  induction g generalizing p line with
  | nil =>
    obtain ⟨c, t, rfl, hc⟩ := hX
    simp only [gapRun, Option.some.injEq] at hrun
    subst hrun
    simpa [gapText, gapLines] using fieldOrEol_at_field thr c t hc line p
  | cons x g ih =>
    have e : gapText (x :: g) ++ X = gapItemText x ++ (gapText g ++ X) := by simp [gapText]
    rw [e]
    cases x with
    | blank tab =>
      simp only [gapRun] at hrun
      rw [gapItemText, List.singleton_append, fieldOrEol.eq_def]
      have : isWs (if tab then 9 else 32) = true := by cases tab <;> decide
      simp only [this, ↓reduceIte]
      simpa [gapLines] using ih p hwf.tail hrun line
    | openParen =>
      cases p with
      | true => simp [gapRun] at hrun
      | false =>
        simp only [gapRun] at hrun
        rw [gapItemText, List.singleton_append, fieldOrEol.eq_def]
        have he : eolLen (40 :: (gapText g ++ X)) = none := by simp [eolLen]
        simp only [show isWs 40 = false from by decide, Bool.false_eq_true, ↓reduceIte]
        split
        · next n hn => rw [he] at hn; cases hn
        · simp only [show ((40 : UInt8) == 59) = false from by decide, beq_self_eq_true, Bool.false_eq_true,
            ↓reduceIte]
          simpa [gapLines] using ih true hwf.tail hrun line
    | closeParen =>
      cases p with
      | false => simp [gapRun] at hrun
      | true =>
        simp only [gapRun] at hrun
        rw [gapItemText, List.singleton_append, fieldOrEol.eq_def]
        have he : eolLen (41 :: (gapText g ++ X)) = none := by simp [eolLen]
        simp only [show isWs 41 = false from by decide, Bool.false_eq_true, ↓reduceIte]
        split
        · next n hn => rw [he] at hn; cases hn
        · simp only [show ((41 : UInt8) == 59) = false from by decide, show ((41 : UInt8) == 40) = false from by decide,
            beq_self_eq_true, Bool.false_eq_true, ↓reduceIte, Bool.not_true]
          simpa [gapLines] using ih false hwf.tail hrun line
    | newline c crlf =>
      cases p with
      | false => simp [gapRun] at hrun
      | true =>
        simp only [gapRun] at hrun
        rw [gapItemText, fieldOrEol_newline thr c (hwf c crlf (by simp)) crlf _ line,
          ih true hwf.tail hrun (line + 1)]
        simp only [gapLines]
        congr 3
        omega

theorem gapItemText_atEnd (x : GapItem) (hx : ∀ c crlf, x = .newline c crlf → commentOK c) (r : List UInt8) :
    atFieldEnd (gapItemText x ++ r) = true := by
  cases x with
  | blank tab => cases tab <;> simp [gapItemText, atFieldEnd, endsField, isWs]
  | openParen => simp [gapItemText, atFieldEnd, endsField]
  | closeParen => simp [gapItemText, atFieldEnd, endsField]
  | newline c crlf =>
    rcases hx c crlf rfl with rfl | ⟨body, rfl, _⟩
    · cases crlf <;> simp [gapItemText, eolText, atFieldEnd, eolLen]
    · simp [gapItemText, atFieldEnd, endsField]

/-- whatever follows a field and begins a non-empty gap ends the field -/
theorem atFieldEnd_gapG (g : PGap) (hne : g ≠ []) (hwf : GapWF g) (X : List UInt8) :
    atFieldEnd (gapText g ++ X) = true := by
  cases g with
  | nil => exact absurd rfl hne
  | cons x g =>
    have e : gapText (x :: g) ++ X = gapItemText x ++ (gapText g ++ X) := by simp [gapText]
    rw [e]
    exact gapItemText_atEnd x (fun c crlf h => hwf c crlf (by simp [h])) _

theorem GapOK.atEnd {g : PGap} {p p' : Bool} (h : GapOK g p p') (X : List UInt8) :
    atFieldEnd (gapText g ++ X) = true := atFieldEnd_gapG g h.ne h.wf X

theorem GapOK.skip {g : PGap} {p p' : Bool} (h : GapOK g p p') (k : Kind) (X : List UInt8) (hX : Starts X)
    (line : Nat) :
    skipToNextField k ⟨gapText g ++ X, line, p⟩ = .ok ((), ⟨X, line + gapLines g, p'⟩) := by
  unfold skipToNextField skipToNextFieldOrToEol
  simp only [bind, P.bind]
  rw [fieldOrEol_gapG false g p p' h.wf h.run X hX line]
  rfl

/-! ### the end of a record or line: a gap that leaves the parentheses, a comment, LF or CRLF -/

/-- the text after the last field: a (possibly empty) gap that ends outside parentheses, an
    optional comment and a line end -/
structure TailOK (g : PGap) (cmt : List UInt8) (p : Bool) : Prop where
  wf : GapWF g
  run : gapRun p g = some false
  comment : commentOK cmt

def tailText (g : PGap) (cmt : List UInt8) (eol : PEol) : List UInt8 := gapText g ++ (cmt ++ lineEnd eol)

theorem fieldOrEol_endOfLine (cmt : List UInt8) (hc : commentOK cmt) (crlf : Bool) (r : List UInt8) (line : Nat) :
    fieldOrEol true (cmt ++ eolText crlf ++ r) line false = .ok (.Eol, ⟨r, line + 1, false⟩) := by
  obtain ⟨he, hd, hpos⟩ := eolLen_eolText crlf r
  rcases hc with rfl | ⟨body, rfl, hb⟩
  · rw [List.nil_append]
    obtain ⟨x, t, hxt⟩ : ∃ x t, eolText crlf ++ r = x :: t := by cases crlf <;> simp [eolText]
    have hws : isWs x = false := by
      cases crlf <;> simp [eolText] at hxt <;> (obtain ⟨rfl, _⟩ := hxt; decide)
    rw [fieldOrEol.eq_def, hxt]
    simp only [hws, Bool.false_eq_true, ↓reduceIte]
    rw [← hxt]
    split
    · next n hn =>
      rw [he] at hn
      cases hn
      rw [hd]
    · next hn => rw [he] at hn; cases hn
  · rw [List.cons_append, List.cons_append, fieldOrEol.eq_def]
    have : eolLen (59 :: (body ++ eolText crlf ++ r)) = none := by simp [eolLen]
    simp only [show isWs 59 = false from by decide, Bool.false_eq_true, ↓reduceIte]
    split
    · next n hn => rw [this] at hn; cases hn
    · simp only [beq_self_eq_true, ↓reduceIte, List.append_assoc, skipToEol_bodyG body crlf r hb,
        takeEol_eolText]

theorem skipToEol_body_eof (body : List UInt8) (h : ∀ x ∈ body, x ≠ 10 ∧ x ≠ 13) : skipToEol body = [] := by
  induction body with
  | nil => rfl
  | cons x body ih =>
    have hx := h x (by simp)
    rw [skipToEol]
    have : eolLen (x :: body) = none := by simp [eolLen, hx.1, hx.2]
    simp only [this, Option.isSome_none, Bool.false_eq_true, ↓reduceIte]
    exact ih (fun y hy => h y (by simp [hy]))

/-- the end of the file as the end of a line: an optional comment, then nothing -/
theorem fieldOrEol_endOfFile (cmt : List UInt8) (hc : commentOK cmt) (line : Nat) :
    fieldOrEol true cmt line false = .ok (.Eol, ⟨[], line, false⟩) := by
  rcases hc with rfl | ⟨body, rfl, hb⟩
  · rw [fieldOrEol.eq_def]; rfl
  · rw [fieldOrEol.eq_def]
    have : eolLen (59 :: body) = none := by simp [eolLen]
    simp only [show isWs 59 = false from by decide, Bool.false_eq_true, ↓reduceIte]
    split
    · next n hn => rw [this] at hn; cases hn
    · simp [skipToEol_body_eof body hb, takeEol, eolLen]

/-- a line end of any kind, read outside parentheses -/
theorem fieldOrEol_lineEnd (cmt : List UInt8) (hc : commentOK cmt) (eol : PEol) (r : List UInt8)
    (he : eol = .eof → r = []) (line : Nat) :
    fieldOrEol true (cmt ++ lineEnd eol ++ r) line false = .ok (.Eol, ⟨r, line + eolLines eol, false⟩) := by
  cases eol with
  | lf => exact fieldOrEol_endOfLine cmt hc false r line
  | crlf => exact fieldOrEol_endOfLine cmt hc true r line
  | eof =>
    have := he rfl
    subst this
    simpa [lineEnd, eolLines] using fieldOrEol_endOfFile cmt hc line

theorem fieldOrEol_tail_gen (g : PGap) (cmt : List UInt8) (p : Bool) (h : TailOK g cmt p) (E r : List UInt8) (dl : Nat)
    (hbase : ∀ line, fieldOrEol true (cmt ++ E ++ r) line false = .ok (.Eol, ⟨r, line + dl, false⟩)) (line : Nat) :
    fieldOrEol true (gapText g ++ (cmt ++ E) ++ r) line p = .ok (.Eol, ⟨r, line + gapLines g + dl, false⟩) := by
  obtain ⟨hwf, hrun, hc⟩ := h
  induction g generalizing p line with
  | nil =>
    simp only [gapRun, Option.some.injEq] at hrun
    subst hrun
    simpa [gapText, gapLines] using hbase line
  | cons x g ih =>
    have e : gapText (x :: g) ++ (cmt ++ E) ++ r =
        gapItemText x ++ (gapText g ++ (cmt ++ E) ++ r) := by simp [gapText]
    rw [e]
    cases x with
    | blank tab =>
      simp only [gapRun] at hrun
      rw [gapItemText, List.singleton_append, fieldOrEol.eq_def]
      have : isWs (if tab then 9 else 32) = true := by cases tab <;> decide
      simp only [this, ↓reduceIte]
      simpa [gapLines] using ih p line hwf.tail hrun
    | openParen =>
      cases p with
      | true => simp [gapRun] at hrun
      | false =>
        simp only [gapRun] at hrun
        rw [gapItemText, List.singleton_append, fieldOrEol.eq_def]
        have he : eolLen (40 :: (gapText g ++ (cmt ++ E) ++ r)) = none := by simp [eolLen]
        simp only [show isWs 40 = false from by decide, Bool.false_eq_true, ↓reduceIte]
        split
        · next n hn => rw [he] at hn; cases hn
        · simp only [show ((40 : UInt8) == 59) = false from by decide, beq_self_eq_true, Bool.false_eq_true,
            ↓reduceIte]
          simpa [gapLines] using ih true line hwf.tail hrun
    | closeParen =>
      cases p with
      | false => simp [gapRun] at hrun
      | true =>
        simp only [gapRun] at hrun
        rw [gapItemText, List.singleton_append, fieldOrEol.eq_def]
        have he : eolLen (41 :: (gapText g ++ (cmt ++ E) ++ r)) = none := by simp [eolLen]
        simp only [show isWs 41 = false from by decide, Bool.false_eq_true, ↓reduceIte]
        split
        · next n hn => rw [he] at hn; cases hn
        · simp only [show ((41 : UInt8) == 59) = false from by decide, show ((41 : UInt8) == 40) = false from by decide,
            beq_self_eq_true, Bool.false_eq_true, ↓reduceIte, Bool.not_true]
          simpa [gapLines] using ih false line hwf.tail hrun
    | newline c crlf' =>
      cases p with
      | false => simp [gapRun] at hrun
      | true =>
        simp only [gapRun] at hrun
        rw [gapItemText, fieldOrEol_newline true c (hwf c crlf' (by simp)) crlf' _ line,
          ih true (line + 1) hwf.tail hrun]
        simp only [gapLines]
        congr 3
        omega


theorem fieldOrEol_tail (g : PGap) (cmt : List UInt8) (p : Bool) (h : TailOK g cmt p) (eol : PEol)
    (r : List UInt8) (he : eol = .eof → r = []) (line : Nat) :
    fieldOrEol true (tailText g cmt eol ++ r) line p = .ok (.Eol, ⟨r, line + gapLines g + eolLines eol, false⟩) :=
  fieldOrEol_tail_gen g cmt p h (lineEnd eol) r (eolLines eol) (fun l => fieldOrEol_lineEnd cmt h.comment eol r he l) line

theorem atFieldEnd_tail (g : PGap) (cmt : List UInt8) (p : Bool) (h : TailOK g cmt p) (eol : PEol)
    (r : List UInt8) (he : eol = .eof → r = []) : atFieldEnd (tailText g cmt eol ++ r) = true := by
  unfold tailText
  cases g with
  | cons x g =>
    have := atFieldEnd_gapG (x :: g) (by simp) h.wf ((cmt ++ lineEnd eol) ++ r)
    simpa using this
  | nil =>
    cases eol with
    | lf =>
      have := gapItemText_atEnd (.newline cmt false) (by intro c crlf' hh; cases hh; exact h.comment) r
      simpa [gapText, gapItemText, lineEnd, eolText] using this
    | crlf =>
      have := gapItemText_atEnd (.newline cmt true) (by intro c crlf' hh; cases hh; exact h.comment) r
      simpa [gapText, gapItemText, lineEnd, eolText] using this
    | eof =>
      have := he rfl
      subst this
      rcases h.comment with rfl | ⟨body, rfl, _⟩
      · simp [gapText, lineEnd, atFieldEnd]
      · simp [gapText, lineEnd, atFieldEnd, endsField]

theorem expectEol_tail (g : PGap) (cmt : List UInt8) (p : Bool) (h : TailOK g cmt p) (eol : PEol)
    (r : List UInt8) (he : eol = .eof → r = []) (line : Nat) :
    expectEol ⟨tailText g cmt eol ++ r, line, p⟩ = .ok ((), ⟨r, line + gapLines g + eolLines eol, false⟩) := by
  unfold expectEol skipToNextFieldOrThroughEol
  simp only [bind, P.bind]
  rw [fieldOrEol_tail g cmt p h eol r he line]
  rfl

/-- blanks are a gap -/
def blanksOf (ws : List UInt8) : PGap := ws.map fun c => .blank (c == 9)

theorem gapText_blanks (ws : List UInt8) (h : ∀ x ∈ ws, isWs x = true) : gapText (blanksOf ws) = ws := by
  induction ws with
  | nil => rfl
  | cons x ws ih =>
    have hx := h x (by simp)
    have ih' := ih (fun y hy => h y (by simp [hy]))
    simp only [gapText, blanksOf, List.map_cons, List.flatMap_cons] at ih' ⊢
    rw [ih']
    simp only [isWs, Bool.or_eq_true, beq_iff_eq] at hx
    rcases hx with rfl | rfl <;> rfl

theorem gapLines_blanks (ws : List UInt8) : gapLines (blanksOf ws) = 0 := by
  induction ws with
  | nil => rfl
  | cons x ws ih => simpa [blanksOf, gapLines] using ih

theorem gapRun_blanks (ws : List UInt8) (p : Bool) : gapRun p (blanksOf ws) = some p := by
  induction ws with
  | nil => rfl
  | cons x ws ih => simpa [blanksOf, gapRun] using ih

theorem TailOK_blanks (ws cmt : List UInt8) (hc : commentOK cmt) : TailOK (blanksOf ws) cmt false :=
  ⟨by intro c crlf h; simp [blanksOf] at h, gapRun_blanks ws false, hc⟩

theorem tailText_blanks (ws cmt : List UInt8) (hws : ∀ x ∈ ws, isWs x = true) (eol : PEol) (r : List UInt8) :
    tailText (blanksOf ws) cmt eol ++ r = ws ++ (cmt ++ (lineEnd eol ++ r)) := by
  simp [tailText, gapText_blanks ws hws]

/-- the end of a line outside parentheses: blanks, an optional comment, a line end -/
theorem fieldOrEol_eolG (ws cmt : List UInt8) (hws : ∀ x ∈ ws, isWs x = true) (hc : commentOK cmt) (eol : PEol)
    (r : List UInt8) (he : eol = .eof → r = []) (line : Nat) :
    fieldOrEol true (ws ++ (cmt ++ (lineEnd eol ++ r))) line false = .ok (.Eol, ⟨r, line + eolLines eol, false⟩) := by
  have := fieldOrEol_tail (blanksOf ws) cmt false (TailOK_blanks ws cmt hc) eol r he line
  rwa [tailText_blanks ws cmt hws, gapLines_blanks] at this

theorem atFieldEnd_eolG (ws cmt : List UInt8) (hws : ∀ x ∈ ws, isWs x = true) (hc : commentOK cmt) (eol : PEol)
    (r : List UInt8) (he : eol = .eof → r = []) : atFieldEnd (ws ++ (cmt ++ (lineEnd eol ++ r))) = true := by
  have := atFieldEnd_tail (blanksOf ws) cmt false (TailOK_blanks ws cmt hc) eol r he
  rwa [tailText_blanks ws cmt hws] at this

theorem expectEol_eolG (ws cmt : List UInt8) (hws : ∀ x ∈ ws, isWs x = true) (hc : commentOK cmt) (eol : PEol)
    (r : List UInt8) (he : eol = .eof → r = []) (line : Nat) :
    expectEol ⟨ws ++ (cmt ++ (lineEnd eol ++ r)), line, false⟩ = .ok ((), ⟨r, line + eolLines eol, false⟩) := by
  have := expectEol_tail (blanksOf ws) cmt false (TailOK_blanks ws cmt hc) eol r he line
  rwa [tailText_blanks ws cmt hws, gapLines_blanks] at this

/-- a line end (after blanks and an optional comment) begins with an octet that is neither a
    blank nor `$` -/
theorem eol_head (cmt : List UInt8) (hc : commentOK cmt) (crlf : Bool) (r : List UInt8) :
    ∃ c t, cmt ++ (eolText crlf ++ r) = c :: t ∧ isWs c = false ∧ (c == 36) = false := by
  rcases hc with rfl | ⟨body, rfl, _⟩
  · cases crlf
    · exact ⟨10, r, rfl, by decide, by decide⟩
    · exact ⟨13, 10 :: r, rfl, by decide, by decide⟩
  · exact ⟨59, _, rfl, by decide, by decide⟩

/-- the same for any line end: nothing at all (end of file after no comment), or such an octet -/
theorem lineEnd_head (cmt : List UInt8) (hc : commentOK cmt) (eol : PEol) (r : List UInt8) (he : eol = .eof → r = []) :
    cmt ++ (lineEnd eol ++ r) = [] ∨
      ∃ c t, cmt ++ (lineEnd eol ++ r) = c :: t ∧ isWs c = false ∧ (c == 36) = false := by
  cases eol with
  | lf => exact .inr (eol_head cmt hc false r)
  | crlf => exact .inr (eol_head cmt hc true r)
  | eof =>
    have := he rfl
    subst this
    rcases hc with rfl | ⟨body, rfl, _⟩
    · exact .inl rfl
    · exact .inr ⟨59, _, rfl, by decide, by decide⟩

/-! ### blanks at the start of a gap (`skip_whitespace` at the start of a line) -/

def dropBlanks : PGap → PGap
  | .blank _ :: g => dropBlanks g
  | g => g

theorem dropBlanks_facts (g : PGap) (p : Bool) :
    gapRun p (dropBlanks g) = gapRun p g ∧ gapLines (dropBlanks g) = gapLines g ∧ (GapWF g → GapWF (dropBlanks g)) := by
  induction g with
  | nil => exact ⟨rfl, rfl, id⟩
  | cons x g ih =>
    cases x with
    | blank t =>
      obtain ⟨i1, i2, i3⟩ := ih
      exact ⟨by simpa [dropBlanks, gapRun] using i1, by simpa [dropBlanks, gapLines] using i2,
        fun h => by simpa [dropBlanks] using i3 h.tail⟩
    | openParen => exact ⟨rfl, rfl, id⟩
    | closeParen => exact ⟨rfl, rfl, id⟩
    | newline c crlf => exact ⟨rfl, rfl, id⟩

theorem dropWhile_gap (g : PGap) (hwf : GapWF g) (X : List UInt8) (hX : Starts X) :
    (gapText g ++ X).dropWhile isWs = gapText (dropBlanks g) ++ X := by
  have hXws : X.dropWhile isWs = X := by
    obtain ⟨c, t, rfl, hc⟩ := hX
    simp [List.dropWhile, fieldStart_not_ws hc]
  induction g with
  | nil => simpa [gapText, dropBlanks] using hXws
  | cons x g ih =>
    have e : gapText (x :: g) ++ X = gapItemText x ++ (gapText g ++ X) := by simp [gapText]
    rw [e]
    cases x with
    | blank t =>
      have : isWs (if t then 9 else 32) = true := by cases t <;> decide
      simp only [gapItemText, List.singleton_append, List.dropWhile_cons, this, ↓reduceIte, dropBlanks]
      exact ih hwf.tail
    | openParen => simp [gapItemText, dropBlanks, gapText, List.dropWhile, isWs]
    | closeParen => simp [gapItemText, dropBlanks, gapText, List.dropWhile, isWs]
    | newline c crlf =>
      obtain ⟨c0, t0, h0, hws0, _⟩ := eol_head c (hwf c crlf (by simp)) crlf (gapText g ++ X)
      have e2 : gapItemText (.newline c crlf) ++ (gapText g ++ X) = c0 :: t0 := by
        rw [← h0]; simp [gapItemText]
      rw [e2]
      simp only [List.dropWhile_cons, hws0, Bool.false_eq_true, ↓reduceIte, dropBlanks]
      rw [← e2]
      simp [gapText]

end QV.ZF
