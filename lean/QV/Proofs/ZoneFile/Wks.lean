/-
  The WKS bit map (C23): `serialize_in_wks` against RFC 1035 §3.4.2.

  `newInWksWith msb` is the model of `serialize_in_wks` with the bit order inside an octet as a
  parameter (the repository's order is the extracted `Gen.wksMaskMsbFirst`).  With `msb` it is
  the RFC's bit map (`Spec.ZF.wksBitmap`, defined arithmetically from port membership, no folds
  or bit operations); without, every octet of the bit map has its bits in reverse order
  (known finding D18).
-/
import QV.Proofs.ZoneFile.Record
import QV.Spec.ZoneFile

namespace QV.ZF
open QV QV.Spec.ZF

private def pick (c0 c1 c2 c3 c4 c5 c6 c7 : Bool) : Nat → Bool
  | 0 => c0 | 1 => c1 | 2 => c2 | 3 => c3 | 4 => c4 | 5 => c5 | 6 => c6 | 7 => c7 | _ => false

private theorem bits8 : ∀ c0 c1 c2 c3 c4 c5 c6 c7 : Bool, ∀ k : Fin 8,
    (UInt8.ofNat ((if c0 then 128 else 0) + ((if c1 then 64 else 0) + ((if c2 then 32 else 0) + ((if c3 then 16 else 0) +
      ((if c4 then 8 else 0) + ((if c5 then 4 else 0) + ((if c6 then 2 else 0) + ((if c7 then 1 else 0) + 0))))))))).toNat.testBit k.val
      = pick c0 c1 c2 c3 c4 c5 c6 c7 (7 - k.val) := by
  decide +kernel

/-- bit `k` (from the least significant) of `octetOfBits c` is `c (7 - k)` -/
theorem octetOfBits_testBit (c : Nat → Bool) (k : Nat) :
    (octetOfBits c).toNat.testBit k = (decide (k < 8) && c (7 - k)) := by
  by_cases hk : k < 8
  · have := bits8 (c 0) (c 1) (c 2) (c 3) (c 4) (c 5) (c 6) (c 7) ⟨k, hk⟩
    simp only [hk, decide_true, Bool.true_and]
    unfold octetOfBits
    have e : (List.range 8) = [0,1,2,3,4,5,6,7] := by decide
    rw [e]
    simp only [List.map_cons, List.map_nil, List.sum_cons, List.sum_nil]
    refine this.trans ?_
    have h7 : 7 - k < 8 := by omega
    generalize 7 - k = m at h7
    match m, h7 with
    | 0, _ | 1, _ | 2, _ | 3, _ | 4, _ | 5, _ | 6, _ | 7, _ => rfl
  · simp only [hk, decide_false, Bool.false_and]
    apply Nat.testBit_lt_two_pow
    calc (octetOfBits c).toNat < 2 ^ 8 := (octetOfBits c).toNat_lt
      _ ≤ 2 ^ k := Nat.pow_le_pow_right (by decide) (by omega)

theorem wksOctet_testBit (ports : List Nat) (i k : Nat) :
    (wksOctet ports i).toNat.testBit k = (decide (k < 8) && decide (8 * i + (7 - k) ∈ ports)) :=
  octetOfBits_testBit _ k

theorem revBits_testBit (b : UInt8) (k : Nat) :
    (revBits b).toNat.testBit k = (decide (k < 8) && b.toNat.testBit (7 - k)) :=
  octetOfBits_testBit _ k

/-- reversing twice gives the octet back -/
theorem revBits_revBits (b : UInt8) : revBits (revBits b) = b := by
  apply UInt8.toNat_inj.mp
  apply Nat.eq_of_testBit_eq
  intro k
  rw [revBits_testBit, revBits_testBit]
  by_cases hk : k < 8
  · have : 7 - (7 - k) = k := by omega
    simp [hk, this]; omega
  · simp only [hk, decide_false, Bool.false_and]
    symm
    apply Nat.testBit_lt_two_pow
    calc b.toNat < 2 ^ 8 := b.toNat_lt
      _ ≤ 2 ^ k := Nat.pow_le_pow_right (by decide) (by omega)

theorem wksMask_toNat (msb : Bool) (p : Nat) :
    (wksMask msb p).toNat = if msb then 2 ^ (7 - p % 8) else 2 ^ (p % 8) := by
  have h : p % 8 < 8 := Nat.mod_lt _ (by decide)
  unfold wksMask
  generalize p % 8 = r at h
  have : ∀ r : Fin 8, ((0x80 : UInt8) >>> UInt8.ofNat r.val).toNat = 2 ^ (7 - r.val) ∧
      ((1 : UInt8) <<< UInt8.ofNat r.val).toNat = 2 ^ r.val := by decide
  have := this ⟨r, h⟩
  cases msb <;> simp [this]

theorem wksFold_testBit (msb : Bool) (ports : List Nat) (a : Array UInt8) (i k : Nat) (hi : i < a.size) :
    ((ports.foldl (fun (a : Array UInt8) p => a.modify (p / 8) (fun b => b ||| wksMask msb p)) a)[i]?.getD 0).toNat.testBit k
      = ((a[i]?.getD 0).toNat.testBit k || ports.any fun p => p / 8 == i && (wksMask msb p).toNat.testBit k) := by
  induction ports generalizing a with
  | nil => simp
  | cons p ps ih =>
    simp only [List.foldl_cons, List.any_cons]
    rw [ih _ (by simpa using hi)]
    rw [Array.getElem?_modify]
    by_cases e : p / 8 = i
    · simp [e, hi, UInt8.toNat_or, Nat.testBit_or, Bool.or_assoc]
    · have e' : (p / 8 == i) = false := by simpa using e
      simp [e, e']

theorem wksMaxFold (ports : List Nat) (x : Nat) :
    ports.foldl (fun (m : Option Nat) p => some (match m with | some x => max x p | none => p)) (some x)
      = some (ports.foldl max x) := by
  induction ports generalizing x with
  | nil => rfl
  | cons p ps ih => simp only [List.foldl_cons]; exact ih _

theorem wksMax_eq (ports : List Nat) :
    ports.foldl (fun (m : Option Nat) p => some (match m with | some x => max x p | none => p)) none = ports.max? := by
  cases ports with
  | nil => rfl
  | cons p ps => rw [List.max?_cons']; simp only [List.foldl_cons]; exact wksMaxFold ps p

/-- **`serialize_in_wks` against RFC 1035 §3.4.2**: with the most significant bit first it is the
    RFC's bit map; with the least significant bit first (`1 << (port % 8)`, the repository's code:
    known finding D18) every octet of the bit map comes out with its bits reversed. -/
theorem newInWksWith_eq (msb : Bool) (addr : List UInt8) (proto : Nat) (ports : List Nat) :
    newInWksWith msb addr proto ports =
      addr ++ UInt8.ofNat proto :: (wksBitmap ports).map (if msb then id else revBits) := by
  unfold newInWksWith wksBitmap
  dsimp only
  congr 2
  split
  case h_2 heq =>
    have hmax : ports.max? = none := (wksMax_eq ports).symm.trans heq
    simp [List.max?_eq_none_iff.mp hmax]
  case h_1 hi heq =>
    have hmax : ports.max? = some hi := (wksMax_eq ports).symm.trans heq
    rw [hmax]
    simp only
    apply List.ext_getElem?
    intro i
    rw [Array.getElem?_toList]
    by_cases hlt : i < hi / 8 + 1
    · have hsz : i < (ports.foldl (fun (a : Array UInt8) p => a.modify (p / 8) (fun b => b ||| wksMask msb p))
          (Array.replicate (hi / 8 + 1) 0)).size := by
        rw [foldl_modify_size ports _ (fun p b => b ||| wksMask msb p)]; simpa using hlt
      rw [Array.getElem?_eq_getElem hsz]
      simp only [List.getElem?_map, List.getElem?_range hlt, Option.map_some]
      congr 1
      apply UInt8.toNat_inj.mp
      apply Nat.eq_of_testBit_eq
      intro k
      have hf := wksFold_testBit msb ports (Array.replicate (hi / 8 + 1) 0) i k (by simpa using hlt)
      rw [Array.getElem?_eq_getElem hsz] at hf
      simp only [Option.getD_some] at hf
      rw [hf]
      simp only [Array.getElem?_replicate, hlt, if_true, Option.getD_some, UInt8.toNat_zero, Nat.zero_testBit,
        Bool.false_or, wksMask_toNat]
      cases msb
      · -- least significant bit first
        simp only [Bool.false_eq_true, if_false, Nat.testBit_two_pow, revBits_testBit, wksOctet_testBit]
        rw [Bool.eq_iff_iff]
        simp only [List.any_eq_true, Bool.and_eq_true, beq_iff_eq, decide_eq_true_eq]
        constructor
        · rintro ⟨p, hp, rfl, rfl⟩
          have h8 : p % 8 < 8 := Nat.mod_lt _ (by decide)
          refine ⟨h8, by omega, ?_⟩
          have : 8 * (p / 8) + (7 - (7 - p % 8)) = p := by omega
          rw [this]; exact hp
        · rintro ⟨h8, _, hm⟩
          exact ⟨_, hm, by omega, by omega⟩
      · -- most significant bit first
        simp only [if_true, Nat.testBit_two_pow, id, wksOctet_testBit]
        rw [Bool.eq_iff_iff]
        simp only [List.any_eq_true, Bool.and_eq_true, beq_iff_eq, decide_eq_true_eq]
        constructor
        · rintro ⟨p, hp, rfl, rfl⟩
          have h8 : p % 8 < 8 := Nat.mod_lt _ (by decide)
          refine ⟨by omega, ?_⟩
          have : 8 * (p / 8) + (7 - (7 - p % 8)) = p := by omega
          rw [this]; exact hp
        · rintro ⟨h8, hm⟩
          exact ⟨_, hm, by omega, by omega⟩
    · have hsz : ¬ i < (ports.foldl (fun (a : Array UInt8) p => a.modify (p / 8) (fun b => b ||| wksMask msb p))
          (Array.replicate (hi / 8 + 1) 0)).size := by
        rw [foldl_modify_size ports _ (fun p b => b ||| wksMask msb p)]; simpa using hlt
      rw [Array.getElem?_eq_none (by omega)]
      symm
      apply List.getElem?_eq_none
      simp; omega

end QV.ZF
