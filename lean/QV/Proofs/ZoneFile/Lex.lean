/-
  QV.Proofs.ZoneFile.Lex — the proof vocabulary for the zone-file parser model and the lemmas
  about the lexical layer (`QV.Model.ZoneFile.Lex`).

  `T p Q`  : parser `p` never panics, never reports `ModelStuck`, never grows the remaining input,
             and every value it returns satisfies `Q`.
  `TS p Q` : the same, and a successful run consumes at least one octet.
-/
import QV.Model.ZoneFile.Parser

namespace QV.ZF
open QV

/-! ### triples -/

def Good {α} (r : R α) (n : Nat) (Q : α → Prop) : Prop :=
  match r with
  | .ok (a, st') => Q a ∧ st'.inp.length ≤ n
  | .err e => e.kind ≠ .ModelStuck
  | .panic => False

def GoodS {α} (r : R α) (n : Nat) (Q : α → Prop) : Prop :=
  match r with
  | .ok (a, st') => Q a ∧ st'.inp.length < n
  | .err e => e.kind ≠ .ModelStuck
  | .panic => False

def T {α} (p : P α) (Q : α → Prop) : Prop := ∀ st, Good (p st) st.inp.length Q
def TS {α} (p : P α) (Q : α → Prop) : Prop := ∀ st, GoodS (p st) st.inp.length Q

theorem GoodS.good {α} {r : R α} {n : Nat} {Q : α → Prop} (h : GoodS r n Q) : Good r n Q := by
  unfold GoodS at h; unfold Good
  split <;> simp_all <;> omega

theorem TS.t {α} {p : P α} {Q : α → Prop} (h : TS p Q) : T p Q := fun st => (h st).good

theorem Good.weaken {α} {r : R α} {n m : Nat} {Q Q' : α → Prop} (h : Good r n Q) (hnm : n ≤ m)
    (hq : ∀ a, Q a → Q' a) : Good r m Q' := by
  unfold Good at *
  split
  · exact ⟨hq _ h.1, by have := h.2; omega⟩
  · exact h
  · exact h

theorem T.weaken {α} {p : P α} {Q Q' : α → Prop} (h : T p Q) (hq : ∀ a, Q a → Q' a) : T p Q' :=
  fun st => (h st).weaken (Nat.le_refl _) hq

theorem TS.weaken {α} {p : P α} {Q Q' : α → Prop} (h : TS p Q) (hq : ∀ a, Q a → Q' a) : TS p Q' := by
  intro st
  have h1 := h st
  unfold GoodS at *
  split
  · next heq => rw [heq] at h1; exact ⟨hq _ h1.1, h1.2⟩
  · next heq => rw [heq] at h1; exact h1
  · next heq => rw [heq] at h1; exact h1

theorem T_pure {α} {a : α} {Q : α → Prop} (h : Q a) : T (pure a : P α) Q := by
  intro st; simp [pure, P.pure, Good, h]

theorem T_bind {α β} {p : P α} {f : α → P β} {Q : α → Prop} {R : β → Prop}
    (hp : T p Q) (hf : ∀ a, Q a → T (f a) R) : T (p >>= f) R := by
  intro st
  have h1 := hp st
  simp only [bind, P.bind]
  unfold Good at h1
  split at h1
  · next a st' heq =>
    rw [heq]; simp only
    have h2 := hf a h1.1 st'
    exact h2.weaken h1.2 (fun _ h => h)
  · next e heq => rw [heq]; simp_all [Good]
  · next heq => rw [heq]; simp_all [Good]

theorem TS_bind_left {α β} {p : P α} {f : α → P β} {Q : α → Prop} {R : β → Prop}
    (hp : TS p Q) (hf : ∀ a, Q a → T (f a) R) : TS (p >>= f) R := by
  intro st
  have h1 := hp st
  simp only [bind, P.bind]
  unfold GoodS at h1
  split at h1
  · next a st' heq =>
    rw [heq]; simp only
    have h2 := hf a h1.1 st'
    unfold Good at h2; unfold GoodS
    split <;> simp_all
    omega
  · next e heq => rw [heq]; simp_all [GoodS]
  · next heq => rw [heq]; simp_all [GoodS]

theorem TS_bind_right {α β} {p : P α} {f : α → P β} {Q : α → Prop} {R : β → Prop}
    (hp : T p Q) (hf : ∀ a, Q a → TS (f a) R) : TS (p >>= f) R := by
  intro st
  have h1 := hp st
  simp only [bind, P.bind]
  unfold Good at h1
  split at h1
  · next a st' heq =>
    rw [heq]; simp only
    have h2 := hf a h1.1 st'
    unfold GoodS at h2 ⊢
    split <;> simp_all
    omega
  · next e heq => rw [heq]; simp_all [GoodS]
  · next heq => rw [heq]; simp_all [GoodS]

theorem T_fail {α} {k : Kind} {Q : α → Prop} (h : k ≠ .ModelStuck) : T (P.fail k : P α) Q := by
  intro st; simp [P.fail, fail, Good, h]

theorem TS_fail {α} {k : Kind} {Q : α → Prop} (h : k ≠ .ModelStuck) : TS (P.fail k : P α) Q := by
  intro st; simp [P.fail, fail, GoodS, h]

theorem T_failAt {α} {k : Kind} {l : Nat} {Q : α → Prop} (h : k ≠ .ModelStuck) :
    T (P.failAt k l : P α) Q := by
  intro st; simp [P.failAt, fail, Good, h]

theorem T_getLine : T getLine (fun _ => True) := by
  intro st; simp [getLine, Good]

theorem T_tryP {α} {p : P α} {Q : α → Prop} (h : T p Q) :
    T (tryP p) (fun o => ∀ a, o = some a → Q a) := by
  intro st
  have h1 := h st
  unfold tryP
  unfold Good at h1 ⊢
  split at h1 <;> simp_all

/-! ### the lexical layer -/

theorem fieldLen_le (l : List UInt8) : fieldLen l ≤ l.length := by
  induction l with
  | nil => simp [fieldLen]
  | cons c rest ih => unfold fieldLen; split <;> simp <;> omega

theorem fieldLen_pos {l : List UInt8} (h : atFieldEnd l = false) : 0 < fieldLen l := by
  cases l with
  | nil => simp [atFieldEnd] at h
  | cons c rest => unfold fieldLen; simp [h]

theorem fieldLen_zero {l : List UInt8} (h : atFieldEnd l = true) : fieldLen l = 0 := by
  cases l with
  | nil => simp [fieldLen]
  | cons c rest => unfold fieldLen; simp [h]

/-- `read_field`: returns a parsed value; a parser that rejects the empty string makes it strict -/
theorem T_readField {α} (parse : List UInt8 → Option α) (k : Kind) (hk : k ≠ .ModelStuck) :
    T (readField parse k) (fun v => ∃ s, parse s = some v) := by
  intro st
  unfold readField
  simp only
  split
  · simp [fail, Good]
  · split
    · simp [fail, Good]
    · split
      · next v hv => simp only [Good, List.length_drop]; exact ⟨⟨_, hv⟩, by omega⟩
      · simp [fail, Good, hk]

theorem TS_readField {α} (parse : List UInt8 → Option α) (k : Kind) (hk : k ≠ .ModelStuck)
    (hempty : parse [] = none) : TS (readField parse k) (fun v => ∃ s, parse s = some v) := by
  intro st
  unfold readField
  simp only
  split
  · simp [fail, GoodS]
  · split
    · simp [fail, GoodS]
    · split
      · next v hv =>
        simp only [GoodS, List.length_drop]
        refine ⟨⟨_, hv⟩, ?_⟩
        have hl := fieldLen_le st.inp
        have : 0 < fieldLen st.inp := by
          rcases Nat.eq_zero_or_pos (fieldLen st.inp) with h0 | h0
          · rw [h0] at hv; simp [hempty] at hv
          · exact h0
        omega
      · simp [fail, GoodS, hk]

theorem expectFieldImpl_le (cmp : List UInt8 → List UInt8 → Bool) (f : List UInt8) (st : St) :
    (expectFieldImpl cmp f st).2.inp.length ≤ st.inp.length := by
  unfold expectFieldImpl
  split
  · simp
  · split <;> simp

theorem expectFieldImpl_true_lt (cmp : List UInt8 → List UInt8 → Bool) (f : List UInt8) (st : St)
    (hf : 0 < f.length) (h : (expectFieldImpl cmp f st).1 = true) :
    (expectFieldImpl cmp f st).2.inp.length < st.inp.length := by
  unfold expectFieldImpl at h ⊢
  split
  · next h1 => simp [h1] at h
  · next h1 =>
    split
    · simp; omega
    · next h2 => simp [h1, h2] at h

theorem T_liftB {f : St → Bool × St} (h : ∀ st, (f st).2.inp.length ≤ st.inp.length) :
    T (liftB f) (fun _ => True) := by
  intro st; simp [liftB, Good, h]

/-- `liftB f` records in its postcondition that a `true` answer consumed input -/
theorem T_liftB_expect (cmp : List UInt8 → List UInt8 → Bool) (f : List UInt8) :
    T (liftB (expectFieldImpl cmp f)) (fun _ => True) :=
  T_liftB (expectFieldImpl_le cmp f)

theorem skipWhitespace_le (st : St) : (skipWhitespace st).2.inp.length ≤ st.inp.length := by
  unfold skipWhitespace
  split
  · simp
  · simp only; exact (List.dropWhile_sublist _).length_le

theorem takeEol_skipToEol_le (rest : List UInt8) (line : Nat) :
    (takeEol (skipToEol rest) line).1.length ≤ rest.length :=
  Nat.le_trans (takeEol_length_le _ _) (skipToEol_length_le _)

/-- the outcome of `field_or_eol_skipping_impl` never grows the input, never panics -/
theorem fieldOrEol_good (through : Bool) (inp : List UInt8) (line : Nat) (paren : Bool) :
    Good (fieldOrEol through inp line paren) inp.length (fun _ => True) := by
  fun_induction fieldOrEol through inp line paren
  all_goals (simp only [Good, fail])
  all_goals try (simp; done)
  all_goals try (rename_i ih; refine ih.weaken ?_ (fun _ h => h); simp; done)
  · rename_i line c rest _ _ _ ih
    refine ih.weaken ?_ (fun _ h => h)
    have := takeEol_skipToEol_le rest line; simp; omega
  · rename_i line _ c rest _ _ _ _ _
    have := takeEol_skipToEol_le rest line; simp; omega
  · rename_i line _ c rest _ _ _ _ _
    have := skipToEol_length_le rest; simp; omega

theorem fieldOrEol_le {through : Bool} {inp : List UInt8} {line : Nat} {paren : Bool}
    {r : FieldOrEol} {st' : St} (h : fieldOrEol through inp line paren = .ok (r, st')) :
    st'.inp.length ≤ inp.length := by
  have g := fieldOrEol_good through inp line paren
  rw [h] at g
  exact g.2

/-- a successful skip *through* a line ending consumes at least one octet (unless at EOF) -/
theorem fieldOrEol_eol_strict {c : UInt8} {rest : List UInt8} {line : Nat} {paren : Bool} {st' : St}
    (h : fieldOrEol true (c :: rest) line paren = .ok (.Eol, st')) :
    st'.inp.length < (c :: rest).length := by
  unfold fieldOrEol at h
  split at h
  · have := fieldOrEol_le h; simp; omega
  · split at h
    · next n hn =>
      have hpos := eolLen_cons_pos hn
      split at h
      · have := fieldOrEol_le h; simp at this ⊢; omega
      · simp at h; rw [← h]; simp; omega
    · split at h
      · split at h
        · have := fieldOrEol_le h
          have := takeEol_skipToEol_le rest line; simp; omega
        · simp at h; rw [← h]
          have := takeEol_skipToEol_le rest line; simp; omega
      · split at h
        · split at h
          · simp [fail] at h
          · have := fieldOrEol_le h; simp; omega
        · split at h
          · split at h
            · simp [fail] at h
            · have := fieldOrEol_le h; simp; omega
          · simp at h

/-- skipping to the next field from a position that is a field end consumes at least one octet -/
theorem fieldOrEol_field_strict {through : Bool} {inp : List UInt8} {line : Nat} {paren : Bool}
    {st' : St} (hfe : atFieldEnd inp = true)
    (h : fieldOrEol through inp line paren = .ok (.Field, st')) :
    st'.inp.length < inp.length := by
  cases inp with
  | nil => unfold fieldOrEol at h; split at h <;> simp [fail] at h
  | cons c rest =>
    unfold fieldOrEol at h
    split at h
    · have := fieldOrEol_le h; simp; omega
    · split at h
      · next n hn =>
        have hpos := eolLen_cons_pos hn
        split at h
        · have := fieldOrEol_le h; simp at this ⊢; omega
        · split at h <;> simp at h
      · next hnone =>
        split at h
        · split at h
          · have := fieldOrEol_le h
            have := takeEol_skipToEol_le rest line; simp; omega
          · split at h <;> simp at h
        · split at h
          · split at h
            · simp [fail] at h
            · have := fieldOrEol_le h; simp; omega
          · split at h
            · split at h
              · simp [fail] at h
              · have := fieldOrEol_le h; simp; omega
            · -- the octet is field data, contradicting `atFieldEnd`
              simp [atFieldEnd, hnone, endsField] at hfe
              simp_all

/-! ### navigation wrappers -/

theorem T_skipThrough : T skipToNextFieldOrThroughEol (fun _ => True) :=
  fun st => fieldOrEol_good true st.inp st.line st.paren

theorem T_skipTo : T skipToNextFieldOrToEol (fun _ => True) :=
  fun st => fieldOrEol_good false st.inp st.line st.paren

theorem T_skipToNextField (k : Kind) (hk : k ≠ .ModelStuck) : T (skipToNextField k) (fun _ => True) := by
  unfold skipToNextField
  refine T_bind T_skipTo ?_
  intro r _
  split
  · exact T_fail hk
  · exact T_pure trivial

theorem T_expectEol : T expectEol (fun _ => True) := by
  unfold expectEol
  refine T_bind T_skipThrough ?_
  intro r _
  split
  · exact T_fail (by decide)
  · exact T_pure trivial

end QV.ZF
