/-
  QV.Proofs.ZoneFile.Record — the record layer: every typed RDATA parser builds RDATA its
  validator accepts; the RFC 3597 form is validated explicitly; the generated dispatch table of
  `parse_rdata` agrees with the dispatch table of `Rdata::validate`.
-/
import QV.Proofs.ZoneFile.Valid

namespace QV.ZF
open QV QV.Wire QV.Rdata

/-- `rd` passes the validator named `v` (a `Rdata::validate_as_*` function of the RDATA model) -/
def AcceptedBy (v : String) (rd : List UInt8) : Prop :=
  ∃ f, validateHandler v = some f ∧ f rd.toArray = .ok ()

/-- the names in a parse context are well-formed absolute names -/
def CtxWF (ctx : Ctx) : Prop :=
  (∀ o, ctx.origin = some o → NameWF o) ∧ (∀ o, ctx.prevOwner = some o → NameWF o)

theorem CtxWF_default : CtxWF {} := ⟨by simp, by simp⟩

/-! ### facts about the std parsers -/

theorem digitsVal_le {max : Nat} {s : List UInt8} {acc v : Nat} (hacc : acc ≤ max)
    (h : digitsVal max s acc = some v) : v ≤ max := by
  induction s generalizing acc with
  | nil => simp [digitsVal] at h; omega
  | cons c rest ih =>
    unfold digitsVal at h
    split at h
    · dsimp only at h
      split at h
      · cases h
      · exact ih (by omega) h
    · cases h

theorem parseUInt_le {max : Nat} {s : List UInt8} {v : Nat} (h : parseUInt max s = some v) : v ≤ max := by
  unfold parseUInt at h
  repeat' split at h
  all_goals first | (cases h; done) | exact digitsVal_le (Nat.zero_le _) ‹_›

theorem parseUInt_nil (max : Nat) : parseUInt max [] = none := rfl

theorem readIpv4_length {s a r : List UInt8} (h : readIpv4 s = some (a, r)) : a.length = 4 := by
  unfold readIpv4 at h
  dsimp only at h
  split at h
  · cases h
  · split at h
    · cases h
    · split at h
      · cases h
      · split at h
        · cases h
        · simp at h; obtain ⟨rfl, _⟩ := h; rfl

theorem parseIpv4_length {s a : List UInt8} (h : parseIpv4 s = some a) : a.length = 4 := by
  unfold parseIpv4 at h
  split at h
  · cases h
  · split at h
    · next a' heq => cases h; exact readIpv4_length heq
    · cases h

theorem readGroups_length (limit : Nat) (n i : Nat) (s : List UInt8) (hni : n + i = limit) :
    (readGroups limit n i s).1.length ≤ n := by
  induction n generalizing i s with
  | zero => simp [readGroups]
  | succ n ih =>
    unfold readGroups
    dsimp only
    split
    · next o r hv4 =>
      simp
      split at hv4
      · omega
      · cases hv4
    · split
      · next g r hg =>
        have := ih (i + 1) r (by omega)
        simp; omega
      · simp

theorem flatMap_u16be_length (gs : List Nat) : (gs.flatMap u16be').length = 2 * gs.length := by
  induction gs with
  | nil => simp
  | cons g gs ih => simp [List.flatMap_cons, u16be', ih]; omega

theorem parseIpv6_length {s a : List UInt8} (h : parseIpv6 s = some a) : a.length = 16 := by
  unfold parseIpv6 at h
  have hh := readGroups_length 8 8 0 s rfl
  revert h
  generalize readGroups 8 8 0 s = res at hh
  obtain ⟨head, headV4, r⟩ := res
  simp only
  intro h
  split at h
  · next h8 =>
    split at h
    · cases h; simp at h8; rw [flatMap_u16be_length, h8]
    · cases h
  · next h8 =>
    split at h
    · cases h
    · split at h
      · cases h
      · split at h
        · cases h
        · next r2 _ =>
          have ht := readGroups_length (8 - (head.length + 1)) (8 - (head.length + 1)) 0 r2 rfl
          revert h
          generalize readGroups (8 - (head.length + 1)) (8 - (head.length + 1)) 0 r2 = res2 at ht
          obtain ⟨tail, tv4, r3⟩ := res2
          simp only
          intro h
          split at h
          · cases h
            rw [flatMap_u16be_length]
            simp at hh ht h8 ⊢
            omega
          · cases h

theorem u16be_length (n : Nat) : (u16be n).length = 2 := rfl
theorem u32be_length (n : Nat) : (u32be n).length = 4 := rfl

/-! ### small parsers -/

theorem T_mkRdata {l : List UInt8} {Q : List UInt8 → Prop} (hl : l.length ≤ 65535) (hq : Q l) :
    T (mkRdata l) Q := by
  intro st
  unfold mkRdata
  have : ¬ (l.length > 65535) := by omega
  simp [this, Good, hq]

theorem T_pName {ctx : Ctx} (h : CtxWF ctx) : T (pName ctx) NameWF := T_parseName _ h.1

theorem T_readU16 (k : Kind) (hk : k ≠ .ModelStuck) : T (readField parseU16 k) (fun v => v ≤ 65535) :=
  (T_readField parseU16 k hk).weaken (fun _ ⟨_, h⟩ => parseUInt_le h)

theorem T_readU32 (k : Kind) (hk : k ≠ .ModelStuck) : T (readField parseU32 k) (fun _ => True) :=
  (T_readField parseU32 k hk).weaken (fun _ _ => trivial)

theorem T_readIpv4 (k : Kind) (hk : k ≠ .ModelStuck) : T (readField parseIpv4 k) (fun a => a.length = 4) :=
  (T_readField parseIpv4 k hk).weaken (fun _ ⟨_, h⟩ => parseIpv4_length h)

theorem T_readIpv6 (k : Kind) (hk : k ≠ .ModelStuck) : T (readField parseIpv6 k) (fun a => a.length = 16) :=
  (T_readField parseIpv6 k hk).weaken (fun _ ⟨_, h⟩ => parseIpv6_length h)

/-! ### typed RDATA parsers -/

theorem T_nameRdataBody {ctx : Ctx} (h : CtxWF ctx) :
    T (nameRdataBody ctx) (AcceptedBy "validate_name") := by
  unfold nameRdataBody
  refine T_bind (T_pName h) ?_; intro name hn
  refine T_bind T_expectEol ?_; intro _ _
  exact T_mkRdata (by have := hn.length_le; omega) ⟨validateName, by simp [validateHandler], name_valid hn⟩

theorem T_inARdataBody : T inARdataBody (AcceptedBy "validate_as_in_a") := by
  unfold inARdataBody
  refine T_bind (T_readIpv4 _ (by decide)) ?_; intro a ha
  refine T_bind T_expectEol ?_; intro _ _
  exact T_mkRdata (by omega) ⟨validateAsInA, by simp [validateHandler], inA_valid ha⟩

theorem T_inAaaaRdataBody : T inAaaaRdataBody (AcceptedBy "validate_as_in_aaaa") := by
  unfold inAaaaRdataBody
  refine T_bind (T_readIpv6 _ (by decide)) ?_; intro a ha
  refine T_bind T_expectEol ?_; intro _ _
  exact T_mkRdata (by omega) ⟨validateAsInAaaa, by simp [validateHandler], inAaaa_valid ha⟩

/-- outcome of a list-level loop returning `(value, rest)` -/
def GoodT {α} (r : Out Err (α × List UInt8)) (n : Nat) : Prop :=
  match r with
  | .ok (_, rest) => rest.length ≤ n
  | .err e => e.kind ≠ .ModelStuck
  | .panic => False

theorem chaosLoop_good (startLine : Nat) (l : List UInt8) (addr : Nat) :
    GoodT (chaosLoop startLine l addr) l.length := by
  induction l generalizing addr with
  | nil => simp [chaosLoop, GoodT]
  | cons c rest ih =>
    unfold chaosLoop
    split
    · simp [GoodT]
    · split
      · split
        · simp [fail, GoodT]
        · have := ih (addr * 8 + (c.toNat - 48))
          unfold GoodT at this ⊢
          split <;> simp_all
          omega
      · simp [fail, GoodT]

theorem T_parseChaosnetAddress : T parseChaosnetAddress (fun _ => True) := by
  intro st
  unfold parseChaosnetAddress
  have := chaosLoop_good st.line st.inp 0
  unfold GoodT at this
  split at this <;> simp_all [Good]

theorem T_chARdataBody {ctx : Ctx} (h : CtxWF ctx) :
    T (chARdataBody ctx) (AcceptedBy "validate_as_ch_a") := by
  unfold chARdataBody
  refine T_bind (T_pName h) ?_; intro lan hl
  refine T_bind (T_skipToNextField _ (by decide)) ?_; intro _ _
  refine T_bind T_parseChaosnetAddress ?_; intro addr _
  refine T_bind T_expectEol ?_; intro _ _
  exact T_mkRdata (by have := hl.length_le; simp [u16be_length]; omega)
    ⟨validateAsChA, by simp [validateHandler], chA_valid hl (u16be_length _)⟩

theorem T_soaRdataBody {ctx : Ctx} (h : CtxWF ctx) :
    T (soaRdataBody ctx) (AcceptedBy "validate_as_soa") := by
  unfold soaRdataBody
  refine T_bind (T_pName h) ?_; intro m hm
  refine T_bind (T_skipToNextField _ (by decide)) ?_; intro _ _
  refine T_bind (T_pName h) ?_; intro r hr
  refine T_bind (T_skipToNextField _ (by decide)) ?_; intro _ _
  refine T_bind (T_readU32 _ (by decide)) ?_; intro a1 _
  refine T_bind (T_skipToNextField _ (by decide)) ?_; intro _ _
  refine T_bind (T_readU32 _ (by decide)) ?_; intro a2 _
  refine T_bind (T_skipToNextField _ (by decide)) ?_; intro _ _
  refine T_bind (T_readU32 _ (by decide)) ?_; intro a3 _
  refine T_bind (T_skipToNextField _ (by decide)) ?_; intro _ _
  refine T_bind (T_readU32 _ (by decide)) ?_; intro a4 _
  refine T_bind (T_skipToNextField _ (by decide)) ?_; intro _ _
  refine T_bind (T_readU32 _ (by decide)) ?_; intro a5 _
  refine T_bind T_expectEol ?_; intro _ _
  have e : m ++ r ++ u32be a1 ++ u32be a2 ++ u32be a3 ++ u32be a4 ++ u32be a5
      = m ++ r ++ (u32be a1 ++ u32be a2 ++ u32be a3 ++ u32be a4 ++ u32be a5) := by simp
  rw [e]
  refine T_mkRdata ?_ ⟨validateAsSoa, by simp [validateHandler], soa_valid hm hr (by simp [u32be_length])⟩
  have := hm.length_le; have := hr.length_le
  simp [u32be_length]; omega

theorem T_minfoRdataBody {ctx : Ctx} (h : CtxWF ctx) :
    T (minfoRdataBody ctx) (AcceptedBy "validate_as_minfo") := by
  unfold minfoRdataBody
  refine T_bind (T_pName h) ?_; intro r hr
  refine T_bind (T_skipToNextField _ (by decide)) ?_; intro _ _
  refine T_bind (T_pName h) ?_; intro e he
  refine T_bind T_expectEol ?_; intro _ _
  refine T_mkRdata ?_ ⟨validateAsMinfo, by simp [validateHandler], minfo_valid hr he⟩
  have := he.length_le; have := hr.length_le
  simp; omega

theorem T_mxRdataBody {ctx : Ctx} (h : CtxWF ctx) :
    T (mxRdataBody ctx) (AcceptedBy "validate_as_mx") := by
  unfold mxRdataBody
  refine T_bind (T_readU16 _ (by decide)) ?_; intro p _
  refine T_bind (T_skipToNextField _ (by decide)) ?_; intro _ _
  refine T_bind (T_pName h) ?_; intro ex hex
  refine T_bind T_expectEol ?_; intro _ _
  refine T_mkRdata ?_ ⟨validateAsMx, by simp [validateHandler], mx_valid (u16be_length _) hex⟩
  have := hex.length_le
  simp [u16be_length]; omega

theorem T_inSrvRdataBody {ctx : Ctx} (h : CtxWF ctx) :
    T (inSrvRdataBody ctx) (AcceptedBy "validate_as_in_srv") := by
  unfold inSrvRdataBody
  refine T_bind (T_readU16 _ (by decide)) ?_; intro p _
  refine T_bind (T_skipToNextField _ (by decide)) ?_; intro _ _
  refine T_bind (T_readU16 _ (by decide)) ?_; intro w _
  refine T_bind (T_skipToNextField _ (by decide)) ?_; intro _ _
  refine T_bind (T_readU16 _ (by decide)) ?_; intro port _
  refine T_bind (T_skipToNextField _ (by decide)) ?_; intro _ _
  refine T_bind (T_pName h) ?_; intro t ht
  refine T_bind T_expectEol ?_; intro _ _
  have e : u16be p ++ u16be w ++ u16be port ++ t = (u16be p ++ u16be w ++ u16be port) ++ t := by simp
  rw [e]
  refine T_mkRdata ?_ ⟨validateAsInSrv, by simp [validateHandler], inSrv_valid (by simp [u16be_length]) ht⟩
  have := ht.length_le
  simp [u16be_length]; omega

theorem T_hinfoRdataBody : T hinfoRdataBody (AcceptedBy "validate_as_hinfo") := by
  unfold hinfoRdataBody
  refine T_bind T_parseCharacterString ?_; intro c hc
  refine T_bind (T_skipToNextField _ (by decide)) ?_; intro _ _
  refine T_bind T_parseCharacterString ?_; intro o ho
  refine T_bind T_expectEol ?_; intro _ _
  have e : UInt8.ofNat c.length :: c ++ UInt8.ofNat o.length :: o = encCS c ++ encCS o := by simp [encCS]
  rw [e]
  refine T_mkRdata ?_ ⟨validateAsHinfo, by simp [validateHandler], hinfo_valid hc ho⟩
  simp [encCS]; omega

/-! ### WKS -/

theorem foldl_modify_size (ports : List Nat) (a : Array UInt8) (f : Nat → UInt8 → UInt8) :
    (ports.foldl (fun (a : Array UInt8) p => a.modify (p / 8) (f p)) a).size = a.size := by
  induction ports generalizing a with
  | nil => simp
  | cons p ps ih => simp [ih]

theorem foldl_max_le (ports : List Nat) (init : Option Nat) (hi : Nat)
    (hinit : ∀ x, init = some x → x ≤ 65535) (hp : ∀ p ∈ ports, p ≤ 65535)
    (h : ports.foldl (fun (m : Option Nat) p => some (match m with | some x => max x p | none => p)) init = some hi) :
    hi ≤ 65535 := by
  induction ports generalizing init with
  | nil => simp at h; exact hinit hi h
  | cons p ps ih =>
    simp only [List.foldl_cons] at h
    refine ih _ ?_ (fun q hq => hp q (by simp [hq])) h
    intro x hx
    have hp' := hp p (by simp)
    cases init with
    | none => simp at hx; omega
    | some y => have := hinit y rfl; simp at hx; omega

theorem newInWks_length (addr : List UInt8) (proto : Nat) (ports : List Nat) (h4 : addr.length = 4)
    (hp : ∀ p ∈ ports, p ≤ 65535) :
    5 ≤ (newInWks addr proto ports).length ∧ (newInWks addr proto ports).length ≤ 65535 := by
  unfold newInWks newInWksWith
  simp only [List.length_append, List.length_cons, Array.length_toList, foldl_modify_size, Array.size_replicate, h4]
  split
  · next hi heq =>
    have := foldl_max_le ports none hi (by simp) hp heq
    have h8 : hi / 8 ≤ 8191 := by
      have := Nat.div_le_div_right (c := 8) this
      omega
    refine ⟨by omega, ?_⟩
    calc 4 + (hi / 8 + 1 + 1) ≤ 4 + (8191 + 1 + 1) := by omega
      _ ≤ 65535 := by omega
  · omega

theorem parseU16_nil : parseU16 [] = none := rfl


theorem wksLoop_good (startLine : Nat) (st : St) (ports : List Nat) (n : Nat)
    (hports : ∀ p ∈ ports, p ≤ 65535) :
    Good (wksLoop startLine st ports n) st.inp.length (fun ps => ∀ p ∈ ps, p ≤ 65535) := by
  fun_induction wksLoop startLine st ports n
  all_goals (simp only [Good, fail])
  all_goals try (simp; done)
  case case1 st ports n st1 h =>
    exact ⟨by simpa using hports, fieldOrEol_le h⟩
  case case3 st ports n st1 hf hn p st2 hr hlt ih =>
    have hp : p ≤ 65535 := by
      have g := T_readU16 .InvalidInt (by decide) st1
      rw [hr] at g; exact g.1
    refine (ih ?_).weaken (by omega) (fun _ h => h)
    intro q hq
    simp at hq
    rcases hq with rfl | hq
    · exact hp
    · exact hports q hq
  case case4 st ports n st1 hf hn p st2 hr hnlt =>
    -- a round that consumed nothing: impossible
    have h1 := fieldOrEol_le hf
    have g := TS_readField parseU16 .InvalidInt (by decide) parseU16_nil st1
    rw [hr] at g
    have := g.2
    omega
  case case5 st ports n st1 hf hn e hr =>
    have g := T_readU16 .InvalidInt (by decide) st1
    rw [hr] at g; exact g
  case case6 st ports n st1 hf hn hr =>
    have g := T_readU16 .InvalidInt (by decide) st1
    rw [hr] at g; exact g
  case case7 st ports n e h =>
    have g := fieldOrEol_good true st.inp st.line st.paren
    rw [h] at g; exact g
  case case8 st ports n h =>
    have g := fieldOrEol_good true st.inp st.line st.paren
    rw [h] at g; exact g

theorem T_expectCI (f : List UInt8) : T (liftB (expectFieldCI f)) (fun _ => True) :=
  T_liftB (expectFieldImpl_le eqIgnoreCase f)

theorem T_expectExact (f : List UInt8) : T (liftB (expectField f)) (fun _ => True) :=
  T_liftB (expectFieldImpl_le (· == ·) f)

theorem T_inWksRdataBody : T inWksRdataBody (AcceptedBy "validate_as_in_wks") := by
  unfold inWksRdataBody
  refine T_bind T_getLine ?_; intro startLine _
  refine T_bind (T_readIpv4 _ (by decide)) ?_; intro addr ha
  refine T_bind (T_skipToNextField _ (by decide)) ?_; intro _ _
  have jp : ∀ proto : Nat, T (do
      let ports ← fun st => wksLoop startLine st [] 0
      mkRdata (newInWks addr proto ports)) (AcceptedBy "validate_as_in_wks") := by
    intro proto
    refine T_bind (Q := fun (ps : List Nat) => ∀ p ∈ ps, p ≤ 65535)
      (fun st => wksLoop_good startLine st [] 0 (by simp)) ?_
    intro ports hp
    have := newInWks_length addr proto ports ha hp
    exact T_mkRdata this.2 ⟨validateAsInWks, by simp [validateHandler], inWks_valid this.1⟩
  refine T_bind (T_expectCI _) ?_; intro b _
  dsimp only
  split
  · refine T_bind (T_pure (Q := fun _ => True) trivial) ?_; intro proto _; exact jp proto
  · refine T_bind (T_expectCI _) ?_; intro b2 _
    split
    · refine T_bind (T_pure (Q := fun _ => True) trivial) ?_; intro proto _; exact jp proto
    · refine T_bind ((T_readField parseU8 _ (by decide)).weaken (fun _ _ => trivial)) ?_
      intro proto _; exact jp proto

/-! ### TXT -/

theorem atFieldEnd_quote (rest : List UInt8) : atFieldEnd (34 :: rest) = false := by
  simp [atFieldEnd, eolLen, endsField, isWs]

/-- a string read at a field end is empty and consumes nothing -/
theorem parseString_at_field_end {max : Nat} {tooLong eofKind : Kind} {st st' : St} {s : List UInt8}
    (hfe : atFieldEnd st.inp = true) (h : parseString max tooLong eofKind st = .ok (s, st')) :
    st'.inp = st.inp := by
  unfold parseString at h
  split at h
  · next rest heq => rw [heq, atFieldEnd_quote] at hfe; cases hfe
  · unfold unquotedLoop at h
    simp [hfe] at h
    obtain ⟨_, rfl⟩ := h
    rfl

theorem txtLoop_good (startLine : Nat) (st : St) (acc : List UInt8)
    (hacc : ∃ es, (∀ e ∈ es, e.length ≤ 255) ∧ acc.reverse = flatCS es) :
    Good (txtLoop startLine st acc) st.inp.length
      (fun rd => rd.length ≤ 65535 ∧ ∃ es, es ≠ [] ∧ (∀ e ∈ es, e.length ≤ 255) ∧ rd = flatCS es) := by
  fun_induction txtLoop startLine st acc
  all_goals (simp only [Good, fail])
  all_goals try (simp; done)
  case case2 st acc cs st1 hs hlen acc' st2 hf =>
    -- the last string
    obtain ⟨es, hes, hrev⟩ := hacc
    have g := T_parseCharacterString st
    rw [hs] at g
    have h1 := fieldOrEol_le hf
    refine ⟨⟨?_, es ++ [cs], by simp, ?_, ?_⟩, by have := g.2; omega⟩
    · simp [acc']; omega
    · intro e he
      simp at he
      rcases he with he | rfl
      · exact hes e he
      · exact g.1
    · simp [acc', hrev, flatCS, encCS]
  case case3 st acc cs st1 hs hlen acc' st2 hf hlt ih =>
    obtain ⟨es, hes, hrev⟩ := hacc
    have g := T_parseCharacterString st
    rw [hs] at g
    refine (ih ⟨es ++ [cs], ?_, ?_⟩).weaken (by omega) (fun _ h => h)
    · intro e he
      simp at he
      rcases he with he | rfl
      · exact hes e he
      · exact g.1
    · simp [acc', hrev, flatCS, encCS]
  case case4 st acc cs st1 hs hlen st2 hf hnlt =>
    -- a round that consumed nothing: impossible
    have h1 := fieldOrEol_le hf
    have g := T_parseCharacterString st
    rw [hs] at g
    have hle := g.2
    cases hfe : atFieldEnd st.inp
    · have := parseString_strict (by decide) (by decide) hfe hs
      omega
    · have e := parseString_at_field_end hfe hs
      have := fieldOrEol_field_strict (by rw [e]; exact hfe) hf
      rw [e] at this
      omega
  case case5 st acc cs st1 hs hlen e h =>
    have g := fieldOrEol_good true st1.inp st1.line st1.paren
    rw [h] at g; exact g
  case case6 st acc cs st1 hs hlen h =>
    have g := fieldOrEol_good true st1.inp st1.line st1.paren
    rw [h] at g; exact g
  case case7 st acc e h =>
    have g := T_parseCharacterString st
    rw [h] at g; exact g
  case case8 st acc h =>
    have g := T_parseCharacterString st
    rw [h] at g; exact g

theorem T_txtRdataBody : T txtRdataBody (AcceptedBy "validate_as_txt") := by
  unfold txtRdataBody
  refine T_bind T_getLine ?_; intro startLine _
  refine T_bind (fun st => txtLoop_good startLine st [] ⟨[], by simp, by simp [flatCS]⟩) ?_
  intro rd ⟨hlen, es, hne, hes, he⟩
  subst he
  exact T_mkRdata hlen ⟨validateAsTxt, by simp [validateHandler], txt_valid hne hes⟩

/-! ### RFC 3597 generic form -/

theorem readFieldOctet_lt {st st' : St} {d : UInt8} (h : readFieldOctet st = some (d, st')) :
    st'.inp.length < st.inp.length := by
  unfold readFieldOctet at h
  split at h
  · cases h
  · split at h
    · cases h
    · next c rest heq => cases h; simp [heq]

theorem T_parseHexDigit : T parseHexDigit (fun _ => True) := by
  intro st
  unfold parseHexDigit
  cases h : readFieldOctet st with
  | none => simp [Good, fail]
  | some p =>
    obtain ⟨d, st'⟩ := p
    have := readFieldOctet_lt h
    simp only
    split
    · simp [Good]; omega
    · simp [Good, fail]

theorem T_hexDigits (n : Nat) (acc : List UInt8) :
    T (hexDigits n acc) (fun rd => rd.length = acc.length + n) := by
  induction n generalizing acc with
  | zero => unfold hexDigits; exact T_pure (by simp)
  | succ n ih =>
    unfold hexDigits
    refine T_bind T_parseHexDigit ?_; intro hi _
    refine T_bind T_parseHexDigit ?_; intro lo _
    exact (ih _).weaken (fun rd h => by simp at h; omega)

theorem T_parseUnknownRdataImpl : T parseUnknownRdataImpl (fun r => r.2.length ≤ 65535) := by
  unfold parseUnknownRdataImpl
  refine T_bind (T_skipToNextField _ (by decide)) ?_; intro _ _
  refine T_bind (T_readU16 _ (by decide)) ?_; intro len hlen
  have jp : ∀ res : Nat × List UInt8, res.2.length ≤ 65535 → T (do
      expectEol
      pure res) (fun r => r.2.length ≤ 65535) := by
    intro res hres
    refine T_bind T_expectEol ?_; intro _ _
    exact T_pure hres
  dsimp only
  split
  · refine T_bind (Q := fun (r : Nat × List UInt8) => r.2.length ≤ 65535) ?_ jp
    refine T_bind T_getLine ?_; intro l _
    exact T_pure (by simp)
  · refine T_bind (T_skipToNextField _ (by decide)) ?_; intro _ _
    refine T_bind T_getLine ?_; intro l _
    refine T_bind (T_hexDigits len []) ?_; intro rd hrd
    refine T_bind (T_mkRdata (Q := fun r => r.length ≤ 65535) (by simp at hrd; omega) (by simp at hrd; omega)) ?_
    intro rd' hrd'
    refine T_bind (T_pure (Q := fun (r : Nat × List UInt8) => r.2.length ≤ 65535) hrd') jp

theorem T_parseUnknownRdata : T parseUnknownRdata (fun rd => rd.length ≤ 65535) := by
  unfold parseUnknownRdata
  refine T_bind T_parseUnknownRdataImpl ?_; intro r hr
  exact T_pure hr

/-- the validator names used by the zone-file parser's handlers -/
def knownValidators : List String :=
  ["validate_name", "validate_as_in_a", "validate_as_ch_a", "validate_as_soa", "validate_as_in_wks",
   "validate_as_hinfo", "validate_as_minfo", "validate_as_mx", "validate_as_txt", "validate_as_in_aaaa",
   "validate_as_in_srv", "ok"]

theorem knownValidators_some {v : String} (hv : v ∈ knownValidators) : ∃ f, validateHandler v = some f := by
  simp only [knownValidators, List.mem_cons, List.mem_nil_iff, or_false] at hv
  rcases hv with rfl | rfl | rfl | rfl | rfl | rfl | rfl | rfl | rfl | rfl | rfl | rfl
  all_goals exact ⟨_, by simp [validateHandler]; rfl⟩

/-- the `\#` form: the RDATA is checked by the handler's validator -/
theorem T_parseUnknownRdataWithValidation {v : String} (hv : v ∈ knownValidators) :
    T (parseUnknownRdataWithValidation v) (AcceptedBy v) := by
  unfold parseUnknownRdataWithValidation
  refine T_bind T_parseUnknownRdataImpl ?_; intro r hr
  obtain ⟨f, hf⟩ := knownValidators_some hv
  simp only [hf]
  cases hres : f r.2.toArray with
  | ok u => exact T_pure ⟨f, hf, by cases u; exact hres⟩
  | err e => exact T_failAt (by decide)
  | panic => exact absurd hres (validateHandler_ne_panic (by simpa [knownValidators] using hv) hf _)

theorem T_checkBackslashHash (k : Kind) (hk : k ≠ .ModelStuck) : T (checkBackslashHash k) (fun _ => True) := by
  unfold checkBackslashHash
  refine T_bind (T_skipToNextField k hk) ?_; intro _ _
  exact T_expectExact _

/-! ### handlers and dispatch -/

/-- the validator a handler applies to RDATA in `\#` form (generated table `rdataHandlers`) -/
def validatorFor (h : String) : String :=
  match Gen.rdataHandlers.find? (fun x => x.1 == h) with
  | some x => x.2.2
  | none => ""

/-- the handlers named in the generated `parse_rdata` table -/
def handlerNames : List String := Gen.parseRdataArms.map (·.2.2)

theorem handlerNames_eq : handlerNames =
    ["parse_name_rdata", "parse_in_a_rdata", "parse_ch_a_rdata", "parse_soa_rdata", "parse_in_wks_rdata",
     "parse_hinfo_rdata", "parse_minfo_rdata", "parse_mx_rdata", "parse_txt_rdata", "parse_in_aaaa_rdata",
     "parse_in_srv_rdata"] := by decide

theorem T_runHandler_aux {name : String} (expected : String) {validator : String} {ctx : Ctx}
    {body : P (List UInt8)}
    (hfind : Gen.rdataHandlers.find? (fun h => h.1 == name) = some (name, expected, validator))
    (hv : validator ∈ knownValidators)
    (hbody : handlerBody name ctx = body) (hT : T body (AcceptedBy validator)) :
    T (runHandler name ctx) (AcceptedBy (validatorFor name)) := by
  have e : validatorFor name = validator := by simp [validatorFor, hfind]
  rw [e]
  unfold runHandler
  rw [hfind]
  simp only
  refine T_bind (T_checkBackslashHash _ ?_) ?_
  · unfold kindOfString; repeat' split
    all_goals decide
  · intro b _
    split
    · exact T_parseUnknownRdataWithValidation hv
    · rw [hbody]; exact hT

/-- every handler of the dispatch table yields RDATA its validator accepts, in typed and in
    generic form -/
theorem T_runHandler {name : String} (hname : name ∈ handlerNames) {ctx : Ctx} (hctx : CtxWF ctx) :
    T (runHandler name ctx) (AcceptedBy (validatorFor name)) := by
  rw [handlerNames_eq] at hname
  simp only [List.mem_cons, List.mem_nil_iff, or_false] at hname
  rcases hname with rfl | rfl | rfl | rfl | rfl | rfl | rfl | rfl | rfl | rfl | rfl
  · exact T_runHandler_aux "ExpectedNameOrBh" (by decide) (by decide) rfl (T_nameRdataBody hctx)
  · exact T_runHandler_aux "ExpectedIpv4OrBh" (by decide) (by decide) rfl T_inARdataBody
  · exact T_runHandler_aux "ExpectedNameOrBh" (by decide) (by decide) rfl (T_chARdataBody hctx)
  · exact T_runHandler_aux "ExpectedNameOrBh" (by decide) (by decide) rfl (T_soaRdataBody hctx)
  · exact T_runHandler_aux "ExpectedIpv4OrBh" (by decide) (by decide) rfl T_inWksRdataBody
  · exact T_runHandler_aux "ExpectedCharacterStringOrBh" (by decide) (by decide) rfl T_hinfoRdataBody
  · exact T_runHandler_aux "ExpectedNameOrBh" (by decide) (by decide) rfl (T_minfoRdataBody hctx)
  · exact T_runHandler_aux "ExpectedU16OrBh" (by decide) (by decide) rfl (T_mxRdataBody hctx)
  · exact T_runHandler_aux "ExpectedCharacterStringOrBh" (by decide) (by decide) rfl T_txtRdataBody
  · exact T_runHandler_aux "ExpectedIpv6OrBh" (by decide) (by decide) rfl T_inAaaaRdataBody
  · exact T_runHandler_aux "ExpectedU16OrBh" (by decide) (by decide) rfl (T_inSrvRdataBody hctx)

/-- two generated dispatch tables agree arm by arm: same type patterns, same class guards, and
    the second table's handler is the image of the first's under `vOf` -/
def agree (vOf : String → String) :
    List (List Nat × Option Nat × String) → List (List Nat × Option Nat × String) → Bool
  | [], _ => true
  | _ :: _, [] => false
  | x :: xs, y :: ys => x.1 == y.1 && x.2.1 == y.2.1 && vOf x.2.2 == y.2.2 && agree vOf xs ys

def guardOK (g : Option Nat) (c : Nat) : Bool :=
  match g with
  | none => true
  | some k => c == k

theorem lookup_cons (tys : List Nat) (g : Option Nat) (h : String)
    (rest : List (List Nat × Option Nat × String)) (dflt : String) (c t : Nat) :
    Rdata.lookup ((tys, g, h) :: rest) dflt c t =
      if (tys.contains t && guardOK g c) = true then h
      else Rdata.lookup rest dflt c t := by
  cases g <;> rfl

theorem lookup_agree (vOf : String → String) (dflt : String) (cls ty : Nat)
    (a1 a2 : List (List Nat × Option Nat × String)) (h : agree vOf a1 a2 = true) :
    match a1.find? (armMatches cls ty) with
    | some a => Rdata.lookup a2 dflt cls ty = vOf a.2.2
    | none => Rdata.lookup a2 dflt cls ty = Rdata.lookup (a2.drop a1.length) dflt cls ty := by
  induction a1 generalizing a2 with
  | nil => simp
  | cons x xs ih =>
    cases a2 with
    | nil => simp [agree] at h
    | cons y ys =>
      simp only [agree, Bool.and_eq_true, beq_iff_eq] at h
      obtain ⟨⟨⟨h1, h2⟩, h3⟩, h4⟩ := h
      obtain ⟨ty1, g1, n1⟩ := x
      obtain ⟨ty2, g2, n2⟩ := y
      simp only at h1 h2 h3
      subst h1 h2
      have hguard : armMatches cls ty (ty1, g1, n1) = (ty1.contains ty && guardOK g1 cls) := by
        unfold armMatches guardOK
        cases g1 with
        | none => rfl
        | some g => simp only; rw [Bool.beq_comm]
      rw [List.find?_cons, hguard, lookup_cons]
      generalize (ty1.contains ty && guardOK g1 cls) = b
      cases b
      · simp only [List.length_cons, List.drop_succ_cons, Bool.false_eq_true, ↓reduceIte]
        exact ih ys h4
      · simp only [↓reduceIte]
        exact h3.symm

theorem tables_agree : agree validatorFor Gen.parseRdataArms Gen.rdataValidateArms = true := by decide

theorem findArm_mem {cls ty : Nat} {h : String} (hf : findArm cls ty = some h) : h ∈ handlerNames := by
  unfold findArm at hf
  split at hf
  · next a ha =>
    cases hf
    exact List.mem_map.mpr ⟨a, List.mem_of_find?_eq_some ha, rfl⟩
  · cases hf

/-- the `parse_rdata` dispatch and the `Rdata::validate` dispatch select matching
    handler / validator pairs for every class and type -/
theorem dispatch_agree {cls ty : Nat} {h : String} (hf : findArm cls ty = some h) :
    Rdata.lookup Gen.rdataValidateArms Gen.rdataValidateDefault cls ty = validatorFor h := by
  have := lookup_agree validatorFor Gen.rdataValidateDefault cls ty _ _ tables_agree
  unfold findArm at hf
  split at hf
  · next a ha => cases hf; rw [ha] at this; exact this
  · cases hf

theorem dispatch_default {cls ty : Nat} (hf : findArm cls ty = none) (h41 : ty ≠ 41) (h250 : ty ≠ 250) :
    Rdata.lookup Gen.rdataValidateArms Gen.rdataValidateDefault cls ty = "ok" := by
  have := lookup_agree validatorFor Gen.rdataValidateDefault cls ty _ _ tables_agree
  unfold findArm at hf
  split at hf
  · cases hf
  · next ha =>
    rw [ha] at this
    rw [this]
    simp [Gen.parseRdataArms, Gen.rdataValidateArms, Rdata.lookup, Gen.rdataValidateDefault, h41, h250]

/-- `parse_rdata`: the RDATA it returns passes `Rdata::validate` for the record's class and type -/
theorem T_parseRdata {ctx : Ctx} (hctx : CtxWF ctx) (cls ty : Nat) (h41 : ty ≠ 41) (h250 : ty ≠ 250) :
    T (parseRdata ctx cls ty) (fun rd => validate cls ty rd = .ok ()) := by
  unfold parseRdata
  split
  · next h hf =>
    refine (T_runHandler (findArm_mem hf) hctx).weaken ?_
    intro rd ⟨f, hfv, hok⟩
    unfold validate Rdata.validate
    rw [dispatch_agree hf, hfv]
    exact hok
  · next hf =>
    refine T_bind (T_checkBackslashHash _ (by decide)) ?_; intro b _
    split
    · exact T_fail (by decide)
    · refine T_parseUnknownRdata.weaken ?_
      intro rd _
      unfold validate Rdata.validate
      rw [dispatch_default hf h41 h250]
      simp [validateHandler]

end QV.ZF
