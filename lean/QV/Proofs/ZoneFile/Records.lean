/-
  QV.Proofs.ZoneFile.Records — the record parser on rendered records, directives, and whole
  files of the presentation subset of `C23_records_partial`.
-/
import QV.Proofs.ZoneFile.Gaps

namespace QV.ZF
open QV QV.Spec.ZF

/-! ### TTL and class, written or omitted -/

/-- the TTL value: the written one (RFC 2181 clamp), else `default_or_previous_ttl` -/
def ttlChoice (ctx : Ctx) : Option Nat → Option Nat
  | some t => some (ttlFrom t)
  | none => defaultOrPreviousTtl ctx

/-- the class value: the written one, else the previous record's -/
def clsChoice (ctx : Ctx) : Option Nat → Option Nat
  | some k => some k
  | none => ctx.prevClass

/-- TTL and class texts, each present or not, in either order; `gA` after the first that is
    present, `gB` after the second -/
def tcText (gA gB : List UInt8) (ttl : Option Nat) (clsT : Option (List UInt8)) (cf : Bool) : List UInt8 :=
  match ttl, clsT with
  | some t, some c => if cf then c ++ (gA ++ (decimal t ++ gB)) else decimal t ++ (gA ++ (c ++ gB))
  | some t, none => decimal t ++ gA
  | none, some c => c ++ gA
  | none, none => []

theorem ttlClassText_eq (gA gB : List UInt8) (ttl : Option Nat) (cls : Option PCode) (cf : Bool) :
    ttlClassText gA gB ttl cls cf = tcText gA gB ttl (cls.map classText) cf := by
  cases ttl <;> cases cls <;> rfl

/-- parenthesis state after the TTL and class fields -/
def tcEnd {α β} (q1 q2 q3 : Bool) (ttl : Option α) (cls : Option β) : Bool :=
  match ttl, cls with
  | some _, some _ => q3
  | none, none => q1
  | _, _ => q2

/-- line ends in the gaps after the TTL and class fields -/
def tcLines {α β} (a b : Nat) (ttl : Option α) (cls : Option β) : Nat :=
  match ttl, cls with
  | some _, some _ => a + b
  | none, none => 0
  | _, _ => a

theorem skip_nil (k : Kind) (c : UInt8) (r : List UInt8) (hc : fieldStart c) (line : Nat) (paren : Bool) :
    skipToNextField k ⟨c :: r, line, paren⟩ = .ok ((), ⟨c :: r, line, paren⟩) :=
  skipToNextField_gap k [] (by simp) c r hc line paren

theorem skipTo_nil (k : Kind) (X : List UInt8) (hX : ∃ c t, X = c :: t ∧ fieldStart c) (line : Nat)
    (paren : Bool) : skipToNextField k ⟨X, line, paren⟩ = .ok ((), ⟨X, line, paren⟩) := by
  obtain ⟨c, t, rfl, hc⟩ := hX
  exact skip_nil k c t hc line paren

theorem decimal_starts (n : Nat) (rest : List UInt8) : ∃ c t, decimal n ++ rest = c :: t ∧ fieldStart c := by
  obtain ⟨d, ds, hd, hs⟩ := decimal_head n
  exact ⟨d, ds ++ rest, by rw [hd]; rfl, hs⟩

/-- **TTL and class fields**: each written or omitted, in either order, with general gaps after
    them, followed by the type field: the values are the written ones, or the context's defaults -/
theorem ttlClass_eval (ctx : Ctx) (gA gB : PGap) (q1 q2 q3 : Bool)
    (ttl : Option Nat) (cls : Option (List UInt8 × Nat)) (cf : Bool) (ht : ∀ t, ttl = some t → t ≤ 4294967295)
    (hk : ∀ T k, cls = some (T, k) → ClassTextOK T k)
    (hA : ttl.isSome = true ∨ cls.isSome = true → GapOK gA q1 q2)
    (hB : ttl.isSome = true → cls.isSome = true → GapOK gB q2 q3)
    (tyT : List UInt8) (ty : Nat) (hty : TypeTextOK tyT ty)
    (R : List UInt8) (hR : atFieldEnd R = true) (tv cv : Nat)
    (htv : ttlChoice ctx ttl = some tv) (hcv : clsChoice ctx (cls.map (·.2)) = some cv) (line : Nat) :
    ∃ st1, parseTtlAndClass ctx ⟨tcText (gapText gA) (gapText gB) ttl (cls.map (·.1)) cf ++ (tyT ++ R), line, q1⟩ =
        .ok ((tv, cv), st1) ∧
      skipToNextField .ExpectedType st1 =
        .ok ((), ⟨tyT ++ R, line + tcLines (gapLines gA) (gapLines gB) ttl cls, tcEnd q1 q2 q3 ttl cls⟩) := by
  have hTstart : Starts (tyT ++ R) := hty.field.head R
  have hTfail := fun l q => parseTtl_fails tyT R hty.field.plain hty.field.len hR hty.notU32 l q
  have hCfail : ∀ l q, tryP parseClassField ⟨tyT ++ R, l, q⟩ = .ok (none, ⟨tyT ++ R, l, q⟩) := fun l q =>
    tryP_err (readField_plain_none parseClass _ _ R hty.field.plain hty.field.len hR hty.notClass l q)
  cases ttl with
  | some t =>
    have ht' := ht t rfl
    simp only [ttlChoice, Option.some.injEq] at htv
    subst htv
    have gAok := hA (.inl rfl)
    cases cls with
    | some ck =>
      obtain ⟨cT, k⟩ := ck
      have hk' := hk cT k rfl
      have gBok := hB rfl rfl
      simp only [clsChoice, Option.map_some, Option.some.injEq] at hcv
      subst hcv
      refine ⟨⟨gapText gB ++ (tyT ++ R), line + gapLines gA, q2⟩, ?_, by
        simpa [tcLines, tcEnd, Nat.add_assoc] using gBok.skip .ExpectedType _ hTstart (line + gapLines gA)⟩
      unfold parseTtlAndClass
      have hcls : ∀ rest l q, atFieldEnd rest = true →
          parseClassField ⟨cT ++ rest, l, q⟩ = .ok (k, ⟨rest, l, q⟩) := fun rest l q hrest =>
        readField_plain parseClass _ _ rest k hk'.field.plain hk'.field.len hrest hk'.parse l q
      cases cf with
      | false =>
        have e : tcText (gapText gA) (gapText gB) (some t) (Option.map (·.1) (some (cT, k))) false ++ (tyT ++ R) =
            decimal t ++ (gapText gA ++ (cT ++ (gapText gB ++ (tyT ++ R)))) := by simp [tcText]
        rw [e]
        simp only [bind, P.bind, tryP_ok (parseTtl_decimal t ht' _ (gAok.atEnd _) line q1),
          gAok.skip .ExpectedClassOrType _ (hk'.field.head _) line,
          tryP_ok (hcls _ _ _ (gBok.atEnd _)), pure, P.pure]
      | true =>
        have e : tcText (gapText gA) (gapText gB) (some t) (Option.map (·.1) (some (cT, k))) true ++ (tyT ++ R) =
            cT ++ (gapText gA ++ (decimal t ++ (gapText gB ++ (tyT ++ R)))) := by simp [tcText]
        rw [e]
        have h1 := parseTtl_fails cT _ hk'.field.plain hk'.field.len (gAok.atEnd (decimal t ++ (gapText gB ++ (tyT ++ R))))
          hk'.notU32 line q1
        simp only [bind, P.bind, h1, tryP_ok (hcls _ _ _ (gAok.atEnd _)),
          gAok.skip .ExpectedTtlOrType _ (decimal_starts t _) line,
          tryP_ok (parseTtl_decimal t ht' _ (gBok.atEnd _) _ _), pure, P.pure]
    | none =>
      refine ⟨⟨tyT ++ R, line + gapLines gA, q2⟩, ?_, by
        simpa [tcLines, tcEnd] using skipTo_nil .ExpectedType _ hTstart (line + gapLines gA) q2⟩
      unfold parseTtlAndClass
      have e : tcText (gapText gA) (gapText gB) (some t) (Option.map (·.1) (none : Option (List UInt8 × Nat))) cf ++ (tyT ++ R) =
          decimal t ++ (gapText gA ++ (tyT ++ R)) := by simp [tcText]
      rw [e]
      simp only [clsChoice, Option.map_none] at hcv
      simp only [bind, P.bind, tryP_ok (parseTtl_decimal t ht' _ (gAok.atEnd _) line q1),
        gAok.skip .ExpectedClassOrType _ hTstart line, hCfail, hcv, pure, P.pure]
  | none =>
    simp only [ttlChoice] at htv
    cases cls with
    | some ck =>
      obtain ⟨cT, k⟩ := ck
      have hk' := hk cT k rfl
      have gAok := hA (.inr rfl)
      simp only [clsChoice, Option.map_some, Option.some.injEq] at hcv
      subst hcv
      refine ⟨⟨tyT ++ R, line + gapLines gA, q2⟩, ?_, by
        simpa [tcLines, tcEnd] using skipTo_nil .ExpectedType _ hTstart (line + gapLines gA) q2⟩
      unfold parseTtlAndClass
      have e : tcText (gapText gA) (gapText gB) none (Option.map (·.1) (some (cT, k))) cf ++ (tyT ++ R) =
          cT ++ (gapText gA ++ (tyT ++ R)) := by simp [tcText]
      rw [e]
      have h1 := parseTtl_fails cT _ hk'.field.plain hk'.field.len (gAok.atEnd (tyT ++ R)) hk'.notU32 line q1
      have hcls : parseClassField ⟨cT ++ (gapText gA ++ (tyT ++ R)), line, q1⟩ =
          .ok (k, ⟨gapText gA ++ (tyT ++ R), line, q1⟩) :=
        readField_plain parseClass _ _ _ k hk'.field.plain hk'.field.len (gAok.atEnd _) hk'.parse line q1
      simp only [bind, P.bind, h1, tryP_ok hcls, gAok.skip .ExpectedTtlOrType _ hTstart line,
        hTfail, htv, pure, P.pure]
    | none =>
      simp only [clsChoice, Option.map_none] at hcv
      refine ⟨⟨tyT ++ R, line, q1⟩, ?_, by
        simpa [tcLines, tcEnd] using skipTo_nil .ExpectedType _ hTstart line q1⟩
      unfold parseTtlAndClass
      have e : tcText (gapText gA) (gapText gB) none (Option.map (·.1) (none : Option (List UInt8 × Nat))) cf ++ (tyT ++ R) =
          tyT ++ R := by simp [tcText]
      rw [e]
      simp only [bind, P.bind, hTfail, hCfail, htv, hcv, pure, P.pure]

/-! ### the type field and the rest of a record -/

theorem parseTypeField_eval (tyT : List UInt8) (ty : Nat) (hty : TypeTextOK tyT ty) (h10 : ty ≠ 10)
    (h41 : ty ≠ 41) (h250 : ty ≠ 250) (rest : List UInt8) (hrest : atFieldEnd rest = true) (line : Nat)
    (paren : Bool) : parseTypeField ⟨tyT ++ rest, line, paren⟩ = .ok (ty, ⟨rest, line, paren⟩) := by
  unfold parseTypeField
  simp only [bind, P.bind, getLine,
    readField_plain parseType _ _ rest ty hty.field.plain hty.field.len hrest hty.parse line paren]
  have : Gen.parseTypeRejected.find? (fun r => r.1 == ty) = none := by
    have e10 : (10 == ty) = false := by simp; omega
    have e41 : (41 == ty) = false := by simp; omega
    have e250 : (250 == ty) = false := by simp; omega
    simp [Gen.parseTypeRejected, List.find?, e10, e41, e250]
  simp [this, pure, P.pure]

/-- everything of a record after the owner field and the gap that follows it; `R0` is the text
    after the type field (gap, RDATA, end of line) -/
def recordBody (gA gB : List UInt8) (ttl : Option Nat) (clsT : Option (List UInt8)) (cf : Bool)
    (tyT R0 : List UInt8) : List UInt8 :=
  tcText gA gB ttl clsT cf ++ (tyT ++ R0)

theorem recordBody_head (gA gB : List UInt8) (ttl : Option Nat) (clsT : Option (List UInt8)) (cf : Bool)
    (tyT R0 : List UInt8) (hcls : ∀ T, clsT = some T → FieldText T) (hty : FieldText tyT) :
    Starts (recordBody gA gB ttl clsT cf tyT R0) := by
  unfold recordBody
  cases ttl with
  | some t =>
    cases clsT with
    | some cT =>
      cases cf with
      | false =>
        obtain ⟨c, x, hx, hs⟩ := decimal_starts t (gA ++ (cT ++ gB) ++ (tyT ++ R0))
        exact ⟨c, x, by rw [← hx]; simp [tcText], hs⟩
      | true =>
        obtain ⟨c, x, hx, hs⟩ := (hcls cT rfl).head (gA ++ (decimal t ++ gB) ++ (tyT ++ R0))
        exact ⟨c, x, by rw [← hx]; simp [tcText], hs⟩
    | none =>
      obtain ⟨c, x, hx, hs⟩ := decimal_starts t (gA ++ (tyT ++ R0))
      exact ⟨c, x, by rw [← hx]; simp [tcText], hs⟩
  | none =>
    cases clsT with
    | some cT =>
      obtain ⟨c, x, hx, hs⟩ := (hcls cT rfl).head (gA ++ (tyT ++ R0))
      exact ⟨c, x, by rw [← hx]; simp [tcText], hs⟩
    | none =>
      obtain ⟨c, x, hx, hs⟩ := hty.head R0
      exact ⟨c, x, by rw [← hx]; simp [tcText], hs⟩

/-- the record parser from the TTL/class/type fields on: values, RDATA, and the new context;
    `hrd` says what `parse_rdata` makes of the text after the type field -/
theorem recordTail_eval (ctx : Ctx) (owner : List UInt8) (startLine : Nat) (gA gB : PGap) (q1 q2 q3 : Bool)
    (ttl : Option Nat) (cls : Option (List UInt8 × Nat)) (cf : Bool)
    (ht : ∀ t, ttl = some t → t ≤ 4294967295) (hk : ∀ T k, cls = some (T, k) → ClassTextOK T k)
    (hA : ttl.isSome = true ∨ cls.isSome = true → GapOK gA q1 q2)
    (hB : ttl.isSome = true → cls.isSome = true → GapOK gB q2 q3)
    (tyT : List UInt8) (ty : Nat) (hty : TypeTextOK tyT ty) (h10 : ty ≠ 10) (h41 : ty ≠ 41) (h250 : ty ≠ 250)
    (tv cv : Nat) (htv : ttlChoice ctx ttl = some tv) (hcv : clsChoice ctx (cls.map (·.2)) = some cv)
    (R0 : List UInt8) (hR0 : atFieldEnd R0 = true) (rd r : List UInt8) (line line' : Nat)
    (hrd : parseRdata ctx cv ty ⟨R0, line + tcLines (gapLines gA) (gapLines gB) ttl cls, tcEnd q1 q2 q3 ttl cls⟩ =
      .ok (rd, ⟨r, line', false⟩)) :
    (do
      skipToNextField Kind.ExpectedTtlClassOrType
      let __x ← parseTtlAndClass ctx
      match __x with
        | (ttl, cls) => do
          skipToNextField Kind.ExpectedType
          let ty ← parseTypeField
          let rdata ← parseRdata ctx cls ty
          pure
              (some (Item.record startLine { owner := owner, ttl := ttl, cls := cls, ty := ty, rdata := rdata }),
                { ctx with prevOwner := some owner, prevTtl := some ttl, prevClass := some cls }) : P (Option Item × Ctx))
      ⟨recordBody (gapText gA) (gapText gB) ttl (cls.map (·.1)) cf tyT R0, line, q1⟩ =
    .ok ((some (.record startLine ⟨owner, tv, cv, ty, rd⟩),
          { ctx with prevOwner := some owner, prevTtl := some tv, prevClass := some cv }),
         ⟨r, line', false⟩) := by
  have hclsF : ∀ T, cls.map (·.1) = some T → FieldText T := by
    intro T hT
    cases cls with
    | none => simp at hT
    | some ck => obtain ⟨cT, k⟩ := ck; simp at hT; subst hT; exact (hk cT k rfl).field
  obtain ⟨st1, h1, h2⟩ := ttlClass_eval ctx gA gB q1 q2 q3 ttl cls cf ht hk hA hB tyT ty hty R0 hR0 tv cv htv hcv line
  have hskip0 := skipTo_nil .ExpectedTtlClassOrType _
    (recordBody_head (gapText gA) (gapText gB) ttl (cls.map (·.1)) cf tyT R0 hclsF hty.field) line q1
  simp only [bind, P.bind, hskip0]
  unfold recordBody
  simp only [h1, h2, parseTypeField_eval tyT ty hty h10 h41 h250 _ hR0, hrd, pure, P.pure]

end QV.ZF
