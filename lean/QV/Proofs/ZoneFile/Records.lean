/-
  QV.Proofs.ZoneFile.Records — the record parser on rendered records, directives, and whole
  files of the presentation subset of `C23_records_partial`.
-/
import QV.Proofs.ZoneFile.Mnemonic

namespace QV.ZF
open QV QV.Spec.ZF

/-! ### TTL and class, written or omitted -/

/-- the TTL value: the written one (RFC 2181 clamp), else `default_or_previous_ttl` -/
def ttlChoice (ctx : Ctx) : Option Nat → Option Nat
  | some t => some (ttlFrom t)
  | none => defaultOrPreviousTtl ctx

/-- the class value: the written one, else the previous record's -/
def clsChoice (ctx : Ctx) : Option Nat → Option Nat
  | some k => some k
  | none => ctx.prevClass

/-- TTL and class texts, each present or not, in either order -/
def tcText (sep : List UInt8) (ttl : Option Nat) (clsT : Option (List UInt8)) (cf : Bool) : List UInt8 :=
  let t := match ttl with
    | some t => decimal t ++ sep
    | none => []
  let c := match clsT with
    | some c => c ++ sep
    | none => []
  if cf then c ++ t else t ++ c

theorem ttlClassText_eq (sep : List UInt8) (ttl : Option Nat) (cls : Option PCode) (cf : Bool) :
    ttlClassText sep ttl cls cf = tcText sep ttl (cls.map classText) cf := by
  cases cls <;> rfl

theorem skip_nil (k : Kind) (c : UInt8) (r : List UInt8) (hc : fieldStart c) (line : Nat) (paren : Bool) :
    skipToNextField k ⟨c :: r, line, paren⟩ = .ok ((), ⟨c :: r, line, paren⟩) :=
  skipToNextField_gap k [] (by simp) c r hc line paren

/-- skip blanks up to a text that starts a field -/
theorem skipTo (k : Kind) (sep X : List UInt8) (hsep : ∀ x ∈ sep, isWs x = true)
    (hX : ∃ c t, X = c :: t ∧ fieldStart c) (line : Nat) (paren : Bool) :
    skipToNextField k ⟨sep ++ X, line, paren⟩ = .ok ((), ⟨X, line, paren⟩) := by
  obtain ⟨c, t, rfl, hc⟩ := hX
  exact skipToNextField_gap k sep hsep c t hc line paren

theorem skipTo_nil (k : Kind) (X : List UInt8) (hX : ∃ c t, X = c :: t ∧ fieldStart c) (line : Nat)
    (paren : Bool) : skipToNextField k ⟨X, line, paren⟩ = .ok ((), ⟨X, line, paren⟩) := by
  have := skipTo k [] X (by simp) hX line paren
  simpa using this

theorem decimal_starts (n : Nat) (rest : List UInt8) : ∃ c t, decimal n ++ rest = c :: t ∧ fieldStart c := by
  obtain ⟨d, ds, hd, hs⟩ := decimal_head n
  exact ⟨d, ds ++ rest, by rw [hd]; rfl, hs⟩

/-- **TTL and class fields**: each written or omitted, in either order, followed by the type
    field: the values are the written ones, or the context's defaults -/
theorem ttlClass_eval (ctx : Ctx) (sep : List UInt8) (hne : sep ≠ []) (hsep : ∀ x ∈ sep, isWs x = true)
    (ttl : Option Nat) (cls : Option (List UInt8 × Nat)) (cf : Bool) (ht : ∀ t, ttl = some t → t ≤ 4294967295)
    (hk : ∀ T k, cls = some (T, k) → ClassTextOK T k) (tyT : List UInt8) (ty : Nat) (hty : TypeTextOK tyT ty)
    (R : List UInt8) (hR : atFieldEnd R = true) (tv cv : Nat)
    (htv : ttlChoice ctx ttl = some tv) (hcv : clsChoice ctx (cls.map (·.2)) = some cv) (line : Nat) :
    ∃ st1, parseTtlAndClass ctx ⟨tcText sep ttl (cls.map (·.1)) cf ++ (tyT ++ R), line, false⟩ =
        .ok ((tv, cv), st1) ∧
      skipToNextField .ExpectedType st1 = .ok ((), ⟨tyT ++ R, line, false⟩) := by
  have hTend : atFieldEnd (sep ++ (tyT ++ R)) = true := atFieldEnd_sep sep _ hne hsep
  have hTstart := hty.field.head R
  have hTfail := parseTtl_fails tyT R hty.field.plain hty.field.len hR hty.notU32 line false
  have hCfail : tryP parseClassField ⟨tyT ++ R, line, false⟩ = .ok (none, ⟨tyT ++ R, line, false⟩) :=
    tryP_err (readField_plain_none parseClass _ _ R hty.field.plain hty.field.len hR hty.notClass line false)
  cases ttl with
  | some t =>
    have ht' := ht t rfl
    simp only [ttlChoice, Option.some.injEq] at htv
    subst htv
    cases cls with
    | some ck =>
      obtain ⟨cT, k⟩ := ck
      have hk' := hk cT k rfl
      simp only [clsChoice, Option.map_some, Option.some.injEq] at hcv
      subst hcv
      refine ⟨⟨sep ++ (tyT ++ R), line, false⟩, ?_, skipTo _ sep _ hsep hTstart line false⟩
      unfold parseTtlAndClass
      have hcls : ∀ rest, atFieldEnd rest = true →
          parseClassField ⟨cT ++ rest, line, false⟩ = .ok (k, ⟨rest, line, false⟩) := fun rest hrest =>
        readField_plain parseClass _ _ rest k hk'.field.plain hk'.field.len hrest hk'.parse line false
      cases cf with
      | false =>
        have e : tcText sep (some t) (Option.map (·.1) (some (cT, k))) false ++ (tyT ++ R) =
            decimal t ++ (sep ++ (cT ++ (sep ++ (tyT ++ R)))) := by simp [tcText]
        rw [e]
        simp only [bind, P.bind, tryP_ok (parseTtl_decimal t ht' _ (atFieldEnd_sep sep _ hne hsep) line false),
          skipTo .ExpectedClassOrType sep _ hsep (hk'.field.head _) line false,
          tryP_ok (hcls _ hTend), pure, P.pure]
      | true =>
        have e : tcText sep (some t) (Option.map (·.1) (some (cT, k))) true ++ (tyT ++ R) =
            cT ++ (sep ++ (decimal t ++ (sep ++ (tyT ++ R)))) := by simp [tcText]
        rw [e]
        have hEnd2 : atFieldEnd (sep ++ (decimal t ++ (sep ++ (tyT ++ R)))) = true :=
          atFieldEnd_sep sep _ hne hsep
        have h1 := parseTtl_fails cT _ hk'.field.plain hk'.field.len hEnd2 hk'.notU32 line false
        simp only [bind, P.bind, h1, tryP_ok (hcls _ hEnd2),
          skipTo .ExpectedTtlOrType sep _ hsep (decimal_starts t _) line false,
          tryP_ok (parseTtl_decimal t ht' (sep ++ (tyT ++ R)) hTend line false), pure, P.pure]
    | none =>
      refine ⟨⟨tyT ++ R, line, false⟩, ?_, skipTo_nil _ _ hTstart line false⟩
      unfold parseTtlAndClass
      have e : tcText sep (some t) (Option.map (·.1) (none : Option (List UInt8 × Nat))) cf ++ (tyT ++ R) =
          decimal t ++ (sep ++ (tyT ++ R)) := by cases cf <;> simp [tcText]
      rw [e]
      simp only [clsChoice, Option.map_none] at hcv
      simp only [bind, P.bind, tryP_ok (parseTtl_decimal t ht' _ hTend line false),
        skipTo .ExpectedClassOrType sep _ hsep hTstart line false, hCfail, hcv, pure, P.pure]
  | none =>
    simp only [ttlChoice] at htv
    cases cls with
    | some ck =>
      obtain ⟨cT, k⟩ := ck
      have hk' := hk cT k rfl
      simp only [clsChoice, Option.map_some, Option.some.injEq] at hcv
      subst hcv
      refine ⟨⟨tyT ++ R, line, false⟩, ?_, skipTo_nil _ _ hTstart line false⟩
      unfold parseTtlAndClass
      have e : tcText sep none (Option.map (·.1) (some (cT, k))) cf ++ (tyT ++ R) =
          cT ++ (sep ++ (tyT ++ R)) := by cases cf <;> simp [tcText]
      rw [e]
      have h1 := parseTtl_fails cT (sep ++ (tyT ++ R)) hk'.field.plain hk'.field.len hTend hk'.notU32 line false
      have hcls : parseClassField ⟨cT ++ (sep ++ (tyT ++ R)), line, false⟩ = .ok (k, ⟨sep ++ (tyT ++ R), line, false⟩) :=
        readField_plain parseClass _ _ _ k hk'.field.plain hk'.field.len hTend hk'.parse line false
      simp only [bind, P.bind, h1, tryP_ok hcls, skipTo .ExpectedTtlOrType sep _ hsep hTstart line false,
        hTfail, htv, pure, P.pure]
    | none =>
      simp only [clsChoice, Option.map_none] at hcv
      refine ⟨⟨tyT ++ R, line, false⟩, ?_, skipTo_nil _ _ hTstart line false⟩
      unfold parseTtlAndClass
      have e : tcText sep none (Option.map (·.1) (none : Option (List UInt8 × Nat))) cf ++ (tyT ++ R) = tyT ++ R := by
        cases cf <;> simp [tcText]
      rw [e]
      simp only [bind, P.bind, hTfail, hCfail, htv, hcv, pure, P.pure]

/-! ### the type field and the rest of a record -/

theorem parseTypeField_eval (tyT : List UInt8) (ty : Nat) (hty : TypeTextOK tyT ty) (h10 : ty ≠ 10)
    (h41 : ty ≠ 41) (h250 : ty ≠ 250) (rest : List UInt8) (hrest : atFieldEnd rest = true) (line : Nat)
    (paren : Bool) : parseTypeField ⟨tyT ++ rest, line, paren⟩ = .ok (ty, ⟨rest, line, paren⟩) := by
  unfold parseTypeField
  simp only [bind, P.bind, getLine,
    readField_plain parseType _ _ rest ty hty.field.plain hty.field.len hrest hty.parse line paren]
  have : Gen.parseTypeRejected.find? (fun r => r.1 == ty) = none := by
    have e10 : (10 == ty) = false := by simp; omega
    have e41 : (41 == ty) = false := by simp; omega
    have e250 : (250 == ty) = false := by simp; omega
    simp [Gen.parseTypeRejected, List.find?, e10, e41, e250]
  simp [this, pure, P.pure]

/-- everything of a record after the owner field and the blanks that follow it; `R0` is the text
    after the type field (blanks, RDATA, end of line) -/
def recordBody (sep : List UInt8) (ttl : Option Nat) (clsT : Option (List UInt8)) (cf : Bool)
    (tyT R0 : List UInt8) : List UInt8 :=
  tcText sep ttl clsT cf ++ (tyT ++ R0)

theorem recordBody_head (sep : List UInt8) (ttl : Option Nat) (clsT : Option (List UInt8)) (cf : Bool)
    (tyT R0 : List UInt8) (hcls : ∀ T, clsT = some T → FieldText T) (hty : FieldText tyT) :
    ∃ c t, recordBody sep ttl clsT cf tyT R0 = c :: t ∧ fieldStart c := by
  unfold recordBody
  cases ttl with
  | some t =>
    cases clsT with
    | some cT =>
      cases cf with
      | false =>
        obtain ⟨c, x, hx, hs⟩ := decimal_starts t (sep ++ (cT ++ sep) ++ (tyT ++ R0))
        exact ⟨c, x, by rw [← hx]; simp [tcText], hs⟩
      | true =>
        obtain ⟨c, x, hx, hs⟩ := (hcls cT rfl).head (sep ++ (decimal t ++ sep) ++ (tyT ++ R0))
        exact ⟨c, x, by rw [← hx]; simp [tcText], hs⟩
    | none =>
      obtain ⟨c, x, hx, hs⟩ := decimal_starts t (sep ++ (tyT ++ R0))
      exact ⟨c, x, by rw [← hx]; cases cf <;> simp [tcText], hs⟩
  | none =>
    cases clsT with
    | some cT =>
      obtain ⟨c, x, hx, hs⟩ := (hcls cT rfl).head (sep ++ (tyT ++ R0))
      exact ⟨c, x, by rw [← hx]; cases cf <;> simp [tcText], hs⟩
    | none =>
      obtain ⟨c, x, hx, hs⟩ := hty.head R0
      exact ⟨c, x, by rw [← hx]; cases cf <;> simp [tcText], hs⟩

/-- the record parser from the TTL/class/type fields on: values, RDATA, and the new context;
    `hrd` says what `parse_rdata` makes of the text after the type field -/
theorem recordTail_eval (ctx : Ctx) (owner : List UInt8) (startLine : Nat) (sep : List UInt8) (hne : sep ≠ [])
    (hsep : ∀ x ∈ sep, isWs x = true) (ttl : Option Nat) (cls : Option (List UInt8 × Nat)) (cf : Bool)
    (ht : ∀ t, ttl = some t → t ≤ 4294967295) (hk : ∀ T k, cls = some (T, k) → ClassTextOK T k)
    (tyT : List UInt8) (ty : Nat) (hty : TypeTextOK tyT ty) (h10 : ty ≠ 10) (h41 : ty ≠ 41) (h250 : ty ≠ 250)
    (tv cv : Nat) (htv : ttlChoice ctx ttl = some tv) (hcv : clsChoice ctx (cls.map (·.2)) = some cv)
    (R0 : List UInt8) (hR0 : atFieldEnd R0 = true) (rd r : List UInt8) (line line' : Nat)
    (hrd : parseRdata ctx cv ty ⟨R0, line, false⟩ = .ok (rd, ⟨r, line', false⟩)) :
    (do
      skipToNextField Kind.ExpectedTtlClassOrType
      let __x ← parseTtlAndClass ctx
      match __x with
        | (ttl, cls) => do
          skipToNextField Kind.ExpectedType
          let ty ← parseTypeField
          let rdata ← parseRdata ctx cls ty
          pure
              (some (Item.record startLine { owner := owner, ttl := ttl, cls := cls, ty := ty, rdata := rdata }),
                { ctx with prevOwner := some owner, prevTtl := some ttl, prevClass := some cls }) : P (Option Item × Ctx))
      ⟨recordBody sep ttl (cls.map (·.1)) cf tyT R0, line, false⟩ =
    .ok ((some (.record startLine ⟨owner, tv, cv, ty, rd⟩),
          { ctx with prevOwner := some owner, prevTtl := some tv, prevClass := some cv }),
         ⟨r, line', false⟩) := by
  have hclsF : ∀ T, cls.map (·.1) = some T → FieldText T := by
    intro T hT
    cases cls with
    | none => simp at hT
    | some ck => obtain ⟨cT, k⟩ := ck; simp at hT; subst hT; exact (hk cT k rfl).field
  obtain ⟨st1, h1, h2⟩ := ttlClass_eval ctx sep hne hsep ttl cls cf ht hk tyT ty hty R0 hR0 tv cv htv hcv line
  have hskip0 := skipTo_nil .ExpectedTtlClassOrType _
    (recordBody_head sep ttl (cls.map (·.1)) cf tyT R0 hclsF hty.field) line false
  simp only [bind, P.bind, hskip0]
  unfold recordBody
  simp only [h1, h2, parseTypeField_eval tyT ty hty h10 h41 h250 _ hR0 line false, hrd, pure, P.pure]

end QV.ZF
