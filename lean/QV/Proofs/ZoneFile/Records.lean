/-
  QV.Proofs.ZoneFile.Records — the record parser on rendered records, and whole files of the
  presentation subset of `C23_records_partial`.
-/
import QV.Proofs.ZoneFile.Assemble

namespace QV.ZF
open QV QV.Spec.ZF

/-! ### small evaluation lemmas -/

theorem tryP_ok {α} {p : P α} {st st' : St} {a : α} (h : p st = .ok (a, st')) :
    tryP p st = .ok (some a, st') := by simp [tryP, h]

theorem tryP_err {α} {p : P α} {st : St} {e : Err} (h : p st = .err e) :
    tryP p st = .ok (none, st) := by simp [tryP, h]

theorem readField_plain_none {α} (parse : List UInt8 → Option α) (k : Kind) (f rest : List UInt8)
    (hf : ∀ c ∈ f, plainOctet c = true) (hlen : f.length ≤ 65536) (hrest : atFieldEnd rest = true)
    (hp : parse f = none) (line : Nat) (paren : Bool) :
    readField parse k ⟨f ++ rest, line, paren⟩ = .err ⟨k, line⟩ := by
  unfold readField
  simp only [fieldLen_plain f rest hf hrest, Gen.MAX_READ_FIELD_SIZE]
  have : ¬ (f.length > 65536) := by omega
  simp [this, utf8Valid_ascii f hf, hp, fail]

theorem renderType_plain (ty : Nat) : ∀ c ∈ renderType ty, plainOctet c = true := by
  intro c hc
  simp only [renderType, List.cons_append, List.nil_append, List.mem_cons] at hc
  rcases hc with rfl | rfl | rfl | rfl | hc
  · decide
  · decide
  · decide
  · decide
  · exact decimal_plain ty c hc

theorem renderClass_plain (k : Nat) : ∀ c ∈ renderClass k, plainOctet c = true := by
  intro c hc
  simp only [renderClass, List.cons_append, List.nil_append, List.mem_cons] at hc
  rcases hc with rfl | rfl | rfl | rfl | rfl | hc
  · decide
  · decide
  · decide
  · decide
  · decide
  · exact decimal_plain k c hc

theorem renderType_length (ty : Nat) (h : ty ≤ 65535) : (renderType ty).length ≤ 65536 := by
  have := decimal_length_le ty (by omega)
  simp [renderType]; omega

theorem renderClass_length (k : Nat) (h : k ≤ 65535) : (renderClass k).length ≤ 65536 := by
  have := decimal_length_le k (by omega)
  simp [renderClass]; omega

theorem renderType_not_u32 (ty : Nat) : parseU32 (renderType ty) = none :=
  parseUInt_letter _ 84 _ (by decide) (by decide)

theorem renderClass_not_u32 (k : Nat) : parseU32 (renderClass k) = none :=
  parseUInt_letter _ 67 _ (by decide) (by decide)

theorem renderType_start (ty : Nat) (rest : List UInt8) :
    ∃ t, renderType ty ++ rest = 84 :: t ∧ fieldStart 84 := ⟨_, rfl, .inr (by decide)⟩

theorem renderClass_start (k : Nat) (rest : List UInt8) :
    ∃ t, renderClass k ++ rest = 67 :: t ∧ fieldStart 67 := ⟨_, rfl, .inr (by decide)⟩

/-- `parse_ttl` on a decimal TTL -/
theorem parseTtl_decimal (t : Nat) (ht : t ≤ 4294967295) (rest : List UInt8) (hrest : atFieldEnd rest = true)
    (line : Nat) (paren : Bool) :
    parseTtl ⟨decimal t ++ rest, line, paren⟩ = .ok (ttlFrom t, ⟨rest, line, paren⟩) := by
  unfold parseTtl
  simp only [bind, P.bind, show parseU32 = parseUInt 4294967295 from rfl,
    readField_decimal 4294967295 t ht (by omega) _ rest hrest line paren]
  rfl

/-- `parse_ttl` on a field that starts with a letter fails without consuming -/
theorem parseTtl_fails (f rest : List UInt8) (hf : ∀ c ∈ f, plainOctet c = true) (hlen : f.length ≤ 65536)
    (hrest : atFieldEnd rest = true) (hp : parseU32 f = none) (line : Nat) (paren : Bool) :
    tryP parseTtl ⟨f ++ rest, line, paren⟩ = .ok (none, ⟨f ++ rest, line, paren⟩) := by
  apply tryP_err (e := ⟨.InvalidTtl, line⟩)
  unfold parseTtl
  simp only [bind, P.bind, readField_plain_none parseU32 _ f rest hf hlen hrest hp line paren]

/-! ### TTL and class, written or omitted -/

/-- the TTL value: the written one (RFC 2181 clamp), else `default_or_previous_ttl` -/
def ttlChoice (ctx : Ctx) : Option Nat → Option Nat
  | some t => some (ttlFrom t)
  | none => defaultOrPreviousTtl ctx

/-- the class value: the written one, else the previous record's -/
def clsChoice (ctx : Ctx) : Option Nat → Option Nat
  | some k => some k
  | none => ctx.prevClass

theorem parseClassField_render (k : Nat) (hk : k ≤ 65535) (rest : List UInt8) (hrest : atFieldEnd rest = true)
    (line : Nat) (paren : Bool) :
    parseClassField ⟨renderClass k ++ rest, line, paren⟩ = .ok (k, ⟨rest, line, paren⟩) :=
  readField_plain parseClass _ _ rest k (renderClass_plain k) (renderClass_length k hk) hrest
    (parseClass_render k hk) line paren

theorem parseClassField_type_fails (ty : Nat) (hty : ty ≤ 65535) (rest : List UInt8)
    (hrest : atFieldEnd rest = true) (line : Nat) (paren : Bool) :
    tryP parseClassField ⟨renderType ty ++ rest, line, paren⟩ = .ok (none, ⟨renderType ty ++ rest, line, paren⟩) :=
  tryP_err (readField_plain_none parseClass _ _ rest (renderType_plain ty) (renderType_length ty hty) hrest
    (parseClass_type ty) line paren)

theorem skip_nil (k : Kind) (c : UInt8) (r : List UInt8) (hc : fieldStart c) (line : Nat) (paren : Bool) :
    skipToNextField k ⟨c :: r, line, paren⟩ = .ok ((), ⟨c :: r, line, paren⟩) :=
  skipToNextField_gap k [] (by simp) c r hc line paren

/-- **TTL and class fields**: written or omitted (TTL first when both are written), followed by
    the type field: the values are the written ones, or the context's defaults -/
theorem ttlClass_eval (ctx : Ctx) (sep : List UInt8) (hne : sep ≠ []) (hsep : ∀ x ∈ sep, isWs x = true)
    (ttl cls : Option Nat) (cf : Bool) (ht : ∀ t, ttl = some t → t ≤ 4294967295) (hk : ∀ k, cls = some k → k ≤ 65535)
    (ty : Nat) (hty : ty ≤ 65535) (R : List UInt8) (hR : atFieldEnd R = true) (tv cv : Nat)
    (htv : ttlChoice ctx ttl = some tv) (hcv : clsChoice ctx cls = some cv) (line : Nat) :
    ∃ st1, parseTtlAndClass ctx ⟨ttlClassText sep ttl cls cf ++ (renderType ty ++ R), line, false⟩ =
        .ok ((tv, cv), st1) ∧
      skipToNextField .ExpectedType st1 = .ok ((), ⟨renderType ty ++ R, line, false⟩) := by
  have hTend : atFieldEnd (sep ++ (renderType ty ++ R)) = true := atFieldEnd_sep sep _ hne hsep
  have hTfail := parseTtl_fails (renderType ty) R (renderType_plain ty) (renderType_length ty hty) hR
    (renderType_not_u32 ty) line false
  have hCfail := parseClassField_type_fails ty hty R hR line false
  cases ttl with
  | some t =>
    have ht' := ht t rfl
    simp only [ttlChoice, Option.some.injEq] at htv
    subst htv
    cases cls with
    | some k =>
      have hk' := hk k rfl
      simp only [clsChoice, Option.some.injEq] at hcv
      subst hcv
      refine ⟨⟨sep ++ (renderType ty ++ R), line, false⟩, ?_, skipToNextField_gap _ sep hsep 84 _ (.inr (by decide)) line false⟩
      unfold parseTtlAndClass
      cases cf with
      | false =>
        have e : ttlClassText sep (some t) (some k) false ++ (renderType ty ++ R) =
            decimal t ++ (sep ++ (renderClass k ++ (sep ++ (renderType ty ++ R)))) := by simp [ttlClassText]
        rw [e]
        simp only [bind, P.bind, tryP_ok (parseTtl_decimal t ht' _ (atFieldEnd_sep sep _ hne hsep) line false)]
        have := skipToNextField_gap .ExpectedClassOrType sep hsep 67
          ([76, 65, 83, 83] ++ decimal k ++ (sep ++ (renderType ty ++ R))) (.inr (by decide)) line false
        simp only [renderClass, List.cons_append, List.nil_append, List.append_assoc] at this ⊢
        simp only [this]
        have hc := tryP_ok (parseClassField_render k hk' (sep ++ (renderType ty ++ R)) hTend line false)
        simp only [renderClass, List.cons_append, List.nil_append, List.append_assoc] at hc
        simp only [hc, pure, P.pure]
      | true =>
        -- class first: the TTL attempt fails on `CLASSnnn`, the class is read, then the TTL
        obtain ⟨d, ds, hd, hdstart⟩ := decimal_head t
        have e : ttlClassText sep (some t) (some k) true ++ (renderType ty ++ R) =
            renderClass k ++ (sep ++ (decimal t ++ (sep ++ (renderType ty ++ R)))) := by simp [ttlClassText]
        rw [e]
        have hEnd2 : atFieldEnd (sep ++ (decimal t ++ (sep ++ (renderType ty ++ R)))) = true :=
          atFieldEnd_sep sep _ hne hsep
        have h1 := parseTtl_fails (renderClass k) _ (renderClass_plain k) (renderClass_length k hk') hEnd2
          (renderClass_not_u32 k) line false
        simp only [bind, P.bind, h1, tryP_ok (parseClassField_render k hk' _ hEnd2 line false)]
        have hsk := skipToNextField_gap .ExpectedTtlOrType sep hsep d (ds ++ (sep ++ (renderType ty ++ R))) hdstart line false
        have hok := tryP_ok (parseTtl_decimal t ht' (sep ++ (renderType ty ++ R)) hTend line false)
        rw [hd] at hok ⊢
        simp only [List.cons_append, List.append_assoc] at hsk hok ⊢
        simp only [hsk, hok, pure, P.pure]
    | none =>
      refine ⟨⟨renderType ty ++ R, line, false⟩, ?_, skip_nil _ 84 _ (.inr (by decide)) line false⟩
      unfold parseTtlAndClass
      have e : ttlClassText sep (some t) none cf ++ (renderType ty ++ R) =
          decimal t ++ (sep ++ (renderType ty ++ R)) := by cases cf <;> simp [ttlClassText]
      rw [e]
      simp only [bind, P.bind, tryP_ok (parseTtl_decimal t ht' _ hTend line false)]
      have := skipToNextField_gap .ExpectedClassOrType sep hsep 84 ([89, 80, 69] ++ decimal ty ++ R)
        (.inr (by decide)) line false
      simp only [renderType, List.cons_append, List.nil_append, List.append_assoc] at this hCfail ⊢
      simp only [this, hCfail]
      simp only [clsChoice] at hcv
      simp only [hcv, pure, P.pure]
  | none =>
    simp only [ttlChoice] at htv
    cases cls with
    | some k =>
      have hk' := hk k rfl
      simp only [clsChoice, Option.some.injEq] at hcv
      subst hcv
      refine ⟨⟨renderType ty ++ R, line, false⟩, ?_, skip_nil _ 84 _ (.inr (by decide)) line false⟩
      unfold parseTtlAndClass
      have e : ttlClassText sep none (some k) cf ++ (renderType ty ++ R) =
          renderClass k ++ (sep ++ (renderType ty ++ R)) := by cases cf <;> simp [ttlClassText]
      rw [e]
      have h1 := parseTtl_fails (renderClass k) (sep ++ (renderType ty ++ R)) (renderClass_plain k)
        (renderClass_length k hk') hTend (renderClass_not_u32 k) line false
      simp only [bind, P.bind, h1, tryP_ok (parseClassField_render k hk' _ hTend line false)]
      have := skipToNextField_gap .ExpectedTtlOrType sep hsep 84 ([89, 80, 69] ++ decimal ty ++ R)
        (.inr (by decide)) line false
      simp only [renderType, List.cons_append, List.nil_append, List.append_assoc] at this hTfail ⊢
      simp only [this, hTfail, htv, pure, P.pure]
    | none =>
      simp only [clsChoice] at hcv
      refine ⟨⟨renderType ty ++ R, line, false⟩, ?_, skip_nil _ 84 _ (.inr (by decide)) line false⟩
      unfold parseTtlAndClass
      have e : ttlClassText sep none none cf ++ (renderType ty ++ R) = renderType ty ++ R := by
        cases cf <;> simp [ttlClassText]
      rw [e]
      simp only [bind, P.bind, hTfail, hCfail, htv, hcv, pure, P.pure]

/-! ### the type field and the rest of a record -/

theorem parseTypeField_render (ty : Nat) (hty : ty ≤ 65535) (h10 : ty ≠ 10) (h41 : ty ≠ 41) (h250 : ty ≠ 250)
    (rest : List UInt8) (hrest : atFieldEnd rest = true) (line : Nat) (paren : Bool) :
    parseTypeField ⟨renderType ty ++ rest, line, paren⟩ = .ok (ty, ⟨rest, line, paren⟩) := by
  unfold parseTypeField
  simp only [bind, P.bind, getLine,
    readField_plain parseType _ _ rest ty (renderType_plain ty) (renderType_length ty hty) hrest
      (parseType_render ty hty) line paren]
  have : Gen.parseTypeRejected.find? (fun r => r.1 == ty) = none := by
    have e10 : (10 == ty) = false := by simp; omega
    have e41 : (41 == ty) = false := by simp; omega
    have e250 : (250 == ty) = false := by simp; omega
    simp [Gen.parseTypeRejected, List.find?, e10, e41, e250]
  simp [this, pure, P.pure]

/-- everything of a record after the owner field and the blanks that follow it -/
def recordBody (sep : List UInt8) (ttl cls : Option Nat) (cf : Bool) (ty : Nat) (rd tail : List UInt8) : List UInt8 :=
  ttlClassText sep ttl cls cf ++
    (renderType ty ++ (sep ++ 92 :: 35 :: (genericTail sep rd ++ tail)))

theorem recordBody_head (sep : List UInt8) (ttl cls : Option Nat) (cf : Bool) (ty : Nat) (rd tail : List UInt8) :
    ∃ c t, recordBody sep ttl cls cf ty rd tail = c :: t ∧ fieldStart c ∧ c ≠ 36 := by
  unfold recordBody
  have hdig : ∀ (t : Nat) (b : List UInt8), ∃ d x, decimal t ++ b = d :: x ∧ fieldStart d ∧ d ≠ 36 := by
    intro t b
    obtain ⟨d, ds, hd, hs⟩ := decimal_head t
    refine ⟨d, ds ++ b, by rw [hd]; rfl, hs, ?_⟩
    have := decimal_digits t d (by rw [hd]; simp)
    intro h; subst h; simp [isDigit] at this
  have hC : ∀ (k : Nat) (b : List UInt8), ∃ x, renderClass k ++ b = 67 :: x := fun k b => ⟨_, rfl⟩
  have hT : ∀ (b : List UInt8), ∃ x, renderType ty ++ b = 84 :: x := fun b => ⟨_, rfl⟩
  have f67 : fieldStart 67 ∧ (67 : UInt8) ≠ 36 := ⟨.inr (by decide), by decide⟩
  have f84 : fieldStart 84 ∧ (84 : UInt8) ≠ 36 := ⟨.inr (by decide), by decide⟩
  cases ttl with
  | some t =>
    cases cls with
    | some k =>
      cases cf with
      | false =>
        obtain ⟨d, x, hx, hs, h36⟩ := hdig t (sep ++ (renderClass k ++ sep) ++ (renderType ty ++ (sep ++ 92 :: 35 :: (genericTail sep rd ++ tail))))
        exact ⟨d, x, by rw [← hx]; simp [ttlClassText], hs, h36⟩
      | true =>
        obtain ⟨x, hx⟩ := hC k (sep ++ (decimal t ++ sep) ++ (renderType ty ++ (sep ++ 92 :: 35 :: (genericTail sep rd ++ tail))))
        exact ⟨67, x, by rw [← hx]; simp [ttlClassText], f67.1, f67.2⟩
    | none =>
      obtain ⟨d, x, hx, hs, h36⟩ := hdig t (sep ++ (renderType ty ++ (sep ++ 92 :: 35 :: (genericTail sep rd ++ tail))))
      exact ⟨d, x, by rw [← hx]; cases cf <;> simp [ttlClassText], hs, h36⟩
  | none =>
    cases cls with
    | some k =>
      obtain ⟨x, hx⟩ := hC k (sep ++ (renderType ty ++ (sep ++ 92 :: 35 :: (genericTail sep rd ++ tail))))
      exact ⟨67, x, by rw [← hx]; cases cf <;> simp [ttlClassText], f67.1, f67.2⟩
    | none =>
      obtain ⟨x, hx⟩ := hT (sep ++ 92 :: 35 :: (genericTail sep rd ++ tail))
      exact ⟨84, x, by rw [← hx]; cases cf <;> simp [ttlClassText], f84.1, f84.2⟩

/-- the record parser from the TTL/class/type fields on: values, RDATA, and the new context -/
theorem recordTail_eval (ctx : Ctx) (owner : List UInt8) (startLine : Nat) (sep : List UInt8) (hne : sep ≠ [])
    (hsep : ∀ x ∈ sep, isWs x = true) (ttl cls : Option Nat) (cf : Bool) (ht : ∀ t, ttl = some t → t ≤ 4294967295)
    (hk : ∀ k, cls = some k → k ≤ 65535) (ty : Nat) (hty : ty ≤ 65535) (h10 : ty ≠ 10) (h41 : ty ≠ 41)
    (h250 : ty ≠ 250) (rd : List UInt8) (hlen : rd.length ≤ 65535) (tv cv : Nat)
    (htv : ttlChoice ctx ttl = some tv) (hcv : clsChoice ctx cls = some cv)
    (hvalid : validate cv ty rd = .ok ())
    (ws cmt r : List UInt8) (hws : ∀ x ∈ ws, isWs x = true) (hc : commentOK cmt) (line : Nat) :
    (do
      skipToNextField Kind.ExpectedTtlClassOrType
      let __x ← parseTtlAndClass ctx
      match __x with
        | (ttl, cls) => do
          skipToNextField Kind.ExpectedType
          let ty ← parseTypeField
          let rdata ← parseRdata ctx cls ty
          pure
              (some (Item.record startLine { owner := owner, ttl := ttl, cls := cls, ty := ty, rdata := rdata }),
                { ctx with prevOwner := some owner, prevTtl := some ttl, prevClass := some cls }) : P (Option Item × Ctx))
      ⟨recordBody sep ttl cls cf ty rd (ws ++ (cmt ++ 10 :: r)), line, false⟩ =
    .ok ((some (.record startLine ⟨owner, tv, cv, ty, rd⟩),
          { ctx with prevOwner := some owner, prevTtl := some tv, prevClass := some cv }),
         ⟨r, line + 1, false⟩) := by
  obtain ⟨c, t, hbody, hstart, _⟩ := recordBody_head sep ttl cls cf ty rd (ws ++ (cmt ++ 10 :: r))
  have hR : atFieldEnd (sep ++ 92 :: 35 :: (genericTail sep rd ++ (ws ++ (cmt ++ 10 :: r)))) = true :=
    atFieldEnd_sep sep _ hne hsep
  obtain ⟨st1, h1, h2⟩ := ttlClass_eval ctx sep hne hsep ttl cls cf ht hk ty hty _ hR tv cv htv hcv line
  have hskip0 : skipToNextField .ExpectedTtlClassOrType ⟨recordBody sep ttl cls cf ty rd (ws ++ (cmt ++ 10 :: r)), line, false⟩ =
      .ok ((), ⟨recordBody sep ttl cls cf ty rd (ws ++ (cmt ++ 10 :: r)), line, false⟩) := by
    rw [hbody]; exact skip_nil _ c t hstart line false
  simp only [bind, P.bind, hskip0]
  unfold recordBody
  simp only [h1, h2, parseTypeField_render ty hty h10 h41 h250 _ hR line false,
    parseRdata_generic ctx cv ty h41 h250 sep rd ws cmt r hne hsep hlen hvalid hws hc line, pure, P.pure]

/-! ### whole records -/

/-- the parser's context as the specification sees it -/
def toSCtx (ctx : Ctx) : SCtx := ⟨ctx.origin, ctx.prevOwner, ctx.prevTtl, ctx.prevClass, ctx.defaultTtl⟩

structure WFOwnerAbs (ls : List PLabel) : Prop where
  ne : ls ≠ []
  forms : ∀ l ∈ ls, ∀ x ∈ l, nameFormOK x.1 x.2 = true
  labels : LabelsOK (ls.map labelOctets)
  total : (flatLabels (ls.map labelOctets)).length + 1 ≤ 255
  notDollar : (renderAbsName ls).head? ≠ some 36

structure WFOwnerRel (ls : List PLabel) (l : PLabel) : Prop where
  forms : ∀ l' ∈ ls ++ [l], ∀ x ∈ l', nameFormOK x.1 x.2 = true
  labels : LabelsOK ((ls ++ [l]).map labelOctets)
  notAt : renderLabels (ls ++ [l]) ≠ [64]
  notDollar : (renderLabels (ls ++ [l])).head? ≠ some 36

/-- well-formed presentation of a record (what the writer must respect) -/
structure WFRecord (p : PRecord) : Prop where
  sep_ne : p.sep ≠ []
  sep_ws : ∀ x ∈ p.sep, isWs x = true
  trail_ws : ∀ x ∈ p.trail, isWs x = true
  comment_ok : commentOK p.comment
  abs_ok : ∀ ls, p.owner = .abs ls → WFOwnerAbs ls
  rel_ok : ∀ ls l, p.owner = .rel ls l → WFOwnerRel ls l
  ttl_ok : ∀ t, p.ttl = some t → t ≤ 4294967295
  cls_ok : ∀ k, p.cls = some k → k ≤ 65535
  ty_ok : p.ty ≤ 65535 ∧ p.ty ≠ 10 ∧ p.ty ≠ 41 ∧ p.ty ≠ 250
  rd_ok : p.rdata.length ≤ 65535

theorem dropWhile_ws (sep : List UInt8) (hsep : ∀ x ∈ sep, isWs x = true) (c : UInt8) (t : List UInt8)
    (hc : isWs c = false) : (sep ++ c :: t).dropWhile isWs = c :: t := by
  induction sep with
  | nil => simp [List.dropWhile, hc]
  | cons x sep ih =>
    simp only [List.cons_append, List.dropWhile, hsep x (by simp)]
    exact ih (fun y hy => hsep y (by simp [hy]))

theorem renderRecord_eq (p : PRecord) (r : List UInt8) :
    renderRecord p ++ r =
      ownerText p.owner ++
        (p.sep ++ recordBody p.sep p.ttl p.cls p.clsFirst p.ty p.rdata (p.trail ++ (p.comment ++ 10 :: r))) := by
  unfold renderRecord recordBody
  simp

theorem nameNewlines_eq (ls : List PLabel) : nameNewlines ls = labelLines ls := rfl

theorem wireLabels_eq (ls : List (List UInt8)) : wireLabels ls = flatLabels ls := rfl

theorem denoteRecord_some {c : SCtx} {line : Nat} {p : PRecord} {sr : SRecord} {sc' : SCtx}
    (h : denoteRecord c line p = some (sr, sc')) :
    ∃ owner tv cv, ownerOf c p = some owner ∧ ttlOf c p = some tv ∧ clsOf c p = some cv ∧
      sr = ⟨line, owner, tv, cv, p.ty, p.rdata⟩ ∧
      sc' = { c with prevOwner := some owner, prevTtl := some tv, prevClass := some cv } := by
  unfold denoteRecord at h
  split at h
  · next owner tv cv h1 h2 h3 =>
    simp only [Option.some.injEq, Prod.mk.injEq] at h
    exact ⟨owner, tv, cv, h1, h2, h3, h.1.symm, h.2.symm⟩
  · cases h

/-- a record line whose owner field is a name: whatever `parse_name` makes of the owner text is
    the owner; the rest is the record tail -/
theorem parseLine_named (ctx : Ctx) (T : List UInt8) (c0 : UInt8) (t0 : List UInt8) (hT : T = c0 :: t0)
    (hc0 : fieldStart c0) (h36 : (c0 == 36) = false) (w : List UInt8) (k line : Nat)
    (hparse : ∀ rest, atFieldEnd rest = true →
      parseName ctx.origin ⟨T ++ rest, line, false⟩ = .ok (w, ⟨rest, line + k, false⟩))
    (sep : List UInt8) (hne : sep ≠ []) (hsep : ∀ x ∈ sep, isWs x = true) (ttl cls : Option Nat) (cf : Bool)
    (ht : ∀ t, ttl = some t → t ≤ 4294967295) (hk : ∀ k, cls = some k → k ≤ 65535) (ty : Nat)
    (hty : ty ≤ 65535) (h10 : ty ≠ 10) (h41 : ty ≠ 41) (h250 : ty ≠ 250) (rd : List UInt8)
    (hlen : rd.length ≤ 65535) (tv cv : Nat) (htv : ttlChoice ctx ttl = some tv)
    (hcv : clsChoice ctx cls = some cv) (hvalid : validate cv ty rd = .ok ())
    (ws cmt r : List UInt8) (hws : ∀ x ∈ ws, isWs x = true) (hc : commentOK cmt) :
    parseLine ctx ⟨T ++ (sep ++ recordBody sep ttl cls cf ty rd (ws ++ (cmt ++ 10 :: r))), line, false⟩ =
      .ok ((some (.record line ⟨w, tv, cv, ty, rd⟩),
            { ctx with prevOwner := some w, prevTtl := some tv, prevClass := some cv }),
           ⟨r, line + k + 1, false⟩) := by
  obtain ⟨c, t, hbody, hstart, _⟩ := recordBody_head sep ttl cls cf ty rd (ws ++ (cmt ++ 10 :: r))
  have hc0ws : isWs c0 = false := fieldStart_not_ws hc0
  have hname := hparse (sep ++ recordBody sep ttl cls cf ty rd (ws ++ (cmt ++ 10 :: r))) (atFieldEnd_sep sep _ hne hsep)
  subst hT
  unfold parseLine
  simp only [List.cons_append, h36, Bool.false_eq_true, ↓reduceIte]
  rw [parseRecordOrEmpty_eq]
  have hskipws : ∀ rest', skipWhitespace ⟨c0 :: rest', line, false⟩ = (false, ⟨c0 :: rest', line, false⟩) := by
    intro rest'
    unfold skipWhitespace
    simp [hc0ws, List.dropWhile]
  simp only [hskipws, fieldOrEol_at_field true c0 _ hc0 line false]
  have hb : ((FieldOrEol.Field == FieldOrEol.Eol) = true) = False := by simp
  simp only [hb, ↓reduceIte]
  unfold parseRecordRest
  simp only [Bool.false_eq_true, ↓reduceIte, bind, P.bind, pName]
  simp only [List.cons_append] at hname
  simp only [hname]
  have hskip := skipToNextField_gap .ExpectedTtlClassOrType sep hsep c t hstart (line + k) false
  have htail := recordTail_eval ctx w line sep hne hsep ttl cls cf ht hk ty hty h10 h41 h250 rd hlen tv cv htv hcv
    hvalid ws cmt r hws hc (line + k)
  rw [hbody] at htail ⊢
  simp only [bind, P.bind, skip_nil _ c t hstart] at htail
  simp only [hskip]
  exact htail

theorem labels_head {ls : List PLabel} {l : PLabel} (hforms : ∀ l' ∈ ls ++ [l], ∀ x ∈ l', nameFormOK x.1 x.2 = true)
    (hLs : LabelsOK ((ls ++ [l]).map labelOctets)) :
    ∃ c t, renderLabels (ls ++ [l]) = c :: t ∧ fieldStart c := by
  rw [renderLabels_snoc]
  cases ls with
  | nil =>
    have hne : l ≠ [] := label_nonempty (hLs (labelOctets l) (by simp)).1
    obtain ⟨c, t, hct, _, hend⟩ := renderLabel_head hne (hforms l (by simp))
    exact ⟨c, t, by simp [hct], hend⟩
  | cons x ls' =>
    have hne : x ≠ [] := label_nonempty (hLs (labelOctets x) (by simp)).1
    obtain ⟨c, t, hct, _, hend⟩ := renderLabel_head hne (hforms x (by simp))
    exact ⟨c, _, by simp [hct]; rfl, hend⟩

/-- **One record.**  A well-formed record line, in a well-formed context in which it denotes a
    record whose RDATA is valid for its class and type, parses to exactly that record, at the
    line where it starts; the parser's context afterwards is the denoted one. -/
theorem parseLine_record (ctx : Ctx) (hctx : CtxWF ctx) (p : PRecord) (hwf : WFRecord p) (line : Nat)
    (r : List UInt8) (sr : SRecord) (sc' : SCtx) (hden : denoteRecord (toSCtx ctx) line p = some (sr, sc'))
    (hvalid : validate sr.cls p.ty p.rdata = .ok ()) :
    ∃ ctx', parseLine ctx ⟨renderRecord p ++ r, line, false⟩ =
        .ok ((some (.record sr.line ⟨sr.owner, sr.ttl, sr.cls, sr.ty, sr.rdata⟩), ctx'),
             ⟨r, line + ownerLines p.owner + 1, false⟩) ∧
      toSCtx ctx' = sc' := by
  obtain ⟨hne, hsep, htrail, hcmt, habs, hrel, httl, hcls, ⟨hty, h10, h41, h250⟩, hrd⟩ := hwf
  obtain ⟨owner, tv, cv, howner, htv, hcv, rfl, rfl⟩ := denoteRecord_some hden
  have htv' : ttlChoice ctx p.ttl = some tv := by
    unfold ttlOf at htv
    unfold ttlChoice
    cases hp : p.ttl with
    | some t => simpa [hp, ttlFrom, ttlValue] using htv
    | none => simpa [hp, toSCtx, defaultOrPreviousTtl] using htv
  have hcv' : clsChoice ctx p.cls = some cv := by
    unfold clsOf at hcv
    unfold clsChoice
    cases hp : p.cls with
    | some k => simpa [hp] using hcv
    | none => simpa [hp, toSCtx] using hcv
  unfold ownerOf at howner
  obtain ⟨c, t, hbody, hstart, hc36⟩ := recordBody_head p.sep p.ttl p.cls p.clsFirst p.ty p.rdata (p.trail ++ (p.comment ++ 10 :: r))
  have hcws := fieldStart_not_ws hstart
  rw [renderRecord_eq]
  cases hp : p.owner with
  | same =>
    simp only [hp, toSCtx] at howner
    simp only [ownerText, List.nil_append, ownerLines, Nat.add_zero]
    -- the line starts with blanks: same owner as before
    obtain ⟨x, sep', hsep'⟩ : ∃ x sep', p.sep = x :: sep' := by
      cases hs : p.sep with
      | nil => exact absurd hs hne
      | cons x s => exact ⟨x, s, rfl⟩
    have hx : isWs x = true := hsep x (by rw [hsep']; simp)
    have hx36 : (x == 36) = false := by
      simp only [isWs, Bool.or_eq_true, beq_iff_eq] at hx
      rcases hx with rfl | rfl <;> decide
    refine ⟨{ ctx with prevOwner := some owner, prevTtl := some tv, prevClass := some cv }, ?_, by simp [toSCtx]⟩
    have esep : p.sep ++ recordBody p.sep p.ttl p.cls p.clsFirst p.ty p.rdata (p.trail ++ (p.comment ++ 10 :: r)) =
        x :: (sep' ++ recordBody p.sep p.ttl p.cls p.clsFirst p.ty p.rdata (p.trail ++ (p.comment ++ 10 :: r))) := by
      conv => lhs; arg 1; rw [hsep']
      rfl
    rw [esep]
    unfold parseLine
    simp only [hx36, Bool.false_eq_true, ↓reduceIte]
    rw [parseRecordOrEmpty_eq]
    have hskipws : skipWhitespace ⟨x :: (sep' ++ recordBody p.sep p.ttl p.cls p.clsFirst p.ty p.rdata (p.trail ++ (p.comment ++ 10 :: r))), line, false⟩ =
        (true, ⟨recordBody p.sep p.ttl p.cls p.clsFirst p.ty p.rdata (p.trail ++ (p.comment ++ 10 :: r)), line, false⟩) := by
      unfold skipWhitespace
      simp only [hx]
      have := dropWhile_ws p.sep hsep c t hcws
      rw [← hbody, esep] at this
      rw [this]
    simp only [hskipws]
    simp only [hbody, fieldOrEol_at_field true c t hstart line false]
    have hb : ((FieldOrEol.Field == FieldOrEol.Eol) = true) = False := by simp
    simp only [hb, ↓reduceIte]
    unfold parseRecordRest
    simp only [↓reduceIte, howner, bind, P.bind, pure, P.pure]
    rw [← hbody]
    exact recordTail_eval ctx owner line p.sep hne hsep p.ttl p.cls p.clsFirst httl hcls p.ty hty h10 h41 h250 p.rdata hrd tv cv
      htv' hcv' hvalid p.trail p.comment r htrail hcmt line
  | abs ls =>
    simp only [hp, Option.some.injEq] at howner
    subst howner
    obtain ⟨lne, lforms, llabels, ltotal, ldollar⟩ := habs ls hp
    obtain ⟨l, ls', rfl⟩ : ∃ l ls', ls = l :: ls' := by
      cases ls with
      | nil => exact absurd rfl lne
      | cons l ls' => exact ⟨l, ls', rfl⟩
    have hlne : l ≠ [] := label_nonempty (llabels (labelOctets l) (by simp)).1
    obtain ⟨c0, t0, hct0, _, hc0⟩ := renderLabel_head hlne (lforms l (by simp))
    have habsT : renderAbsName (l :: ls') = c0 :: (t0 ++ 46 :: (ls'.flatMap fun l => renderLabel l ++ [46])) := by
      simp [renderAbsName, hct0]
    have hc036 : (c0 == 36) = false := by
      rw [habsT] at ldollar
      simpa using ldollar
    refine ⟨_, parseLine_named ctx (renderAbsName (l :: ls')) c0 _ habsT hc0 hc036 _ (labelLines (l :: ls')) line
      (fun rest hrest => by
        have := parseName_abs ctx.origin (l :: ls') lne lforms llabels ltotal rest hrest line false
        rw [nameNewlines_eq] at this; exact this)
      p.sep hne hsep p.ttl p.cls p.clsFirst httl hcls p.ty hty h10 h41 h250 p.rdata hrd tv cv htv' hcv' hvalid
      p.trail p.comment r htrail hcmt, by simp [toSCtx]⟩
  | rel ls l =>
    simp only [hp, toSCtx] at howner
    obtain ⟨lforms, llabels, lnotat, ldollar⟩ := hrel ls l hp
    cases ho : ctx.origin with
    | none => simp [ho] at howner
    | some o =>
      simp only [ho] at howner
      split at howner
      · next hfit =>
        simp only [Option.some.injEq] at howner
        subst howner
        obtain ⟨c0, t0, hct0, hc0⟩ := labels_head lforms llabels
        have hc036 : (c0 == 36) = false := by
          rw [hct0] at ldollar
          simpa using ldollar
        have hoWF : NameWF o := hctx.1 o ho
        refine ⟨_, parseLine_named ctx (renderLabels (ls ++ [l])) c0 t0 hct0 hc0 hc036 _ (labelLines (ls ++ [l])) line
          (fun rest hrest => by
            have := parseName_rel o hoWF ls l lforms llabels (by rw [wireLabels_eq] at hfit; exact hfit) lnotat rest
              hrest line false
            rw [nameNewlines_eq] at this
            rw [ho, wireLabels_eq]; exact this)
          p.sep hne hsep p.ttl p.cls p.clsFirst httl hcls p.ty hty h10 h41 h250 p.rdata hrd tv cv htv' hcv' hvalid
          p.trail p.comment r htrail hcmt, by simp [toSCtx]⟩
      · cases howner
  | atSign =>
    simp only [hp, toSCtx] at howner
    refine ⟨_, parseLine_named ctx [64] 64 [] rfl (.inr (by decide)) (by decide) owner 0 line
      (fun rest hrest => by
        rw [howner]
        exact parseName_at owner rest hrest line false)
      p.sep hne hsep p.ttl p.cls p.clsFirst httl hcls p.ty hty h10 h41 h250 p.rdata hrd tv cv htv' hcv' hvalid
      p.trail p.comment r htrail hcmt, by simp [toSCtx]⟩

/-! ### blank lines and directives -/

theorem parseLine_blank (ctx : Ctx) (ws cmt r : List UInt8) (hws : ∀ x ∈ ws, isWs x = true)
    (hc : commentOK cmt) (line : Nat) :
    parseLine ctx ⟨ws ++ (cmt ++ 10 :: r), line, false⟩ = .ok ((none, ctx), ⟨r, line + 1, false⟩) := by
  -- the first octet of the line: a blank, `;`, or the newline — never `$`
  obtain ⟨c, t, hct, hc36⟩ : ∃ c t, ws ++ (cmt ++ 10 :: r) = c :: t ∧ (c == 36) = false := by
    cases ws with
    | cons x ws' =>
      have hx := hws x (by simp)
      refine ⟨x, _, rfl, ?_⟩
      simp only [isWs, Bool.or_eq_true, beq_iff_eq] at hx
      rcases hx with rfl | rfl <;> decide
    | nil =>
      rcases hc with rfl | ⟨body, rfl, _⟩
      · exact ⟨10, r, rfl, by decide⟩
      · exact ⟨59, _, rfl, by decide⟩
  unfold parseLine
  simp only [hct, hc36, Bool.false_eq_true, ↓reduceIte]
  rw [parseRecordOrEmpty_eq, ← hct]
  have hdrop : (ws ++ (cmt ++ 10 :: r)).dropWhile isWs = cmt ++ 10 :: r := by
    rcases hc with rfl | ⟨body, rfl, _⟩
    · exact dropWhile_ws ws hws 10 r (by decide)
    · exact dropWhile_ws ws hws 59 _ (by decide)
  have hsk : (skipWhitespace ⟨ws ++ (cmt ++ 10 :: r), line, false⟩).2 = ⟨cmt ++ 10 :: r, line, false⟩ := by
    unfold skipWhitespace
    rw [hct]; simp only; rw [← hct, hdrop]
  rw [hsk]
  have := fieldOrEol_eol [] cmt r (by simp) hc line
  simp only [List.nil_append] at this
  simp only [this, beq_self_eq_true, ↓reduceIte, pure, P.pure]

theorem origin_bytes : "$ORIGIN".toUTF8.toList = [36, 79, 82, 73, 71, 73, 78] := by decide +kernel
theorem ttl_bytes : "$TTL".toUTF8.toList = [36, 84, 84, 76] := by decide +kernel

/-- `$ORIGIN <absolute name>` sets the origin -/
theorem parseLine_origin (ctx : Ctx) (ls : List PLabel) (hls : WFOwnerAbs ls) (sep ws cmt r : List UInt8)
    (hne : sep ≠ []) (hsep : ∀ x ∈ sep, isWs x = true) (hws : ∀ x ∈ ws, isWs x = true) (hc : commentOK cmt)
    (line : Nat) :
    parseLine ctx ⟨[36, 79, 82, 73, 71, 73, 78] ++ (sep ++ (renderAbsName ls ++ (ws ++ (cmt ++ 10 :: r)))), line, false⟩ =
      .ok ((none, { ctx with origin := some (wireName (ls.map labelOctets)) }),
           ⟨r, line + labelLines ls + 1, false⟩) := by
  obtain ⟨lne, lforms, llabels, ltotal, _⟩ := hls
  obtain ⟨l, ls', rfl⟩ : ∃ l ls', ls = l :: ls' := by
    cases ls with
    | nil => exact absurd rfl lne
    | cons l ls' => exact ⟨l, ls', rfl⟩
  have hlne : l ≠ [] := label_nonempty (llabels (labelOctets l) (by simp)).1
  obtain ⟨c0, t0, hct0, _, hc0⟩ := renderLabel_head hlne (lforms l (by simp))
  have habsT : renderAbsName (l :: ls') = c0 :: (t0 ++ 46 :: (ls'.flatMap fun l => renderLabel l ++ [46])) := by
    simp [renderAbsName, hct0]
  have hEnd := atFieldEnd_eol ws cmt r hws hc
  have hname := parseName_abs ctx.origin (l :: ls') lne lforms llabels ltotal _ hEnd line false
  rw [nameNewlines_eq] at hname
  have hexp : expectFieldCI [36, 79, 82, 73, 71, 73, 78]
      ⟨[36, 79, 82, 73, 71, 73, 78] ++ (sep ++ (renderAbsName (l :: ls') ++ (ws ++ (cmt ++ 10 :: r)))), line, false⟩ =
      (true, ⟨sep ++ (renderAbsName (l :: ls') ++ (ws ++ (cmt ++ 10 :: r))), line, false⟩) := by
    unfold expectFieldCI expectFieldImpl
    simp [eqIgnoreCase, atFieldEnd_sep sep _ hne hsep]
  have hskip := skipToNextField_gap .ExpectedName sep hsep c0
    (t0 ++ 46 :: (ls'.flatMap fun l => renderLabel l ++ [46]) ++ (ws ++ (cmt ++ 10 :: r))) hc0 line false
  unfold parseLine
  simp only [List.cons_append, List.nil_append, beq_self_eq_true, ↓reduceIte]
  unfold parseDirective
  simp only [bind, P.bind, liftB, origin_bytes]
  simp only [List.cons_append, List.nil_append] at hexp
  simp only [hexp, ↓reduceIte]
  unfold parseOriginDirective
  rw [habsT] at hname ⊢
  simp only [List.cons_append, List.append_assoc] at hskip hname ⊢
  simp only [bind, P.bind, hskip, pName, hname, expectEol_eol ws cmt r hws hc, pure, P.pure]

/-- `$TTL <decimal>` sets the default TTL -/
theorem parseLine_ttl (ctx : Ctx) (n : Nat) (hn : n ≤ 4294967295) (sep ws cmt r : List UInt8)
    (hne : sep ≠ []) (hsep : ∀ x ∈ sep, isWs x = true) (hws : ∀ x ∈ ws, isWs x = true) (hc : commentOK cmt)
    (line : Nat) :
    parseLine ctx ⟨[36, 84, 84, 76] ++ (sep ++ (decimal n ++ (ws ++ (cmt ++ 10 :: r)))), line, false⟩ =
      .ok ((none, { ctx with defaultTtl := some (ttlFrom n) }), ⟨r, line + 1, false⟩) := by
  obtain ⟨d, ds, hd, hdstart⟩ := decimal_head n
  have hEnd := atFieldEnd_eol ws cmt r hws hc
  have hcmp : ∀ X : List UInt8, eqIgnoreCase (List.take 7 (36 :: 84 :: 84 :: 76 :: X)) [36, 79, 82, 73, 71, 73, 78] = false := by
    intro X; simp [eqIgnoreCase, lowerU8]
  have hnot : (expectFieldCI [36, 79, 82, 73, 71, 73, 78]
      ⟨[36, 84, 84, 76] ++ (sep ++ (decimal n ++ (ws ++ (cmt ++ 10 :: r)))), line, false⟩) =
      (false, ⟨[36, 84, 84, 76] ++ (sep ++ (decimal n ++ (ws ++ (cmt ++ 10 :: r)))), line, false⟩) := by
    unfold expectFieldCI expectFieldImpl
    simp only [List.cons_append, List.nil_append]
    split
    · rfl
    · simp only [show ([36, 79, 82, 73, 71, 73, 78] : List UInt8).length = 7 from rfl, hcmp, Bool.false_and,
        Bool.false_eq_true, ↓reduceIte]
  have hexp : expectFieldCI [36, 84, 84, 76]
      ⟨[36, 84, 84, 76] ++ (sep ++ (decimal n ++ (ws ++ (cmt ++ 10 :: r)))), line, false⟩ =
      (true, ⟨sep ++ (decimal n ++ (ws ++ (cmt ++ 10 :: r))), line, false⟩) := by
    unfold expectFieldCI expectFieldImpl
    simp [eqIgnoreCase, atFieldEnd_sep sep _ hne hsep]
  have hskip := skipToNextField_gap .ExpectedTtl sep hsep d (ds ++ (ws ++ (cmt ++ 10 :: r))) hdstart line false
  have hread := readField_decimal 4294967295 n hn (by omega) .InvalidTtl _ hEnd line false
  unfold parseLine
  simp only [List.cons_append, List.nil_append, beq_self_eq_true, ↓reduceIte]
  unfold parseDirective
  simp only [bind, P.bind, liftB, origin_bytes, ttl_bytes]
  simp only [List.cons_append, List.nil_append] at hnot hexp
  simp only [hnot, Bool.false_eq_true, ↓reduceIte]
  simp only [bind, P.bind, liftB, hexp, ↓reduceIte]
  unfold parseTtlDirective
  rw [hd] at hread ⊢
  simp only [List.cons_append, List.append_assoc] at hskip hread ⊢
  simp only [bind, P.bind, hskip, show parseU32 = parseUInt 4294967295 from rfl, hread,
    expectEol_eol ws cmt r hws hc, pure, P.pure]

/-! ### whole files -/

theorem collect_item {p p' : Parser} {i : Item} (hn : p.next = (some (.item i), p'))
    (hlt : p'.st.inp.length < p.st.inp.length) : collect p = .item i :: collect p' := by
  rw [collect, hn]; simp [hlt]

theorem collect_none {p p' : Parser} (hn : p.next = (none, p')) : collect p = [] := by
  rw [collect, hn]

/-- two reader states (and contexts) from which `parse_lines_until_returnable_data_found` behaves
    the same yield the same items -/
theorem collect_of_untilData_eq {ctx1 ctx2 : Ctx} {st1 st2 : St} (h : untilData ctx1 st1 = untilData ctx2 st2)
    (hctx : CtxWF ctx2) (hlen : st2.inp.length ≤ st1.inp.length) :
    collect ⟨false, st1, ctx1⟩ = collect ⟨false, st2, ctx2⟩ := by
  have g := next_spec (p := ⟨false, st2, ctx2⟩) hctx
  rw [collect, collect]
  simp only [Parser.next, Bool.false_eq_true, ↓reduceIte, h] at g ⊢
  cases hu : untilData ctx2 st2 with
  | ok r =>
    obtain ⟨⟨it?, ctx'⟩, st'⟩ := r
    rw [hu] at g
    cases it? with
    | none => rfl
    | some item =>
      simp only [NextOK] at g
      have h2 : st'.inp.length < st2.inp.length := g.2.2
      have h1 : st'.inp.length < st1.inp.length := by omega
      simp [h1, h2]
  | err e => simp [Parser.next]
  | panic => simp [Parser.next]

/-- a line that yields nothing is stepped over -/
theorem untilData_skip {ctx ctx' : Ctx} {st st' : St} (hline : parseLine ctx st = .ok ((none, ctx'), st'))
    (hlt : st'.inp.length < st.inp.length) : untilData ctx st = untilData ctx' st' := by
  rw [untilData]
  cases hi : st.inp with
  | nil => rw [hi] at hlt; simp at hlt
  | cons c t =>
    rw [hi] at hlt
    simp only; rw [hline]; simp only [hlt, ↓reduceIte]

theorem next_of_untilData {ctx ctx' : Ctx} {st st' : St} {i : Item}
    (h : untilData ctx st = .ok ((some i, ctx'), st')) :
    (⟨false, st, ctx⟩ : Parser).next = (some (.item i), ⟨false, st', ctx'⟩) := by
  simp [Parser.next, h]

/-- well-formed presentation of an entry -/
def WFEntry : PEntry → Prop
  | .blank ws cmt => (∀ x ∈ ws, isWs x = true) ∧ commentOK cmt
  | .record p => WFRecord p
  | .origin ls sep trail cmt =>
    WFOwnerAbs ls ∧ sep ≠ [] ∧ (∀ x ∈ sep, isWs x = true) ∧ (∀ x ∈ trail, isWs x = true) ∧ commentOK cmt
  | .ttl n sep trail cmt =>
    n ≤ 4294967295 ∧ sep ≠ [] ∧ (∀ x ∈ sep, isWs x = true) ∧ (∀ x ∈ trail, isWs x = true) ∧ commentOK cmt

def itemOf (sr : SRecord) : Yield := .item (.record sr.line ⟨sr.owner, sr.ttl, sr.cls, sr.ty, sr.rdata⟩)

/-- stepping over a line that yields nothing, in the run -/
theorem collect_skip {ctx ctx' : Ctx} (hctx : CtxWF ctx) {text R : List UInt8} {line line' : Nat}
    (hline : parseLine ctx ⟨text ++ R, line, false⟩ = .ok ((none, ctx'), ⟨R, line', false⟩))
    (hne : text ≠ []) :
    collect ⟨false, ⟨text ++ R, line, false⟩, ctx⟩ = collect ⟨false, ⟨R, line', false⟩, ctx'⟩ ∧ CtxWF ctx' := by
  have hlt : R.length < (text ++ R).length := by
    have : 0 < text.length := List.length_pos_iff.mpr hne
    simp; omega
  have g := parseLine_good hctx ⟨text ++ R, line, false⟩ (by simp [hne])
  rw [hline] at g
  exact ⟨collect_of_untilData_eq (untilData_skip hline hlt) g.1.2 (by simp), g.1.2⟩

/-- **Whole files of the subset.**  A file of well-formed entries that denotes the records `srs`
    (all with RDATA valid for class and type) parses to exactly those records, in order, with
    their line numbers — from any well-formed context and line. -/
theorem collect_file (es : List PEntry) (hwf : ∀ e ∈ es, WFEntry e) (ctx : Ctx) (hctx : CtxWF ctx)
    (line : Nat) (srs : List SRecord) (hden : denoteFile es (toSCtx ctx) line = some srs)
    (hvalid : ∀ sr ∈ srs, validate sr.cls sr.ty sr.rdata = .ok ()) :
    collect ⟨false, ⟨renderFile es, line, false⟩, ctx⟩ = srs.map itemOf := by
  induction es generalizing ctx line srs with
  | nil =>
    simp only [denoteFile, Option.some.injEq] at hden
    subst hden
    apply collect_none (p' := ⟨false, ⟨[], line, false⟩, ctx⟩)
    simp [Parser.next, renderFile, untilData]
  | cons e es ih =>
    have hwf' : ∀ e' ∈ es, WFEntry e' := fun e' h' => hwf e' (by simp [h'])
    have hrf : renderFile (e :: es) = renderEntry e ++ renderFile es := by simp [renderFile]
    cases e with
    | blank ws cmt =>
      obtain ⟨hws, hcmt⟩ := hwf (.blank ws cmt) (by simp)
      simp only [denoteFile] at hden
      have hline := parseLine_blank ctx ws cmt (renderFile es) hws hcmt line
      have htext : renderFile (.blank ws cmt :: es) = (ws ++ cmt ++ [10]) ++ renderFile es := by
        simp [hrf, renderEntry]
      rw [htext]
      have hline' : parseLine ctx ⟨(ws ++ cmt ++ [10]) ++ renderFile es, line, false⟩ =
          .ok ((none, ctx), ⟨renderFile es, line + 1, false⟩) := by
        have e : (ws ++ cmt ++ [10]) ++ renderFile es = ws ++ (cmt ++ 10 :: renderFile es) := by simp
        rw [e]; exact hline
      obtain ⟨hc, _⟩ := collect_skip hctx hline' (by simp)
      rw [hc]
      exact ih hwf' ctx hctx (line + 1) srs hden hvalid
    | origin ls sep trail cmt =>
      obtain ⟨hls, hne, hsep, htrail, hcmt⟩ := hwf (.origin ls sep trail cmt) (by simp)
      simp only [denoteFile] at hden
      have hline := parseLine_origin ctx ls hls sep trail cmt (renderFile es) hne hsep htrail hcmt line
      have htext : renderFile (.origin ls sep trail cmt :: es) =
          ([36, 79, 82, 73, 71, 73, 78] ++ sep ++ renderAbsName ls ++ trail ++ cmt ++ [10]) ++ renderFile es := by
        simp [hrf, renderEntry]
      rw [htext]
      have hline' : parseLine ctx
          ⟨([36, 79, 82, 73, 71, 73, 78] ++ sep ++ renderAbsName ls ++ trail ++ cmt ++ [10]) ++ renderFile es, line, false⟩ =
          .ok ((none, { ctx with origin := some (wireName (ls.map labelOctets)) }),
            ⟨renderFile es, line + labelLines ls + 1, false⟩) := by
        have e : ([36, 79, 82, 73, 71, 73, 78] ++ sep ++ renderAbsName ls ++ trail ++ cmt ++ [10]) ++ renderFile es =
            [36, 79, 82, 73, 71, 73, 78] ++ (sep ++ (renderAbsName ls ++ (trail ++ (cmt ++ 10 :: renderFile es)))) := by
          simp
        rw [e]; exact hline
      obtain ⟨hc, hctx'⟩ := collect_skip hctx hline' (by simp)
      rw [hc]
      exact ih hwf' _ hctx' _ srs hden hvalid
    | ttl n sep trail cmt =>
      obtain ⟨hn, hne, hsep, htrail, hcmt⟩ := hwf (.ttl n sep trail cmt) (by simp)
      simp only [denoteFile] at hden
      have hline := parseLine_ttl ctx n hn sep trail cmt (renderFile es) hne hsep htrail hcmt line
      have htext : renderFile (.ttl n sep trail cmt :: es) =
          ([36, 84, 84, 76] ++ sep ++ decimal n ++ trail ++ cmt ++ [10]) ++ renderFile es := by
        simp [hrf, renderEntry]
      rw [htext]
      have hline' : parseLine ctx
          ⟨([36, 84, 84, 76] ++ sep ++ decimal n ++ trail ++ cmt ++ [10]) ++ renderFile es, line, false⟩ =
          .ok ((none, { ctx with defaultTtl := some (ttlFrom n) }), ⟨renderFile es, line + 1, false⟩) := by
        have e : ([36, 84, 84, 76] ++ sep ++ decimal n ++ trail ++ cmt ++ [10]) ++ renderFile es =
            [36, 84, 84, 76] ++ (sep ++ (decimal n ++ (trail ++ (cmt ++ 10 :: renderFile es)))) := by simp
        rw [e]; exact hline
      obtain ⟨hc, hctx'⟩ := collect_skip hctx hline' (by simp)
      rw [hc]
      exact ih hwf' _ hctx' _ srs (by simpa [toSCtx, ttlFrom, ttlValue] using hden) hvalid
    | record p =>
      have hp := hwf (.record p) (by simp)
      simp only [denoteFile, bind, Option.bind] at hden
      cases hd : denoteRecord (toSCtx ctx) line p with
      | none => simp [hd] at hden
      | some res =>
        obtain ⟨sr, sc'⟩ := res
        simp only [hd] at hden
        cases hrest : denoteFile es sc' (line + ownerLines p.owner + 1) with
        | none => simp [hrest] at hden
        | some rest =>
          simp only [hrest, pure, Option.some.injEq] at hden
          subst hden
          have hsr : sr.ty = p.ty ∧ sr.rdata = p.rdata := by
            obtain ⟨_, _, _, _, _, _, rfl, _⟩ := denoteRecord_some hd
            exact ⟨rfl, rfl⟩
          have hv := hvalid sr (by simp)
          rw [hsr.1, hsr.2] at hv
          obtain ⟨ctx', hline, hsc⟩ := parseLine_record ctx hctx p hp line (renderFile es) sr sc' hd hv
          have htext : renderFile (.record p :: es) = renderRecord p ++ renderFile es := by
            simp [hrf, renderEntry]
          have hne : renderRecord p ++ renderFile es ≠ [] := by simp [renderRecord]
          have hu : untilData ctx ⟨renderRecord p ++ renderFile es, line, false⟩ =
              .ok ((some (.record sr.line ⟨sr.owner, sr.ttl, sr.cls, sr.ty, sr.rdata⟩), ctx'),
                ⟨renderFile es, line + ownerLines p.owner + 1, false⟩) := by
            rw [untilData]
            cases hw : renderRecord p ++ renderFile es with
            | nil => exact absurd hw hne
            | cons c t => simp only; rw [← hw, hline]
          rw [htext]
          have hnext := next_of_untilData hu
          have g := next_spec (p := ⟨false, ⟨renderRecord p ++ renderFile es, line, false⟩, ctx⟩) hctx
          rw [hnext] at g
          rw [collect_item hnext g.2.2]
          simp only [List.map_cons, itemOf]
          congr 1
          exact ih hwf' ctx' g.2.1 _ rest (by rw [hsc]; exact hrest)
            (fun s hs => hvalid s (by simp [hs]))

end QV.ZF
