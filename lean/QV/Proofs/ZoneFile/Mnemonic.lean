/-
  QV.Proofs.ZoneFile.Mnemonic — TYPE and CLASS fields written as mnemonics (any case) or in
  RFC 3597 form, through `FromStr for Type` / `FromStr for Class` and `read_field` (C23).
-/
import QV.Proofs.ZoneFile.Assemble
import QV.Proofs.Wire

namespace QV.ZF
open QV QV.Spec.ZF

/-! ### small evaluation lemmas -/

theorem tryP_ok {α} {p : P α} {st st' : St} {a : α} (h : p st = .ok (a, st')) :
    tryP p st = .ok (some a, st') := by simp [tryP, h]

theorem tryP_err {α} {p : P α} {st : St} {e : Err} (h : p st = .err e) :
    tryP p st = .ok (none, st) := by simp [tryP, h]

theorem readField_plain_none {α} (parse : List UInt8 → Option α) (k : Kind) (f rest : List UInt8)
    (hf : ∀ c ∈ f, plainOctet c = true) (hlen : f.length ≤ 65536) (hrest : atFieldEnd rest = true)
    (hp : parse f = none) (line : Nat) (paren : Bool) :
    readField parse k ⟨f ++ rest, line, paren⟩ = .err ⟨k, line⟩ := by
  unfold readField
  simp only [fieldLen_plain f rest hf hrest, Gen.MAX_READ_FIELD_SIZE]
  have : ¬ (f.length > 65536) := by omega
  simp [this, utf8Valid_ascii f hf, hp, fail]

theorem renderType_plain (ty : Nat) : ∀ c ∈ renderType ty, plainOctet c = true := by
  intro c hc
  simp only [renderType, List.cons_append, List.nil_append, List.mem_cons] at hc
  rcases hc with rfl | rfl | rfl | rfl | hc
  · decide
  · decide
  · decide
  · decide
  · exact decimal_plain ty c hc

theorem renderClass_plain (k : Nat) : ∀ c ∈ renderClass k, plainOctet c = true := by
  intro c hc
  simp only [renderClass, List.cons_append, List.nil_append, List.mem_cons] at hc
  rcases hc with rfl | rfl | rfl | rfl | rfl | hc
  · decide
  · decide
  · decide
  · decide
  · decide
  · exact decimal_plain k c hc

theorem renderType_length (ty : Nat) (h : ty ≤ 65535) : (renderType ty).length ≤ 65536 := by
  have := decimal_length_le ty (by omega)
  simp [renderType]; omega

theorem renderClass_length (k : Nat) (h : k ≤ 65535) : (renderClass k).length ≤ 65536 := by
  have := decimal_length_le k (by omega)
  simp [renderClass]; omega

theorem renderType_not_u32 (ty : Nat) : parseU32 (renderType ty) = none :=
  parseUInt_letter _ 84 _ (by decide) (by decide)

theorem renderClass_not_u32 (k : Nat) : parseU32 (renderClass k) = none :=
  parseUInt_letter _ 67 _ (by decide) (by decide)

theorem renderType_start (ty : Nat) (rest : List UInt8) :
    ∃ t, renderType ty ++ rest = 84 :: t ∧ fieldStart 84 := ⟨_, rfl, .inr (by decide)⟩

theorem renderClass_start (k : Nat) (rest : List UInt8) :
    ∃ t, renderClass k ++ rest = 67 :: t ∧ fieldStart 67 := ⟨_, rfl, .inr (by decide)⟩

/-- `parse_ttl` on a decimal TTL -/
theorem parseTtl_decimal (t : Nat) (ht : t ≤ 4294967295) (rest : List UInt8) (hrest : atFieldEnd rest = true)
    (line : Nat) (paren : Bool) :
    parseTtl ⟨decimal t ++ rest, line, paren⟩ = .ok (ttlFrom t, ⟨rest, line, paren⟩) := by
  unfold parseTtl
  simp only [bind, P.bind, show parseU32 = parseUInt 4294967295 from rfl,
    readField_decimal 4294967295 t ht (by omega) _ rest hrest line paren]
  rfl

/-- `parse_ttl` on a field that starts with a letter fails without consuming -/
theorem parseTtl_fails (f rest : List UInt8) (hf : ∀ c ∈ f, plainOctet c = true) (hlen : f.length ≤ 65536)
    (hrest : atFieldEnd rest = true) (hp : parseU32 f = none) (line : Nat) (paren : Bool) :
    tryP parseTtl ⟨f ++ rest, line, paren⟩ = .ok (none, ⟨f ++ rest, line, paren⟩) := by
  apply tryP_err (e := ⟨.InvalidTtl, line⟩)
  unfold parseTtl
  simp only [bind, P.bind, readField_plain_none parseU32 _ f rest hf hlen hrest hp line paren]

/-! ### case folding -/

theorem upperOctet_eq : upperOctet = upperU8 := rfl

theorem upper_lower (b : UInt8) : upperU8 (lowerU8 b) = upperU8 b := by
  revert b
  apply QV.Wire.forall_uint8
  decide +kernel

theorem map_upper_of_eqIgnoreCase {a b : List UInt8} (h : eqIgnoreCase a b = true) :
    a.map upperU8 = b.map upperU8 := by
  unfold eqIgnoreCase at h
  have h' : a.map lowerU8 = b.map lowerU8 := by simpa using h
  have : (a.map lowerU8).map upperU8 = (b.map lowerU8).map upperU8 := by rw [h']
  simpa [List.map_map, Function.comp_def, upper_lower] using this

/-- an octet whose upper-case form is an ASCII capital letter is a letter -/
theorem letter_of_upper (c : UInt8) (h : 65 ≤ (upperU8 c).toNat ∧ (upperU8 c).toNat ≤ 90) :
    plainOctet c = true ∧ isDigit c = false ∧ (c == 43) = false := by
  revert c
  apply QV.Wire.forall_uint8
  decide +kernel

/-! ### a field that is one plain word -/

structure FieldText (T : List UInt8) : Prop where
  plain : ∀ c ∈ T, plainOctet c = true
  len : T.length ≤ 65536
  ne : T ≠ []

theorem FieldText.head {T : List UInt8} (h : FieldText T) (rest : List UInt8) :
    ∃ c t, T ++ rest = c :: t ∧ fieldStart c := by
  cases hT : T with
  | nil => exact absurd hT h.ne
  | cons c t =>
    refine ⟨c, t ++ rest, rfl, .inr ?_⟩
    have := h.plain c (by rw [hT]; simp)
    simp only [plainOctet, Bool.and_eq_true, Bool.not_eq_true'] at this
    exact this.1

theorem readField_word {α} (parse : List UInt8 → Option α) (k : Kind) {T : List UInt8} (hT : FieldText T)
    (rest : List UInt8) (hrest : atFieldEnd rest = true) (line : Nat) (paren : Bool) :
    readField parse k ⟨T ++ rest, line, paren⟩ =
      match parse T with
      | some v => .ok (v, ⟨rest, line, paren⟩)
      | none => .err ⟨k, line⟩ := by
  cases hp : parse T with
  | some v => exact readField_plain parse k T rest v hT.plain hT.len hrest hp line paren
  | none =>
    unfold readField
    simp only [fieldLen_plain T rest hT.plain hrest, Gen.MAX_READ_FIELD_SIZE]
    have : ¬ (T.length > 65536) := by have := hT.len; omega
    simp [this, utf8Valid_ascii T hT.plain, hp, fail]

/-! ### mnemonics -/

/-- the upper-cased text of a mnemonic consists of capital letters -/
def allCaps (tbl : List (String × Nat)) : Bool :=
  tbl.all fun r => r.1.toUTF8.toList.all fun c => 65 ≤ c.toNat && c.toNat ≤ 90

theorem mnemonic_word {tbl : List (String × Nat)} (hcaps : allCaps tbl = true) {text : List UInt8} {m : String}
    {n : Nat} (hm : (m, n) ∈ tbl) (hne : m.toUTF8.toList ≠ []) (hlen : m.toUTF8.toList.length ≤ 16)
    (hu : text.map upperU8 = m.toUTF8.toList) :
    FieldText text ∧ ∀ max, parseUInt max text = none := by
  have hall : ∀ c ∈ text, 65 ≤ (upperU8 c).toNat ∧ (upperU8 c).toNat ≤ 90 := by
    intro c hc
    have hmem : upperU8 c ∈ m.toUTF8.toList := by rw [← hu]; exact List.mem_map.mpr ⟨c, hc, rfl⟩
    simp only [allCaps, List.all_eq_true, Bool.and_eq_true, decide_eq_true_eq] at hcaps
    exact hcaps (m, n) hm (upperU8 c) hmem
  have hl : text.length = m.toUTF8.toList.length := by rw [← hu]; simp
  refine ⟨⟨fun c hc => (letter_of_upper c (hall c hc)).1, by omega, ?_⟩, ?_⟩
  · intro h; subst h; exact hne (by rw [← hu]; rfl)
  · intro max
    cases ht : text with
    | nil => rfl
    | cons c rest =>
      have := letter_of_upper c (hall c (by rw [ht]; simp))
      exact parseUInt_letter max c rest this.2.1 this.2.2

/-- names of a table are pairwise different unless their values agree -/
def functionalTbl (tbl : List (String × Nat)) : Bool :=
  tbl.all fun r => tbl.all fun r' => !(r.1.toUTF8.toList == r'.1.toUTF8.toList) || r.2 == r'.2

/-- a mnemonic in any case is found in the table -/
theorem lookupCaseless_mnemonic {tbl : List (String × Nat)} (hf : functionalTbl tbl = true) {text : List UInt8}
    {m : String} {n : Nat} (hm : (m, n) ∈ tbl) (hu : text.map upperU8 = m.toUTF8.toList) :
    lookupCaseless tbl text = some n := by
  unfold lookupCaseless
  cases hfind : tbl.find? (fun row => row.1.toUTF8.toList == text.map upperU8) with
  | none =>
    rw [List.find?_eq_none] at hfind
    have := hfind (m, n) hm
    simp [hu] at this
  | some r =>
    have hr := List.mem_of_find?_eq_some hfind
    have hb := List.find?_some hfind
    simp only [beq_iff_eq] at hb
    simp only [functionalTbl, List.all_eq_true, Bool.or_eq_true, Bool.not_eq_true', beq_eq_false_iff_ne, ne_eq,
      beq_iff_eq] at hf
    rcases hf r hr (m, n) hm with h | h
    · exact absurd (by rw [hb, hu]) h
    · simp only at h; simp [h]

/-- no row of `tbl` is the (upper-cased) text, and the text does not start with the prefix -/
theorem parseCode_none {tbl : List (String × Nat)} {pfx : String} {text : List UInt8}
    (hrows : ∀ r ∈ tbl, r.1.toUTF8.toList ≠ text.map upperU8)
    (hpfx : (text.map upperU8).take pfx.toUTF8.toList.length ≠ pfx.toUTF8.toList.map upperU8) :
    parseCode tbl pfx text = none := by
  unfold parseCode lookupCaseless
  have : tbl.find? (fun row => row.1.toUTF8.toList == text.map upperU8) = none := by
    rw [List.find?_eq_none]; intro r hr; simpa using hrows r hr
  rw [this]
  simp only
  split
  · next h =>
    exfalso
    simp only [Bool.and_eq_true] at h
    have := map_upper_of_eqIgnoreCase h.2
    apply hpfx
    rw [← this]; simp [List.map_take]
  · rfl

/-! ### TYPE and CLASS fields -/

/-- what the record parser needs of a type field -/
structure TypeTextOK (T : List UInt8) (ty : Nat) : Prop where
  field : FieldText T
  notU32 : parseU32 T = none
  notClass : parseClass T = none
  parse : parseType T = some ty

/-- what the record parser needs of a class field -/
structure ClassTextOK (T : List UInt8) (k : Nat) : Prop where
  field : FieldText T
  notU32 : parseU32 T = none
  parse : parseClass T = some k

/-- well-formed TYPE field: `TYPEnnn` with a 16-bit value, or a mnemonic of the table in any case -/
def WFType : PCode → Prop
  | .generic n => n ≤ 65535
  | .mnemonic t n => mnemonicFor typeMnemonics t n

def WFClass : PCode → Prop
  | .generic n => n ≤ 65535
  | .mnemonic t n => mnemonicFor classMnemonics t n

theorem typeMnemonics_sub : ∀ r ∈ typeMnemonics, r ∈ Gen.typeParse := by decide
theorem classMnemonics_sub : ∀ r ∈ classMnemonics, r ∈ Gen.classParse := by decide

theorem type_tables_ok :
    allCaps typeMnemonics = true ∧ functionalTbl Gen.typeParse = true ∧
    (typeMnemonics.all fun r => r.1.toUTF8.toList.length ≤ 16 && !r.1.toUTF8.toList.isEmpty &&
      (Gen.classParse.all fun c => !(c.1.toUTF8.toList == r.1.toUTF8.toList)) &&
      !(r.1.toUTF8.toList.take Gen.classDisplayPrefix.toUTF8.toList.length ==
          Gen.classDisplayPrefix.toUTF8.toList.map upperU8)) = true := by
  decide +kernel

theorem class_tables_ok :
    allCaps classMnemonics = true ∧ functionalTbl Gen.classParse = true ∧
    (classMnemonics.all fun r => r.1.toUTF8.toList.length ≤ 16 && !r.1.toUTF8.toList.isEmpty) = true := by
  decide +kernel

theorem typeText_ok (c : PCode) (h : WFType c) : TypeTextOK (typeText c) c.value := by
  cases c with
  | generic n =>
    exact ⟨⟨renderType_plain n, renderType_length n h, by simp [typeText, renderType]⟩, renderType_not_u32 n,
      parseClass_type n, parseType_render n h⟩
  | mnemonic t n =>
    obtain ⟨m, hm, hu⟩ := h
    rw [upperOctet_eq] at hu
    obtain ⟨hcaps, hfun, hrows⟩ := type_tables_ok
    have hrow := (List.all_eq_true.mp hrows) (m, n) hm
    simp only [Bool.and_eq_true, decide_eq_true_eq, Bool.not_eq_true',
      List.all_eq_true, beq_eq_false_iff_ne, ne_eq] at hrow
    obtain ⟨⟨⟨hlen, hne⟩, hcls⟩, hpfx⟩ := hrow
    have hne' : m.toUTF8.toList ≠ [] := by intro h0; rw [h0] at hne; simp at hne
    obtain ⟨hfield, hnum⟩ := mnemonic_word hcaps hm hne' hlen hu
    refine ⟨hfield, hnum _, ?_, ?_⟩
    · show parseCode Gen.classParse Gen.classDisplayPrefix t = none
      exact parseCode_none (fun r hr => by rw [hu]; exact hcls r hr) (by rw [hu]; exact hpfx)
    · show parseCode Gen.typeParse Gen.typeDisplayPrefix t = some n
      unfold parseCode
      rw [lookupCaseless_mnemonic hfun (typeMnemonics_sub _ hm) hu]

theorem classText_ok (c : PCode) (h : WFClass c) : ClassTextOK (classText c) c.value := by
  cases c with
  | generic n =>
    exact ⟨⟨renderClass_plain n, renderClass_length n h, by simp [classText, renderClass]⟩, renderClass_not_u32 n,
      parseClass_render n h⟩
  | mnemonic t n =>
    obtain ⟨m, hm, hu⟩ := h
    rw [upperOctet_eq] at hu
    obtain ⟨hcaps, hfun, hrows⟩ := class_tables_ok
    have hrow := (List.all_eq_true.mp hrows) (m, n) hm
    simp only [Bool.and_eq_true, decide_eq_true_eq, Bool.not_eq_true'] at hrow
    have hne' : m.toUTF8.toList ≠ [] := by intro h0; rw [h0] at hrow; simp at hrow
    obtain ⟨hfield, hnum⟩ := mnemonic_word hcaps hm hne' hrow.1 hu
    refine ⟨hfield, hnum _, ?_⟩
    show parseCode Gen.classParse Gen.classDisplayPrefix t = some n
    unfold parseCode
    rw [lookupCaseless_mnemonic hfun (classMnemonics_sub _ hm) hu]

end QV.ZF
