/-
  QV.Proofs.ZoneFile.Assemble — from fields to records to files (C23): the lexical layer on the
  separators of the presentation grammar, and the record parser on rendered records.
-/
import QV.Proofs.ZoneFile.RoundTrip

namespace QV.ZF
open QV QV.Spec.ZF

/-! ### separators -/

/-- an octet that can start a field: a backslash or any non-special octet -/
def fieldStart (c : UInt8) : Prop := c = 92 ∨ special c = false

theorem fieldStart_not_ws {c : UInt8} (h : fieldStart c) : isWs c = false := by
  rcases h with rfl | h
  · decide
  · simp only [special, Bool.or_eq_false_iff] at h
    simp [isWs, h.1.1.1.1.1.1.1, h.1.1.1.1.1.1.2]

/-- at the start of a field nothing is skipped -/
theorem fieldOrEol_at_field (thr : Bool) (c : UInt8) (r : List UInt8) (hc : fieldStart c) (line : Nat)
    (paren : Bool) : fieldOrEol thr (c :: r) line paren = .ok (.Field, ⟨c :: r, line, paren⟩) := by
  rw [fieldOrEol.eq_def]
  have hws := fieldStart_not_ws hc
  have hfacts : eolLen (c :: r) = none ∧ (c == 59) = false ∧ (c == 40) = false ∧ (c == 41) = false := by
    rcases hc with rfl | hc
    · simp [eolLen]
    · simp only [special, Bool.or_eq_false_iff] at hc
      obtain ⟨⟨⟨⟨⟨⟨⟨h32, h9⟩, h40⟩, h41⟩, h59⟩, h10⟩, h13⟩, h92⟩ := hc
      simp [eolLen, h10, h13, h59, h40, h41]
  obtain ⟨he, h59, h40, h41⟩ := hfacts
  simp only [hws, Bool.false_eq_true, ↓reduceIte]
  split
  · next n hn => rw [he] at hn; cases hn
  · simp [h59, h40, h41]

/-- blanks before a field are skipped -/
theorem fieldOrEol_gap (thr : Bool) (sep : List UInt8) (hsep : ∀ x ∈ sep, isWs x = true) (c : UInt8)
    (r : List UInt8) (hc : fieldStart c) (line : Nat) (paren : Bool) :
    fieldOrEol thr (sep ++ c :: r) line paren = .ok (.Field, ⟨c :: r, line, paren⟩) := by
  induction sep with
  | nil => exact fieldOrEol_at_field thr c r hc line paren
  | cons x sep ih =>
    rw [List.cons_append, fieldOrEol.eq_def]
    simp only [hsep x (by simp), ↓reduceIte]
    exact ih (fun y hy => hsep y (by simp [hy]))

/-- a comment: `;` and anything up to the end of the line -/
def commentOK (cmt : List UInt8) : Prop :=
  cmt = [] ∨ ∃ body, cmt = 59 :: body ∧ ∀ x ∈ body, x ≠ 10 ∧ x ≠ 13

theorem skipToEol_body (body r : List UInt8) (h : ∀ x ∈ body, x ≠ 10 ∧ x ≠ 13) :
    skipToEol (body ++ 10 :: r) = 10 :: r := by
  induction body with
  | nil => simp [skipToEol, eolLen]
  | cons x body ih =>
    have hx := h x (by simp)
    rw [List.cons_append, skipToEol]
    have : eolLen (x :: (body ++ 10 :: r)) = none := by
      simp [eolLen, hx.1, hx.2]
    simp only [this, Option.isSome_none, Bool.false_eq_true, ↓reduceIte]
    exact ih (fun y hy => h y (by simp [hy]))

/-- the end of a line outside parentheses: blanks, an optional comment, a newline -/
theorem fieldOrEol_eol (ws cmt r : List UInt8) (hws : ∀ x ∈ ws, isWs x = true) (hc : commentOK cmt)
    (line : Nat) :
    fieldOrEol true (ws ++ (cmt ++ 10 :: r)) line false = .ok (.Eol, ⟨r, line + 1, false⟩) := by
  induction ws with
  | nil =>
    rcases hc with rfl | ⟨body, rfl, hb⟩
    · rw [List.nil_append, List.nil_append, fieldOrEol.eq_def]
      simp [isWs, eolLen]
    · rw [List.nil_append, List.cons_append, fieldOrEol.eq_def]
      simp [isWs, eolLen, skipToEol_body body r hb, takeEol]
  | cons x ws ih =>
    rw [List.cons_append, fieldOrEol.eq_def]
    simp only [hws x (by simp), ↓reduceIte]
    exact ih (fun y hy => hws y (by simp [hy]))

/-- the text that ends a line is a field end -/
theorem atFieldEnd_eol (ws cmt r : List UInt8) (hws : ∀ x ∈ ws, isWs x = true) (hc : commentOK cmt) :
    atFieldEnd (ws ++ (cmt ++ 10 :: r)) = true := by
  cases ws with
  | nil =>
    rcases hc with rfl | ⟨body, rfl, _⟩
    · simp [atFieldEnd, eolLen]
    · simp [atFieldEnd, eolLen, endsField]
  | cons x ws => simp [atFieldEnd, endsField, hws x (by simp)]

theorem atFieldEnd_sep (sep r : List UInt8) (hne : sep ≠ []) (hsep : ∀ x ∈ sep, isWs x = true) :
    atFieldEnd (sep ++ r) = true := by
  cases sep with
  | nil => exact absurd rfl hne
  | cons x sep => simp [atFieldEnd, endsField, hsep x (by simp)]

/-! ### navigation wrappers, evaluated -/

theorem skipToNextField_gap (k : Kind) (sep : List UInt8) (hsep : ∀ x ∈ sep, isWs x = true) (c : UInt8)
    (r : List UInt8) (hc : fieldStart c) (line : Nat) (paren : Bool) :
    skipToNextField k ⟨sep ++ c :: r, line, paren⟩ = .ok ((), ⟨c :: r, line, paren⟩) := by
  unfold skipToNextField skipToNextFieldOrToEol
  simp only [bind, P.bind]
  rw [fieldOrEol_gap false sep hsep c r hc line paren]
  rfl

theorem expectEol_eol (ws cmt r : List UInt8) (hws : ∀ x ∈ ws, isWs x = true) (hc : commentOK cmt)
    (line : Nat) :
    expectEol ⟨ws ++ (cmt ++ 10 :: r), line, false⟩ = .ok ((), ⟨r, line + 1, false⟩) := by
  unfold expectEol skipToNextFieldOrThroughEol
  simp only [bind, P.bind]
  rw [fieldOrEol_eol ws cmt r hws hc line]
  rfl

/-! ### hexadecimal RDATA -/

theorem hexDigitOctet_facts (n : Nat) (hn : n < 16) :
    hexNibble (hexDigitOctet n) = some n ∧ special (hexDigitOctet n) = false := by
  have : n = 0 ∨ n = 1 ∨ n = 2 ∨ n = 3 ∨ n = 4 ∨ n = 5 ∨ n = 6 ∨ n = 7 ∨ n = 8 ∨ n = 9 ∨ n = 10 ∨
      n = 11 ∨ n = 12 ∨ n = 13 ∨ n = 14 ∨ n = 15 := by omega
  rcases this with rfl | rfl | rfl | rfl | rfl | rfl | rfl | rfl | rfl | rfl | rfl | rfl | rfl | rfl | rfl | rfl <;>
    decide

theorem parseHexDigit_hex (n : Nat) (hn : n < 16) (r : List UInt8) (line : Nat) (paren : Bool) :
    parseHexDigit ⟨hexDigitOctet n :: r, line, paren⟩ = .ok (n, ⟨r, line, paren⟩) := by
  have ⟨h1, h2⟩ := hexDigitOctet_facts n hn
  unfold parseHexDigit readFieldOctet
  simp [atFieldEnd_plain r h2, h1]

theorem hexDigits_render (rd : List UInt8) (acc r : List UInt8) (line : Nat) (paren : Bool) :
    hexDigits rd.length acc ⟨renderHex rd ++ r, line, paren⟩ = .ok (acc.reverse ++ rd, ⟨r, line, paren⟩) := by
  induction rd generalizing acc with
  | nil => simp [hexDigits, renderHex, pure, P.pure]
  | cons b rd ih =>
    have hb := b.toNat_lt
    have e : renderHex (b :: rd) ++ r =
        hexDigitOctet (b.toNat / 16) :: hexDigitOctet (b.toNat % 16) :: (renderHex rd ++ r) := by
      simp [renderHex]
    rw [e, List.length_cons, hexDigits]
    simp only [bind, P.bind, parseHexDigit_hex (b.toNat / 16) (by omega), parseHexDigit_hex (b.toNat % 16) (by omega)]
    rw [ih]
    have : UInt8.ofNat (b.toNat / 16 * 16 + b.toNat % 16) = b := by
      have : b.toNat / 16 * 16 + b.toNat % 16 = b.toNat := by omega
      rw [this]; simp
    simp [this]

/-! ### RFC 3597 generic RDATA, evaluated -/

theorem decimal_head (n : Nat) : ∃ d ds, decimal n = d :: ds ∧ fieldStart d := by
  cases h : decimal n with
  | nil => exact absurd h (decimal_ne_nil n)
  | cons d ds =>
    refine ⟨d, ds, rfl, .inr ?_⟩
    have := decimal_plain n d (by rw [h]; simp)
    simp only [plainOctet, Bool.and_eq_true, Bool.not_eq_true'] at this
    exact this.1

theorem checkBackslashHash_true (k : Kind) (sep : List UInt8) (hsep : ∀ x ∈ sep, isWs x = true)
    (r : List UInt8) (hr : atFieldEnd r = true) (line : Nat) (paren : Bool) :
    checkBackslashHash k ⟨sep ++ 92 :: 35 :: r, line, paren⟩ = .ok (true, ⟨r, line, paren⟩) := by
  unfold checkBackslashHash
  simp only [bind, P.bind, skipToNextField_gap k sep hsep 92 (35 :: r) (.inl rfl) line paren]
  simp [liftB, expectField, expectFieldImpl, hr]

theorem renderHex_head (b : UInt8) (rd : List UInt8) :
    ∃ h t, renderHex (b :: rd) = h :: t ∧ fieldStart h := by
  have hb := b.toNat_lt
  refine ⟨hexDigitOctet (b.toNat / 16), _, by simp [renderHex]; rfl, .inr ?_⟩
  exact (hexDigitOctet_facts _ (by omega)).2

theorem parseUnknownRdataImpl_render (sep rd ws cmt r : List UInt8) (hne : sep ≠ [])
    (hsep : ∀ x ∈ sep, isWs x = true) (hlen : rd.length ≤ 65535) (hws : ∀ x ∈ ws, isWs x = true)
    (hc : commentOK cmt) (line : Nat) :
    parseUnknownRdataImpl ⟨genericTail sep rd ++ (ws ++ (cmt ++ 10 :: r)), line, false⟩ =
      .ok ((line, rd), ⟨r, line + 1, false⟩) := by
  have hEnd := atFieldEnd_eol ws cmt r hws hc
  unfold parseUnknownRdataImpl
  cases rd with
  | nil =>
    obtain ⟨d, ds, hd, hdstart⟩ := decimal_head 0
    have e : genericTail sep [] ++ (ws ++ (cmt ++ 10 :: r)) = sep ++ d :: (ds ++ (ws ++ (cmt ++ 10 :: r))) := by
      simp only [genericTail, List.length_nil, List.isEmpty_nil, ↓reduceIte, List.append_nil, hd]
      simp
    rw [e]
    simp only [bind, P.bind, skipToNextField_gap _ sep hsep d _ hdstart line false]
    have e2 : d :: (ds ++ (ws ++ (cmt ++ 10 :: r))) = decimal 0 ++ (ws ++ (cmt ++ 10 :: r)) := by
      rw [hd]; simp
    rw [e2, show parseU16 = parseUInt 65535 from rfl,
      readField_decimal 65535 0 (by omega) (by omega) _ _ hEnd line false]
    simp only [beq_self_eq_true, ↓reduceIte, bind, P.bind, getLine, pure, P.pure,
      expectEol_eol ws cmt r hws hc line]
  | cons b rd' =>
    obtain ⟨d, ds, hd, hdstart⟩ := decimal_head (rd'.length + 1)
    obtain ⟨h, t, hh, hhstart⟩ := renderHex_head b rd'
    have e : genericTail sep (b :: rd') ++ (ws ++ (cmt ++ 10 :: r)) =
        sep ++ d :: (ds ++ (sep ++ h :: (t ++ (ws ++ (cmt ++ 10 :: r))))) := by
      simp only [genericTail, List.length_cons, List.isEmpty_cons, Bool.false_eq_true, ↓reduceIte, hd, hh]
      simp
    rw [e]
    simp only [bind, P.bind, skipToNextField_gap _ sep hsep d _ hdstart line false]
    have e2 : d :: (ds ++ (sep ++ h :: (t ++ (ws ++ (cmt ++ 10 :: r))))) =
        decimal (rd'.length + 1) ++ (sep ++ h :: (t ++ (ws ++ (cmt ++ 10 :: r)))) := by
      rw [hd]; simp
    have hlen' : rd'.length + 1 ≤ 65535 := by simpa using hlen
    rw [e2, show parseU16 = parseUInt 65535 from rfl,
      readField_decimal 65535 _ hlen' (by omega) _ _ (atFieldEnd_sep sep _ hne hsep) line false]
    have hne0 : ((rd'.length + 1) == 0) = false := by simp
    simp only [hne0, Bool.false_eq_true, ↓reduceIte, bind, P.bind,
      skipToNextField_gap _ sep hsep h _ hhstart line false, getLine]
    have e3 : h :: (t ++ (ws ++ (cmt ++ 10 :: r))) = renderHex (b :: rd') ++ (ws ++ (cmt ++ 10 :: r)) := by
      rw [hh]; simp
    have hd3 := hexDigits_render (b :: rd') [] (ws ++ (cmt ++ 10 :: r)) line false
    simp only [List.length_cons] at hd3
    rw [e3, hd3]
    have hmk : mkRdata ([].reverse ++ b :: rd') ⟨ws ++ (cmt ++ 10 :: r), line, false⟩ =
        .ok (b :: rd', ⟨ws ++ (cmt ++ 10 :: r), line, false⟩) := by
      unfold mkRdata
      have : ¬ (([].reverse ++ b :: rd').length > 65535) := by simp; omega
      rw [if_neg this]; simp
    simp only [hmk, pure, P.pure, expectEol_eol ws cmt r hws hc line]

theorem handler_lookup {h : String} (hh : h ∈ handlerNames) :
    ∃ e, Gen.rdataHandlers.find? (fun x => x.1 == h) = some (h, e, validatorFor h) ∧
      validatorFor h ∈ knownValidators := by
  rw [handlerNames_eq] at hh
  simp only [List.mem_cons, List.mem_nil_iff, or_false] at hh
  rcases hh with rfl | rfl | rfl | rfl | rfl | rfl | rfl | rfl | rfl | rfl | rfl
  · exact ⟨"ExpectedNameOrBh", by decide, by decide⟩
  · exact ⟨"ExpectedIpv4OrBh", by decide, by decide⟩
  · exact ⟨"ExpectedNameOrBh", by decide, by decide⟩
  · exact ⟨"ExpectedNameOrBh", by decide, by decide⟩
  · exact ⟨"ExpectedIpv4OrBh", by decide, by decide⟩
  · exact ⟨"ExpectedCharacterStringOrBh", by decide, by decide⟩
  · exact ⟨"ExpectedNameOrBh", by decide, by decide⟩
  · exact ⟨"ExpectedU16OrBh", by decide, by decide⟩
  · exact ⟨"ExpectedCharacterStringOrBh", by decide, by decide⟩
  · exact ⟨"ExpectedIpv6OrBh", by decide, by decide⟩
  · exact ⟨"ExpectedU16OrBh", by decide, by decide⟩

/-- **RDATA in `\# len hex` form** for any class and type (other than OPT, TSIG): the RDATA is
    read back exactly — provided it is valid for the class and type, which the parser checks for
    the types it knows -/
theorem parseRdata_generic (ctx : Ctx) (cls ty : Nat) (h41 : ty ≠ 41) (h250 : ty ≠ 250)
    (sep rd ws cmt r : List UInt8) (hne : sep ≠ []) (hsep : ∀ x ∈ sep, isWs x = true)
    (hlen : rd.length ≤ 65535) (hvalid : validate cls ty rd = .ok ())
    (hws : ∀ x ∈ ws, isWs x = true) (hc : commentOK cmt) (line : Nat) :
    parseRdata ctx cls ty ⟨sep ++ 92 :: 35 :: (genericTail sep rd ++ (ws ++ (cmt ++ 10 :: r))), line, false⟩ =
      .ok (rd, ⟨r, line + 1, false⟩) := by
  have hfe : atFieldEnd (genericTail sep rd ++ (ws ++ (cmt ++ 10 :: r))) = true := by
    unfold genericTail
    rw [List.append_assoc, List.append_assoc]
    exact atFieldEnd_sep sep _ hne hsep
  have himpl := parseUnknownRdataImpl_render sep rd ws cmt r hne hsep hlen hws hc line
  have himpl' := himpl
  unfold parseRdata
  cases hf : findArm cls ty with
  | none =>
    simp only [bind, P.bind, checkBackslashHash_true _ sep hsep _ hfe line false]
    simp [parseUnknownRdata, bind, P.bind, himpl', pure, P.pure]
  | some h =>
    obtain ⟨e, hfind, hknown⟩ := handler_lookup (findArm_mem hf)
    obtain ⟨f, hfv⟩ := knownValidators_some hknown
    have hok : f rd.toArray = .ok () := by
      unfold validate Rdata.validate at hvalid
      rw [dispatch_agree hf, hfv] at hvalid
      exact hvalid
    simp only [runHandler, hfind, bind, P.bind, checkBackslashHash_true _ sep hsep _ hfe line false]
    simp [parseUnknownRdataWithValidation, bind, P.bind, himpl', hfv, hok, pure, P.pure]

end QV.ZF
