/-
  QV.Proofs.ZoneFile.Frame — the parser is compositional at line boundaries (C25): reading
  `a ++ b`, where `a` ends with a newline that ends a line (it is not escaped; the success of
  the parse of `a` rules out that it lies inside quotes or parentheses), is reading `a` and
  then reading `b` from the state and context in which `a` ended.

  Technique: every function of the model satisfies a *frame property*: on an input that ends
  with an unescaped newline, a successful run is unchanged by appending more input, and its
  remaining input is a suffix of what it was given.
-/
import QV.Model.ZoneFile.Parser

namespace QV.ZF
open QV

/-! ### inputs that end with an unescaped newline -/

/-- the text ends with a newline that is not preceded by a backslash -/
def Term (x : List UInt8) : Prop := ∃ x0, x = x0 ++ [10] ∧ x0.getLast? ≠ some 92

theorem Term.ne_nil {x : List UInt8} (h : Term x) : x ≠ [] := by
  obtain ⟨x0, rfl, _⟩ := h; simp

theorem Term.suffix {x u y : List UInt8} (h : Term x) (e : x = u ++ y) (hy : y ≠ []) : Term y := by
  obtain ⟨x0, hx, h92⟩ := h
  obtain ⟨y0, c, rfl⟩ : ∃ y0 c, y = y0 ++ [c] := ⟨y.dropLast, y.getLast hy, (List.dropLast_concat_getLast hy).symm⟩
  rw [hx, ← List.append_assoc] at e
  obtain ⟨e1, e2⟩ := List.append_inj' e rfl
  simp only [List.cons.injEq, and_true] at e2
  subst e2
  refine ⟨y0, rfl, ?_⟩
  subst e1
  cases y0 with
  | nil => simp
  | cons a t =>
    rw [List.getLast?_append] at h92
    simpa using h92

/-- the first octet of such a text and what follows -/
theorem Term.cons {c : UInt8} {rest : List UInt8} (h : Term (c :: rest)) :
    (rest = [] ∧ c = 10) ∨ (rest ≠ [] ∧ Term rest) := by
  cases rest with
  | nil =>
    obtain ⟨x0, hx, _⟩ := h
    cases x0 with
    | nil => simp at hx; exact .inl ⟨rfl, hx⟩
    | cons a t => simp at hx
  | cons d t => exact .inr ⟨by simp, h.suffix (u := [c]) rfl (by simp)⟩

theorem Term.after_backslash {rest : List UInt8} (h : Term (92 :: rest)) :
    ∃ c r, rest = c :: r ∧ r ≠ [] ∧ Term r := by
  obtain ⟨x0, hx, h92⟩ := h
  cases x0 with
  | nil => simp at hx
  | cons a t =>
    simp only [List.cons_append, List.cons.injEq] at hx
    obtain ⟨rfl, rfl⟩ := hx
    cases t with
    | nil => simp at h92
    | cons c t' =>
      refine ⟨c, t' ++ [10], rfl, by simp, ⟨t', rfl, ?_⟩⟩
      cases t' with
      | nil => simp
      | cons e t'' =>
        simp only [List.getLast?_cons_cons] at h92 ⊢
        exact h92

theorem eolLen_append {y : List UInt8} (h : Term y) (b : List UInt8) : eolLen (y ++ b) = eolLen y := by
  cases y with
  | nil => exact absurd rfl h.ne_nil
  | cons c rest =>
    rcases h.cons with ⟨rfl, rfl⟩ | ⟨hne, _⟩
    · simp [eolLen]
    · cases rest with
      | nil => exact absurd rfl hne
      | cons d t => simp [eolLen]

theorem atFieldEnd_append {y : List UInt8} (h : Term y) (b : List UInt8) : atFieldEnd (y ++ b) = atFieldEnd y := by
  cases y with
  | nil => exact absurd rfl h.ne_nil
  | cons c rest =>
    have := eolLen_append h b
    simp only [List.cons_append] at this
    simp [atFieldEnd, this]

/-! ### the frame property -/

/-- On an input ending with an unescaped newline, a successful run of `f` is unchanged by
    appending `b`; what remains is a suffix of the input, and non-empty when `ne` holds of the
    result (everything except the functions that consume the end of the line). -/
def Frame {α} (f : P α) (ne : α → Prop) : Prop :=
  ∀ (x b : List UInt8) (line : Nat) (p : Bool) (v : α) (y : List UInt8) (line' : Nat) (p' : Bool),
    Term x → f ⟨x, line, p⟩ = .ok (v, ⟨y, line', p'⟩) →
    f ⟨x ++ b, line, p⟩ = .ok (v, ⟨y ++ b, line', p'⟩) ∧ (∃ u, x = u ++ y) ∧ (ne v → y ≠ [])

/-- a successful run does not depend on the state and leaves it alone -/
def Indep {α} (g : P α) : Prop :=
  ∀ st v st1, g st = .ok (v, st1) → st1 = st ∧ ∀ st', g st' = .ok (v, st')

theorem Frame.weaken {α} {f : P α} {n n' : α → Prop} (h : Frame f n) (hn : ∀ v, n' v → n v) : Frame f n' :=
  fun x b line p v y line' p' hx hf =>
    let ⟨h1, h2, h3⟩ := h x b line p v y line' p' hx hf
    ⟨h1, h2, fun hv => h3 (hn v hv)⟩

theorem Frame_bind {α β} {f : P α} {g : α → P β} {nf : α → Prop} {n : β → Prop}
    (hf : Frame f nf) (hg : ∀ a, nf a → Frame (g a) n)
    (hi : ∀ a, ¬ nf a → Indep (g a) ∧ ∀ st w st1, g a st = .ok (w, st1) → ¬ n w) :
    Frame (P.bind f g) n := by
  intro x b line p w y2 line2 p2 hx hrun
  simp only [P.bind] at hrun ⊢
  cases hfx : f ⟨x, line, p⟩ with
  | err e => simp [hfx] at hrun
  | panic => simp [hfx] at hrun
  | ok r =>
    obtain ⟨a, ⟨y1, l1, p1⟩⟩ := r
    simp only [hfx] at hrun
    obtain ⟨h1, ⟨u, hu⟩, h3⟩ := hf x b line p a y1 l1 p1 hx hfx
    simp only [h1]
    by_cases ha : nf a
    · have hy1 := h3 ha
      obtain ⟨g1, ⟨u', hu'⟩, g3⟩ := hg a ha y1 b l1 p1 w y2 line2 p2 (hx.suffix hu hy1) hrun
      exact ⟨g1, ⟨u ++ u', by rw [hu, hu', List.append_assoc]⟩, g3⟩
    · obtain ⟨hind, hn⟩ := hi a ha
      obtain ⟨e, hall⟩ := hind _ _ _ hrun
      cases e
      exact ⟨hall _, ⟨u, hu⟩, fun hw => absurd hw (hn _ w _ hrun)⟩

/-- sequencing after a function that never consumes the end of the line -/
theorem Frame_bindT {α β} {f : P α} {g : α → P β} {n : β → Prop}
    (hf : Frame f fun _ => True) (hg : ∀ a, Frame (g a) n) : Frame (P.bind f g) n :=
  Frame_bind hf (fun a _ => hg a) (fun a h => absurd trivial h)

theorem Frame_pure {α} (a : α) (n : α → Prop) (h : ∀ v, n v) : Frame (P.pure a) n := by
  intro x b line p v y line' p' hx hrun
  simp only [P.pure, Out.ok.injEq, Prod.mk.injEq, St.mk.injEq] at hrun ⊢
  obtain ⟨rfl, rfl, rfl, rfl⟩ := hrun
  exact ⟨⟨rfl, rfl, rfl, rfl⟩, ⟨[], rfl⟩, fun _ => hx.ne_nil⟩

theorem Frame_of_not_ok {α} {f : P α} (n : α → Prop) (h : ∀ st r, f st ≠ .ok r) : Frame f n :=
  fun x b line p v y line' p' _ hrun => absurd hrun (h _ _)

theorem Frame_fail {α} (k : Kind) (n : α → Prop) : Frame (P.fail k : P α) n :=
  Frame_of_not_ok n (by intro st r; simp [P.fail, fail])

theorem Frame_failAt {α} (k : Kind) (l : Nat) (n : α → Prop) : Frame (P.failAt k l : P α) n :=
  Frame_of_not_ok n (by intro st r; simp [P.failAt, fail])

theorem Frame_panic {α} (n : α → Prop) : Frame (P.panic : P α) n :=
  Frame_of_not_ok n (by intro st r; simp [P.panic])

theorem Frame_getLine : Frame getLine fun _ => True := by
  intro x b line p v y line' p' hx hrun
  simp only [getLine, Out.ok.injEq, Prod.mk.injEq, St.mk.injEq] at hrun ⊢
  obtain ⟨rfl, rfl, rfl, rfl⟩ := hrun
  exact ⟨⟨rfl, rfl, rfl, rfl⟩, ⟨[], rfl⟩, fun _ => hx.ne_nil⟩

theorem Indep_pure {α} (a : α) : Indep (P.pure a) := by
  intro st v st1 h
  simp only [P.pure, Out.ok.injEq, Prod.mk.injEq] at h
  obtain ⟨rfl, rfl⟩ := h
  exact ⟨rfl, fun _ => rfl⟩

theorem Indep_of_not_ok {α} {g : P α} (h : ∀ st r, g st ≠ .ok r) : Indep g :=
  fun st v st1 hrun => absurd hrun (h _ _)

theorem Indep_mkRdata (l : List UInt8) : Indep (mkRdata l) := by
  intro st v st1 h
  unfold mkRdata at h ⊢
  split at h
  · cases h
  · simp only [Out.ok.injEq, Prod.mk.injEq] at h
    obtain ⟨rfl, rfl⟩ := h
    exact ⟨rfl, fun st' => by simp [*]⟩

theorem Indep_bind {α β} {f : P α} {g : α → P β} (hf : Indep f) (hg : ∀ a, Indep (g a)) : Indep (P.bind f g) := by
  intro st w st2 hrun
  simp only [P.bind] at hrun
  cases hfx : f st with
  | err e => simp [hfx] at hrun
  | panic => simp [hfx] at hrun
  | ok r =>
    obtain ⟨a, st1⟩ := r
    simp only [hfx] at hrun
    obtain ⟨e1, h1⟩ := hf _ _ _ hfx
    subst e1
    obtain ⟨e2, h2⟩ := hg a _ _ _ hrun
    subst e2
    exact ⟨rfl, fun st' => by simp [P.bind, h1 st', h2 st']⟩

/-- a frame for a function given by cases on a Boolean -/
theorem Frame_ite {α} {c : Prop} [Decidable c] {f g : P α} {n : α → Prop} (hf : c → Frame f n)
    (hg : ¬ c → Frame g n) : Frame (if c then f else g) n := by
  split
  · exact hf ‹_›
  · exact hg ‹_›

theorem Indep_ite {α} {c : Prop} [Decidable c] {f g : P α} (hf : Indep f) (hg : Indep g) :
    Indep (if c then f else g) := by
  split <;> assumption

/-! ### the lexical layer -/

theorem Term.drop_pos {x : List UInt8} (h : Term x) {n : Nat} (hn : n < x.length) : Term (x.drop n) :=
  h.suffix (u := x.take n) (List.take_append_drop n x).symm (by
    intro e
    have := congrArg List.length e
    simp at this; omega)

theorem fieldLen_append {x : List UInt8} (h : Term x) (b : List UInt8) :
    fieldLen (x ++ b) = fieldLen x ∧ fieldLen x < x.length := by
  induction x with
  | nil => exact absurd rfl h.ne_nil
  | cons c rest ih =>
    have ha := atFieldEnd_append h b
    simp only [List.cons_append] at ha
    simp only [List.cons_append, fieldLen, ha]
    by_cases hfe : atFieldEnd (c :: rest) = true
    · simp [hfe]
    · simp only [hfe, Bool.false_eq_true, ↓reduceIte, List.length_cons, Nat.add_lt_add_iff_right,
        Nat.add_right_cancel_iff]
      rcases h.cons with ⟨rfl, rfl⟩ | ⟨_, hr⟩
      · simp [atFieldEnd, eolLen] at hfe
      · exact ih hr

theorem Frame_readField {α} (parse : List UInt8 → Option α) (k : Kind) :
    Frame (readField parse k) fun _ => True := by
  intro x b line p v y line' p' hx hrun
  obtain ⟨hfl, hlt⟩ := fieldLen_append hx b
  unfold readField at hrun ⊢
  simp only [hfl] at hrun ⊢
  have htake : (x ++ b).take (fieldLen x) = x.take (fieldLen x) := by
    rw [List.take_append_of_le_length (by omega)]
  have hdrop : (x ++ b).drop (fieldLen x) = x.drop (fieldLen x) ++ b := by
    rw [List.drop_append_of_le_length (by omega)]
  simp only [htake, hdrop]
  split at hrun
  · simp [fail] at hrun
  · split at hrun
    · simp [fail] at hrun
    · split at hrun
      · next v' hv' =>
        simp only [Out.ok.injEq, Prod.mk.injEq, St.mk.injEq] at hrun
        obtain ⟨rfl, rfl, rfl, rfl⟩ := hrun
        simp only [*, ↓reduceIte, Bool.false_eq_true, not_false_eq_true]
        refine ⟨by simp_all, ⟨x.take (fieldLen x), (List.take_append_drop _ _).symm⟩, fun _ => ?_⟩
        exact (hx.drop_pos hlt).ne_nil
      · simp [fail] at hrun

/-- comparisons used by `expect_field`: equality after mapping each octet -/
def cmpg (g : UInt8 → UInt8) (a b : List UInt8) : Bool := a.map g == b.map g

theorem cmpg_newline {g : UInt8 → UInt8} {field x0 t : List UInt8} (hf : ∀ c ∈ field, g c ≠ g 10)
    (hlen : x0.length < field.length) : cmpg g ((x0 ++ 10 :: t).take field.length) field = false := by
  cases h : cmpg g ((x0 ++ 10 :: t).take field.length) field with
  | false => rfl
  | true =>
    exfalso
    simp only [cmpg, beq_iff_eq] at h
    have h1 : (((x0 ++ 10 :: t).take field.length).map g)[x0.length]? = some (g 10) := by
      simp [List.getElem?_take, hlen]
    rw [h] at h1
    simp only [List.getElem?_map, Option.map_eq_some_iff] at h1
    obtain ⟨c, hc, hgc⟩ := h1
    exact hf c (List.mem_of_getElem? hc) hgc

theorem expectFieldImpl_frame (g : UInt8 → UInt8) (field : List UInt8) (hf : ∀ c ∈ field, g c ≠ g 10)
    (x b : List UInt8) (hx : Term x) (line : Nat) (p : Bool) :
    ∃ y, (expectFieldImpl (cmpg g) field ⟨x, line, p⟩).2 = ⟨y, line, p⟩ ∧
      expectFieldImpl (cmpg g) field ⟨x ++ b, line, p⟩ =
        ((expectFieldImpl (cmpg g) field ⟨x, line, p⟩).1, ⟨y ++ b, line, p⟩) ∧
      (∃ u, x = u ++ y) ∧ y ≠ [] := by
  obtain ⟨x0, rfl, h92⟩ := id hx
  unfold expectFieldImpl
  simp only
  by_cases hshort : (x0 ++ [10]).length < field.length
  · -- the field is longer than what is left of the line
    simp only [hshort, ↓reduceIte]
    refine ⟨x0 ++ [10], rfl, ?_, ⟨[], rfl⟩, by simp⟩
    split
    · rfl
    · have : cmpg g ((x0 ++ [10] ++ b).take field.length) field = false := by
        have := cmpg_newline (g := g) (field := field) (x0 := x0) (t := b) hf (by simp at hshort; omega)
        simpa using this
      simp only [this, Bool.false_and, Bool.false_eq_true, ↓reduceIte]
  · have hge : field.length ≤ (x0 ++ [10]).length := by omega
    have h1 : ¬ (x0 ++ [10] ++ b).length < field.length := by simp at hge ⊢; omega
    simp only [hshort, h1, ↓reduceIte, List.take_append_of_le_length hge, List.drop_append_of_le_length hge]
    by_cases hcmp : cmpg g ((x0 ++ [10]).take field.length) field = true
    · -- the match does not reach the newline
      have hlt : field.length < (x0 ++ [10]).length := by
        rcases Nat.lt_or_ge field.length (x0 ++ [10]).length with h | h
        · exact h
        · exfalso
          have heq : field.length = (x0 ++ [10]).length := by omega
          have hx0 : x0.length < field.length := by simp at heq; omega
          have := cmpg_newline (g := g) (field := field) (x0 := x0) (t := []) hf hx0
          rw [hcmp] at this; cases this
      have hT := hx.drop_pos hlt
      simp only [hcmp, Bool.true_and, atFieldEnd_append hT b]
      split
      · exact ⟨_, rfl, rfl, ⟨_, (List.take_append_drop _ _).symm⟩, hT.ne_nil⟩
      · exact ⟨_, rfl, rfl, ⟨[], rfl⟩, by simp⟩
    · simp only [hcmp, Bool.false_and, Bool.false_eq_true, ↓reduceIte]
      exact ⟨_, rfl, rfl, ⟨[], rfl⟩, by simp⟩

theorem expectField_eq (field : List UInt8) : expectField field = expectFieldImpl (cmpg id) field := by
  funext st
  simp [expectField, expectFieldImpl, cmpg]

theorem expectFieldCI_eq (field : List UInt8) : expectFieldCI field = expectFieldImpl (cmpg lowerU8) field := by
  funext st
  simp [expectFieldCI, expectFieldImpl, cmpg, eqIgnoreCase]

theorem Frame_liftB_expect (g : UInt8 → UInt8) (field : List UInt8) (hf : ∀ c ∈ field, g c ≠ g 10) :
    Frame (liftB (expectFieldImpl (cmpg g) field)) fun _ => True := by
  intro x b line p v y line' p' hx hrun
  obtain ⟨y0, h2, hb, hu, hne⟩ := expectFieldImpl_frame g field hf x b hx line p
  simp only [liftB, Out.ok.injEq] at hrun ⊢
  rw [hb]
  have : (expectFieldImpl (cmpg g) field ⟨x, line, p⟩) = (v, ⟨y, line', p'⟩) := hrun
  rw [this] at h2 ⊢
  simp only [St.mk.injEq] at h2
  obtain ⟨rfl, rfl, rfl⟩ := h2
  exact ⟨rfl, hu, fun _ => hne⟩

theorem Frame_expectField (field : List UInt8) (hf : ∀ c ∈ field, c ≠ 10) :
    Frame (liftB (expectField field)) fun _ => True := by
  rw [expectField_eq]; exact Frame_liftB_expect id field hf

theorem Frame_expectFieldCI (field : List UInt8) (hf : ∀ c ∈ field, lowerU8 c ≠ lowerU8 10) :
    Frame (liftB (expectFieldCI field)) fun _ => True := by
  rw [expectFieldCI_eq]; exact Frame_liftB_expect lowerU8 field hf

theorem dropWhile_ws_append {x : List UInt8} (h : Term x) (b : List UInt8) :
    (x ++ b).dropWhile isWs = x.dropWhile isWs ++ b ∧ x.dropWhile isWs ≠ [] ∧ ∃ u, x = u ++ x.dropWhile isWs := by
  induction x with
  | nil => exact absurd rfl h.ne_nil
  | cons c rest ih =>
    by_cases hc : isWs c = true
    · rcases h.cons with ⟨_, rfl⟩ | ⟨_, hr⟩
      · simp [isWs] at hc
      · obtain ⟨i1, i2, u, i3⟩ := ih hr
        simp only [List.cons_append, List.dropWhile_cons, hc, ↓reduceIte]
        exact ⟨i1, i2, c :: u, by rw [List.cons_append, ← i3]⟩
    · simp only [List.cons_append, List.dropWhile_cons, hc, Bool.false_eq_true, ↓reduceIte]
      exact ⟨trivial, by simp, [], rfl⟩

theorem Frame_skipWhitespace : Frame (liftB skipWhitespace) fun _ => True := by
  intro x b line p v y line' p' hx hrun
  obtain ⟨h1, h2, u, h3⟩ := dropWhile_ws_append hx b
  obtain ⟨c, rest, rfl⟩ : ∃ c rest, x = c :: rest := by
    cases x with
    | nil => exact absurd rfl hx.ne_nil
    | cons c rest => exact ⟨c, rest, rfl⟩
  simp only [liftB, skipWhitespace, Out.ok.injEq, Prod.mk.injEq, St.mk.injEq, List.cons_append] at hrun ⊢
  obtain ⟨rfl, rfl, rfl, rfl⟩ := hrun
  simp only [List.cons_append] at h1
  exact ⟨⟨rfl, h1, rfl, rfl⟩, ⟨u, h3⟩, fun _ => h2⟩

theorem skipToEol_append {x : List UInt8} (h : Term x) (b : List UInt8) :
    skipToEol (x ++ b) = skipToEol x ++ b ∧ Term (skipToEol x) ∧ (∃ u, x = u ++ skipToEol x) ∧
      (eolLen (skipToEol x)).isSome = true := by
  induction x with
  | nil => exact absurd rfl h.ne_nil
  | cons c rest ih =>
    have he := eolLen_append h b
    simp only [List.cons_append] at he
    simp only [List.cons_append, skipToEol, he]
    by_cases hs : (eolLen (c :: rest)).isSome = true
    · simp only [hs, ↓reduceIte]
      exact ⟨rfl, h, ⟨[], rfl⟩, trivial⟩
    · simp only [hs, Bool.false_eq_true, ↓reduceIte]
      rcases h.cons with ⟨rfl, rfl⟩ | ⟨_, hr⟩
      · simp [eolLen] at hs
      · obtain ⟨i1, i2, ⟨u, i3⟩, i4⟩ := ih hr
        exact ⟨i1, i2, ⟨c :: u, by rw [List.cons_append, ← i3]⟩, i4⟩

/-- a line ending at the head of an input that ends with a newline lies inside it -/
theorem eolLen_le {y : List UInt8} (h : Term y) {n : Nat} (he : eolLen y = some n) : 1 ≤ n ∧ n ≤ y.length := by
  cases y with
  | nil => exact absurd rfl h.ne_nil
  | cons c rest =>
    simp only [eolLen] at he
    by_cases h10 : (c == 10) = true
    · simp only [h10, ↓reduceIte, Option.some.injEq] at he; subst he; simp
    · simp only [h10, Bool.false_eq_true, ↓reduceIte] at he
      by_cases h13 : (c == 13) = true
      · simp only [h13, ↓reduceIte] at he
        cases rest with
        | nil => simp at he
        | cons d t =>
          simp only at he
          by_cases hd : (d == 10) = true
          · simp only [hd, ↓reduceIte, Option.some.injEq] at he; subst he; simp
          · simp [hd] at he
      · simp [h13] at he

theorem takeEol_append {y : List UInt8} (h : Term y) (b : List UInt8) (line : Nat) :
    takeEol (y ++ b) line = ((takeEol y line).1 ++ b, (takeEol y line).2) ∧ ∃ u, y = u ++ (takeEol y line).1 := by
  unfold takeEol
  rw [eolLen_append h b]
  cases he : eolLen y with
  | none => exact ⟨rfl, [], rfl⟩
  | some n =>
    obtain ⟨h1, h2⟩ := eolLen_le h he
    cases n with
    | zero => omega
    | succ m =>
      simp only [List.drop_append_of_le_length h2]
      exact ⟨trivial, y.take (m + 1), (List.take_append_drop _ _).symm⟩

/-- **`field_or_eol_skipping`** is framed: blanks, parentheses, comments and line ends up to the
    next field or the end of the line are inside the input, whatever follows it -/
theorem fieldOrEol_frame (thr : Bool) (n : Nat) : ∀ (x : List UInt8), x.length ≤ n → Term x →
    ∀ (b : List UInt8) (line : Nat) (p : Bool) (r : FieldOrEol) (y : List UInt8) (line' : Nat) (p' : Bool),
    fieldOrEol thr x line p = .ok (r, ⟨y, line', p'⟩) →
    fieldOrEol thr (x ++ b) line p = .ok (r, ⟨y ++ b, line', p'⟩) ∧ (∃ u, x = u ++ y) ∧ (r = .Field → y ≠ []) := by
  induction n with
  | zero => intro x hlen hx; exact absurd (List.length_eq_zero_iff.mp (by omega)) hx.ne_nil
  | succ n ih =>
    intro x hlen hx b line p r y line' p' hrun
    obtain ⟨c, rest, rfl⟩ : ∃ c rest, x = c :: rest := by
      cases x with
      | nil => exact absurd rfl hx.ne_nil
      | cons c rest => exact ⟨c, rest, rfl⟩
    have hrl : rest.length ≤ n := by simpa using hlen
    have he := eolLen_append hx b
    simp only [List.cons_append] at he
    -- a recursive call on a proper suffix (empty only inside parentheses, where it fails)
    have recur : ∀ (z : List UInt8) (u : List UInt8), c :: rest = u ++ z → z.length ≤ n → ∀ l q,
        (z = [] → q = true) → fieldOrEol thr z l q = .ok (r, ⟨y, line', p'⟩) →
        fieldOrEol thr (z ++ b) l q = .ok (r, ⟨y ++ b, line', p'⟩) ∧ (∃ u, c :: rest = u ++ y) ∧
          (r = .Field → y ≠ []) := by
      intro z u hu hz l q hq hz_run
      by_cases hzn : z = []
      · subst hzn
        rw [hq rfl, fieldOrEol.eq_def] at hz_run
        simp [fail] at hz_run
      · obtain ⟨g1, ⟨u', hu'⟩, g3⟩ := ih z hz (hx.suffix hu hzn) b l q r y line' p' hz_run
        exact ⟨g1, ⟨u ++ u', by rw [hu, hu', List.append_assoc]⟩, g3⟩
    rw [fieldOrEol.eq_def] at hrun
    rw [List.cons_append, fieldOrEol.eq_def]
    simp only at hrun ⊢
    by_cases hws : isWs c = true
    · simp only [hws, ↓reduceIte] at hrun ⊢
      rcases hx.cons with ⟨_, rfl⟩ | ⟨hne, _⟩
      · simp [isWs] at hws
      · exact recur rest [c] rfl hrl line p (fun h => absurd h hne) hrun
    · simp only [hws, Bool.false_eq_true, ↓reduceIte] at hrun ⊢
      cases hel : eolLen (c :: rest) with
      | some m =>
        obtain ⟨hm1, hm2⟩ := eolLen_le hx hel
        have hdrop : (c :: (rest ++ b)).drop m = (c :: rest).drop m ++ b := by
          rw [← List.cons_append, List.drop_append_of_le_length hm2]
        have hdl : ((c :: rest).drop m).length ≤ n := by simp at hm2 ⊢; omega
        split at hrun
        · next m' hm' =>
          rw [hel] at hm'; cases hm'
          split
          · next m'' hm'' =>
            rw [he, hel] at hm''; cases hm''
            cases p with
            | true =>
              simp only [↓reduceIte] at hrun ⊢
              rw [hdrop]
              exact recur _ ((c :: rest).take m) (List.take_append_drop _ _).symm hdl _ _ (fun _ => rfl) hrun
            | false =>
              simp only [Bool.false_eq_true, ↓reduceIte] at hrun ⊢
              cases thr with
              | true =>
                simp only [↓reduceIte, Out.ok.injEq, Prod.mk.injEq, St.mk.injEq] at hrun ⊢
                obtain ⟨rfl, rfl, rfl, rfl⟩ := hrun
                exact ⟨⟨rfl, hdrop, rfl, rfl⟩, ⟨_, (List.take_append_drop m _).symm⟩, by intro h; cases h⟩
              | false =>
                simp only [Bool.false_eq_true, ↓reduceIte, Out.ok.injEq, Prod.mk.injEq, St.mk.injEq] at hrun ⊢
                obtain ⟨rfl, rfl, rfl, rfl⟩ := hrun
                exact ⟨⟨rfl, rfl, rfl, rfl⟩, ⟨[], rfl⟩, by intro h; cases h⟩
          · next hm'' => rw [he, hel] at hm''; cases hm''
        · next hm' => rw [hel] at hm'; cases hm'
      | none =>
        have hrest : rest ≠ [] ∧ Term rest := by
          rcases hx.cons with ⟨_, rfl⟩ | h
          · simp [eolLen] at hel
          · exact h
        split at hrun
        · next m' hm' => rw [hel] at hm'; cases hm'
        · split
          · next m'' hm'' => rw [he, hel] at hm''; cases hm''
          · by_cases h59 : (c == 59) = true
            · simp only [h59, ↓reduceIte] at hrun ⊢
              obtain ⟨s1, s2, ⟨us, s3⟩, s4⟩ := skipToEol_append hrest.2 b
              obtain ⟨t1, ⟨ut, t2⟩⟩ := takeEol_append s2 b line
              rw [s1, t1]
              have hsuf : c :: rest = (c :: (us ++ ut)) ++ (takeEol (skipToEol rest) line).1 := by
                rw [List.cons_append, List.append_assoc, ← t2, ← s3]
              have hlen2 : (takeEol (skipToEol rest) line).1.length ≤ n := by
                have := congrArg List.length hsuf
                simp at this hlen; omega
              cases p with
              | true =>
                simp only [↓reduceIte] at hrun ⊢
                exact recur _ _ hsuf hlen2 _ _ (fun _ => rfl) hrun
              | false =>
                simp only [Bool.false_eq_true, ↓reduceIte] at hrun ⊢
                cases thr with
                | true =>
                  simp only [↓reduceIte, Out.ok.injEq, Prod.mk.injEq, St.mk.injEq] at hrun ⊢
                  obtain ⟨rfl, rfl, rfl, rfl⟩ := hrun
                  exact ⟨⟨rfl, rfl, rfl, rfl⟩, ⟨_, hsuf⟩, by intro h; cases h⟩
                | false =>
                  simp only [Bool.false_eq_true, ↓reduceIte, Out.ok.injEq, Prod.mk.injEq, St.mk.injEq] at hrun ⊢
                  obtain ⟨rfl, rfl, rfl, rfl⟩ := hrun
                  exact ⟨⟨rfl, rfl, rfl, rfl⟩, ⟨c :: us, by rw [List.cons_append, ← s3]⟩, by intro h; cases h⟩
            · simp only [h59, Bool.false_eq_true, ↓reduceIte] at hrun ⊢
              by_cases h40 : (c == 40) = true
              · simp only [h40, ↓reduceIte] at hrun ⊢
                cases p with
                | true => simp [fail] at hrun
                | false =>
                  simp only [Bool.false_eq_true, ↓reduceIte] at hrun ⊢
                  exact recur rest [c] rfl hrl line true (fun h => absurd h hrest.1) hrun
              · simp only [h40, Bool.false_eq_true, ↓reduceIte] at hrun ⊢
                by_cases h41 : (c == 41) = true
                · simp only [h41, ↓reduceIte] at hrun ⊢
                  cases p with
                  | false => simp [fail] at hrun
                  | true =>
                    simp only [Bool.not_true, Bool.false_eq_true, ↓reduceIte] at hrun ⊢
                    exact recur rest [c] rfl hrl line false (fun h => absurd h hrest.1) hrun
                · simp only [h41, Bool.false_eq_true, ↓reduceIte, Out.ok.injEq, Prod.mk.injEq, St.mk.injEq] at hrun ⊢
                  obtain ⟨rfl, rfl, rfl, rfl⟩ := hrun
                  exact ⟨⟨rfl, rfl, rfl, rfl⟩, ⟨[], rfl⟩, fun _ => by simp⟩

/-! ### navigation wrappers -/

theorem Frame_fieldOrEol (thr : Bool) :
    Frame (fun st => fieldOrEol thr st.inp st.line st.paren) fun r => r = .Field :=
  fun x b line p v y line' p' hx hrun => fieldOrEol_frame thr x.length x (Nat.le_refl _) hx b line p v y line' p' hrun

theorem Frame_skipThrough : Frame skipToNextFieldOrThroughEol fun r => r = .Field := Frame_fieldOrEol true
theorem Frame_skipTo : Frame skipToNextFieldOrToEol fun r => r = .Field := Frame_fieldOrEol false

theorem Frame_skipToNextField (k : Kind) : Frame (skipToNextField k) fun _ => True := by
  unfold skipToNextField
  refine Frame_bind Frame_skipTo (fun a ha => ?_) (fun a ha => ?_)
  · subst ha; exact Frame_pure () _ (fun _ => trivial)
  · have : (a != .Field) = true := by cases a <;> simp at ha ⊢
    simp only [this, ↓reduceIte]
    exact ⟨Indep_of_not_ok (by intro st r; simp [P.fail, fail]), by intro st w st1 h; simp [P.fail, fail] at h⟩

theorem Frame_expectEol : Frame expectEol fun _ => False := by
  unfold expectEol
  refine Frame_bind Frame_skipThrough (fun a ha => ?_) (fun a ha => ?_)
  · subst ha; exact Frame_fail _ _
  · have : a = .Eol := by cases a <;> simp at ha ⊢
    subst this
    exact ⟨Indep_pure (), fun _ _ _ _ h => h⟩

/-- `read_field` behaves the same — success or failure — whatever follows the line -/
theorem readField_append {α} (parse : List UInt8 → Option α) (k : Kind) {x : List UInt8} (hx : Term x)
    (b : List UInt8) (line : Nat) (p : Bool) :
    readField parse k ⟨x ++ b, line, p⟩ =
      match readField parse k ⟨x, line, p⟩ with
      | .ok (v, st) => .ok (v, ⟨st.inp ++ b, st.line, st.paren⟩)
      | .err e => .err e
      | .panic => .panic := by
  obtain ⟨hfl, hlt⟩ := fieldLen_append hx b
  unfold readField
  simp only [hfl]
  have htake : (x ++ b).take (fieldLen x) = x.take (fieldLen x) := by
    rw [List.take_append_of_le_length (by omega)]
  have hdrop : (x ++ b).drop (fieldLen x) = x.drop (fieldLen x) ++ b := by
    rw [List.drop_append_of_le_length (by omega)]
  simp only [htake, hdrop]
  split
  · rfl
  · split
    · rfl
    · split <;> rfl

/-- success and failure alike are unchanged by appending input -/
def Stable {α} (f : P α) : Prop :=
  ∀ (x b : List UInt8) (line : Nat) (p : Bool), Term x →
    f ⟨x ++ b, line, p⟩ =
      match f ⟨x, line, p⟩ with
      | .ok (v, st) => .ok (v, ⟨st.inp ++ b, st.line, st.paren⟩)
      | .err e => .err e
      | .panic => .panic

theorem Stable_readField {α} (parse : List UInt8 → Option α) (k : Kind) : Stable (readField parse k) :=
  fun x b line p hx => readField_append parse k hx b line p

theorem Stable_bind_pure {α β} {f : P α} (hf : Stable f) (g : α → β) : Stable (P.bind f fun v => P.pure (g v)) := by
  intro x b line p hx
  simp only [P.bind, P.pure, hf x b line p hx]
  cases f ⟨x, line, p⟩ with
  | ok r => rfl
  | err e => rfl
  | panic => rfl

theorem Frame_bind_pure {α β} {f : P α} {n : α → Prop} (hf : Frame f n) (g : α → β) :
    Frame (P.bind f fun v => P.pure (g v)) fun _ => ∀ v, n v := by
  intro x b line p w y line' p' hx hrun
  simp only [P.bind, P.pure] at hrun ⊢
  cases hfx : f ⟨x, line, p⟩ with
  | err e => simp [hfx] at hrun
  | panic => simp [hfx] at hrun
  | ok r =>
    obtain ⟨a, ⟨y1, l1, p1⟩⟩ := r
    simp only [hfx, Out.ok.injEq, Prod.mk.injEq, St.mk.injEq] at hrun
    obtain ⟨rfl, rfl, rfl, rfl⟩ := hrun
    obtain ⟨h1, h2, h3⟩ := hf x b line p a y1 l1 p1 hx hfx
    simp only [h1]
    exact ⟨trivial, h2, fun hall => h3 (hall a)⟩

/-- `if let Ok(x) = p`: framed when `p` is stable -/
theorem Frame_tryP {α} {f : P α} (hs : Stable f) (hf : Frame f fun _ => True) : Frame (tryP f) fun _ => True := by
  intro x b line p v y line' p' hx hrun
  have ha := hs x b line p hx
  simp only [tryP] at hrun ⊢
  rw [ha]
  cases hr : f ⟨x, line, p⟩ with
  | ok r =>
    obtain ⟨a, st⟩ := r
    have hfr := hf x b line p a st.inp st.line st.paren hx (by rw [hr])
    simp only [hr, Out.ok.injEq, Prod.mk.injEq] at hrun ⊢
    obtain ⟨rfl, hst⟩ := hrun
    cases hst
    exact ⟨⟨rfl, rfl⟩, hfr.2.1, hfr.2.2⟩
  | err e =>
    simp only [hr, Out.ok.injEq, Prod.mk.injEq, St.mk.injEq] at hrun ⊢
    obtain ⟨rfl, rfl, rfl, rfl⟩ := hrun
    exact ⟨⟨rfl, rfl, rfl, rfl⟩, ⟨[], rfl⟩, fun _ => hx.ne_nil⟩
  | panic => simp [hr] at hrun

/-! ### escapes, names, strings -/

/-- an escape whose backslash stood before the last newline is inside the input -/
theorem parseEscapeL_frame {c2 : UInt8} {r : List UInt8} (hr : Term r) (b : List UInt8) (line : Nat)
    {e : UInt8} {y : List UInt8} {l' : Nat} (h : parseEscapeL (c2 :: r) line = .ok (e, y, l')) :
    parseEscapeL (c2 :: r ++ b) line = .ok (e, y ++ b, l') ∧ Term y ∧ ∃ u, c2 :: r = u ++ y := by
  unfold parseEscapeL at h ⊢
  simp only [List.cons_append] at h ⊢
  by_cases hd : isDigit c2 = true
  · simp only [hd, ↓reduceIte] at h ⊢
    match r, hr, h with
    | [], hr, _ => exact absurd rfl hr.ne_nil
    | [d1], _, h => simp [fail] at h
    | d1 :: d2 :: rest2, hr, h =>
      simp only [List.cons_append] at h ⊢
      split at h
      · simp [fail] at h
      · next hdig =>
        simp only [hdig, ↓reduceIte] at ⊢
        split at h
        · simp [fail] at h
        · next hv =>
          simp only [hv, ↓reduceIte, Out.ok.injEq, Prod.mk.injEq] at h ⊢
          obtain ⟨rfl, rfl, rfl⟩ := h
          have hne : rest2 ≠ [] := by
            intro hy
            subst hy
            simp only [Bool.not_eq_true', Bool.and_eq_false_iff, not_or, Bool.not_eq_false] at hdig
            obtain ⟨x0, hx0, _⟩ := hr
            have : d2 = 10 := by
              cases x0 with
              | nil => simp at hx0
              | cons a t =>
                cases t with
                | nil => simp at hx0; exact hx0.2
                | cons a' t' => simp at hx0
            subst this
            simp [isDigit] at hdig
          exact ⟨rfl, hr.suffix (u := [d1, d2]) rfl hne, ⟨[c2, d1, d2], rfl⟩⟩
  · simp only [hd, Bool.false_eq_true, ↓reduceIte, Out.ok.injEq, Prod.mk.injEq] at h ⊢
    obtain ⟨rfl, rfl, rfl⟩ := h
    exact ⟨⟨rfl, rfl, rfl⟩, hr, ⟨[c2], rfl⟩⟩

theorem not_atFieldEnd_cons {c : UInt8} {rest : List UInt8} (hx : Term (c :: rest))
    (h : atFieldEnd (c :: rest) = false) : rest ≠ [] ∧ Term rest := by
  rcases hx.cons with ⟨_, rfl⟩ | h'
  · simp [atFieldEnd, eolLen] at h
  · exact h'

theorem nameLoop_frame (origin : Option (List UInt8)) (nl : Nat) (n : Nat) : ∀ (x : List UInt8), x.length ≤ n → Term x →
    ∀ (b : List UInt8) (line ll : Nat) (p : Bool) (bld : Builder) (w y : List UInt8) (line' : Nat) (p' : Bool),
    nameLoop origin nl x line ll p bld = .ok (w, ⟨y, line', p'⟩) →
    nameLoop origin nl (x ++ b) line ll p bld = .ok (w, ⟨y ++ b, line', p'⟩) ∧ (∃ u, x = u ++ y) ∧ y ≠ [] := by
  induction n with
  | zero => intro x hlen hx; exact absurd (List.length_eq_zero_iff.mp (by omega)) hx.ne_nil
  | succ n ih =>
    intro x hlen hx b line ll p bld w y line' p' hrun
    have hfe := atFieldEnd_append hx b
    rw [nameLoop.eq_def] at hrun
    rw [nameLoop.eq_def, hfe]
    by_cases hend : atFieldEnd x = true
    · simp only [hend, ↓reduceIte] at hrun ⊢
      have fin : ∀ (o : Out NErr (List UInt8)),
          (match o with
            | .ok w' => (Out.ok (w', (⟨x, line, p⟩ : St)) : R (List UInt8))
            | .err _ => fail .InvalidName nl
            | .panic => .panic) = .ok (w, ⟨y, line', p'⟩) →
          (match o with
            | .ok w' => (Out.ok (w', (⟨x ++ b, line, p⟩ : St)) : R (List UInt8))
            | .err _ => fail .InvalidName nl
            | .panic => .panic) = .ok (w, ⟨y ++ b, line', p'⟩) ∧ (∃ u, x = u ++ y) ∧ y ≠ [] := by
        intro o ho
        cases o with
        | ok w' =>
          simp only [Out.ok.injEq, Prod.mk.injEq, St.mk.injEq] at ho ⊢
          obtain ⟨rfl, rfl, rfl, rfl⟩ := ho
          exact ⟨⟨rfl, rfl, rfl, rfl⟩, ⟨[], rfl⟩, hx.ne_nil⟩
        | err e => simp [fail] at ho
        | panic => simp at ho
      split at hrun
      · simp only [*, ↓reduceIte]; exact fin _ hrun
      · simp only [*, ↓reduceIte, Bool.false_eq_true]
        cases origin with
        | some o => exact fin _ hrun
        | none => simp [fail] at hrun
    · have hend' : atFieldEnd x = false := by simpa using hend
      simp only [hend', Bool.false_eq_true, ↓reduceIte] at hrun ⊢
      obtain ⟨c, rest, rfl⟩ : ∃ c rest, x = c :: rest := by
        cases x with
        | nil => exact absurd rfl hx.ne_nil
        | cons c rest => exact ⟨c, rest, rfl⟩
      obtain ⟨hrne, hrT⟩ := not_atFieldEnd_cons hx hend'
      have hrl : rest.length ≤ n := by simpa using hlen
      simp only [List.cons_append] at hrun ⊢
      have step : ∀ (z : List UInt8) (u : List UInt8), c :: rest = u ++ z → z.length ≤ n → Term z → ∀ l l2 bld',
          nameLoop origin nl z l l2 p bld' = .ok (w, ⟨y, line', p'⟩) →
          nameLoop origin nl (z ++ b) l l2 p bld' = .ok (w, ⟨y ++ b, line', p'⟩) ∧ (∃ u, c :: rest = u ++ y) ∧ y ≠ [] := by
        intro z u hu hz hzT l l2 bld' hz_run
        obtain ⟨g1, ⟨u', hu'⟩, g3⟩ := ih z hz hzT b l l2 p bld' w y line' p' hz_run
        exact ⟨g1, ⟨u ++ u', by rw [hu, hu', List.append_assoc]⟩, g3⟩
      by_cases h92 : (c == 92) = true
      · have hc : c = 92 := by simpa using h92
        subst hc
        obtain ⟨c2, r, rfl, hrne2, hrT2⟩ := hx.after_backslash
        simp only [beq_self_eq_true, ↓reduceIte] at hrun ⊢
        split at hrun
        · next e rest' line1 hesc =>
          obtain ⟨e1, e2, ⟨ue, e3⟩⟩ := parseEscapeL_frame hrT2 b line hesc
          split
          · next e' rest'' line1' hesc' =>
            rw [e1] at hesc'
            simp only [Out.ok.injEq, Prod.mk.injEq] at hesc'
            obtain ⟨rfl, rfl, rfl⟩ := hesc'
            cases hp : bld.tryPush e with
            | ok b' =>
              simp only [hp] at hrun ⊢
              have hl : rest'.length ≤ n := by
                have := congrArg List.length e3
                simp at this hrl; omega
              exact step rest' (92 :: ue) (by rw [List.cons_append, ← e3]) hl e2 _ _ _ hrun
            | err er => simp [hp, labelErr] at hrun; split at hrun <;> simp [fail] at hrun
            | panic => simp [hp] at hrun
          · next er hesc' => rw [e1] at hesc'; cases hesc'
          · next hesc' => rw [e1] at hesc'; cases hesc'
        · cases hrun
        · cases hrun
      · simp only [h92, Bool.false_eq_true, ↓reduceIte] at hrun ⊢
        by_cases h46 : (c == 46) = true
        · simp only [h46, ↓reduceIte] at hrun ⊢
          cases hp : bld.nextLabel with
          | ok b' =>
            simp only [hp] at hrun ⊢
            exact step rest [c] rfl hrl hrT _ _ _ hrun
          | err er => simp [hp, labelErr] at hrun; split at hrun <;> simp [fail] at hrun
          | panic => simp [hp] at hrun
        · simp only [h46, Bool.false_eq_true, ↓reduceIte] at hrun ⊢
          cases hp : bld.tryPush c with
          | ok b' =>
            simp only [hp] at hrun ⊢
            exact step rest [c] rfl hrl hrT _ _ _ hrun
          | err er => simp [hp, labelErr] at hrun; split at hrun <;> simp [fail] at hrun
          | panic => simp [hp] at hrun

theorem Frame_parseName (origin : Option (List UInt8)) : Frame (parseName origin) fun _ => True := by
  intro x b line p w y line' p' hx hrun
  obtain ⟨y1, a2, ab, au, ane⟩ := expectFieldImpl_frame id [64] (by decide) x b hx line p
  rw [← expectField_eq] at a2 ab
  unfold parseName at hrun ⊢
  rw [ab]
  cases hat : (expectField [64] ⟨x, line, p⟩).1 with
  | true =>
    have hst : expectField [64] ⟨x, line, p⟩ = (true, ⟨y1, line, p⟩) := by
      rw [← a2, ← hat]
    simp only [hst, ↓reduceIte] at hrun ⊢
    cases origin with
    | none => simp [fail] at hrun
    | some o =>
      simp only [Out.ok.injEq, Prod.mk.injEq, St.mk.injEq] at hrun ⊢
      obtain ⟨rfl, rfl, rfl, rfl⟩ := hrun
      exact ⟨⟨rfl, rfl, rfl, rfl⟩, au, fun _ => ane⟩
  | false =>
    have hst : expectField [64] ⟨x, line, p⟩ = (false, ⟨y1, line, p⟩) := by
      rw [← a2, ← hat]
    obtain ⟨u1, hu1⟩ := au
    have hy1T : Term y1 := hx.suffix hu1 ane
    obtain ⟨y2, r2, rb, ⟨u2, hu2⟩, rne⟩ := expectFieldImpl_frame id [46] (by decide) y1 b hy1T line p
    rw [← expectField_eq] at r2 rb
    simp only [hst, Bool.false_eq_true, ↓reduceIte] at hrun ⊢
    rw [rb]
    cases hroot : (expectField [46] ⟨y1, line, p⟩).1 with
    | true =>
      have hst2 : expectField [46] ⟨y1, line, p⟩ = (true, ⟨y2, line, p⟩) := by
        rw [← r2, ← hroot]
      simp only [hst2, ↓reduceIte, Out.ok.injEq, Prod.mk.injEq, St.mk.injEq] at hrun ⊢
      obtain ⟨rfl, rfl, rfl, rfl⟩ := hrun
      exact ⟨⟨rfl, rfl, rfl, rfl⟩, ⟨u1 ++ u2, by rw [hu1, hu2, List.append_assoc]⟩, fun _ => rne⟩
    | false =>
      have hst2 : expectField [46] ⟨y1, line, p⟩ = (false, ⟨y2, line, p⟩) := by
        rw [← r2, ← hroot]
      simp only [hst2, Bool.false_eq_true, ↓reduceIte] at hrun ⊢
      have hy2T : Term y2 := hy1T.suffix hu2 rne
      obtain ⟨g1, ⟨u3, hu3⟩, g3⟩ := nameLoop_frame origin line y2.length y2 (Nat.le_refl _) hy2T b line line p
        Builder.new w y line' p' hrun
      exact ⟨g1, ⟨u1 ++ (u2 ++ u3), by rw [hu1, hu2, hu3]; simp⟩, fun _ => g3⟩

theorem quotedLoop_frame (max : Nat) (tl ek : Kind) (sl : Nat) (n : Nat) : ∀ (x : List UInt8), x.length ≤ n → Term x →
    ∀ (b : List UInt8) (line : Nat) (acc : List UInt8) (k : Nat) (w y : List UInt8) (line' : Nat),
    quotedLoop max tl ek sl x line acc k = .ok (w, y, line') →
    quotedLoop max tl ek sl (x ++ b) line acc k = .ok (w, y ++ b, line') ∧ (∃ u, x = u ++ y) ∧ y ≠ [] := by
  induction n with
  | zero => intro x hlen hx; exact absurd (List.length_eq_zero_iff.mp (by omega)) hx.ne_nil
  | succ n ih =>
    intro x hlen hx b line acc k w y line' hrun
    obtain ⟨c, rest, rfl⟩ : ∃ c rest, x = c :: rest := by
      cases x with
      | nil => exact absurd rfl hx.ne_nil
      | cons c rest => exact ⟨c, rest, rfl⟩
    have hrl : rest.length ≤ n := by simpa using hlen
    have step : ∀ (z : List UInt8) (u : List UInt8), c :: rest = u ++ z → z.length ≤ n → ∀ l acc' k',
        quotedLoop max tl ek sl z l acc' k' = .ok (w, y, line') →
        quotedLoop max tl ek sl (z ++ b) l acc' k' = .ok (w, y ++ b, line') ∧ (∃ u, c :: rest = u ++ y) ∧ y ≠ [] := by
      intro z u hu hz l acc' k' hz_run
      by_cases hzn : z = []
      · subst hzn
        rw [quotedLoop.eq_def] at hz_run
        simp [fail] at hz_run
      · obtain ⟨g1, ⟨u', hu'⟩, g3⟩ := ih z hz (hx.suffix hu hzn) b l acc' k' w y line' hz_run
        exact ⟨g1, ⟨u ++ u', by rw [hu, hu', List.append_assoc]⟩, g3⟩
    rw [quotedLoop.eq_def] at hrun
    rw [List.cons_append, quotedLoop.eq_def]
    simp only at hrun ⊢
    by_cases h92 : (c == 92) = true
    · have hc : c = 92 := by simpa using h92
      subst hc
      obtain ⟨c2, r, rfl, hrne2, hrT2⟩ := hx.after_backslash
      simp only [beq_self_eq_true, ↓reduceIte] at hrun ⊢
      split at hrun
      · next e rest' line1 hesc =>
        obtain ⟨e1, e2, ⟨ue, e3⟩⟩ := parseEscapeL_frame hrT2 b line hesc
        split
        · next e' rest'' line1' hesc' =>
          rw [e1] at hesc'
          simp only [Out.ok.injEq, Prod.mk.injEq] at hesc'
          obtain ⟨rfl, rfl, rfl⟩ := hesc'
          split at hrun
          · simp [fail] at hrun
          · next hk =>
            simp only [hk, ↓reduceIte]
            have hl : rest'.length ≤ n := by
              have := congrArg List.length e3
              simp at this hrl; omega
            exact step rest' (92 :: ue) (by rw [List.cons_append, ← e3]) hl _ _ _ hrun
        · next er hesc' => rw [e1] at hesc'; cases hesc'
        · next hesc' => rw [e1] at hesc'; cases hesc'
      · cases hrun
      · cases hrun
    · simp only [h92, Bool.false_eq_true, ↓reduceIte] at hrun ⊢
      by_cases h34 : (c == 34) = true
      · simp only [h34, ↓reduceIte, Out.ok.injEq, Prod.mk.injEq] at hrun ⊢
        obtain ⟨rfl, rfl, rfl⟩ := hrun
        refine ⟨⟨rfl, rfl, rfl⟩, ⟨[c], rfl⟩, ?_⟩
        rcases hx.cons with ⟨_, rfl⟩ | ⟨h, _⟩
        · simp at h34
        · exact h
      · simp only [h34, Bool.false_eq_true, ↓reduceIte] at hrun ⊢
        split at hrun
        · simp [fail] at hrun
        · next hk =>
          simp only [hk, ↓reduceIte]
          exact step rest [c] rfl hrl _ _ _ hrun

theorem unquotedLoop_frame (max : Nat) (tl : Kind) (sl : Nat) (n : Nat) : ∀ (x : List UInt8), x.length ≤ n → Term x →
    ∀ (b : List UInt8) (line : Nat) (acc : List UInt8) (k : Nat) (w y : List UInt8) (line' : Nat),
    unquotedLoop max tl sl x line acc k = .ok (w, y, line') →
    unquotedLoop max tl sl (x ++ b) line acc k = .ok (w, y ++ b, line') ∧ (∃ u, x = u ++ y) ∧ y ≠ [] := by
  induction n with
  | zero => intro x hlen hx; exact absurd (List.length_eq_zero_iff.mp (by omega)) hx.ne_nil
  | succ n ih =>
    intro x hlen hx b line acc k w y line' hrun
    have hfe := atFieldEnd_append hx b
    rw [unquotedLoop.eq_def] at hrun
    rw [unquotedLoop.eq_def, hfe]
    by_cases hend : atFieldEnd x = true
    · simp only [hend, ↓reduceIte, Out.ok.injEq, Prod.mk.injEq] at hrun ⊢
      obtain ⟨rfl, rfl, rfl⟩ := hrun
      exact ⟨⟨rfl, rfl, rfl⟩, ⟨[], rfl⟩, hx.ne_nil⟩
    · have hend' : atFieldEnd x = false := by simpa using hend
      simp only [hend', Bool.false_eq_true, ↓reduceIte] at hrun ⊢
      obtain ⟨c, rest, rfl⟩ : ∃ c rest, x = c :: rest := by
        cases x with
        | nil => exact absurd rfl hx.ne_nil
        | cons c rest => exact ⟨c, rest, rfl⟩
      obtain ⟨hrne, hrT⟩ := not_atFieldEnd_cons hx hend'
      have hrl : rest.length ≤ n := by simpa using hlen
      simp only [List.cons_append] at hrun ⊢
      have step : ∀ (z : List UInt8) (u : List UInt8), c :: rest = u ++ z → z.length ≤ n → Term z → ∀ l acc' k',
          unquotedLoop max tl sl z l acc' k' = .ok (w, y, line') →
          unquotedLoop max tl sl (z ++ b) l acc' k' = .ok (w, y ++ b, line') ∧ (∃ u, c :: rest = u ++ y) ∧ y ≠ [] := by
        intro z u hu hz hzT l acc' k' hz_run
        obtain ⟨g1, ⟨u', hu'⟩, g3⟩ := ih z hz hzT b l acc' k' w y line' hz_run
        exact ⟨g1, ⟨u ++ u', by rw [hu, hu', List.append_assoc]⟩, g3⟩
      by_cases h92 : (c == 92) = true
      · have hc : c = 92 := by simpa using h92
        subst hc
        obtain ⟨c2, r, rfl, hrne2, hrT2⟩ := hx.after_backslash
        simp only [beq_self_eq_true, ↓reduceIte] at hrun ⊢
        split at hrun
        · next e rest' line1 hesc =>
          obtain ⟨e1, e2, ⟨ue, e3⟩⟩ := parseEscapeL_frame hrT2 b line hesc
          split
          · next e' rest'' line1' hesc' =>
            rw [e1] at hesc'
            simp only [Out.ok.injEq, Prod.mk.injEq] at hesc'
            obtain ⟨rfl, rfl, rfl⟩ := hesc'
            split at hrun
            · simp [fail] at hrun
            · next hk =>
              simp only [hk, ↓reduceIte]
              have hl : rest'.length ≤ n := by
                have := congrArg List.length e3
                simp at this hrl; omega
              exact step rest' (92 :: ue) (by rw [List.cons_append, ← e3]) hl e2 _ _ _ hrun
          · next er hesc' => rw [e1] at hesc'; cases hesc'
          · next hesc' => rw [e1] at hesc'; cases hesc'
        · cases hrun
        · cases hrun
      · simp only [h92, Bool.false_eq_true, ↓reduceIte] at hrun ⊢
        split at hrun
        · simp [fail] at hrun
        · next hk =>
          simp only [hk, ↓reduceIte]
          exact step rest [c] rfl hrl hrT _ _ _ hrun

theorem Frame_parseString (max : Nat) (tl ek : Kind) : Frame (parseString max tl ek) fun _ => True := by
  intro x b line p w y line' p' hx hrun
  obtain ⟨c, rest, rfl⟩ : ∃ c rest, x = c :: rest := by
    cases x with
    | nil => exact absurd rfl hx.ne_nil
    | cons c rest => exact ⟨c, rest, rfl⟩
  unfold parseString at hrun ⊢
  simp only [List.cons_append] at hrun ⊢
  by_cases h34 : c = 34
  · subst h34
    simp only at hrun ⊢
    cases hq : quotedLoop max tl ek line rest line [] 0 with
    | ok r =>
      obtain ⟨s, inp', l'⟩ := r
      simp only [hq, Out.ok.injEq, Prod.mk.injEq, St.mk.injEq] at hrun
      obtain ⟨rfl, rfl, rfl, rfl⟩ := hrun
      have hrest : rest ≠ [] ∧ Term rest := by
        rcases hx.cons with ⟨_, h⟩ | h
        · cases h
        · exact h
      obtain ⟨g1, ⟨u, hu⟩, g3⟩ := quotedLoop_frame max tl ek line rest.length rest (Nat.le_refl _) hrest.2 b line [] 0 _ _ _ hq
      simp only [g1]
      exact ⟨trivial, ⟨34 :: u, by rw [List.cons_append, ← hu]⟩, fun _ => g3⟩
    | err e => simp [hq] at hrun
    | panic => simp [hq] at hrun
  · split at hrun
    · next r heq => simp at heq; exact absurd heq.1 h34
    · split
      · next r heq => simp at heq; exact absurd heq.1 h34
      · cases hq : unquotedLoop max tl line (c :: rest) line [] 0 with
        | ok r =>
          obtain ⟨s, inp', l'⟩ := r
          simp only [hq, Out.ok.injEq, Prod.mk.injEq, St.mk.injEq] at hrun
          obtain ⟨rfl, rfl, rfl, rfl⟩ := hrun
          obtain ⟨g1, hu, g3⟩ := unquotedLoop_frame max tl line (c :: rest).length (c :: rest) (Nat.le_refl _) hx b
            line [] 0 _ _ _ hq
          simp only [List.cons_append] at g1
          simp only [g1]
          exact ⟨trivial, hu, fun _ => g3⟩
        | err e => simp [hq] at hrun
        | panic => simp [hq] at hrun

/-! ### records: the RDATA parsers -/

theorem Frame_bindE {α β} {f : P α} {g : α → P β} (hf : Frame f fun _ => False) (hg : ∀ a, Indep (g a)) :
    Frame (P.bind f g) fun _ => False :=
  Frame_bind hf (fun a h => absurd h id) (fun a _ => ⟨hg a, fun _ _ _ _ h => h⟩)

theorem Frame_parseCharacterString : Frame parseCharacterString fun _ => True := Frame_parseString _ _ _

theorem Frame_pName (ctx : Ctx) : Frame (pName ctx) fun _ => True := Frame_parseName _

theorem Frame_parseHexDigit : Frame parseHexDigit fun _ => True := by
  intro x b line p v y line' p' hx hrun
  have hfe := atFieldEnd_append hx b
  unfold parseHexDigit readFieldOctet at hrun ⊢
  simp only [hfe] at hrun ⊢
  obtain ⟨c, rest, rfl⟩ : ∃ c rest, x = c :: rest := by
    cases x with
    | nil => exact absurd rfl hx.ne_nil
    | cons c rest => exact ⟨c, rest, rfl⟩
  by_cases hend : atFieldEnd (c :: rest) = true
  · simp [hend, fail] at hrun
  · have hend' : atFieldEnd (c :: rest) = false := by simpa using hend
    obtain ⟨hrne, _⟩ := not_atFieldEnd_cons hx hend'
    simp only [hend', Bool.false_eq_true, ↓reduceIte, List.cons_append] at hrun ⊢
    cases hn : hexNibble c with
    | none => simp [hn, fail] at hrun
    | some k =>
      simp only [hn, Out.ok.injEq, Prod.mk.injEq, St.mk.injEq] at hrun ⊢
      obtain ⟨rfl, rfl, rfl, rfl⟩ := hrun
      exact ⟨⟨rfl, rfl, rfl, rfl⟩, ⟨[c], rfl⟩, fun _ => hrne⟩

theorem Frame_hexDigits (n : Nat) (acc : List UInt8) : Frame (hexDigits n acc) fun _ => True := by
  induction n generalizing acc with
  | zero => exact Frame_pure _ _ (fun _ => trivial)
  | succ n ih =>
    unfold hexDigits
    exact Frame_bindT Frame_parseHexDigit fun hi => Frame_bindT Frame_parseHexDigit fun lo => ih _

theorem chaosLoop_frame (sl : Nat) : ∀ (x : List UInt8), Term x → ∀ (b : List UInt8) (addr a : Nat) (y : List UInt8),
    chaosLoop sl x addr = .ok (a, y) →
    chaosLoop sl (x ++ b) addr = .ok (a, y ++ b) ∧ (∃ u, x = u ++ y) ∧ y ≠ [] := by
  intro x
  induction x with
  | nil => intro hx; exact absurd rfl hx.ne_nil
  | cons c rest ih =>
    intro hx b addr a y hrun
    have hfe := atFieldEnd_append hx b
    simp only [List.cons_append] at hfe
    simp only [List.cons_append, chaosLoop, hfe] at hrun ⊢
    by_cases hend : atFieldEnd (c :: rest) = true
    · simp only [hend, ↓reduceIte, Out.ok.injEq, Prod.mk.injEq] at hrun ⊢
      obtain ⟨rfl, rfl⟩ := hrun
      exact ⟨⟨rfl, rfl⟩, ⟨[], rfl⟩, by simp⟩
    · have hend' : atFieldEnd (c :: rest) = false := by simpa using hend
      obtain ⟨_, hrT⟩ := not_atFieldEnd_cons hx hend'
      simp only [hend', Bool.false_eq_true, ↓reduceIte] at hrun ⊢
      split at hrun
      · next hoct =>
        simp only [hoct, ↓reduceIte]
        split at hrun
        · simp [fail] at hrun
        · next hov =>
          simp only [hov, ↓reduceIte]
          obtain ⟨g1, ⟨u, hu⟩, g3⟩ := ih hrT b _ a y hrun
          exact ⟨g1, ⟨c :: u, by rw [List.cons_append, ← hu]⟩, g3⟩
      · simp [fail] at hrun

theorem Frame_parseChaosnetAddress : Frame parseChaosnetAddress fun _ => True := by
  intro x b line p v y line' p' hx hrun
  unfold parseChaosnetAddress at hrun ⊢
  simp only at hrun ⊢
  cases hc : chaosLoop line x 0 with
  | ok r =>
    obtain ⟨a, rest⟩ := r
    simp only [hc, Out.ok.injEq, Prod.mk.injEq, St.mk.injEq] at hrun
    obtain ⟨rfl, rfl, rfl, rfl⟩ := hrun
    obtain ⟨g1, hu, g3⟩ := chaosLoop_frame line x hx b 0 _ _ hc
    simp only [g1]
    exact ⟨trivial, hu, fun _ => g3⟩
  | err e => simp [hc] at hrun
  | panic => simp [hc] at hrun

theorem wksLoop_frame (sl : Nat) (n : Nat) : ∀ (x : List UInt8), x.length ≤ n → Term x →
    ∀ (b : List UInt8) (line : Nat) (p : Bool) (ports : List Nat) (k : Nat) (w : List Nat) (y : List UInt8)
      (line' : Nat) (p' : Bool),
    wksLoop sl ⟨x, line, p⟩ ports k = .ok (w, ⟨y, line', p'⟩) →
    wksLoop sl ⟨x ++ b, line, p⟩ ports k = .ok (w, ⟨y ++ b, line', p'⟩) ∧ (∃ u, x = u ++ y) := by
  induction n with
  | zero => intro x hlen hx; exact absurd (List.length_eq_zero_iff.mp (by omega)) hx.ne_nil
  | succ n ih =>
    intro x hlen hx b line p ports k w y line' p' hrun
    rw [wksLoop.eq_def] at hrun
    rw [wksLoop.eq_def]
    simp only at hrun ⊢
    cases hf : fieldOrEol true x line p with
    | err e => simp [hf] at hrun
    | panic => simp [hf] at hrun
    | ok r =>
      obtain ⟨fe, ⟨y1, l1, p1⟩⟩ := r
      obtain ⟨f1, ⟨u1, hu1⟩, f3⟩ := Frame_fieldOrEol true x b line p fe y1 l1 p1 hx hf
      simp only at f1
      simp only [hf, f1] at hrun ⊢
      cases fe with
      | Eol =>
        simp only [Out.ok.injEq, Prod.mk.injEq, St.mk.injEq] at hrun ⊢
        obtain ⟨rfl, rfl, rfl, rfl⟩ := hrun
        exact ⟨⟨rfl, rfl, rfl, rfl⟩, ⟨u1, hu1⟩⟩
      | Field =>
        have hy1 := f3 rfl
        have hy1T := hx.suffix hu1 hy1
        simp only at hrun ⊢
        split at hrun
        · simp [fail] at hrun
        · next hk =>
          simp only [hk, ↓reduceIte]
          cases hr : readField parseU16 .InvalidInt ⟨y1, l1, p1⟩ with
          | err e => simp [hr] at hrun
          | panic => simp [hr] at hrun
          | ok r2 =>
            obtain ⟨pt, ⟨y2, l2, p2⟩⟩ := r2
            obtain ⟨r1, ⟨u2, hu2⟩, r3⟩ := Frame_readField parseU16 .InvalidInt y1 b l1 p1 pt y2 l2 p2 hy1T hr
            have hy2 := r3 trivial
            simp only [hr, r1] at hrun ⊢
            split at hrun
            · next hlt =>
              have hlt' : (y2 ++ b).length < (x ++ b).length := by simp at hlt ⊢; omega
              simp only [hlt', ↓reduceIte]
              have hl2 : y2.length ≤ n := by omega
              obtain ⟨g1, ⟨u3, hu3⟩⟩ := ih y2 hl2 (hy1T.suffix hu2 hy2) b l2 p2 _ _ w y line' p' hrun
              exact ⟨g1, ⟨u1 ++ (u2 ++ u3), by rw [hu1, hu2, hu3]; simp⟩⟩
            · simp [fail] at hrun

theorem Frame_wksLoop (sl : Nat) : Frame (fun st => wksLoop sl st [] 0) fun _ => False := by
  intro x b line p v y line' p' hx hrun
  obtain ⟨g1, g2⟩ := wksLoop_frame sl x.length x (Nat.le_refl _) hx b line p [] 0 v y line' p' hrun
  exact ⟨g1, g2, fun h => absurd h id⟩

theorem txtLoop_frame (sl : Nat) (n : Nat) : ∀ (x : List UInt8), x.length ≤ n → Term x →
    ∀ (b : List UInt8) (line : Nat) (p : Bool) (acc : List UInt8) (w : List UInt8) (y : List UInt8)
      (line' : Nat) (p' : Bool),
    txtLoop sl ⟨x, line, p⟩ acc = .ok (w, ⟨y, line', p'⟩) →
    txtLoop sl ⟨x ++ b, line, p⟩ acc = .ok (w, ⟨y ++ b, line', p'⟩) ∧ (∃ u, x = u ++ y) := by
  induction n with
  | zero => intro x hlen hx; exact absurd (List.length_eq_zero_iff.mp (by omega)) hx.ne_nil
  | succ n ih =>
    intro x hlen hx b line p acc w y line' p' hrun
    rw [txtLoop.eq_def] at hrun
    rw [txtLoop.eq_def]
    simp only at hrun ⊢
    cases hs : parseCharacterString ⟨x, line, p⟩ with
    | err e => simp [hs] at hrun
    | panic => simp [hs] at hrun
    | ok r =>
      obtain ⟨cs, ⟨y1, l1, p1⟩⟩ := r
      obtain ⟨s1, ⟨u1, hu1⟩, s3⟩ := Frame_parseCharacterString x b line p cs y1 l1 p1 hx hs
      have hy1T := hx.suffix hu1 (s3 trivial)
      simp only [hs, s1] at hrun ⊢
      split at hrun
      · simp [fail] at hrun
      · next hk =>
        simp only [hk, ↓reduceIte]
        cases hf : fieldOrEol true y1 l1 p1 with
        | err e => simp [hf] at hrun
        | panic => simp [hf] at hrun
        | ok r2 =>
          obtain ⟨fe, ⟨y2, l2, p2⟩⟩ := r2
          obtain ⟨f1, ⟨u2, hu2⟩, f3⟩ := Frame_fieldOrEol true y1 b l1 p1 fe y2 l2 p2 hy1T hf
          simp only at f1
          simp only [hf, f1] at hrun ⊢
          cases fe with
          | Eol =>
            simp only [Out.ok.injEq, Prod.mk.injEq, St.mk.injEq] at hrun ⊢
            obtain ⟨rfl, rfl, rfl, rfl⟩ := hrun
            exact ⟨⟨rfl, rfl, rfl, rfl⟩, ⟨u1 ++ u2, by rw [hu1, hu2, List.append_assoc]⟩⟩
          | Field =>
            have hy2 := f3 rfl
            simp only at hrun ⊢
            split at hrun
            · next hlt =>
              have hlt' : (y2 ++ b).length < (x ++ b).length := by simp at hlt ⊢; omega
              simp only [hlt', ↓reduceIte]
              have hl2 : y2.length ≤ n := by omega
              obtain ⟨g1, ⟨u3, hu3⟩⟩ := ih y2 hl2 (hy1T.suffix hu2 hy2) b l2 p2 _ w y line' p' hrun
              exact ⟨g1, ⟨u1 ++ (u2 ++ u3), by rw [hu1, hu2, hu3]; simp⟩⟩
            · simp [fail] at hrun

theorem Frame_txtLoop (sl : Nat) : Frame (fun st => txtLoop sl st []) fun _ => False := by
  intro x b line p v y line' p' hx hrun
  obtain ⟨g1, g2⟩ := txtLoop_frame sl x.length x (Nat.le_refl _) hx b line p [] v y line' p' hrun
  exact ⟨g1, g2, fun h => absurd h id⟩

/-! ### records: composites -/

/-- the common ending of the RDATA parsers: `expect_eol`, then build the RDATA -/
theorem Frame_eol_mk (l : List UInt8) : Frame (P.bind expectEol fun _ => mkRdata l) fun _ => False :=
  Frame_bindE Frame_expectEol fun _ => Indep_mkRdata l

theorem Frame_nameRdataBody (ctx : Ctx) : Frame (nameRdataBody ctx) fun _ => False := by
  unfold nameRdataBody
  exact Frame_bindT (Frame_pName ctx) fun _ => Frame_eol_mk _

theorem Frame_inARdataBody : Frame inARdataBody fun _ => False := by
  unfold inARdataBody
  exact Frame_bindT (Frame_readField _ _) fun _ => Frame_eol_mk _

theorem Frame_inAaaaRdataBody : Frame inAaaaRdataBody fun _ => False := by
  unfold inAaaaRdataBody
  exact Frame_bindT (Frame_readField _ _) fun _ => Frame_eol_mk _

theorem Frame_chARdataBody (ctx : Ctx) : Frame (chARdataBody ctx) fun _ => False := by
  unfold chARdataBody
  exact Frame_bindT (Frame_pName ctx) fun _ => Frame_bindT (Frame_skipToNextField _) fun _ =>
    Frame_bindT Frame_parseChaosnetAddress fun _ => Frame_eol_mk _

theorem Frame_soaRdataBody (ctx : Ctx) : Frame (soaRdataBody ctx) fun _ => False := by
  unfold soaRdataBody
  exact Frame_bindT (Frame_pName ctx) fun _ => Frame_bindT (Frame_skipToNextField _) fun _ =>
    Frame_bindT (Frame_pName ctx) fun _ => Frame_bindT (Frame_skipToNextField _) fun _ =>
    Frame_bindT (Frame_readField _ _) fun _ => Frame_bindT (Frame_skipToNextField _) fun _ =>
    Frame_bindT (Frame_readField _ _) fun _ => Frame_bindT (Frame_skipToNextField _) fun _ =>
    Frame_bindT (Frame_readField _ _) fun _ => Frame_bindT (Frame_skipToNextField _) fun _ =>
    Frame_bindT (Frame_readField _ _) fun _ => Frame_bindT (Frame_skipToNextField _) fun _ =>
    Frame_bindT (Frame_readField _ _) fun _ => Frame_eol_mk _

theorem Frame_hinfoRdataBody : Frame hinfoRdataBody fun _ => False := by
  unfold hinfoRdataBody
  exact Frame_bindT Frame_parseCharacterString fun _ => Frame_bindT (Frame_skipToNextField _) fun _ =>
    Frame_bindT Frame_parseCharacterString fun _ => Frame_eol_mk _

theorem Frame_minfoRdataBody (ctx : Ctx) : Frame (minfoRdataBody ctx) fun _ => False := by
  unfold minfoRdataBody
  exact Frame_bindT (Frame_pName ctx) fun _ => Frame_bindT (Frame_skipToNextField _) fun _ =>
    Frame_bindT (Frame_pName ctx) fun _ => Frame_eol_mk _

theorem Frame_mxRdataBody (ctx : Ctx) : Frame (mxRdataBody ctx) fun _ => False := by
  unfold mxRdataBody
  exact Frame_bindT (Frame_readField _ _) fun _ => Frame_bindT (Frame_skipToNextField _) fun _ =>
    Frame_bindT (Frame_pName ctx) fun _ => Frame_eol_mk _

theorem Frame_inSrvRdataBody (ctx : Ctx) : Frame (inSrvRdataBody ctx) fun _ => False := by
  unfold inSrvRdataBody
  exact Frame_bindT (Frame_readField _ _) fun _ => Frame_bindT (Frame_skipToNextField _) fun _ =>
    Frame_bindT (Frame_readField _ _) fun _ => Frame_bindT (Frame_skipToNextField _) fun _ =>
    Frame_bindT (Frame_readField _ _) fun _ => Frame_bindT (Frame_skipToNextField _) fun _ =>
    Frame_bindT (Frame_pName ctx) fun _ => Frame_eol_mk _

theorem Frame_txtRdataBody : Frame txtRdataBody fun _ => False := by
  unfold txtRdataBody
  exact Frame_bindT Frame_getLine fun sl => Frame_bindE (Frame_txtLoop sl) fun _ => Indep_mkRdata _

theorem tcp_udp_ok : (∀ c ∈ "TCP".toUTF8.toList, lowerU8 c ≠ lowerU8 10) ∧
    (∀ c ∈ "UDP".toUTF8.toList, lowerU8 c ≠ lowerU8 10) := by decide +kernel

theorem Frame_inWksRdataBody : Frame inWksRdataBody fun _ => False := by
  unfold inWksRdataBody
  refine Frame_bindT Frame_getLine fun sl => Frame_bindT (Frame_readField _ _) fun addr =>
    Frame_bindT (Frame_skipToNextField _) fun _ => ?_
  have hjp : ∀ proto : Nat, Frame (P.bind (fun st => wksLoop sl st [] 0) fun ports => mkRdata (newInWks addr proto ports))
      fun _ => False := fun proto => Frame_bindE (Frame_wksLoop sl) fun _ => Indep_mkRdata _
  dsimp only
  refine Frame_bindT (Frame_expectFieldCI _ tcp_udp_ok.1) fun t => ?_
  cases t with
  | true => exact hjp _
  | false =>
    simp only [Bool.false_eq_true, ↓reduceIte]
    refine Frame_bindT (Frame_expectFieldCI _ tcp_udp_ok.2) fun t2 => ?_
    cases t2 with
    | true => exact hjp _
    | false =>
      simp only [Bool.false_eq_true, ↓reduceIte]
      exact Frame_bindT (Frame_readField _ _) fun _ => hjp _

theorem Frame_handlerBody (name : String) (ctx : Ctx) : Frame (handlerBody name ctx) fun _ => False := by
  unfold handlerBody
  split
  · exact Frame_nameRdataBody ctx
  · exact Frame_inARdataBody
  · exact Frame_chARdataBody ctx
  · exact Frame_soaRdataBody ctx
  · exact Frame_inWksRdataBody
  · exact Frame_hinfoRdataBody
  · exact Frame_minfoRdataBody ctx
  · exact Frame_mxRdataBody ctx
  · exact Frame_txtRdataBody
  · exact Frame_inAaaaRdataBody
  · exact Frame_inSrvRdataBody ctx
  · exact Frame_panic _

theorem Frame_mkRdata_then {β} (l : List UInt8) {g : List UInt8 → P β} {n : β → Prop} (hg : ∀ a, Frame (g a) n) :
    Frame (P.bind (mkRdata l) g) n := by
  intro x b line p w y line' p' hx hrun
  simp only [P.bind, mkRdata] at hrun ⊢
  by_cases hl : l.length > 65535
  · simp [hl] at hrun
  · simp only [hl, ↓reduceIte] at hrun ⊢
    exact hg l x b line p w y line' p' hx hrun

theorem Frame_parseUnknownRdataImpl : Frame parseUnknownRdataImpl fun _ => False := by
  unfold parseUnknownRdataImpl
  refine Frame_bindT (Frame_skipToNextField _) fun _ => Frame_bindT (Frame_readField _ _) fun len => ?_
  have hjp : ∀ res : Nat × List UInt8, Frame (P.bind expectEol fun _ => P.pure res) fun _ => False :=
    fun res => Frame_bindE Frame_expectEol fun _ => Indep_pure _
  dsimp only
  split
  · exact Frame_bindT (Frame_bindT Frame_getLine fun _ => Frame_pure _ _ (fun _ => trivial)) fun _ => hjp _
  · exact Frame_bindT (Frame_skipToNextField _) fun _ => Frame_bindT Frame_getLine fun _ =>
      Frame_bindT (Frame_hexDigits _ _) fun rd => Frame_mkRdata_then _ fun _ =>
        Frame_bindT (Frame_pure _ _ (fun _ => trivial)) fun _ => hjp _

theorem Frame_parseUnknownRdata : Frame parseUnknownRdata fun _ => False := by
  unfold parseUnknownRdata
  exact Frame_bindE Frame_parseUnknownRdataImpl fun _ => Indep_pure _

theorem Frame_parseUnknownRdataWithValidation (v : String) :
    Frame (parseUnknownRdataWithValidation v) fun _ => False := by
  unfold parseUnknownRdataWithValidation
  refine Frame_bindE Frame_parseUnknownRdataImpl fun r => ?_
  obtain ⟨line, rd⟩ := r
  dsimp only
  split
  · split
    · exact Indep_pure _
    · exact Indep_of_not_ok (by intro st r; simp [P.failAt, fail])
    · exact Indep_of_not_ok (by intro st r; simp [P.panic])
  · exact Indep_of_not_ok (by intro st r; simp [P.panic])

theorem Frame_checkBackslashHash (k : Kind) : Frame (checkBackslashHash k) fun _ => True := by
  unfold checkBackslashHash
  exact Frame_bindT (Frame_skipToNextField _) fun _ => Frame_expectField _ (by decide)

theorem Frame_runHandler (name : String) (ctx : Ctx) : Frame (runHandler name ctx) fun _ => False := by
  unfold runHandler
  split
  · refine Frame_bindT (Frame_checkBackslashHash _) fun t => ?_
    cases t with
    | true => exact Frame_parseUnknownRdataWithValidation _
    | false => exact Frame_handlerBody _ _
  · exact Frame_panic _

theorem Frame_parseRdata (ctx : Ctx) (cls ty : Nat) : Frame (parseRdata ctx cls ty) fun _ => False := by
  unfold parseRdata
  split
  · exact Frame_runHandler _ _
  · refine Frame_bindT (Frame_checkBackslashHash _) fun t => ?_
    cases t with
    | true => exact Frame_parseUnknownRdata
    | false => exact Frame_fail _ _

theorem Frame_parseTypeField : Frame parseTypeField fun _ => True := by
  unfold parseTypeField
  refine Frame_bindT Frame_getLine fun line => Frame_bindT (Frame_readField _ _) fun ty => ?_
  split
  · exact Frame_failAt _ _ _
  · exact Frame_pure _ _ (fun _ => trivial)

theorem Stable_parseTtl : Stable parseTtl := Stable_bind_pure (Stable_readField _ _) _
theorem Frame_parseTtl : Frame parseTtl fun _ => True :=
  Frame_bindT (Frame_readField _ _) fun _ => Frame_pure _ _ (fun _ => trivial)
theorem Frame_tryTtl : Frame (tryP parseTtl) fun _ => True := Frame_tryP Stable_parseTtl Frame_parseTtl
theorem Frame_tryClass : Frame (tryP parseClassField) fun _ => True :=
  Frame_tryP (Stable_readField _ _) (Frame_readField _ _)

theorem Frame_parseTtlAndClass (ctx : Ctx) : Frame (parseTtlAndClass ctx) fun _ => True := by
  unfold parseTtlAndClass
  refine Frame_bindT Frame_tryTtl fun t => ?_
  cases t with
  | some ttl =>
    refine Frame_bindT (Frame_skipToNextField _) fun _ => Frame_bindT Frame_tryClass fun c => ?_
    cases c with
    | some cls => exact Frame_pure _ _ (fun _ => trivial)
    | none =>
      dsimp only
      split
      · exact Frame_pure _ _ (fun _ => trivial)
      · exact Frame_fail _ _
  | none =>
    refine Frame_bindT Frame_tryClass fun c => ?_
    cases c with
    | some cls =>
      refine Frame_bindT (Frame_skipToNextField _) fun _ => Frame_bindT Frame_tryTtl fun t => ?_
      cases t with
      | some ttl => exact Frame_pure _ _ (fun _ => trivial)
      | none =>
        dsimp only
        split
        · exact Frame_pure _ _ (fun _ => trivial)
        · exact Frame_fail _ _
    | none =>
      dsimp only
      split
      · exact Frame_pure _ _ (fun _ => trivial)
      · exact Frame_fail _ _
      · exact Frame_fail _ _

theorem Frame_parseRecordRest (ctx : Ctx) (sl : Nat) (lw : Bool) : Frame (parseRecordRest ctx sl lw) fun _ => False := by
  unfold parseRecordRest
  have hjp : ∀ owner : List UInt8, Frame (P.bind (skipToNextField Kind.ExpectedTtlClassOrType) fun _ =>
      P.bind (parseTtlAndClass ctx) fun __x =>
        match __x with
        | (ttl, cls) => P.bind (skipToNextField Kind.ExpectedType) fun _ => P.bind parseTypeField fun ty =>
          P.bind (parseRdata ctx cls ty) fun rdata =>
            P.pure (some (Item.record sl { owner := owner, ttl := ttl, cls := cls, ty := ty, rdata := rdata }),
              ({ ctx with prevOwner := some owner, prevTtl := some ttl, prevClass := some cls } : Ctx)))
      fun _ => False := by
    intro owner
    refine Frame_bindT (Frame_skipToNextField _) fun _ => Frame_bindT (Frame_parseTtlAndClass ctx) fun tc => ?_
    obtain ⟨ttl, cls⟩ := tc
    exact Frame_bindT (Frame_skipToNextField _) fun _ => Frame_bindT Frame_parseTypeField fun ty =>
      Frame_bindE (Frame_parseRdata ctx cls ty) fun _ => Indep_pure _
  dsimp only
  split
  · split
    · exact Frame_bindT (Frame_pure _ _ (fun _ => trivial)) fun _ => hjp _
    · exact Frame_bindT (Frame_failAt _ _ _) fun _ => hjp _
  · exact Frame_bindT (Frame_pName ctx) fun _ => hjp _

theorem Frame_parseRecordOrEmpty (ctx : Ctx) : Frame (parseRecordOrEmpty ctx) fun _ => False := by
  unfold parseRecordOrEmpty
  refine Frame_bindT Frame_getLine fun sl => Frame_bindT Frame_skipWhitespace fun lw =>
    Frame_bind Frame_skipThrough (fun a ha => ?_) (fun a ha => ?_)
  · subst ha
    exact Frame_parseRecordRest ctx sl lw
  · have : a = .Eol := by cases a <;> simp at ha ⊢
    subst this
    exact ⟨Indep_pure _, fun _ _ _ _ h => h⟩

theorem directive_names_ok : (∀ c ∈ "$ORIGIN".toUTF8.toList, lowerU8 c ≠ lowerU8 10) ∧
    (∀ c ∈ "$TTL".toUTF8.toList, lowerU8 c ≠ lowerU8 10) ∧
    (∀ c ∈ "$INCLUDE".toUTF8.toList, lowerU8 c ≠ lowerU8 10) := by decide +kernel

theorem Frame_parseOriginDirective (ctx : Ctx) : Frame (parseOriginDirective ctx) fun _ => False := by
  unfold parseOriginDirective
  exact Frame_bindT (Frame_skipToNextField _) fun _ => Frame_bindT (Frame_pName ctx) fun _ =>
    Frame_bindE Frame_expectEol fun _ => Indep_pure _

theorem Frame_parseTtlDirective (ctx : Ctx) : Frame (parseTtlDirective ctx) fun _ => False := by
  unfold parseTtlDirective
  exact Frame_bindT (Frame_skipToNextField _) fun _ => Frame_bindT (Frame_readField _ _) fun _ =>
    Frame_bindE Frame_expectEol fun _ => Indep_pure _

theorem Frame_parseIncludeDirective (ctx : Ctx) : Frame (parseIncludeDirective ctx) fun _ => False := by
  unfold parseIncludeDirective
  refine Frame_bindT Frame_getLine fun line => Frame_bindT (Frame_skipToNextField _) fun _ =>
    Frame_bindT (Frame_parseString _ _ _) fun path => Frame_bind Frame_skipThrough (fun a ha => ?_) (fun a ha => ?_)
  · subst ha
    exact Frame_bindT (Frame_pName ctx) fun _ => Frame_bindE Frame_expectEol fun _ => Indep_pure _
  · have : a = .Eol := by cases a <;> simp at ha ⊢
    subst this
    exact ⟨Indep_pure _, fun _ _ _ _ h => h⟩

theorem Frame_parseDirective (ctx : Ctx) : Frame (parseDirective ctx) fun _ => False := by
  unfold parseDirective
  refine Frame_bindT (Frame_expectFieldCI _ directive_names_ok.1) fun t => ?_
  cases t with
  | true => exact Frame_bindE (Frame_parseOriginDirective ctx) fun _ => Indep_pure _
  | false =>
    simp only [Bool.false_eq_true, ↓reduceIte]
    refine Frame_bindT (Frame_expectFieldCI _ directive_names_ok.2.1) fun t2 => ?_
    cases t2 with
    | true => exact Frame_bindE (Frame_parseTtlDirective ctx) fun _ => Indep_pure _
    | false =>
      simp only [Bool.false_eq_true, ↓reduceIte]
      refine Frame_bindT (Frame_expectFieldCI _ directive_names_ok.2.2) fun t3 => ?_
      cases t3 with
      | true => exact Frame_bindE (Frame_parseIncludeDirective ctx) fun _ => Indep_pure _
      | false => exact Frame_fail _ _

/-- **One line.**  On an input that ends with an unescaped newline, a successful `parse_line`
    is unchanged by whatever follows that input -/
theorem Frame_parseLine (ctx : Ctx) : Frame (parseLine ctx) fun _ => False := by
  intro x b line p v y line' p' hx hrun
  obtain ⟨c, rest, rfl⟩ : ∃ c rest, x = c :: rest := by
    cases x with
    | nil => exact absurd rfl hx.ne_nil
    | cons c rest => exact ⟨c, rest, rfl⟩
  unfold parseLine at hrun ⊢
  simp only [List.cons_append] at hrun ⊢
  by_cases h36 : (c == 36) = true
  · simp only [h36, ↓reduceIte] at hrun ⊢
    exact Frame_parseDirective ctx (c :: rest) b line p v y line' p' hx hrun
  · simp only [h36, Bool.false_eq_true, ↓reduceIte] at hrun ⊢
    exact Frame_parseRecordOrEmpty ctx (c :: rest) b line p v y line' p' hx hrun

end QV.ZF
