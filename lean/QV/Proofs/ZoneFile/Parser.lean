/-
  QV.Proofs.ZoneFile.Parser — records, directives, lines, the iterator: totality (no panic, no
  `ModelStuck`), progress, validity of everything yielded, the error latch.
-/
import QV.Proofs.ZoneFile.Record

namespace QV.ZF
open QV QV.Wire QV.Rdata

/-- what C24 demands of a yielded item -/
def ItemOK : Item → Prop
  | .record _ r => NameWF r.owner ∧ r.ty ≠ 10 ∧ r.ty ≠ 41 ∧ r.ty ≠ 250 ∧ validate r.cls r.ty r.rdata = .ok ()
  | .incl _ _ origin => ∀ o, origin = some o → NameWF o

/-! ### TTL / class / type -/

theorem T_parseTtl : T parseTtl (fun _ => True) := by
  unfold parseTtl
  refine T_bind (T_readU32 _ (by decide)) ?_; intro _ _
  exact T_pure trivial

theorem T_parseClassField : T parseClassField (fun _ => True) :=
  (T_readField parseClass _ (by decide)).weaken (fun _ _ => trivial)

theorem T_parseTtlAndClass (ctx : Ctx) : T (parseTtlAndClass ctx) (fun _ => True) := by
  unfold parseTtlAndClass
  refine T_bind (T_tryP T_parseTtl) ?_; intro o _
  split
  · refine T_bind (T_skipToNextField _ (by decide)) ?_; intro _ _
    refine T_bind (T_tryP T_parseClassField) ?_; intro o2 _
    split
    · exact T_pure trivial
    · split
      · exact T_pure trivial
      · exact T_fail (by decide)
  · refine T_bind (T_tryP T_parseClassField) ?_; intro o2 _
    split
    · refine T_bind (T_skipToNextField _ (by decide)) ?_; intro _ _
      refine T_bind (T_tryP T_parseTtl) ?_; intro o3 _
      split
      · exact T_pure trivial
      · split
        · exact T_pure trivial
        · exact T_fail (by decide)
    · split
      · exact T_pure trivial
      · exact T_fail (by decide)
      · exact T_fail (by decide)

theorem kindOfString_ne (s : String) : kindOfString s ≠ .ModelStuck := by
  unfold kindOfString
  repeat' split
  all_goals decide

theorem parseType_nil : parseType [] = none := by decide +kernel

/-- `parse_type`: consumes at least one octet and never returns NULL, OPT or TSIG -/
theorem TS_parseTypeField : TS parseTypeField (fun ty => ty ≠ 10 ∧ ty ≠ 41 ∧ ty ≠ 250) := by
  unfold parseTypeField
  refine TS_bind_right T_getLine ?_; intro line _
  refine TS_bind_left (TS_readField parseType _ (by decide) parseType_nil) ?_; intro ty _
  split
  · exact T_failAt (kindOfString_ne _)
  · next hnone =>
    refine T_pure ?_
    simp [Gen.parseTypeRejected, List.find?] at hnone
    repeat' split at hnone
    all_goals first | (cases hnone; done) | skip
    simp_all
    omega

/-! ### records -/

theorem TS_parseRecordRest {ctx : Ctx} (hctx : CtxWF ctx) (startLine : Nat) (lw : Bool) :
    TS (parseRecordRest ctx startLine lw)
      (fun r => (∃ it, r.1 = some it ∧ ItemOK it) ∧ CtxWF r.2) := by
  unfold parseRecordRest
  have jp : ∀ owner, NameWF owner → TS (do
      skipToNextField Kind.ExpectedTtlClassOrType
      let __x ← parseTtlAndClass ctx
      match __x with
        | (ttl, cls) => do
          skipToNextField Kind.ExpectedType
          let ty ← parseTypeField
          let rdata ← parseRdata ctx cls ty
          pure
              (some (Item.record startLine { owner := owner, ttl := ttl, cls := cls, ty := ty, rdata := rdata }),
                { ctx with prevOwner := some owner, prevTtl := some ttl, prevClass := some cls }))
      (fun r => (∃ it, r.1 = some it ∧ ItemOK it) ∧ CtxWF r.2) := by
    intro owner hown
    refine TS_bind_right (T_skipToNextField _ (by decide)) ?_; intro _ _
    refine TS_bind_right (T_parseTtlAndClass ctx) ?_; intro tc _
    obtain ⟨ttl, cls⟩ := tc
    simp only
    refine TS_bind_right (T_skipToNextField _ (by decide)) ?_; intro _ _
    refine TS_bind_left TS_parseTypeField ?_; intro ty hty
    refine T_bind (T_parseRdata hctx cls ty hty.2.1 hty.2.2) ?_; intro rd hrd
    refine T_pure ⟨⟨_, rfl, hown, hty.1, hty.2.1, hty.2.2, hrd⟩, ?_, ?_⟩
    · exact hctx.1
    · intro o ho; simp at ho; subst ho; exact hown
  dsimp only
  split
  · split
    · next o ho =>
      refine TS_bind_right (T_pure (Q := NameWF) (hctx.2 o ho)) ?_
      intro owner hown; exact jp owner hown
    · refine TS_bind_right (T_failAt (Q := NameWF) (by decide)) ?_
      intro owner hown; exact jp owner hown
  · refine TS_bind_right (T_pName hctx) ?_
    intro owner hown; exact jp owner hown

theorem parseRecordOrEmpty_eq (ctx : Ctx) (st : St) :
    parseRecordOrEmpty ctx st =
      match fieldOrEol true (skipWhitespace st).2.inp (skipWhitespace st).2.line (skipWhitespace st).2.paren with
      | .ok (r, st2) =>
        (if (r == FieldOrEol.Eol) = true then (pure (none, ctx) : P (Option Item × Ctx))
         else parseRecordRest ctx st.line (skipWhitespace st).1) st2
      | .err e => .err e
      | .panic => .panic := by
  unfold parseRecordOrEmpty
  simp only [bind, P.bind, getLine, liftB, skipToNextFieldOrThroughEol]
  cases fieldOrEol true (skipWhitespace st).2.inp (skipWhitespace st).2.line (skipWhitespace st).2.paren <;> rfl

theorem skipWhitespace_nonempty {st : St} (hne : st.inp ≠ []) :
    (skipWhitespace st).2.inp ≠ [] ∨ (skipWhitespace st).2.inp.length < st.inp.length := by
  cases h : (skipWhitespace st).2.inp with
  | nil => right; cases hi : st.inp with
    | nil => exact absurd hi hne
    | cons c r => simp
  | cons c r => left; simp

/-- a line that is not a directive: progress and validity -/
theorem parseRecordOrEmpty_good {ctx : Ctx} (hctx : CtxWF ctx) (st : St) (hne : st.inp ≠ []) :
    GoodS (parseRecordOrEmpty ctx st) st.inp.length
      (fun r => (∀ it, r.1 = some it → ItemOK it) ∧ CtxWF r.2) := by
  rw [parseRecordOrEmpty_eq]
  have hws := skipWhitespace_le st
  cases hf : fieldOrEol true (skipWhitespace st).2.inp (skipWhitespace st).2.line (skipWhitespace st).2.paren with
  | ok p =>
    obtain ⟨r, st2⟩ := p
    simp only
    have hle := fieldOrEol_le hf
    cases r with
    | Eol =>
      simp only [beq_self_eq_true, ↓reduceIte, pure, P.pure, GoodS]
      refine ⟨⟨by simp, hctx⟩, ?_⟩
      rcases skipWhitespace_nonempty hne with h1 | h1
      · cases hi : (skipWhitespace st).2.inp with
        | nil => exact absurd hi h1
        | cons c rest =>
          rw [hi] at hf
          have := fieldOrEol_eol_strict hf
          rw [hi] at hws; simp at this hws; omega
      · omega
    | Field =>
      have hb : ((FieldOrEol.Field == FieldOrEol.Eol) = true) = False := by simp
      simp only [hb, ↓reduceIte]
      have g := TS_parseRecordRest hctx st.line (skipWhitespace st).1 st2
      unfold GoodS at g ⊢
      split
      · next a st' heq =>
        rw [heq] at g
        refine ⟨⟨?_, g.1.2⟩, by have := g.2; omega⟩
        intro it hit
        obtain ⟨it', h1, h2⟩ := g.1.1
        rw [hit] at h1; cases h1; exact h2
      · next e heq => rw [heq] at g; exact g
      · next heq => rw [heq] at g; exact g
  | err e =>
    have g := fieldOrEol_good true (skipWhitespace st).2.inp (skipWhitespace st).2.line (skipWhitespace st).2.paren
    rw [hf] at g
    simpa [GoodS, Good] using g
  | panic =>
    have g := fieldOrEol_good true (skipWhitespace st).2.inp (skipWhitespace st).2.line (skipWhitespace st).2.paren
    rw [hf] at g
    simp [Good] at g

/-! ### directives -/

theorem T_parseOriginDirective {ctx : Ctx} (hctx : CtxWF ctx) : T (parseOriginDirective ctx) CtxWF := by
  unfold parseOriginDirective
  refine T_bind (T_skipToNextField _ (by decide)) ?_; intro _ _
  refine T_bind (T_pName hctx) ?_; intro name hn
  refine T_bind T_expectEol ?_; intro _ _
  refine T_pure ⟨?_, hctx.2⟩
  intro o ho; simp at ho; subst ho; exact hn

theorem T_parseTtlDirective {ctx : Ctx} (hctx : CtxWF ctx) : T (parseTtlDirective ctx) CtxWF := by
  unfold parseTtlDirective
  refine T_bind (T_skipToNextField _ (by decide)) ?_; intro _ _
  refine T_bind (T_readU32 _ (by decide)) ?_; intro ttl _
  refine T_bind T_expectEol ?_; intro _ _
  exact T_pure ⟨hctx.1, hctx.2⟩

theorem T_parseIncludeDirective {ctx : Ctx} (hctx : CtxWF ctx) : T (parseIncludeDirective ctx) ItemOK := by
  unfold parseIncludeDirective
  refine T_bind T_getLine ?_; intro line _
  refine T_bind (T_skipToNextField _ (by decide)) ?_; intro _ _
  refine T_bind ((T_parseString _ _ _ (by decide) (by decide)).weaken (fun _ _ => trivial)) ?_; intro path _
  refine T_bind T_skipThrough ?_; intro r _
  split
  · exact T_pure hctx.1
  · refine T_bind (T_pName hctx) ?_; intro origin ho
    refine T_bind T_expectEol ?_; intro _ _
    refine T_pure ?_
    intro o h; simp at h; subst h; exact ho

/-- `if expect_field_case_insensitive(f)? { A } else { B }`: a match consumes `f` -/
theorem TS_expect_ite {α} {f : List UInt8} (hf : 0 < f.length) {A B : P α} {Q : α → Prop}
    (hA : T A Q) (hB : TS B Q) :
    TS (liftB (expectFieldCI f) >>= fun b => if b = true then A else B) Q := by
  intro st
  simp only [bind, P.bind, liftB]
  have hle := expectFieldImpl_le eqIgnoreCase f st
  cases hb : (expectFieldCI f st).1
  · simp only [Bool.false_eq_true, ↓reduceIte]
    have g := hB (expectFieldCI f st).2
    unfold GoodS at g ⊢
    unfold expectFieldCI at g ⊢
    split <;> simp_all
    omega
  · simp only [↓reduceIte]
    have hlt := expectFieldImpl_true_lt eqIgnoreCase f st hf hb
    have g := hA (expectFieldCI f st).2
    unfold Good at g
    unfold GoodS
    unfold expectFieldCI at g ⊢
    split <;> simp_all
    omega

theorem TS_parseDirective {ctx : Ctx} (hctx : CtxWF ctx) :
    TS (parseDirective ctx) (fun r => (∀ it, r.1 = some it → ItemOK it) ∧ CtxWF r.2) := by
  unfold parseDirective
  refine TS_expect_ite (by decide +kernel) ?_ ?_
  · refine T_bind (T_parseOriginDirective hctx) ?_; intro ctx' h'
    exact T_pure ⟨by simp, h'⟩
  · refine TS_expect_ite (by decide +kernel) ?_ ?_
    · refine T_bind (T_parseTtlDirective hctx) ?_; intro ctx' h'
      exact T_pure ⟨by simp, h'⟩
    · refine TS_expect_ite (by decide +kernel) ?_ ?_
      · refine T_bind (T_parseIncludeDirective hctx) ?_; intro item hi
        refine T_pure ⟨?_, hctx⟩
        intro it h; simp at h; subst h; exact hi
      · exact TS_fail (by decide)

/-! ### lines -/

theorem parseLine_good {ctx : Ctx} (hctx : CtxWF ctx) (st : St) (hne : st.inp ≠ []) :
    GoodS (parseLine ctx st) st.inp.length (fun r => (∀ it, r.1 = some it → ItemOK it) ∧ CtxWF r.2) := by
  unfold parseLine
  split
  · split
    · exact TS_parseDirective hctx st
    · exact parseRecordOrEmpty_good hctx st hne
  · next h => exact absurd h hne

/-- outcome of `parse_lines_until_returnable_data_found` -/
def UGood (r : R (Option Item × Ctx)) (n : Nat) : Prop :=
  match r with
  | .ok ((it?, ctx'), st') =>
    CtxWF ctx' ∧ st'.inp.length ≤ n ∧ ∀ it, it? = some it → ItemOK it ∧ st'.inp.length < n
  | .err e => e.kind ≠ .ModelStuck
  | .panic => False

theorem UGood.weaken {r : R (Option Item × Ctx)} {n m : Nat} (h : UGood r n) (hnm : n ≤ m) : UGood r m := by
  unfold UGood at *
  split
  · next it? ctx' st' =>
    exact ⟨h.1, by have := h.2.1; omega, fun it hit => ⟨(h.2.2 it hit).1, by have := (h.2.2 it hit).2; omega⟩⟩
  · exact h
  · exact h

theorem untilData_good (ctx : Ctx) (hctx : CtxWF ctx) (st : St) : UGood (untilData ctx st) st.inp.length := by
  fun_induction untilData ctx st
  case case1 ctx st h =>
    simp only [UGood]
    exact ⟨hctx, Nat.le_refl _, by simp⟩
  case case2 ctx st c rest h item ctx' st' hp =>
    have g := parseLine_good hctx st (by simp [h])
    rw [hp] at g
    simp only [UGood]
    exact ⟨g.1.2, by have := g.2; omega, fun it hit => by cases hit; exact ⟨g.1.1 _ rfl, g.2⟩⟩
  case case3 ctx st c rest h ctx' st' hp hlt ih =>
    have g := parseLine_good hctx st (by simp [h])
    rw [hp] at g
    exact (ih g.1.2).weaken (by omega)
  case case4 ctx st c rest h ctx' st' hp hnlt =>
    have g := parseLine_good hctx st (by simp [h])
    rw [hp] at g
    exact absurd g.2 hnlt
  case case5 ctx st c rest h e hp =>
    have g := parseLine_good hctx st (by simp [h])
    rw [hp] at g
    exact g
  case case6 ctx st c rest h hp =>
    have g := parseLine_good hctx st (by simp [h])
    rw [hp] at g
    exact g

/-! ### the iterator -/

/-- the shape of everything a parser may yield: valid items, then at most one error (which is
    not the model's `ModelStuck` marker) as the very last element; never a panic -/
inductive Run : List Yield → Prop
  | nil : Run []
  | item {it : Item} {rest : List Yield} : ItemOK it → Run rest → Run (.item it :: rest)
  | err {e : Err} : e.kind ≠ .ModelStuck → Run [.err e]

/-- `Parser::next` after the error latch is set -/
theorem next_latched {p : Parser} (h : p.error = true) : p.next = (none, p) := by
  unfold Parser.next; simp [h]

/-- what one call of `Parser::next` may return -/
def NextOK (p : Parser) (r : Option Yield × Parser) : Prop :=
  match r with
  | (none, p') => CtxWF p'.ctx
  | (some (.item it), p') => ItemOK it ∧ CtxWF p'.ctx ∧ p'.st.inp.length < p.st.inp.length
  | (some (.err e), p') => e.kind ≠ .ModelStuck ∧ p'.error = true
  | (some .panic, _) => False

theorem next_spec {p : Parser} (hctx : CtxWF p.ctx) : NextOK p p.next := by
  unfold Parser.next
  by_cases he : p.error = true
  · simp only [he, ↓reduceIte, NextOK]; exact hctx
  · simp only [he, Bool.false_eq_true, ↓reduceIte]
    have g := untilData_good p.ctx hctx p.st
    cases hu : untilData p.ctx p.st with
    | ok r =>
      obtain ⟨⟨it?, ctx'⟩, st'⟩ := r
      rw [hu] at g
      cases it? with
      | none => exact g.1
      | some item => exact ⟨(g.2.2 item rfl).1, g.1, (g.2.2 item rfl).2⟩
    | err e => rw [hu] at g; exact ⟨g, rfl⟩
    | panic => rw [hu] at g; exact g

/-- everything the iterator yields, for any input and any well-formed initial context -/
theorem collect_run (p : Parser) (hctx : CtxWF p.ctx) : Run (collect p) := by
  fun_induction collect p
  case case1 p p' h => exact Run.nil
  case case2 p i p' h hlt ih =>
    have g := next_spec hctx
    rw [h] at g
    exact Run.item g.1 (ih g.2.1)
  case case3 p i p' h hnlt =>
    have g := next_spec hctx
    rw [h] at g
    exact absurd g.2.2 hnlt
  case case4 p y p' hni h =>
    have g := next_spec hctx
    rw [h] at g
    cases y with
    | item i => exact absurd rfl (hni i)
    | err e =>
      simp only [NextOK] at g
      rw [next_latched g.2]
      exact Run.err g.1
    | panic => exact absurd g (by simp [NextOK])

theorem Run.no_panic {ys : List Yield} (h : Run ys) : Yield.panic ∉ ys := by
  induction h with
  | nil => simp
  | item _ _ ih => simpa using ih
  | err _ => simp

theorem Run.no_stuck {ys : List Yield} (h : Run ys) : ∀ e, Yield.err e ∈ ys → e.kind ≠ .ModelStuck := by
  induction h with
  | nil => simp
  | item _ _ ih => intro e he; simp at he; exact ih e he
  | err hk => intro e he; simp at he; subst he; exact hk

theorem Run.items_ok {ys : List Yield} (h : Run ys) : ∀ it, Yield.item it ∈ ys → ItemOK it := by
  induction h with
  | nil => simp
  | item hi _ ih =>
    intro it hit
    simp at hit
    rcases hit with rfl | hit
    · exact hi
    · exact ih it hit
  | err _ => simp

theorem Run.err_last {ys : List Yield} (h : Run ys) :
    ∀ (pre : List Yield) (e : Err) (post : List Yield), ys = pre ++ .err e :: post → post = [] := by
  induction h with
  | nil => intro pre e post h; simp at h
  | item _ _ ih =>
    intro pre e post h
    cases pre with
    | nil => simp at h
    | cons y pre' => simp at h; exact ih pre' e post h.2
  | err _ =>
    intro pre e post h
    cases pre with
    | nil => simp at h; exact h.2
    | cons y pre' => simp at h

/-! ### `RecordsOnly` -/

theorem recordsOnlyNext_latched {p : Parser} (h : p.error = true) : recordsOnlyNext p = (none, p) := by
  unfold recordsOnlyNext; rw [next_latched h]

/-- the `RecordsOnly` iterator: the same guarantees, and it never yields an `$INCLUDE` item -/
theorem collectRecordsOnly_run (p : Parser) (hctx : CtxWF p.ctx) :
    Run (collectRecordsOnly p) ∧ ∀ l path o, Yield.item (.incl l path o) ∉ collectRecordsOnly p := by
  fun_induction collectRecordsOnly p
  case case1 => exact ⟨Run.nil, by simp⟩
  case case2 p i p' h hlt ih =>
    have g := next_spec hctx
    unfold recordsOnlyNext at h
    split at h
    · cases h
    · next hne =>
      rw [h] at g
      obtain ⟨ih1, ih2⟩ := ih g.2.1
      refine ⟨Run.item g.1 ih1, ?_⟩
      intro l path o hmem
      simp at hmem
      rcases hmem with rfl | hmem
      · exact hne l path o p' h
      · exact ih2 l path o hmem
  case case3 p i p' h hnlt =>
    have g := next_spec hctx
    unfold recordsOnlyNext at h
    split at h
    · cases h
    · rw [h] at g; exact absurd g.2.2 hnlt
  case case4 p y p' hni h =>
    have g := next_spec hctx
    unfold recordsOnlyNext at h
    split at h
    · next line path o p'' hn =>
      simp only [Prod.mk.injEq, Option.some.injEq] at h
      obtain ⟨rfl, rfl⟩ := h
      rw [recordsOnlyNext_latched rfl]
      exact ⟨Run.err (by simp), by simp⟩
    · rw [h] at g
      cases y with
      | item i => exact absurd rfl (hni i)
      | err e =>
        simp only [NextOK] at g
        rw [recordsOnlyNext_latched g.2]
        exact ⟨Run.err g.1, by simp⟩
      | panic => exact absurd g (by simp [NextOK])

end QV.ZF
