/-
  QV.Proofs.ZoneFile.Valid — RDATA built by the typed zone-file parsers passes the validators of
  the shared RDATA model (`QV.Rdata.validate_as_*`, lean/QV/Model/Rdata.lean), and those
  validators never panic.
-/
import QV.Proofs.ZoneFile.Name
import QV.Proofs.Wire
import QV.Model.Rdata

namespace QV.ZF
open QV QV.Wire QV.Rdata

/-! ### names -/

theorem uncompAux_encode (ls : List (List UInt8)) (hok : LabelsOK ls) (pre suf : List UInt8) (nl : Nat)
    (hlen : pre.length + (encodeName ls).length ≤ 255) :
    uncompAux (pre ++ encodeName ls ++ suf).toArray false pre.length nl
      = .ok (pre.length + (encodeName ls).length, nl + ls.length + 1) := by
  induction ls generalizing pre nl with
  | nil =>
    rw [uncompAux]
    simp [encodeName, flatLabels, Gen.MAX_LABEL_LEN, Gen.MAX_WIRE_LEN] at hlen ⊢
    omega
  | cons l ls ih =>
    have h1 := hok l (by simp)
    have h2 : LabelsOK ls := fun x hx => hok x (by simp [hx])
    have e : encodeName (l :: ls) = UInt8.ofNat l.length :: (l ++ encodeName ls) := by
      simp [encodeName, flatLabels, encLabel]
    rw [e] at hlen ⊢
    rw [uncompAux]
    have hsz : pre.length < (pre ++ UInt8.ofNat l.length :: (l ++ encodeName ls) ++ suf).toArray.size := by simp
    have hget : (pre ++ UInt8.ofNat l.length :: (l ++ encodeName ls) ++ suf).toArray[pre.length]'hsz = UInt8.ofNat l.length := by
      simp
    simp only [hsz, ↓reduceDIte, hget, ofNat_len_toNat h1.2]
    have hne : UInt8.ofNat l.length ≠ 0 := by
      have := ofNat_len_ne_zero h1.1 h1.2; simpa using this
    simp [Gen.MAX_LABEL_LEN, Gen.MAX_WIRE_LEN, hne] at hlen ⊢
    have hh1 : ¬ (63 < l.length) := by omega
    have hh2 : ¬ (255 < pre.length + l.length + 1) := by omega
    simp [hh1, hh2]
    have := ih h2 (pre ++ UInt8.ofNat l.length :: l) (nl + 1) (by simp; omega)
    simp at this
    have e2 : pre.length + l.length + 1 = pre.length + (l.length + 1) := by omega
    rw [e2, this]
    simp; omega

/-- a well-formed name at the start of a buffer validates with its own length -/
theorem validate_prefix {w : List UInt8} (hw : NameWF w) (suf : List UInt8) :
    validateUncompressed (w ++ suf).toArray false = .ok w.length := by
  obtain ⟨ls, ok, rfl, hl⟩ := hw
  have := uncompAux_encode ls ok [] suf 0 (by simpa using hl)
  simp at this
  simp [validateUncompressed, this]

/-- a well-formed name validates as a whole buffer (`Name::validate_uncompressed_all`) -/
theorem validate_all {w : List UInt8} (hw : NameWF w) :
    validateUncompressed w.toArray true = .ok w.length := by
  obtain ⟨ls, ok, rfl, hl⟩ := hw
  have := uncompAux_encode ls ok [] [] 0 (by simpa using hl)
  simp at this
  simp [validateUncompressed, this]

theorem NameWF.length_le {w : List UInt8} (hw : NameWF w) : w.length ≤ 255 := hw.choose_spec.2.2

theorem vNameAll_of_WF {w : List UInt8} (hw : NameWF w) : vNameAll w = true := by
  simp [vNameAll, validate_all hw, Out.isOk]

theorem extract_suffix (a b : List UInt8) :
    (a ++ b).toArray.extract a.length (a ++ b).toArray.size = b.toArray := by
  apply Array.ext'
  simp

theorem extract_suffix' (a b : List UInt8) (n : Nat) (hn : n = a.length) :
    (a ++ b).toArray.extract n (a ++ b).toArray.size = b.toArray := by
  subst hn; exact extract_suffix a b

/-! ### the validators accept what the typed parsers build -/

theorem name_valid {w : List UInt8} (hw : NameWF w) : validateName w.toArray = .ok () := by
  simp [validateName, liftName, validate_all hw, Out.mapErr]

theorem inA_valid {a : List UInt8} (h : a.length = 4) : validateAsInA a.toArray = .ok () := by
  simp [validateAsInA, h]

theorem inAaaa_valid {a : List UInt8} (h : a.length = 16) : validateAsInAaaa a.toArray = .ok () := by
  simp [validateAsInAaaa, h]

theorem inWks_valid {a : List UInt8} (h : 5 ≤ a.length) : validateAsInWks a.toArray = .ok () := by
  simp [validateAsInWks, h]

theorem chA_valid {lan t : List UInt8} (hl : NameWF lan) (ht : t.length = 2) :
    validateAsChA (lan ++ t).toArray = .ok () := by
  unfold validateAsChA
  simp only [liftName, validate_prefix hl t, Out.mapErr, Out.bind_ok]
  simp [ht]

theorem soa_valid {m r t : List UInt8} (hm : NameWF m) (hr : NameWF r) (ht : t.length = 20) :
    validateAsSoa (m ++ r ++ t).toArray = .ok () := by
  unfold validateAsSoa
  have e1 : validateUncompressed (m ++ r ++ t).toArray false = .ok m.length := by
    rw [List.append_assoc]; exact validate_prefix hm _
  simp only [liftName, e1, Out.mapErr, Out.bind_ok]
  have e2 : sliceFrom (m ++ r ++ t).toArray m.length = .ok (r ++ t).toArray := by
    unfold sliceFrom
    rw [List.append_assoc, extract_suffix]
    simp
  simp only [e2, Out.bind_ok, validate_prefix hr t]
  simp; omega

theorem minfo_valid {r e : List UInt8} (hr : NameWF r) (he : NameWF e) :
    validateAsMinfo (r ++ e).toArray = .ok () := by
  unfold validateAsMinfo
  simp only [liftName, validate_prefix hr e, Out.mapErr, Out.bind_ok]
  have e2 : sliceFrom (r ++ e).toArray r.length = .ok e.toArray := by
    unfold sliceFrom
    rw [extract_suffix]
    simp
  simp only [e2, Out.bind_ok, validate_all he]

theorem mx_valid {p ex : List UInt8} (hp : p.length = 2) (hex : NameWF ex) :
    validateAsMx (p ++ ex).toArray = .ok () := by
  unfold validateAsMx
  have : (p ++ ex).toArray.extract 2 (p ++ ex).toArray.size = ex.toArray := extract_suffix' p ex 2 hp.symm
  simp only [this, liftName, validate_all hex, Out.mapErr]
  simp [hp]

theorem inSrv_valid {p t : List UInt8} (hp : p.length = 6) (ht : NameWF t) :
    validateAsInSrv (p ++ t).toArray = .ok () := by
  unfold validateAsInSrv
  have : (p ++ t).toArray.extract 6 (p ++ t).toArray.size = t.toArray := extract_suffix' p t 6 hp.symm
  simp only [this, liftName, validate_all ht, Out.mapErr]
  simp [hp]

/-- one `<character-string>` in wire form -/
def encCS (s : List UInt8) : List UInt8 := UInt8.ofNat s.length :: s

theorem ofNat_toNat_255 {n : Nat} (h : n ≤ 255) : (UInt8.ofNat n).toNat = n := by
  simp [UInt8.toNat_ofNat']; omega

theorem charString_valid {s rest : List UInt8} (hs : s.length ≤ 255) :
    validateCharacterString (encCS s ++ rest).toArray = .ok (1 + s.length) := by
  unfold validateCharacterString
  have hsz : 0 < (encCS s ++ rest).toArray.size := by simp [encCS]
  have hget : (encCS s ++ rest).toArray[0]'hsz = UInt8.ofNat s.length := by simp [encCS]
  simp only [hsz, ↓reduceDIte, hget, ofNat_toNat_255 hs]
  simp [encCS]; omega

theorem hinfo_valid {c o : List UInt8} (hc : c.length ≤ 255) (ho : o.length ≤ 255) :
    validateAsHinfo (encCS c ++ encCS o).toArray = .ok () := by
  unfold validateAsHinfo
  simp only [charString_valid hc, Out.bind_ok]
  have e2 : sliceFrom (encCS c ++ encCS o).toArray (1 + c.length) = .ok (encCS o).toArray := by
    unfold sliceFrom
    rw [extract_suffix' (encCS c) (encCS o) (1 + c.length) (by simp [encCS]; omega)]
    simp [encCS]; omega
  have e3 : validateCharacterString (encCS o).toArray = .ok (1 + o.length) := by
    have := charString_valid (rest := []) ho; simpa using this
  simp only [e2, Out.bind_ok, e3]
  simp [encCS]; omega

/-- several `<character-string>`s in wire form -/
def flatCS (es : List (List UInt8)) : List UInt8 := es.flatMap encCS

theorem txtLoop_valid (es : List (List UInt8)) (hes : ∀ e ∈ es, e.length ≤ 255) (pre : List UInt8) :
    Rdata.txtLoop (pre ++ flatCS es).toArray pre.length = .ok () := by
  induction es generalizing pre with
  | nil => rw [Rdata.txtLoop]; simp [flatCS]
  | cons e es ih =>
    have he := hes e (by simp)
    have hes' : ∀ x ∈ es, x.length ≤ 255 := fun x hx => hes x (by simp [hx])
    rw [Rdata.txtLoop]
    have hlt : pre.length < (pre ++ flatCS (e :: es)).toArray.size := by simp [flatCS, encCS]
    simp only [hlt, ↓reduceIte]
    have hex : (pre ++ flatCS (e :: es)).toArray.extract pre.length (pre ++ flatCS (e :: es)).toArray.size
        = (encCS e ++ flatCS es).toArray := by
      rw [extract_suffix]; simp [flatCS]
    rw [hex, charString_valid he]
    simp only
    have hn : ¬ (1 + e.length = 0) := by omega
    simp only [hn, ↓reduceIte]
    have := ih hes' (pre ++ encCS e)
    have e1 : pre ++ flatCS (e :: es) = pre ++ encCS e ++ flatCS es := by simp [flatCS]
    have e2 : pre.length + (1 + e.length) = (pre ++ encCS e).length := by simp [encCS]; omega
    rw [e1, e2]; exact this

theorem txt_valid {es : List (List UInt8)} (hne : es ≠ []) (hes : ∀ e ∈ es, e.length ≤ 255) :
    validateAsTxt (flatCS es).toArray = .ok () := by
  unfold validateAsTxt
  have hsz : ¬ ((flatCS es).toArray.size = 0) := by
    cases es with
    | nil => exact absurd rfl hne
    | cons e es => simp [flatCS, encCS]
  simp only [hsz, ↓reduceIte]
  have := txtLoop_valid es hes []
  simpa using this

/-! ### the validators never panic -/

theorem validateUncompressed_le {b : Bytes} {u : Bool} {n : Nat} (h : validateUncompressed b u = .ok n) :
    n ≤ b.size := by
  unfold validateUncompressed at h
  split at h
  · next off nl heq =>
    have := (uncompAux_sound b false 0 0 off nl heq).2.2.1
    split at h <;> simp at h
    omega
  · cases h
  · cases h

theorem validateUncompressed_ne_panic (b : Bytes) (u : Bool) : validateUncompressed b u ≠ .panic := by
  unfold validateUncompressed
  have := uncompAux_no_panic b 0 0
  split
  · split <;> simp
  · simp
  · contradiction

theorem liftName_validate_cases (b : Bytes) (u : Bool) :
    (∃ n, liftName (validateUncompressed b u) = .ok n ∧ n ≤ b.size) ∨
    (∃ e, liftName (validateUncompressed b u) = .err e) := by
  cases h : validateUncompressed b u with
  | ok n => exact .inl ⟨n, by simp [liftName, Out.mapErr], validateUncompressed_le h⟩
  | err e => exact .inr ⟨.InvalidName e, by simp [liftName, Out.mapErr]⟩
  | panic => exact absurd h (validateUncompressed_ne_panic b u)

theorem validateCharacterString_cases (b : Bytes) :
    (∃ n, validateCharacterString b = .ok n ∧ 0 < n ∧ n ≤ b.size) ∨ (∃ e, validateCharacterString b = .err e) := by
  unfold validateCharacterString
  split
  · split
    · exact .inl ⟨_, rfl, by omega, by omega⟩
    · exact .inr ⟨_, rfl⟩
  · exact .inr ⟨_, rfl⟩

theorem rdata_txtLoop_ne_panic (r : Bytes) (off : Nat) : Rdata.txtLoop r off ≠ .panic := by
  fun_induction Rdata.txtLoop r off
  all_goals try (simp; done)
  all_goals try assumption
  · rename_i hv
    rcases validateCharacterString_cases _ with ⟨n, h1, h2, _⟩ | ⟨e, h1⟩
    · rw [h1] at hv; cases hv; omega
    · rw [h1] at hv; cases hv
  · rename_i hv
    rcases validateCharacterString_cases _ with ⟨n, h1, _⟩ | ⟨e, h1⟩
    · rw [h1] at hv; cases hv
    · rw [h1] at hv; cases hv

/-- the validators reachable from the zone-file parser never panic -/
theorem validateHandler_ne_panic {name : String} {f : Bytes → Out RErr Unit}
    (hname : name ∈ ["validate_name", "validate_as_in_a", "validate_as_ch_a", "validate_as_soa",
      "validate_as_in_wks", "validate_as_hinfo", "validate_as_minfo", "validate_as_mx", "validate_as_txt",
      "validate_as_in_aaaa", "validate_as_in_srv", "ok"])
    (hf : validateHandler name = some f) (r : Bytes) : f r ≠ .panic := by
  simp only [List.mem_cons, List.mem_nil_iff, or_false] at hname
  rcases hname with rfl | rfl | rfl | rfl | rfl | rfl | rfl | rfl | rfl | rfl | rfl | rfl
  all_goals (simp [validateHandler] at hf; subst hf)
  · -- validate_name
    unfold validateName
    rcases liftName_validate_cases r true with ⟨n, h, _⟩ | ⟨e, h⟩ <;> simp [h]
  · unfold validateAsInA; split <;> simp
  · unfold validateAsChA
    rcases liftName_validate_cases r false with ⟨n, h, _⟩ | ⟨e, h⟩ <;> simp [h]
    split <;> simp
  · unfold validateAsSoa
    rcases liftName_validate_cases r false with ⟨n, h, hn⟩ | ⟨e, h⟩ <;> simp [h]
    simp [sliceFrom, hn]
    rcases liftName_validate_cases (r.extract n r.size) false with ⟨m, h2, _⟩ | ⟨e, h2⟩ <;> simp [h2]
    split <;> simp
  · unfold validateAsInWks; split <;> simp
  · unfold validateAsHinfo
    rcases validateCharacterString_cases r with ⟨n, h, _, hn⟩ | ⟨e, h⟩ <;> simp [h]
    simp [sliceFrom, hn]
    rcases validateCharacterString_cases (r.extract n r.size) with ⟨m, h2, _⟩ | ⟨e, h2⟩ <;> simp [h2]
    split <;> simp
  · unfold validateAsMinfo
    rcases liftName_validate_cases r false with ⟨n, h, hn⟩ | ⟨e, h⟩ <;> simp [h]
    simp [sliceFrom, hn]
    rcases liftName_validate_cases (r.extract n r.size) true with ⟨m, h2, _⟩ | ⟨e, h2⟩ <;> simp [h2]
  · unfold validateAsMx
    split
    · rcases liftName_validate_cases (r.extract 2 r.size) true with ⟨m, h2, _⟩ | ⟨e, h2⟩ <;> simp [h2]
    · simp
  · unfold validateAsTxt
    split
    · simp
    · exact rdata_txtLoop_ne_panic r 0
  · unfold validateAsInAaaa; split <;> simp
  · unfold validateAsInSrv
    split
    · rcases liftName_validate_cases (r.extract 6 r.size) true with ⟨m, h2, _⟩ | ⟨e, h2⟩ <;> simp [h2]
    · simp
  · simp

end QV.ZF
