/-
  QV.Proofs.ZoneFile.RoundTrip — per-field round trips for C23: what the parser reads back from
  the presentation forms of QV.Spec.ZoneFile.
-/
import QV.Proofs.ZoneFile.Parser
import QV.Spec.ZoneFile

namespace QV.ZF
open QV QV.Spec.ZF

/-! ### integers -/

theorem digit_octet {d : Nat} (hd : d < 10) :
    isDigit (digitOctet d) = true ∧ (digitOctet d).toNat = 48 + d := by
  have : (digitOctet d).toNat = 48 + d := by unfold digitOctet; simp [UInt8.toNat_ofNat']; omega
  refine ⟨?_, this⟩
  unfold isDigit
  simp only [UInt8.le_iff_toNat_le, this, Bool.and_eq_true, decide_eq_true_eq]
  exact ⟨by decide +revert, by have : (57 : UInt8).toNat = 57 := rfl; omega⟩

theorem digitsVal_append_digit (max : Nat) (l : List UInt8) (d : Nat) (hd : d < 10) (acc : Nat) :
    digitsVal max (l ++ [digitOctet d]) acc =
      (digitsVal max l acc).bind (fun v => if v * 10 + d > max then none else some (v * 10 + d)) := by
  induction l generalizing acc with
  | nil =>
    have ⟨h1, h2⟩ := digit_octet hd
    simp [digitsVal, h1, h2]
  | cons c rest ih =>
    simp only [List.cons_append, digitsVal]
    split
    · split
      · simp
      · exact ih _
    · simp

theorem decimal_digits (n : Nat) : ∀ c ∈ decimal n, isDigit c = true := by
  fun_induction decimal n
  case case1 n h => intro c hc; simp at hc; subst hc; exact (digit_octet h).1
  case case2 n h ih =>
    intro c hc
    simp at hc
    rcases hc with hc | hc
    · exact ih c hc
    · subst hc; exact (digit_octet (Nat.mod_lt _ (by omega))).1

theorem decimal_ne_nil (n : Nat) : decimal n ≠ [] := by
  rw [decimal]; split <;> simp

theorem digitsVal_decimal (max n : Nat) (h : n ≤ max) : digitsVal max (decimal n) 0 = some n := by
  fun_induction decimal n
  case case1 n hn =>
    have ⟨h1, h2⟩ := digit_octet hn
    simp [digitsVal, h1, h2]
    omega
  case case2 n hn ih =>
    rw [digitsVal_append_digit _ _ _ (Nat.mod_lt _ (by omega)), ih (by omega)]
    simp
    have := Nat.div_add_mod n 10
    constructor <;> omega

/-- **Integer fields**: the decimal form of `n ≤ max` parses to `n` (`u8/u16/u32::from_str`) -/
theorem parseUInt_decimal (max n : Nat) (h : n ≤ max) : parseUInt max (decimal n) = some n := by
  have hd := decimal_digits n
  have hv := digitsVal_decimal max n h
  cases hl : decimal n with
  | nil => exact absurd hl (decimal_ne_nil n)
  | cons c rest =>
    rw [hl] at hd hv
    have hc : isDigit c = true := hd c (by simp)
    have hne : (c == 43) = false ∧ (c == 45) = false := by
      unfold isDigit at hc
      simp [UInt8.le_iff_toNat_le] at hc
      constructor <;> (simp; intro h; subst h; simp at hc)
    unfold parseUInt
    cases rest with
    | nil => simp [hne.1, hne.2]; exact hv
    | cons c2 r2 => simp [hne.1]; exact hv

/-! ### escapes -/

theorem digit_not_10 {d : Nat} (hd : d < 10) : (digitOctet d == 10) = false := by
  have := (digit_octet hd).2
  cases h : (digitOctet d == 10)
  · rfl
  · simp at h; rw [h] at this; simp at this; omega

/-- `\X` for a non-digit octet reads back as `X` (a newline written this way is counted) -/
theorem parseEscapeL_esc (b : UInt8) (rest : List UInt8) (line : Nat) (hb : isDigit b = false) :
    parseEscapeL (b :: rest) line = .ok (b, rest, if b == 10 then line + 1 else line) := by
  simp [parseEscapeL, hb]

/-- `\DDD` reads back as the octet with that decimal value -/
theorem parseEscapeL_dec (b : UInt8) (rest : List UInt8) (line : Nat) :
    parseEscapeL (digitOctet (b.toNat / 100) :: digitOctet (b.toNat / 10 % 10) :: digitOctet (b.toNat % 10) :: rest) line
      = .ok (b, rest, line) := by
  have hb : b.toNat < 256 := b.toNat_lt
  have h1 := digit_octet (d := b.toNat / 100) (by omega)
  have h2 := digit_octet (d := b.toNat / 10 % 10) (by omega)
  have h3 := digit_octet (d := b.toNat % 10) (by omega)
  unfold parseEscapeL
  simp only [h1.1, h2.1, h3.1, h1.2, h2.2, h3.2, ↓reduceIte, Bool.and_self, Bool.not_true, Bool.false_eq_true]
  have e : 100 * (48 + b.toNat / 100 - 48) + 10 * (48 + b.toNat / 10 % 10 - 48) + (48 + b.toNat % 10 - 48) = b.toNat := by
    omega
  simp only [e]
  have : ¬ (b.toNat > 255) := by omega
  simp [this]

theorem isDigit_eq (b : UInt8) : isDigit b = isDigitOctet b := rfl

/-! ### names -/

theorem atFieldEnd_plain {c : UInt8} (r : List UInt8) (hc : special c = false) : atFieldEnd (c :: r) = false := by
  simp only [special, Bool.or_eq_false_iff] at hc
  obtain ⟨⟨⟨⟨⟨⟨⟨h32, h9⟩, h40⟩, h41⟩, h59⟩, h10⟩, h13⟩, h92⟩ := hc
  simp [atFieldEnd, eolLen, endsField, isWs, h32, h9, h40, h41, h59, h10, h13]

theorem atFieldEnd_backslash (r : List UInt8) : atFieldEnd (92 :: r) = false := by
  simp [atFieldEnd, eolLen, endsField, isWs]

/-- the line after reading an octet written in the given form -/
def lineAfter (line : Nat) (b : UInt8) (f : OctetForm) : Nat :=
  if f = .esc ∧ b = 10 then line + 1 else line

/-- one octet of a label, in any admissible form, is pushed onto the builder -/
theorem nameLoop_octet (origin : Option (List UInt8)) (nl : Nat) (b : UInt8) (f : OctetForm)
    (hf : nameFormOK b f = true) (rest : List UInt8) (line ll : Nat) (paren : Bool) (bld bld' : Builder)
    (hpush : bld.tryPush b = .ok bld') :
    nameLoop origin nl (renderOctet b f ++ rest) line ll paren bld =
      nameLoop origin nl rest (lineAfter line b f) ll paren bld' := by
  cases f with
  | raw =>
    simp only [nameFormOK, Bool.and_eq_true, Bool.not_eq_true', bne_iff_ne, ne_eq] at hf
    have hs : special b = false := hf.1
    have h92 : (b == 92) = false := by
      simp only [special, Bool.or_eq_false_iff] at hs; exact hs.2
    have h46 : (b == 46) = false := by simpa using hf.2
    rw [renderOctet, List.singleton_append, nameLoop.eq_def]
    simp [atFieldEnd_plain rest hs, h92, h46, hpush, lineAfter]
  | esc =>
    simp only [nameFormOK, Bool.not_eq_true'] at hf
    rw [renderOctet, nameLoop.eq_def]
    simp only [List.cons_append, List.nil_append, atFieldEnd_backslash, Bool.false_eq_true, ↓reduceIte,
      beq_self_eq_true]
    rw [parseEscapeL_esc b rest line (by rw [isDigit_eq]; exact hf)]
    simp only [hpush, lineAfter, true_and]
    congr 1
    simp
  | dec =>
    rw [renderOctet, nameLoop.eq_def]
    simp only [List.cons_append, List.nil_append, atFieldEnd_backslash, Bool.false_eq_true, ↓reduceIte,
      beq_self_eq_true]
    rw [parseEscapeL_dec b rest line]
    simp [hpush, lineAfter]

/-- newlines written as `\` + newline inside a label: the reader counts them -/
def escNewlines (l : PLabel) : Nat := (l.filter fun x => x.2 = .esc ∧ x.1 = 10).length

theorem tryPush_ok_of_room (bld : Builder) (b : UInt8) (h1 : bld.cur.length < 63) (h2 : bld.wireLen < 255) :
    bld.tryPush b = .ok { bld with cur := bld.cur ++ [b] } := by
  unfold Builder.tryPush
  have e1 : ¬ (bld.cur.length ≥ Gen.MAX_LABEL_LEN) := by simp [Gen.MAX_LABEL_LEN]; omega
  have e2 : ¬ (bld.wireLen ≥ Gen.MAX_WIRE_LEN) := by simp [Gen.MAX_WIRE_LEN]; omega
  simp [e1, e2]

/-- a whole label, octet by octet -/
theorem nameLoop_label (origin : Option (List UInt8)) (nl : Nat) (l : PLabel)
    (hl : ∀ x ∈ l, nameFormOK x.1 x.2 = true) (rest : List UInt8) (line ll : Nat) (paren : Bool)
    (bld : Builder) (h1 : bld.cur.length + l.length ≤ 63) (h2 : bld.wireLen + l.length ≤ 255) :
    nameLoop origin nl (renderLabel l ++ rest) line ll paren bld =
      nameLoop origin nl rest (line + escNewlines l) ll paren { bld with cur := bld.cur ++ labelOctets l } := by
  induction l generalizing bld line with
  | nil => simp [renderLabel, escNewlines, labelOctets]
  | cons x l ih =>
    have hx := hl x (by simp)
    have hl' : ∀ y ∈ l, nameFormOK y.1 y.2 = true := fun y hy => hl y (by simp [hy])
    simp only [List.length_cons] at h1 h2
    have e : renderLabel (x :: l) ++ rest = renderOctet x.1 x.2 ++ (renderLabel l ++ rest) := by
      simp [renderLabel]
    rw [e, nameLoop_octet origin nl x.1 x.2 hx _ line ll paren bld _
      (tryPush_ok_of_room bld x.1 (by omega) (by omega))]
    rw [ih hl' _ { bld with cur := bld.cur ++ [x.1] } (by simp; omega) (by simp [Builder.wireLen] at h2 ⊢; omega)]
    congr 1
    · by_cases hc : x.2 = .esc ∧ x.1 = 10
      · simp [lineAfter, escNewlines, List.filter_cons, hc]; omega
      · simp [lineAfter, escNewlines, List.filter_cons, hc]
    · simp [labelOctets]

/-- the dot that ends a label -/
theorem nameLoop_dot (origin : Option (List UInt8)) (nl : Nat) (rest : List UInt8) (line ll : Nat)
    (paren : Bool) (bld : Builder) (hne : bld.cur ≠ []) (hw : bld.wireLen < 255) (hnl : bld.nl < 128) :
    nameLoop origin nl (46 :: rest) line ll paren bld =
      nameLoop origin nl rest line line paren
        ⟨bld.done ++ UInt8.ofNat bld.cur.length :: bld.cur, [], bld.nl + 1⟩ := by
  rw [nameLoop.eq_def]
  have hfe : atFieldEnd (46 :: rest) = false := atFieldEnd_plain rest (by decide)
  have hnext : bld.nextLabel = .ok ⟨bld.done ++ UInt8.ofNat bld.cur.length :: bld.cur, [], bld.nl + 1⟩ := by
    unfold Builder.nextLabel
    have e0 : bld.cur.isEmpty = false := by cases h : bld.cur <;> simp_all
    have e1 : ¬ (bld.wireLen ≥ Gen.MAX_WIRE_LEN) := by simp [Gen.MAX_WIRE_LEN]; omega
    have e2 : ¬ (bld.nl ≥ Gen.MAX_N_LABELS) := by simp [Gen.MAX_N_LABELS]; omega
    simp [e0, e1, e2]
  simp [hfe, hnext]

theorem labelOctets_length (l : PLabel) : (labelOctets l).length = l.length := by simp [labelOctets]

def nameNewlines (ls : List PLabel) : Nat := (ls.map escNewlines).sum

/-- **Absolute names**: labels written in any mix of raw / `\X` / `\DDD` forms, each followed by
    a dot, up to a field end, read back as the wire-form name with exactly those labels. -/
theorem nameLoop_abs (origin : Option (List UInt8)) (nl : Nat) (ls : List PLabel)
    (hforms : ∀ l ∈ ls, ∀ x ∈ l, nameFormOK x.1 x.2 = true)
    (rest : List UInt8) (hrest : atFieldEnd rest = true) (paren : Bool)
    (donels : List (List UInt8)) (line ll : Nat)
    (hLs : LabelsOK (donels ++ ls.map labelOctets))
    (htotal : (flatLabels (donels ++ ls.map labelOctets)).length + 1 ≤ 255) :
    nameLoop origin nl ((ls.flatMap fun l => renderLabel l ++ [46]) ++ rest) line ll paren
        ⟨flatLabels donels, [], donels.length + 1⟩ =
      .ok (flatLabels (donels ++ ls.map labelOctets) ++ [0], ⟨rest, line + nameNewlines ls, paren⟩) := by
  induction ls generalizing donels line ll with
  | nil =>
    rw [nameLoop.eq_def]
    simp [hrest, Builder.finish, nameNewlines]
  | cons l ls ih =>
    have hl := hforms l (by simp)
    have hforms' : ∀ l' ∈ ls, ∀ x ∈ l', nameFormOK x.1 x.2 = true := fun l' h' => hforms l' (by simp [h'])
    have hlok := hLs (labelOctets l) (by simp)
    rw [labelOctets_length] at hlok
    have hge := flatLabels_length_ge hLs
    have hcount : (donels ++ (l :: ls).map labelOctets).length = donels.length + 1 + ls.length := by
      simp; omega
    rw [hcount] at hge
    have hsplit : flatLabels (donels ++ (l :: ls).map labelOctets) =
        flatLabels donels ++ (UInt8.ofNat l.length :: labelOctets l) ++ flatLabels (ls.map labelOctets) := by
      simp [flatLabels, encLabel, labelOctets_length]
    have hlen : (flatLabels donels).length + 1 + l.length + (flatLabels (ls.map labelOctets)).length + 1 ≤ 255 := by
      rw [hsplit] at htotal; simp [labelOctets_length] at htotal; omega
    have e : ((l :: ls).flatMap fun l => renderLabel l ++ [46]) ++ rest =
        renderLabel l ++ (46 :: ((ls.flatMap fun l => renderLabel l ++ [46]) ++ rest)) := by simp
    rw [e, nameLoop_label origin nl l hl _ line ll paren _ (by simp; omega)
      (by simp [Builder.wireLen]; omega)]
    simp only [List.nil_append]
    rw [nameLoop_dot origin nl _ _ ll paren _ (by
        have := hlok.1
        intro h; simp [labelOctets] at h; subst h; simp at this)
      (by simp [Builder.wireLen, labelOctets_length]; omega)
      (by simp only; omega)]
    have hd : flatLabels donels ++ UInt8.ofNat (labelOctets l).length :: labelOctets l =
        flatLabels (donels ++ [labelOctets l]) := by simp [flatLabels, encLabel]
    simp only [hd]
    have := ih hforms' (donels ++ [labelOctets l]) (line + escNewlines l) (line + escNewlines l)
      (by simpa using hLs) (by simpa using htotal)
    simp only [List.length_append, List.length_singleton] at this
    rw [this]
    simp [nameNewlines]
    omega

/-! ### `parse_name` on absolute names -/

/-- the first octet of a rendered non-empty label is a plain octet or a backslash: never `.`,
    and if it is `@` then something that is not a field end follows (inside an absolute name) -/
theorem renderLabel_head {l : PLabel} (hne : l ≠ []) (hl : ∀ x ∈ l, nameFormOK x.1 x.2 = true) :
    ∃ c t, renderLabel l = c :: t ∧ (c == 46) = false ∧ (c = 92 ∨ special c = false) := by
  cases l with
  | nil => exact absurd rfl hne
  | cons x l' =>
    have hx := hl x (by simp)
    obtain ⟨b, f⟩ := x
    cases f with
    | raw =>
      simp only [nameFormOK, Bool.and_eq_true, Bool.not_eq_true', bne_iff_ne, ne_eq] at hx
      exact ⟨b, renderLabel l', by simp [renderLabel, renderOctet], by simpa using hx.2, .inr hx.1⟩
    | esc => exact ⟨92, b :: renderLabel l', by simp [renderLabel, renderOctet], by decide, .inl rfl⟩
    | dec => exact ⟨92, _, by simp [renderLabel, renderOctet]; rfl, by decide, .inl rfl⟩

theorem atFieldEnd_of_head {c : UInt8} (t : List UInt8) (h : c = 92 ∨ special c = false) :
    atFieldEnd (c :: t) = false := by
  rcases h with rfl | h
  · exact atFieldEnd_backslash t
  · exact atFieldEnd_plain t h

theorem expectField_fail_of_not_end (f : List UInt8) (st : St) (h : atFieldEnd (st.inp.drop f.length) = false) :
    expectField f st = (false, st) := by
  unfold expectField expectFieldImpl
  split
  · rfl
  · simp [h]

theorem expectField_fail_of_head {f0 : UInt8} (st : St) {c : UInt8} {t : List UInt8} (hinp : st.inp = c :: t)
    (hc : (c == f0) = false) : expectField [f0] st = (false, st) := by
  unfold expectField expectFieldImpl
  simp [hinp, hc]

theorem notEnd_label_then_dot (l : PLabel) (hl : ∀ x ∈ l, nameFormOK x.1 x.2 = true) (tail : List UInt8) :
    atFieldEnd (renderLabel l ++ 46 :: tail) = false := by
  cases l with
  | nil => exact atFieldEnd_plain _ (by decide)
  | cons x l' =>
    obtain ⟨c, t, hct, _, hend⟩ := renderLabel_head (l := x :: l') (by simp) hl
    rw [hct]; exact atFieldEnd_of_head _ hend

/-- **Absolute names through `parse_name`**: the text of an absolute name with at least one
    label, in any admissible mix of forms, followed by a field end, parses to its wire form
    (whatever the origin is), consuming exactly the name and counting escaped newlines. -/
theorem parseName_abs (origin : Option (List UInt8)) (ls : List PLabel) (hne : ls ≠ [])
    (hforms : ∀ l ∈ ls, ∀ x ∈ l, nameFormOK x.1 x.2 = true)
    (hLs : LabelsOK (ls.map labelOctets))
    (htotal : (flatLabels (ls.map labelOctets)).length + 1 ≤ 255)
    (rest : List UInt8) (hrest : atFieldEnd rest = true) (line : Nat) (paren : Bool) :
    parseName origin ⟨renderAbsName ls ++ rest, line, paren⟩ =
      .ok (wireName (ls.map labelOctets), ⟨rest, line + nameNewlines ls, paren⟩) := by
  cases ls with
  | nil => exact absurd rfl hne
  | cons l ls' =>
    have hlne : l ≠ [] := by
      have := (hLs (labelOctets l) (by simp)).1
      intro h; subst h; simp [labelOctets] at this
    have hfl := hforms l (by simp)
    let tail := (ls'.flatMap fun l => renderLabel l ++ [46]) ++ rest
    have htext : renderAbsName (l :: ls') ++ rest = renderLabel l ++ 46 :: tail := by
      simp [renderAbsName, tail]
    -- neither `@` nor `.` alone
    have hat : expectField [64] ⟨renderAbsName (l :: ls') ++ rest, line, paren⟩ =
        (false, ⟨renderAbsName (l :: ls') ++ rest, line, paren⟩) := by
      rw [htext]
      cases l with
      | nil => exact absurd rfl hlne
      | cons x l' =>
        obtain ⟨b, f⟩ := x
        have hl' : ∀ y ∈ l', nameFormOK y.1 y.2 = true := fun y hy => hfl y (by simp [hy])
        cases f with
        | raw =>
          by_cases hb : (b == 64) = true
          · apply expectField_fail_of_not_end
            simp only [renderLabel, List.flatMap_cons, renderOctet, List.singleton_append, List.cons_append,
              List.length_singleton, List.drop_succ_cons, List.drop_zero]
            exact notEnd_label_then_dot l' hl' tail
          · exact expectField_fail_of_head _ (c := b) rfl (by simpa using hb)
        | esc => exact expectField_fail_of_head _ (c := 92) rfl (by decide)
        | dec => exact expectField_fail_of_head _ (c := 92) rfl (by decide)
    have hdot : expectField [46] ⟨renderAbsName (l :: ls') ++ rest, line, paren⟩ =
        (false, ⟨renderAbsName (l :: ls') ++ rest, line, paren⟩) := by
      rw [htext]
      obtain ⟨c, t, hct, hc46, _⟩ := renderLabel_head hlne hfl
      rw [hct]
      exact expectField_fail_of_head _ (c := c) rfl hc46
    unfold parseName
    simp only [hat, hdot, Bool.false_eq_true, ↓reduceIte]
    have := nameLoop_abs origin line (l :: ls') hforms rest hrest paren [] line line
      (by simpa using hLs) (by simpa using htotal)
    simp only [flatLabels, List.flatMap_nil, List.length_nil, Nat.zero_add, List.nil_append] at this
    simp only [renderAbsName, List.isEmpty_cons, Bool.false_eq_true, ↓reduceIte, Builder.new]
    rw [this]
    simp [wireName, flatLabels, encLabel]
    rfl

/-! ### plain fields (numbers, `CLASSnnn`, `TYPEnnn`) through `read_field` -/

/-- octets that may appear raw in a `read_field` field: not special, 7-bit -/
def plainOctet (c : UInt8) : Bool := !special c && c < 0x80

theorem fieldLen_plain (f rest : List UInt8) (hf : ∀ c ∈ f, plainOctet c = true)
    (hrest : atFieldEnd rest = true) : fieldLen (f ++ rest) = f.length := by
  induction f with
  | nil => simpa using fieldLen_zero hrest
  | cons c f ih =>
    have hc := hf c (by simp)
    simp only [plainOctet, Bool.and_eq_true, Bool.not_eq_true'] at hc
    simp only [List.cons_append, fieldLen, atFieldEnd_plain _ hc.1, Bool.false_eq_true, ↓reduceIte,
      List.length_cons]
    rw [ih (fun x hx => hf x (by simp [hx]))]

theorem utf8Valid_ascii (f : List UInt8) (hf : ∀ c ∈ f, plainOctet c = true) : utf8Valid f = true := by
  induction f with
  | nil => simp [utf8Valid]
  | cons c f ih =>
    have hc := hf c (by simp)
    simp only [plainOctet, Bool.and_eq_true, decide_eq_true_eq] at hc
    have hlt : c < 0x80 := hc.2
    unfold utf8Valid
    simp only [hlt, ↓reduceIte]
    exact ih (fun x hx => hf x (by simp [hx]))

/-- **`read_field`** on a plain field followed by a field end: the field is parsed as a whole and
    consumed -/
theorem readField_plain {α} (parse : List UInt8 → Option α) (k : Kind) (f rest : List UInt8) (v : α)
    (hf : ∀ c ∈ f, plainOctet c = true) (hlen : f.length ≤ 65536) (hrest : atFieldEnd rest = true)
    (hp : parse f = some v) (line : Nat) (paren : Bool) :
    readField parse k ⟨f ++ rest, line, paren⟩ = .ok (v, ⟨rest, line, paren⟩) := by
  unfold readField
  simp only [fieldLen_plain f rest hf hrest, Gen.MAX_READ_FIELD_SIZE]
  have : ¬ (f.length > 65536) := by omega
  simp [this, utf8Valid_ascii f hf, hp]

theorem digit_plain {c : UInt8} (h : isDigit c = true) : plainOctet c = true := by
  unfold isDigit at h
  simp only [Bool.and_eq_true, decide_eq_true_eq, UInt8.le_iff_toNat_le] at h
  have h1 : (48 : UInt8).toNat = 48 := rfl
  have h2 : (57 : UInt8).toNat = 57 := rfl
  rw [h1, h2] at h
  have hb : c = UInt8.ofNat c.toNat := by simp
  have : ∀ n, 48 ≤ n → n ≤ 57 → plainOctet (UInt8.ofNat n) = true := by
    intro n h48 h57
    have : n = 48 ∨ n = 49 ∨ n = 50 ∨ n = 51 ∨ n = 52 ∨ n = 53 ∨ n = 54 ∨ n = 55 ∨ n = 56 ∨ n = 57 := by omega
    rcases this with rfl | rfl | rfl | rfl | rfl | rfl | rfl | rfl | rfl | rfl <;> decide
  rw [hb]; exact this _ h.1 h.2

theorem decimal_plain (n : Nat) : ∀ c ∈ decimal n, plainOctet c = true :=
  fun c hc => digit_plain (decimal_digits n c hc)

theorem decimal_length_le (n : Nat) (h : n < 10 ^ 10) : (decimal n).length ≤ 10 := by
  have : ∀ k n, n < 10 ^ (k + 1) → (decimal n).length ≤ k + 1 := by
    intro k
    induction k with
    | zero => intro n hn; rw [decimal]; simp at hn; simp [hn]
    | succ k ih =>
      intro n hn
      rw [decimal]
      split
      · simp
      · have := ih (n / 10) (by rw [Nat.pow_succ] at hn; omega)
        simp; omega
  exact this 9 n h

/-- **Integer fields through `read_field`**: `decimal n` for `n ≤ max` reads back as `n` -/
theorem readField_decimal (max n : Nat) (hn : n ≤ max) (hmax : max < 10 ^ 10) (k : Kind)
    (rest : List UInt8) (hrest : atFieldEnd rest = true) (line : Nat) (paren : Bool) :
    readField (parseUInt max) k ⟨decimal n ++ rest, line, paren⟩ = .ok (n, ⟨rest, line, paren⟩) :=
  readField_plain _ k _ rest n (decimal_plain n)
    (by have := decimal_length_le n (by omega); omega) hrest (parseUInt_decimal max n hn) line paren

/-! ### `CLASSnnn` and `TYPEnnn` -/

theorem upperU8_digit {c : UInt8} (h : isDigit c = true) : upperU8 c = c := by
  unfold isDigit at h
  simp only [Bool.and_eq_true, decide_eq_true_eq, UInt8.le_iff_toNat_le] at h
  have h2 : (57 : UInt8).toNat = 57 := rfl
  rw [h2] at h
  unfold upperU8
  have : ¬ (97 ≤ c.toNat ∧ c.toNat ≤ 122) := by omega
  simp [this]

theorem map_upper_digits (ds : List UInt8) (h : ∀ c ∈ ds, isDigit c = true) : ds.map upperU8 = ds := by
  induction ds with
  | nil => rfl
  | cons c ds ih => simp [upperU8_digit (h c (by simp)), ih (fun x hx => h x (by simp [hx]))]

/-- no mnemonic of the table starts with the prefix: the table arms do not fire -/
theorem lookupCaseless_none (tbl : List (String × Nat)) (p ds : List UInt8)
    (hrows : tbl.all (fun r => !(r.1.toUTF8.toList.take p.length == p)) = true)
    (hp : p.map upperU8 = p) (hds : ∀ c ∈ ds, isDigit c = true) :
    lookupCaseless tbl (p ++ ds) = none := by
  unfold lookupCaseless
  have : tbl.find? (fun row => row.1.toUTF8.toList == (p ++ ds).map upperU8) = none := by
    rw [List.find?_eq_none]
    intro row hrow
    rw [List.all_eq_true] at hrows
    have := hrows row hrow
    simp only [Bool.not_eq_true', beq_eq_false_iff_ne, ne_eq] at this
    simp only [List.map_append, hp, map_upper_digits ds hds, beq_iff_eq]
    intro heq
    apply this
    rw [heq]; simp
  rw [this]

theorem parseCode_prefixed (tbl : List (String × Nat)) (pfx : String) (p : List UInt8)
    (hpfx : pfx.toUTF8.toList = p)
    (hrows : tbl.all (fun r => !(r.1.toUTF8.toList.take p.length == p)) = true)
    (hp : p.map upperU8 = p) (n : Nat) (hn : n ≤ 65535) :
    parseCode tbl pfx (p ++ decimal n) = some n := by
  unfold parseCode
  rw [lookupCaseless_none tbl p (decimal n) hrows hp (decimal_digits n), hpfx]
  simp [eqIgnoreCase, parseU16, parseUInt_decimal 65535 n hn]

/-- **`CLASSnnn`** reads back as class `nnn` -/
theorem parseClass_render (n : Nat) (hn : n ≤ 65535) : parseClass (renderClass n) = some n :=
  parseCode_prefixed Gen.classParse Gen.classDisplayPrefix [67, 76, 65, 83, 83] (by decide +kernel)
    (by decide +kernel) (by decide) n hn

/-- **`TYPEnnn`** reads back as type `nnn` -/
theorem parseType_render (n : Nat) (hn : n ≤ 65535) : parseType (renderType n) = some n :=
  parseCode_prefixed Gen.typeParse Gen.typeDisplayPrefix [84, 89, 80, 69] (by decide +kernel)
    (by decide +kernel) (by decide) n hn

/-- a field starting with a letter is not an integer -/
theorem parseUInt_letter (max : Nat) (c : UInt8) (rest : List UInt8) (hc : isDigit c = false)
    (h43 : (c == 43) = false) : parseUInt max (c :: rest) = none := by
  unfold parseUInt
  cases rest with
  | nil => simp [digitsVal, hc]
  | cons c2 r => simp [h43, digitsVal, hc]

/-- `TYPEnnn` is not a class -/
theorem parseClass_type (n : Nat) : parseClass (renderType n) = none := by
  unfold parseClass parseCode renderType
  rw [lookupCaseless_none Gen.classParse [84, 89, 80, 69] (decimal n) (by decide +kernel) (by decide)
    (decimal_digits n)]
  have hpfx : Gen.classDisplayPrefix.toUTF8.toList = [67, 76, 65, 83, 83] := by decide +kernel
  rw [hpfx]
  cases hd : decimal n with
  | nil => exact absurd hd (decimal_ne_nil n)
  | cons d ds => simp [eqIgnoreCase, lowerU8]

/-! ### relative names and `@` -/

/-- labels each followed by a dot, then anything: the builder holds the labels -/
theorem nameLoop_dotted (origin : Option (List UInt8)) (nl : Nat) (ls : List PLabel)
    (hforms : ∀ l ∈ ls, ∀ x ∈ l, nameFormOK x.1 x.2 = true)
    (rest : List UInt8) (paren : Bool) (donels : List (List UInt8)) (line ll : Nat)
    (hLs : LabelsOK (donels ++ ls.map labelOctets))
    (htotal : (flatLabels (donels ++ ls.map labelOctets)).length + 1 ≤ 255) :
    ∃ ll', nameLoop origin nl ((ls.flatMap fun l => renderLabel l ++ [46]) ++ rest) line ll paren
        ⟨flatLabels donels, [], donels.length + 1⟩ =
      nameLoop origin nl rest (line + nameNewlines ls) ll' paren
        ⟨flatLabels (donels ++ ls.map labelOctets), [], (donels ++ ls.map labelOctets).length + 1⟩ := by
  induction ls generalizing donels line ll with
  | nil => exact ⟨ll, by simp [nameNewlines]⟩
  | cons l ls ih =>
    have hl := hforms l (by simp)
    have hforms' : ∀ l' ∈ ls, ∀ x ∈ l', nameFormOK x.1 x.2 = true := fun l' h' => hforms l' (by simp [h'])
    have hlok := hLs (labelOctets l) (by simp)
    rw [labelOctets_length] at hlok
    have hge := flatLabels_length_ge hLs
    have hcount : (donels ++ (l :: ls).map labelOctets).length = donels.length + 1 + ls.length := by
      simp; omega
    rw [hcount] at hge
    have hsplit : flatLabels (donels ++ (l :: ls).map labelOctets) =
        flatLabels donels ++ (UInt8.ofNat l.length :: labelOctets l) ++ flatLabels (ls.map labelOctets) := by
      simp [flatLabels, encLabel, labelOctets_length]
    have hlen : (flatLabels donels).length + 1 + l.length + (flatLabels (ls.map labelOctets)).length + 1 ≤ 255 := by
      rw [hsplit] at htotal; simp [labelOctets_length] at htotal; omega
    have e : ((l :: ls).flatMap fun l => renderLabel l ++ [46]) ++ rest =
        renderLabel l ++ (46 :: ((ls.flatMap fun l => renderLabel l ++ [46]) ++ rest)) := by simp
    rw [e, nameLoop_label origin nl l hl _ line ll paren _ (by simp; omega)
      (by simp [Builder.wireLen]; omega)]
    simp only [List.nil_append]
    rw [nameLoop_dot origin nl _ _ ll paren _ (by
        have := hlok.1
        intro h; simp [labelOctets] at h; subst h; simp at this)
      (by simp [Builder.wireLen, labelOctets_length]; omega)
      (by simp only; omega)]
    have hd : flatLabels donels ++ UInt8.ofNat (labelOctets l).length :: labelOctets l =
        flatLabels (donels ++ [labelOctets l]) := by simp [flatLabels, encLabel]
    simp only [hd]
    obtain ⟨ll', h'⟩ := ih hforms' (donels ++ [labelOctets l]) (line + escNewlines l) (line + escNewlines l)
      (by simpa using hLs) (by simpa using htotal)
    simp only [List.length_append, List.length_singleton] at h'
    refine ⟨ll', ?_⟩
    rw [h']
    have e1 : line + escNewlines l + nameNewlines ls = line + nameNewlines (l :: ls) := by
      simp [nameNewlines]; omega
    have e2 : donels ++ [labelOctets l] ++ ls.map labelOctets = donels ++ (l :: ls).map labelOctets := by simp
    rw [e1, e2]
    have e3 : donels.length + 1 + (ls.map labelOctets).length + 1 = (donels ++ (l :: ls).map labelOctets).length + 1 := by
      simp; omega
    rw [e3]

theorem nameNewlines_snoc (ls : List PLabel) (l : PLabel) :
    nameNewlines (ls ++ [l]) = nameNewlines ls + escNewlines l := by
  simp [nameNewlines]

theorem renderLabels_snoc (ls : List PLabel) (l : PLabel) :
    renderLabels (ls ++ [l]) = (ls.flatMap fun x => renderLabel x ++ [46]) ++ renderLabel l := by
  induction ls with
  | nil => simp [renderLabels]
  | cons x ls ih =>
    cases hls : ls ++ [l] with
    | nil => simp at hls
    | cons y ys =>
      simp only [List.cons_append, hls, renderLabels]
      rw [← hls, ih]
      simp

/-- **Relative names**: labels separated by dots (no trailing dot), followed by a field end, are
    completed with the origin -/
theorem nameLoop_rel (o : List UInt8) (nl : Nat) (ls : List PLabel) (l : PLabel)
    (hforms : ∀ l' ∈ ls ++ [l], ∀ x ∈ l', nameFormOK x.1 x.2 = true)
    (rest : List UInt8) (hrest : atFieldEnd rest = true) (paren : Bool) (line : Nat)
    (hLs : LabelsOK ((ls ++ [l]).map labelOctets)) (ho : NameWF o)
    (htotal : (flatLabels ((ls ++ [l]).map labelOctets)).length + o.length ≤ 255) :
    nameLoop (some o) nl (renderLabels (ls ++ [l]) ++ rest) line line paren Builder.new =
      .ok (flatLabels ((ls ++ [l]).map labelOctets) ++ o,
           ⟨rest, line + nameNewlines (ls ++ [l]), paren⟩) := by
  have hol : 1 ≤ o.length := by
    obtain ⟨lo, _, rfl, _⟩ := ho; simp [encodeName]
  have hsplitAll : flatLabels ((ls ++ [l]).map labelOctets) =
      flatLabels (ls.map labelOctets) ++ (UInt8.ofNat l.length :: labelOctets l) := by
    simp [flatLabels, encLabel, labelOctets_length]
  have hLs' : LabelsOK ([] ++ ls.map labelOctets) := fun x hx => hLs x (by simp at hx ⊢; exact .inl hx)
  have hlok := hLs (labelOctets l) (by simp)
  rw [labelOctets_length] at hlok
  have hlenAll : (flatLabels (ls.map labelOctets)).length + 1 + l.length + o.length ≤ 255 := by
    rw [hsplitAll] at htotal; simp [labelOctets_length] at htotal; omega
  obtain ⟨ll', hd⟩ := nameLoop_dotted (some o) nl ls (fun l' h' => hforms l' (by simp [h']))
    (renderLabel l ++ rest) paren [] line line hLs' (by simp; omega)
  rw [renderLabels_snoc, List.append_assoc]
  simp only [flatLabels, List.flatMap_nil, List.length_nil, Nat.zero_add, List.nil_append] at hd
  rw [show Builder.new = ⟨[], [], 1⟩ from rfl, hd]
  rw [nameLoop_label (some o) nl l (hforms l (by simp)) rest _ ll' paren _ (by simp; omega)
    (by simp [Builder.wireLen, flatLabels] at hlenAll ⊢; omega)]
  rw [nameLoop.eq_def]
  have hne : (labelOctets l).isEmpty = false := by
    have := hlok.1
    cases hl : labelOctets l with
    | nil => simp [labelOctets] at hl; subst hl; simp at this
    | cons _ _ => rfl
  simp only [hrest, ↓reduceIte, List.nil_append, hne, Bool.false_eq_true]
  -- finish_with_suffix
  have hb : BInv ⟨List.flatMap encLabel (ls.map labelOctets), labelOctets l, (ls.map labelOctets).length + 1⟩ :=
    ⟨ls.map labelOctets, hLs', rfl, rfl, by simp [labelOctets_length]; omega,
      by simp [Builder.wireLen, labelOctets_length, flatLabels] at hlenAll ⊢; omega⟩
  have hfit : ¬ (Builder.wireLen ⟨List.flatMap encLabel (ls.map labelOctets), labelOctets l, (ls.map labelOctets).length + 1⟩
      + o.length > Gen.MAX_WIRE_LEN) := by
    simp [Builder.wireLen, labelOctets_length, flatLabels, Gen.MAX_WIRE_LEN] at hlenAll ⊢; omega
  have haux := finishWithSuffix_aux hb ho (by simp [hne]) hfit
  unfold Builder.finishWithSuffix
  have hnl : ¬ ((ls.map labelOctets).length + 1 + countLabels 256 o > Gen.MAX_N_LABELS) := by
    have h2 : (ls.map labelOctets).length + 1 + countLabels 256 o ≤ 128 := haux.2
    simp only [Gen.MAX_N_LABELS]; omega
  simp only [hne, Bool.false_eq_true, ↓reduceIte, hfit, hnl]
  rw [nameNewlines_snoc, hsplitAll, labelOctets_length]
  simp [flatLabels, Nat.add_assoc]

/-- **`@`** stands for the origin -/
theorem parseName_at (o : List UInt8) (rest : List UInt8) (hrest : atFieldEnd rest = true) (line : Nat)
    (paren : Bool) : parseName (some o) ⟨64 :: rest, line, paren⟩ = .ok (o, ⟨rest, line, paren⟩) := by
  unfold parseName
  simp [expectField, expectFieldImpl, hrest]

theorem label_nonempty {l : PLabel} (h : 0 < (labelOctets l).length) : l ≠ [] := by
  intro hl; subst hl; simp [labelOctets] at h

/-- **Relative names through `parse_name`**: completed with the origin -/
theorem parseName_rel (o : List UInt8) (ho : NameWF o) (ls : List PLabel) (l : PLabel)
    (hforms : ∀ l' ∈ ls ++ [l], ∀ x ∈ l', nameFormOK x.1 x.2 = true)
    (hLs : LabelsOK ((ls ++ [l]).map labelOctets))
    (htotal : (flatLabels ((ls ++ [l]).map labelOctets)).length + o.length ≤ 255)
    (hnotat : renderLabels (ls ++ [l]) ≠ [64])
    (rest : List UInt8) (hrest : atFieldEnd rest = true) (line : Nat) (paren : Bool) :
    parseName (some o) ⟨renderLabels (ls ++ [l]) ++ rest, line, paren⟩ =
      .ok (flatLabels ((ls ++ [l]).map labelOctets) ++ o, ⟨rest, line + nameNewlines (ls ++ [l]), paren⟩) := by
  have hloop := nameLoop_rel o line ls l hforms rest hrest paren line hLs ho htotal
  -- the first label and what follows it
  obtain ⟨l1, tail, htext, hl1mem, htail⟩ : ∃ l1 tail, renderLabels (ls ++ [l]) ++ rest = renderLabel l1 ++ tail ∧
      l1 ∈ ls ++ [l] ∧ ((∃ t', tail = 46 :: t') ∨ (tail = rest ∧ ls = [] ∧ l1 = l)) := by
    rw [renderLabels_snoc]
    cases ls with
    | nil => exact ⟨l, rest, by simp, by simp, .inr ⟨rfl, rfl, rfl⟩⟩
    | cons x ls' => exact ⟨x, _, by simp; rfl, by simp, .inl ⟨_, rfl⟩⟩
  have hl1ok := hLs (labelOctets l1) (List.mem_map.mpr ⟨l1, hl1mem, rfl⟩)
  have hl1ne : l1 ≠ [] := label_nonempty hl1ok.1
  have hl1forms := hforms l1 hl1mem
  have hat : expectField [64] ⟨renderLabels (ls ++ [l]) ++ rest, line, paren⟩ =
      (false, ⟨renderLabels (ls ++ [l]) ++ rest, line, paren⟩) := by
    rw [htext]
    cases l1 with
    | nil => exact absurd rfl hl1ne
    | cons x l1' =>
      obtain ⟨b, f⟩ := x
      have hl1' : ∀ y ∈ l1', nameFormOK y.1 y.2 = true := fun y hy => hl1forms y (by simp [hy])
      cases f with
      | raw =>
        by_cases hb : (b == 64) = true
        · apply expectField_fail_of_not_end
          show atFieldEnd (renderLabel l1' ++ tail) = false
          rcases htail with ⟨t', rfl⟩ | ⟨rfl, hls, hl1l⟩
          · exact notEnd_label_then_dot l1' hl1' t'
          · -- a single label: it is not the lone `@`
            cases l1' with
            | nil =>
              exfalso
              apply hnotat
              subst hls
              rw [← hl1l]
              simp at hb
              simp [renderLabels, renderLabel, renderOctet, hb]
            | cons y l1'' =>
              obtain ⟨c, t, hct, _, hend⟩ := renderLabel_head (l := y :: l1'') (by simp) hl1'
              rw [hct]
              exact atFieldEnd_of_head _ hend
        · exact expectField_fail_of_head _ (c := b) rfl (by simpa using hb)
      | esc => exact expectField_fail_of_head _ (c := 92) rfl (by decide)
      | dec => exact expectField_fail_of_head _ (c := 92) rfl (by decide)
  have hdot : expectField [46] ⟨renderLabels (ls ++ [l]) ++ rest, line, paren⟩ =
      (false, ⟨renderLabels (ls ++ [l]) ++ rest, line, paren⟩) := by
    rw [htext]
    obtain ⟨c, t, hct, hc46, _⟩ := renderLabel_head hl1ne hl1forms
    rw [hct]
    exact expectField_fail_of_head _ (c := c) rfl hc46
  unfold parseName
  simp only [hat, hdot, Bool.false_eq_true, ↓reduceIte]
  exact hloop

end QV.ZF
