/-
  QV.Proofs.ZoneFile.Rdata — `parse_rdata` on the typed presentation of RDATA (C23): one lemma
  `parseRdata_render_<kind>` per syntax.
-/
import QV.Proofs.ZoneFile.Gaps
import QV.Proofs.ZoneFile.Wks

namespace QV.ZF
open QV QV.Spec.ZF

/-! ### names as fields -/

/-- a text that `parse_name` reads as `w`, crossing `k` newlines -/
structure NameTextOK (origin : Option (List UInt8)) (T w : List UInt8) (k : Nat) : Prop where
  starts : Starts T
  len : w.length ≤ 255
  parse : ∀ rest line paren, atFieldEnd rest = true →
    parseName origin ⟨T ++ rest, line, paren⟩ = .ok (w, ⟨rest, line + k, paren⟩)

/-- what the writer of a name must respect (RFC 1035 §2.3.4, §5.1): labels of 1–63 octets, at
    most 255 octets in all, specials escaped, a relative name not the single octet `@` -/
def WFName : PName → Prop
  | .abs ls => ls ≠ [] ∧ (∀ l ∈ ls, ∀ x ∈ l, nameFormOK x.1 x.2 = true) ∧ LabelsOK (ls.map labelOctets) ∧
      (flatLabels (ls.map labelOctets)).length + 1 ≤ 255
  | .rel ls l => (∀ l' ∈ ls ++ [l], ∀ x ∈ l', nameFormOK x.1 x.2 = true) ∧
      LabelsOK ((ls ++ [l]).map labelOctets) ∧ renderLabels (ls ++ [l]) ≠ [64]
  | .atSign => True

theorem nameNewlines_eq (ls : List PLabel) : nameNewlines ls = labelLines ls := rfl

theorem wireLabels_eq (ls : List (List UInt8)) : wireLabels ls = flatLabels ls := rfl

theorem labels_head {ls : List PLabel} {l : PLabel} (hforms : ∀ l' ∈ ls ++ [l], ∀ x ∈ l', nameFormOK x.1 x.2 = true)
    (hLs : LabelsOK ((ls ++ [l]).map labelOctets)) :
    ∃ c t, renderLabels (ls ++ [l]) = c :: t ∧ fieldStart c := by
  rw [renderLabels_snoc]
  cases ls with
  | nil =>
    have hne : l ≠ [] := label_nonempty (hLs (labelOctets l) (by simp)).1
    obtain ⟨c, t, hct, _, hend⟩ := renderLabel_head hne (hforms l (by simp))
    exact ⟨c, t, by simp [hct], hend⟩
  | cons x ls' =>
    have hne : x ≠ [] := label_nonempty (hLs (labelOctets x) (by simp)).1
    obtain ⟨c, t, hct, _, hend⟩ := renderLabel_head hne (hforms x (by simp))
    exact ⟨c, _, by simp [hct]; rfl, hend⟩

theorem abs_head {ls : List PLabel} (hne : ls ≠ []) (hforms : ∀ l ∈ ls, ∀ x ∈ l, nameFormOK x.1 x.2 = true)
    (hLs : LabelsOK (ls.map labelOctets)) : Starts (renderAbsName ls) := by
  cases ls with
  | nil => exact absurd rfl hne
  | cons l ls' =>
    have hlne : l ≠ [] := label_nonempty (hLs (labelOctets l) (by simp)).1
    obtain ⟨c0, t0, hct0, _, hc0⟩ := renderLabel_head hlne (hforms l (by simp))
    exact ⟨c0, t0 ++ 46 :: (ls'.flatMap fun l => renderLabel l ++ [46]), by simp [renderAbsName, hct0], hc0⟩

/-- **Names**: a well-formed name text is read by `parse_name` as the name it denotes -/
theorem nameText_ok (origin : Option (List UInt8)) (hO : ∀ o, origin = some o → NameWF o) (n : PName)
    (hwf : WFName n) (w : List UInt8) (hw : nameWire origin n = some w) :
    NameTextOK origin (nameText n) w (nameLines n) := by
  cases n with
  | abs ls =>
    obtain ⟨hne, hforms, hLs, htotal⟩ := hwf
    simp only [nameWire, Option.some.injEq] at hw
    subst hw
    refine ⟨abs_head hne hforms hLs, ?_, fun rest line paren hrest => ?_⟩
    · have : (wireName (ls.map labelOctets)).length = (flatLabels (ls.map labelOctets)).length + 1 := by
        simp [wireName, flatLabels, encLabel]
      omega
    · exact parseName_abs origin ls hne hforms hLs htotal rest hrest line paren
  | rel ls l =>
    obtain ⟨hforms, hLs, hnotat⟩ := hwf
    cases ho : origin with
    | none => simp [nameWire, ho] at hw
    | some o =>
      simp only [nameWire, ho] at hw
      split at hw
      · next hfit =>
        simp only [Option.some.injEq] at hw
        subst hw
        refine ⟨labels_head hforms hLs, by simpa using hfit, fun rest line paren hrest => ?_⟩
        exact parseName_rel o (hO o ho) ls l hforms hLs hfit hnotat rest hrest line paren
      · cases hw
  | atSign =>
    simp only [nameWire] at hw
    subst hw
    obtain ⟨_, _, _, hlen⟩ := hO w rfl
    exact ⟨⟨64, [], rfl, .inr (by decide)⟩, hlen, fun rest line paren hrest => parseName_at w rest hrest line paren⟩

/-! ### from `parse_rdata` to the typed body -/

theorem expectBh_false (T rest : List UInt8) (hne : T ≠ []) (hnb : ¬ [92, 35] <+: T)
    (hrest : atFieldEnd rest = true) (line : Nat) (paren : Bool) :
    expectField [92, 35] ⟨T ++ rest, line, paren⟩ = (false, ⟨T ++ rest, line, paren⟩) := by
  unfold expectField expectFieldImpl
  split
  · rfl
  · split
    · next h =>
      exfalso
      simp only [Bool.and_eq_true, beq_iff_eq] at h
      obtain ⟨h1, h2⟩ := h
      match T, hne, hnb with
      | [c], _, _ =>
        cases rest with
        | nil => simp at h1
        | cons d r =>
          simp at h1
          obtain ⟨_, rfl⟩ := h1
          simp [atFieldEnd, eolLen, endsField, isWs] at hrest
      | c :: d :: t, _, hnb =>
        simp at h1
        obtain ⟨rfl, rfl⟩ := h1
        exact hnb ⟨t, rfl⟩
    · rfl

theorem checkBackslashHash_false (k : Kind) (g : PGap) (p p' : Bool) (hg : GapOK g p p')
    (T rest : List UInt8) (hT : Starts T) (hnb : ¬ [92, 35] <+: T) (hrest : atFieldEnd rest = true)
    (line : Nat) :
    checkBackslashHash k ⟨gapText g ++ (T ++ rest), line, p⟩ = .ok (false, ⟨T ++ rest, line + gapLines g, p'⟩) := by
  unfold checkBackslashHash
  simp only [bind, P.bind, hg.skip k _ (hT.append rest) line]
  simp [liftB, expectBh_false T rest hT.ne_nil hnb hrest]

theorem checkBackslashHash_trueG (k : Kind) (g : PGap) (p p' : Bool) (hg : GapOK g p p')
    (r : List UInt8) (hr : atFieldEnd r = true) (line : Nat) :
    checkBackslashHash k ⟨gapText g ++ 92 :: 35 :: r, line, p⟩ = .ok (true, ⟨r, line + gapLines g, p'⟩) := by
  unfold checkBackslashHash
  simp only [bind, P.bind, hg.skip k (92 :: 35 :: r) ⟨92, _, rfl, .inl rfl⟩ line]
  simp [liftB, expectField, expectFieldImpl, hr]

/-- a typed text (not `\#`) goes to the typed body of the handler for its class and type -/
theorem parseRdata_typed (ctx : Ctx) (cls ty : Nat) (name : String) (harm : findArm cls ty = some name)
    (g : PGap) (p p' : Bool) (hg : GapOK g p p') (T rest : List UInt8) (hT : Starts T)
    (hnb : ¬ [92, 35] <+: T) (hrest : atFieldEnd rest = true) (line : Nat) :
    parseRdata ctx cls ty ⟨gapText g ++ (T ++ rest), line, p⟩ =
      handlerBody name ctx ⟨T ++ rest, line + gapLines g, p'⟩ := by
  obtain ⟨e, hfind, _⟩ := handler_lookup (findArm_mem harm)
  unfold parseRdata
  simp only [harm, runHandler, hfind, bind, P.bind,
    checkBackslashHash_false _ g p p' hg T rest hT hnb hrest line]
  rfl

theorem mkRdata_ok (l : List UInt8) (h : l.length ≤ 65535) (st : St) : mkRdata l st = .ok (l, st) := by
  unfold mkRdata
  have : ¬ l.length > 65535 := by omega
  simp [this]

theorem decimal_not_bh (n : Nat) (rest : List UInt8) : ¬ [92, 35] <+: decimal n ++ rest := by
  obtain ⟨d, ds, hd, _⟩ := decimal_head n
  have hdig := decimal_digits n d (by rw [hd]; simp)
  rw [hd]
  rintro ⟨t, ht⟩
  simp at ht
  obtain ⟨rfl, _⟩ := ht
  simp [isDigit] at hdig

/-! ### RFC 3597 form with general gaps -/

theorem parseUnknownRdataImpl_renderG (g1 g2 : PGap) (p0 p1 p2 : Bool) (rd : List UInt8)
    (h1 : GapOK g1 p0 p1) (h2 : rd ≠ [] → GapOK g2 p1 p2) (hp : rd = [] → p2 = p1)
    (tg : PGap) (cmt : List UInt8) (hT : TailOK tg cmt p2) (eol : PEol) (r : List UInt8) (he : eol = .eof → r = [])
    (hlen : rd.length ≤ 65535) (line : Nat) :
    ∃ l, parseUnknownRdataImpl
      ⟨gapText g1 ++ (decimal rd.length ++ ((if rd.isEmpty then [] else gapText g2 ++ renderHex rd) ++
        (tailText tg cmt eol ++ r))), line, p0⟩ =
      .ok ((l, rd), ⟨r, line + gapLines g1 + (if rd.isEmpty then 0 else gapLines g2) + gapLines tg + eolLines eol, false⟩) := by
  have hEnd := atFieldEnd_tail tg cmt p2 hT eol r he
  unfold parseUnknownRdataImpl
  cases rd with
  | nil =>
    have := hp rfl
    subst this
    refine ⟨line + gapLines g1, ?_⟩
    simp only [List.length_nil, List.isEmpty_nil, ↓reduceIte, List.nil_append, bind, P.bind,
      h1.skip _ _ ((starts_decimal 0).append _) line, show parseU16 = parseUInt 65535 from rfl,
      readField_decimal 65535 0 (by omega) (by omega) _ _ hEnd, beq_self_eq_true, getLine, pure, P.pure,
      expectEol_tail tg cmt p2 hT eol r he, Nat.add_zero]
  | cons b rd' =>
    have h2' := h2 (by simp)
    obtain ⟨h, t, hh, hhstart⟩ := renderHex_head b rd'
    have hlen' : rd'.length + 1 ≤ 65535 := by simpa using hlen
    have hne0 : ((rd'.length + 1) == 0) = false := by simp
    have hHexStarts : Starts (renderHex (b :: rd') ++ (tailText tg cmt eol ++ r)) :=
      ⟨h, t ++ (tailText tg cmt eol ++ r), by rw [hh]; rfl, hhstart⟩
    refine ⟨line + gapLines g1 + gapLines g2, ?_⟩
    have hd3 := hexDigits_render (b :: rd') [] (tailText tg cmt eol ++ r) (line + gapLines g1 + gapLines g2) p2
    simp only [List.length_cons] at hd3
    have hmk : ∀ st, mkRdata ([].reverse ++ b :: rd') st = .ok (b :: rd', st) := by
      intro st
      unfold mkRdata
      have : ¬ (([].reverse ++ b :: rd').length > 65535) := by simp; omega
      rw [if_neg this]; simp
    simp only [List.length_cons, List.isEmpty_cons, Bool.false_eq_true, ↓reduceIte, List.append_assoc, bind, P.bind,
      h1.skip _ _ ((starts_decimal (rd'.length + 1)).append _) line, show parseU16 = parseUInt 65535 from rfl,
      readField_decimal 65535 _ hlen' (by omega) _ _ (h2'.atEnd _), hne0,
      h2'.skip _ _ hHexStarts, getLine, hd3, hmk, pure, P.pure, expectEol_tail tg cmt p2 hT eol r he]

/-- **RFC 3597 RDATA** `\# len hex`, for any class and type, with general gaps -/
theorem parseRdata_genericG (ctx : Ctx) (cls ty : Nat) (h41 : ty ≠ 41) (h250 : ty ≠ 250)
    (g0 g1 g2 : PGap) (q p0 p1 p2 : Bool) (rd : List UInt8) (h0 : GapOK g0 q p0)
    (h1 : GapOK g1 p0 p1) (h2 : rd ≠ [] → GapOK g2 p1 p2) (hp : rd = [] → p2 = p1)
    (tg : PGap) (cmt : List UInt8) (hT : TailOK tg cmt p2) (eol : PEol) (r : List UInt8) (he : eol = .eof → r = [])
    (hlen : rd.length ≤ 65535) (hvalid : validate cls ty rd = .ok ()) (line : Nat) :
    parseRdata ctx cls ty
      ⟨gapText g0 ++ 92 :: 35 :: (gapText g1 ++ (decimal rd.length ++ ((if rd.isEmpty then [] else gapText g2 ++ renderHex rd) ++
        (tailText tg cmt eol ++ r)))), line, q⟩ =
      .ok (rd, ⟨r, line + gapLines g0 + gapLines g1 + (if rd.isEmpty then 0 else gapLines g2) + gapLines tg + eolLines eol, false⟩) := by
  have hfe := h1.atEnd (decimal rd.length ++ ((if rd.isEmpty then [] else gapText g2 ++ renderHex rd) ++
        (tailText tg cmt eol ++ r)))
  obtain ⟨l, himpl⟩ := parseUnknownRdataImpl_renderG g1 g2 p0 p1 p2 rd h1 h2 hp tg cmt hT eol r he hlen (line + gapLines g0)
  generalize hX : gapText g1 ++ (decimal rd.length ++ ((if rd.isEmpty then [] else gapText g2 ++ renderHex rd) ++
        (tailText tg cmt eol ++ r))) = X at hfe himpl ⊢
  generalize hL : (line + gapLines g0 + gapLines g1 + if rd.isEmpty then 0 else gapLines g2) = L at himpl ⊢
  unfold parseRdata
  cases hf : findArm cls ty with
  | none =>
    simp only [bind, P.bind, checkBackslashHash_trueG _ g0 q p0 h0 _ hfe line]
    simp [parseUnknownRdata, bind, P.bind, himpl, pure, P.pure]
  | some h =>
    obtain ⟨e, hfind, hknown⟩ := handler_lookup (findArm_mem hf)
    obtain ⟨f, hfv⟩ := knownValidators_some hknown
    have hok : f rd.toArray = .ok () := by
      unfold validate Rdata.validate at hvalid
      rw [dispatch_agree hf, hfv] at hvalid
      exact hvalid
    simp only [runHandler, hfind, bind, P.bind, checkBackslashHash_trueG _ g0 q p0 h0 _ hfe line]
    simp [parseUnknownRdataWithValidation, bind, P.bind, himpl, hfv, hok, pure, P.pure]

theorem gapText_pos {g : PGap} (h : g ≠ []) : 0 < (gapText g).length := by
  cases g with
  | nil => exact absurd rfl h
  | cons y ys =>
    have : 0 < (gapItemText y).length := by
      cases y with
      | blank tab => simp [gapItemText]
      | openParen => simp [gapItemText]
      | closeParen => simp [gapItemText]
      | newline c cr => cases cr <;> simp [gapItemText, eolText]
    simp only [gapText, List.flatMap_cons, List.length_append]
    omega

/-! ### WKS: protocol field -/

theorem lower_upper (b : UInt8) : lowerU8 (upperU8 b) = lowerU8 b := by
  revert b
  apply QV.Wire.forall_uint8
  decide +kernel

theorem eqIgnoreCase_of_upper {a b : List UInt8} (h : a.map upperU8 = b.map upperU8) : eqIgnoreCase a b = true := by
  unfold eqIgnoreCase
  have : (a.map upperU8).map lowerU8 = (b.map upperU8).map lowerU8 := by rw [h]
  simpa [List.map_map, Function.comp_def, lower_upper] using this

/-- the field is the keyword in some mix of upper and lower case: consumed -/
theorem expectFieldCI_match (kw t X : List UInt8) (hu : t.map upperU8 = kw.map upperU8) (hX : atFieldEnd X = true)
    (line : Nat) (p : Bool) : expectFieldCI kw ⟨t ++ X, line, p⟩ = (true, ⟨X, line, p⟩) := by
  have hl : t.length = kw.length := by simpa using congrArg List.length hu
  unfold expectFieldCI expectFieldImpl
  simp [← hl, eqIgnoreCase_of_upper hu, hX]

/-- the first octets differ even without case: nothing consumed -/
theorem expectFieldCI_head_ne (k : UInt8) (ks : List UInt8) (c : UInt8) (t : List UInt8) (h : lowerU8 c ≠ lowerU8 k)
    (line : Nat) (p : Bool) : expectFieldCI (k :: ks) ⟨c :: t, line, p⟩ = (false, ⟨c :: t, line, p⟩) := by
  unfold expectFieldCI expectFieldImpl
  split
  · rfl
  · have : eqIgnoreCase (c :: List.take ks.length t) (k :: ks) = false := by
      simp [eqIgnoreCase, h]
    simp [this]

theorem tcp_bytes : "TCP".toUTF8.toList = [84, 67, 80] := by decide +kernel
theorem udp_bytes : "UDP".toUTF8.toList = [85, 68, 80] := by decide +kernel

theorem digit_not_t_u (c : UInt8) (h : isDigit c = true) : lowerU8 c ≠ lowerU8 84 ∧ lowerU8 c ≠ lowerU8 85 := by
  revert c
  apply QV.Wire.forall_uint8
  decide +kernel

theorem upperU_not_t (c : UInt8) (h : upperU8 c = 85) : lowerU8 c ≠ lowerU8 84 := by
  revert c
  apply QV.Wire.forall_uint8
  decide +kernel

/-- the protocol field of WKS as the writer may put it: `TCP` / `UDP` in any mix of upper and
    lower case, or a number up to 255 -/
def WFProto : PCode → Prop
  | .generic n => n ≤ 255
  | .mnemonic t n => mnemonicFor protoMnemonics t n

/-! ### the kinds -/

section kinds
variable (ctx : Ctx) (G : Nat → PGap) (S : Nat → Bool) (tg : PGap) (cmt : List UInt8) (eol : PEol)
  (r : List UInt8) (he : eol = .eof → r = []) (line : Nat)
include he

/-- NS, MD, MF, CNAME, MB, MG, MR, PTR: one name -/
theorem parseRdata_name_text (cls ty : Nat) (hty : [2, 3, 4, 5, 7, 8, 9, 12].contains ty = true)
    (T w : List UInt8) (k : Nat) (hn : NameTextOK ctx.origin T w k) (hnb : ¬ [92, 35] <+: T)
    (hG : ∀ i, i ≤ 0 → GapOK (G i) (S i) (S (i + 1))) (hT : TailOK tg cmt (S 1)) :
    parseRdata ctx cls ty ⟨gapText (G 0) ++ (T ++ (tailText tg cmt eol ++ r)), line, S 0⟩ =
      .ok (w, ⟨r, line + gapLines (G 0) + k + gapLines tg + eolLines eol, false⟩) := by
  have hEnd := atFieldEnd_tail tg cmt _ hT eol r he
  have harm : findArm cls ty = some "parse_name_rdata" := by
    simp only [List.contains_iff_mem, List.mem_cons, List.mem_nil_iff, or_false] at hty
    rcases hty with rfl | rfl | rfl | rfl | rfl | rfl | rfl | rfl <;>
      simp [findArm, Gen.parseRdataArms, armMatches, List.find?]
  rw [parseRdata_typed ctx cls ty _ harm _ _ _ (hG 0 (by omega)) T _ hn.starts hnb hEnd line]
  show nameRdataBody ctx _ = _
  unfold nameRdataBody
  simp only [bind, P.bind, pName, hn.parse _ _ _ hEnd, expectEol_tail tg cmt _ hT eol r he,
    mkRdata_ok w (by have := hn.len; omega)]

/-- MX: preference and exchange -/
theorem parseRdata_mx_text (cls : Nat) (p : Nat) (hp : p ≤ 65535) (T w : List UInt8) (k : Nat)
    (hn : NameTextOK ctx.origin T w k)
    (hG : ∀ i, i ≤ 1 → GapOK (G i) (S i) (S (i + 1))) (hT : TailOK tg cmt (S 2)) :
    parseRdata ctx cls 15 ⟨gapText (G 0) ++ (decimal p ++ (gapText (G 1) ++ (T ++ (tailText tg cmt eol ++ r)))), line, S 0⟩ =
      .ok (u16be p ++ w, ⟨r, line + gapLines (G 0) + gapLines (G 1) + k + gapLines tg + eolLines eol, false⟩) := by
  have hEnd := atFieldEnd_tail tg cmt _ hT eol r he
  have harm : findArm cls 15 = some "parse_mx_rdata" := by
    simp [findArm, Gen.parseRdataArms, armMatches, List.find?]
  rw [parseRdata_typed ctx cls 15 _ harm _ _ _ (hG 0 (by omega)) (decimal p) _ (starts_decimal p)
    (by simpa using decimal_not_bh p []) ((hG 1 (by omega)).atEnd _) line]
  show mxRdataBody ctx _ = _
  unfold mxRdataBody
  simp only [bind, P.bind, pName, show parseU16 = parseUInt 65535 from rfl,
    readField_decimal 65535 p hp (by omega) _ _ ((hG 1 (by omega)).atEnd _),
    (hG 1 (by omega)).skip _ _ (hn.starts.append _),
    hn.parse _ _ _ hEnd, expectEol_tail tg cmt _ hT eol r he,
    mkRdata_ok (u16be p ++ w) (by have := hn.len; simp [u16be]; omega)]

/-- MINFO: two names -/
theorem parseRdata_minfo_text (cls : Nat) (T1 w1 : List UInt8) (k1 : Nat) (T2 w2 : List UInt8) (k2 : Nat)
    (h1 : NameTextOK ctx.origin T1 w1 k1) (h2 : NameTextOK ctx.origin T2 w2 k2) (hnb : ¬ [92, 35] <+: T1)
    (hG : ∀ i, i ≤ 1 → GapOK (G i) (S i) (S (i + 1))) (hT : TailOK tg cmt (S 2)) :
    parseRdata ctx cls 14 ⟨gapText (G 0) ++ (T1 ++ (gapText (G 1) ++ (T2 ++ (tailText tg cmt eol ++ r)))), line, S 0⟩ =
      .ok (w1 ++ w2, ⟨r, line + gapLines (G 0) + k1 + gapLines (G 1) + k2 + gapLines tg + eolLines eol, false⟩) := by
  have hEnd := atFieldEnd_tail tg cmt _ hT eol r he
  have harm : findArm cls 14 = some "parse_minfo_rdata" := by
    simp [findArm, Gen.parseRdataArms, armMatches, List.find?]
  rw [parseRdata_typed ctx cls 14 _ harm _ _ _ (hG 0 (by omega)) T1 _ h1.starts hnb ((hG 1 (by omega)).atEnd _) line]
  show minfoRdataBody ctx _ = _
  unfold minfoRdataBody
  simp only [bind, P.bind, pName, h1.parse _ _ _ ((hG 1 (by omega)).atEnd _),
    (hG 1 (by omega)).skip _ _ (h2.starts.append _),
    h2.parse _ _ _ hEnd, expectEol_tail tg cmt _ hT eol r he,
    mkRdata_ok (w1 ++ w2) (by have := h1.len; have := h2.len; simp; omega)]

/-- SRV: priority, weight, port, target -/
theorem parseRdata_srv_text (p wt port : Nat) (hp : p ≤ 65535) (hwt : wt ≤ 65535) (hport : port ≤ 65535)
    (T w : List UInt8) (k : Nat) (hn : NameTextOK ctx.origin T w k)
    (hG : ∀ i, i ≤ 3 → GapOK (G i) (S i) (S (i + 1))) (hT : TailOK tg cmt (S 4)) :
    parseRdata ctx 1 33 ⟨gapText (G 0) ++ (decimal p ++ (gapText (G 1) ++ (decimal wt ++ (gapText (G 2) ++
        (decimal port ++ (gapText (G 3) ++ (T ++ (tailText tg cmt eol ++ r)))))))), line, S 0⟩ =
      .ok (u16be p ++ u16be wt ++ u16be port ++ w,
        ⟨r, line + gapLines (G 0) + gapLines (G 1) + gapLines (G 2) + gapLines (G 3) + k + gapLines tg + eolLines eol, false⟩) := by
  have hEnd := atFieldEnd_tail tg cmt _ hT eol r he
  have harm : findArm 1 33 = some "parse_in_srv_rdata" := by decide
  rw [parseRdata_typed ctx 1 33 _ harm _ _ _ (hG 0 (by omega)) (decimal p) _ (starts_decimal p)
    (by simpa using decimal_not_bh p []) ((hG 1 (by omega)).atEnd _) line]
  show inSrvRdataBody ctx _ = _
  unfold inSrvRdataBody
  simp only [bind, P.bind, pName, show parseU16 = parseUInt 65535 from rfl,
    readField_decimal 65535 p hp (by omega) _ _ ((hG 1 (by omega)).atEnd _),
    readField_decimal 65535 wt hwt (by omega) _ _ ((hG 2 (by omega)).atEnd _),
    readField_decimal 65535 port hport (by omega) _ _ ((hG 3 (by omega)).atEnd _),
    (hG 1 (by omega)).skip _ _ ((starts_decimal wt).append _),
    (hG 2 (by omega)).skip _ _ ((starts_decimal port).append _),
    (hG 3 (by omega)).skip _ _ (hn.starts.append _),
    hn.parse _ _ _ hEnd, expectEol_tail tg cmt _ hT eol r he,
    mkRdata_ok (u16be p ++ u16be wt ++ u16be port ++ w) (by have := hn.len; simp [u16be]; omega)]

/-- SOA: two names and five 32-bit numbers -/
theorem parseRdata_soa_text (cls : Nat) (T1 w1 : List UInt8) (k1 : Nat) (T2 w2 : List UInt8) (k2 : Nat)
    (h1 : NameTextOK ctx.origin T1 w1 k1) (h2 : NameTextOK ctx.origin T2 w2 k2) (hnb : ¬ [92, 35] <+: T1)
    (s1 s2 s3 s4 s5 : Nat) (b1 : s1 ≤ 4294967295) (b2 : s2 ≤ 4294967295) (b3 : s3 ≤ 4294967295)
    (b4 : s4 ≤ 4294967295) (b5 : s5 ≤ 4294967295)
    (hG : ∀ i, i ≤ 6 → GapOK (G i) (S i) (S (i + 1))) (hT : TailOK tg cmt (S 7)) :
    parseRdata ctx cls 6 ⟨gapText (G 0) ++ (T1 ++ (gapText (G 1) ++ (T2 ++ (gapText (G 2) ++ (decimal s1 ++
        (gapText (G 3) ++ (decimal s2 ++ (gapText (G 4) ++ (decimal s3 ++ (gapText (G 5) ++ (decimal s4 ++
        (gapText (G 6) ++ (decimal s5 ++ (tailText tg cmt eol ++ r)))))))))))))), line, S 0⟩ =
      .ok (w1 ++ w2 ++ u32be s1 ++ u32be s2 ++ u32be s3 ++ u32be s4 ++ u32be s5,
           ⟨r, line + gapLines (G 0) + k1 + gapLines (G 1) + k2 + gapLines (G 2) + gapLines (G 3) + gapLines (G 4) +
              gapLines (G 5) + gapLines (G 6) + gapLines tg + eolLines eol, false⟩) := by
  have hEnd := atFieldEnd_tail tg cmt _ hT eol r he
  have harm : findArm cls 6 = some "parse_soa_rdata" := by
    simp [findArm, Gen.parseRdataArms, armMatches, List.find?]
  rw [parseRdata_typed ctx cls 6 _ harm _ _ _ (hG 0 (by omega)) T1 _ h1.starts hnb ((hG 1 (by omega)).atEnd _) line]
  show soaRdataBody ctx _ = _
  unfold soaRdataBody
  simp only [bind, P.bind, pName, show parseU32 = parseUInt 4294967295 from rfl,
    h1.parse _ _ _ ((hG 1 (by omega)).atEnd _),
    (hG 1 (by omega)).skip _ _ (h2.starts.append _),
    h2.parse _ _ _ ((hG 2 (by omega)).atEnd _),
    (hG 2 (by omega)).skip _ _ ((starts_decimal s1).append _),
    (hG 3 (by omega)).skip _ _ ((starts_decimal s2).append _),
    (hG 4 (by omega)).skip _ _ ((starts_decimal s3).append _),
    (hG 5 (by omega)).skip _ _ ((starts_decimal s4).append _),
    (hG 6 (by omega)).skip _ _ ((starts_decimal s5).append _),
    readField_decimal 4294967295 s1 b1 (by omega) _ _ ((hG 3 (by omega)).atEnd _),
    readField_decimal 4294967295 s2 b2 (by omega) _ _ ((hG 4 (by omega)).atEnd _),
    readField_decimal 4294967295 s3 b3 (by omega) _ _ ((hG 5 (by omega)).atEnd _),
    readField_decimal 4294967295 s4 b4 (by omega) _ _ ((hG 6 (by omega)).atEnd _),
    readField_decimal 4294967295 s5 b5 (by omega) _ _ hEnd,
    expectEol_tail tg cmt _ hT eol r he,
    mkRdata_ok (w1 ++ w2 ++ u32be s1 ++ u32be s2 ++ u32be s3 ++ u32be s4 ++ u32be s5)
      (by have := h1.len; have := h2.len; simp [u32be]; omega)]

/-- IN A: dotted quad -/
theorem parseRdata_a_text (a b c d : Nat) (ha : a ≤ 255) (hb : b ≤ 255) (hcc : c ≤ 255) (hd : d ≤ 255)
    (hG : ∀ i, i ≤ 0 → GapOK (G i) (S i) (S (i + 1))) (hT : TailOK tg cmt (S 1)) :
    parseRdata ctx 1 1 ⟨gapText (G 0) ++ ((decimal a ++ 46 :: (decimal b ++ 46 :: (decimal c ++ 46 :: decimal d))) ++
        (tailText tg cmt eol ++ r)), line, S 0⟩ =
      .ok ([UInt8.ofNat a, UInt8.ofNat b, UInt8.ofNat c, UInt8.ofNat d],
        ⟨r, line + gapLines (G 0) + gapLines tg + eolLines eol, false⟩) := by
  have hEnd := atFieldEnd_tail tg cmt _ hT eol r he
  have harm : findArm 1 1 = some "parse_in_a_rdata" := by decide
  have hlen : ∀ n, n ≤ 255 → (decimal n).length ≤ 3 := by
    intro n hn; have := (octet_decimal_facts n (by omega)).2.1; simpa using this
  have hplain : ∀ x ∈ decimal a ++ 46 :: (decimal b ++ 46 :: (decimal c ++ 46 :: decimal d)), plainOctet x = true := by
    intro x hx
    simp only [List.mem_append, List.mem_cons] at hx
    rcases hx with h | rfl | h | rfl | h | rfl | h
    all_goals first | exact decimal_plain _ _ h | decide
  rw [parseRdata_typed ctx 1 1 _ harm _ _ _ (hG 0 (by omega)) _ _ ((starts_decimal a).append _) (decimal_not_bh a _)
    hEnd line]
  show inARdataBody _ = _
  unfold inARdataBody
  simp only [bind, P.bind,
    readField_plain parseIpv4 .InvalidIpv4 _ _ _ hplain
      (by have := hlen a ha; have := hlen b hb; have := hlen c hcc; have := hlen d hd; simp; omega) hEnd
      (parseIpv4_render a b c d (by omega) (by omega) (by omega) (by omega)),
    expectEol_tail tg cmt _ hT eol r he,
    mkRdata_ok [UInt8.ofNat a, UInt8.ofNat b, UInt8.ofNat c, UInt8.ofNat d] (by simp)]

omit he in
theorem groupsText_facts (gs : List Nat) (hne : gs ≠ []) :
    (∀ x ∈ groupsText gs, plainOctet x = true) ∧ Starts (groupsText gs) ∧ ¬ [92, 35] <+: groupsText gs := by
  have hplain : ∀ g, ∀ x ∈ hexText g, plainOctet x = true := by
    intro g x hx
    obtain ⟨d, hd, rfl⟩ := hexText_digits g x hx
    exact (hexDigit_facts d hd).2.1
  have hhead : ∀ g, ∃ d t, d < 16 ∧ hexText g = hexDigitOctet d :: t := by
    intro g
    cases h : hexText g with
    | nil => exact absurd h (hexText_ne_nil g)
    | cons c t =>
      obtain ⟨d, hd, rfl⟩ := hexText_digits g c (by rw [h]; simp)
      exact ⟨d, t, hd, rfl⟩
  have hstart : ∀ d, d < 16 → fieldStart (hexDigitOctet d) := by
    intro d hd
    have := (hexDigit_facts d hd).2.1
    simp only [plainOctet, Bool.and_eq_true, Bool.not_eq_true'] at this
    exact .inr this.1
  refine ⟨?_, ?_, ?_⟩
  · induction gs with
    | nil => exact absurd rfl hne
    | cons g gs ih =>
      cases gs with
      | nil => simpa [groupsText] using hplain g
      | cons g2 gs' =>
        intro x hx
        simp only [groupsText, List.mem_append, List.mem_cons] at hx
        rcases hx with h | rfl | h
        · exact hplain g x h
        · decide
        · exact ih (by simp) x h
  · cases gs with
    | nil => exact absurd rfl hne
    | cons g gs =>
      obtain ⟨d, t, hd, ht⟩ := hhead g
      cases gs with
      | nil => exact ⟨_, t, by simp [groupsText, ht], hstart d hd⟩
      | cons g2 gs' => exact ⟨_, t ++ 58 :: groupsText (g2 :: gs'), by simp [groupsText, ht], hstart d hd⟩
  · cases gs with
    | nil => exact absurd rfl hne
    | cons g gs =>
      obtain ⟨d, t, hd, ht⟩ := hhead g
      have h92 := (hexDigit_facts d hd).2.2.2
      rintro ⟨u, hu⟩
      cases gs with
      | nil => simp [groupsText, ht] at hu; exact h92 hu.1.symm
      | cons g2 gs' => simp [groupsText, ht] at hu; exact h92 hu.1.symm

/-- IN AAAA: eight groups of hexadecimal digits -/
theorem parseRdata_aaaa_text (gs : List Nat) (hlen : gs.length = 8) (hgs : ∀ g ∈ gs, g < 65536)
    (hG : ∀ i, i ≤ 0 → GapOK (G i) (S i) (S (i + 1))) (hT : TailOK tg cmt (S 1)) :
    parseRdata ctx 1 28 ⟨gapText (G 0) ++ (groupsText gs ++ (tailText tg cmt eol ++ r)), line, S 0⟩ =
      .ok (gs.flatMap u16be', ⟨r, line + gapLines (G 0) + gapLines tg + eolLines eol, false⟩) := by
  have hEnd := atFieldEnd_tail tg cmt _ hT eol r he
  have harm : findArm 1 28 = some "parse_in_aaaa_rdata" := by decide
  have hne : gs ≠ [] := by intro h; simp [h] at hlen
  obtain ⟨hplain, hstarts, hnb⟩ := groupsText_facts gs hne
  have hl : (groupsText gs).length ≤ 65536 := by
    have hh : ∀ g ∈ gs, (hexText g).length ≤ 4 := fun g hg => hexText_length g 3 (by simpa using hgs g hg)
    have : ∀ (l : List Nat), (∀ g ∈ l, (hexText g).length ≤ 4) → (groupsText l).length ≤ 5 * l.length := by
      intro l
      induction l with
      | nil => intro _; simp [groupsText]
      | cons g l ih =>
        intro h
        cases l with
        | nil => have := h g (by simp); simp [groupsText]; omega
        | cons g2 l' =>
          have := h g (by simp)
          have := ih (fun x hx => h x (by simp [hx]))
          simp only [groupsText, List.length_append, List.length_cons] at this ⊢
          omega
    have := this gs hh
    omega
  have hmk : (gs.flatMap u16be').length ≤ 65535 := by
    have : ∀ (l : List Nat), (l.flatMap u16be').length = 2 * l.length := by
      intro l; induction l with
      | nil => rfl
      | cons g l ih => simp [u16be', ih]; omega
    rw [this, hlen]; omega
  rw [parseRdata_typed ctx 1 28 _ harm _ _ _ (hG 0 (by omega)) _ _ hstarts hnb hEnd line]
  show inAaaaRdataBody _ = _
  unfold inAaaaRdataBody
  simp only [bind, P.bind,
    readField_plain parseIpv6 .InvalidIpv6 _ _ _ hplain hl hEnd (parseIpv6_render gs hlen hgs),
    expectEol_tail tg cmt _ hT eol r he, mkRdata_ok _ hmk]

omit he in
theorem groupsText_plain (gs : List Nat) : ∀ x ∈ groupsText gs, plainOctet x = true := by
  cases gs with
  | nil => intro x hx; simp [groupsText] at hx
  | cons g gs => exact (groupsText_facts (g :: gs) (by simp)).1

omit he in
theorem groupsText_length (gs : List Nat) (h : ∀ g ∈ gs, g < 65536) : (groupsText gs).length ≤ 5 * gs.length := by
  have hh : ∀ g ∈ gs, (hexText g).length ≤ 4 := fun g hg => hexText_length g 3 (by simpa using h g hg)
  induction gs with
  | nil => simp [groupsText]
  | cons g l ih =>
    cases l with
    | nil => have := hh g (by simp); simp [groupsText]; omega
    | cons g2 l' =>
      have := hh g (by simp)
      have := ih (fun x hx => h x (by simp [hx])) (fun x hx => hh x (by simp [hx]))
      simp only [groupsText, List.length_append, List.length_cons] at this ⊢
      omega

/-- IN AAAA with `::` -/
theorem parseRdata_aaaaC_text (hd tl : List Nat) (hlen : hd.length + tl.length ≤ 7)
    (hhd : ∀ g ∈ hd, g < 65536) (htl : ∀ g ∈ tl, g < 65536)
    (hG : ∀ i, i ≤ 0 → GapOK (G i) (S i) (S (i + 1))) (hT : TailOK tg cmt (S 1)) :
    parseRdata ctx 1 28 ⟨gapText (G 0) ++ ((groupsText hd ++ (58 :: 58 :: groupsText tl)) ++ (tailText tg cmt eol ++ r)), line, S 0⟩ =
      .ok ((hd ++ List.replicate (8 - hd.length - tl.length) 0 ++ tl).flatMap u16be',
        ⟨r, line + gapLines (G 0) + gapLines tg + eolLines eol, false⟩) := by
  have hEnd := atFieldEnd_tail tg cmt _ hT eol r he
  have harm : findArm 1 28 = some "parse_in_aaaa_rdata" := by decide
  have hplain : ∀ x ∈ groupsText hd ++ (58 :: 58 :: groupsText tl), plainOctet x = true := by
    intro x hx
    simp only [List.mem_append, List.mem_cons] at hx
    rcases hx with h | rfl | rfl | h
    · exact groupsText_plain hd x h
    · decide
    · decide
    · exact groupsText_plain tl x h
  have hstarts : Starts (groupsText hd ++ (58 :: 58 :: groupsText tl)) := by
    cases hd with
    | nil => exact ⟨58, _, rfl, .inr (by decide)⟩
    | cons g gs => exact ((groupsText_facts (g :: gs) (by simp)).2.1).append _
  have hnb : ¬ [92, 35] <+: groupsText hd ++ (58 :: 58 :: groupsText tl) := by
    obtain ⟨c, t, hct, hc⟩ := hstarts
    rw [hct]
    rintro ⟨u, hu⟩
    simp at hu
    obtain ⟨rfl, _⟩ := hu
    -- the first octet is a plain one
    have := hplain 92 (by rw [hct]; simp)
    revert this; decide
  have hl : (groupsText hd ++ (58 :: 58 :: groupsText tl)).length ≤ 65536 := by
    have h1 := groupsText_length hd hhd
    have h2 := groupsText_length tl htl
    simp only [List.length_append, List.length_cons]
    omega
  have hmk : ((hd ++ List.replicate (8 - hd.length - tl.length) 0 ++ tl).flatMap u16be').length ≤ 65535 := by
    have : ∀ (l : List Nat), (l.flatMap u16be').length = 2 * l.length := by
      intro l; induction l with
      | nil => rfl
      | cons g l ih => simp [u16be', ih]; omega
    rw [this]
    simp only [List.length_append, List.length_replicate]
    omega
  rw [parseRdata_typed ctx 1 28 _ harm _ _ _ (hG 0 (by omega)) _ _ hstarts hnb hEnd line]
  show inAaaaRdataBody _ = _
  unfold inAaaaRdataBody
  simp only [bind, P.bind,
    readField_plain parseIpv6 .InvalidIpv6 _ _ _ hplain hl hEnd (parseIpv6_compressed hd tl hlen hhd htl),
    expectEol_tail tg cmt _ hT eol r he, mkRdata_ok _ hmk]

/-- IN AAAA, any way of writing the address: a plain text that `Ipv6Addr::from_str` accepts -/
theorem parseRdata_aaaa_gen (T w : List UInt8) (hplain : ∀ x ∈ T, plainOctet x = true) (hne : T ≠ [])
    (hl : T.length ≤ 65536) (hparse : parseIpv6 T = some w) (hmk : w.length ≤ 65535)
    (hG : ∀ i, i ≤ 0 → GapOK (G i) (S i) (S (i + 1))) (hT : TailOK tg cmt (S 1)) :
    parseRdata ctx 1 28 ⟨gapText (G 0) ++ (T ++ (tailText tg cmt eol ++ r)), line, S 0⟩ =
      .ok (w, ⟨r, line + gapLines (G 0) + gapLines tg + eolLines eol, false⟩) := by
  have hEnd := atFieldEnd_tail tg cmt _ hT eol r he
  have harm : findArm 1 28 = some "parse_in_aaaa_rdata" := by decide
  obtain ⟨c, t, rfl⟩ : ∃ c t, T = c :: t := by
    cases T with
    | nil => exact absurd rfl hne
    | cons c t => exact ⟨c, t, rfl⟩
  have hc := hplain c (by simp)
  have hstarts : Starts (c :: t) := by
    simp only [plainOctet, Bool.and_eq_true, Bool.not_eq_true'] at hc
    exact ⟨c, t, rfl, .inr hc.1⟩
  have hnb : ¬ [92, 35] <+: c :: t := by
    rintro ⟨u, hu⟩
    simp at hu
    obtain ⟨rfl, _⟩ := hu
    revert hc; decide
  rw [parseRdata_typed ctx 1 28 _ harm _ _ _ (hG 0 (by omega)) _ _ hstarts hnb hEnd line]
  show inAaaaRdataBody _ = _
  unfold inAaaaRdataBody
  simp only [bind, P.bind, readField_plain parseIpv6 .InvalidIpv6 _ _ _ hplain hl hEnd hparse,
    expectEol_tail tg cmt _ hT eol r he, mkRdata_ok _ hmk]

omit he in
theorem quadText_plain (a b c d : Nat) : ∀ x ∈ quadText a b c d, plainOctet x = true := by
  intro x hx
  simp only [quadText, List.mem_append, List.mem_cons] at hx
  rcases hx with h | rfl | h | rfl | h | rfl | h
  all_goals first | exact decimal_plain _ _ h | decide

omit he in
theorem quadText_length (a b c d : Nat) (ha : a ≤ 255) (hb : b ≤ 255) (hc : c ≤ 255) (hd : d ≤ 255) :
    (quadText a b c d).length ≤ 15 ∧ quadText a b c d ≠ [] := by
  have hlen : ∀ n, n ≤ 255 → (decimal n).length ≤ 3 := by
    intro n hn; have := (octet_decimal_facts n (by omega)).2.1; simpa using this
  have := hlen a ha; have := hlen b hb; have := hlen c hc; have := hlen d hd
  refine ⟨by simp [quadText]; omega, ?_⟩
  have := decimal_ne_nil a
  simp [quadText, this]

omit he in
theorem groupsThenQuad_facts (gs : List Nat) (hgs : ∀ g ∈ gs, g < 65536) (Q : List UInt8)
    (hQ : ∀ x ∈ Q, plainOctet x = true) (hQne : Q ≠ []) :
    (∀ x ∈ groupsThenQuad gs Q, plainOctet x = true) ∧ groupsThenQuad gs Q ≠ [] ∧
      (groupsThenQuad gs Q).length ≤ 5 * gs.length + 1 + Q.length := by
  cases gs with
  | nil => exact ⟨by simpa [groupsThenQuad] using hQ, by simpa [groupsThenQuad] using hQne, by simp [groupsThenQuad]⟩
  | cons g gs =>
    have hl := groupsText_length (g :: gs) hgs
    refine ⟨?_, by simp [groupsThenQuad], by simp only [groupsThenQuad, List.length_append, List.length_cons] at hl ⊢; omega⟩
    intro x hx
    simp only [groupsThenQuad, List.mem_append, List.mem_cons] at hx
    rcases hx with h | rfl | h
    · exact groupsText_plain _ x h
    · decide
    · exact hQ x h

/-- CH A: network name and octal address -/
theorem parseRdata_chA_text (T w : List UInt8) (k : Nat) (hn : NameTextOK ctx.origin T w k) (hnb : ¬ [92, 35] <+: T)
    (a : Nat) (ha : a ≤ 65535)
    (hG : ∀ i, i ≤ 1 → GapOK (G i) (S i) (S (i + 1))) (hT : TailOK tg cmt (S 2)) :
    parseRdata ctx 3 1 ⟨gapText (G 0) ++ (T ++ (gapText (G 1) ++ (octalText a ++ (tailText tg cmt eol ++ r)))), line, S 0⟩ =
      .ok (w ++ u16be a, ⟨r, line + gapLines (G 0) + k + gapLines (G 1) + gapLines tg + eolLines eol, false⟩) := by
  have hEnd := atFieldEnd_tail tg cmt _ hT eol r he
  have harm : findArm 3 1 = some "parse_ch_a_rdata" := by decide
  have hoctS : Starts (octalText a ++ (tailText tg cmt eol ++ r)) := by
    cases ho : octalText a with
    | nil => exact absurd ho (octalText_ne_nil a)
    | cons c t =>
      obtain ⟨d, hd, rfl⟩ := octalText_digits a c (by rw [ho]; simp)
      have := digit_plain (digit_octet (d := d) (by omega)).1
      simp only [plainOctet, Bool.and_eq_true, Bool.not_eq_true'] at this
      exact ⟨_, t ++ (tailText tg cmt eol ++ r), rfl, .inr this.1⟩
  have hval : octVal (octalText a) 0 = a := by rw [octVal_octalText]; simp
  have hchaos : ∀ l q, parseChaosnetAddress ⟨octalText a ++ (tailText tg cmt eol ++ r), l, q⟩ =
      .ok (a, ⟨tailText tg cmt eol ++ r, l, q⟩) := by
    intro l q
    unfold parseChaosnetAddress
    simp only [chaosLoop_digits l (octalText a) _ (octalText_digits a) hEnd 0 (by rw [hval]; exact ha), hval]
  rw [parseRdata_typed ctx 3 1 _ harm _ _ _ (hG 0 (by omega)) T _ hn.starts hnb ((hG 1 (by omega)).atEnd _) line]
  show chARdataBody ctx _ = _
  unfold chARdataBody
  simp only [bind, P.bind, pName, hn.parse _ _ _ ((hG 1 (by omega)).atEnd _),
    (hG 1 (by omega)).skip _ _ hoctS, hchaos, expectEol_tail tg cmt _ hT eol r he,
    mkRdata_ok (w ++ u16be a) (by have := hn.len; simp [u16be]; omega)]

/-- HINFO: two character-strings -/
theorem parseRdata_hinfo_text (cls : Nat) (s1 s2 : PString) (h1 : WFString s1) (h2 : WFString s2)
    (hnb : ¬ [92, 35] <+: stringText s1)
    (hG : ∀ i, i ≤ 1 → GapOK (G i) (S i) (S (i + 1))) (hT : TailOK tg cmt (S 2)) :
    parseRdata ctx cls 13 ⟨gapText (G 0) ++ (stringText s1 ++ (gapText (G 1) ++ (stringText s2 ++
        (tailText tg cmt eol ++ r)))), line, S 0⟩ =
      .ok (stringWire s1 ++ stringWire s2,
        ⟨r, line + gapLines (G 0) + stringLines s1 + gapLines (G 1) + stringLines s2 + gapLines tg + eolLines eol, false⟩) := by
  have hEnd := atFieldEnd_tail tg cmt _ hT eol r he
  have harm : findArm cls 13 = some "parse_hinfo_rdata" := by
    simp [findArm, Gen.parseRdataArms, armMatches, List.find?]
  rw [parseRdata_typed ctx cls 13 _ harm _ _ _ (hG 0 (by omega)) _ _ (stringText_starts s1 h1) hnb
    ((hG 1 (by omega)).atEnd _) line]
  show hinfoRdataBody _ = _
  unfold hinfoRdataBody
  have hl1 : (stringOctets s1).length ≤ 255 := by simpa [stringOctets] using h1.len
  have hl2 : (stringOctets s2).length ≤ 255 := by simpa [stringOctets] using h2.len
  simp only [bind, P.bind, parseCharacterString_render s1 h1 _ ((hG 1 (by omega)).atEnd _),
    (hG 1 (by omega)).skip _ _ ((stringText_starts s2 h2).append _),
    parseCharacterString_render s2 h2 _ hEnd, expectEol_tail tg cmt _ hT eol r he,
    mkRdata_ok (UInt8.ofNat (stringOctets s1).length :: stringOctets s1 ++
      UInt8.ofNat (stringOctets s2).length :: stringOctets s2) (by simp; omega)]
  simp [stringWire, stringOctets]

/-- the loop of TXT: one or more character-strings -/
theorem txtLoop_render (sl : Nat) (H : Nat → PGap) (Q : Nat → Bool) (s : PString) (ss : List PString) (i : Nat)
    (hwf : ∀ x ∈ s :: ss, WFString x)
    (hH : ∀ j, i ≤ j → j < i + ss.length → GapOK (H j) (Q j) (Q (j + 1)))
    (hT : TailOK tg cmt (Q (i + ss.length)))
    (acc : List UInt8) (hlen : acc.length + ((s :: ss).flatMap stringWire).length ≤ 65535) (line' : Nat) :
    txtLoop sl ⟨stringText s ++ (txtRest H i ss ++ (tailText tg cmt eol ++ r)), line', Q i⟩ acc =
      .ok (acc.reverse ++ (s :: ss).flatMap stringWire,
           ⟨r, line' + stringLines s + txtLines H i ss + gapLines tg + eolLines eol, false⟩) := by
  induction ss generalizing s acc line' i with
  | nil =>
    have hT' : TailOK tg cmt (Q i) := by simpa using hT
    have hEnd := atFieldEnd_tail tg cmt _ hT' eol r he
    have hs := hwf s (by simp)
    rw [txtLoop.eq_def]
    simp only [txtRest, List.nil_append, parseCharacterString_render s hs _ hEnd]
    have e : ¬ acc.length + (stringOctets s).length + 1 > 65535 := by
      simp [stringWire] at hlen; omega
    simp only [e, ↓reduceIte, fieldOrEol_tail tg cmt _ hT' eol r he]
    simp [stringWire, stringOctets, txtLines]
  | cons x ss ih =>
    have hs := hwf s (by simp)
    have hx := hwf x (by simp)
    have hg := hH i (by omega) (by simp)
    rw [txtLoop.eq_def]
    simp only [txtRest, List.append_assoc, parseCharacterString_render s hs _ (hg.atEnd _)]
    have e : ¬ acc.length + (stringOctets s).length + 1 > 65535 := by
      simp [stringWire] at hlen; omega
    have hXs : Starts (stringText x ++ (txtRest H (i + 1) ss ++ (tailText tg cmt eol ++ r))) :=
      (stringText_starts x hx).append _
    simp only [e, ↓reduceIte, fieldOrEol_gapG true (H i) (Q i) (Q (i + 1)) hg.wf hg.run _ hXs]
    have hgl : 0 < (gapText (H i)).length := gapText_pos hg.ne
    have hprog : (stringText x ++ (txtRest H (i + 1) ss ++ (tailText tg cmt eol ++ r))).length <
        (stringText s ++ (gapText (H i) ++ (stringText x ++ (txtRest H (i + 1) ss ++ (tailText tg cmt eol ++ r))))).length := by
      simp only [List.length_append]; omega
    simp only [hprog, ↓reduceIte]
    rw [ih x (i + 1) (fun y hy => hwf y (by simp [hy]))
      (fun j h1 h2 => hH j (by omega) (by simp; omega))
      (by have : i + 1 + ss.length = i + (x :: ss).length := by simp; omega
          rw [this]; exact hT) _ (by
      simp [stringWire] at hlen ⊢; omega)]
    simp only [txtLines, List.flatMap_cons, stringWire, stringOctets, List.reverse_append, List.reverse_cons,
      List.reverse_reverse, List.append_assoc, List.cons_append, List.nil_append, List.length_map]
    congr 3
    omega

/-- TXT: one or more character-strings -/
theorem parseRdata_txt_text (cls : Nat) (s : PString) (ss : List PString) (hwf : ∀ x ∈ s :: ss, WFString x)
    (hnb : ¬ [92, 35] <+: stringText s) (hlen : ((s :: ss).flatMap stringWire).length ≤ 65535)
    (hG : ∀ i, i ≤ ss.length → GapOK (G i) (S i) (S (i + 1))) (hT : TailOK tg cmt (S (ss.length + 1))) :
    parseRdata ctx cls 16 ⟨gapText (G 0) ++ (stringText s ++ (txtRest (fun i => G (i + 1)) 0 ss ++
        (tailText tg cmt eol ++ r))), line, S 0⟩ =
      .ok ((s :: ss).flatMap stringWire,
        ⟨r, line + gapLines (G 0) + stringLines s + txtLines (fun i => G (i + 1)) 0 ss + gapLines tg + eolLines eol, false⟩) := by
  have harm : findArm cls 16 = some "parse_txt_rdata" := by
    simp [findArm, Gen.parseRdataArms, armMatches, List.find?]
  have hE : atFieldEnd (txtRest (fun i => G (i + 1)) 0 ss ++ (tailText tg cmt eol ++ r)) = true := by
    cases ss with
    | nil => simpa [txtRest] using atFieldEnd_tail tg cmt _ hT eol r he
    | cons x ss =>
      simp only [txtRest, List.append_assoc]
      exact (hG 1 (by simp)).atEnd _
  rw [parseRdata_typed ctx cls 16 _ harm _ _ _ (hG 0 (by omega)) _ _ (stringText_starts s (hwf s (by simp))) hnb hE line]
  show txtRdataBody _ = _
  unfold txtRdataBody
  have := txtLoop_render tg cmt eol r he (line + gapLines (G 0)) (fun i => G (i + 1)) (fun i => S (i + 1)) s ss 0 hwf
    (fun j _ h2 => hG (j + 1) (by omega)) (by simpa [Nat.add_comm] using hT) [] (by simpa using hlen)
    (line + gapLines (G 0))
  simp only [bind, P.bind, getLine, this]
  simp only [List.reverse_nil, List.nil_append, mkRdata_ok _ hlen]

/-- the port loop of WKS -/
theorem wksLoop_render (sl : Nat) (H : Nat → PGap) (Q : Nat → Bool) (ports : List Nat) (i : Nat)
    (hp : ∀ p ∈ ports, p ≤ 65535)
    (hH : ∀ j, i ≤ j → j < i + ports.length → GapOK (H j) (Q j) (Q (j + 1)))
    (hT : TailOK tg cmt (Q (i + ports.length)))
    (acc : List Nat) (n : Nat) (hn : n + ports.length ≤ 65535) (line' : Nat) :
    wksLoop sl ⟨portsText H i ports ++ (tailText tg cmt eol ++ r), line', Q i⟩ acc n =
      .ok (acc.reverse ++ ports, ⟨r, line' + portsLines H i ports + gapLines tg + eolLines eol, false⟩) := by
  induction ports generalizing acc n line' i with
  | nil =>
    have hT' : TailOK tg cmt (Q i) := by simpa using hT
    rw [wksLoop.eq_def]
    simp only [portsText, List.nil_append, fieldOrEol_tail tg cmt _ hT' eol r he]
    simp [portsLines]
  | cons p ps ih =>
    have hg := hH i (by omega) (by simp)
    have hpp := hp p (by simp)
    have hE : atFieldEnd (portsText H (i + 1) ps ++ (tailText tg cmt eol ++ r)) = true := by
      cases ps with
      | nil =>
        have hT' : TailOK tg cmt (Q (i + 1)) := by simpa using hT
        simpa [portsText] using atFieldEnd_tail tg cmt _ hT' eol r he
      | cons x xs =>
        simp only [portsText, List.append_assoc]
        exact (hH (i + 1) (by omega) (by simp)).atEnd _
    have hXs : Starts (decimal p ++ (portsText H (i + 1) ps ++ (tailText tg cmt eol ++ r))) :=
      (starts_decimal p).append _
    rw [wksLoop.eq_def]
    simp only [portsText, List.append_assoc,
      fieldOrEol_gapG true (H i) (Q i) (Q (i + 1)) hg.wf hg.run _ hXs]
    have e : ¬ n ≥ 65535 := by simp at hn; omega
    simp only [e, ↓reduceIte, show parseU16 = parseUInt 65535 from rfl,
      readField_decimal 65535 p hpp (by omega) _ _ hE]
    have hgl : 0 < (gapText (H i)).length := gapText_pos hg.ne
    have hprog : (portsText H (i + 1) ps ++ (tailText tg cmt eol ++ r)).length <
        (gapText (H i) ++ (decimal p ++ (portsText H (i + 1) ps ++ (tailText tg cmt eol ++ r)))).length := by
      simp only [List.length_append]; omega
    simp only [hprog, ↓reduceIte]
    rw [ih (i + 1) (fun q hq => hp q (by simp [hq]))
      (fun j h1 h2 => hH j (by omega) (by simp; omega))
      (by have : i + 1 + ps.length = i + (p :: ps).length := by simp; omega
          rw [this]; exact hT) _ _ (by simp at hn ⊢; omega)]
    simp only [portsLines, List.reverse_cons, List.append_assoc, List.cons_append, List.nil_append]
    congr 3
    omega

/-- IN WKS: address, protocol, ports — whatever `serialize_in_wks` makes of them (`newInWks`) -/
theorem parseRdata_wks_text (a b c d : Nat) (ha : a ≤ 255) (hb : b ≤ 255) (hcc : c ≤ 255) (hd : d ≤ 255)
    (pr : PCode) (hpr : WFProto pr) (ports : List Nat) (hp : ∀ p ∈ ports, p ≤ 65535) (hlen : ports.length ≤ 65535)
    (hG : ∀ i, i ≤ 1 + ports.length → GapOK (G i) (S i) (S (i + 1))) (hT : TailOK tg cmt (S (1 + ports.length + 1))) :
    parseRdata ctx 1 11 ⟨gapText (G 0) ++ (quadText a b c d ++ (gapText (G 1) ++ (protoText pr ++
        (portsText (fun i => G (i + 1)) 1 ports ++ (tailText tg cmt eol ++ r))))), line, S 0⟩ =
      .ok (newInWks [UInt8.ofNat a, UInt8.ofNat b, UInt8.ofNat c, UInt8.ofNat d] pr.value ports,
        ⟨r, line + gapLines (G 0) + gapLines (G 1) + portsLines (fun i => G (i + 1)) 1 ports + gapLines tg + eolLines eol,
          false⟩) := by
  have harm : findArm 1 11 = some "parse_in_wks_rdata" := by decide
  have hE : atFieldEnd (portsText (fun i => G (i + 1)) 1 ports ++ (tailText tg cmt eol ++ r)) = true := by
    cases ports with
    | nil => simpa [portsText] using atFieldEnd_tail tg cmt _ (by simpa using hT) eol r he
    | cons x xs =>
      simp only [portsText, List.append_assoc]
      exact (hG 2 (by simp; omega)).atEnd _
  have hloop := wksLoop_render tg cmt eol r he (line + gapLines (G 0)) (fun i => G (i + 1)) (fun i => S (i + 1)) ports 1 hp
    (fun j _ h2 => hG (j + 1) (by omega)) (by simpa [Nat.add_comm, Nat.add_left_comm] using hT) [] 0 (by omega)
    (line + gapLines (G 0) + gapLines (G 1))
  have hmk := (newInWks_length [UInt8.ofNat a, UInt8.ofNat b, UInt8.ofNat c, UInt8.ofNat d] pr.value ports rfl hp).2
  have hq := quadText_length a b c d ha hb hcc hd
  rw [parseRdata_typed ctx 1 11 _ harm _ _ _ (hG 0 (by omega)) (quadText a b c d) _ ((starts_decimal a).append _)
    (by simpa [quadText] using decimal_not_bh a _) ((hG 1 (by omega)).atEnd _) line]
  show inWksRdataBody _ = _
  unfold inWksRdataBody
  simp only [Nat.zero_add]
  have hip := readField_plain parseIpv4 .InvalidIpv4 (quadText a b c d)
    (gapText (G 1) ++ (protoText pr ++ (portsText (fun i => G (i + 1)) 1 ports ++ (tailText tg cmt eol ++ r))))
    _ (quadText_plain a b c d) (by omega) ((hG 1 (by omega)).atEnd _)
    (parseIpv4_render a b c d (by omega) (by omega) (by omega) (by omega)) (line + gapLines (G 0)) (S 1)
  cases pr with
  | generic n =>
    have hn : n ≤ 255 := hpr
    obtain ⟨dd, ds, hdd, _⟩ := decimal_head n
    have hdig := decimal_digits n dd (by rw [hdd]; simp)
    have hS : Starts (protoText (.generic n) ++ (portsText (fun i => G (i + 1)) 1 ports ++ (tailText tg cmt eol ++ r))) :=
      (starts_decimal n).append _
    have h1 : ∀ l q, expectFieldCI [84, 67, 80] ⟨decimal n ++ (portsText (fun i => G (i + 1)) 1 ports ++ (tailText tg cmt eol ++ r)), l, q⟩ =
        (false, ⟨decimal n ++ (portsText (fun i => G (i + 1)) 1 ports ++ (tailText tg cmt eol ++ r)), l, q⟩) := by
      intro l q; rw [hdd]; exact expectFieldCI_head_ne _ _ _ _ (digit_not_t_u dd hdig).1 l q
    have h2 : ∀ l q, expectFieldCI [85, 68, 80] ⟨decimal n ++ (portsText (fun i => G (i + 1)) 1 ports ++ (tailText tg cmt eol ++ r)), l, q⟩ =
        (false, ⟨decimal n ++ (portsText (fun i => G (i + 1)) 1 ports ++ (tailText tg cmt eol ++ r)), l, q⟩) := by
      intro l q; rw [hdd]; exact expectFieldCI_head_ne _ _ _ _ (digit_not_t_u dd hdig).2 l q
    simp only [protoText] at hS hip ⊢
    simp only [PCode.value] at hmk
    simp only [bind, P.bind, getLine, hip, (hG 1 (by omega)).skip _ _ hS, liftB, tcp_bytes, udp_bytes, h1, h2,
      Bool.false_eq_true, ↓reduceIte, show parseU8 = parseUInt 255 from rfl,
      readField_decimal 255 n hn (by omega) _ _ hE, hloop, PCode.value, List.reverse_nil, List.nil_append,
      mkRdata_ok _ hmk]
  | mnemonic t v =>
    obtain ⟨m, hm, hu⟩ := (hpr : mnemonicFor protoMnemonics t v)
    rw [upperOctet_eq] at hu
    have hw := mnemonic_word (tbl := protoMnemonics) (by decide +kernel) hm
      (by simp only [protoMnemonics, List.mem_cons, Prod.mk.injEq, List.not_mem_nil, or_false] at hm
          rcases hm with ⟨rfl, _⟩ | ⟨rfl, _⟩ <;> decide +kernel)
      (by simp only [protoMnemonics, List.mem_cons, Prod.mk.injEq, List.not_mem_nil, or_false] at hm
          rcases hm with ⟨rfl, _⟩ | ⟨rfl, _⟩ <;> decide +kernel) hu
    have hS : Starts (t ++ (portsText (fun i => G (i + 1)) 1 ports ++ (tailText tg cmt eol ++ r))) := by
      obtain ⟨c0, t0, h0, hs0⟩ := hw.1.head (portsText (fun i => G (i + 1)) 1 ports ++ (tailText tg cmt eol ++ r))
      exact ⟨c0, t0, h0, hs0⟩
    simp only [protoMnemonics, List.mem_cons, Prod.mk.injEq, List.not_mem_nil, or_false] at hm
    simp only [protoText] at hip ⊢
    simp only [PCode.value] at hmk
    rcases hm with ⟨rfl, rfl⟩ | ⟨rfl, rfl⟩
    · rw [tcp_bytes] at hu
      have h1 : ∀ l q, expectFieldCI [84, 67, 80] ⟨t ++ (portsText (fun i => G (i + 1)) 1 ports ++ (tailText tg cmt eol ++ r)), l, q⟩ =
          (true, ⟨portsText (fun i => G (i + 1)) 1 ports ++ (tailText tg cmt eol ++ r), l, q⟩) :=
        fun l q => expectFieldCI_match _ t _ (by rw [hu]; decide) hE l q
      simp only [bind, P.bind, pure, P.pure, getLine, hip, (hG 1 (by omega)).skip _ _ hS, liftB, tcp_bytes, udp_bytes, h1,
        ↓reduceIte, hloop, PCode.value, List.reverse_nil, List.nil_append, mkRdata_ok _ hmk]
    · rw [udp_bytes] at hu
      have h2 : ∀ l q, expectFieldCI [85, 68, 80] ⟨t ++ (portsText (fun i => G (i + 1)) 1 ports ++ (tailText tg cmt eol ++ r)), l, q⟩ =
          (true, ⟨portsText (fun i => G (i + 1)) 1 ports ++ (tailText tg cmt eol ++ r), l, q⟩) :=
        fun l q => expectFieldCI_match _ t _ (by rw [hu]; decide) hE l q
      have h1 : ∀ l q, expectFieldCI [84, 67, 80] ⟨t ++ (portsText (fun i => G (i + 1)) 1 ports ++ (tailText tg cmt eol ++ r)), l, q⟩ =
          (false, ⟨t ++ (portsText (fun i => G (i + 1)) 1 ports ++ (tailText tg cmt eol ++ r)), l, q⟩) := by
        intro l q
        cases t with
        | nil => simp at hu
        | cons c0 t0 =>
          simp only [List.map_cons, List.cons.injEq] at hu
          exact expectFieldCI_head_ne _ _ _ _ (upperU_not_t c0 hu.1) l q
      simp only [bind, P.bind, pure, P.pure, getLine, hip, (hG 1 (by omega)).skip _ _ hS, liftB, tcp_bytes, udp_bytes, h1, h2,
        Bool.false_eq_true, ↓reduceIte, hloop, PCode.value, List.reverse_nil, List.nil_append, mkRdata_ok _ hmk]

end kinds

/-! ### all kinds together -/

/-- the text does not begin with the RFC 3597 marker `\#` (write a leading `#` as `\035`) -/
abbrev notBh (T : List UInt8) : Prop := ¬ [92, 35] <+: T

/-- WKS and known finding D18: the bit map the parser builds is the RFC's when the repository
    sets the bits most significant first; with the other order (`1 << (port % 8)`) only when
    every octet of the bit map reads the same in both directions (no ports at all; ports 0 and 7
    together; …) — see `newInWksWith_eq` for what it is otherwise -/
def WksOrderOK (ports : List Nat) : Prop :=
  Gen.wksMaskMsbFirst = true ∨ ∀ o ∈ wksBitmap ports, revBits o = o

instance (ports : List Nat) : Decidable (WksOrderOK ports) := by unfold WksOrderOK; infer_instance

theorem newInWks_of_orderOK (addr : List UInt8) (proto : Nat) (ports : List Nat) (h : WksOrderOK ports) :
    newInWks addr proto ports = wksWire addr proto ports := by
  unfold newInWks wksWire
  rw [newInWksWith_eq]
  rcases h with h | h
  · simp [h]
  · cases Gen.wksMaskMsbFirst
    · simp only [Bool.false_eq_true, ↓reduceIte]
      rw [List.map_congr_left h, List.map_id']
    · simp

/-- what the writer of RDATA must respect: numbers in range, names and strings well formed -/
def WFRdata : PRdata → Prop
  | .generic rd => rd.length ≤ 65535
  | .a a b c d => a ≤ 255 ∧ b ≤ 255 ∧ c ≤ 255 ∧ d ≤ 255
  | .name n => WFName n ∧ notBh (nameText n)
  | .mx p n => p ≤ 65535 ∧ WFName n
  | .soa m r s1 s2 s3 s4 s5 => WFName m ∧ WFName r ∧ notBh (nameText m) ∧ s1 ≤ 4294967295 ∧ s2 ≤ 4294967295 ∧
      s3 ≤ 4294967295 ∧ s4 ≤ 4294967295 ∧ s5 ≤ 4294967295
  | .minfo r e => WFName r ∧ WFName e ∧ notBh (nameText r)
  | .srv p w port n => p ≤ 65535 ∧ w ≤ 65535 ∧ port ≤ 65535 ∧ WFName n
  | .txt s ss => (∀ x ∈ s :: ss, WFString x) ∧ notBh (stringText s) ∧ ((s :: ss).flatMap stringWire).length ≤ 65535
  | .hinfo c o => WFString c ∧ WFString o ∧ notBh (stringText c)
  | .aaaa gs => gs.length = 8 ∧ ∀ g ∈ gs, g < 65536
  | .chA n a => WFName n ∧ notBh (nameText n) ∧ a ≤ 65535
  | .aaaaC hd tl => hd.length + tl.length ≤ 7 ∧ (∀ g ∈ hd, g < 65536) ∧ ∀ g ∈ tl, g < 65536
  | .aaaaV4 hd none a b c d => hd.length = 6 ∧ (∀ g ∈ hd, g < 65536) ∧ a ≤ 255 ∧ b ≤ 255 ∧ c ≤ 255 ∧ d ≤ 255
  | .aaaaV4 hd (some tl) a b c d => hd.length + tl.length + 2 ≤ 7 ∧ (∀ g ∈ hd, g < 65536) ∧ (∀ g ∈ tl, g < 65536) ∧
      a ≤ 255 ∧ b ≤ 255 ∧ c ≤ 255 ∧ d ≤ 255
  | .wks a b c d pr ports => a ≤ 255 ∧ b ≤ 255 ∧ c ≤ 255 ∧ d ≤ 255 ∧ WFProto pr ∧ (∀ p ∈ ports, p ≤ 65535) ∧
      ports.length ≤ 65535 ∧ WksOrderOK ports

/-- **RDATA.**  The text of well-formed RDATA of the right kind for `(cls, ty)`, with any
    well-formed gaps before, inside and after it, is read back by `parse_rdata` as the RDATA it
    denotes (RFC 3597 form: provided that is valid for the type) -/
theorem parseRdata_render (ctx : Ctx) (hctx : CtxWF ctx) (cls ty : Nat) (h41 : ty ≠ 41) (h250 : ty ≠ 250)
    (G : Nat → PGap) (S : Nat → Bool) (tg : PGap) (cmt : List UInt8) (eol : PEol) (r : List UInt8) (he : eol = .eof → r = [])
    (rd : PRdata) (hG : ∀ i, i ≤ rdataGaps rd → GapOK (G i) (S i) (S (i + 1)))
    (hT : TailOK tg cmt (S (rdataGaps rd + 1))) (hwf : WFRdata rd)
    (hk : kindOK cls ty rd = true) (w : List UInt8) (hw : rdataWire ctx.origin rd = some w)
    (hv : ∀ g, rd = .generic g → validate cls ty g = .ok ()) (line : Nat) :
    parseRdata ctx cls ty
      ⟨gapText (G 0) ++ (rdataText (fun i => G (i + 1)) rd ++ (tailText tg cmt eol ++ r)), line, S 0⟩ =
      .ok (w, ⟨r, line + gapLines (G 0) + rdataLines (fun i => G (i + 1)) rd + gapLines tg + eolLines eol, false⟩) := by
  have hO := hctx.1
  cases rd with
  | generic g =>
    simp only [rdataWire, Option.some.injEq] at hw
    subst hw
    by_cases hg : g = []
    · subst hg
      simp only [rdataGaps, List.isEmpty_nil, ↓reduceIte] at hG hT
      have := parseRdata_genericG ctx cls ty h41 h250 (G 0) (G 1) (G 2) (S 0) (S 1) (S 2) (S 2) [] (hG 0 (by omega))
        (hG 1 (by omega)) (by simp) (by simp) tg cmt hT eol r he (by simp) (hv [] rfl) line
      simpa [rdataText, rdataLines] using this
    · have hge : g.isEmpty = false := by cases g <;> simp at hg ⊢
      simp only [rdataGaps, hge, Bool.false_eq_true, ↓reduceIte] at hG hT
      have := parseRdata_genericG ctx cls ty h41 h250 (G 0) (G 1) (G 2) (S 0) (S 1) (S 2) (S 3) g (hG 0 (by omega))
        (hG 1 (by omega)) (fun _ => hG 2 (by omega)) (fun h => absurd h hg) tg cmt hT eol r he hwf (hv g rfl) line
      simpa [rdataText, rdataLines, hge, Nat.add_assoc] using this
  | a a b c d =>
    obtain ⟨ha, hb, hcc, hd⟩ := hwf
    simp only [kindOK, Bool.and_eq_true, beq_iff_eq] at hk
    obtain ⟨rfl, rfl⟩ := hk
    simp only [rdataWire, Option.some.injEq] at hw
    subst hw
    have := parseRdata_a_text ctx G S tg cmt eol r he line a b c d ha hb hcc hd hG hT
    simpa [rdataText, rdataLines] using this
  | name n =>
    obtain ⟨hn, hnb⟩ := hwf
    have := parseRdata_name_text ctx G S tg cmt eol r he line cls ty (by simpa [kindOK] using hk)
      (nameText n) w (nameLines n) (nameText_ok ctx.origin hO n hn w hw) hnb hG hT
    simpa [rdataText, rdataLines] using this
  | mx p n =>
    obtain ⟨hp, hn⟩ := hwf
    simp only [kindOK, beq_iff_eq] at hk
    subst hk
    simp only [rdataWire, Option.map_eq_some_iff] at hw
    obtain ⟨wn, hwn, rfl⟩ := hw
    have := parseRdata_mx_text ctx G S tg cmt eol r he line cls p hp (nameText n) wn (nameLines n)
      (nameText_ok ctx.origin hO n hn wn hwn) hG hT
    simpa [rdataText, rdataLines, u16Wire, u16be, Nat.add_assoc] using this
  | soa m rn s1 s2 s3 s4 s5 =>
    obtain ⟨hm, hr, hnb, b1, b2, b3, b4, b5⟩ := hwf
    simp only [kindOK, beq_iff_eq] at hk
    subst hk
    simp only [rdataWire] at hw
    split at hw
    · next wm wr hwm hwr =>
      simp only [Option.some.injEq] at hw
      subst hw
      have := parseRdata_soa_text ctx G S tg cmt eol r he line cls (nameText m) wm (nameLines m)
        (nameText rn) wr (nameLines rn) (nameText_ok ctx.origin hO m hm wm hwm)
        (nameText_ok ctx.origin hO rn hr wr hwr) hnb s1 s2 s3 s4 s5 b1 b2 b3 b4 b5 hG hT
      simpa [rdataText, rdataLines, u32Wire, u32be, Nat.add_assoc] using this
    · cases hw
  | minfo rn e =>
    obtain ⟨hr, hwe, hnb⟩ := hwf
    simp only [kindOK, beq_iff_eq] at hk
    subst hk
    simp only [rdataWire] at hw
    split at hw
    · next wr we hwr hwe' =>
      simp only [Option.some.injEq] at hw
      subst hw
      have := parseRdata_minfo_text ctx G S tg cmt eol r he line cls (nameText rn) wr (nameLines rn)
        (nameText e) we (nameLines e) (nameText_ok ctx.origin hO rn hr wr hwr)
        (nameText_ok ctx.origin hO e hwe we hwe') hnb hG hT
      simpa [rdataText, rdataLines, Nat.add_assoc] using this
    · cases hw
  | srv p wt port n =>
    obtain ⟨hp, hwt, hport, hn⟩ := hwf
    simp only [kindOK, Bool.and_eq_true, beq_iff_eq] at hk
    obtain ⟨rfl, rfl⟩ := hk
    simp only [rdataWire, Option.map_eq_some_iff] at hw
    obtain ⟨wn, hwn, rfl⟩ := hw
    have := parseRdata_srv_text ctx G S tg cmt eol r he line p wt port hp hwt hport (nameText n) wn
      (nameLines n) (nameText_ok ctx.origin hO n hn wn hwn) hG hT
    simpa [rdataText, rdataLines, u16Wire, u16be, Nat.add_assoc] using this
  | txt s ss =>
    obtain ⟨hss, hnb, hlen⟩ := hwf
    simp only [kindOK, beq_iff_eq] at hk
    subst hk
    simp only [rdataWire, Option.some.injEq] at hw
    subst hw
    have := parseRdata_txt_text ctx G S tg cmt eol r he line cls s ss hss hnb hlen hG hT
    simpa [rdataText, rdataLines, Nat.add_assoc] using this
  | hinfo c o =>
    obtain ⟨h1, h2, hnb⟩ := hwf
    simp only [kindOK, beq_iff_eq] at hk
    subst hk
    simp only [rdataWire, Option.some.injEq] at hw
    subst hw
    have := parseRdata_hinfo_text ctx G S tg cmt eol r he line cls c o h1 h2 hnb hG hT
    simpa [rdataText, rdataLines, Nat.add_assoc] using this
  | aaaa gs =>
    obtain ⟨hlen, hgs⟩ := hwf
    simp only [kindOK, Bool.and_eq_true, beq_iff_eq] at hk
    obtain ⟨rfl, rfl⟩ := hk
    simp only [rdataWire, Option.some.injEq] at hw
    subst hw
    have := parseRdata_aaaa_text ctx G S tg cmt eol r he line gs hlen hgs hG hT
    have hw : ∀ l : List Nat, (∀ g ∈ l, g < 65536) → l.flatMap u16be' = l.flatMap u16Wire := by
      intro l
      induction l with
      | nil => intro _; rfl
      | cons g l ih =>
        intro h
        have hg := h g (by simp)
        simp only [List.flatMap_cons, ih (fun x hx => h x (by simp [hx])), u16be', u16Wire]
        rw [Nat.mod_eq_of_lt (by omega : g / 256 < 256)]
    rw [hw gs hgs] at this
    simpa [rdataText, rdataLines] using this
  | chA n a =>
    obtain ⟨hn, hnb, ha⟩ := hwf
    simp only [kindOK, Bool.and_eq_true, beq_iff_eq] at hk
    obtain ⟨rfl, rfl⟩ := hk
    simp only [rdataWire, Option.map_eq_some_iff] at hw
    obtain ⟨wn, hwn, rfl⟩ := hw
    have := parseRdata_chA_text ctx G S tg cmt eol r he line (nameText n) wn (nameLines n)
      (nameText_ok ctx.origin hO n hn wn hwn) hnb a ha hG hT
    simpa [rdataText, rdataLines, u16Wire, u16be, Nat.add_assoc, Nat.add_comm (gapLines (G 0))] using this
  | aaaaC hd tl =>
    obtain ⟨hlen, hhd, htl⟩ := hwf
    simp only [kindOK, Bool.and_eq_true, beq_iff_eq] at hk
    obtain ⟨rfl, rfl⟩ := hk
    simp only [rdataWire, Option.some.injEq] at hw
    subst hw
    have := parseRdata_aaaaC_text ctx G S tg cmt eol r he line hd tl hlen hhd htl hG hT
    have hw : ∀ l : List Nat, (∀ g ∈ l, g < 65536) → l.flatMap u16be' = l.flatMap u16Wire := by
      intro l
      induction l with
      | nil => intro _; rfl
      | cons g l ih =>
        intro h
        have hg := h g (by simp)
        simp only [List.flatMap_cons, ih (fun x hx => h x (by simp [hx])), u16be', u16Wire]
        rw [Nat.mod_eq_of_lt (by omega : g / 256 < 256)]
    rw [hw _ (by
      intro g hg
      simp only [List.mem_append, List.mem_replicate] at hg
      rcases hg with (h | ⟨_, rfl⟩) | h
      · exact hhd g h
      · decide
      · exact htl g h)] at this
    simpa [rdataText, rdataLines] using this
  | aaaaV4 hd tlo a b c d =>
    simp only [kindOK, Bool.and_eq_true, beq_iff_eq] at hk
    obtain ⟨rfl, rfl⟩ := hk
    have hw16 : ∀ l : List Nat, (∀ g ∈ l, g < 65536) → l.flatMap u16be' = l.flatMap u16Wire := by
      intro l
      induction l with
      | nil => intro _; rfl
      | cons g l ih =>
        intro h
        have hg := h g (by simp)
        simp only [List.flatMap_cons, ih (fun x hx => h x (by simp [hx])), u16be', u16Wire]
        rw [Nat.mod_eq_of_lt (by omega : g / 256 < 256)]
    have hlen2 : ∀ (l : List Nat), (l.flatMap u16Wire).length = 2 * l.length := by
      intro l; induction l with
      | nil => rfl
      | cons g l ih => simp [u16Wire, ih]; omega
    cases tlo with
    | none =>
      obtain ⟨hlen, hhd, ha, hb, hc, hdq⟩ := hwf
      simp only [rdataWire, Option.some.injEq] at hw
      subst hw
      obtain ⟨q1, q2⟩ := quadText_length a b c d ha hb hc hdq
      obtain ⟨f1, f2, f3⟩ := groupsThenQuad_facts hd hhd (quadText a b c d) (quadText_plain a b c d) q2
      have hp := parseIpv6_full_v4 hd hlen hhd a b c d (by omega) (by omega) (by omega) (by omega)
      rw [(runV_eq _ hd).1, hw16 hd hhd] at hp
      have := parseRdata_aaaa_gen ctx G S tg cmt eol r he line _ _ f1 f2 (by omega) hp
        (by simp [hlen2, hlen]) hG hT
      simpa [rdataText, rdataLines] using this
    | some tl =>
      obtain ⟨hlen, hhd, htl, ha, hb, hc, hdq⟩ := hwf
      simp only [rdataWire, Option.some.injEq] at hw
      subst hw
      obtain ⟨q1, q2⟩ := quadText_length a b c d ha hb hc hdq
      obtain ⟨f1, f2, f3⟩ := groupsThenQuad_facts tl htl (quadText a b c d) (quadText_plain a b c d) q2
      have hp := parseIpv6_compressed_v4 hd tl hlen hhd htl a b c d (by omega) (by omega) (by omega) (by omega)
      rw [(runV_eq _ tl).1, hw16 _ (by
        intro g hg
        simp only [List.mem_append, List.mem_replicate] at hg
        rcases hg with (h | ⟨_, rfl⟩) | h
        · exact hhd g h
        · decide
        · exact htl g h)] at hp
      have hplain : ∀ x ∈ groupsText hd ++ (58 :: 58 :: groupsThenQuad tl (quadText a b c d)), plainOctet x = true := by
        intro x hx
        simp only [List.mem_append, List.mem_cons] at hx
        rcases hx with h | rfl | rfl | h
        · exact groupsText_plain hd x h
        · decide
        · decide
        · exact f1 x h
      have hl1 := groupsText_length hd hhd
      have := parseRdata_aaaa_gen ctx G S tg cmt eol r he line _ _ hplain (by simp)
        (by simp only [List.length_append, List.length_cons]; omega) hp
        (by simp [hlen2]; omega) hG hT
      simpa [rdataText, rdataLines] using this
  | wks a b c d pr ports =>
    obtain ⟨ha, hb, hcc, hd, hpr, hp, hlen, hord⟩ := hwf
    simp only [kindOK, Bool.and_eq_true, beq_iff_eq] at hk
    obtain ⟨rfl, rfl⟩ := hk
    simp only [rdataWire, Option.some.injEq] at hw
    subst hw
    simp only [rdataGaps] at hG hT
    have := parseRdata_wks_text ctx G S tg cmt eol r he line a b c d ha hb hcc hd pr hpr ports hp hlen hG hT
    rw [newInWks_of_orderOK _ _ _ hord] at this
    simpa [rdataText, rdataLines, Nat.add_assoc] using this

end QV.ZF
