/-
  QV.Proofs.ZoneFile.Rdata — `parse_rdata` on the typed presentation of RDATA (C23): one lemma
  `parseRdata_render_<kind>` per syntax.
-/
import QV.Proofs.ZoneFile.Fields

namespace QV.ZF
open QV QV.Spec.ZF

/-! ### names as fields -/

/-- a text that `parse_name` reads as `w`, crossing `k` newlines -/
structure NameTextOK (origin : Option (List UInt8)) (T w : List UInt8) (k : Nat) : Prop where
  starts : Starts T
  len : w.length ≤ 255
  parse : ∀ rest line paren, atFieldEnd rest = true →
    parseName origin ⟨T ++ rest, line, paren⟩ = .ok (w, ⟨rest, line + k, paren⟩)

/-- what the writer of a name must respect (RFC 1035 §2.3.4, §5.1): labels of 1–63 octets, at
    most 255 octets in all, specials escaped, a relative name not the single octet `@` -/
def WFName : PName → Prop
  | .abs ls => ls ≠ [] ∧ (∀ l ∈ ls, ∀ x ∈ l, nameFormOK x.1 x.2 = true) ∧ LabelsOK (ls.map labelOctets) ∧
      (flatLabels (ls.map labelOctets)).length + 1 ≤ 255
  | .rel ls l => (∀ l' ∈ ls ++ [l], ∀ x ∈ l', nameFormOK x.1 x.2 = true) ∧
      LabelsOK ((ls ++ [l]).map labelOctets) ∧ renderLabels (ls ++ [l]) ≠ [64]
  | .atSign => True

theorem nameNewlines_eq (ls : List PLabel) : nameNewlines ls = labelLines ls := rfl

theorem wireLabels_eq (ls : List (List UInt8)) : wireLabels ls = flatLabels ls := rfl

theorem labels_head {ls : List PLabel} {l : PLabel} (hforms : ∀ l' ∈ ls ++ [l], ∀ x ∈ l', nameFormOK x.1 x.2 = true)
    (hLs : LabelsOK ((ls ++ [l]).map labelOctets)) :
    ∃ c t, renderLabels (ls ++ [l]) = c :: t ∧ fieldStart c := by
  rw [renderLabels_snoc]
  cases ls with
  | nil =>
    have hne : l ≠ [] := label_nonempty (hLs (labelOctets l) (by simp)).1
    obtain ⟨c, t, hct, _, hend⟩ := renderLabel_head hne (hforms l (by simp))
    exact ⟨c, t, by simp [hct], hend⟩
  | cons x ls' =>
    have hne : x ≠ [] := label_nonempty (hLs (labelOctets x) (by simp)).1
    obtain ⟨c, t, hct, _, hend⟩ := renderLabel_head hne (hforms x (by simp))
    exact ⟨c, _, by simp [hct]; rfl, hend⟩

theorem abs_head {ls : List PLabel} (hne : ls ≠ []) (hforms : ∀ l ∈ ls, ∀ x ∈ l, nameFormOK x.1 x.2 = true)
    (hLs : LabelsOK (ls.map labelOctets)) : Starts (renderAbsName ls) := by
  cases ls with
  | nil => exact absurd rfl hne
  | cons l ls' =>
    have hlne : l ≠ [] := label_nonempty (hLs (labelOctets l) (by simp)).1
    obtain ⟨c0, t0, hct0, _, hc0⟩ := renderLabel_head hlne (hforms l (by simp))
    exact ⟨c0, t0 ++ 46 :: (ls'.flatMap fun l => renderLabel l ++ [46]), by simp [renderAbsName, hct0], hc0⟩

/-- **Names**: a well-formed name text is read by `parse_name` as the name it denotes -/
theorem nameText_ok (origin : Option (List UInt8)) (hO : ∀ o, origin = some o → NameWF o) (n : PName)
    (hwf : WFName n) (w : List UInt8) (hw : nameWire origin n = some w) :
    NameTextOK origin (nameText n) w (nameLines n) := by
  cases n with
  | abs ls =>
    obtain ⟨hne, hforms, hLs, htotal⟩ := hwf
    simp only [nameWire, Option.some.injEq] at hw
    subst hw
    refine ⟨abs_head hne hforms hLs, ?_, fun rest line paren hrest => ?_⟩
    · have : (wireName (ls.map labelOctets)).length = (flatLabels (ls.map labelOctets)).length + 1 := by
        simp [wireName, flatLabels, encLabel]
      omega
    · exact parseName_abs origin ls hne hforms hLs htotal rest hrest line paren
  | rel ls l =>
    obtain ⟨hforms, hLs, hnotat⟩ := hwf
    cases ho : origin with
    | none => simp [nameWire, ho] at hw
    | some o =>
      simp only [nameWire, ho] at hw
      split at hw
      · next hfit =>
        simp only [Option.some.injEq] at hw
        subst hw
        refine ⟨labels_head hforms hLs, by simpa using hfit, fun rest line paren hrest => ?_⟩
        exact parseName_rel o (hO o ho) ls l hforms hLs hfit hnotat rest hrest line paren
      · cases hw
  | atSign =>
    simp only [nameWire] at hw
    subst hw
    obtain ⟨_, _, _, hlen⟩ := hO w rfl
    exact ⟨⟨64, [], rfl, .inr (by decide)⟩, hlen, fun rest line paren hrest => parseName_at w rest hrest line paren⟩

/-! ### from `parse_rdata` to the typed body -/

theorem expectBh_false (T rest : List UInt8) (hne : T ≠ []) (hnb : ¬ [92, 35] <+: T)
    (hrest : atFieldEnd rest = true) (line : Nat) (paren : Bool) :
    expectField [92, 35] ⟨T ++ rest, line, paren⟩ = (false, ⟨T ++ rest, line, paren⟩) := by
  unfold expectField expectFieldImpl
  split
  · rfl
  · split
    · next h =>
      exfalso
      simp only [Bool.and_eq_true, beq_iff_eq] at h
      obtain ⟨h1, h2⟩ := h
      match T, hne, hnb with
      | [c], _, _ =>
        cases rest with
        | nil => simp at h1
        | cons d r =>
          simp at h1
          obtain ⟨_, rfl⟩ := h1
          simp [atFieldEnd, eolLen, endsField, isWs] at hrest
      | c :: d :: t, _, hnb =>
        simp at h1
        obtain ⟨rfl, rfl⟩ := h1
        exact hnb ⟨t, rfl⟩
    · rfl

theorem checkBackslashHash_false (k : Kind) (sep : List UInt8) (hsep : ∀ x ∈ sep, isWs x = true)
    (T rest : List UInt8) (hT : Starts T) (hnb : ¬ [92, 35] <+: T) (hrest : atFieldEnd rest = true)
    (line : Nat) (paren : Bool) :
    checkBackslashHash k ⟨sep ++ (T ++ rest), line, paren⟩ = .ok (false, ⟨T ++ rest, line, paren⟩) := by
  unfold checkBackslashHash
  obtain ⟨c, t, hct, hc⟩ := hT.append rest
  simp only [bind, P.bind, hct, skipToNextField_gap k sep hsep c t hc line paren]
  rw [← hct]
  simp [liftB, expectBh_false T rest hT.ne_nil hnb hrest line paren]

/-- a typed text (not `\#`) goes to the typed body of the handler for its class and type -/
theorem parseRdata_typed (ctx : Ctx) (cls ty : Nat) (name : String) (harm : findArm cls ty = some name)
    (sep : List UInt8) (hsep : ∀ x ∈ sep, isWs x = true) (T rest : List UInt8) (hT : Starts T)
    (hnb : ¬ [92, 35] <+: T) (hrest : atFieldEnd rest = true) (line : Nat) (paren : Bool) :
    parseRdata ctx cls ty ⟨sep ++ (T ++ rest), line, paren⟩ = handlerBody name ctx ⟨T ++ rest, line, paren⟩ := by
  obtain ⟨e, hfind, _⟩ := handler_lookup (findArm_mem harm)
  unfold parseRdata
  simp only [harm, runHandler, hfind, bind, P.bind,
    checkBackslashHash_false _ sep hsep T rest hT hnb hrest line paren]
  rfl

theorem mkRdata_ok (l : List UInt8) (h : l.length ≤ 65535) (st : St) : mkRdata l st = .ok (l, st) := by
  unfold mkRdata
  have : ¬ l.length > 65535 := by omega
  simp [this]

theorem decimal_not_bh (n : Nat) (rest : List UInt8) : ¬ [92, 35] <+: decimal n ++ rest := by
  obtain ⟨d, ds, hd, _⟩ := decimal_head n
  have hdig := decimal_digits n d (by rw [hd]; simp)
  rw [hd]
  rintro ⟨t, ht⟩
  simp at ht
  obtain ⟨rfl, _⟩ := ht
  simp [isDigit] at hdig

/-! ### the kinds -/

section kinds
variable (ctx : Ctx) (sep ws cmt r : List UInt8) (hne : sep ≠ []) (hsep : ∀ x ∈ sep, isWs x = true)
  (hws : ∀ x ∈ ws, isWs x = true) (hc : commentOK cmt) (line : Nat)
include hne hsep hws hc

/-- NS, MD, MF, CNAME, MB, MG, MR, PTR: one name -/
theorem parseRdata_name_text (cls ty : Nat) (hty : [2, 3, 4, 5, 7, 8, 9, 12].contains ty = true)
    (T w : List UInt8) (k : Nat) (hn : NameTextOK ctx.origin T w k) (hnb : ¬ [92, 35] <+: T) :
    parseRdata ctx cls ty ⟨sep ++ (T ++ (ws ++ (cmt ++ 10 :: r))), line, false⟩ =
      .ok (w, ⟨r, line + k + 1, false⟩) := by
  have hEnd := atFieldEnd_eol ws cmt r hws hc
  have harm : findArm cls ty = some "parse_name_rdata" := by
    simp only [List.contains_iff_mem, List.mem_cons, List.mem_nil_iff, or_false] at hty
    rcases hty with rfl | rfl | rfl | rfl | rfl | rfl | rfl | rfl <;>
      simp [findArm, Gen.parseRdataArms, armMatches, List.find?]
  rw [parseRdata_typed ctx cls ty _ harm sep hsep T _ hn.starts hnb hEnd line false]
  show nameRdataBody ctx _ = _
  unfold nameRdataBody
  simp only [bind, P.bind, pName, hn.parse _ line false hEnd, expectEol_eol ws cmt r hws hc,
    mkRdata_ok w (by have := hn.len; omega)]

/-- MX: preference and exchange -/
theorem parseRdata_mx_text (cls : Nat) (p : Nat) (hp : p ≤ 65535) (T w : List UInt8) (k : Nat)
    (hn : NameTextOK ctx.origin T w k) :
    parseRdata ctx cls 15 ⟨sep ++ (decimal p ++ (sep ++ (T ++ (ws ++ (cmt ++ 10 :: r))))), line, false⟩ =
      .ok (u16be p ++ w, ⟨r, line + k + 1, false⟩) := by
  have hEnd := atFieldEnd_eol ws cmt r hws hc
  have harm : findArm cls 15 = some "parse_mx_rdata" := by
    simp [findArm, Gen.parseRdataArms, armMatches, List.find?]
  rw [parseRdata_typed ctx cls 15 _ harm sep hsep (decimal p) _ (starts_decimal p)
    (by simpa using decimal_not_bh p []) (atFieldEnd_sep sep _ hne hsep) line false]
  show mxRdataBody ctx _ = _
  unfold mxRdataBody
  simp only [bind, P.bind, pName, show parseU16 = parseUInt 65535 from rfl,
    readField_decimal 65535 p hp (by omega) _ _ (atFieldEnd_sep sep _ hne hsep) line false,
    skipTo _ sep _ hsep (hn.starts.append _) line false,
    hn.parse _ line false hEnd, expectEol_eol ws cmt r hws hc,
    mkRdata_ok (u16be p ++ w) (by have := hn.len; simp [u16be]; omega)]

/-- MINFO: two names -/
theorem parseRdata_minfo_text (cls : Nat) (T1 w1 : List UInt8) (k1 : Nat) (T2 w2 : List UInt8) (k2 : Nat)
    (h1 : NameTextOK ctx.origin T1 w1 k1) (h2 : NameTextOK ctx.origin T2 w2 k2) (hnb : ¬ [92, 35] <+: T1) :
    parseRdata ctx cls 14 ⟨sep ++ (T1 ++ (sep ++ (T2 ++ (ws ++ (cmt ++ 10 :: r))))), line, false⟩ =
      .ok (w1 ++ w2, ⟨r, line + k1 + k2 + 1, false⟩) := by
  have hEnd := atFieldEnd_eol ws cmt r hws hc
  have harm : findArm cls 14 = some "parse_minfo_rdata" := by
    simp [findArm, Gen.parseRdataArms, armMatches, List.find?]
  rw [parseRdata_typed ctx cls 14 _ harm sep hsep T1 _ h1.starts hnb (atFieldEnd_sep sep _ hne hsep) line false]
  show minfoRdataBody ctx _ = _
  unfold minfoRdataBody
  simp only [bind, P.bind, pName, h1.parse _ line false (atFieldEnd_sep sep _ hne hsep),
    skipTo _ sep _ hsep (h2.starts.append _) (line + k1) false,
    h2.parse _ (line + k1) false hEnd, expectEol_eol ws cmt r hws hc,
    mkRdata_ok (w1 ++ w2) (by have := h1.len; have := h2.len; simp; omega)]

/-- SRV: priority, weight, port, target -/
theorem parseRdata_srv_text (p wt port : Nat) (hp : p ≤ 65535) (hwt : wt ≤ 65535) (hport : port ≤ 65535)
    (T w : List UInt8) (k : Nat) (hn : NameTextOK ctx.origin T w k) :
    parseRdata ctx 1 33 ⟨sep ++ (decimal p ++ (sep ++ (decimal wt ++ (sep ++ (decimal port ++ (sep ++
        (T ++ (ws ++ (cmt ++ 10 :: r))))))))), line, false⟩ =
      .ok (u16be p ++ u16be wt ++ u16be port ++ w, ⟨r, line + k + 1, false⟩) := by
  have hEnd := atFieldEnd_eol ws cmt r hws hc
  have hS : ∀ X, atFieldEnd (sep ++ X) = true := fun X => atFieldEnd_sep sep X hne hsep
  have harm : findArm 1 33 = some "parse_in_srv_rdata" := by decide
  rw [parseRdata_typed ctx 1 33 _ harm sep hsep (decimal p) _ (starts_decimal p)
    (by simpa using decimal_not_bh p []) (hS _) line false]
  show inSrvRdataBody ctx _ = _
  unfold inSrvRdataBody
  simp only [bind, P.bind, pName, show parseU16 = parseUInt 65535 from rfl,
    readField_decimal 65535 p hp (by omega) _ _ (hS _) line false,
    readField_decimal 65535 wt hwt (by omega) _ _ (hS _) line false,
    readField_decimal 65535 port hport (by omega) _ _ (hS _) line false,
    skipTo _ sep _ hsep ((starts_decimal wt).append _) line false,
    skipTo _ sep _ hsep ((starts_decimal port).append _) line false,
    skipTo _ sep _ hsep (hn.starts.append _) line false,
    hn.parse _ line false hEnd, expectEol_eol ws cmt r hws hc,
    mkRdata_ok (u16be p ++ u16be wt ++ u16be port ++ w) (by have := hn.len; simp [u16be]; omega)]

/-- SOA: two names and five 32-bit numbers -/
theorem parseRdata_soa_text (cls : Nat) (T1 w1 : List UInt8) (k1 : Nat) (T2 w2 : List UInt8) (k2 : Nat)
    (h1 : NameTextOK ctx.origin T1 w1 k1) (h2 : NameTextOK ctx.origin T2 w2 k2) (hnb : ¬ [92, 35] <+: T1)
    (s1 s2 s3 s4 s5 : Nat) (b1 : s1 ≤ 4294967295) (b2 : s2 ≤ 4294967295) (b3 : s3 ≤ 4294967295)
    (b4 : s4 ≤ 4294967295) (b5 : s5 ≤ 4294967295) :
    parseRdata ctx cls 6 ⟨sep ++ (T1 ++ (sep ++ (T2 ++ (sep ++ (decimal s1 ++ (sep ++ (decimal s2 ++ (sep ++
        (decimal s3 ++ (sep ++ (decimal s4 ++ (sep ++ (decimal s5 ++ (ws ++ (cmt ++ 10 :: r))))))))))))))),
        line, false⟩ =
      .ok (w1 ++ w2 ++ u32be s1 ++ u32be s2 ++ u32be s3 ++ u32be s4 ++ u32be s5,
           ⟨r, line + k1 + k2 + 1, false⟩) := by
  have hEnd := atFieldEnd_eol ws cmt r hws hc
  have hS : ∀ X, atFieldEnd (sep ++ X) = true := fun X => atFieldEnd_sep sep X hne hsep
  have harm : findArm cls 6 = some "parse_soa_rdata" := by
    simp [findArm, Gen.parseRdataArms, armMatches, List.find?]
  rw [parseRdata_typed ctx cls 6 _ harm sep hsep T1 _ h1.starts hnb (hS _) line false]
  show soaRdataBody ctx _ = _
  unfold soaRdataBody
  simp only [bind, P.bind, pName, show parseU32 = parseUInt 4294967295 from rfl,
    h1.parse _ line false (hS _),
    skipTo _ sep _ hsep (h2.starts.append _) (line + k1) false,
    h2.parse _ (line + k1) false (hS _),
    skipTo _ sep _ hsep ((starts_decimal s1).append _) (line + k1 + k2) false,
    skipTo _ sep _ hsep ((starts_decimal s2).append _) (line + k1 + k2) false,
    skipTo _ sep _ hsep ((starts_decimal s3).append _) (line + k1 + k2) false,
    skipTo _ sep _ hsep ((starts_decimal s4).append _) (line + k1 + k2) false,
    skipTo _ sep _ hsep ((starts_decimal s5).append _) (line + k1 + k2) false,
    readField_decimal 4294967295 s1 b1 (by omega) _ _ (hS _) (line + k1 + k2) false,
    readField_decimal 4294967295 s2 b2 (by omega) _ _ (hS _) (line + k1 + k2) false,
    readField_decimal 4294967295 s3 b3 (by omega) _ _ (hS _) (line + k1 + k2) false,
    readField_decimal 4294967295 s4 b4 (by omega) _ _ (hS _) (line + k1 + k2) false,
    readField_decimal 4294967295 s5 b5 (by omega) _ _ hEnd (line + k1 + k2) false,
    expectEol_eol ws cmt r hws hc,
    mkRdata_ok (w1 ++ w2 ++ u32be s1 ++ u32be s2 ++ u32be s3 ++ u32be s4 ++ u32be s5)
      (by have := h1.len; have := h2.len; simp [u32be]; omega)]

/-- IN A: dotted quad -/
theorem parseRdata_a_text (a b c d : Nat) (ha : a ≤ 255) (hb : b ≤ 255) (hcc : c ≤ 255) (hd : d ≤ 255) :
    parseRdata ctx 1 1 ⟨sep ++ ((decimal a ++ 46 :: (decimal b ++ 46 :: (decimal c ++ 46 :: decimal d))) ++
        (ws ++ (cmt ++ 10 :: r))), line, false⟩ =
      .ok ([UInt8.ofNat a, UInt8.ofNat b, UInt8.ofNat c, UInt8.ofNat d], ⟨r, line + 1, false⟩) := by
  have hEnd := atFieldEnd_eol ws cmt r hws hc
  have harm : findArm 1 1 = some "parse_in_a_rdata" := by decide
  have hlen : ∀ n, n ≤ 255 → (decimal n).length ≤ 3 := by
    intro n hn; have := (octet_decimal_facts n (by omega)).2.1; simpa using this
  have hplain : ∀ x ∈ decimal a ++ 46 :: (decimal b ++ 46 :: (decimal c ++ 46 :: decimal d)), plainOctet x = true := by
    intro x hx
    simp only [List.mem_append, List.mem_cons] at hx
    rcases hx with h | rfl | h | rfl | h | rfl | h
    all_goals first | exact decimal_plain _ _ h | decide
  rw [parseRdata_typed ctx 1 1 _ harm sep hsep _ _ ((starts_decimal a).append _) (decimal_not_bh a _) hEnd line false]
  show inARdataBody _ = _
  unfold inARdataBody
  simp only [bind, P.bind,
    readField_plain parseIpv4 .InvalidIpv4 _ _ _ hplain
      (by have := hlen a ha; have := hlen b hb; have := hlen c hcc; have := hlen d hd; simp; omega) hEnd
      (parseIpv4_render a b c d (by omega) (by omega) (by omega) (by omega)) line false,
    expectEol_eol ws cmt r hws hc,
    mkRdata_ok [UInt8.ofNat a, UInt8.ofNat b, UInt8.ofNat c, UInt8.ofNat d] (by simp)]

/-- HINFO: two character-strings -/
theorem parseRdata_hinfo_text (cls : Nat) (s1 s2 : PString) (h1 : WFString s1) (h2 : WFString s2)
    (hnb : ¬ [92, 35] <+: stringText s1) :
    parseRdata ctx cls 13 ⟨sep ++ (stringText s1 ++ (sep ++ (stringText s2 ++ (ws ++ (cmt ++ 10 :: r))))), line, false⟩ =
      .ok (stringWire s1 ++ stringWire s2, ⟨r, line + stringLines s1 + stringLines s2 + 1, false⟩) := by
  have hEnd := atFieldEnd_eol ws cmt r hws hc
  have harm : findArm cls 13 = some "parse_hinfo_rdata" := by
    simp [findArm, Gen.parseRdataArms, armMatches, List.find?]
  rw [parseRdata_typed ctx cls 13 _ harm sep hsep _ _ (stringText_starts s1 h1) hnb (atFieldEnd_sep sep _ hne hsep)
    line false]
  show hinfoRdataBody _ = _
  unfold hinfoRdataBody
  have hl1 : (stringOctets s1).length ≤ 255 := by simpa [stringOctets] using h1.len
  have hl2 : (stringOctets s2).length ≤ 255 := by simpa [stringOctets] using h2.len
  simp only [bind, P.bind, parseCharacterString_render s1 h1 _ (atFieldEnd_sep sep _ hne hsep) line false,
    skipTo _ sep _ hsep ((stringText_starts s2 h2).append _) _ false,
    parseCharacterString_render s2 h2 _ hEnd _ false, expectEol_eol ws cmt r hws hc,
    mkRdata_ok (UInt8.ofNat (stringOctets s1).length :: stringOctets s1 ++
      UInt8.ofNat (stringOctets s2).length :: stringOctets s2) (by simp; omega)]
  simp [stringWire, stringOctets]

/-- the loop of TXT: one or more character-strings -/
theorem txtLoop_render (sl : Nat) (s : PString) (ss : List PString) (hwf : ∀ x ∈ s :: ss, WFString x)
    (acc : List UInt8) (hlen : acc.length + ((s :: ss).flatMap stringWire).length ≤ 65535) (line' : Nat) :
    txtLoop sl ⟨stringText s ++ ((ss.flatMap fun x => sep ++ stringText x) ++ (ws ++ (cmt ++ 10 :: r))), line', false⟩ acc =
      .ok (acc.reverse ++ (s :: ss).flatMap stringWire,
           ⟨r, line' + (stringLines s + (ss.map stringLines).sum) + 1, false⟩) := by
  induction ss generalizing s acc line' with
  | nil =>
    have hEnd := atFieldEnd_eol ws cmt r hws hc
    have hs := hwf s (by simp)
    rw [txtLoop.eq_def]
    simp only [List.flatMap_nil, List.nil_append, parseCharacterString_render s hs _ hEnd line' false]
    have e : ¬ acc.length + (stringOctets s).length + 1 > 65535 := by
      simp [stringWire] at hlen; omega
    simp only [e, ↓reduceIte, fieldOrEol_eol ws cmt r hws hc]
    simp [stringWire, stringOctets]
  | cons x ss ih =>
    have hs := hwf s (by simp)
    have hx := hwf x (by simp)
    have e0 : stringText s ++ (((x :: ss).flatMap fun x => sep ++ stringText x) ++ (ws ++ (cmt ++ 10 :: r))) =
        stringText s ++ (sep ++ (stringText x ++ ((ss.flatMap fun x => sep ++ stringText x) ++ (ws ++ (cmt ++ 10 :: r))))) := by
      simp
    rw [e0, txtLoop.eq_def]
    simp only [parseCharacterString_render s hs _ (atFieldEnd_sep sep _ hne hsep) line' false]
    have e : ¬ acc.length + (stringOctets s).length + 1 > 65535 := by
      simp [stringWire] at hlen; omega
    obtain ⟨c, t, hct, hcs⟩ := (stringText_starts x hx).append
      ((ss.flatMap fun x => sep ++ stringText x) ++ (ws ++ (cmt ++ 10 :: r)))
    simp only [e, ↓reduceIte]
    rw [hct, fieldOrEol_gap true sep hsep c t hcs]
    have hsepl : 0 < sep.length := List.length_pos_iff.mpr hne
    have hprog : (c :: t).length < (stringText s ++ (sep ++ c :: t)).length := by simp; omega
    simp only [hprog, ↓reduceIte]
    rw [← hct]
    rw [ih x (fun y hy => hwf y (by simp [hy])) _ (by
      simp [stringWire] at hlen ⊢; omega)]
    simp [stringWire, stringOctets, Nat.add_assoc]

/-- TXT: one or more character-strings -/
theorem parseRdata_txt_text (cls : Nat) (s : PString) (ss : List PString) (hwf : ∀ x ∈ s :: ss, WFString x)
    (hnb : ¬ [92, 35] <+: stringText s) (hlen : ((s :: ss).flatMap stringWire).length ≤ 65535) :
    parseRdata ctx cls 16 ⟨sep ++ (stringText s ++ ((ss.flatMap fun x => sep ++ stringText x) ++
        (ws ++ (cmt ++ 10 :: r)))), line, false⟩ =
      .ok ((s :: ss).flatMap stringWire, ⟨r, line + (stringLines s + (ss.map stringLines).sum) + 1, false⟩) := by
  have harm : findArm cls 16 = some "parse_txt_rdata" := by
    simp [findArm, Gen.parseRdataArms, armMatches, List.find?]
  have hE : atFieldEnd ((ss.flatMap fun x => sep ++ stringText x) ++ (ws ++ (cmt ++ 10 :: r))) = true := by
    cases ss with
    | nil => simpa using atFieldEnd_eol ws cmt r hws hc
    | cons x ss => simp only [List.flatMap_cons, List.append_assoc]; exact atFieldEnd_sep sep _ hne hsep
  rw [parseRdata_typed ctx cls 16 _ harm sep hsep _ _ (stringText_starts s (hwf s (by simp))) hnb hE line false]
  show txtRdataBody _ = _
  unfold txtRdataBody
  simp only [bind, P.bind, getLine,
    txtLoop_render sep ws cmt r hne hsep hws hc line s ss hwf [] (by simpa using hlen) line]
  simp only [List.reverse_nil, List.nil_append, mkRdata_ok _ hlen]

end kinds

/-! ### all kinds together -/

/-- the text does not begin with the RFC 3597 marker `\#` (write a leading `#` as `\035`) -/
abbrev notBh (T : List UInt8) : Prop := ¬ [92, 35] <+: T

/-- what the writer of RDATA must respect: numbers in range, names and strings well formed -/
def WFRdata : PRdata → Prop
  | .generic rd => rd.length ≤ 65535
  | .a a b c d => a ≤ 255 ∧ b ≤ 255 ∧ c ≤ 255 ∧ d ≤ 255
  | .name n => WFName n ∧ notBh (nameText n)
  | .mx p n => p ≤ 65535 ∧ WFName n
  | .soa m r s1 s2 s3 s4 s5 => WFName m ∧ WFName r ∧ notBh (nameText m) ∧ s1 ≤ 4294967295 ∧ s2 ≤ 4294967295 ∧
      s3 ≤ 4294967295 ∧ s4 ≤ 4294967295 ∧ s5 ≤ 4294967295
  | .minfo r e => WFName r ∧ WFName e ∧ notBh (nameText r)
  | .srv p w port n => p ≤ 65535 ∧ w ≤ 65535 ∧ port ≤ 65535 ∧ WFName n
  | .txt s ss => (∀ x ∈ s :: ss, WFString x) ∧ notBh (stringText s) ∧ ((s :: ss).flatMap stringWire).length ≤ 65535
  | .hinfo c o => WFString c ∧ WFString o ∧ notBh (stringText c)

/-- **RDATA.**  The text of well-formed RDATA of the right kind for `(cls, ty)` is read back by
    `parse_rdata` as the RDATA it denotes (RFC 3597 form: provided that is valid for the type) -/
theorem parseRdata_render (ctx : Ctx) (hctx : CtxWF ctx) (cls ty : Nat) (h41 : ty ≠ 41) (h250 : ty ≠ 250)
    (sep ws cmt r : List UInt8) (hne : sep ≠ []) (hsep : ∀ x ∈ sep, isWs x = true)
    (hws : ∀ x ∈ ws, isWs x = true) (hc : commentOK cmt) (rd : PRdata) (hwf : WFRdata rd)
    (hk : kindOK cls ty rd = true) (w : List UInt8) (hw : rdataWire ctx.origin rd = some w)
    (hv : ∀ g, rd = .generic g → validate cls ty g = .ok ()) (line : Nat) :
    parseRdata ctx cls ty ⟨sep ++ (rdataText sep rd ++ (ws ++ (cmt ++ 10 :: r))), line, false⟩ =
      .ok (w, ⟨r, line + rdataLines rd + 1, false⟩) := by
  have hO := hctx.1
  cases rd with
  | generic g =>
    simp only [rdataWire, Option.some.injEq] at hw
    subst hw
    have := parseRdata_generic ctx cls ty h41 h250 sep g ws cmt r hne hsep hwf (hv g rfl) hws hc line
    simpa [rdataText, rdataLines] using this
  | a a b c d =>
    obtain ⟨ha, hb, hcc, hd⟩ := hwf
    simp only [kindOK, Bool.and_eq_true, beq_iff_eq] at hk
    obtain ⟨rfl, rfl⟩ := hk
    simp only [rdataWire, Option.some.injEq] at hw
    subst hw
    have := parseRdata_a_text ctx sep ws cmt r hne hsep hws hc line a b c d ha hb hcc hd
    simpa [rdataText, rdataLines] using this
  | name n =>
    obtain ⟨hn, hnb⟩ := hwf
    exact parseRdata_name_text ctx sep ws cmt r hne hsep hws hc line cls ty (by simpa [kindOK] using hk)
      (nameText n) w (nameLines n) (nameText_ok ctx.origin hO n hn w hw) hnb
  | mx p n =>
    obtain ⟨hp, hn⟩ := hwf
    simp only [kindOK, beq_iff_eq] at hk
    subst hk
    simp only [rdataWire, Option.map_eq_some_iff] at hw
    obtain ⟨wn, hwn, rfl⟩ := hw
    have := parseRdata_mx_text ctx sep ws cmt r hne hsep hws hc line cls p hp (nameText n) wn (nameLines n)
      (nameText_ok ctx.origin hO n hn wn hwn)
    simpa [rdataText, rdataLines, u16Wire, u16be] using this
  | soa m rn s1 s2 s3 s4 s5 =>
    obtain ⟨hm, hr, hnb, b1, b2, b3, b4, b5⟩ := hwf
    simp only [kindOK, beq_iff_eq] at hk
    subst hk
    simp only [rdataWire] at hw
    split at hw
    · next wm wr hwm hwr =>
      simp only [Option.some.injEq] at hw
      subst hw
      have := parseRdata_soa_text ctx sep ws cmt r hne hsep hws hc line cls (nameText m) wm (nameLines m)
        (nameText rn) wr (nameLines rn) (nameText_ok ctx.origin hO m hm wm hwm)
        (nameText_ok ctx.origin hO rn hr wr hwr) hnb s1 s2 s3 s4 s5 b1 b2 b3 b4 b5
      simpa [rdataText, rdataLines, u32Wire, u32be, Nat.add_assoc] using this
    · cases hw
  | minfo rn e =>
    obtain ⟨hr, he, hnb⟩ := hwf
    simp only [kindOK, beq_iff_eq] at hk
    subst hk
    simp only [rdataWire] at hw
    split at hw
    · next wr we hwr hwe =>
      simp only [Option.some.injEq] at hw
      subst hw
      have := parseRdata_minfo_text ctx sep ws cmt r hne hsep hws hc line cls (nameText rn) wr (nameLines rn)
        (nameText e) we (nameLines e) (nameText_ok ctx.origin hO rn hr wr hwr)
        (nameText_ok ctx.origin hO e he we hwe) hnb
      simpa [rdataText, rdataLines, Nat.add_assoc] using this
    · cases hw
  | srv p wt port n =>
    obtain ⟨hp, hwt, hport, hn⟩ := hwf
    simp only [kindOK, Bool.and_eq_true, beq_iff_eq] at hk
    obtain ⟨rfl, rfl⟩ := hk
    simp only [rdataWire, Option.map_eq_some_iff] at hw
    obtain ⟨wn, hwn, rfl⟩ := hw
    have := parseRdata_srv_text ctx sep ws cmt r hne hsep hws hc line p wt port hp hwt hport (nameText n) wn
      (nameLines n) (nameText_ok ctx.origin hO n hn wn hwn)
    simpa [rdataText, rdataLines, u16Wire, u16be] using this
  | txt s ss =>
    obtain ⟨hss, hnb, hlen⟩ := hwf
    simp only [kindOK, beq_iff_eq] at hk
    subst hk
    simp only [rdataWire, Option.some.injEq] at hw
    subst hw
    have := parseRdata_txt_text ctx sep ws cmt r hne hsep hws hc line cls s ss hss hnb hlen
    simpa [rdataText, rdataLines] using this
  | hinfo c o =>
    obtain ⟨h1, h2, hnb⟩ := hwf
    simp only [kindOK, beq_iff_eq] at hk
    subst hk
    simp only [rdataWire, Option.some.injEq] at hw
    subst hw
    have := parseRdata_hinfo_text ctx sep ws cmt r hne hsep hws hc line cls c o h1 h2 hnb
    simpa [rdataText, rdataLines, Nat.add_assoc] using this

end QV.ZF
