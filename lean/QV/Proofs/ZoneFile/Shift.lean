/-
  QV.Proofs.ZoneFile.Shift — the parser does not depend on where the line counter starts (C25):
  reading a text from line `l + k` gives what reading it from line `l` gives, with every line
  number (of records, include requests, errors, and of the reader) increased by `k`.
-/
import QV.Model.ZoneFile.Parser

namespace QV.ZF
open QV

/-! ### shifting results -/

def shiftErr (k : Nat) (e : Err) : Err := ⟨e.kind, e.line + k⟩

def shiftSt (k : Nat) (st : St) : St := ⟨st.inp, st.line + k, st.paren⟩

/-- a result with all its line numbers increased by `k`; `sh` shifts the value -/
def shiftR {α} (sh : Nat → α → α) (k : Nat) : R α → R α
  | .ok (v, st) => .ok (sh k v, shiftSt k st)
  | .err e => .err (shiftErr k e)
  | .panic => .panic

/-- values without line numbers -/
def noSh {α} : Nat → α → α := fun _ a => a

/-- `f` commutes with shifting the line counter -/
def Shift {α} (f : P α) (sh : Nat → α → α) : Prop :=
  ∀ (x : List UInt8) (line : Nat) (p : Bool) (k : Nat), f ⟨x, line + k, p⟩ = shiftR sh k (f ⟨x, line, p⟩)

/-- a continuation commutes with shifting, its argument included -/
def ShiftF {α β} (g : α → P β) (sa : Nat → α → α) (sb : Nat → β → β) : Prop :=
  ∀ (a : α) (x : List UInt8) (line : Nat) (p : Bool) (k : Nat),
    g (sa k a) ⟨x, line + k, p⟩ = shiftR sb k (g a ⟨x, line, p⟩)

theorem Shift_bind {α β} {f : P α} {g : α → P β} {sa : Nat → α → α} {sb : Nat → β → β}
    (hf : Shift f sa) (hg : ShiftF g sa sb) : Shift (P.bind f g) sb := by
  intro x line p k
  simp only [P.bind, hf x line p k]
  cases f ⟨x, line, p⟩ with
  | ok r =>
    obtain ⟨a, ⟨y, l, q⟩⟩ := r
    simp only [shiftR, shiftSt]
    exact hg a y l q k
  | err e => rfl
  | panic => rfl

theorem ShiftF_of {α β} {g : α → P β} {sb : Nat → β → β} (h : ∀ a, Shift (g a) sb) : ShiftF g noSh sb :=
  fun a x line p k => h a x line p k

theorem Shift_bindN {α β} {f : P α} {g : α → P β} {sb : Nat → β → β}
    (hf : Shift f noSh) (hg : ∀ a, Shift (g a) sb) : Shift (P.bind f g) sb :=
  Shift_bind hf (ShiftF_of hg)

theorem Shift_pure {α} (a : α) : Shift (P.pure a) noSh := fun _ _ _ _ => rfl

theorem Shift_pure' {α} (a : α) (sh : Nat → α → α) (h : ∀ k, sh k a = a) : Shift (P.pure a) sh := by
  intro x line p k
  simp [P.pure, shiftR, shiftSt, h]

theorem Shift_fail {α} (kind : Kind) (sh : Nat → α → α) : Shift (P.fail kind : P α) sh :=
  fun _ _ _ _ => rfl

theorem Shift_panic {α} (sh : Nat → α → α) : Shift (P.panic : P α) sh := fun _ _ _ _ => rfl

/-- `Err(Error::new(saved_position, kind))` with the saved position shifted -/
theorem ShiftF_failAt {α} (kind : Kind) (sh : Nat → α → α) :
    ShiftF (fun l => (P.failAt kind l : P α)) (fun k l => l + k) sh := fun _ _ _ _ _ => rfl

theorem Shift_getLine : Shift getLine (fun k l => l + k) := fun _ _ _ _ => rfl

theorem Shift_ite {α} {c : Prop} [Decidable c] {f g : P α} {sh : Nat → α → α} (hf : Shift f sh) (hg : Shift g sh) :
    Shift (if c then f else g) sh := by
  split <;> assumption

theorem Shift_mkRdata (l : List UInt8) : Shift (mkRdata l) noSh := by
  intro x line p k
  unfold mkRdata
  split <;> rfl

/-- functions on the reader that neither read nor write the line counter -/
theorem Shift_liftB (f : St → Bool × St)
    (hf : ∀ x line p k, f ⟨x, line + k, p⟩ = ((f ⟨x, line, p⟩).1, shiftSt k (f ⟨x, line, p⟩).2)) :
    Shift (liftB f) noSh := by
  intro x line p k
  simp [liftB, hf x line p k, shiftR, noSh]

/-! ### the lexical layer -/

theorem expectFieldImpl_shift (cmp : List UInt8 → List UInt8 → Bool) (field : List UInt8) (x : List UInt8)
    (line : Nat) (p : Bool) (k : Nat) :
    expectFieldImpl cmp field ⟨x, line + k, p⟩ =
      ((expectFieldImpl cmp field ⟨x, line, p⟩).1, shiftSt k (expectFieldImpl cmp field ⟨x, line, p⟩).2) := by
  unfold expectFieldImpl
  simp only
  split
  · rfl
  · split <;> rfl

theorem Shift_expectField (field : List UInt8) : Shift (liftB (expectField field)) noSh :=
  Shift_liftB _ (expectFieldImpl_shift _ field)

theorem Shift_expectFieldCI (field : List UInt8) : Shift (liftB (expectFieldCI field)) noSh :=
  Shift_liftB _ (expectFieldImpl_shift _ field)

theorem Shift_skipWhitespace : Shift (liftB skipWhitespace) noSh :=
  Shift_liftB _ (by
    intro x line p k
    unfold skipWhitespace
    cases x <;> rfl)

theorem Shift_readField {α} (parse : List UInt8 → Option α) (kind : Kind) : Shift (readField parse kind) noSh := by
  intro x line p k
  unfold readField
  simp only
  split
  · rfl
  · split
    · rfl
    · split <;> rfl

theorem takeEol_shift (l : List UInt8) (line k : Nat) :
    takeEol l (line + k) = ((takeEol l line).1, (takeEol l line).2 + k) := by
  unfold takeEol
  split
  · rfl
  · simp only [Prod.mk.injEq, true_and]; omega
  · rfl

theorem fieldOrEol_shift (thr : Bool) (x : List UInt8) (line : Nat) (p : Bool) (k : Nat) :
    fieldOrEol thr x (line + k) p = shiftR noSh k (fieldOrEol thr x line p) := by
  fun_induction fieldOrEol thr x line p
  all_goals rw [fieldOrEol.eq_def]
  all_goals try simp only [*, ↓reduceIte, Bool.false_eq_true, not_false_eq_true]
  all_goals try (split <;> simp_all [shiftR, shiftSt, noSh, fail, shiftErr, takeEol_shift, Nat.add_right_comm])
  all_goals try simp_all [shiftR, shiftSt, noSh, fail, shiftErr, takeEol_shift, Nat.add_right_comm]

theorem Shift_fieldOrEol (thr : Bool) : Shift (fun st => fieldOrEol thr st.inp st.line st.paren) noSh :=
  fun x line p k => fieldOrEol_shift thr x line p k

theorem Shift_skipThrough : Shift skipToNextFieldOrThroughEol noSh := Shift_fieldOrEol true
theorem Shift_skipTo : Shift skipToNextFieldOrToEol noSh := Shift_fieldOrEol false

theorem Shift_skipToNextField (kind : Kind) : Shift (skipToNextField kind) noSh := by
  unfold skipToNextField
  exact Shift_bindN Shift_skipTo fun r => Shift_ite (Shift_fail _ _) (Shift_pure _)

theorem Shift_expectEol : Shift expectEol noSh := by
  unfold expectEol
  exact Shift_bindN Shift_skipThrough fun r => Shift_ite (Shift_fail _ _) (Shift_pure _)

theorem Shift_tryP {α} {f : P α} (hf : Shift f noSh) : Shift (tryP f) noSh := by
  intro x line p k
  simp only [tryP, hf x line p k]
  cases f ⟨x, line, p⟩ with
  | ok r => rfl
  | err e => rfl
  | panic => rfl

/-! ### escapes, names, strings -/

/-- the result of an escape, shifted -/
def shiftE (k : Nat) : Out Err (UInt8 × List UInt8 × Nat) → Out Err (UInt8 × List UInt8 × Nat)
  | .ok (e, r, l) => .ok (e, r, l + k)
  | .err e => .err (shiftErr k e)
  | .panic => .panic

theorem parseEscapeL_shift (l : List UInt8) (line k : Nat) :
    parseEscapeL l (line + k) = shiftE k (parseEscapeL l line) := by
  unfold parseEscapeL
  split
  · rfl
  · split
    · split
      · split
        · rfl
        · simp only; split <;> rfl
      · rfl
    · simp only [shiftE]
      split <;> simp <;> omega

theorem nameLoop_shift (origin : Option (List UInt8)) (nl : Nat) (x : List UInt8) (line ll : Nat) (p : Bool)
    (b : Builder) (k : Nat) :
    nameLoop origin (nl + k) x (line + k) (ll + k) p b = shiftR noSh k (nameLoop origin nl x line ll p b) := by
  fun_induction nameLoop origin nl x line ll p b
  all_goals rw [nameLoop.eq_def]
  all_goals try simp only [*, ↓reduceIte, Bool.false_eq_true, not_false_eq_true, parseEscapeL_shift, shiftE]
  all_goals try simp_all [shiftR, shiftSt, noSh, fail, shiftErr, labelErr, parseEscapeL_shift, shiftE]
  all_goals try (split <;> simp_all [parseEscapeL_shift, shiftE, shiftR, shiftSt, noSh, shiftErr, labelErr, fail])
  all_goals try (split <;> rfl)

theorem expectField_shift (field x : List UInt8) (line : Nat) (p : Bool) (k : Nat) :
    expectField field ⟨x, line + k, p⟩ =
      ((expectField field ⟨x, line, p⟩).1, shiftSt k (expectField field ⟨x, line, p⟩).2) :=
  expectFieldImpl_shift _ field x line p k

/-- `parse_name` after the test for `.` -/
def parseNameAux2 (origin : Option (List UInt8)) (r2 : Bool × St) : R (List UInt8) :=
  if r2.1 then .ok ([0], r2.2)
  else nameLoop origin r2.2.line r2.2.inp r2.2.line r2.2.line r2.2.paren Builder.new

/-- `parse_name` after the test for `@` -/
def parseNameAux (origin : Option (List UInt8)) (line0 : Nat) (r1 : Bool × St) : R (List UInt8) :=
  if r1.1 then
    match origin with
    | some o => .ok (o, r1.2)
    | none => fail .AtWhenOriginNotSet line0
  else parseNameAux2 origin (expectField [46] r1.2)

theorem parseName_eq (origin : Option (List UInt8)) (st : St) :
    parseName origin st = parseNameAux origin st.line (expectField [64] st) := rfl

theorem parseNameAux2_shift (origin : Option (List UInt8)) (b : Bool) (s : St) (k : Nat) :
    parseNameAux2 origin (b, shiftSt k s) = shiftR noSh k (parseNameAux2 origin (b, s)) := by
  obtain ⟨y, l, q⟩ := s
  cases b with
  | true => rfl
  | false => exact nameLoop_shift origin l y l l q Builder.new k

theorem parseNameAux_shift (origin : Option (List UInt8)) (line0 : Nat) (b : Bool) (s : St) (k : Nat) :
    parseNameAux origin (line0 + k) (b, shiftSt k s) = shiftR noSh k (parseNameAux origin line0 (b, s)) := by
  obtain ⟨y, l, q⟩ := s
  cases b with
  | true => cases origin <;> rfl
  | false =>
    show parseNameAux2 origin (expectField [46] ⟨y, l + k, q⟩) = shiftR noSh k (parseNameAux2 origin (expectField [46] ⟨y, l, q⟩))
    rw [expectField_shift]
    exact parseNameAux2_shift origin _ _ k

theorem Shift_parseName (origin : Option (List UInt8)) : Shift (parseName origin) noSh := by
  intro x line p k
  rw [parseName_eq, parseName_eq, expectField_shift]
  exact parseNameAux_shift origin line _ _ k

/-- results of the string loops, shifted -/
def shiftS (k : Nat) : Out Err (List UInt8 × List UInt8 × Nat) → Out Err (List UInt8 × List UInt8 × Nat)
  | .ok (s, r, l) => .ok (s, r, l + k)
  | .err e => .err (shiftErr k e)
  | .panic => .panic

theorem quotedLoop_shift (max : Nat) (tl ek : Kind) (sl : Nat) (x : List UInt8) (line : Nat) (acc : List UInt8)
    (n k : Nat) :
    quotedLoop max tl ek (sl + k) x (line + k) acc n = shiftS k (quotedLoop max tl ek sl x line acc n) := by
  fun_induction quotedLoop max tl ek sl x line acc n
  all_goals rw [quotedLoop.eq_def]
  all_goals try simp only [*, ↓reduceIte, Bool.false_eq_true]
  all_goals try simp_all [shiftS, fail, shiftErr, parseEscapeL_shift, shiftE]
  all_goals try (split <;> simp_all [parseEscapeL_shift, shiftE, shiftS, shiftErr, fail])
  all_goals try (split <;> simp_all [Nat.add_right_comm])

theorem unquotedLoop_shift (max : Nat) (tl : Kind) (sl : Nat) (x : List UInt8) (line : Nat) (acc : List UInt8)
    (n k : Nat) :
    unquotedLoop max tl (sl + k) x (line + k) acc n = shiftS k (unquotedLoop max tl sl x line acc n) := by
  fun_induction unquotedLoop max tl sl x line acc n
  all_goals rw [unquotedLoop.eq_def]
  all_goals try simp only [*, ↓reduceIte, Bool.false_eq_true]
  all_goals try simp_all [shiftS, fail, shiftErr, parseEscapeL_shift, shiftE]
  all_goals try (split <;> simp_all [parseEscapeL_shift, shiftE, shiftS, shiftErr, fail])

theorem Shift_parseString (max : Nat) (tl ek : Kind) : Shift (parseString max tl ek) noSh := by
  intro x line p k
  unfold parseString
  simp only
  split
  · next rest =>
    rw [quotedLoop_shift]
    cases quotedLoop max tl ek line rest line [] 0 with
    | ok r => rfl
    | err e => rfl
    | panic => rfl
  · rw [unquotedLoop_shift]
    cases unquotedLoop max tl line x line [] 0 with
    | ok r => rfl
    | err e => rfl
    | panic => rfl

theorem Shift_parseCharacterString : Shift parseCharacterString noSh := Shift_parseString _ _ _

theorem Shift_pName (ctx : Ctx) : Shift (pName ctx) noSh := Shift_parseName _

/-! ### records -/

theorem Shift_parseHexDigit : Shift parseHexDigit noSh := by
  intro x line p k
  unfold parseHexDigit readFieldOctet
  simp only
  by_cases h : atFieldEnd x = true
  · simp [h, shiftR, fail, shiftErr]
  · cases x with
    | nil => simp [atFieldEnd] at h
    | cons c rest =>
      simp only [h, Bool.false_eq_true, ↓reduceIte]
      cases hexNibble c <;> rfl

theorem Shift_hexDigits (n : Nat) (acc : List UInt8) : Shift (hexDigits n acc) noSh := by
  induction n generalizing acc with
  | zero => exact Shift_pure _
  | succ n ih =>
    unfold hexDigits
    exact Shift_bindN Shift_parseHexDigit fun _ => Shift_bindN Shift_parseHexDigit fun _ => ih _

theorem chaosLoop_shift (sl : Nat) (x : List UInt8) (addr k : Nat) :
    chaosLoop (sl + k) x addr =
      (match chaosLoop sl x addr with
       | .ok r => .ok r
       | .err e => .err (shiftErr k e)
       | .panic => .panic) := by
  induction x generalizing addr with
  | nil => rfl
  | cons c rest ih =>
    simp only [chaosLoop]
    split
    · rfl
    · split
      · split
        · rfl
        · exact ih _
      · rfl

theorem Shift_parseChaosnetAddress : Shift parseChaosnetAddress noSh := by
  intro x line p k
  unfold parseChaosnetAddress
  simp only [chaosLoop_shift]
  cases chaosLoop line x 0 with
  | ok r => rfl
  | err e => rfl
  | panic => rfl

@[simp] theorem shiftSt_inp (k : Nat) (st : St) : (shiftSt k st).inp = st.inp := rfl
@[simp] theorem shiftSt_line (k : Nat) (st : St) : (shiftSt k st).line = st.line + k := rfl
@[simp] theorem shiftSt_paren (k : Nat) (st : St) : (shiftSt k st).paren = st.paren := rfl

theorem readField_shift {α} (parse : List UInt8 → Option α) (kind : Kind) (st : St) (k : Nat) :
    readField parse kind (shiftSt k st) = shiftR noSh k (readField parse kind st) :=
  Shift_readField parse kind st.inp st.line st.paren k

theorem parseCharacterString_shift (st : St) (k : Nat) :
    parseCharacterString (shiftSt k st) = shiftR noSh k (parseCharacterString st) :=
  Shift_parseCharacterString st.inp st.line st.paren k

theorem fieldOrEol_shift' (thr : Bool) (st : St) (k : Nat) :
    fieldOrEol thr (shiftSt k st).inp (shiftSt k st).line (shiftSt k st).paren =
      shiftR noSh k (fieldOrEol thr st.inp st.line st.paren) :=
  fieldOrEol_shift thr st.inp st.line st.paren k

theorem wksLoop_shift_aux (sl k : Nat) (n : Nat) : ∀ (st : St), st.inp.length ≤ n → ∀ (ports : List Nat) (m : Nat),
    wksLoop (sl + k) (shiftSt k st) ports m = shiftR noSh k (wksLoop sl st ports m) := by
  induction n with
  | zero =>
    intro st hlen ports m
    rw [wksLoop.eq_def, wksLoop.eq_def (st := st)]
    simp only [fieldOrEol_shift']
    have hnil : st.inp = [] := List.length_eq_zero_iff.mp (by omega)
    rw [hnil, fieldOrEol.eq_def]
    cases st.paren <;> rfl
  | succ n ih =>
    intro st hlen ports m
    rw [wksLoop.eq_def, wksLoop.eq_def (st := st)]
    simp only [fieldOrEol_shift']
    cases hf : fieldOrEol true st.inp st.line st.paren with
    | err e => rfl
    | panic => rfl
    | ok r =>
      obtain ⟨fe, st1⟩ := r
      cases fe with
      | Eol => rfl
      | Field =>
        simp only [shiftR, noSh]
        by_cases hm : m ≥ 65535
        · simp only [hm, ↓reduceIte]; rfl
        · simp only [hm, ↓reduceIte, readField_shift]
          cases hr : readField parseU16 .InvalidInt st1 with
          | err e => rfl
          | panic => rfl
          | ok r2 =>
            obtain ⟨pt, st2⟩ := r2
            simp only [shiftR, noSh, shiftSt_inp]
            by_cases hlt : st2.inp.length < st.inp.length
            · simp only [hlt, ↓reduceIte]
              exact ih st2 (by omega) _ _
            · simp only [hlt, ↓reduceIte]; rfl

theorem wksLoop_shift (sl : Nat) (st : St) (ports : List Nat) (n k : Nat) :
    wksLoop (sl + k) (shiftSt k st) ports n = shiftR noSh k (wksLoop sl st ports n) :=
  wksLoop_shift_aux sl k st.inp.length st (Nat.le_refl _) ports n

theorem txtLoop_shift_aux (sl k : Nat) (n : Nat) : ∀ (st : St), st.inp.length ≤ n → ∀ (acc : List UInt8),
    txtLoop (sl + k) (shiftSt k st) acc = shiftR noSh k (txtLoop sl st acc) := by
  induction n with
  | zero =>
    intro st hlen acc
    rw [txtLoop.eq_def, txtLoop.eq_def (st := st)]
    simp only [parseCharacterString_shift]
    cases hs : parseCharacterString st with
    | err e => rfl
    | panic => rfl
    | ok r =>
      obtain ⟨cs, st1⟩ := r
      simp only [shiftR, noSh, fieldOrEol_shift']
      by_cases hk : acc.length + cs.length + 1 > 65535
      · simp only [hk, ↓reduceIte]; rfl
      · simp only [hk, ↓reduceIte]
        cases hf : fieldOrEol true st1.inp st1.line st1.paren with
        | err e => rfl
        | panic => rfl
        | ok r2 =>
          obtain ⟨fe, st2⟩ := r2
          cases fe with
          | Eol => rfl
          | Field =>
            simp only [shiftR, noSh, shiftSt_inp]
            have : ¬ st2.inp.length < st.inp.length := by omega
            simp only [this, ↓reduceIte]; rfl
  | succ n ih =>
    intro st hlen acc
    rw [txtLoop.eq_def, txtLoop.eq_def (st := st)]
    simp only [parseCharacterString_shift]
    cases hs : parseCharacterString st with
    | err e => rfl
    | panic => rfl
    | ok r =>
      obtain ⟨cs, st1⟩ := r
      simp only [shiftR, noSh, fieldOrEol_shift']
      by_cases hk : acc.length + cs.length + 1 > 65535
      · simp only [hk, ↓reduceIte]; rfl
      · simp only [hk, ↓reduceIte]
        cases hf : fieldOrEol true st1.inp st1.line st1.paren with
        | err e => rfl
        | panic => rfl
        | ok r2 =>
          obtain ⟨fe, st2⟩ := r2
          cases fe with
          | Eol => rfl
          | Field =>
            simp only [shiftR, noSh, shiftSt_inp]
            by_cases hlt : st2.inp.length < st.inp.length
            · simp only [hlt, ↓reduceIte]
              exact ih st2 (by omega) _
            · simp only [hlt, ↓reduceIte]; rfl

theorem txtLoop_shift (sl : Nat) (st : St) (acc : List UInt8) (k : Nat) :
    txtLoop (sl + k) (shiftSt k st) acc = shiftR noSh k (txtLoop sl st acc) :=
  txtLoop_shift_aux sl k st.inp.length st (Nat.le_refl _) acc

/-! ### records: composites -/

theorem Shift_eol_mk (l : List UInt8) : Shift (P.bind expectEol fun _ => mkRdata l) noSh :=
  Shift_bindN Shift_expectEol fun _ => Shift_mkRdata l

theorem Shift_nameRdataBody (ctx : Ctx) : Shift (nameRdataBody ctx) noSh := by
  unfold nameRdataBody
  exact Shift_bindN (Shift_pName ctx) fun _ => Shift_eol_mk _

theorem Shift_inARdataBody : Shift inARdataBody noSh := by
  unfold inARdataBody
  exact Shift_bindN (Shift_readField _ _) fun _ => Shift_eol_mk _

theorem Shift_inAaaaRdataBody : Shift inAaaaRdataBody noSh := by
  unfold inAaaaRdataBody
  exact Shift_bindN (Shift_readField _ _) fun _ => Shift_eol_mk _

theorem Shift_chARdataBody (ctx : Ctx) : Shift (chARdataBody ctx) noSh := by
  unfold chARdataBody
  exact Shift_bindN (Shift_pName ctx) fun _ => Shift_bindN (Shift_skipToNextField _) fun _ =>
    Shift_bindN Shift_parseChaosnetAddress fun _ => Shift_eol_mk _

theorem Shift_soaRdataBody (ctx : Ctx) : Shift (soaRdataBody ctx) noSh := by
  unfold soaRdataBody
  exact Shift_bindN (Shift_pName ctx) fun _ => Shift_bindN (Shift_skipToNextField _) fun _ =>
    Shift_bindN (Shift_pName ctx) fun _ => Shift_bindN (Shift_skipToNextField _) fun _ =>
    Shift_bindN (Shift_readField _ _) fun _ => Shift_bindN (Shift_skipToNextField _) fun _ =>
    Shift_bindN (Shift_readField _ _) fun _ => Shift_bindN (Shift_skipToNextField _) fun _ =>
    Shift_bindN (Shift_readField _ _) fun _ => Shift_bindN (Shift_skipToNextField _) fun _ =>
    Shift_bindN (Shift_readField _ _) fun _ => Shift_bindN (Shift_skipToNextField _) fun _ =>
    Shift_bindN (Shift_readField _ _) fun _ => Shift_eol_mk _

theorem Shift_hinfoRdataBody : Shift hinfoRdataBody noSh := by
  unfold hinfoRdataBody
  exact Shift_bindN Shift_parseCharacterString fun _ => Shift_bindN (Shift_skipToNextField _) fun _ =>
    Shift_bindN Shift_parseCharacterString fun _ => Shift_eol_mk _

theorem Shift_minfoRdataBody (ctx : Ctx) : Shift (minfoRdataBody ctx) noSh := by
  unfold minfoRdataBody
  exact Shift_bindN (Shift_pName ctx) fun _ => Shift_bindN (Shift_skipToNextField _) fun _ =>
    Shift_bindN (Shift_pName ctx) fun _ => Shift_eol_mk _

theorem Shift_mxRdataBody (ctx : Ctx) : Shift (mxRdataBody ctx) noSh := by
  unfold mxRdataBody
  exact Shift_bindN (Shift_readField _ _) fun _ => Shift_bindN (Shift_skipToNextField _) fun _ =>
    Shift_bindN (Shift_pName ctx) fun _ => Shift_eol_mk _

theorem Shift_inSrvRdataBody (ctx : Ctx) : Shift (inSrvRdataBody ctx) noSh := by
  unfold inSrvRdataBody
  exact Shift_bindN (Shift_readField _ _) fun _ => Shift_bindN (Shift_skipToNextField _) fun _ =>
    Shift_bindN (Shift_readField _ _) fun _ => Shift_bindN (Shift_skipToNextField _) fun _ =>
    Shift_bindN (Shift_readField _ _) fun _ => Shift_bindN (Shift_skipToNextField _) fun _ =>
    Shift_bindN (Shift_pName ctx) fun _ => Shift_eol_mk _

theorem Shift_txtRdataBody : Shift txtRdataBody noSh := by
  unfold txtRdataBody
  refine Shift_bind Shift_getLine ?_
  intro sl x line p k
  have := txtLoop_shift sl ⟨x, line, p⟩ [] k
  simp only [shiftSt] at this
  simp only [bind, P.bind, this]
  cases txtLoop sl ⟨x, line, p⟩ [] with
  | ok r => exact Shift_mkRdata _ _ _ _ k
  | err e => rfl
  | panic => rfl

/-- a family of parsers indexed by a saved line number commutes with shifting -/
abbrev ShiftP {β} (G : Nat → P β) (sb : Nat → β → β) : Prop := ShiftF G (fun k l => l + k) sb

theorem ShiftP_bindN {α β} {f : P α} {H : Nat → α → P β} {sb : Nat → β → β}
    (hf : Shift f noSh) (hH : ∀ a, ShiftP (fun l => H l a) sb) : ShiftP (fun l => P.bind f (H l)) sb := by
  intro l x line p k
  simp only [P.bind, hf x line p k]
  cases f ⟨x, line, p⟩ with
  | ok r =>
    obtain ⟨a, ⟨y, l', q⟩⟩ := r
    simp only [shiftR, shiftSt, noSh]
    exact hH a l y l' q k
  | err e => rfl
  | panic => rfl

theorem ShiftP_const {β} {f : P β} {sb : Nat → β → β} (hf : Shift f sb) : ShiftP (fun _ => f) sb :=
  fun _ x line p k => hf x line p k

theorem ShiftP_ite {β} {c : Prop} [Decidable c] {F G : Nat → P β} {sb : Nat → β → β} (hF : ShiftP F sb)
    (hG : ShiftP G sb) : ShiftP (fun l => if c then F l else G l) sb := by
  by_cases h : c
  · simpa [h] using hF
  · simpa [h] using hG

theorem ShiftP_wksTail (addr : List UInt8) (proto : Nat) :
    ShiftP (fun sl => P.bind (fun st => wksLoop sl st [] 0) fun ports => mkRdata (newInWks addr proto ports)) noSh := by
  intro sl y l q k
  have := wksLoop_shift sl ⟨y, l, q⟩ [] 0 k
  simp only [shiftSt] at this
  simp only [P.bind, this]
  cases wksLoop sl ⟨y, l, q⟩ [] 0 with
  | ok r => exact Shift_mkRdata _ _ _ _ k
  | err e => rfl
  | panic => rfl

theorem Shift_inWksRdataBody : Shift inWksRdataBody noSh := by
  unfold inWksRdataBody
  refine Shift_bind Shift_getLine ?_
  refine ShiftP_bindN (Shift_readField _ _) fun addr => ShiftP_bindN (Shift_skipToNextField _) fun _ => ?_
  dsimp only
  refine ShiftP_bindN (Shift_expectFieldCI _) fun t => ?_
  cases t with
  | true => exact ShiftP_wksTail addr 6
  | false =>
    simp only [Bool.false_eq_true, ↓reduceIte]
    refine ShiftP_bindN (Shift_expectFieldCI _) fun t2 => ?_
    cases t2 with
    | true => exact ShiftP_wksTail addr 17
    | false =>
      simp only [Bool.false_eq_true, ↓reduceIte]
      exact ShiftP_bindN (Shift_readField _ _) fun pr => ShiftP_wksTail addr pr

theorem Shift_handlerBody (name : String) (ctx : Ctx) : Shift (handlerBody name ctx) noSh := by
  unfold handlerBody
  split
  · exact Shift_nameRdataBody ctx
  · exact Shift_inARdataBody
  · exact Shift_chARdataBody ctx
  · exact Shift_soaRdataBody ctx
  · exact Shift_inWksRdataBody
  · exact Shift_hinfoRdataBody
  · exact Shift_minfoRdataBody ctx
  · exact Shift_mxRdataBody ctx
  · exact Shift_txtRdataBody
  · exact Shift_inAaaaRdataBody
  · exact Shift_inSrvRdataBody ctx
  · exact Shift_panic _

/-- the saved line of `parse_unknown_rdata_impl`'s result -/
def shL (k : Nat) (r : Nat × List UInt8) : Nat × List UInt8 := (r.1 + k, r.2)

theorem Shift_parseUnknownRdataImpl : Shift parseUnknownRdataImpl shL := by
  unfold parseUnknownRdataImpl
  refine Shift_bindN (Shift_skipToNextField _) fun _ => Shift_bindN (Shift_readField _ _) fun len => ?_
  have hjp : ShiftF (fun res : Nat × List UInt8 => P.bind expectEol fun _ => P.pure res) shL shL := by
    intro res x line p k
    simp only [P.bind, Shift_expectEol x line p k]
    cases expectEol ⟨x, line, p⟩ with
    | ok r => rfl
    | err e => rfl
    | panic => rfl
  dsimp only
  split
  · refine Shift_bind (sa := shL) ?_ hjp
    refine Shift_bind Shift_getLine ?_
    intro l x line p k
    rfl
  · refine Shift_bindN (Shift_skipToNextField _) fun _ => Shift_bind Shift_getLine ?_
    refine ShiftP_bindN (Shift_hexDigits _ _) fun rd => ?_
    intro l x line p k
    simp only [bind, P.bind, mkRdata, pure, P.pure]
    by_cases hl : rd.length > 65535
    · simp only [hl, ↓reduceIte]; rfl
    · simp only [hl, ↓reduceIte]
      exact hjp (l, rd) x line p k

theorem Shift_parseUnknownRdata : Shift parseUnknownRdata noSh := by
  unfold parseUnknownRdata
  refine Shift_bind Shift_parseUnknownRdataImpl ?_
  intro r x line p k
  rfl

theorem Shift_parseUnknownRdataWithValidation (v : String) : Shift (parseUnknownRdataWithValidation v) noSh := by
  unfold parseUnknownRdataWithValidation
  refine Shift_bind Shift_parseUnknownRdataImpl ?_
  intro r x line p k
  obtain ⟨l, rd⟩ := r
  simp only [shL]
  cases Rdata.validateHandler v with
  | none => rfl
  | some f =>
    simp only
    cases f rd.toArray <;> rfl

theorem Shift_checkBackslashHash (kind : Kind) : Shift (checkBackslashHash kind) noSh := by
  unfold checkBackslashHash
  exact Shift_bindN (Shift_skipToNextField _) fun _ => Shift_expectField _

theorem Shift_runHandler (name : String) (ctx : Ctx) : Shift (runHandler name ctx) noSh := by
  unfold runHandler
  split
  · refine Shift_bindN (Shift_checkBackslashHash _) fun t => ?_
    cases t with
    | true => exact Shift_parseUnknownRdataWithValidation _
    | false => exact Shift_handlerBody _ _
  · exact Shift_panic _

theorem Shift_parseRdata (ctx : Ctx) (cls ty : Nat) : Shift (parseRdata ctx cls ty) noSh := by
  unfold parseRdata
  split
  · exact Shift_runHandler _ _
  · refine Shift_bindN (Shift_checkBackslashHash _) fun t => ?_
    cases t with
    | true => exact Shift_parseUnknownRdata
    | false => exact Shift_fail _ _

theorem Shift_parseTypeField : Shift parseTypeField noSh := by
  unfold parseTypeField
  refine Shift_bind Shift_getLine ?_
  refine ShiftP_bindN (Shift_readField _ _) fun ty => ?_
  split
  · exact ShiftF_failAt _ _
  · exact ShiftP_const (Shift_pure _)

theorem Shift_parseTtl : Shift parseTtl noSh :=
  Shift_bindN (Shift_readField _ _) fun _ => Shift_pure _

theorem Shift_parseTtlAndClass (ctx : Ctx) : Shift (parseTtlAndClass ctx) noSh := by
  unfold parseTtlAndClass
  refine Shift_bindN (Shift_tryP Shift_parseTtl) fun t => ?_
  cases t with
  | some ttl =>
    refine Shift_bindN (Shift_skipToNextField _) fun _ => Shift_bindN (Shift_tryP (Shift_readField _ _)) fun c => ?_
    cases c with
    | some cls => exact Shift_pure _
    | none =>
      dsimp only
      split
      · exact Shift_pure _
      · exact Shift_fail _ _
  | none =>
    refine Shift_bindN (Shift_tryP (Shift_readField _ _)) fun c => ?_
    cases c with
    | some cls =>
      refine Shift_bindN (Shift_skipToNextField _) fun _ => Shift_bindN (Shift_tryP Shift_parseTtl) fun t => ?_
      cases t with
      | some ttl => exact Shift_pure _
      | none =>
        dsimp only
        split
        · exact Shift_pure _
        · exact Shift_fail _ _
    | none =>
      dsimp only
      split
      · exact Shift_pure _
      · exact Shift_fail _ _
      · exact Shift_fail _ _

/-! ### lines -/

/-- an item with its line number increased -/
def shItem (k : Nat) : Item → Item
  | .record l r => .record (l + k) r
  | .incl l path o => .incl (l + k) path o

def shIC (k : Nat) (r : Option Item × Ctx) : Option Item × Ctx := (r.1.map (shItem k), r.2)

theorem ShiftP_parseRecordRest (ctx : Ctx) (lw : Bool) : ShiftP (fun sl => parseRecordRest ctx sl lw) shIC := by
  unfold parseRecordRest
  have hjp : ∀ owner : List UInt8, ShiftP (fun sl => P.bind (skipToNextField Kind.ExpectedTtlClassOrType) fun _ =>
      P.bind (parseTtlAndClass ctx) fun __x =>
        match __x with
        | (ttl, cls) => P.bind (skipToNextField Kind.ExpectedType) fun _ => P.bind parseTypeField fun ty =>
          P.bind (parseRdata ctx cls ty) fun rdata =>
            P.pure (some (Item.record sl { owner := owner, ttl := ttl, cls := cls, ty := ty, rdata := rdata }),
              ({ ctx with prevOwner := some owner, prevTtl := some ttl, prevClass := some cls } : Ctx))) shIC := by
    intro owner
    refine ShiftP_bindN (Shift_skipToNextField _) fun _ => ShiftP_bindN (Shift_parseTtlAndClass ctx) fun tc => ?_
    obtain ⟨ttl, cls⟩ := tc
    refine ShiftP_bindN (Shift_skipToNextField _) fun _ => ShiftP_bindN Shift_parseTypeField fun ty =>
      ShiftP_bindN (Shift_parseRdata ctx cls ty) fun rd => ?_
    intro sl x line p k
    rfl
  dsimp only
  split
  · split
    · exact ShiftP_bindN (Shift_pure _) fun _ => hjp _
    · intro sl x line p k
      rfl
  · exact ShiftP_bindN (Shift_pName ctx) fun _ => hjp _

theorem Shift_parseRecordOrEmpty (ctx : Ctx) : Shift (parseRecordOrEmpty ctx) shIC := by
  unfold parseRecordOrEmpty
  refine Shift_bind Shift_getLine ?_
  refine ShiftP_bindN Shift_skipWhitespace fun lw => ShiftP_bindN Shift_skipThrough fun r => ?_
  split
  · intro sl x line p k
    rfl
  · exact ShiftP_parseRecordRest ctx lw

theorem Shift_parseOriginDirective (ctx : Ctx) : Shift (parseOriginDirective ctx) noSh := by
  unfold parseOriginDirective
  exact Shift_bindN (Shift_skipToNextField _) fun _ => Shift_bindN (Shift_pName ctx) fun _ =>
    Shift_bindN Shift_expectEol fun _ => Shift_pure _

theorem Shift_parseTtlDirective (ctx : Ctx) : Shift (parseTtlDirective ctx) noSh := by
  unfold parseTtlDirective
  exact Shift_bindN (Shift_skipToNextField _) fun _ => Shift_bindN (Shift_readField _ _) fun _ =>
    Shift_bindN Shift_expectEol fun _ => Shift_pure _

theorem Shift_parseIncludeDirective (ctx : Ctx) : Shift (parseIncludeDirective ctx) shItem := by
  unfold parseIncludeDirective
  refine Shift_bind Shift_getLine ?_
  refine ShiftP_bindN (Shift_skipToNextField _) fun _ => ShiftP_bindN (Shift_parseString _ _ _) fun path =>
    ShiftP_bindN Shift_skipThrough fun r => ?_
  split
  · intro l x line p k
    rfl
  · refine ShiftP_bindN (Shift_pName ctx) fun o => ShiftP_bindN Shift_expectEol fun _ => ?_
    intro l x line p k
    rfl

theorem Shift_parseDirective (ctx : Ctx) : Shift (parseDirective ctx) shIC := by
  unfold parseDirective
  refine Shift_bindN (Shift_expectFieldCI _) fun t => ?_
  cases t with
  | true =>
    refine Shift_bind (Shift_parseOriginDirective ctx) ?_
    intro c x line p k
    rfl
  | false =>
    simp only [Bool.false_eq_true, ↓reduceIte]
    refine Shift_bindN (Shift_expectFieldCI _) fun t2 => ?_
    cases t2 with
    | true =>
      refine Shift_bind (Shift_parseTtlDirective ctx) ?_
      intro c x line p k
      rfl
    | false =>
      simp only [Bool.false_eq_true, ↓reduceIte]
      refine Shift_bindN (Shift_expectFieldCI _) fun t3 => ?_
      cases t3 with
      | true =>
        refine Shift_bind (Shift_parseIncludeDirective ctx) ?_
        intro it x line p k
        rfl
      | false => exact Shift_fail _ _

/-- **One line**, from any line number -/
theorem Shift_parseLine (ctx : Ctx) : Shift (parseLine ctx) shIC := by
  intro x line p k
  unfold parseLine
  cases x with
  | nil => exact Shift_parseRecordOrEmpty ctx [] line p k
  | cons c rest =>
    simp only
    split
    · exact Shift_parseDirective ctx (c :: rest) line p k
    · exact Shift_parseRecordOrEmpty ctx (c :: rest) line p k

/-! ### the iterator -/

theorem untilData_shift_aux (k : Nat) (n : Nat) : ∀ (ctx : Ctx) (st : St), st.inp.length ≤ n →
    untilData ctx (shiftSt k st) = shiftR shIC k (untilData ctx st) := by
  induction n with
  | zero =>
    intro ctx st hlen
    obtain ⟨x, l, q⟩ := st
    have : x = [] := List.length_eq_zero_iff.mp (by simpa using hlen)
    subst this
    rw [untilData, untilData]
    rfl
  | succ n ih =>
    intro ctx st hlen
    obtain ⟨x, l, q⟩ := st
    cases x with
    | nil => rw [untilData, untilData]; rfl
    | cons c rest =>
      rw [untilData, untilData]
      simp only [shiftSt, Shift_parseLine ctx (c :: rest) l q k]
      cases hl : parseLine ctx ⟨c :: rest, l, q⟩ with
      | err e => rfl
      | panic => rfl
      | ok r =>
        obtain ⟨⟨it?, ctx'⟩, st'⟩ := r
        cases it? with
        | some item => rfl
        | none =>
          simp only [shiftR, shIC, Option.map_none, shiftSt_inp]
          by_cases hlt : st'.inp.length < (c :: rest).length
          · simp only [hlt, ↓reduceIte]
            exact ih ctx' st' (by simp at hlt hlen; omega)
          · simp only [hlt, ↓reduceIte]; rfl

theorem untilData_shift (ctx : Ctx) (st : St) (k : Nat) :
    untilData ctx (shiftSt k st) = shiftR shIC k (untilData ctx st) :=
  untilData_shift_aux k st.inp.length ctx st (Nat.le_refl _)

/-- what the iterator yields, with its line number increased -/
def shiftY (k : Nat) : Yield → Yield
  | .item i => .item (shItem k i)
  | .err e => .err (shiftErr k e)
  | .panic => .panic

/-- the parser with its line counter increased -/
def shiftParser (k : Nat) (p : Parser) : Parser := { p with st := shiftSt k p.st }

theorem next_shift (p : Parser) (k : Nat) :
    (shiftParser k p).next = ((p.next).1.map (shiftY k), shiftParser k (p.next).2) := by
  obtain ⟨e, st, ctx⟩ := p
  unfold Parser.next shiftParser
  cases e with
  | true => rfl
  | false =>
    simp only [Bool.false_eq_true, ↓reduceIte, untilData_shift]
    cases untilData ctx st with
    | ok r =>
      obtain ⟨⟨it?, ctx'⟩, st'⟩ := r
      cases it? <;> rfl
    | err e => rfl
    | panic => rfl

theorem collect_shift_aux (k : Nat) (n : Nat) : ∀ (p : Parser), p.st.inp.length ≤ n →
    collect (shiftParser k p) = (collect p).map (shiftY k) := by
  induction n with
  | zero =>
    intro p hlen
    rw [collect, collect, next_shift]
    cases hn : p.next with
    | mk y p' =>
      cases y with
      | none => rfl
      | some y =>
        cases y with
        | item i =>
          simp only [Option.map_some, shiftY]
          have hlt : ¬ p'.st.inp.length < p.st.inp.length := by omega
          have hlt' : ¬ (shiftParser k p').st.inp.length < (shiftParser k p).st.inp.length := by
            simpa [shiftParser] using hlt
          simp only [hlt, hlt', ↓reduceIte]
          rfl
        | err e =>
          simp only [Option.map_some, shiftY, next_shift]
          cases p'.next with
          | mk y2 p2 => cases y2 <;> rfl
        | panic =>
          simp only [Option.map_some, shiftY, next_shift]
          cases p'.next with
          | mk y2 p2 => cases y2 <;> rfl
  | succ n ih =>
    intro p hlen
    rw [collect, collect, next_shift]
    cases hn : p.next with
    | mk y p' =>
      cases y with
      | none => rfl
      | some y =>
        cases y with
        | item i =>
          simp only [Option.map_some, shiftY]
          by_cases hlt : p'.st.inp.length < p.st.inp.length
          · have hlt' : (shiftParser k p').st.inp.length < (shiftParser k p).st.inp.length := by
              simpa [shiftParser] using hlt
            simp only [hlt, hlt', ↓reduceIte, List.map_cons, shiftY]
            rw [ih p' (by omega)]
          · have hlt' : ¬ (shiftParser k p').st.inp.length < (shiftParser k p).st.inp.length := by
              simpa [shiftParser] using hlt
            simp only [hlt, hlt', ↓reduceIte]
            rfl
        | err e =>
          simp only [Option.map_some, shiftY, next_shift]
          cases p'.next with
          | mk y2 p2 => cases y2 <;> rfl
        | panic =>
          simp only [Option.map_some, shiftY, next_shift]
          cases p'.next with
          | mk y2 p2 => cases y2 <;> rfl

/-- **Line-counter invariance.**  Reading a text from line `l + k` yields what reading it from
    line `l` yields, with every line number increased by `k` -/
theorem collect_shift (p : Parser) (k : Nat) : collect (shiftParser k p) = (collect p).map (shiftY k) :=
  collect_shift_aux k p.st.inp.length p (Nat.le_refl _)

end QV.ZF
