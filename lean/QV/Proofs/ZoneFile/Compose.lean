/-
  QV.Proofs.ZoneFile.Compose — `parse (a ++ b)` from `parse a` (C25): when `a` ends with an
  unescaped newline and parses without error, the items of `a ++ b` are the items of `a`
  followed by the items of `b` read from the line and context where `a` ended.
-/
import QV.Proofs.ZoneFile.Frame
import QV.Proofs.ZoneFile.Files
import QV.Proofs.ZoneFile.Shift
import QV.Proofs.ZoneFile.Paren

namespace QV.ZF
open QV

/-- `parse_lines_until_returnable_data_found` on `x ++ b` -/
theorem untilData_append (ctx0 : Ctx) (b : List UInt8) (n : Nat) : ∀ (x : List UInt8), x.length ≤ n → Term x →
    ∀ (ctx : Ctx) (line : Nat) (p : Bool),
    (∀ item ctx' st', untilData ctx ⟨x, line, p⟩ = .ok ((some item, ctx'), st') →
      untilData ctx ⟨x ++ b, line, p⟩ = .ok ((some item, ctx'), ⟨st'.inp ++ b, st'.line, st'.paren⟩) ∧
      (st'.inp = [] ∨ Term st'.inp)) ∧
    (∀ ctx' st', untilData ctx ⟨x, line, p⟩ = .ok ((none, ctx'), st') →
      st'.inp = [] ∧ untilData ctx ⟨x ++ b, line, p⟩ = untilData ctx' ⟨b, st'.line, st'.paren⟩) := by
  induction n with
  | zero => intro x hlen hx; exact absurd (List.length_eq_zero_iff.mp (by omega)) hx.ne_nil
  | succ n ih =>
    intro x hlen hx ctx line p
    obtain ⟨c, rest, rfl⟩ : ∃ c rest, x = c :: rest := by
      cases x with
      | nil => exact absurd rfl hx.ne_nil
      | cons c rest => exact ⟨c, rest, rfl⟩
    -- one line, then the rest
    have key : ∀ (r : (Option Item × Ctx) × St), untilData ctx ⟨c :: rest, line, p⟩ = .ok r →
        (∃ item ctx' st', r = ((some item, ctx'), st') ∧
          untilData ctx ⟨c :: rest ++ b, line, p⟩ = .ok ((some item, ctx'), ⟨st'.inp ++ b, st'.line, st'.paren⟩) ∧
          (st'.inp = [] ∨ Term st'.inp)) ∨
        (∃ ctx' st', r = ((none, ctx'), st') ∧ st'.inp = [] ∧
          untilData ctx ⟨c :: rest ++ b, line, p⟩ = untilData ctx' ⟨b, st'.line, st'.paren⟩) := by
      intro r hr
      rw [untilData] at hr
      simp only at hr
      cases hl : parseLine ctx ⟨c :: rest, line, p⟩ with
      | err e => simp [hl] at hr
      | panic => simp [hl] at hr
      | ok r1 =>
        obtain ⟨⟨it?, ctx1⟩, ⟨y1, l1, p1⟩⟩ := r1
        obtain ⟨f1, ⟨u, hu⟩, _⟩ := Frame_parseLine ctx (c :: rest) b line p (it?, ctx1) y1 l1 p1 hx hl
        have hy1 : y1 = [] ∨ Term y1 := by
          by_cases h : y1 = []
          · exact .inl h
          · exact .inr (hx.suffix hu h)
        simp only [hl] at hr
        cases it? with
        | some item =>
          simp only [Out.ok.injEq] at hr
          subst hr
          refine .inl ⟨item, ctx1, _, rfl, ?_, hy1⟩
          rw [untilData]
          simp only [List.cons_append] at f1 ⊢
          simp only [f1]
        | none =>
          simp only at hr
          split at hr
          · next hlt =>
            have hlt' : (y1 ++ b).length < (c :: rest ++ b).length := by simp at hlt ⊢; omega
            have hstep : untilData ctx ⟨c :: rest ++ b, line, p⟩ = untilData ctx1 ⟨y1 ++ b, l1, p1⟩ := by
              rw [untilData]
              simp only [List.cons_append] at f1 hlt' ⊢
              simp only [f1, hlt', ↓reduceIte]
            rcases hy1 with rfl | hT
            · -- the line was the last one of `x`
              rw [untilData] at hr
              simp only [Out.ok.injEq] at hr
              subst hr
              exact .inr ⟨ctx1, _, rfl, rfl, by rw [hstep]; rfl⟩
            · have hl1 : y1.length ≤ n := by simp at hlt hlen; omega
              obtain ⟨i1, i2⟩ := ih y1 hl1 hT ctx1 l1 p1
              obtain ⟨⟨it2, ctx2⟩, st2⟩ := r
              cases it2 with
              | some item =>
                obtain ⟨j1, j2⟩ := i1 item ctx2 st2 hr
                exact .inl ⟨item, ctx2, st2, rfl, by rw [hstep]; exact j1, j2⟩
              | none =>
                obtain ⟨j1, j2⟩ := i2 ctx2 st2 hr
                exact .inr ⟨ctx2, st2, rfl, j1, by rw [hstep]; exact j2⟩
          · simp [fail] at hr
    constructor
    · intro item ctx' st' h
      rcases key _ h with ⟨item2, ctx2, st2, e, k1, k2⟩ | ⟨ctx2, st2, e, _, _⟩
      · cases e; exact ⟨k1, k2⟩
      · cases e
    · intro ctx' st' h
      rcases key _ h with ⟨item2, ctx2, st2, e, _, _⟩ | ⟨ctx2, st2, e, k1, k2⟩
      · cases e
      · cases e; exact ⟨k1, k2⟩

/-- the parser after everything has been read (`next` called until it returns `None`) -/
def Parser.finish (p : Parser) : Parser :=
  match p.next with
  | (none, p') => p'
  | (some (.item _), p') => if p'.st.inp.length < p.st.inp.length then Parser.finish p' else p'
  | (some _, p') => p'
termination_by p.st.inp.length

/-- **Compositionality.**  If `x` is empty or ends with an unescaped newline, and reading `x`
    from `(ctx, line)` yields no error, then reading `x ++ b` yields the items of `x` followed
    by what reading `b` yields from the line and context where `x` ended. -/
theorem collect_append (b : List UInt8) (n : Nat) : ∀ (x : List UInt8), x.length ≤ n → (x = [] ∨ Term x) →
    ∀ (ctx : Ctx) (hctx : CtxWF ctx) (line : Nat) (p : Bool),
    (∀ y ∈ collect ⟨false, ⟨x, line, p⟩, ctx⟩, ∃ i, y = .item i) →
    collect ⟨false, ⟨x ++ b, line, p⟩, ctx⟩ =
      collect ⟨false, ⟨x, line, p⟩, ctx⟩ ++
        collect ⟨false, ⟨b, (Parser.finish ⟨false, ⟨x, line, p⟩, ctx⟩).st.line,
          (Parser.finish ⟨false, ⟨x, line, p⟩, ctx⟩).st.paren⟩, (Parser.finish ⟨false, ⟨x, line, p⟩, ctx⟩).ctx⟩ := by
  induction n with
  | zero =>
    intro x hlen hx ctx hctx line p hok
    have : x = [] := List.length_eq_zero_iff.mp (by omega)
    subst this
    have hn : (⟨false, ⟨[], line, p⟩, ctx⟩ : Parser).next = (none, ⟨false, ⟨[], line, p⟩, ctx⟩) := by
      simp [Parser.next, untilData]
    rw [collect_none hn, Parser.finish, hn]
    simp
  | succ n ih =>
    intro x hlen hx ctx hctx line p hok
    rcases hx with rfl | hT
    · exact ih [] (by simp) (.inl rfl) ctx hctx line p hok
    · obtain ⟨a1, a2⟩ := untilData_append ctx b x.length x (Nat.le_refl _) hT ctx line p
      have g := next_spec (p := ⟨false, ⟨x, line, p⟩, ctx⟩) hctx
      cases hu : untilData ctx ⟨x, line, p⟩ with
      | ok r =>
        obtain ⟨⟨it?, ctx'⟩, st'⟩ := r
        cases it? with
        | some item =>
          obtain ⟨k1, k2⟩ := a1 item ctx' st' hu
          have hn := next_of_untilData hu
          have hn' := next_of_untilData k1
          rw [hn] at g
          obtain ⟨_, hctx', hlt⟩ := g
          simp only at hlt hctx'
          have hlt' : (st'.inp ++ b).length < (x ++ b).length := by simp; omega
          rw [collect_item hn hlt, collect_item hn' hlt']
          have hfin : Parser.finish ⟨false, ⟨x, line, p⟩, ctx⟩ = Parser.finish ⟨false, st', ctx'⟩ := by
            rw [Parser.finish, hn]; simp [hlt]
          rw [hfin]
          have hl : st'.inp.length ≤ n := by omega
          have hok' : ∀ y ∈ collect ⟨false, ⟨st'.inp, st'.line, st'.paren⟩, ctx'⟩, ∃ i, y = .item i := by
            intro y hy
            apply hok
            rw [collect_item hn hlt]
            exact List.mem_cons_of_mem _ hy
          have := ih st'.inp hl k2 ctx' hctx' st'.line st'.paren hok'
          simp only [List.cons_append]
          rw [this]
        | none =>
          obtain ⟨k1, k2⟩ := a2 ctx' st' hu
          have hn : (⟨false, ⟨x, line, p⟩, ctx⟩ : Parser).next = (none, ⟨false, st', ctx'⟩) := by
            simp [Parser.next, hu]
          rw [hn] at g
          have hctx' : CtxWF ctx' := g
          rw [collect_none hn, Parser.finish, hn]
          simp only [List.nil_append]
          exact collect_of_untilData_eq k2 hctx' (by simp)
      | err e =>
        exfalso
        have hmem : Yield.err e ∈ collect ⟨false, ⟨x, line, p⟩, ctx⟩ := by
          rw [collect]; simp [Parser.next, hu]
        obtain ⟨i, hi⟩ := hok _ hmem
        cases hi
      | panic =>
        exfalso
        have hmem : Yield.panic ∈ collect ⟨false, ⟨x, line, p⟩, ctx⟩ := by
          rw [collect]; simp [Parser.next, hu]
        obtain ⟨i, hi⟩ := hok _ hmem
        cases hi

/-! ### the end of a reading: outside parentheses; independent of the line counter -/

theorem next_paren (p p' : Parser) (y : Option Yield) (h : p.next = (y, p')) (hp : p.st.paren = false) :
    p'.st.paren = false := by
  obtain ⟨e, st, ctx⟩ := p
  unfold Parser.next at h
  cases e with
  | true => simp at h; rw [← h.2]; exact hp
  | false =>
    simp only [Bool.false_eq_true, ↓reduceIte] at h
    cases hu : untilData ctx st with
    | ok r =>
      obtain ⟨⟨it?, ctx'⟩, st'⟩ := r
      have := untilData_paren ctx st _ _ hu hp
      rw [hu] at h
      cases it? <;> (simp at h; rw [← h.2]; exact this)
    | err e => rw [hu] at h; simp at h; rw [← h.2]; exact hp
    | panic => rw [hu] at h; simp at h; rw [← h.2]; exact hp

theorem finish_paren_aux (n : Nat) : ∀ (p : Parser), p.st.inp.length ≤ n → p.st.paren = false →
    p.finish.st.paren = false := by
  induction n with
  | zero =>
    intro p hlen hp
    rw [Parser.finish]
    cases hn : p.next with
    | mk y p' =>
      have := next_paren p p' y hn hp
      cases y with
      | none => exact this
      | some y =>
        cases y with
        | item i =>
          have hlt : ¬ p'.st.inp.length < p.st.inp.length := by omega
          simp only [hlt, ↓reduceIte]; exact this
        | err e => exact this
        | panic => exact this
  | succ n ih =>
    intro p hlen hp
    rw [Parser.finish]
    cases hn : p.next with
    | mk y p' =>
      have := next_paren p p' y hn hp
      cases y with
      | none => exact this
      | some y =>
        cases y with
        | item i =>
          simp only
          split
          · next hlt => exact ih p' (by omega) this
          · exact this
        | err e => exact this
        | panic => exact this

theorem finish_paren (p : Parser) (hp : p.st.paren = false) : p.finish.st.paren = false :=
  finish_paren_aux p.st.inp.length p (Nat.le_refl _) hp

/-- the records among what the iterator yields, without their line numbers -/
def recsOfY (ys : List Yield) : List Rec :=
  ys.filterMap fun y => match y with
    | .item (.record _ r) => some r
    | _ => none

theorem recsOfY_shift (ys : List Yield) (k : Nat) : recsOfY (ys.map (shiftY k)) = recsOfY ys := by
  induction ys with
  | nil => rfl
  | cons y ys ih =>
    simp only [recsOfY, List.map_cons, List.filterMap_cons] at ih ⊢
    cases y with
    | item i => cases i <;> simp [shiftY, shItem, ih]
    | err e => simp [shiftY, ih]
    | panic => simp [shiftY, ih]

/-- the records of a text do not depend on the line at which reading starts -/
theorem recsOfY_line (x : List UInt8) (l1 l2 : Nat) (q : Bool) (ctx : Ctx) :
    recsOfY (collect ⟨false, ⟨x, l1, q⟩, ctx⟩) = recsOfY (collect ⟨false, ⟨x, l2, q⟩, ctx⟩) := by
  have h1 := collect_shift ⟨false, ⟨x, 0, q⟩, ctx⟩ l1
  have h2 := collect_shift ⟨false, ⟨x, 0, q⟩, ctx⟩ l2
  simp only [shiftParser, shiftSt, Nat.zero_add] at h1 h2
  rw [h1, h2, recsOfY_shift, recsOfY_shift]

theorem next_item_error (p p' : Parser) (i : Item) (h : p.next = (some (.item i), p')) :
    p.error = false ∧ p'.error = false := by
  obtain ⟨e, st, ctx⟩ := p
  unfold Parser.next at h
  cases e with
  | true => simp at h
  | false =>
    simp only [Bool.false_eq_true, ↓reduceIte] at h
    cases hu : untilData ctx st with
    | ok r =>
      obtain ⟨⟨it?, ctx'⟩, st'⟩ := r
      rw [hu] at h
      cases it? <;> simp at h
      exact ⟨rfl, by rw [← h.2]⟩
    | err e => rw [hu] at h; simp at h
    | panic => rw [hu] at h; simp at h

theorem next_fail_ctx (p p' : Parser) (y : Yield) (h : p.next = (some y, p')) (hy : ∀ i, y ≠ .item i) :
    p'.ctx = p.ctx := by
  obtain ⟨e, st, ctx⟩ := p
  unfold Parser.next at h
  cases e with
  | true => simp at h
  | false =>
    simp only [Bool.false_eq_true, ↓reduceIte] at h
    cases hu : untilData ctx st with
    | ok r =>
      obtain ⟨⟨it?, ctx'⟩, st'⟩ := r
      rw [hu] at h
      cases it? <;> simp at h
      exact absurd h.1.symm (hy _)
    | err e => rw [hu] at h; simp at h; rw [← h.2]
    | panic => rw [hu] at h; simp at h; rw [← h.2]

/-- the context in which a reading ends is well formed -/
theorem finish_ctxWF_aux (n : Nat) : ∀ (q : Parser), q.st.inp.length ≤ n → CtxWF q.ctx → CtxWF q.finish.ctx := by
  induction n with
  | zero =>
    intro q hlen hq
    rw [Parser.finish]
    have g := next_spec (p := q) hq
    cases hn : q.next with
    | mk y q' =>
      rw [hn] at g
      cases y with
      | none => exact g
      | some y =>
        cases y with
        | item i => have := g.2.2; omega
        | err e => simp only; rw [next_fail_ctx q q' _ hn (by intro i h; cases h)]; exact hq
        | panic => exact g.elim
  | succ n ih =>
    intro q hlen hq
    rw [Parser.finish]
    have g := next_spec (p := q) hq
    cases hn : q.next with
    | mk y q' =>
      rw [hn] at g
      cases y with
      | none => exact g
      | some y =>
        cases y with
        | item i =>
          simp only
          split
          · exact ih q' (by have := g.2.2; omega) g.2.1
          · exact g.2.1
        | err e => simp only; rw [next_fail_ctx q q' _ hn (by intro i h; cases h)]; exact hq
        | panic => exact g.elim

theorem finish_ctxWF (q : Parser) (hq : CtxWF q.ctx) : CtxWF q.finish.ctx :=
  finish_ctxWF_aux q.st.inp.length q (Nat.le_refl _) hq

/-! ### more on the end of a reading -/

theorem finish_shift_aux (k : Nat) (n : Nat) : ∀ (p : Parser), p.st.inp.length ≤ n →
    (shiftParser k p).finish = shiftParser k p.finish := by
  induction n with
  | zero =>
    intro p hlen
    rw [Parser.finish, Parser.finish, next_shift]
    cases hn : p.next with
    | mk y p' =>
      cases y with
      | none => rfl
      | some y =>
        cases y with
        | item i =>
          have hlt : ¬ p'.st.inp.length < p.st.inp.length := by omega
          have hlt' : ¬ (shiftParser k p').st.inp.length < (shiftParser k p).st.inp.length := by
            simpa [shiftParser] using hlt
          simp only [Option.map_some, shiftY, hlt, hlt', ↓reduceIte]
        | err e => rfl
        | panic => rfl
  | succ n ih =>
    intro p hlen
    rw [Parser.finish, Parser.finish, next_shift]
    cases hn : p.next with
    | mk y p' =>
      cases y with
      | none => rfl
      | some y =>
        cases y with
        | item i =>
          simp only [Option.map_some, shiftY]
          by_cases hlt : p'.st.inp.length < p.st.inp.length
          · have hlt' : (shiftParser k p').st.inp.length < (shiftParser k p).st.inp.length := by
              simpa [shiftParser] using hlt
            simp only [hlt, hlt', ↓reduceIte]
            exact ih p' (by omega)
          · have hlt' : ¬ (shiftParser k p').st.inp.length < (shiftParser k p).st.inp.length := by
              simpa [shiftParser] using hlt
            simp only [hlt, hlt', ↓reduceIte]
        | err e => rfl
        | panic => rfl

theorem finish_shift (p : Parser) (k : Nat) : (shiftParser k p).finish = shiftParser k p.finish :=
  finish_shift_aux k p.st.inp.length p (Nat.le_refl _)

/-- the context in which a reading ends does not depend on the line at which it starts -/
theorem finish_ctx_line (x : List UInt8) (l1 l2 : Nat) (q : Bool) (ctx : Ctx) :
    (Parser.finish ⟨false, ⟨x, l1, q⟩, ctx⟩).ctx = (Parser.finish ⟨false, ⟨x, l2, q⟩, ctx⟩).ctx := by
  have h1 := finish_shift ⟨false, ⟨x, 0, q⟩, ctx⟩ l1
  have h2 := finish_shift ⟨false, ⟨x, 0, q⟩, ctx⟩ l2
  simp only [shiftParser, shiftSt, Nat.zero_add] at h1 h2
  rw [h1, h2]

theorem Term_append {a b : List UInt8} (ha : a = [] ∨ Term a) (hb : b = [] ∨ Term b) :
    a ++ b = [] ∨ Term (a ++ b) := by
  rcases hb with rfl | hb
  · simpa using ha
  · right
    obtain ⟨b0, rfl, h92⟩ := hb
    refine ⟨a ++ b0, by simp, ?_⟩
    cases b0 with
    | nil =>
      rcases ha with rfl | ⟨a0, rfl, ha92⟩
      · simpa using h92
      · simp
    | cons c t =>
      rw [List.getLast?_append]
      simpa using h92

theorem finish_of_none {p p' : Parser} (hn : p.next = (none, p')) : p.finish = p' := by
  rw [Parser.finish, hn]

theorem finish_of_item {p p' : Parser} {i : Item} (hn : p.next = (some (.item i), p'))
    (hlt : p'.st.inp.length < p.st.inp.length) : p.finish = p'.finish := by
  rw [Parser.finish, hn]; simp [hlt]

/-- two reader states from which `parse_lines_until_returnable_data_found` behaves the same,
    without error, end in the same state -/
theorem finish_of_untilData_eq {ctx1 ctx2 : Ctx} {st1 st2 : St} (h : untilData ctx1 st1 = untilData ctx2 st2)
    (hctx : CtxWF ctx2) (hlen : st2.inp.length ≤ st1.inp.length)
    (hok : ∀ y ∈ collect ⟨false, st2, ctx2⟩, ∃ i, y = .item i) :
    Parser.finish ⟨false, st1, ctx1⟩ = Parser.finish ⟨false, st2, ctx2⟩ := by
  have g := next_spec (p := ⟨false, st2, ctx2⟩) hctx
  cases hu : untilData ctx2 st2 with
  | ok r =>
    obtain ⟨⟨it?, ctx'⟩, st'⟩ := r
    cases it? with
    | none =>
      have n1 : (⟨false, st1, ctx1⟩ : Parser).next = (none, ⟨false, st', ctx'⟩) := by simp [Parser.next, h, hu]
      have n2 : (⟨false, st2, ctx2⟩ : Parser).next = (none, ⟨false, st', ctx'⟩) := by simp [Parser.next, hu]
      rw [finish_of_none n1, finish_of_none n2]
    | some item =>
      have n1 : (⟨false, st1, ctx1⟩ : Parser).next = (some (.item item), ⟨false, st', ctx'⟩) := by
        simp [Parser.next, h, hu]
      have n2 : (⟨false, st2, ctx2⟩ : Parser).next = (some (.item item), ⟨false, st', ctx'⟩) := by
        simp [Parser.next, hu]
      rw [n2] at g
      have h2 : st'.inp.length < st2.inp.length := g.2.2
      rw [finish_of_item n1 (by simp only; omega), finish_of_item n2 h2]
  | err e =>
    exfalso
    have hmem : Yield.err e ∈ collect ⟨false, st2, ctx2⟩ := by rw [collect]; simp [Parser.next, hu]
    obtain ⟨i, hi⟩ := hok _ hmem
    cases hi
  | panic =>
    exfalso
    have hmem : Yield.panic ∈ collect ⟨false, st2, ctx2⟩ := by rw [collect]; simp [Parser.next, hu]
    obtain ⟨i, hi⟩ := hok _ hmem
    cases hi

/-- the end of reading `x ++ b` is the end of reading `b` from where `x` ended (no errors) -/
theorem finish_append (b : List UInt8) (n : Nat) : ∀ (x : List UInt8), x.length ≤ n → (x = [] ∨ Term x) →
    ∀ (ctx : Ctx) (hctx : CtxWF ctx) (line : Nat) (p : Bool),
    (∀ y ∈ collect ⟨false, ⟨x, line, p⟩, ctx⟩, ∃ i, y = .item i) →
    (∀ y ∈ collect ⟨false, ⟨b, (Parser.finish ⟨false, ⟨x, line, p⟩, ctx⟩).st.line,
          (Parser.finish ⟨false, ⟨x, line, p⟩, ctx⟩).st.paren⟩, (Parser.finish ⟨false, ⟨x, line, p⟩, ctx⟩).ctx⟩,
        ∃ i, y = .item i) →
    Parser.finish ⟨false, ⟨x ++ b, line, p⟩, ctx⟩ =
      Parser.finish ⟨false, ⟨b, (Parser.finish ⟨false, ⟨x, line, p⟩, ctx⟩).st.line,
          (Parser.finish ⟨false, ⟨x, line, p⟩, ctx⟩).st.paren⟩, (Parser.finish ⟨false, ⟨x, line, p⟩, ctx⟩).ctx⟩ := by
  induction n with
  | zero =>
    intro x hlen hx ctx hctx line p hok hokb
    have : x = [] := List.length_eq_zero_iff.mp (by omega)
    subst this
    have hn : (⟨false, ⟨[], line, p⟩, ctx⟩ : Parser).next = (none, ⟨false, ⟨[], line, p⟩, ctx⟩) := by
      simp [Parser.next, untilData]
    rw [finish_of_none hn]
    simp
  | succ n ih =>
    intro x hlen hx ctx hctx line p hok hokb
    rcases hx with rfl | hT
    · exact ih [] (by simp) (.inl rfl) ctx hctx line p hok hokb
    · obtain ⟨a1, a2⟩ := untilData_append ctx b x.length x (Nat.le_refl _) hT ctx line p
      have g := next_spec (p := ⟨false, ⟨x, line, p⟩, ctx⟩) hctx
      cases hu : untilData ctx ⟨x, line, p⟩ with
      | ok r =>
        obtain ⟨⟨it?, ctx'⟩, st'⟩ := r
        cases it? with
        | some item =>
          obtain ⟨k1, k2⟩ := a1 item ctx' st' hu
          have hn := next_of_untilData hu
          have hn' := next_of_untilData k1
          rw [hn] at g
          obtain ⟨_, hctx', hlt⟩ := g
          simp only at hlt hctx'
          have hlt' : (st'.inp ++ b).length < (x ++ b).length := by simp; omega
          have hfin := finish_of_item hn hlt
          rw [hfin] at hokb ⊢
          rw [finish_of_item hn' (by simpa using hlt')]
          have hok' : ∀ y ∈ collect ⟨false, ⟨st'.inp, st'.line, st'.paren⟩, ctx'⟩, ∃ i, y = .item i := by
            intro y hy
            apply hok
            rw [collect_item hn hlt]
            exact List.mem_cons_of_mem _ hy
          exact ih st'.inp (by omega) k2 ctx' hctx' st'.line st'.paren hok' hokb
        | none =>
          obtain ⟨k1, k2⟩ := a2 ctx' st' hu
          have hn : (⟨false, ⟨x, line, p⟩, ctx⟩ : Parser).next = (none, ⟨false, st', ctx'⟩) := by
            simp [Parser.next, hu]
          rw [hn] at g
          have hctx' : CtxWF ctx' := g
          rw [finish_of_none hn] at hokb ⊢
          exact finish_of_untilData_eq k2 hctx' (by simp) hokb
      | err e =>
        exfalso
        have hmem : Yield.err e ∈ collect ⟨false, ⟨x, line, p⟩, ctx⟩ := by
          rw [collect]; simp [Parser.next, hu]
        obtain ⟨i, hi⟩ := hok _ hmem
        cases hi
      | panic =>
        exfalso
        have hmem : Yield.panic ∈ collect ⟨false, ⟨x, line, p⟩, ctx⟩ := by
          rw [collect]; simp [Parser.next, hu]
        obtain ⟨i, hi⟩ := hok _ hmem
        cases hi

end QV.ZF
