/-
  QV.Proofs.ZoneFile.Fields — single fields of typed RDATA read back (C23): IPv4 addresses and
  `<character-string>`s.
-/
import QV.Proofs.ZoneFile.Mnemonic

namespace QV.ZF
open QV QV.Spec.ZF

/-! ### texts that start a field -/

/-- the text begins with an octet that starts a field -/
def Starts (X : List UInt8) : Prop := ∃ c t, X = c :: t ∧ fieldStart c

theorem Starts.append {X : List UInt8} (h : Starts X) (rest : List UInt8) : Starts (X ++ rest) := by
  obtain ⟨c, t, rfl, hc⟩ := h
  exact ⟨c, t ++ rest, rfl, hc⟩

theorem Starts.ne_nil {X : List UInt8} (h : Starts X) : X ≠ [] := by
  obtain ⟨c, t, rfl, _⟩ := h; simp

theorem starts_decimal (n : Nat) : Starts (decimal n) := by
  obtain ⟨d, ds, hd, hs⟩ := decimal_head n
  exact ⟨d, ds, hd, hs⟩

/-! ### IPv4 addresses -/

def digitVal (c : UInt8) : Nat := c.toNat - 48

theorem toDigit_digit {c : UInt8} (h : isDigit c = true) : toDigit 10 c = some (digitVal c) := by
  unfold isDigit at h
  simp [toDigit, h, digitVal]

theorem spanDigits_append (ds rest : List UInt8) (hds : ∀ c ∈ ds, isDigit c = true)
    (hrest : ∀ c t, rest = c :: t → toDigit 10 c = none) :
    spanDigits 10 (ds ++ rest) = (ds.map digitVal, rest) := by
  induction ds with
  | nil =>
    cases rest with
    | nil => rfl
    | cons c t => simp [spanDigits, hrest c t rfl]
  | cons c ds ih =>
    simp [spanDigits, toDigit_digit (hds c (by simp)), ih (fun x hx => hds x (by simp [hx]))]

/-- the decimal texts of octet values, checked one by one -/
theorem octet_decimal_facts : ∀ n, n < 256 →
    ((decimal n).map digitVal).length ≠ 0 ∧ ((decimal n).map digitVal).length ≤ 3 ∧
    (((decimal n).map digitVal).head? == some 0 && decide (((decimal n).map digitVal).length > 1)) = false ∧
    ((decimal n).map digitVal).foldl (fun a d => a * 10 + d) 0 = n := by
  decide +kernel

theorem readNumber_decimal (n : Nat) (hn : n < 256) (rest : List UInt8)
    (hrest : ∀ c t, rest = c :: t → toDigit 10 c = none) :
    readNumber 10 3 255 false (decimal n ++ rest) = some (n, rest) := by
  obtain ⟨h1, h2, h3, h4⟩ := octet_decimal_facts n hn
  unfold readNumber
  rw [spanDigits_append _ _ (decimal_digits n) hrest]
  have e1 : (((decimal n).map digitVal).length == 0) = false := by simpa using h1
  have e2 : ¬ ((decimal n).map digitVal).length > 3 := by omega
  have e4 : ¬ n > 255 := by omega
  simp only [e1, Bool.false_eq_true, ↓reduceIte, e2, Bool.not_false, Bool.true_and, h3, h4, e4]

theorem parseIpv4_render (a b c d : Nat) (ha : a < 256) (hb : b < 256) (hc : c < 256) (hd : d < 256) :
    parseIpv4 (decimal a ++ 46 :: (decimal b ++ 46 :: (decimal c ++ 46 :: decimal d))) =
      some [UInt8.ofNat a, UInt8.ofNat b, UInt8.ofNat c, UInt8.ofNat d] := by
  have hdot : ∀ X c t, (46 : UInt8) :: X = c :: t → toDigit 10 c = none := by
    intro X c t h; cases h; decide
  have hnil : ∀ c t, ([] : List UInt8) = c :: t → toDigit 10 c = none := by intro c t h; cases h
  have hlen : ∀ n, n < 256 → (decimal n).length ≤ 3 := by
    intro n hn; have := (octet_decimal_facts n hn).2.1; simpa using this
  have hl := hlen a ha; have := hlen b hb; have := hlen c hc; have := hlen d hd
  unfold parseIpv4
  have e : ¬ (decimal a ++ 46 :: (decimal b ++ 46 :: (decimal c ++ 46 :: decimal d))).length > 15 := by
    simp; omega
  simp only [e, ↓reduceIte]
  have hd' := readNumber_decimal d hd [] hnil
  simp only [List.append_nil] at hd'
  simp [readIpv4, readSep, readChar, readNumber_decimal a ha _ (hdot _), readNumber_decimal b hb _ (hdot _),
    readNumber_decimal c hc _ (hdot _), hd']

/-! ### character-strings -/

/-- the line after reading an octet of a string written in the given form: raw newlines (inside
    quotes) and `\` + newline are counted -/
def strLineAfter (line : Nat) (b : UInt8) (f : OctetForm) : Nat :=
  if b = 10 ∧ f ≠ .dec then line + 1 else line

theorem quotedLoop_octet (max : Nat) (tl ek : Kind) (sl : Nat) (b : UInt8) (f : OctetForm)
    (hf : stringFormOK true b f = true) (rest : List UInt8) (line : Nat) (acc : List UInt8) (n : Nat)
    (hn : n < max) :
    quotedLoop max tl ek sl (renderOctet b f ++ rest) line acc n =
      quotedLoop max tl ek sl rest (strLineAfter line b f) (b :: acc) (n + 1) := by
  have hn' : ¬ n ≥ max := by omega
  cases f with
  | raw =>
    simp only [stringFormOK, ↓reduceIte, Bool.and_eq_true, bne_iff_ne, ne_eq] at hf
    have h34 : (b == 34) = false := by simpa using hf.1
    have h92 : (b == 92) = false := by simpa using hf.2
    rw [renderOctet, List.singleton_append, quotedLoop.eq_def]
    simp only [h92, h34, Bool.false_eq_true, ↓reduceIte, hn', strLineAfter]
    congr 1
    simp
  | esc =>
    simp only [stringFormOK, Bool.not_eq_true'] at hf
    rw [renderOctet, quotedLoop.eq_def]
    simp only [List.cons_append, List.nil_append, beq_self_eq_true, ↓reduceIte]
    rw [parseEscapeL_esc b rest line (by rw [isDigit_eq]; exact hf)]
    simp only [hn', ↓reduceIte, strLineAfter]
    congr 1
    simp
  | dec =>
    rw [renderOctet, quotedLoop.eq_def]
    simp only [List.cons_append, List.nil_append, beq_self_eq_true, ↓reduceIte]
    rw [parseEscapeL_dec b rest line]
    simp [hn', strLineAfter]

theorem unquotedLoop_octet (max : Nat) (tl : Kind) (sl : Nat) (b : UInt8) (f : OctetForm)
    (hf : stringFormOK false b f = true) (rest : List UInt8) (line : Nat) (acc : List UInt8) (n : Nat)
    (hn : n < max) :
    unquotedLoop max tl sl (renderOctet b f ++ rest) line acc n =
      unquotedLoop max tl sl rest (strLineAfter line b f) (b :: acc) (n + 1) := by
  have hn' : ¬ n ≥ max := by omega
  cases f with
  | raw =>
    simp only [stringFormOK, Bool.false_eq_true, ↓reduceIte, Bool.and_eq_true, Bool.not_eq_true', bne_iff_ne,
      ne_eq] at hf
    have hs : special b = false := hf.1
    have h92 : (b == 92) = false := by
      simp only [special, Bool.or_eq_false_iff] at hs; exact hs.2
    have h10 : b ≠ 10 := by
      simp only [special, Bool.or_eq_false_iff] at hs
      simpa using hs.1.1.2
    rw [renderOctet, List.singleton_append, unquotedLoop.eq_def]
    simp [atFieldEnd_plain rest hs, h92, hn', strLineAfter, h10]
  | esc =>
    simp only [stringFormOK, Bool.not_eq_true'] at hf
    rw [renderOctet, unquotedLoop.eq_def]
    simp only [List.cons_append, List.nil_append, atFieldEnd_backslash, Bool.false_eq_true, ↓reduceIte,
      beq_self_eq_true]
    rw [parseEscapeL_esc b rest line (by rw [isDigit_eq]; exact hf)]
    simp only [hn', ↓reduceIte, strLineAfter]
    congr 1
    simp
  | dec =>
    rw [renderOctet, unquotedLoop.eq_def]
    simp only [List.cons_append, List.nil_append, atFieldEnd_backslash, Bool.false_eq_true, ↓reduceIte,
      beq_self_eq_true]
    rw [parseEscapeL_dec b rest line]
    simp [hn', strLineAfter]

def octetsText (os : List (UInt8 × OctetForm)) : List UInt8 := os.flatMap fun x => renderOctet x.1 x.2

def octetsLines (os : List (UInt8 × OctetForm)) : Nat := (os.filter fun x => x.1 = 10 ∧ x.2 ≠ .dec).length

theorem octetsLines_cons (x : UInt8 × OctetForm) (os : List (UInt8 × OctetForm)) (line : Nat) :
    strLineAfter line x.1 x.2 + octetsLines os = line + octetsLines (x :: os) := by
  unfold strLineAfter octetsLines
  by_cases h : x.1 = 10 ∧ x.2 ≠ .dec
  · simp only [h, and_self, ↓reduceIte, List.filter_cons, ne_eq, not_false_eq_true, decide_true,
      List.length_cons]
    omega
  · simp [h, List.filter_cons]

theorem quotedLoop_render (max : Nat) (tl ek : Kind) (sl : Nat) (os : List (UInt8 × OctetForm))
    (hforms : ∀ x ∈ os, stringFormOK true x.1 x.2 = true) (rest : List UInt8) (line : Nat)
    (acc : List UInt8) (n : Nat) (hn : n + os.length ≤ max) :
    quotedLoop max tl ek sl (octetsText os ++ 34 :: rest) line acc n =
      .ok (acc.reverse ++ os.map (·.1), rest, line + octetsLines os) := by
  induction os generalizing line acc n with
  | nil =>
    rw [quotedLoop.eq_def]
    simp [octetsText, octetsLines]
  | cons x os ih =>
    have e : octetsText (x :: os) ++ 34 :: rest = renderOctet x.1 x.2 ++ (octetsText os ++ 34 :: rest) := by
      simp [octetsText]
    rw [e, quotedLoop_octet max tl ek sl x.1 x.2 (hforms x (by simp)) _ line acc n (by simp at hn; omega),
      ih (fun y hy => hforms y (by simp [hy])) _ _ _ (by simp at hn; omega), octetsLines_cons]
    simp

theorem unquotedLoop_render (max : Nat) (tl : Kind) (sl : Nat) (os : List (UInt8 × OctetForm))
    (hforms : ∀ x ∈ os, stringFormOK false x.1 x.2 = true) (rest : List UInt8)
    (hrest : atFieldEnd rest = true) (line : Nat) (acc : List UInt8) (n : Nat) (hn : n + os.length ≤ max) :
    unquotedLoop max tl sl (octetsText os ++ rest) line acc n =
      .ok (acc.reverse ++ os.map (·.1), rest, line + octetsLines os) := by
  induction os generalizing line acc n with
  | nil =>
    rw [unquotedLoop.eq_def]
    simp [octetsText, octetsLines, hrest]
  | cons x os ih =>
    have e : octetsText (x :: os) ++ rest = renderOctet x.1 x.2 ++ (octetsText os ++ rest) := by
      simp [octetsText]
    rw [e, unquotedLoop_octet max tl sl x.1 x.2 (hforms x (by simp)) _ line acc n (by simp at hn; omega),
      ih (fun y hy => hforms y (by simp [hy])) _ _ _ (by simp at hn; omega), octetsLines_cons]
    simp

/-- what the writer of a `<character-string>` must respect: at most 255 octets; inside quotes
    `"` and `\` escaped; without quotes, not empty and everything special escaped -/
structure WFString (s : PString) : Prop where
  forms : ∀ x ∈ s.octets, stringFormOK s.quoted x.1 x.2 = true
  len : s.octets.length ≤ 255
  ne : s.quoted = false → s.octets ≠ []

theorem octetsText_head {os : List (UInt8 × OctetForm)} (hne : os ≠ [])
    (hforms : ∀ x ∈ os, stringFormOK false x.1 x.2 = true) :
    ∃ c t, octetsText os = c :: t ∧ fieldStart c ∧ c ≠ 34 := by
  cases os with
  | nil => exact absurd rfl hne
  | cons x os =>
    obtain ⟨b, f⟩ := x
    have hf := hforms (b, f) (by simp)
    cases f with
    | raw =>
      simp only [stringFormOK, Bool.false_eq_true, ↓reduceIte, Bool.and_eq_true, Bool.not_eq_true', bne_iff_ne,
        ne_eq] at hf
      exact ⟨b, octetsText os, by simp [octetsText, renderOctet], .inr hf.1, hf.2⟩
    | esc => exact ⟨92, b :: octetsText os, by simp [octetsText, renderOctet], .inl rfl, by decide⟩
    | dec => exact ⟨92, _, by simp [octetsText, renderOctet]; rfl, .inl rfl, by decide⟩

theorem stringText_starts_of (s : PString) (hforms : ∀ x ∈ s.octets, stringFormOK s.quoted x.1 x.2 = true)
    (hne : s.quoted = false → s.octets ≠ []) : Starts (stringText s) := by
  unfold stringText
  cases hq : s.quoted with
  | true => exact ⟨34, _, by simp only [↓reduceIte]; rfl, .inr (by decide)⟩
  | false =>
    obtain ⟨c, t, hct, hc, _⟩ := octetsText_head (hne hq) (by rwa [hq] at hforms)
    exact ⟨c, t, by simpa [octetsText] using hct, hc⟩

theorem stringText_starts (s : PString) (hwf : WFString s) : Starts (stringText s) :=
  stringText_starts_of s hwf.forms hwf.ne

/-- a string field with the length limit `max` -/
theorem parseString_render (max : Nat) (tl ek : Kind) (s : PString)
    (hforms : ∀ x ∈ s.octets, stringFormOK s.quoted x.1 x.2 = true) (hlen : s.octets.length ≤ max)
    (hne : s.quoted = false → s.octets ≠ []) (rest : List UInt8)
    (hrest : atFieldEnd rest = true) (line : Nat) (paren : Bool) :
    parseString max tl ek ⟨stringText s ++ rest, line, paren⟩ =
      .ok (stringOctets s, ⟨rest, line + stringLines s, paren⟩) := by
  unfold parseString stringText
  cases hq : s.quoted with
  | true =>
    rw [hq] at hforms
    have := quotedLoop_render max tl ek line s.octets hforms rest line [] 0 (by omega)
    simp only [octetsText] at this
    simp [this, stringOctets, stringLines, octetsLines]
  | false =>
    rw [hq] at hforms
    obtain ⟨c, t, hct, _, h34⟩ := octetsText_head (hne hq) hforms
    have := unquotedLoop_render max tl line s.octets hforms rest hrest line [] 0 (by omega)
    simp only [Bool.false_eq_true, ↓reduceIte]
    have hct' : (s.octets.flatMap fun x => renderOctet x.1 x.2) = c :: t := hct
    rw [hct'] at *
    rw [hct] at this
    simp only [List.cons_append] at this ⊢
    split
    · next heq => simp at heq; exact absurd heq.1 h34
    · simp [this, stringOctets, stringLines, octetsLines]

/-- **Character-strings**, quoted or not, in any mix of raw / `\X` / `\DDD` octets -/
theorem parseCharacterString_render (s : PString) (hwf : WFString s) (rest : List UInt8)
    (hrest : atFieldEnd rest = true) (line : Nat) (paren : Bool) :
    parseCharacterString ⟨stringText s ++ rest, line, paren⟩ =
      .ok (stringOctets s, ⟨rest, line + stringLines s, paren⟩) :=
  parseString_render 255 _ _ s hwf.forms hwf.len hwf.ne rest hrest line paren

end QV.ZF
