/-
  QV.Proofs.ZoneFile.Fields — single fields of typed RDATA read back (C23): IPv4 addresses and
  `<character-string>`s.
-/
import QV.Proofs.ZoneFile.Mnemonic

namespace QV.ZF
open QV QV.Spec.ZF

/-! ### texts that start a field -/

/-- the text begins with an octet that starts a field -/
def Starts (X : List UInt8) : Prop := ∃ c t, X = c :: t ∧ fieldStart c

theorem Starts.append {X : List UInt8} (h : Starts X) (rest : List UInt8) : Starts (X ++ rest) := by
  obtain ⟨c, t, rfl, hc⟩ := h
  exact ⟨c, t ++ rest, rfl, hc⟩

theorem Starts.ne_nil {X : List UInt8} (h : Starts X) : X ≠ [] := by
  obtain ⟨c, t, rfl, _⟩ := h; simp

theorem starts_decimal (n : Nat) : Starts (decimal n) := by
  obtain ⟨d, ds, hd, hs⟩ := decimal_head n
  exact ⟨d, ds, hd, hs⟩

/-! ### IPv4 addresses -/

def digitVal (c : UInt8) : Nat := c.toNat - 48

theorem toDigit_digit {c : UInt8} (h : isDigit c = true) : toDigit 10 c = some (digitVal c) := by
  unfold isDigit at h
  simp [toDigit, h, digitVal]

theorem spanDigits_append (ds rest : List UInt8) (hds : ∀ c ∈ ds, isDigit c = true)
    (hrest : ∀ c t, rest = c :: t → toDigit 10 c = none) :
    spanDigits 10 (ds ++ rest) = (ds.map digitVal, rest) := by
  induction ds with
  | nil =>
    cases rest with
    | nil => rfl
    | cons c t => simp [spanDigits, hrest c t rfl]
  | cons c ds ih =>
    simp [spanDigits, toDigit_digit (hds c (by simp)), ih (fun x hx => hds x (by simp [hx]))]

/-- the decimal texts of octet values, checked one by one -/
theorem octet_decimal_facts : ∀ n, n < 256 →
    ((decimal n).map digitVal).length ≠ 0 ∧ ((decimal n).map digitVal).length ≤ 3 ∧
    (((decimal n).map digitVal).head? == some 0 && decide (((decimal n).map digitVal).length > 1)) = false ∧
    ((decimal n).map digitVal).foldl (fun a d => a * 10 + d) 0 = n := by
  decide +kernel

theorem readNumber_decimal (n : Nat) (hn : n < 256) (rest : List UInt8)
    (hrest : ∀ c t, rest = c :: t → toDigit 10 c = none) :
    readNumber 10 3 255 false (decimal n ++ rest) = some (n, rest) := by
  obtain ⟨h1, h2, h3, h4⟩ := octet_decimal_facts n hn
  unfold readNumber
  rw [spanDigits_append _ _ (decimal_digits n) hrest]
  have e1 : (((decimal n).map digitVal).length == 0) = false := by simpa using h1
  have e2 : ¬ ((decimal n).map digitVal).length > 3 := by omega
  have e4 : ¬ n > 255 := by omega
  simp only [e1, Bool.false_eq_true, ↓reduceIte, e2, Bool.not_false, Bool.true_and, h3, h4, e4]

theorem parseIpv4_render (a b c d : Nat) (ha : a < 256) (hb : b < 256) (hc : c < 256) (hd : d < 256) :
    parseIpv4 (decimal a ++ 46 :: (decimal b ++ 46 :: (decimal c ++ 46 :: decimal d))) =
      some [UInt8.ofNat a, UInt8.ofNat b, UInt8.ofNat c, UInt8.ofNat d] := by
  have hdot : ∀ X c t, (46 : UInt8) :: X = c :: t → toDigit 10 c = none := by
    intro X c t h; cases h; decide
  have hnil : ∀ c t, ([] : List UInt8) = c :: t → toDigit 10 c = none := by intro c t h; cases h
  have hlen : ∀ n, n < 256 → (decimal n).length ≤ 3 := by
    intro n hn; have := (octet_decimal_facts n hn).2.1; simpa using this
  have hl := hlen a ha; have := hlen b hb; have := hlen c hc; have := hlen d hd
  unfold parseIpv4
  have e : ¬ (decimal a ++ 46 :: (decimal b ++ 46 :: (decimal c ++ 46 :: decimal d))).length > 15 := by
    simp; omega
  simp only [e, ↓reduceIte]
  have hd' := readNumber_decimal d hd [] hnil
  simp only [List.append_nil] at hd'
  simp [readIpv4, readSep, readChar, readNumber_decimal a ha _ (hdot _), readNumber_decimal b hb _ (hdot _),
    readNumber_decimal c hc _ (hdot _), hd']

/-! ### character-strings -/

/-- the line after reading an octet of a string written in the given form: raw newlines (inside
    quotes) and `\` + newline are counted -/
def strLineAfter (line : Nat) (b : UInt8) (f : OctetForm) : Nat :=
  if b = 10 ∧ f ≠ .dec then line + 1 else line

theorem quotedLoop_octet (max : Nat) (tl ek : Kind) (sl : Nat) (b : UInt8) (f : OctetForm)
    (hf : stringFormOK true b f = true) (rest : List UInt8) (line : Nat) (acc : List UInt8) (n : Nat)
    (hn : n < max) :
    quotedLoop max tl ek sl (renderOctet b f ++ rest) line acc n =
      quotedLoop max tl ek sl rest (strLineAfter line b f) (b :: acc) (n + 1) := by
  have hn' : ¬ n ≥ max := by omega
  cases f with
  | raw =>
    simp only [stringFormOK, ↓reduceIte, Bool.and_eq_true, bne_iff_ne, ne_eq] at hf
    have h34 : (b == 34) = false := by simpa using hf.1
    have h92 : (b == 92) = false := by simpa using hf.2
    rw [renderOctet, List.singleton_append, quotedLoop.eq_def]
    simp only [h92, h34, Bool.false_eq_true, ↓reduceIte, hn', strLineAfter]
    congr 1
    simp
  | esc =>
    simp only [stringFormOK, Bool.not_eq_true'] at hf
    rw [renderOctet, quotedLoop.eq_def]
    simp only [List.cons_append, List.nil_append, beq_self_eq_true, ↓reduceIte]
    rw [parseEscapeL_esc b rest line (by rw [isDigit_eq]; exact hf)]
    simp only [hn', ↓reduceIte, strLineAfter]
    congr 1
    simp
  | dec =>
    rw [renderOctet, quotedLoop.eq_def]
    simp only [List.cons_append, List.nil_append, beq_self_eq_true, ↓reduceIte]
    rw [parseEscapeL_dec b rest line]
    simp [hn', strLineAfter]

theorem unquotedLoop_octet (max : Nat) (tl : Kind) (sl : Nat) (b : UInt8) (f : OctetForm)
    (hf : stringFormOK false b f = true) (rest : List UInt8) (line : Nat) (acc : List UInt8) (n : Nat)
    (hn : n < max) :
    unquotedLoop max tl sl (renderOctet b f ++ rest) line acc n =
      unquotedLoop max tl sl rest (strLineAfter line b f) (b :: acc) (n + 1) := by
  have hn' : ¬ n ≥ max := by omega
  cases f with
  | raw =>
    simp only [stringFormOK, Bool.false_eq_true, ↓reduceIte, Bool.and_eq_true, Bool.not_eq_true', bne_iff_ne,
      ne_eq] at hf
    have hs : special b = false := hf.1
    have h92 : (b == 92) = false := by
      simp only [special, Bool.or_eq_false_iff] at hs; exact hs.2
    have h10 : b ≠ 10 := by
      simp only [special, Bool.or_eq_false_iff] at hs
      simpa using hs.1.1.2
    rw [renderOctet, List.singleton_append, unquotedLoop.eq_def]
    simp [atFieldEnd_plain rest hs, h92, hn', strLineAfter, h10]
  | esc =>
    simp only [stringFormOK, Bool.not_eq_true'] at hf
    rw [renderOctet, unquotedLoop.eq_def]
    simp only [List.cons_append, List.nil_append, atFieldEnd_backslash, Bool.false_eq_true, ↓reduceIte,
      beq_self_eq_true]
    rw [parseEscapeL_esc b rest line (by rw [isDigit_eq]; exact hf)]
    simp only [hn', ↓reduceIte, strLineAfter]
    congr 1
    simp
  | dec =>
    rw [renderOctet, unquotedLoop.eq_def]
    simp only [List.cons_append, List.nil_append, atFieldEnd_backslash, Bool.false_eq_true, ↓reduceIte,
      beq_self_eq_true]
    rw [parseEscapeL_dec b rest line]
    simp [hn', strLineAfter]

def octetsText (os : List (UInt8 × OctetForm)) : List UInt8 := os.flatMap fun x => renderOctet x.1 x.2

def octetsLines (os : List (UInt8 × OctetForm)) : Nat := (os.filter fun x => x.1 = 10 ∧ x.2 ≠ .dec).length

theorem octetsLines_cons (x : UInt8 × OctetForm) (os : List (UInt8 × OctetForm)) (line : Nat) :
    strLineAfter line x.1 x.2 + octetsLines os = line + octetsLines (x :: os) := by
  unfold strLineAfter octetsLines
  by_cases h : x.1 = 10 ∧ x.2 ≠ .dec
  · simp only [h, and_self, ↓reduceIte, List.filter_cons, ne_eq, not_false_eq_true, decide_true,
      List.length_cons]
    omega
  · simp [h, List.filter_cons]

theorem quotedLoop_render (max : Nat) (tl ek : Kind) (sl : Nat) (os : List (UInt8 × OctetForm))
    (hforms : ∀ x ∈ os, stringFormOK true x.1 x.2 = true) (rest : List UInt8) (line : Nat)
    (acc : List UInt8) (n : Nat) (hn : n + os.length ≤ max) :
    quotedLoop max tl ek sl (octetsText os ++ 34 :: rest) line acc n =
      .ok (acc.reverse ++ os.map (·.1), rest, line + octetsLines os) := by
  induction os generalizing line acc n with
  | nil =>
    rw [quotedLoop.eq_def]
    simp [octetsText, octetsLines]
  | cons x os ih =>
    have e : octetsText (x :: os) ++ 34 :: rest = renderOctet x.1 x.2 ++ (octetsText os ++ 34 :: rest) := by
      simp [octetsText]
    rw [e, quotedLoop_octet max tl ek sl x.1 x.2 (hforms x (by simp)) _ line acc n (by simp at hn; omega),
      ih (fun y hy => hforms y (by simp [hy])) _ _ _ (by simp at hn; omega), octetsLines_cons]
    simp

theorem unquotedLoop_render (max : Nat) (tl : Kind) (sl : Nat) (os : List (UInt8 × OctetForm))
    (hforms : ∀ x ∈ os, stringFormOK false x.1 x.2 = true) (rest : List UInt8)
    (hrest : atFieldEnd rest = true) (line : Nat) (acc : List UInt8) (n : Nat) (hn : n + os.length ≤ max) :
    unquotedLoop max tl sl (octetsText os ++ rest) line acc n =
      .ok (acc.reverse ++ os.map (·.1), rest, line + octetsLines os) := by
  induction os generalizing line acc n with
  | nil =>
    rw [unquotedLoop.eq_def]
    simp [octetsText, octetsLines, hrest]
  | cons x os ih =>
    have e : octetsText (x :: os) ++ rest = renderOctet x.1 x.2 ++ (octetsText os ++ rest) := by
      simp [octetsText]
    rw [e, unquotedLoop_octet max tl sl x.1 x.2 (hforms x (by simp)) _ line acc n (by simp at hn; omega),
      ih (fun y hy => hforms y (by simp [hy])) _ _ _ (by simp at hn; omega), octetsLines_cons]
    simp

/-- what the writer of a `<character-string>` must respect: at most 255 octets; inside quotes
    `"` and `\` escaped; without quotes, not empty and everything special escaped -/
structure WFString (s : PString) : Prop where
  forms : ∀ x ∈ s.octets, stringFormOK s.quoted x.1 x.2 = true
  len : s.octets.length ≤ 255
  ne : s.quoted = false → s.octets ≠ []

theorem octetsText_head {os : List (UInt8 × OctetForm)} (hne : os ≠ [])
    (hforms : ∀ x ∈ os, stringFormOK false x.1 x.2 = true) :
    ∃ c t, octetsText os = c :: t ∧ fieldStart c ∧ c ≠ 34 := by
  cases os with
  | nil => exact absurd rfl hne
  | cons x os =>
    obtain ⟨b, f⟩ := x
    have hf := hforms (b, f) (by simp)
    cases f with
    | raw =>
      simp only [stringFormOK, Bool.false_eq_true, ↓reduceIte, Bool.and_eq_true, Bool.not_eq_true', bne_iff_ne,
        ne_eq] at hf
      exact ⟨b, octetsText os, by simp [octetsText, renderOctet], .inr hf.1, hf.2⟩
    | esc => exact ⟨92, b :: octetsText os, by simp [octetsText, renderOctet], .inl rfl, by decide⟩
    | dec => exact ⟨92, _, by simp [octetsText, renderOctet]; rfl, .inl rfl, by decide⟩

theorem stringText_starts_of (s : PString) (hforms : ∀ x ∈ s.octets, stringFormOK s.quoted x.1 x.2 = true)
    (hne : s.quoted = false → s.octets ≠ []) : Starts (stringText s) := by
  unfold stringText
  cases hq : s.quoted with
  | true => exact ⟨34, _, by simp only [↓reduceIte]; rfl, .inr (by decide)⟩
  | false =>
    obtain ⟨c, t, hct, hc, _⟩ := octetsText_head (hne hq) (by rwa [hq] at hforms)
    exact ⟨c, t, by simpa [octetsText] using hct, hc⟩

theorem stringText_starts (s : PString) (hwf : WFString s) : Starts (stringText s) :=
  stringText_starts_of s hwf.forms hwf.ne

/-- a string field with the length limit `max` -/
theorem parseString_render (max : Nat) (tl ek : Kind) (s : PString)
    (hforms : ∀ x ∈ s.octets, stringFormOK s.quoted x.1 x.2 = true) (hlen : s.octets.length ≤ max)
    (hne : s.quoted = false → s.octets ≠ []) (rest : List UInt8)
    (hrest : atFieldEnd rest = true) (line : Nat) (paren : Bool) :
    parseString max tl ek ⟨stringText s ++ rest, line, paren⟩ =
      .ok (stringOctets s, ⟨rest, line + stringLines s, paren⟩) := by
  unfold parseString stringText
  cases hq : s.quoted with
  | true =>
    rw [hq] at hforms
    have := quotedLoop_render max tl ek line s.octets hforms rest line [] 0 (by omega)
    simp only [octetsText] at this
    simp [this, stringOctets, stringLines, octetsLines]
  | false =>
    rw [hq] at hforms
    obtain ⟨c, t, hct, _, h34⟩ := octetsText_head (hne hq) hforms
    have := unquotedLoop_render max tl line s.octets hforms rest hrest line [] 0 (by omega)
    simp only [Bool.false_eq_true, ↓reduceIte]
    have hct' : (s.octets.flatMap fun x => renderOctet x.1 x.2) = c :: t := hct
    rw [hct'] at *
    rw [hct] at this
    simp only [List.cons_append] at this ⊢
    split
    · next heq => simp at heq; exact absurd heq.1 h34
    · simp [this, stringOctets, stringLines, octetsLines]

/-- **Character-strings**, quoted or not, in any mix of raw / `\X` / `\DDD` octets -/
theorem parseCharacterString_render (s : PString) (hwf : WFString s) (rest : List UInt8)
    (hrest : atFieldEnd rest = true) (line : Nat) (paren : Bool) :
    parseCharacterString ⟨stringText s ++ rest, line, paren⟩ =
      .ok (stringOctets s, ⟨rest, line + stringLines s, paren⟩) :=
  parseString_render 255 _ _ s hwf.forms hwf.len hwf.ne rest hrest line paren

/-! ### IPv6 addresses: eight hexadecimal groups -/

def hexVal (c : UInt8) : Nat := if 48 ≤ c.toNat ∧ c.toNat ≤ 57 then c.toNat - 48 else c.toNat - 87

theorem hexDigit_facts : ∀ n, n < 16 →
    toDigit 16 (hexDigitOctet n) = some n ∧ plainOctet (hexDigitOctet n) = true ∧ hexDigitOctet n ≠ 46 ∧
    hexDigitOctet n ≠ 92 := by decide +kernel

theorem toDigit16_ne_colon : toDigit 16 58 = none ∧ toDigit 10 58 = none := by decide

theorem hexText_digits (n : Nat) : ∀ c ∈ hexText n, ∃ d, d < 16 ∧ c = hexDigitOctet d := by
  fun_induction hexText n
  case case1 n h => intro c hc; simp at hc; exact ⟨n, h, hc⟩
  case case2 n h ih =>
    intro c hc
    simp at hc
    rcases hc with hc | hc
    · exact ih c hc
    · exact ⟨n % 16, by omega, hc⟩

theorem hexText_ne_nil (n : Nat) : hexText n ≠ [] := by
  rw [hexText]; split <;> simp

theorem spanDigits16_append (ds rest : List UInt8) (hds : ∀ c ∈ ds, ∃ d, d < 16 ∧ c = hexDigitOctet d)
    (hrest : ∀ c t, rest = c :: t → toDigit 16 c = none) :
    ∃ vs, spanDigits 16 (ds ++ rest) = (vs, rest) ∧ vs.length = ds.length ∧
      ∀ acc, vs.foldl (fun a d => a * 16 + d) acc =
        ds.foldl (fun a c => a * 16 + (match toDigit 16 c with | some d => d | none => 0)) acc := by
  induction ds with
  | nil =>
    refine ⟨[], ?_, rfl, fun _ => rfl⟩
    cases rest with
    | nil => rfl
    | cons c t => simp [spanDigits, hrest c t rfl]
  | cons c ds ih =>
    obtain ⟨d, hd, rfl⟩ := hds c (by simp)
    obtain ⟨vs, h1, h2, h3⟩ := ih (fun x hx => hds x (by simp [hx]))
    refine ⟨d :: vs, ?_, by simp [h2], ?_⟩
    · simp [spanDigits, (hexDigit_facts d hd).1, h1]
    · intro acc
      simp [(hexDigit_facts d hd).1, h3]

theorem hexText_fold (n : Nat) (acc : Nat) :
    (hexText n).foldl (fun a c => a * 16 + (match toDigit 16 c with | some d => d | none => 0)) acc =
      acc * 16 ^ (hexText n).length + n := by
  fun_induction hexText n generalizing acc
  case case1 n h => simp [(hexDigit_facts n h).1]
  case case2 n h ih =>
    rw [List.foldl_append, ih]
    simp only [List.foldl_cons, List.foldl_nil, (hexDigit_facts (n % 16) (by omega)).1, List.length_append,
      List.length_cons, List.length_nil]
    rw [Nat.pow_succ, ← Nat.mul_assoc]
    generalize acc * 16 ^ (hexText (n / 16)).length = X
    have := Nat.div_add_mod n 16
    rw [Nat.add_mul, Nat.add_assoc, Nat.mul_comm (n / 16) 16, this]

theorem hexText_length (n : Nat) (k : Nat) (h : n < 16 ^ (k + 1)) : (hexText n).length ≤ k + 1 := by
  induction k generalizing n with
  | zero => rw [hexText]; simp at h; simp [h]
  | succ k ih =>
    rw [hexText]
    split
    · simp
    · have : n / 16 < 16 ^ (k + 1) := by
        rw [Nat.div_lt_iff_lt_mul (by omega)]
        rw [Nat.pow_succ] at h; omega
      have := ih (n / 16) this
      simp; omega

theorem readNumber_hex (g : Nat) (hg : g < 65536) (rest : List UInt8)
    (hrest : ∀ c t, rest = c :: t → toDigit 16 c = none) :
    readNumber 16 4 65535 true (hexText g ++ rest) = some (g, rest) := by
  obtain ⟨vs, h1, h2, h3⟩ := spanDigits16_append (hexText g) rest (hexText_digits g) hrest
  have hlen := hexText_length g 3 (by simpa using hg)
  have hne : (hexText g).length ≠ 0 := by
    intro h; exact hexText_ne_nil g (List.length_eq_zero_iff.mp h)
  unfold readNumber
  rw [h1]
  have e1 : (vs.length == 0) = false := by simp [h2, hexText_ne_nil]
  have e2 : ¬ vs.length > 4 := by omega
  have hv : vs.foldl (fun a d => a * 16 + d) 0 = g := by rw [h3, hexText_fold]; simp
  have e4 : ¬ g > 65535 := by omega
  simp only [e1, Bool.false_eq_true, ↓reduceIte, e2, Bool.not_true, Bool.false_and, hv, e4]

/-- after the decimal digits at the start of a hexadecimal group comes a letter or the colon -/
theorem spanDigits10_rest (H rest : List UInt8) (hH : ∀ c ∈ H, c ≠ 46) :
    ∃ ds r, spanDigits 10 (H ++ 58 :: rest) = (ds, r) ∧ ∃ c t, r = c :: t ∧ c ≠ 46 := by
  induction H with
  | nil => exact ⟨[], _, by simp [spanDigits, toDigit16_ne_colon.2], 58, rest, rfl, by decide⟩
  | cons c H ih =>
    obtain ⟨ds, r, h1, c', t, h2, h3⟩ := ih (fun x hx => hH x (by simp [hx]))
    cases hd : toDigit 10 c with
    | some d => exact ⟨d :: ds, r, by simp [spanDigits, hd, h1], c', t, h2, h3⟩
    | none => exact ⟨[], c :: (H ++ 58 :: rest), by simp [spanDigits, hd], c, _, rfl, hH c (by simp)⟩

theorem readIpv4_hexgroup (g : Nat) (rest : List UInt8) : readIpv4 (hexText g ++ 58 :: rest) = none := by
  obtain ⟨ds, r, h1, c, t, h2, h3⟩ := spanDigits10_rest (hexText g) rest (by
    intro c hc
    obtain ⟨d, hd, rfl⟩ := hexText_digits g c hc
    exact (hexDigit_facts d hd).2.2.1)
  unfold readIpv4
  simp only [readSep, Nat.lt_irrefl, ↓reduceIte]
  cases hn : readNumber 10 3 255 false (hexText g ++ 58 :: rest) with
  | none => rfl
  | some ar =>
    obtain ⟨a, s1⟩ := ar
    have hs1 : s1 = r := by
      unfold readNumber at hn
      rw [h1] at hn
      simp only at hn
      split at hn
      · cases hn
      · split at hn
        · cases hn
        · split at hn
          · cases hn
          · split at hn
            · cases hn
            · simp only [Option.some.injEq, Prod.mk.injEq] at hn; exact hn.2.symm
    subst hs1
    have hc : (c == 46) = false := by simpa using h3
    simp [h2, readChar, hc]


theorem readGroups_step (n i : Nat) (s : List UInt8) (g : Nat) (rest : List UInt8)
    (hv4 : (if i + 1 < 8 then readSep 58 i readIpv4 s else none) = none)
    (hn : readSep 58 i (readNumber 16 4 65535 true) s = some (g, rest)) :
    readGroups 8 (n + 1) i s =
      (g :: (readGroups 8 n (i + 1) rest).1, (readGroups 8 n (i + 1) rest).2.1, (readGroups 8 n (i + 1) rest).2.2) := by
  rw [readGroups]
  simp only [hv4, hn]

theorem readGroups_render (gs : List Nat) (hgs : ∀ g ∈ gs, g < 65536) (i : Nat) (hi : i + gs.length = 8)
    (hne : gs ≠ []) :
    readGroups 8 gs.length i ((if i > 0 then [58] else []) ++ groupsText gs) = (gs, false, []) := by
  induction gs generalizing i with
  | nil => exact absurd rfl hne
  | cons g gs ih =>
    have hg := hgs g (by simp)
    have hnil : ∀ c t, ([] : List UInt8) = c :: t → toDigit 16 c = none := by intro c t h; cases h
    have hcol : ∀ (X : List UInt8) c t, (58 : UInt8) :: X = c :: t → toDigit 16 c = none := by
      intro X c t h; cases h; exact toDigit16_ne_colon.1
    cases gs with
    | nil =>
      have hi7 : i = 7 := by simp at hi; omega
      subst hi7
      have hnum := readNumber_hex g hg [] hnil
      simp only [List.append_nil] at hnum
      rw [show ([g] : List Nat).length = 0 + 1 from rfl,
        readGroups_step 0 7 _ g [] (by simp) (by simp [readSep, readChar, groupsText, hnum])]
      simp [readGroups]
    | cons g2 gs' =>
      have hlt : i + 1 < 8 := by simp at hi; omega
      have ih' := ih (fun x hx => hgs x (by simp [hx])) (i + 1) (by simp at hi ⊢; omega) (by simp)
      simp only [Nat.succ_pos, ↓reduceIte, List.singleton_append] at ih'
      have hstep : readGroups 8 ((g2 :: gs').length + 1) i ((if i > 0 then [58] else []) ++ groupsText (g :: g2 :: gs')) =
          (g :: (readGroups 8 (g2 :: gs').length (i + 1) (58 :: groupsText (g2 :: gs'))).1,
            (readGroups 8 (g2 :: gs').length (i + 1) (58 :: groupsText (g2 :: gs'))).2.1,
            (readGroups 8 (g2 :: gs').length (i + 1) (58 :: groupsText (g2 :: gs'))).2.2) := by
        apply readGroups_step
        · by_cases h0 : i > 0
          · simp [h0, hlt, readSep, readChar, groupsText, readIpv4_hexgroup]
          · have hi0 : i = 0 := by omega
            subst hi0
            simp [readSep, groupsText, readIpv4_hexgroup]
        · by_cases h0 : i > 0
          · simp [h0, readSep, readChar, groupsText, readNumber_hex g hg _ (hcol _)]
          · have hi0 : i = 0 := by omega
            subst hi0
            simp [readSep, groupsText, readNumber_hex g hg _ (hcol _)]
      rw [show (g :: g2 :: gs').length = (g2 :: gs').length + 1 from rfl, hstep, ih']

theorem parseIpv6_render (gs : List Nat) (hlen : gs.length = 8) (hgs : ∀ g ∈ gs, g < 65536) :
    parseIpv6 (groupsText gs) = some (gs.flatMap u16be') := by
  have h := readGroups_render gs hgs 0 (by omega) (by intro h; simp [h] at hlen)
  simp only [Nat.lt_irrefl, ↓reduceIte, List.nil_append, hlen] at h
  unfold parseIpv6
  simp [h, hlen]

end QV.ZF
