/-
  QV.Proofs.ZoneFile.Files — the record parser on rendered records, directives, and whole files
  of the presentation subset of `C23_records_partial`.
-/
import QV.Proofs.ZoneFile.Rdata
import QV.Proofs.ZoneFile.Records

namespace QV.ZF
open QV QV.Spec.ZF

/-! ### whole records -/

/-- the parser's context as the specification sees it -/
def toSCtx (ctx : Ctx) : SCtx := ⟨ctx.origin, ctx.prevOwner, ctx.prevTtl, ctx.prevClass, ctx.defaultTtl⟩

/-- `Rdata::validate(class, type)` accepts — the check RFC 3597 §5 asks for on `\#` RDATA -/
def validB (cls ty : Nat) (rd : List UInt8) : Bool := (validate cls ty rd).isOk

theorem validB_ok {cls ty : Nat} {rd : List UInt8} (h : validB cls ty rd = true) : validate cls ty rd = .ok () := by
  unfold validB at h
  cases hv : validate cls ty rd with
  | ok u => rfl
  | err e => simp [hv, Out.isOk] at h
  | panic => simp [hv, Out.isOk] at h

/-- well-formed presentation of a record (what the writer must respect) -/
structure WFRecord (p : PRecord) : Prop where
  owner_ok : ∀ n, p.owner = .named n → WFName n ∧ (nameText n).head? ≠ some 36
  ttl_ok : ∀ t, p.ttl = some t → t ≤ 4294967295
  cls_ok : ∀ c, p.cls = some c → WFClass c
  ty_ok : WFType p.ty ∧ p.ty.value ≠ 10 ∧ p.ty.value ≠ 41 ∧ p.ty.value ≠ 250
  rd_ok : WFRdata p.rdata
  /-- the gaps: parentheses balanced, line ends only inside them.  `q1`, `q2`, `q3`: inside
      parentheses after the gaps of the record's head (after the owner, after the first and the
      second of TTL and class); `S i`: before the `i`-th gap of the RDATA part.  A record without
      owner field begins with a blank. -/
  gaps_ok : ∃ (q1 q2 q3 : Bool) (S : Nat → Bool),
    GapOK (gapAt p.head 0) false q1 ∧
    (p.owner = .same → ∃ t g, gapAt p.head 0 = .blank t :: g) ∧
    (p.ttl.isSome = true ∨ p.cls.isSome = true → GapOK (gapAt p.head 1) q1 q2) ∧
    (p.ttl.isSome = true → p.cls.isSome = true → GapOK (gapAt p.head 2) q2 q3) ∧
    S 0 = tcEnd q1 q2 q3 p.ttl p.cls ∧
    (∀ i, i ≤ rdataGaps p.rdata → GapOK (gapAt p.gaps i) (S i) (S (i + 1))) ∧
    TailOK p.tail p.comment (S (rdataGaps p.rdata + 1))

/-! ### the gap conditions in checkable form -/

def commentB (c : List UInt8) : Bool :=
  match c with
  | [] => true
  | x :: body => x == 59 && body.all fun y => y != 10 && y != 13

theorem commentOK_of_B {c : List UInt8} (h : commentB c = true) : commentOK c := by
  cases c with
  | nil => exact .inl rfl
  | cons x body =>
    simp only [commentB, Bool.and_eq_true, beq_iff_eq, List.all_eq_true, bne_iff_ne, ne_eq] at h
    obtain ⟨rfl, hb⟩ := h
    exact .inr ⟨body, rfl, hb⟩

def gapWFB (g : PGap) : Bool :=
  g.all fun
    | .newline c _ => commentB c
    | _ => true

theorem GapWF_of_B {g : PGap} (h : gapWFB g = true) : GapWF g := by
  intro c crlf hm
  simp only [gapWFB, List.all_eq_true] at h
  exact commentOK_of_B (h _ hm)

def gapOKB (g : PGap) (p p' : Bool) : Bool := !g.isEmpty && gapWFB g && gapRun p g == some p'

theorem GapOK_of_B {g : PGap} {p p' : Bool} (h : gapOKB g p p' = true) : GapOK g p p' := by
  simp only [gapOKB, Bool.and_eq_true, Bool.not_eq_true', beq_iff_eq] at h
  exact ⟨by intro hg; subst hg; simp at h, GapWF_of_B h.1.2, h.2⟩

def tailOKB (g : PGap) (cmt : List UInt8) (p : Bool) : Bool := gapWFB g && gapRun p g == some false && commentB cmt

theorem TailOK_of_B {g : PGap} {cmt : List UInt8} {p : Bool} (h : tailOKB g cmt p = true) : TailOK g cmt p := by
  simp only [tailOKB, Bool.and_eq_true, beq_iff_eq] at h
  exact ⟨GapWF_of_B h.1.1, h.1.2, commentOK_of_B h.2⟩

/-- "inside parentheses" before the `i`-th gap of a record's RDATA part, from the state `q` after
    the head -/
def statesOf (q : Bool) (gaps : List PGap) : Nat → Bool
  | 0 => q
  | i + 1 => (gapRun (statesOf q gaps i) (gapAt gaps i)).getD false

def headState (p : PRecord) (i : Nat) : Bool :=
  match i with
  | 0 => false
  | i + 1 => (gapRun (headState p i) (gapAt p.head i)).getD false

/-- the gaps of a record are well formed: checked with the states computed -/
def gapsOKB (p : PRecord) : Bool :=
  let q1 := headState p 1
  let q2 := headState p 2
  let q3 := headState p 3
  let S := statesOf (tcEnd q1 q2 q3 p.ttl p.cls) p.gaps
  gapOKB (gapAt p.head 0) false q1 &&
  (match p.owner with
   | .same => (match gapAt p.head 0 with | .blank _ :: _ => true | _ => false)
   | _ => true) &&
  (!(p.ttl.isSome || p.cls.isSome) || gapOKB (gapAt p.head 1) q1 q2) &&
  (!(p.ttl.isSome && p.cls.isSome) || gapOKB (gapAt p.head 2) q2 q3) &&
  ((List.range (rdataGaps p.rdata + 1)).all fun i => gapOKB (gapAt p.gaps i) (S i) (S (i + 1))) &&
  tailOKB p.tail p.comment (S (rdataGaps p.rdata + 1))

theorem gaps_ok_of_B (p : PRecord) (h : gapsOKB p = true) :
    ∃ (q1 q2 q3 : Bool) (S : Nat → Bool),
      GapOK (gapAt p.head 0) false q1 ∧
      (p.owner = .same → ∃ t g, gapAt p.head 0 = .blank t :: g) ∧
      (p.ttl.isSome = true ∨ p.cls.isSome = true → GapOK (gapAt p.head 1) q1 q2) ∧
      (p.ttl.isSome = true → p.cls.isSome = true → GapOK (gapAt p.head 2) q2 q3) ∧
      S 0 = tcEnd q1 q2 q3 p.ttl p.cls ∧
      (∀ i, i ≤ rdataGaps p.rdata → GapOK (gapAt p.gaps i) (S i) (S (i + 1))) ∧
      TailOK p.tail p.comment (S (rdataGaps p.rdata + 1)) := by
  simp only [gapsOKB, Bool.and_eq_true, Bool.or_eq_true, Bool.not_eq_true', List.all_eq_true, List.mem_range] at h
  obtain ⟨⟨⟨⟨⟨h0, hsame⟩, hA⟩, hB⟩, hG⟩, hT⟩ := h
  refine ⟨headState p 1, headState p 2, headState p 3,
    statesOf (tcEnd (headState p 1) (headState p 2) (headState p 3) p.ttl p.cls) p.gaps,
    GapOK_of_B h0, ?_, ?_, ?_, rfl, fun i hi => GapOK_of_B (hG i (by omega)), TailOK_of_B hT⟩
  · intro ho
    rw [ho] at hsame
    simp only at hsame
    split at hsame
    · next t g heq => exact ⟨t, g, heq⟩
    · cases hsame
  · intro hor
    rcases hA with hA | hA
    · rcases hor with h1 | h1 <;> simp [h1] at hA
    · exact GapOK_of_B hA
  · intro h1 h2
    rcases hB with hB | hB
    · simp [h1, h2] at hB
    · exact GapOK_of_B hB

theorem dropWhile_ws (sep : List UInt8) (hsep : ∀ x ∈ sep, isWs x = true) (c : UInt8) (t : List UInt8)
    (hc : isWs c = false) : (sep ++ c :: t).dropWhile isWs = c :: t := by
  induction sep with
  | nil => simp [List.dropWhile, hc]
  | cons x sep ih =>
    simp only [List.cons_append, List.dropWhile, hsep x (by simp)]
    exact ih (fun y hy => hsep y (by simp [hy]))

/-- class field as (text, value) -/
def clsPair (p : PRecord) : Option (List UInt8 × Nat) := p.cls.map fun c => (classText c, c.value)

theorem clsPair_text (p : PRecord) : (clsPair p).map (·.1) = p.cls.map classText := by
  unfold clsPair; cases p.cls <;> rfl

theorem clsPair_value (p : PRecord) : (clsPair p).map (·.2) = p.cls.map PCode.value := by
  unfold clsPair; cases p.cls <;> rfl

/-- the text of a record from the gap before the RDATA on -/
def rdataPart (p : PRecord) (r : List UInt8) : List UInt8 :=
  gapText (gapAt p.gaps 0) ++ (rdataText (fun i => gapAt p.gaps (i + 1)) p.rdata ++
    (tailText p.tail p.comment p.eol ++ r))

theorem renderRecord_eq (p : PRecord) (r : List UInt8) :
    renderRecord p ++ r =
      ownerText p.owner ++
        (gapText (gapAt p.head 0) ++ recordBody (gapText (gapAt p.head 1)) (gapText (gapAt p.head 2)) p.ttl
          ((clsPair p).map (·.1)) p.clsFirst (typeText p.ty) (rdataPart p r)) := by
  rw [clsPair_text]
  unfold renderRecord recordBody rdataPart tailText
  rw [ttlClassText_eq]
  simp

theorem denoteRecord_some {c : SCtx} {line : Nat} {p : PRecord} {sr : SRecord} {sc' : SCtx}
    (h : denoteRecord validB c line p = some (sr, sc')) :
    ∃ owner tv cv rd, ownerOf c p = some owner ∧ ttlOf c p = some tv ∧ clsOf c p = some cv ∧
      rdataWire c.origin p.rdata = some rd ∧ kindOK cv p.ty.value p.rdata = true ∧
      (∀ g, p.rdata = .generic g → validB cv p.ty.value g = true) ∧
      sr = ⟨line, owner, tv, cv, p.ty.value, rd⟩ ∧
      sc' = { c with prevOwner := some owner, prevTtl := some tv, prevClass := some cv } := by
  unfold denoteRecord at h
  split at h
  · next owner tv cv h1 h2 h3 =>
    cases hrd : rdataWire c.origin p.rdata with
    | none => simp [hrd] at h
    | some rd =>
      simp only [hrd] at h
      cases hcond : rdataOK validB cv p.ty.value p.rdata rd with
      | false => simp [hcond] at h
      | true =>
        simp only [hcond, ↓reduceIte, Option.some.injEq, Prod.mk.injEq] at h
        simp only [rdataOK, Bool.and_eq_true] at hcond
        refine ⟨owner, tv, cv, rd, h1, h2, h3, rfl, hcond.1, ?_, h.1.symm, h.2.symm⟩
        intro g hg
        have h2 := hcond.2
        rw [hg] at h2 hrd
        simp only [rdataWire, Option.some.injEq] at hrd
        subst hrd
        exact h2
  · cases h

/-- a record line whose owner field is a name: whatever `parse_name` makes of the owner text is
    the owner; the rest is the record tail -/
theorem parseLine_named (ctx : Ctx) (T : List UInt8) (hT : Starts T) (h36 : T.head? ≠ some 36)
    (w : List UInt8) (k line : Nat)
    (hparse : ∀ rest, atFieldEnd rest = true →
      parseName ctx.origin ⟨T ++ rest, line, false⟩ = .ok (w, ⟨rest, line + k, false⟩))
    (g0 gA gB : PGap) (q1 q2 q3 : Bool) (h0 : GapOK g0 false q1) (ttl : Option Nat)
    (cls : Option (List UInt8 × Nat)) (cf : Bool) (ht : ∀ t, ttl = some t → t ≤ 4294967295)
    (hk : ∀ T k, cls = some (T, k) → ClassTextOK T k)
    (hA : ttl.isSome = true ∨ cls.isSome = true → GapOK gA q1 q2)
    (hB : ttl.isSome = true → cls.isSome = true → GapOK gB q2 q3)
    (tyT : List UInt8) (ty : Nat) (hty : TypeTextOK tyT ty)
    (h10 : ty ≠ 10) (h41 : ty ≠ 41) (h250 : ty ≠ 250) (tv cv : Nat) (htv : ttlChoice ctx ttl = some tv)
    (hcv : clsChoice ctx (cls.map (·.2)) = some cv) (R0 : List UInt8) (hR0 : atFieldEnd R0 = true)
    (rd r : List UInt8) (line' : Nat)
    (hrd : parseRdata ctx cv ty
      ⟨R0, line + k + gapLines g0 + tcLines (gapLines gA) (gapLines gB) ttl cls, tcEnd q1 q2 q3 ttl cls⟩ =
        .ok (rd, ⟨r, line', false⟩)) :
    parseLine ctx ⟨T ++ (gapText g0 ++ recordBody (gapText gA) (gapText gB) ttl (cls.map (·.1)) cf tyT R0), line, false⟩ =
      .ok ((some (.record line ⟨w, tv, cv, ty, rd⟩),
            { ctx with prevOwner := some w, prevTtl := some tv, prevClass := some cv }),
           ⟨r, line', false⟩) := by
  have hclsF : ∀ T, cls.map (·.1) = some T → FieldText T := by
    intro T hT
    cases cls with
    | none => simp at hT
    | some ck => obtain ⟨cT, k⟩ := ck; simp at hT; subst hT; exact (hk cT k rfl).field
  have hbodyS := recordBody_head (gapText gA) (gapText gB) ttl (cls.map (·.1)) cf tyT R0 hclsF hty.field
  obtain ⟨c0, t0, rfl, hc0⟩ := hT
  have h36' : (c0 == 36) = false := by simpa using h36
  have hc0ws : isWs c0 = false := fieldStart_not_ws hc0
  have hname := hparse (gapText g0 ++ recordBody (gapText gA) (gapText gB) ttl (cls.map (·.1)) cf tyT R0) (h0.atEnd _)
  unfold parseLine
  simp only [List.cons_append, h36', Bool.false_eq_true, ↓reduceIte]
  rw [parseRecordOrEmpty_eq]
  have hskipws : ∀ rest', skipWhitespace ⟨c0 :: rest', line, false⟩ = (false, ⟨c0 :: rest', line, false⟩) := by
    intro rest'
    unfold skipWhitespace
    simp [hc0ws, List.dropWhile]
  simp only [hskipws, fieldOrEol_at_field true c0 _ hc0 line false]
  have hb : ((FieldOrEol.Field == FieldOrEol.Eol) = true) = False := by simp
  simp only [hb, ↓reduceIte]
  unfold parseRecordRest
  simp only [Bool.false_eq_true, ↓reduceIte, bind, P.bind, pName]
  simp only [List.cons_append] at hname
  simp only [hname]
  have hskip := h0.skip .ExpectedTtlClassOrType _ hbodyS (line + k)
  have htail := recordTail_eval ctx w line gA gB q1 q2 q3 ttl cls cf ht hk hA hB tyT ty hty h10 h41 h250 tv cv htv hcv
    R0 hR0 rd r (line + k + gapLines g0) line' hrd
  simp only [bind, P.bind, skipTo_nil _ _ hbodyS] at htail
  simp only [hskip]
  exact htail

/-- **One record.**  A well-formed record line, in a well-formed context in which it denotes a
    record, parses to exactly that record, at the line where it starts; the parser's context
    afterwards is the denoted one. -/
theorem parseLine_record (ctx : Ctx) (hctx : CtxWF ctx) (p : PRecord) (hwf : WFRecord p) (line : Nat)
    (r : List UInt8) (he : p.eol = .eof → r = []) (sr : SRecord) (sc' : SCtx)
    (hden : denoteRecord validB (toSCtx ctx) line p = some (sr, sc')) :
    ∃ ctx', parseLine ctx ⟨renderRecord p ++ r, line, false⟩ =
        .ok ((some (.record sr.line ⟨sr.owner, sr.ttl, sr.cls, sr.ty, sr.rdata⟩), ctx'),
             ⟨r, line + recordLines p + eolLines p.eol, false⟩) ∧
      toSCtx ctx' = sc' := by
  obtain ⟨hown, httl, hcls, ⟨hty, h10, h41, h250⟩, hrdwf, ⟨q1, q2, q3, S, h0, hsame, hA, hB, hS0, hG, hT⟩⟩ := hwf
  obtain ⟨owner, tv, cv, rd, howner, htv, hcv, hrdw, hkind, hgen, rfl, rfl⟩ := denoteRecord_some hden
  have htyOK := typeText_ok p.ty hty
  have hclsOK : ∀ T k, clsPair p = some (T, k) → ClassTextOK T k := by
    intro T k h
    unfold clsPair at h
    cases hc : p.cls with
    | none => simp [hc] at h
    | some c =>
      simp only [hc, Option.map_some, Option.some.injEq, Prod.mk.injEq] at h
      obtain ⟨rfl, rfl⟩ := h
      exact classText_ok c (hcls c hc)
  have htv' : ttlChoice ctx p.ttl = some tv := by
    unfold ttlOf at htv
    unfold ttlChoice
    cases hp : p.ttl with
    | some t => simpa [hp, ttlFrom, ttlValue] using htv
    | none => simpa [hp, toSCtx, defaultOrPreviousTtl] using htv
  have hcv' : clsChoice ctx ((clsPair p).map (·.2)) = some cv := by
    rw [clsPair_value]
    unfold clsOf at hcv
    unfold clsChoice
    cases hp : p.cls with
    | some k => simpa [hp] using hcv
    | none => simpa [hp, toSCtx] using hcv
  have hisS : (clsPair p).isSome = p.cls.isSome := by unfold clsPair; cases p.cls <;> rfl
  have hA' : p.ttl.isSome = true ∨ (clsPair p).isSome = true → GapOK (gapAt p.head 1) q1 q2 := by rwa [hisS]
  have hB' : p.ttl.isSome = true → (clsPair p).isSome = true → GapOK (gapAt p.head 2) q2 q3 := by rwa [hisS]
  have hEnd : tcEnd q1 q2 q3 p.ttl (clsPair p) = tcEnd q1 q2 q3 p.ttl p.cls := by
    unfold clsPair; cases p.ttl <;> cases p.cls <;> rfl
  have hLines : ∀ a b, tcLines a b p.ttl (clsPair p) = ttlClassLines a b p.ttl p.cls := by
    intro a b; unfold clsPair; cases p.ttl <;> cases p.cls <;> rfl
  have hR0 : atFieldEnd (rdataPart p r) = true := (hG 0 (by omega)).atEnd _
  have hrd : ∀ l, parseRdata ctx cv p.ty.value ⟨rdataPart p r, l, tcEnd q1 q2 q3 p.ttl (clsPair p)⟩ =
      .ok (rd, ⟨r, l + (gapLines (gapAt p.gaps 0) + rdataLines (fun i => gapAt p.gaps (i + 1)) p.rdata +
        gapLines p.tail) + eolLines p.eol, false⟩) := fun l => by
    have := parseRdata_render ctx hctx cv p.ty.value h41 h250 (gapAt p.gaps) S p.tail p.comment p.eol r he p.rdata hG hT
      hrdwf hkind rd hrdw (fun g hg => validB_ok (hgen g hg)) l
    rw [hS0] at this
    unfold rdataPart
    rw [hEnd, this]
    congr 3
    omega
  unfold ownerOf at howner
  have hclsF : ∀ T, (clsPair p).map (·.1) = some T → FieldText T := by
    intro T hT
    cases hc : clsPair p with
    | none => simp [hc] at hT
    | some ck => obtain ⟨cT, k⟩ := ck; simp [hc] at hT; subst hT; exact (hclsOK cT k hc).field
  have hbodyS := recordBody_head (gapText (gapAt p.head 1)) (gapText (gapAt p.head 2)) p.ttl ((clsPair p).map (·.1))
    p.clsFirst (typeText p.ty) (rdataPart p r) hclsF htyOK.field
  rw [renderRecord_eq]
  unfold recordLines
  cases hp : p.owner with
  | same =>
    simp only [hp, toSCtx] at howner
    simp only [ownerText, List.nil_append, ownerLines, Nat.zero_add]
    -- the line starts with a blank: same owner as before
    obtain ⟨tb, g, hg0⟩ := hsame hp
    refine ⟨{ ctx with prevOwner := some owner, prevTtl := some tv, prevClass := some cv }, ?_, by simp [toSCtx]⟩
    generalize hB0 : recordBody (gapText (gapAt p.head 1)) (gapText (gapAt p.head 2)) p.ttl ((clsPair p).map (·.1))
      p.clsFirst (typeText p.ty) (rdataPart p r) = B at hbodyS
    obtain ⟨hd1, hd2, hd3⟩ := dropBlanks_facts (gapAt p.head 0) false
    have hdrop := dropWhile_gap (gapAt p.head 0) h0.wf B hbodyS
    have hx : isWs (if tb then 9 else 32) = true := by cases tb <;> decide
    have hx36 : ((if tb then (9 : UInt8) else 32) == 36) = false := by cases tb <;> decide
    have etext : gapText (gapAt p.head 0) ++ B = (if tb then 9 else 32) :: (gapText g ++ B) := by
      rw [hg0]; simp [gapText, gapItemText]
    rw [etext]
    unfold parseLine
    simp only [hx36, Bool.false_eq_true, ↓reduceIte]
    rw [parseRecordOrEmpty_eq]
    have hskipws : skipWhitespace ⟨(if tb then 9 else 32) :: (gapText g ++ B), line, false⟩ =
        (true, ⟨gapText (dropBlanks (gapAt p.head 0)) ++ B, line, false⟩) := by
      unfold skipWhitespace
      simp only [hx]
      rw [← etext, hdrop]
    simp only [hskipws]
    rw [fieldOrEol_gapG true (dropBlanks (gapAt p.head 0)) false q1 (hd3 h0.wf) (by rw [hd1]; exact h0.run) B hbodyS line]
    have hb : ((FieldOrEol.Field == FieldOrEol.Eol) = true) = False := by simp
    simp only [hb, ↓reduceIte]
    unfold parseRecordRest
    simp only [↓reduceIte, howner, bind, P.bind, pure, P.pure]
    rw [← hB0, hd2]
    have := recordTail_eval ctx owner line (gapAt p.head 1) (gapAt p.head 2) q1 q2 q3 p.ttl (clsPair p) p.clsFirst httl
      hclsOK hA' hB' (typeText p.ty) p.ty.value htyOK h10 h41 h250 tv cv htv' hcv' _ hR0 rd r
      (line + gapLines (gapAt p.head 0)) _ (hrd _)
    exact this.trans (by rw [hLines]; congr 3; omega)
  | named n =>
    simp only [hp, toSCtx] at howner
    obtain ⟨hnwf, hn36⟩ := hown n hp
    have hnt := nameText_ok ctx.origin hctx.1 n hnwf owner howner
    refine ⟨{ ctx with prevOwner := some owner, prevTtl := some tv, prevClass := some cv }, ?_, by simp [toSCtx]⟩
    simp only [ownerText, ownerLines]
    have := parseLine_named ctx (nameText n) hnt.starts hn36 owner (nameLines n) line
      (fun rest hrest => hnt.parse rest line false hrest)
      (gapAt p.head 0) (gapAt p.head 1) (gapAt p.head 2) q1 q2 q3 h0 p.ttl (clsPair p) p.clsFirst httl hclsOK hA' hB'
      (typeText p.ty) p.ty.value htyOK h10 h41 h250 tv cv
      htv' hcv' _ hR0 rd r _ (hrd _)
    rw [this, hLines]
    congr 3
    omega

/-! ### blank lines and directives -/

theorem dropWhile_ws' (ws X : List UInt8) (hws : ∀ x ∈ ws, isWs x = true)
    (hX : X = [] ∨ ∃ c t, X = c :: t ∧ isWs c = false) : (ws ++ X).dropWhile isWs = X := by
  rcases hX with rfl | ⟨c, t, rfl, hc⟩
  · induction ws with
    | nil => rfl
    | cons x ws ih =>
      simp only [List.cons_append, List.dropWhile_cons, hws x (by simp), ↓reduceIte]
      exact ih (fun y hy => hws y (by simp [hy]))
  · exact dropWhile_ws ws hws c t hc

theorem parseLine_blank (ctx : Ctx) (ws cmt : List UInt8) (eol : PEol) (r : List UInt8)
    (hws : ∀ x ∈ ws, isWs x = true) (hc : commentOK cmt) (he : eol = .eof → r = [])
    (hne : ws ++ (cmt ++ (lineEnd eol ++ r)) ≠ []) (line : Nat) :
    parseLine ctx ⟨ws ++ (cmt ++ (lineEnd eol ++ r)), line, false⟩ =
      .ok ((none, ctx), ⟨r, line + eolLines eol, false⟩) := by
  have hhead := lineEnd_head cmt hc eol r he
  have hX : cmt ++ (lineEnd eol ++ r) = [] ∨ ∃ c t, cmt ++ (lineEnd eol ++ r) = c :: t ∧ isWs c = false := by
    rcases hhead with h | ⟨c, t, h, hw, _⟩
    · exact .inl h
    · exact .inr ⟨c, t, h, hw⟩
  -- the first octet of the line: a blank, `;`, or the line end — never `$`
  obtain ⟨c, t, hct, hc36⟩ : ∃ c t, ws ++ (cmt ++ (lineEnd eol ++ r)) = c :: t ∧ (c == 36) = false := by
    cases ws with
    | cons x ws' =>
      have hx := hws x (by simp)
      refine ⟨x, _, rfl, ?_⟩
      simp only [isWs, Bool.or_eq_true, beq_iff_eq] at hx
      rcases hx with rfl | rfl <;> decide
    | nil =>
      rcases hhead with h | ⟨c, t, h, _, h36⟩
      · simp [h] at hne
      · exact ⟨c, t, by simpa using h, h36⟩
  unfold parseLine
  simp only [hct, hc36, Bool.false_eq_true, ↓reduceIte]
  rw [parseRecordOrEmpty_eq, ← hct]
  have hdrop := dropWhile_ws' ws _ hws hX
  have hsk : (skipWhitespace ⟨ws ++ (cmt ++ (lineEnd eol ++ r)), line, false⟩).2 =
      ⟨cmt ++ (lineEnd eol ++ r), line, false⟩ := by
    unfold skipWhitespace
    rw [hct]; simp only; rw [← hct, hdrop]
  rw [hsk]
  have := fieldOrEol_eolG [] cmt (by simp) hc eol r he line
  simp only [List.nil_append] at this
  simp only [this, beq_self_eq_true, ↓reduceIte, pure, P.pure]

theorem origin_bytes : "$ORIGIN".toUTF8.toList = [36, 79, 82, 73, 71, 73, 78] := by decide +kernel
theorem ttl_bytes : "$TTL".toUTF8.toList = [36, 84, 84, 76] := by decide +kernel

/-- a directive keyword at the start of a line, followed by a field end, is recognised -/
theorem expectFieldCI_self (kw X : List UInt8) (hX : atFieldEnd X = true) (line : Nat) (p : Bool) :
    expectFieldCI kw ⟨kw ++ X, line, p⟩ = (true, ⟨X, line, p⟩) := by
  unfold expectFieldCI expectFieldImpl
  simp [eqIgnoreCase, hX]

theorem include_bytes : "$INCLUDE".toUTF8.toList = [36, 73, 78, 67, 76, 85, 68, 69] := by decide +kernel

/-- `$ORIGIN <absolute name>` sets the origin -/
theorem parseLine_origin (ctx : Ctx) (ls : List PLabel) (hls : WFName (.abs ls)) (g1 : PGap) (q1 : Bool)
    (h1 : GapOK g1 false q1) (tg : PGap) (cmt : List UInt8) (hT : TailOK tg cmt q1) (eol : PEol) (r : List UInt8)
    (he : eol = .eof → r = []) (line : Nat) :
    parseLine ctx ⟨[36, 79, 82, 73, 71, 73, 78] ++ (gapText g1 ++ (renderAbsName ls ++ (tailText tg cmt eol ++ r))), line, false⟩ =
      .ok ((none, { ctx with origin := some (wireName (ls.map labelOctets)) }),
           ⟨r, line + gapLines g1 + labelLines ls + gapLines tg + eolLines eol, false⟩) := by
  obtain ⟨lne, lforms, llabels, ltotal⟩ := hls
  have hEnd := atFieldEnd_tail tg cmt q1 hT eol r he
  have hname := parseName_abs ctx.origin ls lne lforms llabels ltotal _ hEnd (line + gapLines g1) q1
  rw [nameNewlines_eq] at hname
  have hexp := expectFieldCI_self [36, 79, 82, 73, 71, 73, 78] _ (h1.atEnd (renderAbsName ls ++ (tailText tg cmt eol ++ r)))
    line false
  have hskip := h1.skip .ExpectedName _ ((abs_head lne lforms llabels).append (tailText tg cmt eol ++ r)) line
  unfold parseLine
  simp only [List.cons_append, List.nil_append, beq_self_eq_true, ↓reduceIte]
  unfold parseDirective
  simp only [bind, P.bind, liftB, origin_bytes]
  simp only [List.cons_append, List.nil_append] at hexp
  simp only [hexp, ↓reduceIte]
  unfold parseOriginDirective
  simp only [bind, P.bind, hskip, pName, hname, expectEol_tail tg cmt q1 hT eol r he, pure, P.pure]

theorem expectFieldCI_origin_ttl (Y : List UInt8) (line : Nat) (p : Bool) :
    expectFieldCI [36, 79, 82, 73, 71, 73, 78] ⟨36 :: 84 :: 84 :: 76 :: Y, line, p⟩ =
      (false, ⟨36 :: 84 :: 84 :: 76 :: Y, line, p⟩) := by
  have hcmp : eqIgnoreCase (List.take 7 (36 :: 84 :: 84 :: 76 :: Y)) [36, 79, 82, 73, 71, 73, 78] = false := by
    simp [eqIgnoreCase, lowerU8]
  unfold expectFieldCI expectFieldImpl
  split
  · rfl
  · simp only [show ([36, 79, 82, 73, 71, 73, 78] : List UInt8).length = 7 from rfl, hcmp, Bool.false_and,
      Bool.false_eq_true, ↓reduceIte]

/-- `$TTL <decimal>` sets the default TTL -/
theorem parseLine_ttl (ctx : Ctx) (n : Nat) (hn : n ≤ 4294967295) (g1 : PGap) (q1 : Bool)
    (h1 : GapOK g1 false q1) (tg : PGap) (cmt : List UInt8) (hT : TailOK tg cmt q1) (eol : PEol) (r : List UInt8)
    (he : eol = .eof → r = []) (line : Nat) :
    parseLine ctx ⟨[36, 84, 84, 76] ++ (gapText g1 ++ (decimal n ++ (tailText tg cmt eol ++ r))), line, false⟩ =
      .ok ((none, { ctx with defaultTtl := some (ttlFrom n) }), ⟨r, line + gapLines g1 + gapLines tg + eolLines eol, false⟩) := by
  have hEnd := atFieldEnd_tail tg cmt q1 hT eol r he
  have hnot := expectFieldCI_origin_ttl (gapText g1 ++ (decimal n ++ (tailText tg cmt eol ++ r))) line false
  have hexp := expectFieldCI_self [36, 84, 84, 76] _ (h1.atEnd (decimal n ++ (tailText tg cmt eol ++ r))) line false
  have hskip := h1.skip .ExpectedTtl _ ((starts_decimal n).append (tailText tg cmt eol ++ r)) line
  have hread := readField_decimal 4294967295 n hn (by omega) .InvalidTtl _ hEnd (line + gapLines g1) q1
  unfold parseLine
  simp only [List.cons_append, List.nil_append, beq_self_eq_true, ↓reduceIte]
  unfold parseDirective
  simp only [bind, P.bind, liftB, origin_bytes, ttl_bytes]
  simp only [List.cons_append, List.nil_append] at hnot hexp
  simp only [hnot, Bool.false_eq_true, ↓reduceIte]
  simp only [bind, P.bind, liftB, hexp, ↓reduceIte]
  unfold parseTtlDirective
  simp only [bind, P.bind, hskip, show parseU32 = parseUInt 4294967295 from rfl, hread,
    expectEol_tail tg cmt q1 hT eol r he, pure, P.pure]

/-- what the writer of an include path must respect -/
structure WFPath (s : PString) : Prop where
  forms : ∀ x ∈ s.octets, stringFormOK s.quoted x.1 x.2 = true
  len : s.octets.length ≤ 65536
  ne : s.quoted = false → s.octets ≠ []

/-- `$INCLUDE <path> [<origin>]` yields the include request; the context is unchanged.  `X` is
    what follows the path: the end of the line, or a gap and the origin -/
theorem parseLine_incl (ctx : Ctx) (path : PString) (hp : WFPath path) (g1 : PGap) (q1 : Bool)
    (h1 : GapOK g1 false q1) (X : List UInt8) (hX : atFieldEnd X = true) (line : Nat)
    (o : Option (List UInt8)) (r : List UInt8) (line' : Nat)
    (hrest : (do
        if (← skipToNextFieldOrThroughEol) == .Eol then pure (Item.incl line (stringOctets path) ctx.origin)
        else
          let origin ← pName ctx
          expectEol
          pure (Item.incl line (stringOctets path) (some origin)) : P Item)
        ⟨X, line + gapLines g1 + stringLines path, q1⟩ =
      .ok (.incl line (stringOctets path) o, ⟨r, line', false⟩)) :
    parseLine ctx ⟨[36, 73, 78, 67, 76, 85, 68, 69] ++ (gapText g1 ++ (stringText path ++ X)), line, false⟩ =
      .ok ((some (.incl line (stringOctets path) o), ctx), ⟨r, line', false⟩) := by
  have hcmp1 : ∀ Y : List UInt8, eqIgnoreCase (List.take 7 (36 :: 73 :: 78 :: 67 :: 76 :: 85 :: 68 :: 69 :: Y))
      [36, 79, 82, 73, 71, 73, 78] = false := by
    intro Y; simp [eqIgnoreCase, lowerU8]
  have hcmp2 : ∀ Y : List UInt8, eqIgnoreCase (List.take 4 (36 :: 73 :: 78 :: 67 :: 76 :: 85 :: 68 :: 69 :: Y))
      [36, 84, 84, 76] = false := by
    intro Y; simp [eqIgnoreCase, lowerU8]
  have hnot1 : ∀ Y : List UInt8, expectFieldCI [36, 79, 82, 73, 71, 73, 78]
      ⟨36 :: 73 :: 78 :: 67 :: 76 :: 85 :: 68 :: 69 :: Y, line, false⟩ =
      (false, ⟨36 :: 73 :: 78 :: 67 :: 76 :: 85 :: 68 :: 69 :: Y, line, false⟩) := by
    intro Y
    unfold expectFieldCI expectFieldImpl
    split
    · rfl
    · simp only [show ([36, 79, 82, 73, 71, 73, 78] : List UInt8).length = 7 from rfl, hcmp1, Bool.false_and,
        Bool.false_eq_true, ↓reduceIte]
  have hnot2 : ∀ Y : List UInt8, expectFieldCI [36, 84, 84, 76]
      ⟨36 :: 73 :: 78 :: 67 :: 76 :: 85 :: 68 :: 69 :: Y, line, false⟩ =
      (false, ⟨36 :: 73 :: 78 :: 67 :: 76 :: 85 :: 68 :: 69 :: Y, line, false⟩) := by
    intro Y
    unfold expectFieldCI expectFieldImpl
    split
    · rfl
    · simp only [show ([36, 84, 84, 76] : List UInt8).length = 4 from rfl, hcmp2, Bool.false_and,
        Bool.false_eq_true, ↓reduceIte]
  have hexp := expectFieldCI_self [36, 73, 78, 67, 76, 85, 68, 69] _ (h1.atEnd (stringText path ++ X)) line false
  have hskip := h1.skip .ExpectedIncludePath _ ((stringText_starts_of path hp.forms hp.ne).append X) line
  have hpath := parseString_render Gen.INCLUDE_PATH_MAX .IncludePathTooLong .EofInQuotedIncludePath path hp.forms
    (by simpa [Gen.INCLUDE_PATH_MAX] using hp.len) hp.ne X hX (line + gapLines g1) q1
  unfold parseLine
  simp only [List.cons_append, List.nil_append, beq_self_eq_true, ↓reduceIte]
  unfold parseDirective
  simp only [List.cons_append, List.nil_append] at hexp
  simp only [bind, P.bind, liftB, origin_bytes, ttl_bytes, include_bytes, hnot1, hnot2, Bool.false_eq_true, ↓reduceIte,
    hexp]
  unfold parseIncludeDirective parseIncludePath
  simp only [bind, P.bind, getLine, hskip, hpath]
  simp only [bind, P.bind, pure, P.pure] at hrest ⊢
  rw [hrest]

/-- the rest of an `$INCLUDE` line without origin -/
theorem incl_rest_plain (ctx : Ctx) (line0 : Nat) (path : List UInt8) (tg : PGap) (cmt : List UInt8) (q1 : Bool)
    (hT : TailOK tg cmt q1) (eol : PEol) (r : List UInt8) (he : eol = .eof → r = []) (line : Nat) :
    (do
        if (← skipToNextFieldOrThroughEol) == .Eol then pure (Item.incl line0 path ctx.origin)
        else
          let origin ← pName ctx
          expectEol
          pure (Item.incl line0 path (some origin)) : P Item) ⟨tailText tg cmt eol ++ r, line, q1⟩ =
      .ok (.incl line0 path ctx.origin, ⟨r, line + gapLines tg + eolLines eol, false⟩) := by
  simp only [bind, P.bind, skipToNextFieldOrThroughEol, fieldOrEol_tail tg cmt q1 hT eol r he line,
    beq_self_eq_true, ↓reduceIte, pure, P.pure]

/-- the rest of an `$INCLUDE` line with an origin -/
theorem incl_rest_origin (ctx : Ctx) (line0 : Nat) (path : List UInt8) (g2 : PGap) (q1 q2 : Bool)
    (h2 : GapOK g2 q1 q2) (T w : List UInt8) (k : Nat) (hn : NameTextOK ctx.origin T w k)
    (tg : PGap) (cmt : List UInt8) (hT : TailOK tg cmt q2) (eol : PEol) (r : List UInt8) (he : eol = .eof → r = []) (line : Nat) :
    (do
        if (← skipToNextFieldOrThroughEol) == .Eol then pure (Item.incl line0 path ctx.origin)
        else
          let origin ← pName ctx
          expectEol
          pure (Item.incl line0 path (some origin)) : P Item)
        ⟨gapText g2 ++ (T ++ (tailText tg cmt eol ++ r)), line, q1⟩ =
      .ok (.incl line0 path (some w), ⟨r, line + gapLines g2 + k + gapLines tg + eolLines eol, false⟩) := by
  have hEnd := atFieldEnd_tail tg cmt q2 hT eol r he
  have hb : ((FieldOrEol.Field == FieldOrEol.Eol) = true) = False := by simp
  simp only [bind, P.bind, skipToNextFieldOrThroughEol,
    fieldOrEol_gapG true g2 q1 q2 h2.wf h2.run _ (hn.starts.append (tailText tg cmt eol ++ r)) line, hb,
    ↓reduceIte, pName, hn.parse _ _ _ hEnd, expectEol_tail tg cmt q2 hT eol r he, pure, P.pure]

/-! ### whole files -/

theorem collect_item {p p' : Parser} {i : Item} (hn : p.next = (some (.item i), p'))
    (hlt : p'.st.inp.length < p.st.inp.length) : collect p = .item i :: collect p' := by
  rw [collect, hn]; simp [hlt]

theorem collect_none {p p' : Parser} (hn : p.next = (none, p')) : collect p = [] := by
  rw [collect, hn]

/-- two reader states (and contexts) from which `parse_lines_until_returnable_data_found` behaves
    the same yield the same items -/
theorem collect_of_untilData_eq {ctx1 ctx2 : Ctx} {st1 st2 : St} (h : untilData ctx1 st1 = untilData ctx2 st2)
    (hctx : CtxWF ctx2) (hlen : st2.inp.length ≤ st1.inp.length) :
    collect ⟨false, st1, ctx1⟩ = collect ⟨false, st2, ctx2⟩ := by
  have g := next_spec (p := ⟨false, st2, ctx2⟩) hctx
  rw [collect, collect]
  simp only [Parser.next, Bool.false_eq_true, ↓reduceIte, h] at g ⊢
  cases hu : untilData ctx2 st2 with
  | ok r =>
    obtain ⟨⟨it?, ctx'⟩, st'⟩ := r
    rw [hu] at g
    cases it? with
    | none => rfl
    | some item =>
      simp only [NextOK] at g
      have h2 : st'.inp.length < st2.inp.length := g.2.2
      have h1 : st'.inp.length < st1.inp.length := by omega
      simp [h1, h2]
  | err e => simp [Parser.next]
  | panic => simp [Parser.next]

/-- a line that yields nothing is stepped over -/
theorem untilData_skip {ctx ctx' : Ctx} {st st' : St} (hline : parseLine ctx st = .ok ((none, ctx'), st'))
    (hlt : st'.inp.length < st.inp.length) : untilData ctx st = untilData ctx' st' := by
  rw [untilData]
  cases hi : st.inp with
  | nil => rw [hi] at hlt; simp at hlt
  | cons c t =>
    rw [hi] at hlt
    simp only; rw [hline]; simp only [hlt, ↓reduceIte]

theorem next_of_untilData {ctx ctx' : Ctx} {st st' : St} {i : Item}
    (h : untilData ctx st = .ok ((some i, ctx'), st')) :
    (⟨false, st, ctx⟩ : Parser).next = (some (.item i), ⟨false, st', ctx'⟩) := by
  simp [Parser.next, h]

/-- well-formed presentation of an entry -/
def WFEntry : PEntry → Prop
  | .blank ws cmt eol => (∀ x ∈ ws, isWs x = true) ∧ commentOK cmt ∧ ws ++ cmt ++ lineEnd eol ≠ []
  | .record p => WFRecord p
  | .origin ls gap tail cmt _ =>
    WFName (.abs ls) ∧ ∃ q1, GapOK gap false q1 ∧ TailOK tail cmt q1
  | .ttl n gap tail cmt _ =>
    n ≤ 4294967295 ∧ ∃ q1, GapOK gap false q1 ∧ TailOK tail cmt q1
  | .incl path origin gap gap2 tail cmt _ =>
    WFPath path ∧ ∃ q1 q2, GapOK gap false q1 ∧
      (∀ n, origin = some n → WFName n ∧ GapOK gap2 q1 q2) ∧ (origin = none → q2 = q1) ∧ TailOK tail cmt q2

def itemOf : SItem → Yield
  | .record sr => .item (.record sr.line ⟨sr.owner, sr.ttl, sr.cls, sr.ty, sr.rdata⟩)
  | .incl line path origin => .item (.incl line path origin)

/-- how an entry's (last) line ends -/
def entryEol : PEntry → PEol
  | .blank _ _ eol => eol
  | .record p => p.eol
  | .origin _ _ _ _ eol => eol
  | .ttl _ _ _ _ eol => eol
  | .incl _ _ _ _ _ _ eol => eol

/-- only the last line of a file may end with the file -/
def EolsOK : List PEntry → Prop
  | [] => True
  | e :: es => (entryEol e = .eof → es = []) ∧ EolsOK es

theorem denote_line_fix {es : List PEntry} {c : SCtx} {L : Nat} {eol : PEol} {rest : List SItem}
    (he : eol = .eof → es = []) (h : denoteFile validB es c (L + 1) = some rest) :
    denoteFile validB es c (L + eolLines eol) = some rest := by
  cases eol with
  | lf => exact h
  | crlf => exact h
  | eof =>
    have := he rfl
    subst this
    simpa [denoteFile] using h

/-- stepping over a line that yields nothing, in the run -/
theorem collect_skip {ctx ctx' : Ctx} (hctx : CtxWF ctx) {text R : List UInt8} {line line' : Nat}
    (hline : parseLine ctx ⟨text ++ R, line, false⟩ = .ok ((none, ctx'), ⟨R, line', false⟩))
    (hne : text ≠ []) :
    collect ⟨false, ⟨text ++ R, line, false⟩, ctx⟩ = collect ⟨false, ⟨R, line', false⟩, ctx'⟩ ∧ CtxWF ctx' := by
  have hlt : R.length < (text ++ R).length := by
    have : 0 < text.length := List.length_pos_iff.mpr hne
    simp; omega
  have g := parseLine_good hctx ⟨text ++ R, line, false⟩ (by simp [hne])
  rw [hline] at g
  exact ⟨collect_of_untilData_eq (untilData_skip hline hlt) g.1.2 (by simp), g.1.2⟩

/-- **Whole files of the subset.**  A file of well-formed entries that denotes the records `srs`
    (all with RDATA valid for class and type) parses to exactly those records, in order, with
    their line numbers — from any well-formed context and line. -/
theorem collect_file (es : List PEntry) (hwf : ∀ e ∈ es, WFEntry e) (heols : EolsOK es) (ctx : Ctx) (hctx : CtxWF ctx)
    (line : Nat) (srs : List SItem) (hden : denoteFile validB es (toSCtx ctx) line = some srs) :
    collect ⟨false, ⟨renderFile es, line, false⟩, ctx⟩ = srs.map itemOf := by
  induction es generalizing ctx line srs with
  | nil =>
    simp only [denoteFile, Option.some.injEq] at hden
    subst hden
    apply collect_none (p' := ⟨false, ⟨[], line, false⟩, ctx⟩)
    simp [Parser.next, renderFile, untilData]
  | cons e es ih =>
    have hwf' : ∀ e' ∈ es, WFEntry e' := fun e' h' => hwf e' (by simp [h'])
    have hrf : renderFile (e :: es) = renderEntry e ++ renderFile es := by simp [renderFile]
    obtain ⟨heol, heols'⟩ := heols
    have hefile : entryEol e = .eof → renderFile es = [] := fun h => by rw [heol h]; rfl
    cases e with
    | blank ws cmt eol =>
      simp only [entryEol] at heol hefile
      obtain ⟨hws, hcmt, hnonempty⟩ := hwf (.blank ws cmt eol) (by simp)
      simp only [denoteFile] at hden
      have hne0 : ws ++ (cmt ++ (lineEnd eol ++ renderFile es)) ≠ [] := by
        intro h; apply hnonempty; simp at h ⊢; exact ⟨h.1, h.2.1, h.2.2.1⟩
      have hline := parseLine_blank ctx ws cmt eol (renderFile es) hws hcmt hefile hne0 line
      have htext : renderFile (.blank ws cmt eol :: es) = (ws ++ cmt ++ lineEnd eol) ++ renderFile es := by
        simp [hrf, renderEntry]
      rw [htext]
      have hline' : parseLine ctx ⟨(ws ++ cmt ++ lineEnd eol) ++ renderFile es, line, false⟩ =
          .ok ((none, ctx), ⟨renderFile es, line + eolLines eol, false⟩) := by
        have e : (ws ++ cmt ++ lineEnd eol) ++ renderFile es = ws ++ (cmt ++ (lineEnd eol ++ renderFile es)) := by simp
        rw [e]; exact hline
      obtain ⟨hc, _⟩ := collect_skip hctx hline' hnonempty
      rw [hc]
      exact ih hwf' heols' ctx hctx _ srs (denote_line_fix heol hden)
    | origin ls gap tail cmt eol =>
      simp only [entryEol] at heol hefile
      obtain ⟨hls, q1, h1, hT⟩ := hwf (.origin ls gap tail cmt eol) (by simp)
      simp only [denoteFile] at hden
      have hline := parseLine_origin ctx ls hls gap q1 h1 tail cmt hT eol (renderFile es) hefile line
      have htext : renderFile (.origin ls gap tail cmt eol :: es) =
          ([36, 79, 82, 73, 71, 73, 78] ++ (gapText gap ++ (renderAbsName ls ++ tailText tail cmt eol))) ++ renderFile es := by
        simp [hrf, renderEntry, tailText]
      rw [htext]
      have hline' : parseLine ctx
          ⟨([36, 79, 82, 73, 71, 73, 78] ++ (gapText gap ++ (renderAbsName ls ++ tailText tail cmt eol))) ++ renderFile es, line, false⟩ =
          .ok ((none, { ctx with origin := some (wireName (ls.map labelOctets)) }),
            ⟨renderFile es, line + gapLines gap + labelLines ls + gapLines tail + eolLines eol, false⟩) := by
        have e : ([36, 79, 82, 73, 71, 73, 78] ++ (gapText gap ++ (renderAbsName ls ++ tailText tail cmt eol))) ++ renderFile es =
            [36, 79, 82, 73, 71, 73, 78] ++ (gapText gap ++ (renderAbsName ls ++ (tailText tail cmt eol ++ renderFile es))) := by
          simp
        rw [e]; exact hline
      obtain ⟨hc, hctx'⟩ := collect_skip hctx hline' (by simp)
      rw [hc]
      exact ih hwf' heols' _ hctx' _ srs (denote_line_fix heol hden)
    | ttl n gap tail cmt eol =>
      simp only [entryEol] at heol hefile
      obtain ⟨hn, q1, h1, hT⟩ := hwf (.ttl n gap tail cmt eol) (by simp)
      simp only [denoteFile] at hden
      have hline := parseLine_ttl ctx n hn gap q1 h1 tail cmt hT eol (renderFile es) hefile line
      have htext : renderFile (.ttl n gap tail cmt eol :: es) =
          ([36, 84, 84, 76] ++ (gapText gap ++ (decimal n ++ tailText tail cmt eol))) ++ renderFile es := by
        simp [hrf, renderEntry, tailText]
      rw [htext]
      have hline' : parseLine ctx
          ⟨([36, 84, 84, 76] ++ (gapText gap ++ (decimal n ++ tailText tail cmt eol))) ++ renderFile es, line, false⟩ =
          .ok ((none, { ctx with defaultTtl := some (ttlFrom n) }),
            ⟨renderFile es, line + gapLines gap + gapLines tail + eolLines eol, false⟩) := by
        have e : ([36, 84, 84, 76] ++ (gapText gap ++ (decimal n ++ tailText tail cmt eol))) ++ renderFile es =
            [36, 84, 84, 76] ++ (gapText gap ++ (decimal n ++ (tailText tail cmt eol ++ renderFile es))) := by simp
        rw [e]; exact hline
      obtain ⟨hc, hctx'⟩ := collect_skip hctx hline' (by simp)
      rw [hc]
      exact ih hwf' heols' _ hctx' _ srs (denote_line_fix heol (by simpa [toSCtx, ttlFrom, ttlValue] using hden))
    | incl path origin sep sep2 trail cmt eol =>
      simp only [entryEol] at heol hefile
      obtain ⟨hpath, q1, q2, h1, horig, hq, hT⟩ := hwf (.incl path origin sep sep2 trail cmt eol) (by simp)
      -- once the line is evaluated: the request, then the rest of the file
      have fin : ∀ (o : Option (List UInt8)) (line' : Nat) (rest : List SItem),
          parseLine ctx ⟨renderEntry (.incl path origin sep sep2 trail cmt eol) ++ renderFile es, line, false⟩ =
            .ok ((some (.incl line (stringOctets path) o), ctx), ⟨renderFile es, line', false⟩) →
          denoteFile validB es (toSCtx ctx) line' = some rest →
          collect ⟨false, ⟨renderFile (.incl path origin sep sep2 trail cmt eol :: es), line, false⟩, ctx⟩ =
            (SItem.incl line (stringOctets path) o :: rest).map itemOf := by
        intro o line' rest hline hrest
        have hne' : renderEntry (.incl path origin sep sep2 trail cmt eol) ++ renderFile es ≠ [] := by
          simp [renderEntry]
        have hu : untilData ctx ⟨renderEntry (.incl path origin sep sep2 trail cmt eol) ++ renderFile es, line, false⟩ =
            .ok ((some (.incl line (stringOctets path) o), ctx), ⟨renderFile es, line', false⟩) := by
          rw [untilData]
          cases hw : renderEntry (.incl path origin sep sep2 trail cmt eol) ++ renderFile es with
          | nil => exact absurd hw hne'
          | cons c t => simp only; rw [← hw, hline]
        rw [hrf]
        have hnext := next_of_untilData hu
        have g := next_spec (p := ⟨false, ⟨renderEntry (.incl path origin sep sep2 trail cmt eol) ++ renderFile es, line, false⟩, ctx⟩) hctx
        rw [hnext] at g
        rw [collect_item hnext g.2.2]
        simp only [List.map_cons, itemOf]
        congr 1
        exact ih hwf' heols' ctx g.2.1 _ rest hrest
      cases origin with
      | none =>
        have hq' := hq rfl
        subst hq'
        simp only [denoteFile, bind, Option.bind, Nat.add_zero] at hden
        cases hrest : denoteFile validB es (toSCtx ctx) (line + gapLines sep + stringLines path + gapLines trail + 1) with
        | none => simp [hrest] at hden
        | some rest =>
          simp only [hrest, pure, Option.some.injEq] at hden
          subst hden
          have hr := incl_rest_plain ctx line (stringOctets path) trail cmt q2 hT eol (renderFile es) hefile
            (line + gapLines sep + stringLines path)
          have := parseLine_incl ctx path hpath sep q2 h1 _ (atFieldEnd_tail trail cmt q2 hT eol (renderFile es) hefile)
            line ctx.origin (renderFile es) _ hr
          exact fin ctx.origin _ rest (by simpa [renderEntry, tailText] using this) (denote_line_fix heol hrest)
      | some n =>
        obtain ⟨hn, h2⟩ := horig n rfl
        simp only [denoteFile, bind, Option.bind] at hden
        cases hw : nameWire (toSCtx ctx).origin n with
        | none => simp [hw] at hden
        | some w =>
          simp only [hw, Option.map_some] at hden
          cases hrest : denoteFile validB es (toSCtx ctx)
              (line + gapLines sep + stringLines path + (gapLines sep2 + nameLines n) + gapLines trail + 1) with
          | none => simp [hrest] at hden
          | some rest =>
            simp only [hrest, pure, Option.some.injEq] at hden
            subst hden
            have hnt := nameText_ok ctx.origin hctx.1 n hn w hw
            have hr := incl_rest_origin ctx line (stringOctets path) sep2 q1 q2 h2 (nameText n) w (nameLines n) hnt
              trail cmt hT eol (renderFile es) hefile (line + gapLines sep + stringLines path)
            have := parseLine_incl ctx path hpath sep q1 h1 _ (h2.atEnd _)
              line (some w) (renderFile es) _ hr
            refine fin (some w) _ rest (by simpa [renderEntry, tailText] using this) ?_
            have := denote_line_fix heol hrest
            rw [← this]
            congr 1
            omega
    | record p =>
      simp only [entryEol] at heol hefile
      have hp := hwf (.record p) (by simp)
      simp only [denoteFile, bind, Option.bind] at hden
      cases hd : denoteRecord validB (toSCtx ctx) line p with
      | none => simp [hd] at hden
      | some res =>
        obtain ⟨sr, sc'⟩ := res
        simp only [hd] at hden
        cases hrest : denoteFile validB es sc' (line + recordLines p + 1) with
        | none => simp [hrest] at hden
        | some rest =>
          simp only [hrest, pure, Option.some.injEq] at hden
          subst hden
          obtain ⟨ctx', hline, hsc⟩ := parseLine_record ctx hctx p hp line (renderFile es) hefile sr sc' hd
          have htext : renderFile (.record p :: es) = renderRecord p ++ renderFile es := by
            simp [hrf, renderEntry]
          have hne : renderRecord p ++ renderFile es ≠ [] := by
            intro h
            have hty := (typeText_ok p.ty hp.ty_ok.1).field.ne
            have hpos : 0 < (typeText p.ty).length := List.length_pos_iff.mpr hty
            have hl := congrArg List.length h
            simp only [renderRecord, List.length_append, List.length_nil] at hl
            omega
          have hu : untilData ctx ⟨renderRecord p ++ renderFile es, line, false⟩ =
              .ok ((some (.record sr.line ⟨sr.owner, sr.ttl, sr.cls, sr.ty, sr.rdata⟩), ctx'),
                ⟨renderFile es, line + recordLines p + eolLines p.eol, false⟩) := by
            rw [untilData]
            cases hw : renderRecord p ++ renderFile es with
            | nil => exact absurd hw hne
            | cons c t => simp only; rw [← hw, hline]
          rw [htext]
          have hnext := next_of_untilData hu
          have g := next_spec (p := ⟨false, ⟨renderRecord p ++ renderFile es, line, false⟩, ctx⟩) hctx
          rw [hnext] at g
          rw [collect_item hnext g.2.2]
          simp only [List.map_cons, itemOf]
          congr 1
          exact ih hwf' heols' ctx' g.2.1 _ rest (by rw [hsc]; exact denote_line_fix heol hrest)

end QV.ZF
