/-
  QV.Proofs.ServerAnswerTwoRun — the two-run comparison of the answering phase when optional calls may
  be dropped (C10 row 3, part (b)): if the run with `d` more octets of room succeeds — every mandatory
  call accepted, optional calls possibly dropped with `Truncation` — and its result fits the smaller
  room, then the run in the smaller room makes the same calls with the same results (the same log) and
  leaves the same writer up to the room and up to the octets at and above the cursor.

  Unlike `Sim` (Proofs/ServerAnswerLimit.lean), the runs may contain dropped optional calls: the big
  run's `Truncation` is a `Truncation` in the small room too (`addRrsetOp_trunc_down`, from the
  monotonicity pass).  After a dropped call the two writers agree only below the cursor
  (`with_rollback` restores the cursor and the counts, not the octets), so continuing needs the one
  fact about the writer this file does NOT prove and takes as the named hypothesis `ScratchIndep`:
  a writer call of the answering phase does not read octets at or above the cursor.

  SUPERSEDED: `ScratchIndep` quantifies over all writer states and is FALSE for states whose prior names
  or hints point at or above the cursor.  The pass that C10 uses is Proofs/ServerAnswerTwoRunI.lean
  (hypothesis `ScratchIndepI`: the same, next to a state that satisfies `Writer.I` with a valid hint).
  This file is kept for `Same.symm` / `Same.trans` / `same_hv` / `same_lift_inv` and as the state-free
  version of the pass; nothing in the properties depends on `ScratchIndep`.
-/
import QV.Proofs.ServerAnswerMono

namespace QV.ServerAnswer
open QV QV.Writer QV.Server

theorem Same.symm {s t : State} (h : Same s t) : Same t s :=
  ⟨h.size.symm, fun i hi => (h.pre i (by rw [← h.cursor]; exact hi)).symm, h.cursor.symm, h.limit.symm,
    h.available.symm, h.rrStart.symm, h.sect.symm, h.qd.symm, h.an.symm, h.ns.symm, h.ar.symm, h.qname.symm,
    h.owner.symm, h.inRdata.symm, h.mode.symm, h.edns.symm, h.tsig.symm, h.gLabels.symm, h.gPtrs.symm,
    h.gCtx.symm⟩

theorem Same.trans {s t u : State} (h : Same s t) (g : Same t u) : Same s u :=
  ⟨g.size.trans h.size, fun i hi => (g.pre i (by rw [h.cursor]; exact hi)).trans (h.pre i hi),
    g.cursor.trans h.cursor, g.limit.trans h.limit, g.available.trans h.available, g.rrStart.trans h.rrStart,
    g.sect.trans h.sect, g.qd.trans h.qd, g.an.trans h.an, g.ns.trans h.ns, g.ar.trans h.ar,
    g.qname.trans h.qname, g.owner.trans h.owner, g.inRdata.trans h.inRdata, g.mode.trans h.mode,
    g.edns.trans h.edns, g.tsig.trans h.tsig, g.gLabels.trans h.gLabels, g.gPtrs.trans h.gPtrs,
    g.gCtx.trans h.gCtx⟩

theorem same_hv {s t : State} (h : Same s t) (x y : Option HV) : Same { s with hv := x } { t with hv := y } :=
  ⟨h.size, h.pre, h.cursor, h.limit, h.available, h.rrStart, h.sect, h.qd, h.an, h.ns, h.ar, h.qname,
    h.owner, h.inRdata, h.mode, h.edns, h.tsig, h.gLabels, h.gPtrs, h.gCtx⟩

/-- a state that agrees with a lifted state is itself a lift -/
theorem same_lift_inv (d : Nat) (B0 t : State) (h : Same (lift d B0) t) : ∃ t0, t = lift d t0 ∧ Same B0 t0 := by
  refine ⟨{ t with limit := B0.limit, available := B0.available }, ?_, ?_⟩
  · have h1 := h.limit
    have h2 := h.available
    cases t
    simp only [lift] at h1 h2 ⊢
    subst h1 h2
    rfl
  · exact ⟨h.size, h.pre, h.cursor, rfl, rfl, h.rrStart, h.sect, h.qd, h.an, h.ns, h.ar, h.qname,
      h.owner, h.inRdata, h.mode, h.edns, h.tsig, h.gLabels, h.gPtrs, h.gCtx⟩

/-- **scratch independence, without the invariant** (superseded by `ServerContent.ScratchIndepI`; false
    for states whose prior names or hints point at or above the cursor): a writer
    call of the answering phase run on two states that agree on everything but the octets at and above
    the cursor has the same outcome and leaves two such states (and the same hint vector).
    `compress_decision` is the only reader of the octets; it must be shown to look only below the
    cursor. -/
def ScratchIndep : Prop :=
  ∀ (c : AnsCall) (s t : State), Same s t → s.hv = t.hv →
    (c.run t).1 = (c.run s).1 ∧ Same (c.run s).2 (c.run t).2 ∧ (c.run s).2.hv = (c.run t).2.hv

/-- an accepted call in the big room that fits the small room is accepted there, with the same effect -/
theorem twoCall_ok (hSI : ScratchIndep) (c : AnsCall) (d : Nat) (A B0 t : State) (hS : Same A B0)
    (hhv : A.hv = B0.hv) (h : c.run (lift d B0) = (.ok (), t)) (hc : t.cursor ≤ A.available) :
    ∃ sA t0, c.run A = (.ok (), sA) ∧ t = lift d t0 ∧ Same sA t0 ∧ sA.hv = t0.hv := by
  obtain ⟨s', hs', ht⟩ := sim_ansCall c d B0 () t h (by rw [hS.available]; exact hc)
  obtain ⟨g1, g2, g3⟩ := hSI c A B0 hS hhv
  rw [hs'] at g1 g2 g3
  simp only at g1 g2 g3
  rcases hr : c.run A with ⟨r, sA⟩
  rw [hr] at g1 g2 g3
  simp only at g1 g2 g3
  subst g1
  exact ⟨sA, s', rfl, ht, g2, g3⟩

/-- an RRset rejected with `Truncation` in the big room is rejected with `Truncation` in the small room -/
theorem twoCall_trunc (hSI : ScratchIndep) (sec : RrSection) (hint : Hint) (owner : WName) (ty cls ttl : Nat)
    (rds : List (List UInt8)) (d : Nat) (A B0 t : State) (hS : Same A B0) (hhv : A.hv = B0.hv)
    (h : addRrsetOp sec hint owner ty cls ttl rds (lift d B0) = (.err .Truncation, t))
    (hnp : (addRrsetOp sec hint owner ty cls ttl rds A).1 ≠ .panic) :
    ∃ sA t0, addRrsetOp sec hint owner ty cls ttl rds A = (.err .Truncation, sA) ∧ t = lift d t0 ∧ Same sA t0 := by
  obtain ⟨g1, _, _⟩ := hSI (.addRrset sec hint owner ty cls ttl rds) A B0 hS hhv
  have e : ∀ s, AnsCall.run (.addRrset sec hint owner ty cls ttl rds) s = addRrsetOp sec hint owner ty cls ttl rds s :=
    fun _ => rfl
  rw [e, e] at g1
  have hB := addRrsetOp_cases sec hint owner ty cls ttl rds (lift d B0)
  rw [h] at hB
  simp only at hB
  obtain ⟨t0, ht0, hBt⟩ := same_lift_inv d B0 t hB
  rcases addRrsetOp_trunc_down sec hint owner ty cls ttl rds d B0 t h with ⟨s0, hs0⟩ | hp
  · rw [hs0] at g1
    simp only at g1
    rcases hr : addRrsetOp sec hint owner ty cls ttl rds A with ⟨r, sA⟩
    rw [hr] at g1
    simp only at g1
    subst g1
    have hA := addRrsetOp_cases sec hint owner ty cls ttl rds A
    rw [hr] at hA
    simp only at hA
    exact ⟨sA, t0, rfl, ht0, Same.trans (Same.symm hA) (Same.trans hS hBt)⟩
  · rw [hp] at g1
    exact absurd g1.symm hnp

/-! ### the judgement -/

/-- the two-run comparison: big-room success that fits ⇒ small-room success with the same log -/
def TwoP {α} (m : PM α) : Prop :=
  ∀ (d : Nat) (A B0 : State) (log : List Ev) (a : α) (pt : PS), Same A B0 → A.hv = B0.hv →
    m ⟨lift d B0, log⟩ = (.ok a, pt) → pt.w.cursor ≤ A.available → (m ⟨A, log⟩).1 ≠ .panic →
    ∃ ps' t0, m ⟨A, log⟩ = (.ok a, ps') ∧ ps'.log = pt.log ∧ pt.w = lift d t0 ∧ Same ps'.w t0 ∧ ps'.w.hv = t0.hv

def TwoPF {α} (m : PM α) : Prop := TwoP m ∧ CAP m

theorem twoPF_pure {α} (a : α) : TwoPF (Pure.pure a : PM α) := by
  refine ⟨?_, (simPF_pure a).2⟩
  intro d A B0 log b pt hS hhv h _ _
  simp only [pure_def] at h ⊢
  cases h
  exact ⟨_, B0, rfl, rfl, rfl, hS, hhv⟩

theorem twoPF_fail {α} (e : PErr) : TwoPF (PM.fail e : PM α) :=
  ⟨fun d A B0 log b pt _ _ h _ _ => by simp [PM.fail] at h, (simPF_fail e).2⟩

theorem twoPF_panic {α} : TwoPF (PM.panic : PM α) :=
  ⟨fun d A B0 log b pt _ _ h _ _ => by simp [PM.panic] at h, simPF_panic.2⟩

theorem cap_bind {α β} {m : PM α} {f : α → PM β} (hm : CAP m) (hf : ∀ a, CAP (f a)) : CAP (m >>= f) := by
  intro ps b ps' h
  rw [bind_def] at h
  rcases hmm : m ps with ⟨(a | e | _), ps1⟩
  · rw [hmm] at h
    simp only [] at h
    obtain ⟨a1, a2, evs1, a3⟩ := hm ps a ps1 hmm
    obtain ⟨c1, c2, evs2, c3⟩ := hf a ps1 b ps' h
    exact ⟨Nat.le_trans a1 c1, by rw [c2, a2], evs1 ++ evs2, by rw [c3, a3, List.append_assoc]⟩
  · rw [hmm] at h; simp at h
  · rw [hmm] at h; simp at h

theorem twoPF_bind {α β} {m : PM α} {f : α → PM β} (hm : TwoPF m) (hf : ∀ a, TwoPF (f a)) : TwoPF (m >>= f) := by
  refine ⟨?_, cap_bind hm.2 (fun a => (hf a).2)⟩
  intro d A B0 log b pt hS hhv h hc hnp
  rw [bind_def] at h hnp ⊢
  rcases hmm : m ⟨lift d B0, log⟩ with ⟨(a | e | _), pt1⟩
  · rw [hmm] at h
    simp only [] at h
    obtain ⟨c1, c2, evs2, c3⟩ := (hf a).2 pt1 b pt h
    have hnp1 : (m ⟨A, log⟩).1 ≠ .panic := by
      intro hp
      rcases hr : m ⟨A, log⟩ with ⟨(x | e | _), q⟩
      · rw [hr] at hp; cases hp
      · rw [hr] at hp; cases hp
      · rw [hr] at hnp; exact hnp rfl
    obtain ⟨ps1, t1, hs1, hl1, hw1, hS1, hhv1⟩ := hm.1 d A B0 log a pt1 hS hhv hmm (Nat.le_trans c1 hc) hnp1
    obtain ⟨b1, b2, _⟩ := hm.2 ⟨A, log⟩ a ps1 hs1
    rw [hs1] at hnp ⊢
    simp only [] at hnp ⊢
    obtain ⟨w1, l1⟩ := pt1
    simp only at hl1 hw1
    subst hl1 hw1
    obtain ⟨wA, lA⟩ := ps1
    exact (hf a).1 d wA t1 lA b pt hS1 hhv1 h (by rw [b2]; exact hc) hnp
  · rw [hmm] at h; simp at h
  · rw [hmm] at h; simp at h

section leaves
set_option linter.unusedSectionVars false
variable (hSI : ScratchIndep)
include hSI

/-- a header operation -/
theorem twoP_hdrOp (ev : Ev) (c : AnsCall) : TwoP (PM.hdrOp ev c.run) := by
  intro d A B0 log b pt hS hhv h hc _
  unfold PM.hdrOp at h ⊢
  simp only [] at h ⊢
  rcases hm : c.run (lift d B0) with ⟨(u | e | _), t⟩
  · rw [hm] at h
    simp only [] at h
    cases h
    obtain ⟨sA, t0, g1, g2, g3, g4⟩ := twoCall_ok hSI c d A B0 t hS hhv hm hc
    rw [g1]
    exact ⟨_, t0, rfl, rfl, g2, g3, g4⟩
  · rw [hm] at h; simp at h
  · rw [hm] at h; simp at h

theorem twoPF_setAa (b : Bool) : TwoPF (PM.setAa b) :=
  ⟨twoP_hdrOp hSI _ (.setAa b), (simPF_setAa b).2⟩

theorem twoPF_setRcode (v : Nat) : TwoPF (PM.setRcode v) :=
  ⟨twoP_hdrOp hSI _ (.setRcode v), (simPF_setRcode v).2⟩

theorem twoPF_addRrs (opt : Bool) (sec : RrSection) (hint : Hint) (owner : WName) (ty cls ttl : Nat)
    (rds : List (List UInt8)) : TwoPF (PM.addRrs opt sec hint owner ty cls ttl rds) := by
  refine ⟨?_, (simPF_addRrs opt sec hint owner ty cls ttl rds).2⟩
  intro d A B0 log b pt hS hhv h hc hnp
  unfold PM.addRrs PM.addCall Server.withHv at h hnp ⊢
  simp only [] at h hnp ⊢
  have hl : ({ lift d B0 with hv := some [] } : State) = lift d { B0 with hv := some [] } := rfl
  rw [hl] at h
  have hS' : Same { A with hv := some [] } { B0 with hv := some [] } := same_hv hS _ _
  rcases hm : addRrsetOp sec hint owner ty cls ttl rds (lift d { B0 with hv := some [] }) with ⟨(u | e | _), t⟩
  · rw [hm] at h
    simp only [] at h
    cases h
    obtain ⟨sA, t0, g1, g2, g3, g4⟩ := twoCall_ok hSI (.addRrset sec hint owner ty cls ttl rds) d _ _ t hS' rfl hm hc
    have g1' : addRrsetOp sec hint owner ty cls ttl rds { A with hv := some [] } = (.ok (), sA) := g1
    rw [g1']
    simp only []
    subst g2
    refine ⟨⟨{ sA with hv := none }, _⟩, { t0 with hv := none }, ?_, rfl, rfl, same_hv g3 _ _, rfl⟩
    rw [g4]
    rfl
  · rw [hm] at h
    simp only [] at h
    split at h
    · next hcond =>
      cases h
      obtain ⟨ho, he⟩ := hcond
      subst he
      have hnpA : (addRrsetOp sec hint owner ty cls ttl rds { A with hv := some [] }).1 ≠ .panic := by
        intro hp
        rcases hr : addRrsetOp sec hint owner ty cls ttl rds { A with hv := some [] } with ⟨(x | e | _), q⟩
        · rw [hr] at hp; cases hp
        · rw [hr] at hp; cases hp
        · rw [hr] at hnp; exact hnp rfl
      obtain ⟨sA, t0, g1, g2, g3⟩ := twoCall_trunc hSI sec hint owner ty cls ttl rds d _ _ t hS' rfl hm hnpA
      rw [g1]
      simp only [ho, and_self, if_true]
      subst g2
      exact ⟨_, { t0 with hv := none }, rfl, rfl, rfl, same_hv g3 _ _, rfl⟩
    · cases h
  · rw [hm] at h; simp at h

theorem twoPF_addRr1 (sec : RrSection) (hint : Hint) (owner : WName) (ty cls ttl : Nat) (rd : List UInt8) :
    TwoPF (PM.addRr1 sec hint owner ty cls ttl rd) := by
  unfold PM.addRr1
  refine twoPF_bind ⟨?_, (simPF_addCall _ _ (addOp_rr sec hint owner ty cls ttl rd)).2⟩ (fun _ => twoPF_pure ())
  intro d A B0 log b pt hS hhv h hc hnp
  unfold PM.addCall Server.withHv at h hnp ⊢
  simp only [] at h hnp ⊢
  have hl : ({ lift d B0 with hv := some [] } : State) = lift d { B0 with hv := some [] } := rfl
  rw [hl] at h
  have hS' : Same { A with hv := some [] } { B0 with hv := some [] } := same_hv hS _ _
  rcases hm : addRrOp sec hint owner ty cls ttl rd (lift d { B0 with hv := some [] }) with ⟨(u | e | _), t⟩
  · rw [hm] at h
    simp only [] at h
    cases h
    obtain ⟨sA, t0, g1, g2, g3, g4⟩ := twoCall_ok hSI (.addRr sec hint owner ty cls ttl rd) d _ _ t hS' rfl hm hc
    have g1' : addRrOp sec hint owner ty cls ttl rd { A with hv := some [] } = (.ok (), sA) := g1
    rw [g1']
    simp only []
    subst g2
    refine ⟨⟨{ sA with hv := none }, _⟩, { t0 with hv := none }, ?_, rfl, rfl, same_hv g3 _ _, rfl⟩
    rw [g4]
    rfl
  · rw [hm] at h
    simp only [] at h
    split at h
    · next hcond => exact absurd hcond.1 (by simp)
    · cases h
  · rw [hm] at h; simp at h

/-! ### the functions of query.rs -/

theorem twoPF_readName (rd : List UInt8) (start : Nat) : TwoPF (readNameFromRdata rd start) := by
  unfold readNameFromRdata
  split
  · exact twoPF_fail _
  · split
    · exact twoPF_pure _
    · exact twoPF_fail _

theorem twoPF_aaaaPart (z : Zone.Zone) (hint : Hint) (owner : WName) (opt : Bool) (aaaa : Option Zone.Rrset) :
    TwoPF (Server.addAaaa z hint owner opt aaaa) := by
  unfold Server.addAaaa
  split
  · cases aaaa with
    | none => exact twoPF_pure ()
    | some r => exact twoPF_bind (twoPF_addRrs hSI opt .additional hint owner _ _ _ _) (fun _ => twoPF_pure ())
  · exact twoPF_pure ()

theorem twoPF_addrs (z : Zone.Zone) (hint : Hint) (owner : WName) (sbc opt : Bool) :
    TwoPF (addAdditionalAddresses z hint owner sbc opt) := by
  unfold addAdditionalAddresses
  split
  · next a aaaa sos _ =>
    cases a with
    | none => exact twoPF_aaaaPart hSI z hint owner opt aaaa
    | some r =>
      refine twoPF_bind (twoPF_addRrs hSI opt .additional hint owner _ _ _ _) (fun o => ?_)
      cases o with
      | none => exact twoPF_pure ()
      | some x => exact twoPF_aaaaPart hSI z _ owner opt aaaa
  · exact twoPF_pure ()
  · exact twoPF_pure ()
  · exact twoPF_panic

theorem twoPF_additionalLoop (z : Zone.Zone) (start : Nat) (hv : Option HV) (rds : List (List UInt8)) (idx : Nat) :
    TwoPF (Server.additionalLoop z start hv rds idx) := by
  induction rds generalizing idx with
  | nil => unfold Server.additionalLoop; exact twoPF_pure ()
  | cons rd rest ih =>
    unfold Server.additionalLoop
    exact twoPF_bind (twoPF_readName hSI rd start) (fun n =>
      twoPF_bind (twoPF_addrs hSI z _ n false true) (fun _ => ih (idx + 1)))

theorem twoPF_additionalProcessing (z : Zone.Zone) (t : Nat) (s : Zone.Rrset) (hv : Option HV) :
    TwoPF (doAdditionalSectionProcessing z t s hv) := by
  unfold doAdditionalSectionProcessing
  split
  · exact twoPF_pure ()
  · split
    · exact twoPF_additionalLoop hSI z 0 hv s.rdatas 0
    · split
      · exact twoPF_additionalLoop hSI z 2 hv s.rdatas 0
      · split
        · exact twoPF_additionalLoop hSI z 6 hv s.rdatas 0
        · exact twoPF_pure ()

theorem twoPF_readSoaMinimum (rd : List UInt8) : TwoPF (Server.readSoaMinimum rd) := by
  unfold Server.readSoaMinimum
  split
  · split
    · split
      · exact twoPF_fail _
      · dsimp only
        split
        · exact twoPF_pure _
        · exact twoPF_fail _
    · exact twoPF_fail _
  · exact twoPF_fail _

theorem twoPF_negativeSoa (z : Zone.Zone) : TwoPF (addNegativeCachingSoa z) := by
  unfold addNegativeCachingSoa
  split
  · exact twoPF_fail _
  · split
    · exact twoPF_fail _
    · exact twoPF_bind (twoPF_readSoaMinimum hSI _) (fun m => twoPF_addRr1 hSI .authority _ _ _ _ _ _)

theorem twoPF_classifyNs (child : WName) (rds : List (List UInt8)) (idx : Nat) :
    TwoPF (Server.classifyNs child rds idx) := by
  induction rds generalizing idx with
  | nil => unfold Server.classifyNs; exact twoPF_pure _
  | cons rd rest ih =>
    unfold Server.classifyNs
    refine twoPF_bind (twoPF_readName hSI rd 0) (fun n => twoPF_bind (ih (idx + 1)) (fun p => ?_))
    obtain ⟨g, a⟩ := p
    simp only []
    split
    · exact twoPF_pure _
    · exact twoPF_pure _

theorem twoPF_glueLoop (z : Zone.Zone) (hv : HV) (opt : Bool) (l : List (Nat × WName)) :
    TwoPF (Server.glueLoop z hv opt l) := by
  induction l with
  | nil => unfold Server.glueLoop; exact twoPF_pure ()
  | cons p rest ih =>
    unfold Server.glueLoop
    exact twoPF_bind (twoPF_addrs hSI z _ p.2 true opt) (fun _ => ih)

theorem twoPF_referral (z : Zone.Zone) (child : NameL.Name) (ns : Zone.Rrset) : TwoPF (doReferral z child ns) := by
  unfold doReferral
  refine twoPF_bind (twoPF_addRrs hSI false .authority .none _ _ _ _ _) (fun hv =>
    twoPF_bind (twoPF_classifyNs hSI _ ns.rdatas 0) (fun p => ?_))
  obtain ⟨g, a⟩ := p
  simp only []
  exact twoPF_bind (twoPF_glueLoop hSI z _ false g) (fun _ => twoPF_glueLoop hSI z _ true a)

theorem twoPF_followCname (z : Zone.Zone) (qname : WName) (qtype : Nat) :
    ∀ (fuel : Nat) (cn : Zone.Rrset) (os : List WName), TwoPF (Server.followCname z qname qtype fuel cn os) := by
  intro fuel
  induction fuel with
  | zero => intro cn os; unfold Server.followCname; exact twoPF_fail _
  | succ f ih =>
    intro cn os
    rw [Server.followCname]
    split
    · exact twoPF_fail _
    · split
      · split
        · exact twoPF_fail _
        · refine twoPF_bind (twoPF_addRr1 hSI .answer _ _ _ _ _ _) (fun _ => ?_)
          split
          · exact twoPF_bind (twoPF_addRrs hSI false .answer _ _ _ _ _ _)
              (fun hv => twoPF_additionalProcessing hSI z qtype _ hv)
          · split
            · exact ih _ _
            · exact twoPF_fail _
          · exact twoPF_referral hSI z _ _
          · exact twoPF_negativeSoa hSI z
          · exact twoPF_bind (twoPF_setRcode hSI _) (fun _ => twoPF_negativeSoa hSI z)
          · exact twoPF_pure ()
          · exact twoPF_pure ()
          · exact twoPF_panic
      · exact twoPF_fail _

theorem twoPF_answer (z : Zone.Zone) (qname : WName) (qtype : Nat) : TwoPF (Server.answer z qname qtype) := by
  unfold Server.answer
  split
  · exact twoPF_bind (twoPF_setAa hSI true) (fun _ => twoPF_bind (twoPF_addRrs hSI false .answer _ _ _ _ _ _)
      (fun hv => twoPF_additionalProcessing hSI z qtype _ hv))
  · unfold Server.doCname
    exact twoPF_bind (twoPF_setAa hSI true) (fun _ => twoPF_followCname hSI z qname qtype _ _ _)
  · exact twoPF_referral hSI z _ _
  · exact twoPF_bind (twoPF_setAa hSI true) (fun _ => twoPF_negativeSoa hSI z)
  · exact twoPF_bind (twoPF_setRcode hSI _) (fun _ => twoPF_bind (twoPF_setAa hSI true) (fun _ => twoPF_negativeSoa hSI z))
  · exact twoPF_panic
  · exact twoPF_panic
  · exact twoPF_panic

theorem twoPF_answerAnyLoop (z : Zone.Zone) (qname : WName) (rrsets : List Zone.Rrset) (n : Nat) :
    TwoPF (Server.answerAnyLoop z qname rrsets n) := by
  induction rrsets generalizing n with
  | nil => unfold Server.answerAnyLoop; exact twoPF_pure _
  | cons r rest ih =>
    unfold Server.answerAnyLoop
    exact twoPF_bind (twoPF_addRrs hSI false .answer _ _ _ _ _ _) (fun _ => ih (n + 1))

theorem twoPF_answerAny (z : Zone.Zone) (qname : WName) : TwoPF (Server.answerAny z qname) := by
  unfold Server.answerAny
  split
  · refine twoPF_bind (twoPF_setAa hSI true) (fun _ => twoPF_bind (twoPF_answerAnyLoop hSI z qname _ 0) (fun n => ?_))
    split
    · exact twoPF_negativeSoa hSI z
    · exact twoPF_pure ()
  · exact twoPF_referral hSI z _ _
  · exact twoPF_bind (twoPF_setRcode hSI _) (fun _ => twoPF_bind (twoPF_setAa hSI true) (fun _ => twoPF_negativeSoa hSI z))
  · exact twoPF_panic
  · exact twoPF_panic
  · exact twoPF_panic

theorem twoPF_inner (z : Zone.Zone) (qname : WName) (qtype : Nat) : TwoPF (inner z qname qtype) := by
  unfold ServerAnswer.inner
  split
  · exact twoPF_answerAny hSI z qname
  · exact twoPF_answer hSI z qname qtype


/-- **the two-run comparison of the answering logic** (modulo `ScratchIndep`): if with `d` more octets
    of room the answering logic succeeds (optional calls possibly dropped) and the result fits the
    smaller room, then in the smaller room — from a state that agrees below the cursor — it does not
    panic ⇒ it succeeds with the same log and leaves a writer that agrees with the big one up to the
    room and the octets at and above the cursor -/
theorem inner_two_run (z : Zone.Zone) (qname : WName) (qtype : Nat) (d : Nat) (A B0 : State) (log : List Ev)
    (pt : PS) (hS : Same A B0) (hhv : A.hv = B0.hv)
    (h : inner z qname qtype ⟨lift d B0, log⟩ = (.ok (), pt)) (hc : pt.w.cursor ≤ A.available)
    (hnp : (inner z qname qtype ⟨A, log⟩).1 ≠ .panic) :
    ∃ ps' t0, inner z qname qtype ⟨A, log⟩ = (.ok (), ps') ∧ ps'.log = pt.log ∧ pt.w = lift d t0 ∧
      Same ps'.w t0 ∧ ps'.w.hv = t0.hv :=
  (twoPF_inner hSI z qname qtype).1 d A B0 log () pt hS hhv h hc hnp

end leaves

end QV.ServerAnswer
