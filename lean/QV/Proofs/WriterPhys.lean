/-
  C12 / C13 — the physical shape of a name occurrence is unique: the octets at a position can be
  split in only one way into literal labels followed by a root label or a pointer octet.  So the
  label starts a name write records (`PhysLab`) are the label starts any reader finds there.
-/
import QV.Proofs.WriterItems

namespace QV.Writer
open QV QV.Wire QV.Spec

theorem label_len_ne_zero {l : Label} (h : 1 ≤ l.length ∧ l.length ≤ 63) : UInt8.ofNat l.length ≠ 0 := by
  intro hc
  have := congrArg UInt8.toNat hc
  rw [encLabel_len_toNat h.2] at this
  have h00 : (0 : UInt8).toNat = 0 := rfl
  omega

/-- literal labels followed by a root label or a pointer octet: only one way to read them -/
theorem chunk_unique {oct : Bytes} : ∀ (pre pre' : List Label) (a : Nat) (b b' : UInt8),
    LabelsWF pre → LabelsWF pre' →
    BytesAt oct a (pre.flatMap WName.encLabel ++ [b]) → BytesAt oct a (pre'.flatMap WName.encLabel ++ [b']) →
    (b = 0 ∨ isPtr b = true) → (b' = 0 ∨ isPtr b' = true) → pre = pre' ∧ b = b' := by
  intro pre
  induction pre with
  | nil =>
    intro pre' a b b' _ hwf' hb hb' hc _
    have h0 : oct[a]? = some b := by simpa using hb 0 (by simp)
    cases pre' with
    | nil =>
      have h0' : oct[a]? = some b' := by simpa using hb' 0 (by simp)
      rw [h0] at h0'
      exact ⟨rfl, by simpa using h0'⟩
    | cons l ls =>
      exfalso
      have hl := hwf' l List.mem_cons_self
      have h0' : oct[a]? = some (UInt8.ofNat l.length) := by
        have := hb' 0 (by simp [WName.encLabel])
        simpa [WName.encLabel] using this
      rw [h0] at h0'
      have hbe : b = UInt8.ofNat l.length := by simpa using h0'
      rcases hc with h | h
      · exact label_len_ne_zero hl (hbe ▸ h)
      · rw [hbe, ofNat_len_notPtr hl.2] at h; cases h
  | cons l ls ih =>
    intro pre' a b b' hwf hwf' hb hb' hc hc'
    have hl := hwf l List.mem_cons_self
    have h0 : oct[a]? = some (UInt8.ofNat l.length) := by
      have := hb 0 (by simp [WName.encLabel])
      simpa [WName.encLabel] using this
    cases pre' with
    | nil =>
      exfalso
      have h0' : oct[a]? = some b' := by simpa using hb' 0 (by simp)
      rw [h0] at h0'
      have hbe : UInt8.ofNat l.length = b' := by simpa using h0'
      rcases hc' with h | h
      · exact label_len_ne_zero hl (hbe ▸ h)
      · rw [← hbe, ofNat_len_notPtr hl.2] at h; cases h
    | cons l' ls' =>
      have hl' := hwf' l' List.mem_cons_self
      have h0' : oct[a]? = some (UInt8.ofNat l'.length) := by
        have := hb' 0 (by simp [WName.encLabel])
        simpa [WName.encLabel] using this
      rw [h0] at h0'
      have hlen : l.length = l'.length := by
        have := congrArg UInt8.toNat (Option.some.inj h0')
        rwa [encLabel_len_toNat hl.2, encLabel_len_toNat hl'.2] at this
      have e1 : BytesAt oct a (WName.encLabel l ++ (ls.flatMap WName.encLabel ++ [b])) := by
        simpa [List.flatMap_cons, List.append_assoc] using hb
      have e2 : BytesAt oct a (WName.encLabel l' ++ (ls'.flatMap WName.encLabel ++ [b'])) := by
        simpa [List.flatMap_cons, List.append_assoc] using hb'
      obtain ⟨f1, r1⟩ := bytesAt_append e1
      obtain ⟨f2, r2⟩ := bytesAt_append e2
      have hll : l = l' := by
        apply List.ext_getElem?
        intro i
        by_cases hi : i < l.length
        · have x1 := f1 (i + 1) (by simp [WName.encLabel]; omega)
          have x2 := f2 (i + 1) (by simp [WName.encLabel]; omega)
          simp only [WName.encLabel, List.getElem?_cons_succ] at x1 x2
          rw [← x1, ← x2]
        · rw [List.getElem?_eq_none (by omega), List.getElem?_eq_none (by omega)]
      subst hll
      obtain ⟨e, eb⟩ := ih ls' (a + (WName.encLabel l).length) b b'
        (fun x hx => hwf x (List.mem_cons_of_mem _ hx)) (fun x hx => hwf' x (List.mem_cons_of_mem _ hx))
        r1 r2 hc hc'
      exact ⟨by rw [e], eb⟩

/-- the label starts of a chunk: those of its literal labels, and the root label's if it ends so -/
def chunkLabs (a : Nat) (pre : List Label) (b : UInt8) : List Nat :=
  labelStartsFrom a pre ++ (if b = 0 then [a + encLen pre] else [])

theorem physLab_iff {oct : Bytes} {a g : Nat} {pre : List Label} {b : UInt8} (hwf : LabelsWF pre)
    (hb : BytesAt oct a (pre.flatMap WName.encLabel ++ [b])) (hc : b = 0 ∨ isPtr b = true) :
    PhysLab oct a g ↔ g ∈ chunkLabs a pre b := by
  constructor
  · rintro ⟨pre', b', hwf', hb', hc', hg⟩
    obtain ⟨rfl, rfl⟩ := chunk_unique pre' pre a b' b hwf' hwf hb' hb hc' hc
    unfold chunkLabs
    rcases hg with hg | ⟨h0, hg⟩
    · exact List.mem_append_left _ hg
    · subst h0; simp [hg]
  · intro hg
    refine ⟨pre, b, hwf, hb, hc, ?_⟩
    unfold chunkLabs at hg
    rcases List.mem_append.mp hg with hg | hg
    · exact Or.inl hg
    · right
      by_cases h0 : b = 0
      · simpa [h0] using hg
      · simp [h0] at hg

/-- a recorded label start lies inside the octets of the name it belongs to -/
theorem physLab_range {oct : Bytes} {a k g : Nat} (hck : ChunkAt oct a k) (h : PhysLab oct a g) :
    a ≤ g ∧ g < a + k := by
  obtain ⟨pre, b, hwf, hb, hk⟩ := hck
  have hc : b = 0 ∨ isPtr b = true := by rcases hk with ⟨h, _⟩ | ⟨h, _⟩; exact Or.inl h; exact Or.inr h
  have hg := (physLab_iff hwf hb hc).mp h
  unfold chunkLabs at hg
  rcases List.mem_append.mp hg with hg | hg
  · have := labelStartsFrom_ge a pre g hg
    rcases hk with ⟨_, e⟩ | ⟨_, e⟩ <;> omega
  · by_cases h0 : b = 0
    · simp [h0] at hg
      rcases hk with ⟨_, e⟩ | ⟨_, e⟩ <;> omega
    · simp [h0] at hg

/-- frame: the label starts of a name only depend on the octets the name occupies -/
theorem physLab_frame {oct oct' : Bytes} {a k g : Nat} (hck : ChunkAt oct a k) (h : PhysLab oct a g)
    (hpre : ∀ i, a ≤ i → i < a + k → oct'[i]? = oct[i]?) : PhysLab oct' a g := by
  obtain ⟨pre, b, hwf, hb, hk⟩ := hck
  have hc : b = 0 ∨ isPtr b = true := by rcases hk with ⟨h, _⟩ | ⟨h, _⟩; exact Or.inl h; exact Or.inr h
  have hg := (physLab_iff hwf hb hc).mp h
  have hlen : (pre.flatMap WName.encLabel ++ [b]).length = encLen pre + 1 := by simp [encLen]
  have hb' : BytesAt oct' a (pre.flatMap WName.encLabel ++ [b]) :=
    bytesAt_frame hb (fun i h1 h2 => hpre i h1 (by rw [hlen] at h2; rcases hk with ⟨_, e⟩ | ⟨_, e⟩ <;> omega))
  exact (physLab_iff hwf hb' hc).mpr hg

/-- a name that ends with its root label and uses no pointer -/
def RootEnd (oct : Bytes) (a : Nat) : Prop :=
  ∃ pre, LabelsWF pre ∧ BytesAt oct a (pre.flatMap WName.encLabel ++ [0])

theorem rootEnd_frame {oct oct' : Bytes} {a k : Nat} (hck : ChunkAt oct a k) (h : RootEnd oct a)
    (hpre : ∀ i, a ≤ i → i < a + k → oct'[i]? = oct[i]?) : RootEnd oct' a := by
  obtain ⟨pre', hwf', hb'⟩ := h
  obtain ⟨pre, b, hwf, hb, hk⟩ := hck
  have hc : b = 0 ∨ isPtr b = true := by rcases hk with ⟨h, _⟩ | ⟨h, _⟩; exact Or.inl h; exact Or.inr h
  obtain ⟨rfl, rfl⟩ := chunk_unique pre' pre a 0 b hwf' hwf hb' hb (Or.inl rfl) hc
  have hlen : (pre'.flatMap WName.encLabel ++ [(0 : UInt8)]).length = encLen pre' + 1 := by simp [encLen]
  exact ⟨pre', hwf', bytesAt_frame hb (fun i h1 h2 => hpre i h1 (by
    rw [hlen] at h2; rcases hk with ⟨_, e⟩ | ⟨_, e⟩ <;> omega))⟩

theorem rootEnd_of_wire {oct : Bytes} {a : Nat} {n : WName} (hn : n.WF) (h : BytesAt oct a n.wire) :
    RootEnd oct a := by
  refine ⟨n.labels, ?_, ?_⟩
  · intro l hl; exact hn.1 l hl
  · simpa [WName.wire] using h

end QV.Writer
