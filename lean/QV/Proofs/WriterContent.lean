/-
  QV.Proofs.WriterContent — the layout invariant of the writer in every compression mode, with
  content (`CLay`): the chain items of `QV.Proofs.WriterShape` carry the question / record that was
  given, the name stored at the item matches the name given (as names are compared in the mode in
  effect when it was written), and the fixed fields are those given.
-/
import QV.Proofs.WriterShapeRun

namespace QV.Writer
open QV QV.Wire QV.Spec QV.ServerSafety

structure QItC where
  a : Nat
  k : Nat
  m : CMode
  q : QRec

structure RItC where
  a : Nat
  k : Nat
  rdlen : Nat
  m : CMode
  r : RRec

def QFacts (s : State) (it : QItC) : Prop :=
  Item s it.a it.k ∧ NameIs s it.a it.m it.q.qname ∧
  BytesAt s.octets (it.a + it.k) (u16be it.q.qtype ++ u16be it.q.qclass)

def RFacts (s : State) (it : RItC) : Prop :=
  Item s it.a it.k ∧ NameIs s it.a it.m it.r.owner ∧
  BytesAt s.octets (it.a + it.k) (u16be it.r.ty ++ u16be it.r.cls ++ u32be it.r.ttl) ∧
  be16 s.octets (it.a + it.k + 8) = it.rdlen

def QChainC (s : State) : List QItC → Nat → Nat → Prop
  | [], p, e => p = e
  | it :: r, p, e => it.a = p ∧ QFacts s it ∧ QChainC s r (it.a + it.k + 4) e

def RChainC (s : State) : List RItC → Nat → Nat → Prop
  | [], p, e => p = e
  | it :: r, p, e => it.a = p ∧ RFacts s it ∧ RChainC s r (it.a + it.k + 10 + it.rdlen) e

theorem qchainC_le {s : State} : ∀ {qs : List QItC} {p e : Nat}, QChainC s qs p e → p ≤ e := by
  intro qs
  induction qs with
  | nil => intro p e h; exact Nat.le_of_eq h
  | cons x r ih => intro p e h; obtain ⟨h1, _, h3⟩ := h; have := ih h3; omega

theorem rchainC_le {s : State} : ∀ {rs : List RItC} {p e : Nat}, RChainC s rs p e → p ≤ e := by
  intro rs
  induction rs with
  | nil => intro p e h; exact Nat.le_of_eq h
  | cons x r ih => intro p e h; obtain ⟨h1, _, h3⟩ := h; have := ih h3; omega

theorem qchainC_move {s s' : State} {e lo : Nat}
    (hit : ∀ it : QItC, lo ≤ it.a → it.a + it.k + 4 ≤ e → QFacts s it → QFacts s' it) :
    ∀ {qs : List QItC} {p : Nat}, lo ≤ p → QChainC s qs p e → QChainC s' qs p e := by
  intro qs
  induction qs with
  | nil => intro p _ h; exact h
  | cons x r ih =>
    intro p hp h
    obtain ⟨h1, h2, h3⟩ := h
    exact ⟨h1, hit x (by omega) (qchainC_le h3) h2, ih (by omega) h3⟩

theorem rchainC_move {s s' : State} {e lo : Nat}
    (hit : ∀ it : RItC, lo ≤ it.a → it.a + it.k + 10 ≤ e → RFacts s it → RFacts s' it) :
    ∀ {rs : List RItC} {p : Nat}, lo ≤ p → RChainC s rs p e → RChainC s' rs p e := by
  intro rs
  induction rs with
  | nil => intro p _ h; exact h
  | cons x r ih =>
    intro p hp h
    obtain ⟨h1, h2, h3⟩ := h
    have := rchainC_le h3
    exact ⟨h1, hit x (by omega) (by omega) h2, ih (by omega) h3⟩

theorem qchainC_snoc {s : State} {x : QItC} : ∀ {qs : List QItC} {p : Nat}, QChainC s qs p x.a →
    QFacts s x → QChainC s (qs ++ [x]) p (x.a + x.k + 4) := by
  intro qs
  induction qs with
  | nil => intro p h hi; exact ⟨h.symm, hi, rfl⟩
  | cons y r ih => intro p h hi; obtain ⟨h1, h2, h3⟩ := h; exact ⟨h1, h2, ih h3 hi⟩

theorem rchainC_append {s : State} {m : Nat} : ∀ {rs rs2 : List RItC} {p e : Nat}, RChainC s rs p m →
    RChainC s rs2 m e → RChainC s (rs ++ rs2) p e := by
  intro rs
  induction rs with
  | nil => intro rs2 p e h h2; rw [h]; exact h2
  | cons x r ih => intro rs2 p e h h2; obtain ⟨h1, hi, h3⟩ := h; exact ⟨h1, hi, ih h3 h2⟩

/-! ### facts along state changes -/

theorem qfacts_frame {s s' : State} {it : QItC} {lo : Nat} (h : QFacts s it) (hlo : lo ≤ it.a)
    (hend : it.a + it.k + 4 ≤ s.cursor) (hg12 : ∀ g ∈ s.gLabels, lo ≤ g)
    (hpre : ∀ i, lo ≤ i → i < s.cursor → s'.octets[i]? = s.octets[i]?) (hc : s.cursor ≤ s'.cursor)
    (hg : ∀ g ∈ s.gLabels, g ∈ s'.gLabels) : QFacts s' it := by
  obtain ⟨h1, h2, h3⟩ := h
  refine ⟨item_move (lo := lo) h1 hg12 (fun i a b => hpre i a (by have := h1.2.2; omega)) (by have := h1.2.2; omega)
    (fun g hgm _ => hg g hgm), nameIs_frame h2 hg12 hpre hc hg, ?_⟩
  refine bytesAt_frame h3 (fun i a b => hpre i (by omega) ?_)
  have : (u16be it.q.qtype ++ u16be it.q.qclass).length = 4 := rfl
  omega

theorem rfacts_frame {s s' : State} {it : RItC} {lo : Nat} (h : RFacts s it) (hlo : lo ≤ it.a)
    (hend : it.a + it.k + 10 ≤ s.cursor) (hg12 : ∀ g ∈ s.gLabels, lo ≤ g)
    (hpre : ∀ i, lo ≤ i → i < s.cursor → s'.octets[i]? = s.octets[i]?) (hc : s.cursor ≤ s'.cursor)
    (hg : ∀ g ∈ s.gLabels, g ∈ s'.gLabels) : RFacts s' it := by
  obtain ⟨h1, h2, h3, h4⟩ := h
  refine ⟨item_move (lo := lo) h1 hg12 (fun i a b => hpre i a (by have := h1.2.2; omega)) (by have := h1.2.2; omega)
    (fun g hgm _ => hg g hgm), nameIs_frame h2 hg12 hpre hc hg, ?_, ?_⟩
  · refine bytesAt_frame h3 (fun i a b => hpre i (by omega) ?_)
    have : (u16be it.r.ty ++ u16be it.r.cls ++ u32be it.r.ttl).length = 8 := rfl
    omega
  · rw [← h4]
    exact be16_congr (hpre _ (by omega) (by omega)) (hpre _ (by omega) (by omega))

theorem qfacts_fields {s s' : State} {it : QItC} (h : QFacts s it) (ho : s'.octets = s.octets)
    (hc : s'.cursor = s.cursor) (hg : s'.gLabels = s.gLabels) : QFacts s' it := by
  obtain ⟨h1, h2, h3⟩ := h
  exact ⟨item_fields h1 ho hc hg, nameIs_fields h2 ho hc hg, by rw [ho]; exact h3⟩

theorem rfacts_fields {s s' : State} {it : RItC} (h : RFacts s it) (ho : s'.octets = s.octets)
    (hc : s'.cursor = s.cursor) (hg : s'.gLabels = s.gLabels) : RFacts s' it := by
  obtain ⟨h1, h2, h3, h4⟩ := h
  exact ⟨item_fields h1 ho hc hg, nameIs_fields h2 ho hc hg, by rw [ho]; exact h3, by rw [ho]; exact h4⟩

theorem qchainC_ext {s s' : State} (e : Ext s s') {qs : List QItC} {p f : Nat} (hf : f ≤ s.cursor)
    (h : QChainC s qs p f) : QChainC s' qs p f :=
  qchainC_move (lo := 0) (fun it _ hk hq => qfacts_frame (lo := 0) hq (Nat.zero_le _) (by omega)
    (fun _ _ => Nat.zero_le _) (fun i _ hi => e.pre i hi) e.cur (fun g hg => e.glab g hg)) (Nat.zero_le _) h

theorem rchainC_ext {s s' : State} (e : Ext s s') {rs : List RItC} {p f : Nat} (hf : f ≤ s.cursor)
    (h : RChainC s rs p f) : RChainC s' rs p f :=
  rchainC_move (lo := 0) (fun it _ hk hq => rfacts_frame (lo := 0) hq (Nat.zero_le _) (by omega)
    (fun _ _ => Nat.zero_le _) (fun i _ hi => e.pre i hi) e.cur (fun g hg => e.glab g hg)) (Nat.zero_le _) h

theorem qchainC_fields {s s' : State} (ho : s'.octets = s.octets) (hc : s'.cursor = s.cursor)
    (hg : s'.gLabels = s.gLabels) {qs : List QItC} {p e : Nat} (h : QChainC s qs p e) : QChainC s' qs p e :=
  qchainC_move (lo := 0) (fun _ _ _ hq => qfacts_fields hq ho hc hg) (Nat.zero_le _) h

theorem rchainC_fields {s s' : State} (ho : s'.octets = s.octets) (hc : s'.cursor = s.cursor)
    (hg : s'.gLabels = s.gLabels) {rs : List RItC} {p e : Nat} (h : RChainC s rs p e) : RChainC s' rs p e :=
  rchainC_move (lo := 0) (fun _ _ _ hq => rfacts_fields hq ho hc hg) (Nat.zero_le _) h


/-! ### the invariant -/

/-- **the layout invariant with content**, for every compression mode: `b` = the questions and
    records given by the calls that succeeded -/
structure CLay (s : State) (b : Body) : Prop where
  q : ∃ qs, QChainC s qs 12 s.rrStart ∧ qs.map (·.q) = b.qs
  r : s.cursor ≤ 65535 → ∃ rs, RChainC s rs s.rrStart s.cursor ∧ rs.map (·.r) = b.an ++ b.ns ++ b.ar
  qd : s.qdcount = b.qs.length
  an : s.ancount = b.an.length
  ns : s.nscount = b.ns.length
  ar : s.arcount = b.ar.length + pend s
  sq : s.sect = .question → s.cursor = s.rrStart ∧ b.an = [] ∧ b.ns = [] ∧ b.ar = []
  sa : s.sect = .answer → b.ns = [] ∧ b.ar = []
  su : s.sect = .authority → b.ar = []

theorem clay_rr12 {s : State} {b : Body} (h : CLay s b) : 12 ≤ s.rrStart := by
  obtain ⟨qs, hq, _⟩ := h.q
  exact qchainC_le hq

/-- the layout only depends on the octets from 12 up to the cursor, the cursor, `rr_start`, the
    recorded label starts, the counts and the section -/
theorem clay_congr {s s' : State} {b : Body} (h : CLay s b) (hw : WInv s) (hrr : s.rrStart ≤ s.cursor)
    (hpre : ∀ i, 12 ≤ i → i < s.cursor → s'.octets[i]? = s.octets[i]?)
    (hc : s'.cursor = s.cursor) (hr : s'.rrStart = s.rrStart)
    (hg : ∀ g ∈ s.gLabels, g ∈ s'.gLabels)
    (hqd : s'.qdcount = s.qdcount) (han : s'.ancount = s.ancount) (hns : s'.nscount = s.nscount)
    (har : s'.arcount = s.arcount) (hp : pend s' = pend s) (hs : s'.sect = s.sect) : CLay s' b := by
  have h12 := clay_rr12 h
  refine ⟨?_, ?_, by rw [hqd]; exact h.qd, by rw [han]; exact h.an, by rw [hns]; exact h.ns,
    by rw [har, hp]; exact h.ar, by rw [hs, hc, hr]; exact h.sq, by rw [hs]; exact h.sa, by rw [hs]; exact h.su⟩
  · obtain ⟨qs, h1, h2⟩ := h.q
    refine ⟨qs, ?_, h2⟩
    rw [hr]
    exact qchainC_move (lo := 12) (fun it hlo hk hq => qfacts_frame (lo := 12) hq hlo (by omega) hw.g12 hpre
      (by omega) hg) (Nat.le_refl _) h1
  · intro hle
    rw [hc] at hle
    obtain ⟨rs, h1, h2⟩ := h.r hle
    refine ⟨rs, ?_, h2⟩
    rw [hr, hc]
    exact rchainC_move (lo := 12) (fun it hlo hk hq => rfacts_frame (lo := 12) hq hlo hk hw.g12 hpre
      (by omega) hg) h12 h1

theorem clay_hdrOnly {s s' : State} {b : Body} (h : CLay s b) (hI : I s) (k : HdrOnly s s') : CLay s' b :=
  clay_congr h hI.winv hI.inv.rr_hi (fun i hi _ => k.pre i hi) k.cursor k.rrStart
    (fun g hg => by rw [k.gl]; exact hg) k.qd k.an k.ns k.ar (pend_of_isSome k.edns k.tsig) k.sect

theorem clay_same {s s' : State} {b : Body} (h : CLay s b) (hI : I s) (e : Same s s') : CLay s' b :=
  clay_congr h hI.winv hI.inv.rr_hi (fun i _ hi => e.pre i hi) e.cursor e.rrStart
    (fun g hg => by rw [e.gLabels]; exact hg) e.qd e.an e.ns e.ar
    (by unfold pend; rw [e.edns, e.tsig]) e.sect

/-- records appended to a laid-out message -/
theorem clay_add_records {s s0 s1 s' : State} {b : Body} {sec : RrSection} {recs : List RRec}
    (h : CLay s b) (hcs : changeSection sec s = (.ok (), s0)) (e : Ext s s1)
    (hch : s1.cursor ≤ 65535 → ∃ its, RChainC s1 its s.cursor s1.cursor ∧ its.map (·.r) = recs)
    (hs' : s' = (setCount sec (getCount sec s1 + recs.length) s1).2) (hsect : s1.sect = toSect sec)
    (hrr : s.rrStart ≤ s.cursor) : CLay s' (b.add sec recs) := by
  obtain ⟨_, hA, hB⟩ := changeSection_ok_inv sec s s0 hcs
  have hp1 : pend s1 = pend s := by unfold pend; rw [e.edns, e.tsig]
  have ho : s'.octets = s1.octets := by rw [hs']; cases sec <;> rfl
  have hc : s'.cursor = s1.cursor := by rw [hs']; cases sec <;> rfl
  have hg : s'.gLabels = s1.gLabels := by rw [hs']; cases sec <;> rfl
  have hr : s'.rrStart = s1.rrStart := by rw [hs']; cases sec <;> rfl
  have hsc : s'.sect = toSect sec := by rw [hs', ← hsect]; cases sec <;> rfl
  have hp : pend s' = pend s := by rw [hs', pend_setCount, hp1]
  -- later sections are empty
  have hlater : (b.add sec recs).an ++ (b.add sec recs).ns ++ (b.add sec recs).ar = b.an ++ b.ns ++ b.ar ++ recs := by
    cases sec with
    | answer =>
      have : b.ns = [] ∧ b.ar = [] := by
        rcases hA rfl with h1 | h1
        · exact ⟨(h.sq h1).2.2.1, (h.sq h1).2.2.2⟩
        · exact h.sa h1
      simp [Body.add, this.1, this.2]
    | authority =>
      have : b.ar = [] := by
        have hne := hB rfl
        cases hsx : s.sect with
        | question => exact (h.sq hsx).2.2.2
        | answer => exact (h.sa hsx).2
        | authority => exact h.su hsx
        | additional => exact absurd hsx hne
      simp [Body.add, this]
    | additional => simp [Body.add]
  refine ⟨?_, ?_, ?_, ?_, ?_, ?_, ?_, ?_, ?_⟩
  · obtain ⟨qs, h1, h2⟩ := h.q
    refine ⟨qs, ?_, by cases sec <;> exact h2⟩
    rw [hr, e.rrStart]
    exact qchainC_fields ho hc hg (qchainC_ext e hrr h1)
  · intro hle
    rw [hc] at hle
    have hle0 : s.cursor ≤ 65535 := by have := e.cur; omega
    obtain ⟨rs, h1, h2⟩ := h.r hle0
    obtain ⟨its, h3, h4⟩ := hch hle
    refine ⟨rs ++ its, ?_, by rw [List.map_append, h2, h4, hlater]⟩
    rw [hr, hc, e.rrStart]
    exact rchainC_fields ho hc hg (rchainC_append (rchainC_ext e (Nat.le_refl _) h1) h3)
  · rw [hs']; cases sec <;> (show s1.qdcount = _; rw [e.qd]; exact h.qd)
  · rw [hs']
    cases sec with
    | answer => show getCount .answer s1 + recs.length = (b.an ++ recs).length; rw [List.length_append]; show s1.ancount + _ = _; rw [e.an, h.an]
    | authority => show s1.ancount = _; rw [e.an]; exact h.an
    | additional => show s1.ancount = _; rw [e.an]; exact h.an
  · rw [hs']
    cases sec with
    | answer => show s1.nscount = _; rw [e.ns]; exact h.ns
    | authority => show getCount .authority s1 + recs.length = (b.ns ++ recs).length; rw [List.length_append]; show s1.nscount + _ = _; rw [e.ns, h.ns]
    | additional => show s1.nscount = _; rw [e.ns]; exact h.ns
  · rw [hp]
    rw [hs']
    cases sec with
    | answer => show s1.arcount = _; rw [e.ar]; exact h.ar
    | authority => show s1.arcount = _; rw [e.ar]; exact h.ar
    | additional =>
      show getCount .additional s1 + recs.length = (b.ar ++ recs).length + _
      rw [List.length_append]; show s1.arcount + _ = _; rw [e.ar, h.ar]; omega
  · intro hq; rw [hsc] at hq; cases sec <;> cases hq
  · intro hq
    rw [hsc] at hq
    cases sec with
    | answer =>
      have : b.ns = [] ∧ b.ar = [] := by
        rcases hA rfl with h1 | h1
        · exact ⟨(h.sq h1).2.2.1, (h.sq h1).2.2.2⟩
        · exact h.sa h1
      exact this
    | authority => cases hq
    | additional => cases hq
  · intro hq
    rw [hsc] at hq
    cases sec with
    | answer => cases hq
    | authority =>
      have hne := hB rfl
      cases hsx : s.sect with
      | question => exact (h.sq hsx).2.2.2
      | answer => exact (h.sa hsx).2
      | authority => exact h.su hsx
      | additional => exact absurd hsx hne
    | additional => cases hq

end QV.Writer
