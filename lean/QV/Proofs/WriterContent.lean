/-
  QV.Proofs.WriterContent — the layout invariant of the writer in every compression mode, with
  content (`CLay`): the chain items of `QV.Proofs.WriterShape` carry the question / record that was
  given, the name stored at the item matches the name given (as names are compared in the mode in
  effect when it was written), and the fixed fields are those given.
-/
import QV.Proofs.WriterShapeRun
import QV.Proofs.WriterRdPos

namespace QV.Writer
open QV QV.Wire QV.Spec QV.ServerSafety

variable {P : CMode → Prop}

structure QItC where
  a : Nat
  k : Nat
  m : CMode
  q : QRec

structure RItC where
  a : Nat
  k : Nat
  rdlen : Nat
  m : CMode
  r : RRec
  /-- where the names inside the RDATA start -/
  ps : List Nat

def QFacts (s : State) (it : QItC) : Prop :=
  Item s it.a it.k ∧ NameIs s it.a it.m it.q.qname ∧
  BytesAt s.octets (it.a + it.k) (u16be it.q.qtype ++ u16be it.q.qclass)

def RFacts (s : State) (it : RItC) : Prop :=
  Item s it.a it.k ∧ NameIs s it.a it.m it.r.owner ∧
  BytesAt s.octets (it.a + it.k) (u16be it.r.ty ++ u16be it.r.cls ++ u32be it.r.ttl) ∧
  be16 s.octets (it.a + it.k + 8) = it.rdlen ∧
  ∃ ts, componentTypes it.r.cls it.r.ty = some ts ∧
    RdAt s it.m ts it.r.rdata (it.a + it.k + 10) (it.a + it.k + 10 + it.rdlen) it.ps

def QChainC (s : State) : List QItC → Nat → Nat → Prop
  | [], p, e => p = e
  | it :: r, p, e => it.a = p ∧ QFacts s it ∧ QChainC s r (it.a + it.k + 4) e

def RChainC (s : State) : List RItC → Nat → Nat → Prop
  | [], p, e => p = e
  | it :: r, p, e => it.a = p ∧ RFacts s it ∧ RChainC s r (it.a + it.k + 10 + it.rdlen) e

theorem qchainC_le {s : State} : ∀ {qs : List QItC} {p e : Nat}, QChainC s qs p e → p ≤ e := by
  intro qs
  induction qs with
  | nil => intro p e h; exact Nat.le_of_eq h
  | cons x r ih => intro p e h; obtain ⟨h1, _, h3⟩ := h; have := ih h3; omega

theorem rchainC_le {s : State} : ∀ {rs : List RItC} {p e : Nat}, RChainC s rs p e → p ≤ e := by
  intro rs
  induction rs with
  | nil => intro p e h; exact Nat.le_of_eq h
  | cons x r ih => intro p e h; obtain ⟨h1, _, h3⟩ := h; have := ih h3; omega

theorem qchainC_move {s s' : State} {e lo : Nat}
    (hit : ∀ it : QItC, lo ≤ it.a → it.a + it.k + 4 ≤ e → QFacts s it → QFacts s' it) :
    ∀ {qs : List QItC} {p : Nat}, lo ≤ p → QChainC s qs p e → QChainC s' qs p e := by
  intro qs
  induction qs with
  | nil => intro p _ h; exact h
  | cons x r ih =>
    intro p hp h
    obtain ⟨h1, h2, h3⟩ := h
    exact ⟨h1, hit x (by omega) (qchainC_le h3) h2, ih (by omega) h3⟩

theorem rchainC_move {s s' : State} {e lo : Nat}
    (hit : ∀ it : RItC, lo ≤ it.a → it.a + it.k + 10 + it.rdlen ≤ e → RFacts s it → RFacts s' it) :
    ∀ {rs : List RItC} {p : Nat}, lo ≤ p → RChainC s rs p e → RChainC s' rs p e := by
  intro rs
  induction rs with
  | nil => intro p _ h; exact h
  | cons x r ih =>
    intro p hp h
    obtain ⟨h1, h2, h3⟩ := h
    have := rchainC_le h3
    exact ⟨h1, hit x (by omega) (by omega) h2, ih (by omega) h3⟩

theorem qchainC_snoc {s : State} {x : QItC} : ∀ {qs : List QItC} {p : Nat}, QChainC s qs p x.a →
    QFacts s x → QChainC s (qs ++ [x]) p (x.a + x.k + 4) := by
  intro qs
  induction qs with
  | nil => intro p h hi; exact ⟨h.symm, hi, rfl⟩
  | cons y r ih => intro p h hi; obtain ⟨h1, h2, h3⟩ := h; exact ⟨h1, h2, ih h3 hi⟩

theorem rchainC_append {s : State} {m : Nat} : ∀ {rs rs2 : List RItC} {p e : Nat}, RChainC s rs p m →
    RChainC s rs2 m e → RChainC s (rs ++ rs2) p e := by
  intro rs
  induction rs with
  | nil => intro rs2 p e h h2; rw [h]; exact h2
  | cons x r ih => intro rs2 p e h h2; obtain ⟨h1, hi, h3⟩ := h; exact ⟨h1, hi, ih h3 h2⟩

/-! ### facts along state changes -/

theorem qfacts_frame {s s' : State} {it : QItC} {lo : Nat} (h : QFacts s it) (hlo : lo ≤ it.a)
    (hend : it.a + it.k + 4 ≤ s.cursor) (hg12 : ∀ g ∈ s.gLabels, lo ≤ g)
    (hpre : ∀ i, lo ≤ i → i < s.cursor → s'.octets[i]? = s.octets[i]?) (hc : s.cursor ≤ s'.cursor)
    (hg : ∀ g ∈ s.gLabels, g ∈ s'.gLabels) : QFacts s' it := by
  obtain ⟨h1, h2, h3⟩ := h
  refine ⟨item_move (lo := lo) h1 hg12 (fun i a b => hpre i a (by have := h1.2.2; omega)) (by have := h1.2.2; omega)
    (fun g hgm _ => hg g hgm), nameIs_frame h2 hg12 hpre hc hg, ?_⟩
  refine bytesAt_frame h3 (fun i a b => hpre i (by omega) ?_)
  have : (u16be it.q.qtype ++ u16be it.q.qclass).length = 4 := rfl
  omega

theorem rfacts_frame {s s' : State} {it : RItC} {lo : Nat} (h : RFacts s it) (hlo : lo ≤ it.a)
    (hend : it.a + it.k + 10 + it.rdlen ≤ s.cursor) (hg12 : ∀ g ∈ s.gLabels, lo ≤ g)
    (hpre : ∀ i, lo ≤ i → i < s.cursor → s'.octets[i]? = s.octets[i]?) (hc : s.cursor ≤ s'.cursor)
    (hg : ∀ g ∈ s.gLabels, g ∈ s'.gLabels) : RFacts s' it := by
  obtain ⟨h1, h2, h3, h4, ts, hct, h5⟩ := h
  refine ⟨item_move (lo := lo) h1 hg12 (fun i a b => hpre i a (by have := h1.2.2; omega)) (by have := h1.2.2; omega)
    (fun g hgm _ => hg g hgm), nameIs_frame h2 hg12 hpre hc hg, ?_, ?_,
    ts, hct, rdAt_frame h5 (by omega) hend hg12 hpre hc hg⟩
  · refine bytesAt_frame h3 (fun i a b => hpre i (by omega) ?_)
    have : (u16be it.r.ty ++ u16be it.r.cls ++ u32be it.r.ttl).length = 8 := rfl
    omega
  · rw [← h4]
    exact be16_congr (hpre _ (by omega) (by omega)) (hpre _ (by omega) (by omega))

theorem qfacts_fields {s s' : State} {it : QItC} (h : QFacts s it) (ho : s'.octets = s.octets)
    (hc : s'.cursor = s.cursor) (hg : s'.gLabels = s.gLabels) : QFacts s' it := by
  obtain ⟨h1, h2, h3⟩ := h
  exact ⟨item_fields h1 ho hc hg, nameIs_fields h2 ho hc hg, by rw [ho]; exact h3⟩

theorem rfacts_fields {s s' : State} {it : RItC} (h : RFacts s it) (ho : s'.octets = s.octets)
    (hc : s'.cursor = s.cursor) (hg : s'.gLabels = s.gLabels) : RFacts s' it := by
  obtain ⟨h1, h2, h3, h4, ts, hct, h5⟩ := h
  exact ⟨item_fields h1 ho hc hg, nameIs_fields h2 ho hc hg, by rw [ho]; exact h3, by rw [ho]; exact h4,
    ts, hct, rdAt_fields h5 ho hc hg⟩

theorem qchainC_ext {s s' : State} (e : Ext s s') {qs : List QItC} {p f : Nat} (hf : f ≤ s.cursor)
    (h : QChainC s qs p f) : QChainC s' qs p f :=
  qchainC_move (lo := 0) (fun it _ hk hq => qfacts_frame (lo := 0) hq (Nat.zero_le _) (by omega)
    (fun _ _ => Nat.zero_le _) (fun i _ hi => e.pre i hi) e.cur (fun g hg => e.glab g hg)) (Nat.zero_le _) h

theorem rchainC_ext {s s' : State} (e : Ext s s') {rs : List RItC} {p f : Nat} (hf : f ≤ s.cursor)
    (h : RChainC s rs p f) : RChainC s' rs p f :=
  rchainC_move (lo := 0) (fun it _ hk hq => rfacts_frame (lo := 0) hq (Nat.zero_le _) (by omega)
    (fun _ _ => Nat.zero_le _) (fun i _ hi => e.pre i hi) e.cur (fun g hg => e.glab g hg)) (Nat.zero_le _) h

theorem qchainC_fields {s s' : State} (ho : s'.octets = s.octets) (hc : s'.cursor = s.cursor)
    (hg : s'.gLabels = s.gLabels) {qs : List QItC} {p e : Nat} (h : QChainC s qs p e) : QChainC s' qs p e :=
  qchainC_move (lo := 0) (fun _ _ _ hq => qfacts_fields hq ho hc hg) (Nat.zero_le _) h

theorem rchainC_fields {s s' : State} (ho : s'.octets = s.octets) (hc : s'.cursor = s.cursor)
    (hg : s'.gLabels = s.gLabels) {rs : List RItC} {p e : Nat} (h : RChainC s rs p e) : RChainC s' rs p e :=
  rchainC_move (lo := 0) (fun _ _ _ hq => rfacts_fields hq ho hc hg) (Nat.zero_le _) h


/-! ### the recorded label starts belong to the names of the chains -/

/-- every recorded label start below `rr_start` is the first octet of a label of a question name -/
def QLab (s : State) (qs : List QItC) : Prop :=
  ∀ g ∈ s.gLabels, g < s.rrStart → ∃ it ∈ qs, PhysLab s.octets it.a g

/-- every recorded label start from `rr_start` on is the first octet of a label of the owner of a
    record or of a name inside its RDATA -/
def RLab (s : State) (rs : List RItC) : Prop :=
  ∀ g ∈ s.gLabels, s.rrStart ≤ g → ∃ it ∈ rs, ∃ a ∈ it.a :: it.ps, PhysLab s.octets a g

theorem qchainC_mem {s : State} : ∀ {qs : List QItC} {p e : Nat}, QChainC s qs p e → ∀ it ∈ qs,
    p ≤ it.a ∧ QFacts s it ∧ it.a + it.k + 4 ≤ e := by
  intro qs
  induction qs with
  | nil => intro p e _ it hx; cases hx
  | cons x r ih =>
    intro p e h it hx
    obtain ⟨h1, h2, h3⟩ := h
    rcases List.mem_cons.mp hx with rfl | hx
    · exact ⟨by omega, h2, qchainC_le h3⟩
    · obtain ⟨a1, a2, a3⟩ := ih h3 it hx
      exact ⟨by omega, a2, a3⟩

theorem rchainC_mem {s : State} : ∀ {rs : List RItC} {p e : Nat}, RChainC s rs p e → ∀ it ∈ rs,
    p ≤ it.a ∧ RFacts s it ∧ it.a + it.k + 10 + it.rdlen ≤ e := by
  intro rs
  induction rs with
  | nil => intro p e _ it hx; cases hx
  | cons x r ih =>
    intro p e h it hx
    obtain ⟨h1, h2, h3⟩ := h
    rcases List.mem_cons.mp hx with rfl | hx
    · exact ⟨by omega, h2, rchainC_le h3⟩
    · obtain ⟨a1, a2, a3⟩ := ih h3 it hx
      exact ⟨by omega, a2, a3⟩

/-- at every name position of a record a name chunk lies, inside the record -/
theorem rfacts_chunk {s : State} {it : RItC} (h : RFacts s it) : ∀ a ∈ it.a :: it.ps,
    it.a ≤ a ∧ ∃ k, ChunkAt s.octets a k ∧ a + k ≤ it.a + it.k + 10 + it.rdlen := by
  intro a ha
  obtain ⟨h1, _, _, _, ts, _, h5⟩ := h
  rcases List.mem_cons.mp ha with rfl | ha
  · exact ⟨Nat.le_refl _, it.k, h1.2.1, by omega⟩
  · obtain ⟨h6, h7⟩ := rdAt_chunk h5 a ha
    exact ⟨by omega, h7⟩

theorem qlab_move {s s' : State} {qs : List QItC} {p e : Nat} (hch : QChainC s qs p e)
    (hpre : ∀ i, p ≤ i → i < e → s'.octets[i]? = s.octets[i]?)
    (hg : ∀ g ∈ s'.gLabels, g < s'.rrStart → g ∈ s.gLabels ∧ g < s.rrStart) (h : QLab s qs) : QLab s' qs := by
  intro g hg1 hg2
  obtain ⟨a1, a2⟩ := hg g hg1 hg2
  obtain ⟨it, hit, hp⟩ := h g a1 a2
  obtain ⟨b1, b2, b3⟩ := qchainC_mem hch it hit
  exact ⟨it, hit, physLab_frame b2.1.2.1 hp (fun i c1 c2 => hpre i (by omega) (by omega))⟩

theorem rlab_move {s s' : State} {rs : List RItC} {p e : Nat} (hch : RChainC s rs p e)
    (hpre : ∀ i, p ≤ i → i < e → s'.octets[i]? = s.octets[i]?)
    (hg : ∀ g ∈ s'.gLabels, s'.rrStart ≤ g → g ∈ s.gLabels ∧ s.rrStart ≤ g) (h : RLab s rs) : RLab s' rs := by
  intro g hg1 hg2
  obtain ⟨a1, a2⟩ := hg g hg1 hg2
  obtain ⟨it, hit, a, ha, hp⟩ := h g a1 a2
  obtain ⟨b1, b2, b3⟩ := rchainC_mem hch it hit
  obtain ⟨c0, k, c1, c2⟩ := rfacts_chunk b2 a ha
  exact ⟨it, hit, a, ha, physLab_frame c1 hp (fun i d1 d2 => hpre i (by omega) (by omega))⟩

theorem qlab_fields {s s' : State} {qs : List QItC} (ho : s'.octets = s.octets) (hg : s'.gLabels = s.gLabels)
    (hr : s'.rrStart = s.rrStart) (h : QLab s qs) : QLab s' qs := by
  unfold QLab; rw [ho, hg, hr]; exact h

theorem rlab_fields {s s' : State} {rs : List RItC} (ho : s'.octets = s.octets) (hg : s'.gLabels = s.gLabels)
    (hr : s'.rrStart = s.rrStart) (h : RLab s rs) : RLab s' rs := by
  unfold RLab; rw [ho, hg, hr]; exact h

/-! ### the invariant -/

/-- **the layout invariant with content**, for every compression mode: `b` = the questions and
    records given by the calls that succeeded -/
structure MBody where
  qs : List CMode := []
  an : List CMode := []
  ns : List CMode := []
  ar : List CMode := []

def MBody.add (mb : MBody) (sec : RrSection) (ms : List CMode) : MBody :=
  match sec with
  | .answer => { mb with an := mb.an ++ ms }
  | .authority => { mb with ns := mb.ns ++ ms }
  | .additional => { mb with ar := mb.ar ++ ms }

/-- `mb`: the compression mode in effect when each question / record was written -/
structure CLay (P : CMode → Prop) (s : State) (b : Body) (mb : MBody) : Prop where
  q : ∃ qs, QChainC s qs 12 s.rrStart ∧ qs.map (·.q) = b.qs ∧ (∀ it ∈ qs, P it.m) ∧ qs.map (·.m) = mb.qs ∧
    QLab s qs
  r : s.cursor ≤ 65535 → ∃ rs, RChainC s rs s.rrStart s.cursor ∧ rs.map (·.r) = b.an ++ b.ns ++ b.ar ∧
    (∀ it ∈ rs, P it.m) ∧ rs.map (·.m) = mb.an ++ mb.ns ++ mb.ar ∧ RLab s rs
  qd : s.qdcount = b.qs.length
  an : s.ancount = b.an.length
  ns : s.nscount = b.ns.length
  ar : s.arcount = b.ar.length + pend s
  sq : s.sect = .question → s.cursor = s.rrStart ∧ b.an = [] ∧ b.ns = [] ∧ b.ar = []
  sa : s.sect = .answer → b.ns = [] ∧ b.ar = []
  su : s.sect = .authority → b.ar = []
  /-- the mode in effect is one of the modes of the session -/
  pm : P s.mode
  ml : mb.an.length = b.an.length ∧ mb.ns.length = b.ns.length ∧ mb.ar.length = b.ar.length

theorem clay_rr12 {s : State} {b : Body} {mb : MBody} (h : CLay P s b mb) : 12 ≤ s.rrStart := by
  obtain ⟨qs, hq, _⟩ := h.q
  exact qchainC_le hq

/-- the layout only depends on the octets from 12 up to the cursor, the cursor, `rr_start`, the
    recorded label starts, the counts and the section -/
theorem clay_congr {s s' : State} {b : Body} {mb : MBody} (h : CLay P s b mb) (hw : WInv s) (hrr : s.rrStart ≤ s.cursor)
    (hpre : ∀ i, 12 ≤ i → i < s.cursor → s'.octets[i]? = s.octets[i]?)
    (hc : s'.cursor = s.cursor) (hr : s'.rrStart = s.rrStart)
    (hg : s'.gLabels = s.gLabels)
    (hqd : s'.qdcount = s.qdcount) (han : s'.ancount = s.ancount) (hns : s'.nscount = s.nscount)
    (har : s'.arcount = s.arcount) (hp : pend s' = pend s) (hs : s'.sect = s.sect)
    (hmode : s'.mode = s.mode) : CLay P s' b mb := by
  have h12 := clay_rr12 h
  refine ⟨?_, ?_, by rw [hqd]; exact h.qd, by rw [han]; exact h.an, by rw [hns]; exact h.ns,
    by rw [har, hp]; exact h.ar, by rw [hs, hc, hr]; exact h.sq, by rw [hs]; exact h.sa, by rw [hs]; exact h.su,
    by rw [hmode]; exact h.pm, h.ml⟩
  · obtain ⟨qs, h1, h2, h3, h4, h5⟩ := h.q
    refine ⟨qs, ?_, h2, h3, h4, qlab_move h1 (fun i a b => hpre i a (by omega))
      (fun g a b => by rw [hg] at a; rw [hr] at b; exact ⟨a, b⟩) h5⟩
    rw [hr]
    exact qchainC_move (lo := 12) (fun it hlo hk hq => qfacts_frame (lo := 12) hq hlo (by omega) hw.g12 hpre
      (by omega) (fun g a => by rw [hg]; exact a)) (Nat.le_refl _) h1
  · intro hle
    rw [hc] at hle
    obtain ⟨rs, h1, h2, h3, h4, h5⟩ := h.r hle
    refine ⟨rs, ?_, h2, h3, h4, rlab_move h1 (fun i a b => hpre i (by omega) b)
      (fun g a b => by rw [hg] at a; rw [hr] at b; exact ⟨a, b⟩) h5⟩
    rw [hr, hc]
    exact rchainC_move (lo := 12) (fun it hlo hk hq => rfacts_frame (lo := 12) hq hlo hk hw.g12 hpre
      (by omega) (fun g a => by rw [hg]; exact a)) h12 h1

theorem clay_hdrOnly {s s' : State} {b : Body} {mb : MBody} (h : CLay P s b mb) (hI : I s) (k : HdrOnly s s') : CLay P s' b mb :=
  clay_congr h hI.winv hI.inv.rr_hi (fun i hi _ => k.pre i hi) k.cursor k.rrStart
    k.gl k.qd k.an k.ns k.ar (pend_of_isSome k.edns k.tsig) k.sect k.mode

theorem clay_same {s s' : State} {b : Body} {mb : MBody} (h : CLay P s b mb) (hI : I s) (e : Same s s') : CLay P s' b mb :=
  clay_congr h hI.winv hI.inv.rr_hi (fun i _ hi => e.pre i hi) e.cursor e.rrStart
    e.gLabels e.qd e.an e.ns e.ar
    (by unfold pend; rw [e.edns, e.tsig]) e.sect e.mode

/-- records appended to a laid-out message -/
theorem clay_add_records {s s0 s1 s' : State} {b : Body} {mb : MBody} {sec : RrSection} {recs : List RRec}
    (h : CLay P s b mb) (hcs : changeSection sec s = (.ok (), s0)) (e : Ext s s1)
    (hch : s1.cursor ≤ 65535 → ∃ its, RChainC s1 its s.cursor s1.cursor ∧ its.map (·.r) = recs ∧
      (∀ it ∈ its, it.m = s.mode) ∧
      (∀ g ∈ s1.gLabels, g ∈ s.gLabels ∨ ∃ it ∈ its, ∃ a ∈ it.a :: it.ps, PhysLab s1.octets a g))
    (hs' : s' = (setCount sec (getCount sec s1 + recs.length) s1).2) (hsect : s1.sect = toSect sec)
    (hrr : s.rrStart ≤ s.cursor) (ms : List CMode) (hms : ms = List.replicate recs.length s.mode) :
    CLay P s' (b.add sec recs) (mb.add sec ms) := by
  subst hms
  obtain ⟨_, hA, hB⟩ := changeSection_ok_inv sec s s0 hcs
  have hp1 : pend s1 = pend s := by unfold pend; rw [e.edns, e.tsig]
  have ho : s'.octets = s1.octets := by rw [hs']; cases sec <;> rfl
  have hc : s'.cursor = s1.cursor := by rw [hs']; cases sec <;> rfl
  have hg : s'.gLabels = s1.gLabels := by rw [hs']; cases sec <;> rfl
  have hr : s'.rrStart = s1.rrStart := by rw [hs']; cases sec <;> rfl
  have hsc : s'.sect = toSect sec := by rw [hs', ← hsect]; cases sec <;> rfl
  have hp : pend s' = pend s := by rw [hs', pend_setCount, hp1]
  -- later sections are empty
  have hlater : (b.add sec recs).an ++ (b.add sec recs).ns ++ (b.add sec recs).ar = b.an ++ b.ns ++ b.ar ++ recs := by
    cases sec with
    | answer =>
      have : b.ns = [] ∧ b.ar = [] := by
        rcases hA rfl with h1 | h1
        · exact ⟨(h.sq h1).2.2.1, (h.sq h1).2.2.2⟩
        · exact h.sa h1
      simp [Body.add, this.1, this.2]
    | authority =>
      have : b.ar = [] := by
        have hne := hB rfl
        cases hsx : s.sect with
        | question => exact (h.sq hsx).2.2.2
        | answer => exact (h.sa hsx).2
        | authority => exact h.su hsx
        | additional => exact absurd hsx hne
      simp [Body.add, this]
    | additional => simp [Body.add]
  have hmd : s'.mode = s.mode := by
    rw [hs', ← e.mode]; cases sec <;> rfl
  obtain ⟨ml1, ml2, ml3⟩ := h.ml
  have hnil : ∀ {l : List CMode} {l' : List RRec}, l.length = l'.length → l' = [] → l = [] := by
    intro l l' hl hn; rw [hn] at hl; exact List.eq_nil_of_length_eq_zero hl
  have hmlater : ∀ ms, (mb.add sec ms).an ++ (mb.add sec ms).ns ++ (mb.add sec ms).ar =
      mb.an ++ mb.ns ++ mb.ar ++ ms := by
    intro ms
    cases sec with
    | answer =>
      have : b.ns = [] ∧ b.ar = [] := by
        rcases hA rfl with h1 | h1
        · exact ⟨(h.sq h1).2.2.1, (h.sq h1).2.2.2⟩
        · exact h.sa h1
      simp [MBody.add, hnil ml2 this.1, hnil ml3 this.2]
    | authority =>
      have : b.ar = [] := by
        have hne := hB rfl
        cases hsx : s.sect with
        | question => exact (h.sq hsx).2.2.2
        | answer => exact (h.sa hsx).2
        | authority => exact h.su hsx
        | additional => exact absurd hsx hne
      simp [MBody.add, hnil ml3 this]
    | additional => simp [MBody.add]
  refine ⟨?_, ?_, ?_, ?_, ?_, ?_, ?_, ?_, ?_, by rw [hmd]; exact h.pm, ?_⟩
  · obtain ⟨qs, h1, h2, hP, hM, hJ⟩ := h.q
    refine ⟨qs, ?_, by cases sec <;> exact h2, hP, by cases sec <;> exact hM, ?_⟩
    · rw [hr, e.rrStart]
      exact qchainC_fields ho hc hg (qchainC_ext e hrr h1)
    · refine qlab_move h1 (fun i _ b => by rw [ho]; exact e.pre i (by omega)) (fun g a b => ?_) hJ
      rw [hg] at a
      rw [hr, e.rrStart] at b
      rcases e.gnew g a with a1 | a1
      · exact ⟨a1, b⟩
      · omega
  · intro hle
    rw [hc] at hle
    have hle0 : s.cursor ≤ 65535 := by have := e.cur; omega
    obtain ⟨rs, h1, h2, hP, hM, hJ⟩ := h.r hle0
    obtain ⟨its, h3, h4, hP2, hJ2⟩ := hch hle
    refine ⟨rs ++ its, ?_, by rw [List.map_append, h2, h4, hlater], fun it hx => ?_, ?_, ?lab⟩
    case lab =>
      intro g a b
      rw [hg] at a
      rw [hr, e.rrStart] at b
      rw [ho]
      rcases hJ2 g a with a1 | ⟨it, a1, a2⟩
      · obtain ⟨it, b1, x, b2, b3⟩ := hJ g a1 b
        obtain ⟨c1, c2, c3⟩ := rchainC_mem h1 it b1
        obtain ⟨d0, k, d1, d2⟩ := rfacts_chunk c2 x b2
        exact ⟨it, List.mem_append_left _ b1, x, b2, physLab_frame d1 b3 (fun i _ f2 => e.pre i (by omega))⟩
      · exact ⟨it, List.mem_append_right _ a1, a2⟩
    · rw [hr, hc, e.rrStart]
      exact rchainC_fields ho hc hg (rchainC_append (rchainC_ext e (Nat.le_refl _) h1) h3)
    · rcases List.mem_append.mp hx with hx | hx
      · exact hP it hx
      · rw [hP2 it hx]; exact h.pm
    · rw [List.map_append, hM, hmlater]
      congr 1
      have hl : its.length = recs.length := by rw [← h4, List.length_map]
      rw [← hl]
      clear h3 h4 hl hJ2
      induction its with
      | nil => rfl
      | cons x xs ih =>
        rw [List.map_cons, List.length_cons, List.replicate_succ, hP2 x List.mem_cons_self,
          ih (fun it hx => hP2 it (List.mem_cons_of_mem _ hx))]
  · rw [hs']; cases sec <;> (show s1.qdcount = _; rw [e.qd]; exact h.qd)
  · rw [hs']
    cases sec with
    | answer => show getCount .answer s1 + recs.length = (b.an ++ recs).length; rw [List.length_append]; show s1.ancount + _ = _; rw [e.an, h.an]
    | authority => show s1.ancount = _; rw [e.an]; exact h.an
    | additional => show s1.ancount = _; rw [e.an]; exact h.an
  · rw [hs']
    cases sec with
    | answer => show s1.nscount = _; rw [e.ns]; exact h.ns
    | authority => show getCount .authority s1 + recs.length = (b.ns ++ recs).length; rw [List.length_append]; show s1.nscount + _ = _; rw [e.ns, h.ns]
    | additional => show s1.nscount = _; rw [e.ns]; exact h.ns
  · rw [hp]
    rw [hs']
    cases sec with
    | answer => show s1.arcount = _; rw [e.ar]; exact h.ar
    | authority => show s1.arcount = _; rw [e.ar]; exact h.ar
    | additional =>
      show getCount .additional s1 + recs.length = (b.ar ++ recs).length + _
      rw [List.length_append]; show s1.arcount + _ = _; rw [e.ar, h.ar]; omega
  · intro hq; rw [hsc] at hq; cases sec <;> cases hq
  · intro hq
    rw [hsc] at hq
    cases sec with
    | answer =>
      have : b.ns = [] ∧ b.ar = [] := by
        rcases hA rfl with h1 | h1
        · exact ⟨(h.sq h1).2.2.1, (h.sq h1).2.2.2⟩
        · exact h.sa h1
      exact this
    | authority => cases hq
    | additional => cases hq
  · intro hq
    rw [hsc] at hq
    cases sec with
    | answer => cases hq
    | authority =>
      have hne := hB rfl
      cases hsx : s.sect with
      | question => exact (h.sq hsx).2.2.2
      | answer => exact (h.sa hsx).2
      | authority => exact h.su hsx
      | additional => exact absurd hsx hne
    | additional => cases hq
  · cases sec <;> simp [MBody.add, Body.add, ml1, ml2, ml3]


/-! ### records -/

theorem rchainC_one {s s' : State} {k : Nat} {m : CMode} {r : RRec} {ts : List CompType} {ps : List Nat}
    (hit : Item s' s.cursor k)
    (hnm : NameIs s' s.cursor m r.owner)
    (hf : BytesAt s'.octets (s.cursor + k) (u16be r.ty ++ u16be r.cls ++ u32be r.ttl))
    (hlen : s.cursor + k + 10 ≤ s'.cursor)
    (hb : be16 s'.octets (s.cursor + k + 8) = (s'.cursor - (s.cursor + k + 10)) % 65536)
    (hle : s'.cursor ≤ 65535) (hct : componentTypes r.cls r.ty = some ts)
    (hrd : RdAt s' m ts r.rdata (s.cursor + k + 10) s'.cursor ps) :
    RChainC s' [⟨s.cursor, k, s'.cursor - (s.cursor + k + 10), m, r, ps⟩] s.cursor s'.cursor := by
  refine ⟨rfl, ⟨hit, hnm, hf, ?_, ts, hct, ?_⟩, ?_⟩
  · show be16 s'.octets (s.cursor + k + 8) = _
    rw [hb, Nat.mod_eq_of_lt (by omega)]
  · show RdAt s' m ts r.rdata (s.cursor + k + 10) (s.cursor + k + 10 + (s'.cursor - (s.cursor + k + 10))) ps
    rw [show s.cursor + k + 10 + (s'.cursor - (s.cursor + k + 10)) = s'.cursor by omega]
    exact hrd
  · show s.cursor + k + 10 + (s'.cursor - (s.cursor + k + 10)) = s'.cursor
    omega

theorem bytesAt_three {o : Bytes} {p : Nat} {a b c : List UInt8} (h1 : BytesAt o p a)
    (h2 : BytesAt o (p + a.length) b) (h3 : BytesAt o (p + a.length + b.length) c) :
    BytesAt o p (a ++ b ++ c) :=
  bytesAt_append_intro (bytesAt_append_intro h1 h2) (by rw [List.length_append, ← Nat.add_assoc]; exact h3)

/-- one record, with content -/
theorem addRr_itemC (hint : Hint) (owner : WName) (ty cls ttl : Nat) (rd : List UInt8) (s s' : State)
    (hw : WInv s) (hl : PtrLogOK s) (hwf : owner.WF) (hh : HintOK s hint owner)
    (h : addRr hint owner ty cls ttl rd s = (.ok (), s')) (hle : s'.cursor ≤ 65535) :
    ∃ it : RItC, RChainC s' [it] s.cursor s'.cursor ∧ it.r = ⟨owner, ty, cls, ttl, rd⟩ ∧ it.m = s.mode ∧
      (∀ g, g ∈ s'.gLabels → g ∈ s.gLabels ∨ ∃ a ∈ it.a :: it.ps, PhysLab s'.octets a g) := by
  obtain ⟨k, hit, hlen, hb, ⟨t1, t2, t3⟩, ⟨p, sB, hwn, hcB, _⟩, hnm⟩ :=
    addRr_item hint owner ty cls ttl rd s s' hw hwf hh h
  obtain ⟨ts, k', ps, hct, hrd, ⟨p', sB', hwn', hcB'⟩, hprov⟩ := addRr_rd hint owner ty cls ttl rd s s' hw hl hwf hh h
  have hk : k' = k := by
    rw [hwn] at hwn'
    simp only [Prod.mk.injEq, Out.ok.injEq] at hwn'
    rw [← hwn'.2, hcB] at hcB'
    omega
  subst hk
  have hl2 : ∀ x, (u16be x).length = 2 := fun _ => rfl
  refine ⟨⟨s.cursor, k', s'.cursor - (s.cursor + k' + 10), s.mode, ⟨owner, ty, cls, ttl, rd⟩, ps⟩, ?_, rfl, rfl, hprov⟩
  exact rchainC_one (r := ⟨owner, ty, cls, ttl, rd⟩) hit hnm
    (bytesAt_three t1 (by rw [hl2]; exact t2) (by rw [hl2, hl2]; exact t3)) hlen hb hle hct hrd

/-- **`add_*_rr` keeps the layout**, and the record is the one given -/
theorem clay_addRrOp (sec : RrSection) (hint : Hint) (owner : WName) (ty cls ttl : Nat) (rd : List UInt8)
    (s s' : State) {b : Body} {mb : MBody} (hI : I s) (h : CLay P s b mb) (hwf : owner.WF) (hh : HintOK s hint owner)
    (hok : addRrOp sec hint owner ty cls ttl rd s = (.ok (), s')) :
    CLay P s' (b.add sec [⟨owner, ty, cls, ttlFrom ttl, rd⟩]) (mb.add sec [s.mode]) := by
  obtain ⟨s1, s2, h1, h2, _, hs'⟩ := addRrOp_ok_inv sec hint owner ty cls ttl rd s s' hok
  obtain ⟨c1, c2, c3, c4, c5, c6, c7⟩ := changeSection_spec sec s
  have hfr1 := frame_changeSection sec s
  rw [h1] at hfr1 c2 c3 c4 c5 c6 c7
  simp only at hfr1 c2 c3 c4 c5 c6 c7
  have w1 : WInv s1 := winv_ext hI.winv hfr1 c7 c3 c4 c5
  have hh1 : HintOK s1 hint owner := hintOK_ext hh hfr1 c3 c4 c5 c6
  have e2 : Ext s1 s2 := by
    have := frame_addRr hint owner ty cls (ttlFrom ttl) rd s1
    rw [h2] at this; exact this
  have hsect : s2.sect = toSect sec := by
    have := (changeSection_ok_inv sec s s1 h1).1
    have hk := keepsSect_addRr hint owner ty cls (ttlFrom ttl) rd s1
    rw [h2] at hk
    rw [hk, this]
  refine clay_add_records (recs := [⟨owner, ty, cls, ttlFrom ttl, rd⟩]) h h1 (Ext.trans hfr1 e2) ?_ hs' hsect
    hI.inv.rr_hi _ rfl
  intro hle
  have hl1 : PtrLogOK s1 := ptrLog_ext hI.log hfr1 (by
    have := changeSection_gPtrs sec s; rw [h1] at this; exact this)
  obtain ⟨it, hch, hr, hm, hpv⟩ := addRr_itemC hint owner ty cls (ttlFrom ttl) rd s1 s2 w1 hl1 hwf hh1 h2 hle
  rw [c6] at hch
  refine ⟨[it], hch, by simp [hr], fun x hx => ?_, fun g hg => ?_⟩
  · simp only [List.mem_singleton] at hx
    subst hx
    rw [hm, hfr1.mode]
  · rcases hpv g hg with a1 | a1
    · rw [c7] at a1; exact Or.inl a1
    · exact Or.inr ⟨it, List.mem_singleton.mpr rfl, a1⟩

/-- an RRset, with content: one item per RDATA -/
theorem addRrset_itemsC {track : Prop} {s0 : State} (owner : WName) (ty cls ttl : Nat) (hwf : owner.WF) :
    ∀ (rds : List (List UInt8)) (hint : Hint) (n : Nat) (names : List WName) (on0 : Option WName)
      (s s' : State) (cnt : Nat),
      (∃ loc o, RecSt track s0 s names loc o on0 ∧ HintOK s hint owner) →
      addRrset hint owner ty cls ttl rds n s = (.ok cnt, s') → s'.cursor ≤ 65535 →
      ∃ its, RChainC s' its s.cursor s'.cursor ∧
        its.map (·.r) = rds.map (fun rd => (⟨owner, ty, cls, ttl, rd⟩ : RRec)) ∧ (∀ it ∈ its, it.m = s.mode) ∧
        (∀ g, g ∈ s'.gLabels → g ∈ s.gLabels ∨ ∃ it ∈ its, ∃ a ∈ it.a :: it.ps, PhysLab s'.octets a g) := by
  intro rds
  induction rds with
  | nil =>
    intro hint n names on0 s s' cnt _ h _
    simp only [addRrset, M.pure_apply] at h
    cases h
    exact ⟨[], rfl, rfl, (fun _ hx => by cases hx), fun g hg => Or.inl hg⟩
  | cons rd rds ih =>
    intro hint n names on0 s s' cnt ⟨loc, o, hrec, hh⟩ h hle
    unfold addRrset at h
    obtain ⟨_, s1, h1, h2⟩ := M.bind_ok_inv h
    obtain ⟨_, hok⟩ := sp_addRr (track := track) (s0 := s0) (names := names) hint owner ty cls ttl rd hwf s
      ⟨loc, o, on0, hrec, hh⟩
    obtain ⟨p, hrec1⟩ := hok () s1 h1
    have e2 : Ext s1 s' := by
      have := frame_addRrset .mostRecentOwner owner ty cls ttl rds (n + 1) s1
      rw [h2] at this; exact this
    have hle1 : s1.cursor ≤ 65535 := by have := e2.cur; omega
    obtain ⟨it, hch1, hr1, hm1, hpv1⟩ := addRr_itemC hint owner ty cls ttl rd s s1 hrec.winv hrec.log hwf hh h1 hle1
    obtain ⟨its, hch, hl, hms, hpv⟩ := ih .mostRecentOwner (n + 1) (names ++ rdataNames cls ty rd) (some owner) s1 s' cnt
      ⟨_, p, hrec1, recSt_ownerHint hrec1⟩ h2 hle
    have e1 : Ext s s1 := by
      have := frame_addRr hint owner ty cls ttl rd s
      rw [h1] at this; exact this
    refine ⟨it :: its, rchainC_append (rchainC_ext e2 (Nat.le_refl _) hch1) hch, by simp [hr1, hl], fun x hx => ?_,
      fun g hg => ?_⟩
    · simp only [List.mem_cons] at hx
      rcases hx with rfl | hx
      · exact hm1
      · rw [hms x hx, e1.mode]
    · rcases hpv g hg with a1 | ⟨x, a1, a2⟩
      · rcases hpv1 g a1 with a3 | ⟨a, a3, a4⟩
        · exact Or.inl a3
        · obtain ⟨c1, c2, c3⟩ := rchainC_mem hch1 it List.mem_cons_self
          obtain ⟨d0, k, d1, d2⟩ := rfacts_chunk c2 a a3
          exact Or.inr ⟨it, List.mem_cons_self, a, a3, physLab_frame d1 a4 (fun i _ f2 => e2.pre i (by omega))⟩
      · exact Or.inr ⟨x, List.mem_cons_of_mem _ a1, a2⟩

/-- **`add_*_rrset` keeps the layout**, and the records are those given -/
theorem clay_addRrsetOp (sec : RrSection) (hint : Hint) (owner : WName) (ty cls ttl : Nat)
    (rds : List (List UInt8)) (s s' : State) {b : Body} {mb : MBody} (hI : I s) (h : CLay P s b mb) (hwf : owner.WF)
    (hh : HintOK s hint owner)
    (hok : addRrsetOp sec hint owner ty cls ttl rds s = (.ok (), s')) :
    CLay P s' (b.add sec (rds.map fun rd => ⟨owner, ty, cls, ttlFrom ttl, rd⟩))
      (mb.add sec (List.replicate rds.length s.mode)) := by
  obtain ⟨s1, s2, n, h1, h2, _, hs'⟩ := addRrsetOp_ok_inv sec hint owner ty cls ttl rds s s' hok
  obtain ⟨c1, c2, c3, c4, c5, c6, c7⟩ := changeSection_spec sec s
  have hfr1 := frame_changeSection sec s
  have hgp := changeSection_gPtrs sec s
  rw [h1] at hfr1 c2 c3 c4 c5 c6 c7 hgp
  simp only at hfr1 c2 c3 c4 c5 c6 c7 hgp
  have w1 : WInv s1 := winv_ext hI.winv hfr1 c7 c3 c4 c5
  have hh1 : HintOK s1 hint owner := hintOK_ext hh hfr1 c3 c4 c5 c6
  have r0 := recSt_init hI.winv hI.log
  have hr1 : RecSt (s.hv = some []) s s1 [] [] s.mostRecentOwner none :=
    recSt_step r0 hfr1 w1 c2 c5 c4 c3 hgp
  have hn := addRrset_count owner ty cls (ttlFrom ttl) rds hint 0 s1 s2 n h2
  have e2 : Ext s1 s2 := by
    have := frame_addRrset hint owner ty cls (ttlFrom ttl) rds 0 s1
    rw [h2] at this; exact this
  have hsect : s2.sect = toSect sec := by
    have := (changeSection_ok_inv sec s s1 h1).1
    have hk := keepsSect_addRrset owner ty cls (ttlFrom ttl) rds hint 0 s1
    rw [h2] at hk
    rw [hk, this]
  refine clay_add_records (recs := rds.map fun rd => ⟨owner, ty, cls, ttlFrom ttl, rd⟩) h h1 (Ext.trans hfr1 e2)
    ?_ (by rw [hs', List.length_map, hn]; simp) hsect hI.inv.rr_hi _ (by rw [List.length_map])
  intro hle
  obtain ⟨its, hch, hl, hms, hpv⟩ := addRrset_itemsC (track := s.hv = some []) (s0 := s) owner ty cls (ttlFrom ttl) hwf rds
    hint 0 [] none s1 s2 n ⟨[], _, hr1, hh1⟩ h2 hle
  rw [c6] at hch
  refine ⟨its, hch, hl, fun x hx => by rw [hms x hx, hfr1.mode], fun g hg => ?_⟩
  rcases hpv g hg with a1 | a1
  · rw [c7] at a1; exact Or.inl a1
  · exact Or.inr a1


/-! ### the question and the other calls -/

theorem clay_addQuestion (qn : WName) (qt qc : Nat) (s s' : State) {b : Body} {mb : MBody} (hI : I s) (h : CLay P s b mb)
    (hwf : qn.WF) (hok : addQuestion qn qt qc s = (.ok (), s')) :
    CLay P s' { b with qs := b.qs ++ [⟨qn, qt, qc⟩] } { mb with qs := mb.qs ++ [s.mode] } := by
  obtain ⟨s3, hsq, hb, hs'⟩ := addQuestion_ok_inv qn qt qc s s' hok
  obtain ⟨k, hit, hcur, hnm, hby, hpv⟩ := addQuestionBody_item qn qt qc s s3 hI.winv hwf hb
  have e : Ext s s3 := by
    have := frame_addQuestionBody qn qt qc s
    rw [hb] at this; exact this
  obtain ⟨hcr, hban, hbns, hbar⟩ := h.sq hsq
  have hk := keepsSect_addQuestionBody qn qt qc s
  rw [hb] at hk
  simp only at hk
  have ho : s'.octets = s3.octets := by rw [hs']
  have hc : s'.cursor = s3.cursor := by rw [hs']
  have hg : s'.gLabels = s3.gLabels := by rw [hs']
  have hp : pend s' = pend s := by rw [hs']; unfold pend; show _ = _; rw [e.edns, e.tsig]
  obtain ⟨ml1, ml2, ml3⟩ := h.ml
  have hnil : ∀ {l : List CMode} {l' : List RRec}, l.length = l'.length → l' = [] → l = [] := by
    intro l l' hl hn; rw [hn] at hl; exact List.eq_nil_of_length_eq_zero hl
  refine ⟨?_, ?_, ?_, ?_, ?_, ?_, ?_, ?_, ?_, by rw [hs']; show P s3.mode; rw [e.mode]; exact h.pm, h.ml⟩
  · obtain ⟨qs, h1, h2, hP, hM, hJ⟩ := h.q
    have hlt : ∀ g ∈ s.gLabels, g < s.cursor := by
      intro g hg
      obtain ⟨ls', hl'⟩ := hI.winv.labs g hg
      exact (nameAt_start hl').2.1
    refine ⟨qs ++ [⟨s.cursor, k, s.mode, ⟨qn, qt, qc⟩⟩], ?_, by rw [List.map_append, h2]; rfl, fun x hx => by
      rcases List.mem_append.mp hx with hx | hx
      · exact hP x hx
      · simp only [List.mem_singleton] at hx; subst hx; exact h.pm, by rw [List.map_append, hM]; rfl, ?lab⟩
    case lab =>
      intro g a _
      rw [hg] at a
      rw [ho]
      rcases hpv g a with a1 | a1
      · obtain ⟨it, b1, b2⟩ := hJ g a1 (by rw [← hcr]; exact hlt g a1)
        obtain ⟨c1, c2, c3⟩ := qchainC_mem h1 it b1
        exact ⟨it, List.mem_append_left _ b1, physLab_frame c2.1.2.1 b2 (fun i _ f2 => e.pre i (by omega))⟩
      · exact ⟨_, List.mem_append_right _ (List.mem_singleton.mpr rfl), a1⟩
    have hq3 : QChainC s3 qs 12 s.cursor := by
      rw [hcr]; exact qchainC_ext e hI.inv.rr_hi h1
    have := qchainC_snoc (x := ⟨s.cursor, k, s.mode, ⟨qn, qt, qc⟩⟩) hq3 ⟨hit, hnm, hby⟩
    have hrs : s'.rrStart = s.cursor + k + 4 := by rw [hs']; exact hcur
    rw [hrs]
    exact qchainC_fields ho hc hg this
  · intro hle
    have hlt : ∀ g ∈ s.gLabels, g < s.cursor := by
      intro g hg
      obtain ⟨ls', hl'⟩ := hI.winv.labs g hg
      exact (nameAt_start hl').2.1
    refine ⟨[], ?_, by rw [hban, hbns, hbar]; rfl, (fun _ hx => by cases hx), by
      show [] = mb.an ++ mb.ns ++ mb.ar
      rw [hnil ml1 hban, hnil ml2 hbns, hnil ml3 hbar]; rfl, ?lab⟩
    case lab =>
      intro g a b
      exfalso
      rw [hg] at a
      have hrs : s'.rrStart = s.cursor + k + 4 := by rw [hs']; exact hcur
      rw [hrs] at b
      rcases hpv g a with a1 | a1
      · have := hlt g a1; omega
      · have := (physLab_range hit.2.1 a1).2; omega
    rw [hs']; exact rfl
  · rw [hs']; show s3.qdcount + 1 = _; rw [e.qd, h.qd, List.length_append]; rfl
  · rw [hs']; show s3.ancount = _; rw [e.an]; exact h.an
  · rw [hs']; show s3.nscount = _; rw [e.ns]; exact h.ns
  · rw [hp, hs']; show s3.arcount = _; rw [e.ar]; exact h.ar
  · intro _; rw [hs']; exact ⟨rfl, hban, hbns, hbar⟩
  · intro _; exact ⟨hbns, hbar⟩
  · intro _; exact hbar

theorem clay_counts {s s' : State} {b : Body} {mb : MBody} (h : CLay P s b mb) (ho : s'.octets = s.octets)
    (hc : s'.cursor = s.cursor) (hg : s'.gLabels = s.gLabels) (hr : s'.rrStart = s.rrStart)
    (hqd : s'.qdcount = s.qdcount) (han : s'.ancount = s.ancount) (hns : s'.nscount = s.nscount)
    (hs : s'.sect = s.sect) {d : Nat} (hp : pend s' = pend s + d) (har : s'.arcount = s.arcount + d)
    (hm : P s'.mode) : CLay P s' b mb := by
  refine ⟨?_, ?_, by rw [hqd]; exact h.qd, by rw [han]; exact h.an, by rw [hns]; exact h.ns,
    by rw [har, hp, h.ar]; omega, by rw [hs, hc, hr]; exact h.sq, by rw [hs]; exact h.sa, by rw [hs]; exact h.su, hm,
    h.ml⟩
  · obtain ⟨qs, h1, h2, h3, h4, h5⟩ := h.q
    exact ⟨qs, by rw [hr]; exact qchainC_fields ho hc hg h1, h2, h3, h4, qlab_fields ho hg hr h5⟩
  · intro hle
    rw [hc] at hle
    obtain ⟨rs, h1, h2, h3, h4, h5⟩ := h.r hle
    exact ⟨rs, by rw [hr, hc]; exact rchainC_fields ho hc hg h1, h2, h3, h4, rlab_fields ho hg hr h5⟩

theorem clay_setEdns (p : Nat) (s : State) {b : Body} {mb : MBody} (h : CLay P s b mb) : CLay P (setEdns p s).2 b mb := by
  unfold setEdns
  repeat' split
  all_goals first
    | exact h
    | skip
  rename_i h1 h2 h3
  have hn : s.edns = none := by cases he : s.edns <;> simp_all
  refine clay_counts (d := 1) h rfl rfl rfl rfl rfl rfl rfl rfl ?_ rfl h.pm
  unfold pend; simp [hn]; omega

theorem clay_setTsig (m : TsigMode) (rr : TsigRr) (s : State) {b : Body} {mb : MBody} (h : CLay P s b mb) :
    CLay P (setTsig m rr s).2 b mb := by
  unfold setTsig
  repeat' split
  all_goals first
    | exact h
    | skip
  rename_i h1 h2 h3
  have hn : s.tsig = none := by cases he : s.tsig <;> simp_all
  refine clay_counts (d := 1) h rfl rfl rfl rfl rfl rfl rfl rfl ?_ rfl h.pm
  unfold pend; simp [hn]

theorem clay_setMode (m : CMode) (s : State) {b : Body} {mb : MBody} (h : CLay P s b mb) (hm : P m) :
    CLay P (setCompressionMode m s).2 b mb :=
  clay_counts (d := 0) h rfl rfl rfl rfl rfl rfl rfl rfl rfl rfl hm

theorem clay_hv (s : State) (v : Option HV) {b : Body} {mb : MBody} (h : CLay P s b mb) : CLay P { s with hv := v } b mb :=
  clay_counts (d := 0) h rfl rfl rfl rfl rfl rfl rfl rfl rfl rfl h.pm

/-- a fresh writer, put into mode `m` -/
theorem clay_new (buf : Bytes) (limit : Nat) (s : State) (h : Writer.new buf limit = .ok s) (m : CMode)
    (hm : P m) : CLay P { s with mode := m } {} {} := by
  suffices hh : CLay (fun _ => True) s {} {} by
    refine ⟨?_, ?_, hh.qd, hh.an, hh.ns, hh.ar, hh.sq, hh.sa, hh.su, hm, ⟨rfl, rfl, rfl⟩⟩
    · obtain ⟨qs, h1, h2, _, _, h5⟩ := hh.q
      have : qs = [] := by simpa using h2
      subst this
      exact ⟨[], h1, rfl, (fun _ hx => by cases hx), rfl, h5⟩
    · intro hle
      obtain ⟨rs, h1, h2, _, _, h5⟩ := hh.r hle
      have : rs = [] := by simpa using h2
      subst this
      exact ⟨[], h1, rfl, (fun _ hx => by cases hx), rfl, h5⟩
  unfold Writer.new at h
  dsimp only at h
  split at h
  · cases h
  · have hs := Out.ok.inj h
    have h1 : s.rrStart = 12 := by rw [← hs]; rfl
    have h2 : s.cursor = 12 := by rw [← hs]; rfl
    have h3 : s.qdcount = 0 ∧ s.ancount = 0 ∧ s.nscount = 0 ∧ s.arcount = 0 ∧ s.edns = none ∧ s.tsig = none := by
      rw [← hs]; exact ⟨rfl, rfl, rfl, rfl, rfl, rfl⟩
    have hgl : s.gLabels = [] := by rw [← hs]
    refine ⟨⟨[], by rw [h1]; rfl, rfl, (fun _ hx => by cases hx), rfl, fun g hg => by rw [hgl] at hg; cases hg⟩,
      fun _ => ⟨[], by rw [h1, h2]; rfl, rfl, (fun _ hx => by cases hx), rfl,
        fun g hg => by rw [hgl] at hg; cases hg⟩, h3.1, h3.2.1, h3.2.2.1, ?_,
      fun _ => ⟨by rw [h1, h2], rfl, rfl, rfl⟩, fun _ => ⟨rfl, rfl⟩, fun _ => rfl, trivial, ⟨rfl, rfl, rfl⟩⟩
    unfold pend
    rw [h3.2.2.2.1, h3.2.2.2.2.1, h3.2.2.2.2.2]
    rfl


/-! ### `clear_rrs` -/

/-- the hop at an item reads inside the item's chunk -/
theorem hop_shrink {oct : Bytes} {cur c' a k q : Nat} (hop : Hop oct cur a q) (hck : ChunkAt oct a k)
    (hc : a + k ≤ c') : Hop oct c' a q := by
  obtain ⟨pre, b, hwf, hb, hkk⟩ := hck
  have hlen : (pre.flatMap WName.encLabel ++ [b]).length = encLen pre + 1 := by simp [encLen]
  have hk1 : 1 ≤ k := by rcases hkk with ⟨_, e⟩ | ⟨_, e⟩ <;> omega
  cases hop with
  | here hq' hb' hnp => exact .here (by omega) hb' hnp
  | jump hq' h1 h2 hp hlt h3 hnp =>
    have h0 := hb 0 (by rw [hlen]; omega)
    rw [Nat.add_zero, h1] at h0
    have hk2 : 2 ≤ k := by
      rcases hkk with ⟨hb0, _⟩ | ⟨_, e⟩
      · exfalso
        cases pre with
        | nil =>
          simp at h0; subst h0
          rw [hb0] at hp; exact absurd hp (by decide)
        | cons l pre' =>
          simp [WName.encLabel] at h0
          have hl := hwf l List.mem_cons_self
          subst h0
          rw [ofNat_len_notPtr hl.2] at hp; cases hp
      · omega
    exact .jump (by omega) h1 h2 hp hlt h3 hnp

theorem clay_clearRrs (s : State) {b : Body} {mb : MBody} (h : CLay P s b mb) (hI : I s) :
    CLay P (clearRrs s).2 { qs := b.qs } { qs := mb.qs } := by
  simp only [clearRrs, M.modify_apply]
  have hrr := hI.inv.rr_hi
  have hG : ∀ x, (GL s x ∧ x < s.rrStart) → x ∈ s.gLabels.filter (· < s.rrStart) := by
    intro x ⟨h1, h2⟩
    simp only [List.mem_filter, decide_eq_true_eq]
    exact ⟨h1, h2⟩
  refine ⟨?_, fun _ => ⟨[], rfl, rfl, (fun _ hx => by cases hx), rfl, fun g a b => by
      exfalso
      have a' : g ∈ s.gLabels.filter (· < s.rrStart) := a
      have b' : s.rrStart ≤ g := b
      simp only [List.mem_filter, decide_eq_true_eq] at a'
      omega⟩, h.qd, rfl, rfl, ?_, fun _ => ⟨rfl, rfl, rfl, rfl⟩,
    fun _ => ⟨rfl, rfl⟩, fun _ => rfl, h.pm, ⟨rfl, rfl, rfl⟩⟩
  · obtain ⟨qs, h1, h2, h3, h4, h5⟩ := h.q
    refine ⟨qs, ?_, h2, h3, h4, fun g a b => by
      have a' : g ∈ s.gLabels.filter (· < s.rrStart) := a
      simp only [List.mem_filter, decide_eq_true_eq] at a'
      exact h5 g a'.1 a'.2⟩
    show QChainC _ qs 12 s.rrStart
    refine qchainC_move (lo := 0) (e := s.rrStart) (fun it _ hk hq => ?_) (Nat.zero_le _) h1
    obtain ⟨hit, hnm, hby⟩ := hq
    have hgl : ∀ g ∈ s.gLabels, g ≤ it.a → g ∈ s.gLabels.filter (· < s.rrStart) := by
      intro g hg hga
      simp only [List.mem_filter, decide_eq_true_eq]
      exact ⟨hg, by omega⟩
    refine ⟨item_move (lo := 0) hit (fun _ _ => Nat.zero_le _) (fun _ _ _ => rfl)
      (by show it.a + it.k ≤ s.rrStart; omega) hgl, ?_, hby⟩
    obtain ⟨⟨q, ls, hop, hst, hm⟩, hdis⟩ := hnm
    have hqa := (hop_le hop).1
    have hqg : q ∈ s.gLabels := (nameAt_start hst).1
    obtain ⟨ls', hl'⟩ := hI.qinv.labs q hqg (by omega)
    have := nameAt_unique hl' hst
    subst this
    refine ⟨⟨q, ls', hop_shrink hop hit.2.1 (by show it.a + it.k ≤ s.rrStart; omega), ?_, hm⟩, fun hm' => ?dis⟩
    case dis =>
      obtain ⟨pre', w1, w2, w3⟩ := hdis hm'
      obtain ⟨pre, bb, v1, v2, v3⟩ := hit.2.1
      have hc : bb = 0 ∨ isPtr bb = true := by
        rcases v3 with ⟨x, _⟩ | ⟨x, _⟩
        · exact Or.inl x
        · exact Or.inr x
      obtain ⟨e1, e2⟩ := chunk_unique pre' pre it.a 0 bb w1 v1 w2 v2 (Or.inl rfl) hc
      subst e1 e2
      refine ⟨pre', w1, w2, ?_⟩
      show it.a + encLen pre' + 1 ≤ s.rrStart
      rcases v3 with ⟨_, x⟩ | ⟨x, _⟩
      · omega
      · exact absurd x (by decide)
    exact nameAt_frame (lo := 0) (nameAt_restrict hl') hG (fun _ _ => Nat.zero_le _) (fun _ _ _ => rfl)
      (Nat.le_refl _)
  · show _ = ([] : List RRec).length + pend _
    unfold pend
    simp


/-! ### templates, whole sessions -/

theorem clay_template {s s' : State} {b : Body} {mb : MBody} {t : Template} (h : CLay P s b mb) (hI : I s) (buf : Bytes)
    (ts : Option Tsig) (hsome : ts.isSome = s.tsig.isSome)
    (ht : intoTemplate s = .ok t) (h' : tryFromTemplateImpl buf t ts = .ok s') : CLay P s' b mb := by
  have hi := hI.inv
  have h1 := hi.hdr; have h2 := hi.cur_av; have h3 := hi.av_lim; have h4 := hi.lim_size
  unfold intoTemplate at ht
  rw [if_neg (by omega), if_neg (by omega)] at ht
  cases ht
  unfold tryFromTemplateImpl at h'
  simp only [extract_toList_length _ _ (show s.cursor ≤ s.octets.size by omega)] at h'
  split at h'
  · cases h'
  · split at h'
    · cases h'
    · cases h'
      refine clay_congr h hI.winv hi.rr_hi ?_ rfl rfl rfl rfl rfl rfl rfl ?_ rfl rfl
      · intro i _ hi'
        have := writeAt_get_in buf 0 (List.take s.cursor s.octets.toList) i (by simp; omega) (by simp; omega)
        simp only [Nat.zero_add] at this
        simp only [Array.toList_extract, List.extract_eq_take_drop, Nat.sub_zero, List.drop_zero]
        rw [this, List.getElem?_take]
        simp [hi']
      · unfold pend
        show _ + (if ts.isSome then 1 else 0) = _
        rw [hsome]

theorem clay_retemplate {ss : Session} {b : Body} {mb : MBody} (h : CLay P ss.w b mb) (hI : I ss.w) (n : Nat) (fill : UInt8)
    (mk : Bytes → Template → Out WriterErr State) (hmk : MkOK mk) :
    CLay P (retemplate ss n fill mk).2.w b mb := by
  obtain ⟨t, ht⟩ := intoTemplate_ok hI.inv
  have htt := intoTemplate_tsig ht
  unfold retemplate
  rw [ht]
  simp only []
  obtain ⟨sf, hsf⟩ := tryFromTemplate_fallback_ok fill hI.inv ht
  have hlf : CLay P sf b mb := clay_template h hI _ t.tsig (by rw [htt]) ht hsf
  cases hm : mk (Array.replicate n fill) t with
  | ok s' =>
    simp only []
    obtain ⟨ts, h1, h2⟩ := hmk.1 _ _ _ hm
    refine clay_template h hI _ ts ?_ ht h1
    rcases h2 with he | ⟨ts0, ts1, h0, h1', _⟩
    · rw [he, htt]
    · rw [h1', ← htt, h0]; rfl
  | err e => simp only []; rw [hsf]; exact hlf
  | panic => simp only []; rw [hsf]; exact hlf

theorem clay_liftW {ss : Session} {f : M Unit} {b : Body} {mb : MBody} (h : CLay P (f ss.w).2 b mb) : CLay P (liftW ss f).2.w b mb := by
  unfold liftW
  cases hf : f ss.w with
  | mk r s1 => rw [hf] at h; exact h

/-- the modes of the items a successful call adds: the mode in effect (`cur`) -/
def mbodyStep (cur : CMode) (mb : MBody) : Op → MBody
  | .addQuestion _ _ _ => { mb with qs := mb.qs ++ [cur] }
  | .addRr sec _ _ _ _ _ _ _ => mb.add sec [cur]
  | .addRrset sec _ _ _ _ _ rds _ => mb.add sec (List.replicate rds.length cur)
  | .clearRrs => { qs := mb.qs }
  | _ => mb

/-- the compression mode in effect when each question / record of a session was written (the
    writer's mode is changed by `set_compression_mode` only) -/
def mrun (ss : Session) (mb : MBody) : List Op → MBody
  | [] => mb
  | op :: ops => mrun (step ss op).2 (if (step ss op).1 = .ok () then mbodyStep ss.w.mode mb op else mb) ops

/-- **every public call keeps the layout**: a successful call adds exactly what it was given, a
    failed call changes nothing — in every compression mode -/
theorem clay_step (ss : Session) (op : Op) (b : Body) (mb : MBody) (hI : I ss.w) (h : CLay P ss.w b mb)
    (hop : OpOK ss op) (hpm : ∀ m, op = .setMode m → P m) :
    CLay P (step ss op).2.w (if (step ss op).1 = .ok () then bodyStep b op else b)
      (if (step ss op).1 = .ok () then mbodyStep ss.w.mode mb op else mb) := by
  have hnp := (step_I ss op hI hop).1
  -- failed calls: nothing changed
  by_cases herr : ∃ e, (step ss op).1 = .err e
  · obtain ⟨e, he⟩ := herr
    rw [he]
    simp only [reduceCtorEq, if_false]
    exact clay_same h hI (step_err_same ss op hI.inv e he)
  have hok : (step ss op).1 = .ok () := by
    cases hr : (step ss op).1 with
    | ok u => rfl
    | err e => exact absurd ⟨e, hr⟩ herr
    | panic => exact absurd hr hnp
  rw [hok]
  simp only [if_true]
  have lw : ∀ {f : M Unit}, (∀ s, HdrOnly s (f s).2) → CLay P (liftW ss f).2.w b mb := fun hf =>
    clay_liftW (clay_hdrOnly h hI (hf ss.w))
  cases op with
  | setId v => exact lw (hdrOnly_write _ _ (by show _ + 2 ≤ 12; decide))
  | setQr b' => exact lw (hdrOnly_setHdr _ _ (by decide))
  | setAa b' => exact lw (hdrOnly_setHdr _ _ (by decide))
  | setTc b' => exact lw (hdrOnly_setHdr _ _ (by decide))
  | setRd b' => exact lw (hdrOnly_setHdr _ _ (by decide))
  | setRa b' => exact lw (hdrOnly_setHdr _ _ (by decide))
  | setOpcode v => exact lw (hdrOnly_setHdr _ _ (by decide))
  | setRcode v => exact lw (hdrOnly_setRcode v)
  | setExtendedRcode v => exact lw (f := setExtendedRcode v) (hdrOnly_setExtendedRcode v)
  | setLimit v => exact lw (hdrOnly_setLimit v)
  | setMode m => exact clay_liftW (clay_setMode m ss.w h (hpm m rfl))
  | addQuestion n t c =>
    simp only [step, liftW] at hok ⊢
    cases hq : addQuestion n t c ss.w with
    | mk r s1 =>
      rw [hq] at hok
      simp only at hok
      subst hok
      exact clay_addQuestion n t c ss.w s1 hI h hop hq
  | addRr sec hn o ty cls ttl rd hv =>
    simp only [step] at hok ⊢
    rw [withHv_fst] at hok
    rw [withHv_w]
    have hI0 := i_hv ss.w (hv.map (hvGet ss.hvs)) hI
    have h0 := clay_hv ss.w (hv.map (hvGet ss.hvs)) h
    cases hq : addRrOp sec (resolveHint ss.hvs hn) o ty cls ttl rd { ss.w with hv := hv.map (hvGet ss.hvs) } with
    | mk r s1 =>
      rw [hq] at hok
      simp only at hok
      subst hok
      exact clay_hv _ none (clay_addRrOp sec _ o ty cls ttl rd { ss.w with hv := hv.map (hvGet ss.hvs) } s1 hI0 h0 hop.1 hop.2 hq)
  | addRrset sec hn o ty cls ttl rds hv =>
    simp only [step] at hok ⊢
    rw [withHv_fst] at hok
    rw [withHv_w]
    have hI0 := i_hv ss.w (hv.map (hvGet ss.hvs)) hI
    have h0 := clay_hv ss.w (hv.map (hvGet ss.hvs)) h
    cases hq : addRrsetOp sec (resolveHint ss.hvs hn) o ty cls ttl rds { ss.w with hv := hv.map (hvGet ss.hvs) } with
    | mk r s1 =>
      rw [hq] at hok
      simp only at hok
      subst hok
      exact clay_hv _ none (clay_addRrsetOp sec _ o ty cls ttl rds { ss.w with hv := hv.map (hvGet ss.hvs) } s1 hI0 h0 hop.1 hop.2 hq)
  | clearRrs => exact clay_liftW (clay_clearRrs ss.w h hI)
  | setEdns p => exact clay_liftW (clay_setEdns p ss.w h)
  | setTsig m rr => exact clay_liftW (clay_setTsig m rr ss.w h)
  | updateTimeSigned t => exact lw (hdrOnly_updateTimeSigned t)
  | template n fill => exact clay_retemplate h hI n fill _ mkOK_tryFromTemplate
  | templateSubsequent n fill mac => exact clay_retemplate h hI n fill _ (mkOK_subsequent mac)
  | getters => exact h

/-- **for all sequences of calls that respect the contract**, in every compression mode -/
theorem clay_run (ss : Session) (ops : List Op) (b : Body) (mb : MBody) (hI : I ss.w) (h : CLay P ss.w b mb)
    (hr : Respects ss ops) (hpm : ∀ m, Op.setMode m ∈ ops → P m) :
    CLay P (run ss ops).1.w (bodyRun b ops (run ss ops).2) (mrun ss mb ops) := by
  induction ops generalizing ss b mb with
  | nil => exact h
  | cons op ops ih =>
    obtain ⟨hop, hrest⟩ := hr
    obtain ⟨hnp, hI'⟩ := step_I ss op hI hop
    have hs' := clay_step ss op b mb hI h hop (fun m hm => hpm m (by rw [hm]; exact List.mem_cons_self))
    have hpm' : ∀ m, Op.setMode m ∈ ops → P m := fun m hm => hpm m (List.mem_cons_of_mem _ hm)
    unfold run mrun
    cases hs : step ss op with
    | mk r ss' =>
      rw [hs] at hnp hI' hrest hs'
      cases r with
      | panic => exact absurd rfl hnp
      | ok u =>
        simp only [] at hs' ⊢
        have := ih ss' _ _ hI' (by simpa using hs') hrest hpm'
        cases hrun : run ss' ops with
        | mk ss'' rs => rw [hrun] at this; simpa [bodyRun] using this
      | err e =>
        simp only [] at hs' ⊢
        have := ih ss' _ _ hI' (by simpa using hs') hrest hpm'
        cases hrun : run ss' ops with
        | mk ss'' rs => rw [hrun] at this; simpa [bodyRun] using this

end QV.Writer
