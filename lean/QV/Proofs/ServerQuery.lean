/-
  QV.Proofs.ServerQuery — layers L2 and L3 of C01: the QUERY handler (`src/server/query.rs`).

  L2: every zone lookup made by `answer` / `answer_any` / `follow_cname_2` /
  `add_additional_addresses` is safe (the unchecked ones because the zone was selected by the
  catalog); `WrongZone ⇒ panic!` is unreachable; the CNAME recursion ends by the `owners_seen`
  capacity check, never by running out of fuel; `read_soa_minimum` never panics.
  L3: every writer call meets the writer's contract (`Call.Pre`): names handed over are well
  formed, and each hint is valid — `Hint::Qname` only after the question was added with that
  very name, `MostRecentOwner` / `MostRecentNameInRdata` only right after such a name was written,
  explicit pointers taken from the `HintPointerVec` of the RRset just written and indexed by the
  position of the RDATA whose name they accompany. `OutOfOrder` / `Truncation` / `InvalidRdata` are
  never unwrapped: they become `ProcessingError`s handled by `handle_non_axfr_query`.
-/
import QV.Proofs.ServerZone
import QV.Proofs.ServerContext
import QV.Proofs.WriterV0

namespace QV.ServerSafety
open QV QV.Writer QV.Server

variable (W : WriterSafe)

/-! ### hints -/

/-- entry *i* of a lent `HintPointerVec` is a valid anchor of the *i*-th name -/
def HvOK (s : State) (v : List (Option Nat)) (names : List WName) : Prop :=
  ∀ i p : Nat, v[i]? = some (some p) → ∃ n, names[i]? = some n ∧ W.Den s ⟨p, n.len⟩ n

theorem HvOK.mono {s s' : State} {v : List (Option Nat)} {names : List WName} (h : HvOK W s v names)
    (hm : Mono W.Den s s') : HvOK W s' v names :=
  fun i p hv => let ⟨n, hn, hd⟩ := h i p hv; ⟨n, hn, hm.2 _ _ hd⟩

theorem hintFrom_ok {s : State} {v : List (Option Nat)} {names : List WName} (h : HvOK W s v names)
    (i : Nat) (n : WName) (hn : ∀ n', names[i]? = some n' → n' = n) :
    HintOK W.Den s (hintFrom v i) n := by
  unfold hintFrom
  cases hv : v[i]? with
  | none => trivial
  | some o =>
    cases o with
    | none => trivial
    | some p =>
      obtain ⟨n', hn', hd⟩ := h i p hv
      have := hn n' hn'
      subst this
      exact fun _ => hd

theorem hintOK_hv {s : State} (v : Option HV) {hint : Hint} {n : WName} (h : HintOK W.Den s hint n) :
    HintOK W.Den { s with hv := v } hint n := by
  cases hint with
  | qname => exact fun q hq => W.Den_hv _ _ _ _ (h q hq)
  | mostRecentOwner => exact fun q hq => W.Den_hv _ _ _ _ (h q hq)
  | mostRecentNameInRdata => exact fun q hq => W.Den_hv _ _ _ _ (h q hq)
  | explicit p => exact fun hp => W.Den_hv _ _ _ _ (h hp)
  | none => trivial

/-- `add_*_rrset(.., Some(&mut hint_pointer_vec))` with a fresh vector: afterwards the vector's
    entries are valid anchors of the names inside the RDATAs and `MostRecentOwner` is a valid hint
    for the owner -/
theorem safe_rrset_hv (sec : RrSection) (hint : Hint) (owner : WName) (ty cls ttl : Nat)
    (rds : List (List UInt8)) (s : State) (hi : W.I s) (hwf : owner.WF)
    (hh : HintOK W.Den s hint owner) (hne : rds ≠ []) :
    Safe W (Server.withHv [] (addRrsetOp sec hint owner ty cls ttl rds)) s
      (fun v s' => HvOK W s' v (rds.flatMap (rdataNames cls ty)) ∧ HintOK W.Den s' .mostRecentOwner owner) := by
  have hi0 := W.I_hv s (some []) hi
  have hh0 := hintOK_hv W (some []) hh
  obtain ⟨h1, h2, h3⟩ := W.call (.addRrset sec hint owner ty cls ttl rds) _ hi0 ⟨hwf, hh0⟩
  have hpost := W.addRrset_post sec hint owner ty cls ttl rds _ hi0 hwf hh0 hne
  have e : (Call.addRrset sec hint owner ty cls ttl rds).run = addRrsetOp sec hint owner ty cls ttl rds := rfl
  rw [e] at h1 h2 h3
  unfold Safe
  dsimp only [Server.withHv]
  generalize addRrsetOp sec hint owner ty cls ttl rds { s with hv := some [] } = res at h1 h2 h3 hpost
  obtain ⟨o, s1⟩ := res
  have hm : Mono W.Den s { s1 with hv := none } :=
    ⟨h3.1, fun p n hd => W.Den_hv _ _ _ _ (h3.2 p n (W.Den_hv _ _ _ _ hd))⟩
  cases o with
  | panic => exact absurd rfl h1
  | err e => exact ⟨by simp, W.I_hv _ _ h2, hm, fun a ha => by cases ha⟩
  | ok u =>
    refine ⟨by simp, W.I_hv _ _ h2, hm, fun a ha => ?_⟩
    cases ha
    refine ⟨?_, hintOK_hv W none (hpost rfl).1⟩
    have hp := (hpost rfl).2 rfl
    intro i p hv
    cases hs : s1.hv with
    | none => simp [hs] at hv
    | some v =>
      simp only [hs, Option.getD_some] at hv
      obtain ⟨n, hn, hd⟩ := hp v hs i p hv
      exact ⟨n, hn, W.Den_hv _ _ _ _ hd⟩

/-- `add_*_rr(.., None)`: afterwards `MostRecentNameInRdata` is a valid hint for the last name in
    the RDATA -/
theorem safe_rr_hv (sec : RrSection) (hint : Hint) (owner : WName) (ty cls ttl : Nat)
    (rd : List UInt8) (s : State) (hi : W.I s) (hwf : owner.WF) (hh : HintOK W.Den s hint owner) :
    Safe W (Server.withHv [] (addRrOp sec hint owner ty cls ttl rd)) s
      (fun _ s' => ∀ n, (rdataNames cls ty rd).getLast? = some n →
        HintOK W.Den s' .mostRecentNameInRdata n) := by
  have hi0 := W.I_hv s (some []) hi
  have hh0 := hintOK_hv W (some []) hh
  obtain ⟨h1, h2, h3⟩ := W.call (.addRr sec hint owner ty cls ttl rd) _ hi0 ⟨hwf, hh0⟩
  have hpost := W.addRr_post sec hint owner ty cls ttl rd _ hi0 hwf hh0
  have e : (Call.addRr sec hint owner ty cls ttl rd).run = addRrOp sec hint owner ty cls ttl rd := rfl
  rw [e] at h1 h2 h3
  unfold Safe
  dsimp only [Server.withHv]
  generalize addRrOp sec hint owner ty cls ttl rd { s with hv := some [] } = res at h1 h2 h3 hpost
  obtain ⟨o, s1⟩ := res
  have hm : Mono W.Den s { s1 with hv := none } :=
    ⟨h3.1, fun p n hd => W.Den_hv _ _ _ _ (h3.2 p n (W.Den_hv _ _ _ _ hd))⟩
  cases o with
  | panic => exact absurd rfl h1
  | err e => exact ⟨by simp, W.I_hv _ _ h2, hm, fun a ha => by cases ha⟩
  | ok u =>
    refine ⟨by simp, W.I_hv _ _ h2, hm, fun a ha n hn => ?_⟩
    exact hintOK_hv W none ((hpost rfl).2 n hn)

/-- the logged `add_*_rrset` -/
theorem safe_addRrs (optional : Bool) (sec : RrSection) (hint : Hint) (owner : WName) (ty cls ttl : Nat)
    (rds : List (List UInt8)) (s : PS) (hi : W.I s.w) (hwf : owner.WF)
    (hh : HintOK W.Den s.w hint owner) (hne : rds ≠ []) :
    SafeP W (PM.addRrs optional sec hint owner ty cls ttl rds) s
      (fun o w' => ∀ hv, o = some hv →
        HvOK W w' hv (rds.flatMap (rdataNames cls ty)) ∧ HintOK W.Den w' .mostRecentOwner owner) :=
  safe_addCall W _ (safe_rrset_hv W sec hint owner ty cls ttl rds s.w hi hwf hh hne)

/-- the logged `add_*_rr` -/
theorem safe_addRr1 (sec : RrSection) (hint : Hint) (owner : WName) (ty cls ttl : Nat)
    (rd : List UInt8) (s : PS) (hi : W.I s.w) (hwf : owner.WF) (hh : HintOK W.Den s.w hint owner) :
    SafeP W (PM.addRr1 sec hint owner ty cls ttl rd) s
      (fun _ w' => ∀ n, (rdataNames cls ty rd).getLast? = some n →
        HintOK W.Den w' .mostRecentNameInRdata n) := by
  unfold PM.addRr1
  have h := safe_addCall W ⟨sec, owner, ty, cls, ttl, [rd], false, .ok ()⟩
    (safe_rr_hv W sec hint owner ty cls ttl rd s.w hi hwf hh)
  -- the call is not optional: on success it was made
  obtain ⟨h1, h2, h3, h4⟩ := h
  unfold SafeP
  rw [PM.bind_apply]
  generalize hres : PM.addCall ⟨sec, owner, ty, cls, ttl, [rd], false, .ok ()⟩
    (Server.withHv [] (addRrOp sec hint owner ty cls ttl rd)) s = res at h1 h2 h3 h4
  obtain ⟨o, s'⟩ := res
  cases o with
  | panic => exact absurd rfl h1
  | err e => exact ⟨by simp, h2, h3, fun a ha => by cases ha⟩
  | ok ov =>
    refine ⟨by simp [pure, PM.pure], h2, h3, fun a _ => ?_⟩
    cases ov with
    | some hv => exact h4 (some hv) rfl hv rfl
    | none =>
      -- `None` only for optional calls
      exfalso
      unfold PM.addCall at hres
      generalize Server.withHv [] (addRrOp sec hint owner ty cls ttl rd) s.w = r at hres
      obtain ⟨o2, w2⟩ := r
      cases o2 with
      | ok x => simp at hres
      | err e => simp at hres
      | panic => simp at hres

theorem safe_hdr_setAa (b : Bool) (s : PS) (hi : W.I s.w) : SafeP W (PM.setAa b) s (fun _ _ => True) :=
  safe_hdrOp W _ (safe_setAa W b s.w hi)

theorem safe_hdr_setRcode (v : Nat) (s : PS) (hi : W.I s.w) : SafeP W (PM.setRcode v) s (fun _ _ => True) :=
  safe_hdrOp W _ (safe_setRcode W v s.w hi)

theorem safe_hdr_setTc (b : Bool) (s : PS) (hi : W.I s.w) : SafeP W (PM.setTc b) s (fun _ _ => True) :=
  safe_hdrOp W _ (safe_setTc W b s.w hi)

/-! ### `read_name_from_rdata` -/

theorem readName_cases (rd : List UInt8) (start : Nat) (s : PS) :
    (∃ n, readNameFromRdata rd start s = (.ok n, s) ∧ n.WF ∧ ¬ start > rd.length ∧
      WName.parse (rd.drop start) = some (n, [])) ∨
    readNameFromRdata rd start s = (.err .servFail, s) := by
  unfold readNameFromRdata
  by_cases h : start > rd.length
  · right; rw [if_pos h]; rfl
  · rw [if_neg h]
    cases hp : WName.parse (rd.drop start) with
    | none => right; rfl
    | some v =>
      obtain ⟨n, rest⟩ := v
      cases rest with
      | nil => left; exact ⟨n, rfl, (parse_sound _ _ _ hp).1, h, rfl⟩
      | cons a b => right; rfl

/-- the component layouts of the types that get additional-section processing, with the offset
    at which `read_name_from_rdata` is told to look for the name -/
def Shape (cs : List CompType) (start : Nat) : Prop :=
  cs = [] ∨ (start = 0 ∧ cs = [.compressibleName]) ∨ cs = [.fixedLen start, .compressibleName] ∨
    cs = [.fixedLen start, .uncompressibleName]

theorem compNames_shape {cs : List CompType} {start : Nat} (h : Shape cs start) (hne : cs ≠ [])
    (rd : List UInt8) (n : WName) (hs : ¬ start > rd.length)
    (hp : WName.parse (rd.drop start) = some (n, [])) : compNames cs rd = [n] := by
  rcases h with h | ⟨h0, h⟩ | h | h
  · exact absurd h hne
  · subst h0 h; simp only [List.drop_zero] at hp; simp [compNames, hp]
  · subst h
    have : ¬ rd.length < start := by omega
    simp [compNames, this, hp]
  · subst h
    have : ¬ rd.length < start := by omega
    simp [compNames, this, hp]

theorem flatMap_singletons {α β : Type} (f : α → List β) (pre : List α) (h : ∀ a ∈ pre, ∃ b, f a = [b]) :
    (pre.flatMap f).length = pre.length := by
  induction pre with
  | nil => rfl
  | cons a r ih =>
    obtain ⟨b, hb⟩ := h a (by simp)
    simp only [List.flatMap_cons, hb, List.length_append, List.length_cons, List.length_nil]
    rw [ih (fun x hx => h x (by simp [hx]))]; omega

/-! ### `add_additional_addresses` -/

theorem lookupAddrs_cases (z : Zone.Zone) (hz : ZoneOK z) (name : NameL.Name) (sbc : Bool)
    (hname : (unfold name).WF) :
    (∃ a aaaa sos, Zone.lookupAddrs z name ⟨false, sbc⟩ = .ok (.found a aaaa sos) ∧
      (∀ r, a = some r → r.rdatas ≠ []) ∧ (∀ r, aaaa = some r → r.rdatas ≠ [])) ∨
    (∃ x, Zone.lookupAddrs z name ⟨false, sbc⟩ = .ok x ∧ ∀ a b c, x ≠ .found a b c) := by
  unfold Zone.lookupAddrs
  rcases lookupBase_cases z hz name ⟨false, sbc⟩ hname (fun h => by cases h) with ⟨h, _⟩ | ⟨b, hb, _, hf, _⟩
  · right; rw [h]; exact ⟨_, rfl, fun _ _ _ h => by cases h⟩
  · rw [hb]
    cases b with
    | found rrsets sos =>
      left
      refine ⟨_, _, _, rfl, fun r hr => hf _ _ rfl r (lookupRrset_mem _ _ _ hr), fun r hr => ?_⟩
      split at hr
      · exact hf _ _ rfl r (lookupRrset_mem _ _ _ hr)
      · cases hr
    | referral c ns => right; exact ⟨_, rfl, fun _ _ _ h => by cases h⟩
    | nxDomain => right; exact ⟨_, rfl, fun _ _ _ h => by cases h⟩
    | wrongZone => right; exact ⟨_, rfl, fun _ _ _ h => by cases h⟩

theorem addAaaa_safe (z : Zone.Zone) (hint : Hint) (owner : WName) (optional : Bool)
    (aaaa : Option Zone.Rrset) (haaaa : ∀ r, aaaa = some r → r.rdatas ≠ []) (s : PS) (hi : W.I s.w)
    (hwf : owner.WF) (hh : HintOK W.Den s.w hint owner) :
    SafeP W (addAaaa z hint owner optional aaaa) s (fun _ _ => True) := by
  unfold addAaaa
  split
  · cases aaaa with
    | none => exact safe_pure_PM W () s hi trivial
    | some r =>
      exact safe_bind_PM W (safe_addRrs W optional .additional hint owner _ _ _ _ s hi hwf hh (haaaa r rfl))
        (fun _ s1 hi1 _ _ => safe_pure_PM W () s1 hi1 trivial)
  · exact safe_pure_PM W () s hi trivial

theorem addAdditionalAddresses_safe (z : Zone.Zone) (hz : ZoneOK z) (hint : Hint) (owner : WName)
    (sbc optional : Bool) (s : PS) (hi : W.I s.w) (hwf : owner.WF) (hh : HintOK W.Den s.w hint owner) :
    SafeP W (addAdditionalAddresses z hint owner sbc optional) s (fun _ _ => True) := by
  unfold addAdditionalAddresses
  rcases lookupAddrs_cases z hz (fold owner) sbc (fold_wf owner hwf) with
    ⟨a, aaaa, sos, hl, ha, haaaa⟩ | ⟨x, hl, hx⟩
  · rw [hl]
    cases a with
    | none => exact addAaaa_safe W z hint owner optional aaaa haaaa s hi hwf hh
    | some r =>
      refine safe_bind_PM W (safe_addRrs W optional .additional hint owner _ _ _ _ s hi hwf hh (ha r rfl))
        (fun o s1 hi1 _ hq => ?_)
      cases o with
      | none => exact safe_pure_PM W () s1 hi1 trivial
      | some hv => exact addAaaa_safe W z .mostRecentOwner owner optional aaaa haaaa s1 hi1 hwf (hq hv rfl).2
  · rw [hl]
    cases x with
    | found a b c => exact absurd rfl (hx a b c)
    | referral c ns => exact safe_pure_PM W () s hi trivial
    | nxDomain => exact safe_pure_PM W () s hi trivial
    | wrongZone => exact safe_pure_PM W () s hi trivial

/-! ### `do_additional_section_processing` -/

theorem additionalLoop_safe (z : Zone.Zone) (hz : ZoneOK z) (start : Nat) (cs : List CompType)
    (hshape : Shape cs start) (hvo : Option HV) :
    ∀ (rest pre : List (List UInt8)) (s : PS), W.I s.w →
      (cs ≠ [] → ∀ rd ∈ pre, ∃ n, compNames cs rd = [n]) →
      (∀ v, hvo = some v → HvOK W s.w v ((pre ++ rest).flatMap (compNames cs))) →
      SafeP W (additionalLoop z start hvo rest pre.length) s (fun _ _ => True) := by
  intro rest
  induction rest with
  | nil => intro pre s hi _ _; exact safe_pure_PM W () s hi trivial
  | cons rd rest ih =>
    intro pre s hi hpre hhv
    rcases readName_cases rd start s with ⟨n, hr, hwf, hs, hp⟩ | hr
    · have hint_ok : HintOK W.Den s.w (match (generalizing := false) hvo with | some v => hintFrom v pre.length | none => Hint.none) n := by
        cases hvo with
        | none => trivial
        | some v =>
          refine hintFrom_ok W (hhv v rfl) _ n (fun n' hn' => ?_)
          by_cases hcs : cs = []
          · subst hcs
            have : ∀ l : List (List UInt8), l.flatMap (compNames []) = [] := by
              intro l; induction l with
              | nil => rfl
              | cons a r ih => simp [List.flatMap_cons, compNames, ih]
            rw [this] at hn'; simp at hn'
          · have hl := flatMap_singletons (compNames cs) pre (hpre hcs)
            have hc := compNames_shape hshape hcs rd n hs hp
            rw [List.flatMap_append, List.flatMap_cons, hc, List.getElem?_append_right (by omega), hl] at hn'
            simp at hn'
            exact hn'.symm
      have hrec : ∀ s', W.I s'.w → Mono W.Den s.w s'.w →
          SafeP W (additionalLoop z start hvo rest (pre.length + 1)) s' (fun _ _ => True) := by
        intro s' hi' hm
        have := ih (pre ++ [rd]) s' hi'
          (fun hcs x hx => by
            rcases List.mem_append.mp hx with hx | hx
            · exact hpre hcs x hx
            · simp at hx; subst hx; exact ⟨n, compNames_shape hshape hcs _ n hs hp⟩)
          (fun v hv => by
            have := (hhv v hv).mono W hm
            simpa [List.append_assoc] using this)
        simpa using this
      have prog : SafeP W (do
          addAdditionalAddresses z
            (match (generalizing := false) hvo with | some v => hintFrom v pre.length | none => Hint.none) n false true
          additionalLoop z start hvo rest (pre.length + 1) : PM Unit) s (fun _ _ => True) :=
        safe_bind_PM W (addAdditionalAddresses_safe W z hz _ n false true s hi hwf hint_ok)
          (fun _ s' hi' hm _ => hrec s' hi' hm)
      refine safeP_congr W ?_ prog
      simp only [additionalLoop, PM.bind_apply, hr]
      rfl
    · have e : additionalLoop z start hvo (rd :: rest) pre.length s = (.err .servFail, s) := by
        simp only [additionalLoop, PM.bind_apply, hr]
      unfold SafeP; rw [e]
      exact ⟨by simp, hi, Mono.refl _ _, fun _ h => by cases h⟩

theorem shape_ns (cls ty : Nat) (h : ty = T "MB" ∨ ty = T "MD" ∨ ty = T "MF" ∨ ty = T "NS") :
    V0.componentTypes cls ty = [.compressibleName] := by
  have c : T "MB" = 7 ∧ T "MD" = 3 ∧ T "MF" = 4 ∧ T "NS" = 2 := by decide
  rw [c.1, c.2.1, c.2.2.1, c.2.2.2] at h
  rcases h with h | h | h | h <;> subst h <;>
    simp [V0.componentTypes_arms]

theorem shape_mx (cls : Nat) : V0.componentTypes cls (T "MX") = [.fixedLen 2, .compressibleName] := by
  have : T "MX" = 15 := by decide
  rw [this]
  simp [V0.componentTypes_arms]

theorem shape_srv (cls : Nat) : Shape (V0.componentTypes cls (T "SRV")) 6 := by
  have : T "SRV" = 33 := by decide
  rw [this]
  by_cases h : cls = 1
  · right; right; right; subst h; decide
  · left
    have h' : ¬ 1 = cls := fun e => h e.symm
    simp [V0.componentTypes_arms, h]

theorem doAdditionalSectionProcessing_safe (z : Zone.Zone) (hz : ZoneOK z) (rrType : Nat)
    (rrset : Zone.Rrset) (hvo : Option HV) (s : PS) (hi : W.I s.w)
    (hhv : ∀ v, hvo = some v → HvOK W s.w v (rrset.rdatas.flatMap (rdataNames z.cls rrType))) :
    SafeP W (doAdditionalSectionProcessing z rrType rrset hvo) s (fun _ _ => True) := by
  unfold doAdditionalSectionProcessing
  have loop : ∀ start, Shape (V0.componentTypes z.cls rrType) start →
      SafeP W (additionalLoop z start hvo rrset.rdatas 0) s (fun _ _ => True) := fun start hs =>
    additionalLoop_safe W z hz start _ hs hvo rrset.rdatas [] s hi (fun _ _ h => by cases h)
      (fun v hv => by
        have := hhv v hv
        rw [show rdataNames z.cls rrType = compNames (V0.componentTypes z.cls rrType) from
          funext (rdataNames_v0 _ _)] at this
        simpa using this)
  split
  · exact safe_pure_PM W () s hi trivial
  · split
    · rename_i h
      exact loop 0 (by rw [shape_ns z.cls rrType h]; right; left; exact ⟨rfl, rfl⟩)
    · split
      · rename_i h; subst h
        exact loop 2 (by rw [shape_mx]; right; right; left; rfl)
      · split
        · rename_i h; subst h
          exact loop 6 (shape_srv z.cls)
        · exact safe_pure_PM W () s hi trivial

/-! ### negative answers -/

theorem readSoaMinimum_cases (rd : List UInt8) (s : PS) :
    (∃ v, readSoaMinimum rd s = (.ok v, s)) ∨ readSoaMinimum rd s = (.err .servFail, s) := by
  unfold readSoaMinimum
  cases h1 : WName.parse rd with
  | none => right; rfl
  | some v1 =>
    obtain ⟨n1, r1⟩ := v1
    simp only
    cases h2 : WName.parse r1 with
    | none => right; rfl
    | some v2 =>
      obtain ⟨n2, r2⟩ := v2
      simp only
      split
      · right; rfl
      · split
        · left; exact ⟨_, rfl⟩
        · right; rfl

theorem addNegativeCachingSoa_safe (z : Zone.Zone) (hz : ZoneOK z) (s : PS) (hi : W.I s.w) :
    SafeP W (addNegativeCachingSoa z) s (fun _ _ => True) := by
  unfold addNegativeCachingSoa
  cases Zone.soa z with
  | none => exact safe_fail_PM W _ s hi
  | some rrset =>
    simp only
    cases hrd : rrset.rdatas with
    | nil => exact safe_fail_PM W _ s hi
    | cons rd rest =>
      simp only
      rcases readSoaMinimum_cases rd s with ⟨v, hv⟩ | hv
      · have prog : SafeP W (PM.addRr1 .authority .none (unfold z.apex) (T "SOA") z.cls
            (Nat.min (ttlFrom v) rrset.ttl) rd) s (fun _ _ => True) :=
          (safe_addRr1 W .authority .none (unfold z.apex) (T "SOA") z.cls _ rd s hi hz.apex_wf trivial).weaken W
            (fun _ _ _ _ _ => trivial)
        refine safeP_congr W ?_ prog
        simp only [PM.bind_apply, hv]
      · unfold SafeP
        have e : ∀ (k : Nat → PM Unit), (readSoaMinimum rd >>= k) s = (.err .servFail, s) := by
          intro k; simp only [PM.bind_apply, hv]
        rw [e]
        exact ⟨by simp, hi, Mono.refl _ _, fun _ h => by cases h⟩

/-! ### referrals -/

theorem flatMap_singletons_get {α β : Type} (f : α → List β) (l : List α)
    (h : ∀ a ∈ l, ∃ b, f a = [b]) (i : Nat) (b' : β) (hb : (l.flatMap f)[i]? = some b') :
    ∃ a, l[i]? = some a ∧ f a = [b'] := by
  induction l generalizing i with
  | nil => simp at hb
  | cons a r ih =>
    obtain ⟨b, hfa⟩ := h a (by simp)
    rw [List.flatMap_cons, hfa] at hb
    cases i with
    | zero => simp at hb; subst hb; exact ⟨a, by simp, hfa⟩
    | succ j =>
      simp only [List.singleton_append, List.getElem?_cons_succ] at hb
      obtain ⟨a', ha', hfa'⟩ := ih (fun x hx => h x (by simp [hx])) j hb
      exact ⟨a', by simpa using ha', hfa'⟩

theorem classifyNs_cases (child : WName) : ∀ (rest pre : List (List UInt8)) (s : PS),
    (∃ g a, classifyNs child rest pre.length s = (.ok (g, a), s) ∧
      (∀ p ∈ g ++ a, p.2.WF ∧ ∃ rd, (pre ++ rest)[p.1]? = some rd ∧ WName.parse rd = some (p.2, [])) ∧
      (∀ rd ∈ rest, ∃ n, WName.parse rd = some (n, []))) ∨
    classifyNs child rest pre.length s = (.err .servFail, s) := by
  intro rest
  induction rest with
  | nil =>
    intro pre s
    left
    exact ⟨[], [], rfl, fun p hp => by simp at hp, fun rd hrd => by simp at hrd⟩
  | cons rd rest ih =>
    intro pre s
    rcases readName_cases rd 0 s with ⟨n, hr, hwf, _, hp⟩ | hr
    · simp only [List.drop_zero] at hp
      have hrec := ih (pre ++ [rd]) s
      simp only [List.length_append, List.length_cons, List.length_nil, Nat.zero_add] at hrec
      rcases hrec with ⟨g, a, hc, hall, hparse⟩ | hc
      · have hhere : ∃ rd', (pre ++ rd :: rest)[pre.length]? = some rd' ∧ WName.parse rd' = some (n, []) :=
          ⟨rd, by simp, hp⟩
        have hall' : ∀ p ∈ g ++ a, p.2.WF ∧ ∃ rd', (pre ++ rd :: rest)[p.1]? = some rd' ∧
            WName.parse rd' = some (p.2, []) := by
          intro p hp'
          have := hall p hp'
          simpa [List.append_assoc] using this
        have hparse' : ∀ rd' ∈ rd :: rest, ∃ n, WName.parse rd' = some (n, []) := by
          intro rd' h'
          cases h' with
          | head => exact ⟨n, hp⟩
          | tail _ h'' => exact hparse rd' h''
        left
        by_cases hsub : NameL.eqOrSubdomainOf (fold n) (fold child) = true
        · refine ⟨(pre.length, n) :: g, a, ?_, ?_, hparse'⟩
          · simp only [classifyNs, PM.bind_apply, hr, hc, hsub, if_true]; rfl
          · intro p hp'
            simp only [List.cons_append, List.mem_cons] at hp'
            rcases hp' with rfl | hp'
            · exact ⟨hwf, hhere⟩
            · exact hall' p hp'
        · refine ⟨g, (pre.length, n) :: a, ?_, ?_, hparse'⟩
          · simp only [classifyNs, PM.bind_apply, hr, hc, hsub]; rfl
          · intro p hp'
            simp only [List.mem_append, List.mem_cons] at hp'
            rcases hp' with hp' | rfl | hp'
            · exact hall' p (List.mem_append.mpr (Or.inl hp'))
            · exact ⟨hwf, hhere⟩
            · exact hall' p (List.mem_append.mpr (Or.inr hp'))
      · right
        simp only [classifyNs, PM.bind_apply, hr, hc]
    · right
      simp only [classifyNs, PM.bind_apply, hr]

/-- the two `for (index, nsdname) in …` loops of `do_referral`: safe as long as the vector's entries
    stay valid anchors (`P`, stable under the anchors' monotonicity) -/
theorem glueLoop_safe (z : Zone.Zone) (hz : ZoneOK z) (hv : HV) (optional : Bool) (P : State → Prop)
    (hPm : ∀ w w', P w → Mono W.Den w w' → P w') :
    ∀ (l : List (Nat × WName)),
      (∀ p ∈ l, ∀ w, P w → p.2.WF ∧ HintOK W.Den w (hintFrom hv p.1) p.2) →
      ∀ (s : PS), W.I s.w → P s.w → SafeP W (glueLoop z hv optional l) s (fun _ w' => P w') := by
  intro l
  induction l with
  | nil => intro _ s hi hP; exact safe_pure_PM W () s hi hP
  | cons p r ih =>
    intro hf s hi hP
    unfold glueLoop
    obtain ⟨hwf, hh⟩ := hf p (by simp) s.w hP
    exact safe_bind_PM W (addAdditionalAddresses_safe W z hz _ _ true optional s hi hwf hh)
      (fun _ s1 hi1 hm _ => ih (fun q hq => hf q (by simp [hq])) s1 hi1 (hPm _ _ hP hm))

theorem doReferral_safe (z : Zone.Zone) (hz : ZoneOK z) (child : NameL.Name) (hcw : (unfold child).WF)
    (ns : Zone.Rrset) (hne : ns.rdatas ≠ []) (s : PS) (hi : W.I s.w) :
    SafeP W (doReferral z child ns) s (fun _ _ => True) := by
  unfold doReferral
  refine safe_bind_PM W (safe_addRrs W false .authority .none (unfold child) (T "NS") z.cls ns.ttl
    ns.rdatas s hi hcw trivial hne) (fun hvo s1 hi1 _ hpost => ?_)
  -- the vector whose entries are used: the one returned, or none at all
  have hhv : HvOK W s1.w (hvo.getD []) (ns.rdatas.flatMap (rdataNames z.cls (T "NS"))) := by
    cases hvo with
    | none => intro i p h; simp at h
    | some v => exact (hpost v rfl).1
  rcases classifyNs_cases (unfold child) ns.rdatas [] s1 with ⟨g, a, hc, hall, hparse⟩ | hc
  · simp only [List.length_nil, List.nil_append] at hc hall
    have hint_ok : ∀ p ∈ g ++ a, ∀ w, HvOK W w (hvo.getD []) (ns.rdatas.flatMap (rdataNames z.cls (T "NS"))) →
        p.2.WF ∧ HintOK W.Den w (hintFrom (hvo.getD []) p.1) p.2 := by
      intro p hp w hs'
      obtain ⟨hwf, rd, hrd, hpr⟩ := hall p hp
      refine ⟨hwf, hintFrom_ok W hs' _ _ (fun n' hn' => ?_)⟩
      have hsing : ∀ rd ∈ ns.rdatas, ∃ n, rdataNames z.cls (T "NS") rd = [n] := by
        intro rd' hrd'
        obtain ⟨n, hn⟩ := hparse rd' hrd'
        exact ⟨n, by rw [rdataNames_v0, shape_ns z.cls _ (Or.inr (Or.inr (Or.inr rfl)))]; simp [compNames, hn]⟩
      obtain ⟨rd', hrd', hnames⟩ := flatMap_singletons_get _ _ hsing _ _ hn'
      rw [hrd] at hrd'; cases hrd'
      rw [rdataNames_v0] at hnames
      rw [shape_ns z.cls _ (Or.inr (Or.inr (Or.inr rfl)))] at hnames
      simp [compNames, hpr] at hnames
      exact hnames.symm
    have prog : SafeP W (do
        glueLoop z (hvo.getD []) false g
        glueLoop z (hvo.getD []) true a : PM Unit) s1 (fun _ _ => True) := by
      refine safe_bind_PM W (glueLoop_safe W z hz (hvo.getD []) false
        (fun w => HvOK W w (hvo.getD []) (ns.rdatas.flatMap (rdataNames z.cls (T "NS"))))
        (fun _ _ h hm => h.mono W hm) g
        (fun p hp w hw => hint_ok p (List.mem_append.mpr (Or.inl hp)) w hw) s1 hi1 hhv)
        (fun _ s2 hi2 _ hs2 => ?_)
      exact (glueLoop_safe W z hz (hvo.getD []) true
        (fun w => HvOK W w (hvo.getD []) (ns.rdatas.flatMap (rdataNames z.cls (T "NS"))))
        (fun _ _ h hm => h.mono W hm) a
        (fun p hp w hw => hint_ok p (List.mem_append.mpr (Or.inr hp)) w hw) s2 hi2 hs2).weaken W
        (fun _ _ _ _ _ => trivial)
    refine safeP_congr W ?_ prog
    simp only [PM.bind_apply, hc]
  · unfold SafeP
    simp only [List.length_nil] at hc
    have e : ∀ (k : List (Nat × WName) × List (Nat × WName) → PM Unit),
        (classifyNs (unfold child) ns.rdatas 0 >>= k) s1 = (.err .servFail, s1) := by
      intro k; simp only [PM.bind_apply, hc]
    rw [e]
    exact ⟨by simp, hi1, Mono.refl _ _, fun _ h => by cases h⟩

/-! ### zone lookups as the handler sees them -/

theorem lookup_cases (z : Zone.Zone) (hz : ZoneOK z) (name : NameL.Name) (t : Nat) (o : Zone.Opts)
    (hname : (unfold name).WF) (hsub : o.unchecked = true → z.apex <:+ name) :
    (Zone.lookup z name t o = .ok .wrongZone ∧ o.unchecked = false) ∨
    (∃ r sos, Zone.lookup z name t o = .ok (.found r sos) ∧ r.rdatas ≠ []) ∨
    (∃ r sos, Zone.lookup z name t o = .ok (.cname r sos) ∧ r.rdatas ≠ []) ∨
    (∃ c ns, Zone.lookup z name t o = .ok (.referral c ns) ∧ ns.rdatas ≠ [] ∧ (unfold c).WF) ∨
    (∃ sos, Zone.lookup z name t o = .ok (.noRecords sos)) ∨
    Zone.lookup z name t o = .ok .nxDomain := by
  unfold Zone.lookup
  rcases lookupBase_cases z hz name o hname hsub with ⟨h, hu⟩ | ⟨b, hb, hnw, hf, hr⟩
  · left; rw [h]; exact ⟨rfl, hu⟩
  · rw [hb]
    cases b with
    | found rrsets sos =>
      simp only
      cases h1 : Zone.lookupRrset rrsets t with
      | some r => right; left; exact ⟨r, sos, rfl, hf _ _ rfl r (lookupRrset_mem _ _ _ h1)⟩
      | none =>
        simp only
        cases h2 : Zone.lookupRrset rrsets Gen.T_CNAME with
        | some c => right; right; left; exact ⟨c, sos, rfl, hf _ _ rfl c (lookupRrset_mem _ _ _ h2)⟩
        | none => right; right; right; right; left; exact ⟨sos, rfl⟩
    | referral c ns => right; right; right; left; exact ⟨c, ns, rfl, hr c ns rfl⟩
    | nxDomain => right; right; right; right; right; rfl
    | wrongZone => exact absurd rfl hnw

theorem lookupAll_cases (z : Zone.Zone) (hz : ZoneOK z) (name : NameL.Name)
    (hname : (unfold name).WF) (hsub : z.apex <:+ name) :
    (∃ rrsets sos, Zone.lookupAll z name ⟨true, false⟩ = .ok (.found rrsets sos) ∧ ∀ r ∈ rrsets, r.rdatas ≠ []) ∨
    (∃ c ns, Zone.lookupAll z name ⟨true, false⟩ = .ok (.referral c ns) ∧ ns.rdatas ≠ [] ∧ (unfold c).WF) ∨
    Zone.lookupAll z name ⟨true, false⟩ = .ok .nxDomain := by
  unfold Zone.lookupAll
  rcases lookupBase_cases z hz name ⟨true, false⟩ hname (fun _ => hsub) with ⟨_, hu⟩ | ⟨b, hb, hnw, hf, hr⟩
  · cases hu
  · rw [hb]
    cases b with
    | found rrsets sos => left; exact ⟨rrsets, sos, rfl, hf _ _ rfl⟩
    | referral c ns => right; left; exact ⟨c, ns, rfl, hr c ns rfl⟩
    | nxDomain => right; right; rfl
    | wrongZone => exact absurd rfl hnw

/-! ### CNAME chains -/

theorem shape_cname (cls : Nat) : V0.componentTypes cls (T "CNAME") = [.compressibleName] := by
  have : T "CNAME" = 5 := by decide
  rw [this]
  simp [V0.componentTypes_arms]

theorem rdataNames_cname (cls : Nat) (n : WName) (h : n.WF) : rdataNames cls (T "CNAME") n.wire = [n] := by
  rw [rdataNames_v0, shape_cname]
  have := parse_wire n h []
  simp only [List.append_nil] at this
  simp [compNames, this]

/-- the hint `follow_cname_1` passes with the owner of the next CNAME record -/
def ChainHint (s : State) (qname : WName) (os : List WName) : Prop :=
  match os.getLast? with
  | some o => HintOK W.Den s .mostRecentNameInRdata o
  | none => HintOK W.Den s .qname qname

theorem followCname_safe (z : Zone.Zone) (hz : ZoneOK z) (qname : WName) (hq : qname.WF) (rrType : Nat) :
    ∀ (fuel : Nat) (cn : Zone.Rrset) (os : List WName) (s : PS), W.I s.w → (∀ o ∈ os, o.WF) →
      ChainHint W s.w qname os →
      SafeP W (followCname z qname rrType fuel cn os) s (fun _ _ => True) := by
  intro fuel
  induction fuel with
  | zero => intro cn os s hi _ _; exact safe_fail_PM W _ s hi
  | succ fuel ih =>
    intro cn os s hi hos hch
    unfold followCname
    cases hrd : cn.rdatas with
    | nil => exact safe_fail_PM W _ s hi
    | cons rd rest =>
      simp only
      cases hp : WName.parse rd with
      | none => exact safe_fail_PM W _ s hi
      | some v =>
        obtain ⟨cname, rem⟩ := v
        cases rem with
        | cons a b => exact safe_fail_PM W _ s hi
        | nil =>
          simp only
          have hcw : cname.WF := (parse_sound _ _ _ hp).1
          split
          · exact safe_fail_PM W _ s hi
          · have hstep : ∀ (hint : Hint) (owner : WName), owner.WF → HintOK W.Den s.w hint owner →
                SafeP W (PM.addRr1 .answer hint owner (T "CNAME") z.cls cn.ttl cname.wire) s
                  (fun _ w' => HintOK W.Den w' .mostRecentNameInRdata cname) := by
              intro hint owner how hho
              refine (safe_addRr1 W .answer hint owner _ _ _ _ s hi how hho).weaken W
                (fun _ w' _ _ h => h cname ?_)
              rw [rdataNames_cname z.cls cname hcw]; rfl
            have hrest : ∀ s1 : PS, W.I s1.w → HintOK W.Den s1.w .mostRecentNameInRdata cname →
                SafeP W (match Zone.lookup z (fold cname) rrType ⟨false, false⟩ with
                  | .ok (.found found _) => do
                    let hv ← PM.addRrs false .answer .mostRecentNameInRdata cname rrType z.cls found.ttl found.rdatas
                    doAdditionalSectionProcessing z rrType found hv
                  | .ok (.cname next _) =>
                    if os.length < Gen.MAX_CNAME_CHAIN_LEN - 1 then
                      followCname z qname rrType fuel next (os ++ [cname])
                    else PM.fail .servFail
                  | .ok (.referral child ns) => doReferral z child ns
                  | .ok (.noRecords _) => addNegativeCachingSoa z
                  | .ok .nxDomain => do
                    PM.setRcode (RC "NXDOMAIN")
                    addNegativeCachingSoa z
                  | .ok .wrongZone => pure ()
                  | .err _ => pure ()
                  | .panic => PM.panic : PM Unit) s1 (fun _ _ => True) := by
              intro s1 hi1 hh1
              rcases lookup_cases z hz (fold cname) rrType ⟨false, false⟩ (fold_wf cname hcw) (fun h => by cases h)
                with ⟨h, _⟩ | ⟨r, sos, h, hne⟩ | ⟨r, sos, h, hne⟩ | ⟨c, ns, h, hne, hcwf⟩ | ⟨sos, h⟩ | h
              · rw [h]; exact safe_pure_PM W () s1 hi1 trivial
              · rw [h]
                exact safe_bind_PM W (safe_addRrs W false .answer .mostRecentNameInRdata cname rrType
                  z.cls r.ttl r.rdatas s1 hi1 hcw hh1 hne)
                  (fun hv s2 hi2 _ hhv => doAdditionalSectionProcessing_safe W z hz rrType r hv s2 hi2
                    (fun v hv' => (hhv v hv').1))
              · rw [h]
                simp only
                split
                · refine ih r (os ++ [cname]) s1 hi1 (fun o ho => ?_) ?_
                  · rcases List.mem_append.mp ho with ho | ho
                    · exact hos o ho
                    · simp at ho; subst ho; exact hcw
                  · unfold ChainHint; rw [List.getLast?_concat]; exact hh1
                · exact safe_fail_PM W _ s1 hi1
              · rw [h]; exact doReferral_safe W z hz c hcwf ns hne s1 hi1
              · rw [h]; exact addNegativeCachingSoa_safe W z hz s1 hi1
              · rw [h]
                exact safe_bind_PM W (safe_hdr_setRcode W _ s1 hi1)
                  (fun _ s2 hi2 _ _ => addNegativeCachingSoa_safe W z hz s2 hi2)
            unfold ChainHint at hch
            cases hgl : os.getLast? with
            | none =>
              rw [hgl] at hch
              simp only
              exact safe_bind_PM W (hstep .qname qname hq hch) (fun _ s1 hi1 _ hh1 => hrest s1 hi1 hh1)
            | some o =>
              rw [hgl] at hch
              simp only
              exact safe_bind_PM W (hstep .mostRecentNameInRdata o (hos o (List.mem_of_getLast? hgl)) hch)
                (fun _ s1 hi1 _ hh1 => hrest s1 hi1 hh1)

/-- **the recursion never runs out of fuel**: `owners_seen` (capacity `MAX_CNAME_CHAIN_LEN − 1`)
    stops the chain first — from the fuel `do_cname` starts with, one more unit of fuel changes
    nothing -/
theorem followCname_fuel (z : Zone.Zone) (qname : WName) (rrType : Nat) :
    ∀ (fuel : Nat) (cn : Zone.Rrset) (os : List WName),
      Gen.MAX_CNAME_CHAIN_LEN ≤ fuel + os.length →
      followCname z qname rrType (fuel + 1) cn os = followCname z qname rrType (fuel + 2) cn os := by
  intro fuel
  induction fuel with
  | zero =>
    intro cn os h
    have c : Gen.MAX_CNAME_CHAIN_LEN = 8 := by decide
    have hno : ¬ os.length < Gen.MAX_CNAME_CHAIN_LEN - 1 := by omega
    funext s
    simp only [followCname, hno, if_false]
  | succ fuel ih =>
    intro cn os h
    funext s
    rw [followCname, followCname.eq_def z qname rrType (fuel + 1 + 2)]
    simp only
    by_cases hl : os.length < Gen.MAX_CNAME_CHAIN_LEN - 1
    · simp only [hl, if_true]
      have := fun (next : Zone.Rrset) (c : WName) => ih next (os ++ [c]) (by simp; omega)
      simp only [this]
    · simp only [hl, if_false]

theorem doCname_safe (z : Zone.Zone) (hz : ZoneOK z) (qname : WName) (hq : qname.WF) (cn : Zone.Rrset)
    (rrType : Nat) (s : PS) (hi : W.I s.w) (hh : HintOK W.Den s.w .qname qname) :
    SafeP W (doCname z qname cn rrType) s (fun _ _ => True) := by
  unfold doCname
  exact safe_bind_PM W (safe_hdr_setAa W true s hi)
    (fun _ s1 hi1 hm _ => followCname_safe W z hz qname hq rrType _ cn [] s1 hi1
      (fun o ho => by cases ho) (hintOK_qname_mono W hh hm))

/-! ### `answer`, `answer_any` -/

theorem answer_safe (z : Zone.Zone) (hz : ZoneOK z) (qname : WName) (hq : qname.WF) (qtype : Nat)
    (hsub : z.apex <:+ fold qname) (s : PS) (hi : W.I s.w) (hh : HintOK W.Den s.w .qname qname) :
    SafeP W (answer z qname qtype) s (fun _ _ => True) := by
  unfold answer
  have aa : ∀ (k : PM Unit), (∀ s1 : PS, W.I s1.w → Mono W.Den s.w s1.w → SafeP W k s1 (fun _ _ => True)) →
      SafeP W (do PM.setAa true; k : PM Unit) s (fun _ _ => True) := fun k hk =>
    safe_bind_PM W (safe_hdr_setAa W true s hi) (fun _ s1 hi1 hm _ => hk s1 hi1 hm)
  rcases lookup_cases z hz (fold qname) qtype ⟨true, false⟩ (fold_wf qname hq) (fun _ => hsub)
    with ⟨_, hu⟩ | ⟨r, sos, h, hne⟩ | ⟨r, sos, h, hne⟩ | ⟨c, ns, h, hne, hcwf⟩ | ⟨sos, h⟩ | h
  · cases hu
  · rw [h]
    exact aa _ (fun s1 hi1 hm =>
      safe_bind_PM W (safe_addRrs W false .answer .qname qname qtype z.cls r.ttl r.rdatas s1 hi1 hq
        (hintOK_qname_mono W hh hm) hne)
        (fun hv s2 hi2 _ hhv => doAdditionalSectionProcessing_safe W z hz qtype r hv s2 hi2
          (fun v hv' => (hhv v hv').1)))
  · rw [h]; exact doCname_safe W z hz qname hq r qtype s hi hh
  · rw [h]; exact doReferral_safe W z hz c hcwf ns hne s hi
  · rw [h]; exact aa _ (fun s1 hi1 _ => addNegativeCachingSoa_safe W z hz s1 hi1)
  · rw [h]
    exact safe_bind_PM W (safe_hdr_setRcode W _ s hi)
      (fun _ s1 hi1 _ _ => safe_bind_PM W (safe_hdr_setAa W true s1 hi1)
        (fun _ s2 hi2 _ _ => addNegativeCachingSoa_safe W z hz s2 hi2))

theorem answerAnyLoop_safe (z : Zone.Zone) (qname : WName) (hq : qname.WF) :
    ∀ (rrsets : List Zone.Rrset) (n : Nat) (s : PS), W.I s.w → HintOK W.Den s.w .qname qname →
      (∀ r ∈ rrsets, r.rdatas ≠ []) →
      SafeP W (answerAnyLoop z qname rrsets n) s (fun _ _ => True) := by
  intro rrsets
  induction rrsets with
  | nil => intro n s hi _ _; exact safe_pure_PM W n s hi trivial
  | cons r rest ih =>
    intro n s hi hh hne
    unfold answerAnyLoop
    exact safe_bind_PM W (safe_addRrs W false .answer .qname qname r.rtype z.cls r.ttl r.rdatas s hi hq hh
      (hne r (by simp)))
      (fun _ s1 hi1 hm _ => ih (n + 1) s1 hi1 (hintOK_qname_mono W hh hm) (fun x hx => hne x (by simp [hx])))

theorem answerAny_safe (z : Zone.Zone) (hz : ZoneOK z) (qname : WName) (hq : qname.WF)
    (hsub : z.apex <:+ fold qname) (s : PS) (hi : W.I s.w) (hh : HintOK W.Den s.w .qname qname) :
    SafeP W (answerAny z qname) s (fun _ _ => True) := by
  unfold answerAny
  rcases lookupAll_cases z hz (fold qname) (fold_wf qname hq) hsub
    with ⟨rrsets, sos, h, hne⟩ | ⟨c, ns, h, hne, hcwf⟩ | h
  · rw [h]
    refine safe_bind_PM W (safe_hdr_setAa W true s hi) (fun _ s1 hi1 hm _ => ?_)
    refine safe_bind_PM W (answerAnyLoop_safe W z qname hq rrsets 0 s1 hi1 (hintOK_qname_mono W hh hm) hne)
      (fun n s2 hi2 _ _ => ?_)
    split
    · exact addNegativeCachingSoa_safe W z hz s2 hi2
    · exact safe_pure_PM W () s2 hi2 trivial
  · rw [h]; exact doReferral_safe W z hz c hcwf ns hne s hi
  · rw [h]
    exact safe_bind_PM W (safe_hdr_setRcode W _ s hi)
      (fun _ s1 hi1 _ _ => safe_bind_PM W (safe_hdr_setAa W true s1 hi1)
        (fun _ s2 hi2 _ _ => addNegativeCachingSoa_safe W z hz s2 hi2))

/-! ### `handle_non_axfr_query`, `handle_query` -/

/-- no panic and the writer invariant again, on the writer plus the ghost log -/
def SafeP0 {ε α : Type} (f : PS → Out ε α × PS) (s : PS) : Prop :=
  (f s).1 ≠ .panic ∧ W.I (f s).2.w

theorem clearRrs_apply (s : State) : Writer.clearRrs s = (.ok (), (Writer.clearRrs s).2) := rfl

theorem safeP0_clearRrs (s : PS) (hi : W.I s.w) : SafeP0 W PM.clearRrs s := by
  unfold SafeP0 PM.clearRrs PM.hdrOp
  rw [clearRrs_apply]
  exact ⟨by simp, W.clearRrs_I s.w hi⟩

theorem safeP0_bind {α β : Type} {x : PM α} {g : α → PM β} {s : PS}
    (hx : (x s).1 ≠ .panic ∧ W.I (x s).2.w) (hg : ∀ a s', W.I s'.w → SafeP0 W (g a) s') :
    SafeP0 W (x >>= g) s := by
  obtain ⟨h1, h2⟩ := hx
  unfold SafeP0
  rw [PM.bind_apply]
  generalize x s = r at h1 h2
  obtain ⟨o, s'⟩ := r
  cases o with
  | ok a => exact hg a s' h2
  | err e => exact ⟨by simp, h2⟩
  | panic => exact absurd rfl h1

theorem SafeP.safeP0 {ε α : Type} {f : PS → Out ε α × PS} {s : PS} {Q : α → State → Prop}
    (h : SafeP W f s Q) : SafeP0 W f s := ⟨h.1, h.2.1⟩

theorem handleNonAxfrQueryL_safe (z : Zone.Zone) (hz : ZoneOK z) (qname : WName) (hq : qname.WF)
    (qtype : Nat) (tr : Transport) (hsub : z.apex <:+ fold qname) (s : PS) (hi : W.I s.w)
    (hh : HintOK W.Den s.w .qname qname) : SafeP0 W (handleNonAxfrQueryL z qname qtype tr) s := by
  have hres : SafeP W (fun s => if qtype = QT "ANY" then answerAny z qname s else answer z qname qtype s) s
      (fun _ _ => True) := by
    unfold SafeP
    dsimp only
    split
    · exact answerAny_safe W z hz qname hq hsub s hi hh
    · exact answer_safe W z hz qname hq qtype hsub s hi hh
  obtain ⟨h1, h2, _, _⟩ := hres
  dsimp only at h1 h2
  have ep1 : ∀ s' : PS, W.I s'.w →
      SafeP0 W (do PM.setAa false; PM.setRcode (RC "SERVFAIL"); PM.clearRrs : PM Unit) s' :=
    fun s' hi' => safeP0_bind W (safe_hdr_setAa W false s' hi').safeP0 (fun _ s1 hi1 =>
      safeP0_bind W (safe_hdr_setRcode W _ s1 hi1).safeP0 (fun _ s2 hi2 => safeP0_clearRrs W s2 hi2))
  have ep2 : ∀ s' : PS, W.I s'.w → SafeP0 W (do
      PM.clearRrs
      if tr = Transport.tcp then do PM.setAa false; PM.setRcode (RC "SERVFAIL")
      else PM.setTc true : PM Unit) s' := fun s' hi' =>
    safeP0_bind W (safeP0_clearRrs W s' hi') (fun _ s1 hi1 => by
      split
      · exact (safe_bind_PM W (safe_hdr_setAa W false s1 hi1)
          (fun _ s2 hi2 _ _ => safe_hdr_setRcode W _ s2 hi2)).safeP0
      · exact (safe_hdr_setTc W true s1 hi1).safeP0)
  unfold SafeP0 handleNonAxfrQueryL
  dsimp only
  generalize (if qtype = QT "ANY" then answerAny z qname s else answer z qname qtype s) = res at h1 h2
  obtain ⟨o, s'⟩ := res
  cases o with
  | panic => exact absurd rfl h1
  | ok u => exact ⟨by simp, h2⟩
  | err e =>
    cases e with
    | servFail => exact ep1 s' h2
    | truncation => exact ep2 s' h2

theorem handleNonAxfrQuery_safe (z : Zone.Zone) (hz : ZoneOK z) (qname : WName) (hq : qname.WF)
    (qtype : Nat) (tr : Transport) (hsub : z.apex <:+ fold qname) (s : State) (hi : W.I s)
    (hh : HintOK W.Den s .qname qname) : Safe0 W (handleNonAxfrQuery z qname qtype tr) s := by
  obtain ⟨h1, h2⟩ := handleNonAxfrQueryL_safe W z hz qname hq qtype tr hsub { w := s } hi hh
  unfold Safe0 handleNonAxfrQuery
  generalize handleNonAxfrQueryL z qname qtype tr { w := s } = res at h1 h2
  obtain ⟨o, s'⟩ := res
  cases o with
  | panic => exact absurd rfl h1
  | ok u => exact ⟨by simp, h2⟩
  | err e => exact ⟨by simp, h2⟩

/-- what the library API guarantees about a configuration: each catalog entry is filed under
    the apex of its zone (`Entry::Loaded(zone)`: `entry.name() = zone.name()`), apexes are names,
    stored RRsets are non-empty (`RdataSetOwned`), the EDNS payload size is at least 512
    (`set_edns_udp_payload_size`) -/
structure CfgWF (cfg : Cfg) : Prop where
  payload : 512 ≤ cfg.payload
  zones : ∀ ze ∈ cfg.zones, ze.apex.WF ∧ ze.zone.apex = fold ze.apex ∧
    NodeOK (fun r => r.rdatas ≠ []) ze.zone.root

/-- **L2 + L3**: the QUERY handler never panics -/
theorem querySafe (cfg : Cfg) (hcfg : CfgWF cfg) (tr : Transport) : QuerySafe W cfg tr := by
  intro qn qt qc s hi hq hh
  unfold handleQuery
  simp only
  split
  · exact (safe_setRcode W _ s hi).safe0
  · split
    · exact (safe_setRcode W _ s hi).safe0
    · cases hl : Catalog.lookup (mkCatalog cfg.zones) qn.labels qc with
      | none => exact (safe_setRcode W _ s hi).safe0
      | some e =>
        simp only
        obtain ⟨ze, hze, hname, hkind, hsuf⟩ := mkCatalog_lookup cfg.zones qn.labels qc e hl
        cases hk : e.kind with
        | Loaded =>
          simp only [hze]
          obtain ⟨hawf, haeq, hnode⟩ := hcfg.zones ze (List.mem_of_getElem? hze)
          have hz : ZoneOK ze.zone := ⟨by rw [haeq]; exact fold_wf _ hawf, hnode⟩
          exact handleNonAxfrQuery_safe W ze.zone hz qn hq qt tr (by rw [haeq]; exact hsuf) s hi hh
        | NotYetLoaded => exact (safe_setRcode W _ s hi).safe0
        | FailedToLoad => exact (safe_setRcode W _ s hi).safe0

end QV.ServerSafety
